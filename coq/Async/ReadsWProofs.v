(* Async/ReadsWProofs.v — proofs of Async/ReadsWTargets.v: the read law of C09 along handlers that also write.
   The induction of ConnReads.v run_handler_reads redone over any_script (all eleven opcodes); the two new cases
   (6 = write through a StreamWriter, 7 = flush) rest on the frame part of ConnWrites.v writer_write_all_post:
   a write changes wscript / wlog / epoch / stopped only, so neither the client's undelivered input (remaining),
   nor the event log, nor the request's parser state moves. *)
From Coq Require Import ZArith.
From FV Require Import Base.Bytes Base.BytesLemmas Gen.Generated Codec.Header Parser.ReqModel Parser.StreamModel Parser.AbsStream
  Parser.StreamRefine Parser.StreamSpec Parser.StreamInv Async.Conn Async.ConnWrites Async.ConnTotal Async.ConnReads Async.ReadsWTargets.
From Coq Require Import ZifyBool ZifyNat ZifyN.
Ltac Zify.zify_post_hook ::= Z.div_mod_to_equations.

(* ------------------------------------------------------------------------------------------ *)
(* Part 1: htlaw / hobs_of extend tlaw / obs_of                                                *)
(* ------------------------------------------------------------------------------------------ *)

Lemma htlaw_map a0 u0 : forall os cur T T', htlaw a0 u0 cur T (map HR os) T' <-> tlaw a0 u0 cur T os T'.
Proof.
  induction os as [|o t IH]; intros cur T T'; cbn [map htlaw tlaw hobs_switch hobs_bytes]; [tauto|].
  destruct (obs_switch o) as [s|].
  - destruct (optN_eqb s cur); apply IH.
  - split; intros (T1 & E & H); exists T1; (split; [exact E|apply IH; exact H]).
Qed.

Lemma hobs_of_map script os : obs_of script os -> hobs_of script (map HR os).
Proof. induction 1; cbn [map]; constructor; assumption. Qed.

Lemma hobs_events_map os : flat_map hobs_events (map HR os) = flat_map obs_events os.
Proof. induction os as [|o t IH]; cbn [map flat_map hobs_events]; [reflexivity|rewrite IH; reflexivity]. Qed.

Lemma rd_any_script script : rd_script script -> any_script script.
Proof. induction 1; constructor; assumption. Qed.

(* an operation that stays in the epoch *)
Lemma htlaw_bytes a0 u0 cur T o T1 t T' : hobs_switch o = None -> T = hobs_bytes o ++ T1 ->
  htlaw a0 u0 cur T1 t T' -> htlaw a0 u0 cur T (o :: t) T'.
Proof. intros Hs HT H. cbn [htlaw]. rewrite Hs. exists T1. split; assumption. Qed.

(* a write or a flush: nothing is taken from any stream *)
Lemma htlaw_quiet a0 u0 cur T o t T' : hobs_switch o = None -> hobs_bytes o = [] ->
  htlaw a0 u0 cur T t T' -> htlaw a0 u0 cur T (o :: t) T'.
Proof. intros Hs Hb H. apply (htlaw_bytes a0 u0 cur T o T t T' Hs); [rewrite Hb; reflexivity|exact H]. Qed.

Lemma hfin_ok_cons fin o os st : hfin_ok fin os st -> hfin_ok fin (o :: os) st.
Proof.
  intros [H|(H & k & os' & Hst & E)]; [left; exact H|right]. split; [exact H|].
  exists k, (o :: os'). split; [exact Hst|].
  destruct E as [(lost & E)|E]; [left; exists lost|right]; rewrite E; reflexivity.
Qed.

Lemma hw_post_cons script rest a0 u0 r w o r1 w1 x :
  (forall t, hobs_of rest t -> hobs_of script (o :: t)) ->
  events w1 = hobs_events o ++ events w -> sreq (rsp r1) = sreq (rsp r) ->
  (forall t T', htlaw a0 u0 (stream (rsp r1)) (K (abs (rsp r1)) (remaining w1)) t T' ->
                htlaw a0 u0 (stream (rsp r)) (K (abs (rsp r)) (remaining w)) (o :: t) T') ->
  hw_post rest a0 u0 r1 w1 x -> hw_post script a0 u0 r w x.
Proof.
  intros Hoo Hev Hq HT [os [Ho H]]. exists (o :: os). split; [apply Hoo; exact Ho|].
  assert (Hfm : flat_map hobs_events (rev (o :: os)) ++ events w = flat_map hobs_events (rev os) ++ events w1).
  { cbn [rev]. rewrite flat_map_app. cbn [flat_map]. rewrite app_nil_r, <- app_assoc, Hev. reflexivity. }
  destruct x as [[st r'] w'|ox w'].
  - destruct H as ((fin & H1 & Hfin) & H2 & H3 & H4). split; [exists fin; rewrite Hfm; split; [exact H1|apply hfin_ok_cons; exact Hfin]|]. split; [exact H2|].
    split; [rewrite H3; exact Hq|]. apply HT. exact H4.
  - destruct H as (H1 & T' & H2). split; [rewrite Hfm; exact H1|]. exists T'. apply HT. exact H2.
Qed.

(* the run stopped before completing its first operation *)
Lemma hw_post_halt0 script a0 u0 r w o w' : events w' = events w -> hw_post script a0 u0 r w (Halt o w').
Proof.
  intros E. exists []. split; [constructor|]. cbn [rev flat_map app htlaw]. split; [exact E|eexists; reflexivity].
Qed.

(* set_stream in the extended trace law (switch_law of ConnReads.v, read at the empty trace, is an equation on K) *)
Lemma hswitch_law (maxc : N) a0 u0 r w s p1 : pinv (rsp r) -> later_kept a0 u0 r w -> set_stream (rsp r) s = SetOk p1 ->
  (forall wr lk ab, later_kept a0 u0 (mkR p1 wr lk ab) w) /\
  (forall t T', htlaw a0 u0 s (K (abs p1) (remaining w)) t T' ->
      if optN_eqb s (stream (rsp r)) then htlaw a0 u0 (stream (rsp r)) (K (abs (rsp r)) (remaining w)) t T'
      else htlaw a0 u0 s (F s a0 u0) t T').
Proof.
  intros Hinv J ES. destruct (switch_law maxc a0 u0 r w s p1 Hinv J ES) as [J1 SW]. split; [exact J1|].
  specialize (SW [] (K (abs p1) (remaining w)) eq_refl). intros t T' H.
  destruct (optN_eqb s (stream (rsp r))) eqn:Heq; cbn [tlaw] in SW.
  - apply optN_eqb_eq in Heq. subst s. rewrite <- SW. exact H.
  - rewrite <- SW. exact H.
Qed.

(* ------------------------------------------------------------------------------------------ *)
(* Part 2: the frame of a write through a StreamWriter                                          *)
(* ------------------------------------------------------------------------------------------ *)

Lemma io_rel_remaining w w' b : io_rel w w' b -> remaining w' = remaining w.
Proof. intros H. unfold remaining. destruct (io_rel_same _ _ _ H) as (_ & -> & _). reflexivity. Qed.

Lemma io_rel_events w w' b : io_rel w w' b -> events w' = events w.
Proof. intros H. destruct (io_rel_same _ _ _ H) as (_ & _ & _ & _ & _ & E). exact E. Qed.

(* whatever the transport does (accept sizes, Pending, faults) and however the write ends *)
Lemma writer_write_all_frame fuel stype id data w :
  match writer_write_all fuel stype id data w with
  | Ok _ w' => remaining w' = remaining w /\ events w' = events w
  | Halt _ w' => remaining w' = remaining w /\ events w' = events w
  end.
Proof.
  pose proof (ConnWrites.writer_write_all_post stype id fuel data w) as H.
  destruct (writer_write_all fuel stype id data w) as [[k|] w'|o w']; cbn [wpost] in H.
  - destruct H as (b1 & b2 & _ & _ & H & _). split; [apply (io_rel_remaining _ _ _ H)|apply (io_rel_events _ _ _ H)].
  - split; [apply (io_rel_remaining _ _ _ H)|apply (io_rel_events _ _ _ H)].
  - destruct o; try contradiction.
    + destruct H as (_ & _ & b1 & b2 & _ & _ & H). split; [apply (io_rel_remaining _ _ _ H)|apply (io_rel_events _ _ _ H)].
    + destruct H as (b1 & b2 & _ & H). split; [apply (io_rel_remaining _ _ _ H)|apply (io_rel_events _ _ _ H)].
Qed.

(* ------------------------------------------------------------------------------------------ *)
(* Part 3: the induction                                                                        *)
(* ------------------------------------------------------------------------------------------ *)
Section RW.
Variable maxc : N.

Theorem run_handler_reads_w_sec a0 u0 script : any_script script ->
  forall f r w, pinv (rsp r) -> bytes_ok (remaining w) -> later_kept a0 u0 r w ->
  hw_post script a0 u0 r w (run_handler maxc f script r w).
Proof.
  induction 1 as [|n rest H IH|rest H IH|k rest H IH|s rest H IH|rest H IH|s n rest H IH|s rest H IH|d c rest|k rest|n rest H IH|n rest H IH];
    intros f r w Hinv Hrem J;
    (destruct f as [|f]; [apply hw_post_halt0; reflexivity|]);
    cbn [run_handler].
  - exists []. split; [constructor|]. split; [exists [[8]]; split; [reflexivity|left; eexists; reflexivity]|]. split; [exact Hinv|]. split; reflexivity.
  - (* 1 n *)
    pose proof (await_input_reads maxc (io_fuel w 0) (Some n) r w Hinv Hrem) as AI.
    destruct (await_input maxc (io_fuel w 0) (Some n) r w) as [[[[c b]|k] r1] w1|o w1]; cbn [ai_post] in AI.
    + destruct AI as (dl & A & C & _). cbn [pi_case] in C. destruct C as (-> & _).
      apply (hw_post_cons _ rest a0 u0 r w (HR (ORead c b)) r1 (w_ev (w_ev w1 [1; 1; c]) b)); [intros t Ht; constructor; exact Ht| | | |].
      * cbn [hobs_events obs_events w_ev events app]. rewrite (ac_ev _ _ _ _ _ _ _ A). reflexivity.
      * apply (ac_req _ _ _ _ _ _ _ A).
      * intros t T' HT. rewrite (ac_stream _ _ _ _ _ _ _ A) in HT.
        apply (htlaw_bytes a0 u0 _ _ _ (K (abs (rsp r1)) (remaining w1))); [reflexivity|exact (ac_K _ _ _ _ _ _ _ A)|exact HT].
      * apply IH; [apply (ac_inv _ _ _ _ _ _ _ A)|exact (acct_bytes_ok _ _ _ _ _ _ _ A Hrem)|exact (later_kept_acct _ _ _ _ _ _ _ _ A J)].
    + destruct AI as (dl & A & C & _).
      apply (hw_post_cons _ rest a0 u0 r w (HR (OReadErr k dl)) r1 (w_ev (w_ev w1 [1; 0; k]) [])); [intros t Ht; constructor; exact Ht| | | |].
      * cbn [hobs_events obs_events w_ev events app]. rewrite (ac_ev _ _ _ _ _ _ _ A). reflexivity.
      * apply (ac_req _ _ _ _ _ _ _ A).
      * intros t T' HT. rewrite (ac_stream _ _ _ _ _ _ _ A) in HT.
        apply (htlaw_bytes a0 u0 _ _ _ (K (abs (rsp r1)) (remaining w1))); [reflexivity|exact (ac_K _ _ _ _ _ _ _ A)|exact HT].
      * apply IH; [apply (ac_inv _ _ _ _ _ _ _ A)|exact (acct_bytes_ok _ _ _ _ _ _ _ A Hrem)|exact (later_kept_acct _ _ _ _ _ _ _ _ A J)].
    + destruct AI as (r1 & A & _). apply hw_post_halt0. apply (ac_ev _ _ _ _ _ _ _ A).
  - (* 2 *)
    match goal with |- context [read_all maxc ?fu [] r w] =>
      pose proof (read_all_reads maxc fu [] r w Hinv Hrem) as RA; destruct (read_all maxc fu [] r w) as [[[k acc] r1] w1|o w1] end.
    + destruct RA as (bs & lost & H1 & A & _). cbn [app] in H1. subst acc.
      apply (hw_post_cons _ rest a0 u0 r w (HR (OAll k bs lost)) r1 (w_ev (w_ev w1 [2; k]) bs)); [intros t Ht; constructor; exact Ht| | | |].
      * cbn [hobs_events obs_events w_ev events app]. rewrite (ac_ev _ _ _ _ _ _ _ A). reflexivity.
      * apply (ac_req _ _ _ _ _ _ _ A).
      * intros t T' HT. rewrite (ac_stream _ _ _ _ _ _ _ A) in HT.
        apply (htlaw_bytes a0 u0 _ _ _ (K (abs (rsp r1)) (remaining w1))); [reflexivity|exact (ac_K _ _ _ _ _ _ _ A)|exact HT].
      * apply IH; [apply (ac_inv _ _ _ _ _ _ _ A)|exact (acct_bytes_ok _ _ _ _ _ _ _ A Hrem)|exact (later_kept_acct _ _ _ _ _ _ _ _ A J)].
    + destruct RA as (bs & r1 & A). apply hw_post_halt0. apply (ac_ev _ _ _ _ _ _ _ A).
  - (* 3 k *)
    pose proof (await_input_reads maxc (io_fuel w 0) None r w Hinv Hrem) as AI.
    destruct (await_input maxc (io_fuel w 0) None r w) as [[[[c b]|e] r1] w1|o w1]; cbn [ai_post] in AI.
    + destruct AI as (dl & A & C & _). cbn [pi_case] in C. destruct C as (-> & -> & _).
      set (seen := stream_buffer (rsp r1)). set (cc := N.min k (len seen)).
      pose proof (consume_acct maxc r1 w1 cc (rwriteable r1) (rlock r1) (ac_inv _ _ _ _ _ _ _ A)) as A2. fold seen in A2.
      replace (N.min cc (len seen)) with cc in A2 by (subst cc; lia).
      pose proof (acct_trans0 _ _ _ _ _ _ _ _ _ A A2) as A3. cbn [app] in A3.
      apply (hw_post_cons _ rest a0 u0 r w (HR (OFill cc seen)) (mkR (consume_stream (rsp r1) cc) (rwriteable r1) (rlock r1) (raborted r1))
               (w_ev (w_ev w1 [3; 1; cc]) seen)); [intros t Ht; constructor; exact Ht| | | |].
      * cbn [hobs_events obs_events w_ev events app]. rewrite (ac_ev _ _ _ _ _ _ _ A). reflexivity.
      * apply (ac_req _ _ _ _ _ _ _ A3).
      * intros t T' HT. rewrite (ac_stream _ _ _ _ _ _ _ A3) in HT.
        apply (htlaw_bytes a0 u0 _ _ _ (K (abs (consume_stream (rsp r1) cc)) (remaining w1))); [reflexivity|exact (ac_K _ _ _ _ _ _ _ A3)|exact HT].
      * apply IH; [apply (ac_inv _ _ _ _ _ _ _ A3)|exact (acct_bytes_ok _ _ _ _ _ _ _ A3 Hrem)|exact (later_kept_acct _ _ _ _ _ _ _ _ A3 J)].
    + destruct AI as (dl & A & C & _).
      assert (dl = []).
      { cbn [pi_case] in C. destruct C as [(e0 & _ & _ & _ & C4 & _)|[(C1 & _)|(C1 & _)]]; [apply C4; reflexivity|exact C1|exact C1]. }
      subst dl.
      apply (hw_post_cons _ rest a0 u0 r w (HR (OFillErr e)) r1 (w_ev (w_ev w1 [3; 0; e]) [])); [intros t Ht; constructor; exact Ht| | | |].
      * cbn [hobs_events obs_events w_ev events app]. rewrite (ac_ev _ _ _ _ _ _ _ A). reflexivity.
      * apply (ac_req _ _ _ _ _ _ _ A).
      * intros t T' HT. rewrite (ac_stream _ _ _ _ _ _ _ A) in HT.
        apply (htlaw_bytes a0 u0 _ _ _ (K (abs (rsp r1)) (remaining w1))); [reflexivity|exact (ac_K _ _ _ _ _ _ _ A)|exact HT].
      * apply IH; [apply (ac_inv _ _ _ _ _ _ _ A)|exact (acct_bytes_ok _ _ _ _ _ _ _ A Hrem)|exact (later_kept_acct _ _ _ _ _ _ _ _ A J)].
    + destruct AI as (r1 & A & _). apply hw_post_halt0. apply (ac_ev _ _ _ _ _ _ _ A).
  - (* 4 s *)
    destruct (set_stream (rsp r) (Some s)) as [p1| |] eqn:ES; try (apply hw_post_halt0; reflexivity).
    destruct (set_stream_step maxc _ _ _ Hinv ES) as (I1 & Q1 & S1 & _).
    destruct (hswitch_law maxc a0 u0 r w (Some s) p1 Hinv J ES) as [J1 SW].
    apply (hw_post_cons _ rest a0 u0 r w (HR (OSet (stream_code (stream p1)))) (mkR p1 (rwriteable r) (rlock r) (raborted r))
             (w_ev w [4; stream_code (stream p1)])); [intros t Ht; constructor; exact Ht| | | |].
    + reflexivity.
    + exact Q1.
    + intros t T' HT. cbn [htlaw hobs_switch obs_switch]. rewrite (code_stream_code p1 (pinv_stream_ok _ I1)), S1.
      apply SW. cbn [rsp] in HT. rewrite S1 in HT. exact HT.
    + apply IH; [exact I1|exact Hrem|apply J1].
  - (* 5 *)
    destruct (do_writeable maxc r w) as [[e r1] w1|o w1] eqn:ED.
    2:{ apply hw_post_halt0. apply (do_writeable_halt_events _ _ _ _ _ Hinv Hrem ED). }
    destruct (do_writeable_gate maxc r w e r1 w1 Hinv Hrem ED) as [G1 G2].
    set (o := OWr (match e with None => 0 | Some k => k end) (if rwriteable r1 then 1 else 0) (stream_code (stream (rsp r1)))).
    destruct (rwriteable r) eqn:Ewr.
    + destruct (G1 eq_refl) as (-> & -> & ->).
      apply (hw_post_cons _ rest a0 u0 r w (HR o) r (w_ev w [5; 0; if rwriteable r then 1 else 0; stream_code (stream (rsp r))]));
        [intros t Ht; constructor; exact Ht| | | |].
      * reflexivity.
      * reflexivity.
      * intros t T' HT. subst o. cbn [htlaw hobs_switch obs_switch]. rewrite (code_stream_code _ (pinv_stream_ok _ Hinv)), optN_eqb_refl. exact HT.
      * apply IH; [exact Hinv|exact Hrem|exact J].
    + destruct (G2 eq_refl) as (p1 & ES & S & Q & _ & A & _). cbv zeta in *.
      destruct (hswitch_law maxc a0 u0 r w _ p1 Hinv J ES) as [J1 SW].
      pose proof (ac_K _ _ _ _ _ _ _ A) as HK. cbn [app rsp] in HK.
      apply (hw_post_cons _ rest a0 u0 r w (HR o) r1 (w_ev w1 [5; match e with None => 0 | Some k => k end; if rwriteable r1 then 1 else 0;
                                                     stream_code (stream (rsp r1))])); [intros t Ht; constructor; exact Ht| | | |].
      * cbn [hobs_events obs_events w_ev events app o]. rewrite (ac_ev _ _ _ _ _ _ _ A). reflexivity.
      * exact Q.
      * intros t T' HT. subst o. cbn [htlaw hobs_switch obs_switch].
        rewrite (code_stream_code _ (pinv_stream_ok _ (ac_inv _ _ _ _ _ _ _ A))), S.
        apply SW. rewrite S in HT. rewrite HK. exact HT.
      * apply IH; [apply (ac_inv _ _ _ _ _ _ _ A)|exact (acct_bytes_ok _ _ _ _ _ _ _ A Hrem)|].
        exact (later_kept_acct _ _ _ _ _ _ _ _ A (J1 false (rlock r) (raborted r))).
  - (* 6 s n data: a write through a StreamWriter *)
    cbv zeta.
    assert (STEP : forall code w1, remaining w1 = remaining w -> events w1 = events w ->
              (forall t, hobs_of (drop n rest) t -> hobs_of (6 :: s :: n :: rest) (HWrite code :: t)) ->
              hw_post (6 :: s :: n :: rest) a0 u0 r w (run_handler maxc f (drop n rest) r (w_ev w1 [6; code]))).
    { intros code w1 Er Ee Hoo.
      apply (hw_post_cons _ (drop n rest) a0 u0 r w (HWrite code) r (w_ev w1 [6; code])); [exact Hoo| | | |].
      * cbn [hobs_events w_ev events app]. rewrite Ee. reflexivity.
      * reflexivity.
      * intros t T' HT. rewrite remaining_ev, Er in HT. apply htlaw_quiet; [reflexivity|reflexivity|exact HT].
      * apply IH; [exact Hinv|rewrite remaining_ev, Er; exact Hrem|].
        intros sg Hl. rewrite remaining_ev, Er. apply J. exact Hl. }
    destruct (negb (rwriteable r)).
    { apply (STEP 99 w); [reflexivity|reflexivity|intros t Ht; apply HO_write_refused; exact Ht]. }
    destruct (rlock r && negb (len (take n rest) =? 0)).
    { apply hw_post_halt0. reflexivity. }
    pose proof (writer_write_all_frame (N.to_nat (n / 65535) + 2) s (r_id (sreq (rsp r))) (take n rest) w) as WF.
    destruct (writer_write_all (N.to_nat (n / 65535) + 2) s (r_id (sreq (rsp r))) (take n rest) w) as [[k|] w1|o w1];
      destruct WF as [Er Ee].
    + (* the write failed: its error is the handler's result *)
      exists [HWrite k]. split; [apply HO_write_err|].
      split; [exists []; split; [cbn [rev flat_map hobs_events w_ev events app]; rewrite Ee; reflexivity|]|].
      { right. split; [reflexivity|]. exists k, []. split; [reflexivity|right; reflexivity]. }
      split; [exact Hinv|]. split; [reflexivity|].
      apply htlaw_quiet; [reflexivity|reflexivity|]. cbn [htlaw]. rewrite remaining_ev, Er. reflexivity.
    + apply (STEP 0 w1 Er Ee). intros t Ht; apply HO_write; exact Ht.
    + apply hw_post_halt0. exact Ee.
  - (* 7 s: flush *)
    assert (STEP : forall code, hw_post (7 :: s :: rest) a0 u0 r w (run_handler maxc f rest r (w_ev w [7; code]))).
    { intros code.
      apply (hw_post_cons _ rest a0 u0 r w (HFlush code) r (w_ev w [7; code])); [intros t Ht; constructor; exact Ht| | | |].
      * reflexivity.
      * reflexivity.
      * intros t T' HT. rewrite remaining_ev in HT. apply htlaw_quiet; [reflexivity|reflexivity|exact HT].
      * apply IH; [exact Hinv|exact Hrem|exact J]. }
    destruct (rwriteable r); [destruct (rlock r); [apply hw_post_halt0; reflexivity|apply STEP]|apply STEP].
  - exists []. split; [constructor|]. split; [exists [[8]]; split; [reflexivity|left; eexists; reflexivity]|]. split; [exact Hinv|]. split; reflexivity.
  - exists []. split; [constructor|]. split; [exists [[9]]; split; [reflexivity|left; eexists; reflexivity]|]. split; [exact Hinv|]. split; reflexivity.
  - (* 10 n *)
    pose proof (await_input_reads maxc (io_fuel w 0) (Some n) r w Hinv Hrem) as AI.
    destruct (await_input maxc (io_fuel w 0) (Some n) r w) as [[[[c b]|k] r1] w1|o w1]; cbn [ai_post] in AI.
    + destruct AI as (dl & A & C & _). cbn [pi_case] in C. destruct C as (-> & _).
      apply (hw_post_cons _ rest a0 u0 r w (HR (ORead c b)) r1 (w_ev (w_ev w1 [1; 1; c]) b)); [intros t Ht; constructor; exact Ht| | | |].
      * cbn [hobs_events obs_events w_ev events app]. rewrite (ac_ev _ _ _ _ _ _ _ A). reflexivity.
      * apply (ac_req _ _ _ _ _ _ _ A).
      * intros t T' HT. rewrite (ac_stream _ _ _ _ _ _ _ A) in HT.
        apply (htlaw_bytes a0 u0 _ _ _ (K (abs (rsp r1)) (remaining w1))); [reflexivity|exact (ac_K _ _ _ _ _ _ _ A)|exact HT].
      * apply IH; [apply (ac_inv _ _ _ _ _ _ _ A)|exact (acct_bytes_ok _ _ _ _ _ _ _ A Hrem)|exact (later_kept_acct _ _ _ _ _ _ _ _ A J)].
    + (* the read error is the handler's result *)
      destruct AI as (dl & A & C & _). exists [HR (OReadErr k dl)]. split; [apply HO_readq_err|].
      split; [exists []; split; [cbn [rev flat_map hobs_events obs_events w_ev events app]; rewrite (ac_ev _ _ _ _ _ _ _ A); reflexivity|]|].
      { right. split; [reflexivity|]. exists k, []. split; [reflexivity|left; exists dl; reflexivity]. }
      split; [apply (ac_inv _ _ _ _ _ _ _ A)|]. split; [apply (ac_req _ _ _ _ _ _ _ A)|].
      apply (htlaw_bytes a0 u0 _ _ _ (K (abs (rsp r1)) (remaining w1))); [reflexivity|exact (ac_K _ _ _ _ _ _ _ A)|reflexivity].
    + destruct AI as (r1 & A & _). apply hw_post_halt0. apply (ac_ev _ _ _ _ _ _ _ A).
  - (* 11 n: one poll; Ready or Pending, the bytes taken from K are accounted for and the script goes on *)
    destruct (poll_input maxc (io_fuel w (len (buffer (rsp r)))) (Some n) r w) as [[p r1] w1] eqn:EP.
    destruct (poll_input_reads maxc (io_fuel w (len (buffer (rsp r)))) (Some n) r w p r1 w1 Hinv Hrem
                ltac:(rewrite io_fuel_remaining; lia) EP) as (dl & A & C & _).
    assert (STEP : forall o e b, hobs_switch (HR o) = None -> obs_events o = [b; e] -> obs_bytes o = dl ->
              (forall t, hobs_of rest t -> hobs_of (11 :: n :: rest) (HR o :: t)) ->
              hw_post (11 :: n :: rest) a0 u0 r w (run_handler maxc f rest r1 (w_ev (w_ev w1 e) b))).
    { intros o e b Hsw Hev Hby Hoo.
      apply (hw_post_cons _ rest a0 u0 r w (HR o) r1 (w_ev (w_ev w1 e) b)); [exact Hoo| | | |].
      * cbn [hobs_events]. rewrite Hev. cbn [w_ev events app]. rewrite (ac_ev _ _ _ _ _ _ _ A). reflexivity.
      * apply (ac_req _ _ _ _ _ _ _ A).
      * intros t T' HT. rewrite (ac_stream _ _ _ _ _ _ _ A) in HT.
        apply (htlaw_bytes a0 u0 _ _ _ (K (abs (rsp r1)) (remaining w1))); [exact Hsw|cbn [hobs_bytes]; rewrite Hby; exact (ac_K _ _ _ _ _ _ _ A)|exact HT].
      * apply IH; [apply (ac_inv _ _ _ _ _ _ _ A)|exact (acct_bytes_ok _ _ _ _ _ _ _ A Hrem)|exact (later_kept_acct _ _ _ _ _ _ _ _ A J)]. }
    destruct p as [[[c b]|k]| |]; cbn [pi_case] in C.
    + destruct C as (<- & _).
      apply (STEP (OPoll c (if rwriteable r1 then 1 else 0) dl)); try reflexivity. intros t Ht; constructor; exact Ht.
    + apply (STEP (OPollErr k (if rwriteable r1 then 1 else 0) dl)); try reflexivity. intros t Ht; constructor; exact Ht.
    + destruct C as (Hdl & _).
      apply (STEP (OPollPending (if rwriteable r1 then 1 else 0))); try reflexivity; [symmetry; exact Hdl|]. intros t Ht; constructor; exact Ht.
    + destruct C as (Hdl & _).
      apply (STEP (OPollPending (if rwriteable r1 then 1 else 0))); try reflexivity; [symmetry; exact Hdl|]. intros t Ht; constructor; exact Ht.
Qed.

End RW.

Theorem run_handler_reads_w : run_handler_reads_w_stmt.
Proof. intros maxc a0 u0 script Hs f r w. apply run_handler_reads_w_sec. exact Hs. Qed.

Theorem run_handler_reads_w_top : run_handler_reads_w_top_stmt.
Proof.
  intros maxc script f r w Hs Hinv Hrem. apply run_handler_reads_w; try assumption. intros sg _. reflexivity.
Qed.

(* ------------------------------------------------------------------------------------------ *)
(* Part 4: non-vacuity                                                                          *)
(* ------------------------------------------------------------------------------------------ *)
(* A Responder request (the state and world of exA_* in Async/LoopProofs2.v) whose handler reads 2 bytes of stdin,
   writes one byte to stdout (after a wake-up of the writer), reads again (read(buf)?), flushes and exits. *)
Definition exB_stdin : bytes := [1; 5; 0; 1; 0; 3; 5; 0; 97; 98; 99; 0; 0; 0; 0; 0].
Definition exB_r : rstate := mkR (new_sparser 64 (mkReq 1 1 1 [])) true false false.
Definition exB_w : world := mkW [0; 3; 0] [0; 4] [(0, 0, exB_stdin)] [] 0 1 0 false false [].
Definition exB_script : list N := [1; 2; 6; 6; 1; 33; 10; 3; 7; 6; 8; 0; 0].
Definition exB_os : list hobs := [HR (ORead 2 [97; 98]); HWrite 0; HR (ORead 1 [99]); HFlush 0].

Example exB_any_script : any_script exB_script.
Proof. unfold exB_script. repeat (constructor; vm_compute). Qed.

Example exB_hyps : pinv (rsp exB_r) /\ bytes_ok (remaining exB_w) /\ K (abs (rsp exB_r)) (remaining exB_w) = [97; 98; 99].
Proof.
  split; [apply new_sparser_pinv|]. split; [apply bytes_okb_ok; vm_compute; reflexivity|vm_compute; reflexivity].
Qed.

(* the run returns Ok; the events are those of exB_os (newest first) under the event of the return *)
Example exB_run : exists r' w',
  run_handler 10 20 exB_script exB_r exB_w = Ok (inl (0, 0), r') w' /\
  events w' = [[8]; [7; 0]; [99]; [1; 1; 1]; [6; 0]; [97; 98]; [1; 1; 2]] /\
  events w' = [[8]] ++ flat_map hobs_events (rev exB_os) ++ events exB_w /\
  wlog w' = [1; 6; 0; 1; 0; 1; 7; 0; 33; 0; 0; 0; 0; 0; 0; 0] /\
  K (abs (rsp r')) (remaining w') = [].
Proof. do 2 eexists. split; [vm_compute; reflexivity|]. repeat split. Qed.

(* the observations are those of the script, and the law says: [97; 98] then [99] is the stream, the write in between
   notwithstanding *)
Example exB_law a0 u0 : hobs_of exB_script exB_os /\ htlaw a0 u0 (Some 5) [97; 98; 99] exB_os [].
Proof.
  split.
  - unfold exB_script, exB_os. apply HO_read. apply HO_write. change (drop 1 [33; 10; 3; 7; 6; 8; 0; 0]) with [10; 3; 7; 6; 8; 0; 0].
    apply HO_readq. apply HO_flush. apply HO_nil.
  - cbn [exB_os htlaw hobs_switch hobs_bytes obs_switch obs_bytes].
    exists [99]. split; [reflexivity|]. exists [99]. split; [reflexivity|]. exists []. split; [reflexivity|].
    exists []. split; reflexivity.
Qed.

(* the theorem at this instance *)
Example exB_instance : hw_post exB_script (abs (rsp exB_r)) (remaining exB_w) exB_r exB_w (run_handler 10 20 exB_script exB_r exB_w).
Proof.
  destruct exB_hyps as (H1 & H2 & _). apply run_handler_reads_w_top; [exact exB_any_script|exact H1|exact H2].
Qed.

(* a script that selects a stream, is refused nothing, reads to the end and fails: writes before, between and after *)
Definition exB_script2 : list N := [6; 6; 1; 33; 4; 5; 1; 2; 6; 7; 2; 34; 35; 2; 7; 6; 5; 6; 6; 0; 9; 3].

Example exB_any_script2 : any_script exB_script2.
Proof. unfold exB_script2. repeat (constructor; vm_compute). Qed.

Example exB_run2 : exists r' w',
  run_handler 10 20 exB_script2 exB_r exB_w = Ok (inr 3, r') w' /\
  events w' = [[9]; [6; 0]; [5; 0; 1; 5]; [7; 0]; [99]; [2; 3]; [6; 0]; [97; 98]; [1; 1; 2]; [4; 5]; [6; 0]].
Proof. do 2 eexists. split; [vm_compute; reflexivity|reflexivity]. Qed.

Print Assumptions run_handler_reads_w.
Print Assumptions run_handler_reads_w_top.
