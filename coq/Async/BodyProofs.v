(* Async/BodyProofs.v — proof of Async/BodyTargets.v: over a whole connection of the ONE-OUTSTANDING client, handler
   invocation i can read exactly the body of request i.
   Part 0: the ghost trace erases.
   Part A: the content at a handler start: a fresh stream parser (no record in progress, nothing delivered) standing in
           front of the stream records of its own request, in which every input stream of the role is terminated, owes for
           every input stream exactly that stream's content in those records, whatever follows them.
   Part B: the handover of PeerProofs4 once more, now keeping what it knows about the stream parser handed over and about
           the client bytes outstanding: (bytes held) ++ (bytes not yet read) = (stream records of THIS request) ++ (all
           later segments).
   Part C: Token::run with the trace (the induction of PeerProofs4.run_loop_tr_prefix), the theorem.
   Part D: the instance of PeerProofs4. *)
From Coq Require Import ZArith.
From FV Require Import Base.Bytes Base.BytesLemmas Gen.Generated Codec.Varint Codec.VarintProofs Codec.NV Codec.NVProofs
  Codec.Header Codec.Bodies Codec.Vars Codec.ProtoProofs
  Parser.ReqModel Parser.ReqParamsSpec Parser.ReqWire Parser.ReqTargets Parser.ReqParams Parser.ReqDrive Parser.ReqRecords Parser.ReqFinal
  Parser.StreamModel Parser.AbsStream Parser.StreamRefine Parser.StreamSpec Parser.StreamInv Parser.StreamSeqProofs Parser.StreamFinal Parser.EnvCanon
  Async.ConnWrites Async.ConnTotal Async.Conn Async.ConnReads Async.PeerTargets Async.PeerProofs Async.PeerTargets2 Async.PeerProofs2
  Async.PeerTargets3 Async.PeerProofs3 Async.LoopTargets Async.LoopProofs Async.PeerTargets4 Async.PeerProofs4 Async.BodyTargets.
From Coq Require Import ZifyBool ZifyNat ZifyN.
Ltac Zify.zify_post_hook ::= Z.div_mod_to_equations.

Notation flat := (flat_map (fun s : N * N * bytes => snd s)).

(* ------------------------------------------------------------------------------------------ *)
(* Part 0: the ghost trace erases                                                               *)
(* ------------------------------------------------------------------------------------------ *)
Theorem run_loop_body_erase_proof : run_loop_body_erase_stmt.
Proof.
  intros norm maxc fuel. induction fuel as [|f IH]; intros p scripts served w acc; [reflexivity|].
  cbn [run_loop_body run_loop]. destruct (stopped w); [reflexivity|].
  destruct (parse_request norm maxc (io_fuel w 0) p [] w) as [[s0|k] w1|o w1]; [|reflexivity|reflexivity].
  cbv zeta.
  match goal with |- context [run_handler maxc ?fu ?sc ?r0 ?w2] => destruct (run_handler maxc fu sc r0 w2) as [[st r1] w3|o w3] end;
    [|reflexivity].
  match goal with |- fst (match ?s with Some _ => _ | None => _ end) = _ => destruct s as [[d c]|] end; [|reflexivity].
  destruct (do_close maxc r1 d c w3) as [[rp|k] w4|o w4]; [apply IH|reflexivity|reflexivity].
Qed.

(* ------------------------------------------------------------------------------------------ *)
(* Part A: the content at a handler start                                                       *)
(* ------------------------------------------------------------------------------------------ *)
Lemma optN_eqb_true a b : optN_eqb a b = true -> a = b.
Proof.
  destruct a as [x|], b as [y|]; cbn [optN_eqb]; intros H; try discriminate H; try reflexivity.
  apply N.eqb_eq in H. subst y. reflexivity.
Qed.

Lemma role_input_sel_ok role sg : In sg (role_input_streams role) -> sel_ok (Some sg).
Proof.
  intros H. cbn [sel_ok]. destruct (role_streams_cases role) as [Hr|[Hr|Hr]]; rewrite Hr in H; cbn [In] in H.
  - destruct H as [<-|[]]. reflexivity.
  - destruct H.
  - destruct H as [<-|[<-|[]]]; reflexivity.
Qed.

(* a stream that is terminated inside the record list: its content is read off the records, whatever follows *)
Lemma CF_ended role id sg rs t : Forall rcd_ok rs -> sel_ok sg -> ended_rcds role id sg rs = true ->
  CF role id sg false 0 0 (enc_rcds rs ++ t) = content_rcds role id sg rs.
Proof.
  intros Hrs Hs He. rewrite (CF_rcds role id sg rs t Hrs Hs). rewrite (ended_not_open role id sg rs He). apply app_nil_r.
Qed.

Lemma to_come_start role id a u srs X sg :
  r_role (a_req a) = role -> r_id (a_req a) = id -> a_parsed a = [] -> a_prem a = 0 -> a_pad a = 0 -> a_st a = SSkip ->
  a_raw a ++ u = enc_rcds srs ++ X -> Forall rcd_ok srs -> In sg (role_input_streams role) ->
  ended_rcds role id (Some sg) srs = true ->
  to_come sg a u = content_rcds role id (Some sg) srs.
Proof.
  intros Hrole Hid Hpar Hp Hq Hst Hraw Hrs Hin He.
  pose proof (role_input_sel_ok role sg Hin) as Hsel.
  pose proof (CF_ended role id (Some sg) srs X Hrs Hsel He) as HCF. unfold CF in HCF.
  unfold to_come. destruct (optN_eqb (Some sg) (a_stream a)) eqn:Eq.
  - apply optN_eqb_true in Eq. unfold K, cur_of. rewrite Hrole, Hid, Hpar, Hp, Hq, Hst, <- Eq, Hraw. cbn [app]. exact HCF.
  - unfold F. rewrite Hrole, Hid, Hp, Hq, Hraw. exact HCF.
Qed.

(* ------------------------------------------------------------------------------------------ *)
(* Part B, C: the handover, Token::run with the trace                                            *)
(* ------------------------------------------------------------------------------------------ *)
Lemma remaining_fold (env : list (bytes * bytes)) : forall w,
  remaining (fold_left (fun w p => w_ev (w_ev w (fst p)) (snd p)) env w) = remaining w.
Proof. induction env as [|e t IH]; intros w; [reflexivity|]. cbn [fold_left]. rewrite IH. reflexivity. Qed.

Section LoopB.
Variable norm : bytes -> bytes.
Variable maxc : N.
Variable B : N.
Hypothesis HB : B < SIZE_LIMIT - 8.
Variable scripts : list (list N).
Hypothesis Hscripts : scripts_ok true scripts.
Notation CAP := (aligned_bufsize B).

(* what the handover knows about the stream parser and the bytes outstanding *)
Lemma handover_body ge gm c cs' ps p w fuel s0 w1 :
  creq_ok c -> Forall (fun s : N * N * creq => creq_ok (snd s)) cs' -> creq_fits B c ps ->
  between B ((ge, gm, c) :: cs') p w ->
  parse_request norm maxc fuel p [] w = Ok (inl s0) w1 ->
  a_req (abs s0) = sreq s0 /\ a_parsed (abs s0) = [] /\ a_stream (abs s0) = next_input_stream (r_role (sreq s0)) None /\
  a_prem (abs s0) = 0 /\ a_pad (abs s0) = 0 /\ a_st (abs s0) = SSkip /\
  a_raw (abs s0) ++ remaining w1 = enc_rcds (c_srs c) ++ flat (enc_client cs').
Proof.
  intros Hc Hcs' (F1 & F2 & F3 & F4 & F5) (junk & cur & (J1 & J2 & J3) & Hsg & Hheld & Hp & HL & Hrem & Hsz & _) E.
  destruct p as [pc L ps0]. cbn [held] in *. injection Hp as -> ->.
  pose proof (between_flat _ (mkParser CAP L Header) w junk cur Hsg Hheld) as Hfl. cbn [held] in Hfl.
  assert (HbL : bytes_ok L).
  { pose proof (rcds_bytes_ok junk J1) as H. rewrite <- Hheld in H. apply bytes_ok_app in H. apply H. }
  assert (Hpok : parser_ok (mkParser CAP L Header)) by (apply reuse_parser_ok; assumption).
  pose proof Hc as (C1 & C2 & C3 & C4 & C5 & C6 & C7).
  set (X := flat (enc_client cs')) in *.
  assert (HflX : flat (enc_client ((ge, gm, c) :: cs')) = enc_rcds (preamble_rcds (c_pre c)) ++ enc_rcds (c_srs c) ++ X).
  { cbn [enc_client map flat_map fst snd]. unfold creq_rcds. rewrite enc_rcds_app, <- app_assoc. reflexivity. }
  set (pw := pre_with junk (c_pre c)).
  set (trailing := enc_rcds (c_srs c) ++ X).
  assert (Hwire : L ++ remaining w = enc_rcds (preamble_rcds pw) ++ trailing).
  { rewrite Hfl, HflX. unfold pw, trailing. rewrite preamble_rcds_with, enc_rcds_app, <- app_assoc. reflexivity. }
  assert (Htr : bytes_ok trailing).
  { pose proof (world_ok_remaining w (world_ok_of_remaining _ Hrem)) as H.
    assert (H2 : bytes_ok (L ++ remaining w)) by (apply bytes_ok_app; split; assumption).
    rewrite Hwire in H2. apply bytes_ok_app in H2. apply H2. }
  assert (Hsz' : len (enc_rcds (preamble_rcds pw) ++ trailing) < SIZE_LIMIT).
  { rewrite <- Hwire, Hfl, len_app. exact Hsz. }
  destruct (handler_sees_request norm maxc fuel B L w pw ps trailing s0 w1 HB HbL HL (world_ok_of_remaining _ Hrem)
              (preamble_ok_with junk (c_pre c) J1 J2 C1) F1 F2 F3 (preamble_fits_with CAP junk (c_pre c) J3 F4) Htr Hsz' Hwire E)
    as (_ & _ & R3 & _).
  assert (PK0 : PK ge gm (enc_rcds (creq_rcds c)) (enc_client cs') false (mkParser CAP L Header) [] (segs w)).
  { exists cur. split; [exact Hsg|]. cbn [st held app]. rewrite Hheld. unfold VS. cbn [rvm sprem spad].
    apply VB_MI_junk; assumption. }
  destruct (parse_request_K norm maxc ge gm (enc_rcds (creq_rcds c)) (enc_client cs') (creq_seg_ok c Hc) (enc_client_ne cs' Hcs')
              fuel false (mkParser CAP L Header) [] w s0 w1 Hpok ltac:(constructor) ltac:(rewrite len_nil; lia) Hrem PK0 E)
    as (g' & p' & rq & P1 & P2 & P3 & P4 & _ & P6).
  destruct (into_stream_parser_inv p' rq P1 P3) as (sp0 & EI & _ & Hq & _ & _ & _ & _ & _ & _ & _ & Habs).
  rewrite P4 in EI. injection EI as <-.
  change (a_raw (abs s0)) with (raw_bytes s0). rewrite R3.
  rewrite Habs. cbn [a_req a_parsed a_stream a_prem a_pad a_st]. rewrite Hq.
  repeat split; reflexivity.
Qed.

(* one entry of the trace, for request c with pairs ps *)
Definition entry_ok (c : creq) (ps : list (bytes * bytes)) (e : req * ast * bytes) : Prop :=
  fst (fst e) = sent_request norm c ps /\
  a_req (snd (fst e)) = fst (fst e) /\ a_parsed (snd (fst e)) = [] /\
  a_stream (snd (fst e)) = next_input_stream (w_role (c_pre c)) None /\
  forall sg, In sg (role_input_streams (w_role (c_pre c))) ->
    to_come sg (snd (fst e)) (snd e) = content_rcds (w_role (c_pre c)) (w_id (c_pre c)) (Some sg) (c_srs c).

Fixpoint tr_ok (l : list (req * ast * bytes)) (cs : list (N * N * creq)) (pairss : list (list (bytes * bytes))) : Prop :=
  match l with
  | [] => True
  | e :: l' =>
    match cs, pairss with
    | s :: cs', ps :: pairss' => entry_ok (snd s) ps e /\ tr_ok l' cs' pairss'
    | _, _ => False
    end
  end.

Lemma run_loop_body_prefix : forall fuel cs pairss p served w acc,
  Forall (fun s : N * N * creq => creq_ok (snd s)) cs ->
  Forall2 (fun (s : N * N * creq) ps => creq_fits B (snd s) ps) cs pairss ->
  between B cs p w ->
  exists l, snd (run_loop_body norm maxc fuel p scripts served w acc) = acc ++ l /\ tr_ok l cs pairss.
Proof.
  induction fuel as [|f IH]; intros cs pairss p served w acc Hcs Hfit Hbt.
  { exists []. cbn [run_loop_body snd tr_ok]. rewrite app_nil_r. split; [reflexivity|exact I]. }
  assert (NOW : forall (o : outcome) (w' : world), exists l, snd (o, w', acc) = acc ++ l /\ tr_ok l cs pairss).
  { intros o w'. exists []. cbn [snd tr_ok]. rewrite app_nil_r. split; [reflexivity|exact I]. }
  cbn [run_loop_body]. destruct (stopped w); [apply NOW|].
  destruct (parse_request norm maxc (io_fuel w 0) p [] w) as [[s0|k] w1|o w1] eqn:EPR; [|apply NOW|apply NOW].
  destruct cs as [|[[ge gm] c] cs'].
  { exfalso. apply (no_request_left norm maxc B HB p w _ s0 w1 Hbt EPR). }
  inversion Hcs as [|? ? Hc Hcs']; subst. inversion Hfit as [|? ps ? pairss' Hf Hfit']; subst. cbn [snd] in Hc, Hf.
  destruct (handover norm maxc B HB ge gm c cs' ps p w _ s0 w1 Hc Hcs' Hf Hbt EPR) as (Hreq & HKS).
  destruct (handover_body ge gm c cs' ps p w _ s0 w1 Hc Hcs' Hf Hbt EPR) as (A1 & A2 & A3 & A4 & A5 & A6 & A7).
  cbv zeta.
  set (role := r_role (sreq s0)) in *.
  set (r0 := mkR s0 (len (role_input_streams role) <=? 1) false false).
  match goal with |- context [run_handler maxc _ _ r0 ?ww] => set (w2 := ww) end.
  pose proof Hc as (_ & _ & _ & _ & C5 & _ & C7).
  assert (Hrole : role = w_role (c_pre c)) by (unfold role; rewrite Hreq; reflexivity).
  assert (Hid : r_id (sreq s0) = w_id (c_pre c)) by (rewrite Hreq; reflexivity).
  assert (Hrem2 : remaining w2 = remaining w1) by (unfold w2; rewrite remaining_fold; reflexivity).
  set (e0 := (sreq s0, abs s0, remaining w2)).
  assert (ENTRY : entry_ok c ps e0).
  { unfold entry_ok, e0. cbn [fst snd]. split; [exact Hreq|]. split; [exact A1|]. split; [exact A2|].
    split; [rewrite A3; fold role; rewrite Hrole; reflexivity|].
    intros sg Hin. rewrite Forall_forall in C7.
    apply (to_come_start (w_role (c_pre c)) (w_id (c_pre c)) (abs s0) (remaining w2) (c_srs c) (flat (enc_client cs')) sg).
    - rewrite A1. fold role. exact Hrole.
    - rewrite A1. exact Hid.
    - exact A2.
    - exact A4.
    - exact A5.
    - exact A6.
    - rewrite Hrem2. exact A7.
    - exact C5.
    - exact Hin.
    - apply (C7 sg Hin). }
  clearbody e0.
  assert (ONE : forall (o : outcome) (w' : world),
            exists l, snd (o, w', acc ++ [e0]) = acc ++ l /\ tr_ok l ((ge, gm, c) :: cs') (ps :: pairss')).
  { intros o w'. exists [e0]. cbn [snd tr_ok]. split; [reflexivity|]. split; [exact ENTRY|exact I]. }
  pose proof (enc_client_ne cs' Hcs') as HLS.
  assert (HS2 : KS CAP (c_srs c) (enc_client cs') r0 w2) by (apply KS_fold; apply HKS).
  set (script := nth served scripts (last scripts [])).
  assert (Hscript : script_ok true role (next_input_stream role None) script).
  { subst script. apply (Forall_nth_default (fun s => forall role, script_ok true role (next_input_stream role None) s));
      [exact Hscripts|]. apply Forall_last; [exact Hscripts|]. intros role'. constructor. }
  destruct (run_handler maxc (length script + 2) script r0 w2) as [[st r1] w3|o w3] eqn:ERH; [|apply ONE].
  pose proof (run_handler_KS maxc CAP (c_srs c) (enc_client cs') C5 HLS true role _ script Hscript _ r0 w2 st r1 w3 HS2 ERH) as HS3'.
  assert (CLOSE : forall d cc, exists l,
    snd (match do_close maxc r1 d cc w3 with
         | Halt o w4 => (o, w4, acc ++ [e0])
         | Ok (inl rp) w4 => run_loop_body norm maxc f rp scripts (S served) w4 (acc ++ [e0])
         | Ok (inr _) w4 => (ORet, w4, acc ++ [e0])
         end) = acc ++ l /\ tr_ok l ((ge, gm, c) :: cs') (ps :: pairss')).
  { intros d cc. destruct (do_close maxc r1 d cc w3) as [[rp|k] w4|o w4] eqn:EDC; [|apply ONE|apply ONE].
    pose proof (do_close_K maxc CAP (c_srs c) (enc_client cs') C5 HLS r1 d cc w3 rp w4 HS3' EDC) as HCL.
    destruct Hbt as (junk & cur & _ & _ & _ & _ & _ & _ & Hsz & _).
    pose proof (closed_between B HB ge gm c cs' ps junk rp w4 Hc Hf Hsz HCL) as Hbt'.
    destruct (IH cs' pairss' rp (S served) w4 (acc ++ [e0]) Hcs' Hfit' Hbt') as (l & El & Hl).
    exists (e0 :: l). rewrite El, <- app_assoc. split; [reflexivity|]. cbn [tr_ok snd]. split; [exact ENTRY|exact Hl]. }
  destruct st as [[d cc]|k].
  - apply CLOSE.
  - destruct ((k =? EK_Aborted) && raborted r1); [apply CLOSE|apply ONE].
Qed.

Lemma tr_ok_nth : forall l cs pairss, tr_ok l cs pairss ->
  (length l <= length cs)%nat /\
  forall i e c ps, nth_error l i = Some e -> nth_error (map snd cs) i = Some c -> nth_error pairss i = Some ps -> entry_ok c ps e.
Proof.
  clear HB Hscripts.
  induction l as [|e0 l IH]; intros cs pairss H.
  { split; [cbn [length]; lia|]. intros [|i] e c ps H1; discriminate H1. }
  cbn [tr_ok] in H. destruct cs as [|s cs']; [contradiction|]. destruct pairss as [|ps0 pairss']; [contradiction|].
  destruct H as [He Hl]. destruct (IH cs' pairss' Hl) as [L1 L2].
  split; [cbn [length]; lia|].
  intros [|i] e c ps H1 H2 H3; cbn [nth_error map] in H1, H2, H3.
  - injection H1 as <-. injection H2 as <-. injection H3 as <-. exact He.
  - apply (L2 i e c ps H1 H2 H3).
Qed.
End LoopB.

Theorem bodies_in_order_proof : bodies_in_order_stmt.
Proof.
  intros norm maxc scripts B cs pairss w0 HB Hs Hsegs Hcl Hlog Hnf Hlen Hfits Hsz tr.
  pose proof (client_creq_ok cs 0 0 Hcl) as Hcs.
  pose proof (fits_Forall2 B cs pairss Hlen Hfits) as Hfit.
  assert (Hbt : between B cs (new_parser B) w0).
  { exists [], []. split; [split; [constructor|split; constructor]|]. split; [exact Hsegs|]. split; [reflexivity|].
    split; [reflexivity|]. cbn [new_parser held]. split; [rewrite len_nil; lia|].
    split; [apply world_ok_remaining; unfold world_ok; rewrite Hsegs; apply (client_world cs 0 0 Hcl)|].
    rewrite <- Hsegs. cbn [enc_rcds flat_map]. rewrite len_nil. split; [lia|]. unfold SIZE_LIMIT. lia. }
  destruct (run_loop_body_prefix norm maxc B HB scripts Hs (nb w0 + 4) cs pairss (new_parser B) 0%nat w0 [] Hcs Hfit Hbt)
    as (l & El & Hl).
  cbn [app] in El. subst tr. rewrite El.
  destruct (tr_ok_nth norm l cs pairss Hl) as [L1 L2].
  split; [exact L1|].
  intros i rq a u c ps H1 H2 H3. exact (L2 i (rq, a, u) c ps H1 H2 H3).
Qed.

Theorem run_loop_body_erase : run_loop_body_erase_stmt.
Proof. exact run_loop_body_erase_proof. Qed.
Print Assumptions run_loop_body_erase.

Theorem bodies_in_order : bodies_in_order_stmt.
Proof. exact bodies_in_order_proof. Qed.
Print Assumptions bodies_in_order.

(* ------------------------------------------------------------------------------------------ *)
(* Part D: the instance of PeerProofs4 (two KeepConn requests in two segments; the first handler returns WITHOUT reading
   its Stdin, so that its unread Stdin records are the leftover in front of the second request): the run has two handler
   invocations, and what is to come of Stdin is "abc" for the first and "de" for the second - the unread "abc" of request
   1 is not part of what handler 2 can read. *)
(* ------------------------------------------------------------------------------------------ *)
Example ex4_body_trace :
  let tr := snd (run_loop_body (fun b => b) 10 (nb ex4_w + 4) (new_parser 64) ex4_scripts 0 ex4_w []) in
  length tr = 2%nat /\
  map (fun e : req * ast * bytes => fst (fst e)) tr =
    [ mkReq 1 ROLE_Responder FLAG_KeepConn ex4_ps1; mkReq 2 ROLE_Responder FLAG_KeepConn ex4_ps2 ] /\
  map (fun e : req * ast * bytes => to_come RT_Stdin (snd (fst e)) (snd e)) tr = [ [97; 98; 99]; [100; 101] ] /\
  map (fun e : req * ast * bytes => a_parsed (snd (fst e))) tr = [ []; [] ] /\
  map (fun e : req * ast * bytes => a_stream (snd (fst e))) tr = [ Some RT_Stdin; Some RT_Stdin ].
Proof. vm_compute. repeat split; reflexivity. Qed.

(* ... and by the theorem, for every normalisation function and every max_conns *)
Example ex4_bodies_in_order norm maxc :
  let tr := snd (run_loop_body norm maxc (nb ex4_w + 4) (new_parser 64) ex4_scripts 0 ex4_w []) in
  (length tr <= 2)%nat /\
  (forall rq a u, nth_error tr 0 = Some (rq, a, u) ->
     rq = sent_request norm ex4_c1 ex4_ps1 /\ a_req a = rq /\ a_parsed a = [] /\ a_stream a = Some RT_Stdin /\
     to_come RT_Stdin a u = [97; 98; 99]) /\
  (forall rq a u, nth_error tr 1 = Some (rq, a, u) ->
     rq = sent_request norm ex4_c2 ex4_ps2 /\ a_req a = rq /\ a_parsed a = [] /\ a_stream a = Some RT_Stdin /\
     to_come RT_Stdin a u = [100; 101]).
Proof.
  destruct ex4_hyps as (H1 & H2 & H3 & H4 & H5 & H6 & H7 & H8 & H9).
  destruct (bodies_in_order norm maxc ex4_scripts 64 ex4_cs ex4_pairss ex4_w H1 H2 H3 H4 H5 H6 H7 H8 H9) as [L1 L2].
  split; [exact L1|]. split.
  - intros rq a u E. destruct (L2 0%nat rq a u ex4_c1 ex4_ps1 E eq_refl eq_refl) as (A1 & A2 & A3 & A4 & A5).
    split; [exact A1|]. split; [exact A2|]. split; [exact A3|]. split; [exact A4|].
    rewrite (A5 RT_Stdin ltac:(vm_compute; left; reflexivity)). vm_compute. reflexivity.
  - intros rq a u E. destruct (L2 1%nat rq a u ex4_c2 ex4_ps2 E eq_refl eq_refl) as (A1 & A2 & A3 & A4 & A5).
    split; [exact A1|]. split; [exact A2|]. split; [exact A3|]. split; [exact A4|].
    rewrite (A5 RT_Stdin ltac:(vm_compute; left; reflexivity)). vm_compute. reflexivity.
Qed.

Print Assumptions ex4_body_trace.
Print Assumptions ex4_bodies_in_order.
