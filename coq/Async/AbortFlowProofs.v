(* Async/AbortFlowProofs.v — proofs of Async/AbortFlowTargets.v (the abort flow of C11 end to end):
   abort_close, handler_abort_source, abort_iteration — all three at the strength of the statements, no added hypothesis.
   Remarks:
   - the hypothesis [rlock r = false] is used by neither abort_close nor handler_abort_source: close never looks at the
     lock, and the awaited read that reports the abort went through a completed reply flush, which releases it
     (await_input_err_unlocked) — so a read polled once and dropped before (op 11, known finding F6) does not matter;
   - [held rp = raw_bytes (rsp r)] holds in every case: set_stream, the reply flush and the repeated parse at the abort
     header leave the unparsed input, the buffer size and the request untouched (same_pos / frozen);
   - two executable instances at the end (gate open / gate closed with a reply pending at the abort). *)
From Coq Require Import ZArith ZifyBool ZifyNat ZifyN Lia List.
From FV Require Import Base.Bytes Base.BytesLemmas Gen.Generated Codec.Header Codec.Bodies Codec.ProtoProofs
  Parser.ReqModel Parser.StreamModel Parser.AbsStream Parser.StreamRefine Parser.StreamSpec Parser.StreamInv
  Async.Conn Async.ConnWrites Async.ConnTotal Async.ConnReads Async.ConnLoop Async.AbortFlowTargets.
Import ListNotations.
Open Scope N_scope.
Ltac Zify.zify_post_hook ::= Z.div_mod_to_equations.

Definition idn : bytes -> bytes := fun b => b.

(* ---------------------------------------------------------------------------------------------- *)
(* Part 1: Request::close at the retained AbortRequest header                                      *)
(* ---------------------------------------------------------------------------------------------- *)

(* the protocol position of the stream parser: unparsed input, buffer size, request, position inside the record *)
Definition same_pos (p p' : sp) : Prop :=
  raw_bytes p' = raw_bytes p /\ len (buffer p') = len (buffer p) /\ sreq p' = sreq p /\
  payload_rem p' = payload_rem p /\ padding_rem p' = padding_rem p.

Lemma same_pos_refl p : same_pos p p.
Proof. repeat split. Qed.

Lemma same_pos_trans a b c : same_pos a b -> same_pos b c -> same_pos a c.
Proof. intros (A1 & A2 & A3 & A4 & A5) (B1 & B2 & B3 & B4 & B5). repeat split; congruence. Qed.

Lemma same_pos_abs p p' : a_raw (abs p') = a_raw (abs p) -> a_B (abs p') = a_B (abs p) -> a_req (abs p') = a_req (abs p) ->
  a_prem (abs p') = a_prem (abs p) -> a_pad (abs p') = a_pad (abs p) -> same_pos p p'.
Proof. intros H1 H2 H3 H4 H5. repeat split; assumption. Qed.

(* set_stream keeps the protocol position and the pending output *)
Lemma set_stream_pos p s p' : RI p -> set_stream p s = SetOk p' -> same_pos p p' /\ output_buffer p' = output_buffer p.
Proof.
  intros HRI E. pose proof (set_stream_refines p s HRI) as R. rewrite E in R.
  unfold aset_stream in R. destruct (accepts (r_role (a_req (abs p))) (a_stream (abs p)) s) as [[|]|]; try contradiction.
  destruct (optN_eqb s (a_stream (abs p))); destruct R as [_ R2];
    (split; [apply same_pos_abs; rewrite R2; reflexivity|change (a_out (abs p') = a_out (abs p)); rewrite R2; reflexivity]).
Qed.

(* an operation that leaves the parser where it stands (at the error header) and only flushes pending output *)
Record frozen (r : rstate) (w : world) (r' : rstate) (w' : world) : Prop := mkFz {
  fz_abs : abs (rsp r') = set_out (abs (rsp r)) (output_buffer (rsp r'));
  fz_log : exists fl, wlog w' = wlog w ++ fl /\ output_buffer (rsp r) = fl ++ output_buffer (rsp r')
}.

Lemma frozen_refl r w : frozen r w r w.
Proof. constructor; [reflexivity|]. exists []. rewrite app_nil_r. split; reflexivity. Qed.

Lemma frozen_trans r w r1 w1 w1' r2 w2 : frozen r w r1 w1 -> wlog w1' = wlog w1 -> frozen r1 w1' r2 w2 -> frozen r w r2 w2.
Proof.
  intros [A1 (f1 & L1 & O1)] Hl [A2 (f2 & L2 & O2)]. constructor.
  - rewrite A2, A1. reflexivity.
  - exists (f1 ++ f2). split; [rewrite L2, Hl, L1, app_assoc; reflexivity|rewrite O1, O2, app_assoc; reflexivity].
Qed.

Lemma frozen_pos r w r' w' : frozen r w r' w' -> same_pos (rsp r) (rsp r').
Proof. intros [A _]. apply same_pos_abs; rewrite A; reflexivity. Qed.

Section Close.
Variable maxc : N.

Lemma poll_input_none_frozen fuel r w p r' w' e :
  pinv (rsp r) -> err_at (abs (rsp r)) e -> (length (wscript w) + 1 < fuel)%nat ->
  poll_input maxc fuel None r w = (p, r', w') -> frozen r w r' w'.
Proof.
  intros Hinv He Hf E. unfold poll_input in E. cbv zeta in E.
  destruct (stream_buffer (rsp r)) as [|x sb] eqn:Esb.
  - destruct (poll_output fuel r w) as [[po r1] w1] eqn:EPO.
    destruct (poll_output_abs _ _ _ _ _ _ EPO Hinv Hf) as (fl & P1 & P2 & P3 & P4 & P5 & P6 & P7 & P8 & P9 & P10 & P11 & P12).
    destruct po as [[u|k]| |].
    + destruct fuel as [|f]; [lia|]. cbn [input_loop] in E.
      assert (He1 : err_at (abs (rsp r1)) e) by (rewrite P5; exact He).
      destruct (sparse_at_err maxc (rsp r1) None e P10 ltac:(intros H; contradiction H; reflexivity) He1) as (p2 & s & ES & I2 & A2 & S2).
      rewrite ES in E. injection E as <- <- <-. cbn [rsp].
      assert (Eo : output_buffer p2 = output_buffer (rsp r1)) by (change (a_out (abs p2) = a_out (abs (rsp r1))); rewrite A2; reflexivity).
      constructor; cbn [rsp]; [rewrite Eo, A2; exact P5|]. exists fl. split; [exact P1|rewrite Eo; exact P4].
    + injection E as <- <- <-. constructor; [exact P5|]. exists fl. split; assumption.
    + injection E as <- <- <-. constructor; [exact P5|]. exists fl. split; assumption.
    + contradiction.
  - injection E as <- <- <-. apply frozen_refl.
Qed.

Lemma await_input_none_frozen e : forall fuel r w x r' w',
  pinv (rsp r) -> err_at (abs (rsp r)) e ->
  await_input maxc fuel None r w = Ok (x, r') w' -> frozen r w r' w'.
Proof.
  induction fuel as [|f IH]; intros r w x r' w' Hinv He E; [discriminate E|]. cbn [await_input] in E.
  destruct (poll_input maxc (io_fuel w (len (buffer (rsp r)))) None r w) as [[p r1] w1] eqn:EP.
  assert (Hf : (length (wscript w) + 1 < io_fuel w (len (buffer (rsp r))))%nat) by (rewrite io_fuel_remaining; lia).
  pose proof (poll_input_none_frozen _ _ _ _ _ _ e Hinv He Hf EP) as F1.
  destruct (poll_input_sticky maxc _ None r w p r1 w1 e Hinv He Hf EP) as (_ & _ & S3 & S4 & _).
  destruct p as [y| |].
  - injection E as <- <- <-. exact F1.
  - unfold on_wake in E. cbn [andb] in E.
    apply (frozen_trans r w r1 w1 (w_bump w1) r' w' F1 eq_refl). apply (IH _ _ _ _ _ S3 S4 E).
  - unfold on_block in E. destruct (negb (stop_at w1 =? 0) && negb (stopped w1)); [|discriminate E].
    apply (frozen_trans r w r1 w1 (w_stop w1) r' w' F1 eq_refl). apply (IH _ _ _ _ _ S3 S4 E).
Qed.

Lemma err_at_pos p p' e : same_pos p p' -> err_at (abs p) e -> err_at (abs p') e.
Proof.
  intros (A1 & A2 & A3 & A4 & A5) (H1 & H2 & H3 & H4). unfold err_at, ri in *. cbn [abs a_prem a_pad a_raw a_req] in *.
  rewrite A1, A3, A4, A5. repeat split; assumption.
Qed.

(* Request::writeable on an aborted request: it either answers Ok at once (gate already open, or stream data still
   buffered) or reports the AbortRequest again; the parser stays at the abort header, nothing is read, pending
   replies may be flushed *)
Lemma do_writeable_at_abort r w :
  rinv r -> err_at (abs (rsp r)) EAbortRequest -> raborted r = true -> world_ok w -> no_fault (wscript w) ->
  exists e r1 w1, do_writeable maxc r w = Ok (e, r1) w1 /\ (e = None \/ e = Some EK_Aborted) /\ raborted r1 = true /\
    pinv (rsp r1) /\ rwriteable r1 = rwriteable r /\ same_pos (rsp r) (rsp r1) /\
    no_fault (wscript w1) /\ remaining w1 = remaining w /\ rscript w1 = rscript w /\
    exists fl, wlog w1 = wlog w ++ fl /\ output_buffer (rsp r) = fl ++ output_buffer (rsp r1).
Proof.
  intros Hr He Hab Wok Hnf. pose proof (rinv_pinv r Hr) as Hinv. destruct Hr as [G A].
  pose proof (do_writeable_ok idn maxc r w G Wok) as DW.
  unfold do_writeable in *. destruct (rwriteable r) eqn:Ewr.
  { exists None, r, w. split; [reflexivity|]. split; [left; reflexivity|]. split; [exact Hab|]. split; [exact Hinv|].
    split; [exact Ewr|]. split; [apply same_pos_refl|]. split; [exact Hnf|]. split; [reflexivity|]. split; [reflexivity|].
    exists []. rewrite app_nil_r. split; reflexivity. }
  set (last := match rev (role_input_streams (r_role (sreq (rsp r)))) with x :: _ => Some x | [] => None end) in *.
  destruct (set_stream (rsp r) last) as [p1| |] eqn:ES;
    [|destruct DW as [_ [DW|[DW _]]]; discriminate DW|destruct DW as [_ [DW|[DW _]]]; discriminate DW].
  destruct (set_stream_step maxc _ _ _ Hinv ES) as (I1 & _ & _ & _ & _ & _ & _ & E1 & _).
  destruct (set_stream_pos _ _ _ (proj1 Hinv) ES) as [SP1 O1].
  set (r0 := mkR p1 false (rlock r) (raborted r)) in *.
  pose proof (await_input_sticky maxc EAbortRequest (io_fuel w 0) None r0 w I1 (world_ok_remaining w Wok) (E1 _ He)) as ST.
  pose proof (await_input_reads maxc (io_fuel w 0) None r0 w I1 (world_ok_remaining w Wok)) as AR.
  destruct (await_input maxc (io_fuel w 0) None r0 w) as [[[x|k] r1] w1|o w1] eqn:EA.
  - destruct ST as (S1 & S2 & S3 & S4 & S5 & S6). destruct DW as ((_ & SW & _) & _).
    cbn [ai_post] in AR. destruct AR as (dl & _ & _ & W).
    pose proof (await_input_none_frozen EAbortRequest _ r0 w _ r1 w1 I1 (E1 _ He) EA) as FZ.
    exists None, r1, w1. split; [reflexivity|]. split; [left; reflexivity|].
    split; [apply (await_input_raborted_mono maxc _ _ _ _ _ _ _ EA); exact Hab|]. split; [exact S3|].
    split.
    { rewrite W. destruct (poll_parses None r0) eqn:Epp; [|reflexivity].
      destruct (S5 eq_refl) as (k & Hk & _). discriminate Hk. }
    split; [apply (same_pos_trans _ _ _ SP1 (frozen_pos _ _ _ _ FZ))|]. split; [apply (ws_nf _ _ SW Hnf)|].
    split; [exact S1|]. split; [exact S2|]. destruct FZ as [_ (fl & L & O)]. exists fl. split; [exact L|]. rewrite <- O1. exact O.
  - destruct ST as (S1 & S2 & S3 & S4 & S5 & S6). destruct DW as ((_ & SW & _) & _).
    cbn [ai_post] in AR. destruct AR as (dl & _ & _ & W).
    pose proof (await_input_none_frozen EAbortRequest _ r0 w _ r1 w1 I1 (E1 _ He) EA) as FZ.
    assert (Hk : k = EK_Aborted).
    { destruct (poll_parses None r0) eqn:Epp.
      - destruct (S5 eq_refl) as (k' & Hk' & [Hk2|Hk2]); injection Hk' as <-; [exact Hk2|].
        exfalso. apply (no_fault_not_fault _ _ Hnf Hk2).
      - destruct (S6 eq_refl) as (_ & y & Hy). discriminate Hy. }
    subst k. exists (Some EK_Aborted), r1, w1. split; [reflexivity|]. split; [right; reflexivity|].
    split; [apply (await_input_raborted_mono maxc _ _ _ _ _ _ _ EA); exact Hab|]. split; [exact S3|].
    split; [rewrite W; cbn [is_inl r0 rwriteable]; rewrite andb_false_r; reflexivity|].
    split; [apply (same_pos_trans _ _ _ SP1 (frozen_pos _ _ _ _ FZ))|]. split; [apply (ws_nf _ _ SW Hnf)|].
    split; [exact S1|]. split; [exact S2|]. destruct FZ as [_ (fl & L & O)]. exists fl. split; [exact L|]. rewrite <- O1. exact O.
  - subst o. destruct DW as [_ [DW|[DW _]]]; discriminate DW.
Qed.
End Close.

(* the rest of close at the abort header: record_boundary returns at once, the pending replies and the epilogue are
   written, the parser is converted (KeepConn) or the connection ends *)
Lemma close_tail_at_abort maxc r1 disc code app ps w1 :
  pinv (rsp r1) -> err_at (abs (rsp r1)) EAbortRequest -> no_fault (wscript w1) -> exit_to_end disc code = Some (app, ps) ->
  match close_tail maxc r1 disc code w1 with
  | Ok (inl rp) w' =>
      keep_conn r1 /\ wlog w' = wlog w1 ++ close_bytes r1 app ps /\ remaining w' = remaining w1 /\ rscript w' = rscript w1 /\
      held rp = raw_bytes (rsp r1) /\ cap rp = len (buffer (rsp r1)) /\ st rp = Header
  | Ok (inr k) w' =>
      k = EK_Reset /\ ~ keep_conn r1 /\ wlog w' = wlog w1 ++ close_bytes r1 app ps /\ remaining w' = remaining w1 /\
      rscript w' = rscript w1
  | Halt _ _ => False
  end.
Proof.
  intros Hinv He Hnf Hex. rewrite close_tail_unfold.
  destruct (set_stream_none_ok (rsp r1)) as [p2 ES]. rewrite ES.
  destruct (set_stream_step maxc _ _ _ Hinv ES) as (I2 & Q2 & _ & _ & _ & _ & _ & E2 & _).
  destruct (set_stream_pos _ _ _ (proj1 Hinv) ES) as [(SP1 & SP2 & _) O2].
  set (r2 := mkR p2 (rwriteable r1) (rlock r1) (raborted r1)).
  assert (He2 : err_at (abs (rsp r2)) EAbortRequest) by (apply E2; exact He).
  rewrite (record_boundary_at_err maxc r2 w1 EAbortRequest He2). cbv beta iota.
  pose proof (close_finish_spec r2 disc code w1) as CF.
  assert (Eep : epilogue (r_id (sreq (rsp r2))) disc code (if rwriteable r2 then ROLE_OUTPUT_STREAMS else []) =
                Some (flat_map (fun s => hdr_encode s (r_id (sreq (rsp r2))) 0 0) (if rwriteable r2 then ROLE_OUTPUT_STREAMS else []) ++
                      end_record app ps (r_id (sreq (rsp r2))))).
  { unfold epilogue. rewrite Hex. reflexivity. }
  rewrite Eep in CF. unfold cf_post in CF. cbv zeta in CF.
  assert (CB : output_buffer (rsp r2) ++
               flat_map (fun s => hdr_encode s (r_id (sreq (rsp r2))) 0 0) (if rwriteable r2 then ROLE_OUTPUT_STREAMS else []) ++
               end_record app ps (r_id (sreq (rsp r2))) = close_bytes r1 app ps).
  { unfold close_bytes. cbn [r2 rsp rwriteable]. rewrite O2, Q2. reflexivity. }
  rewrite CB in CF.
  assert (KC : N.land (r_flags (sreq (rsp r2))) FLAG_KeepConn = FLAG_KeepConn <-> keep_conn r1).
  { unfold keep_conn. cbn [r2 rsp]. rewrite Q2. tauto. }
  destruct (close_finish r2 disc code w1) as [[rp|k] w'|o w'].
  - destruct CF as (IO & EC & K).
    assert (HRI4 : RI (close_p4 r2)).
    { unfold close_p4. destruct (output_buffer (rsp r2)); [apply I2|apply consume_output_RI; apply I2]. }
    destruct (close_p4_spec r2) as (Hsame & Hob & _). destruct (sp_same_views _ _ Hsame) as (_ & V2 & _ & V4 & _).
    assert (Hb4 : is_record_boundary (close_p4 r2) = true) by (rewrite V4; apply (err_at_boundary _ _ He2)).
    destruct (into_request_parser_ok (close_p4 r2) HRI4 Hb4 Hob) as (rp' & EC' & Hh & Hc & Hs).
    rewrite EC in EC'. injection EC' as <-.
    split; [apply KC; exact K|]. split; [apply (io_rel_wlog _ _ _ IO)|].
    pose proof (io_rel_same _ _ _ IO) as SB. split; [apply (same_but_io_remaining _ _ SB)|]. split; [apply SB|].
    split; [rewrite Hh; change (a_raw (abs (close_p4 r2))) with (raw_bytes (close_p4 r2)); rewrite V2; exact SP1|].
    split; [|exact Hs]. rewrite Hc. change (a_B (abs (close_p4 r2))) with (len (buffer (close_p4 r2))).
    destruct Hsame as (Hbuf & _). rewrite Hbuf. exact SP2.
  - destruct CF as [[IO [[-> K]|[_ Hb]]]|(_ & Hn & _)].
    + split; [reflexivity|]. split; [intros H; apply K; apply KC; exact H|]. split; [apply (io_rel_wlog _ _ _ IO)|].
      pose proof (io_rel_same _ _ _ IO) as SB. split; [apply (same_but_io_remaining _ _ SB)|apply SB].
    + rewrite (err_at_boundary _ _ He2) in Hb. discriminate Hb.
    + exfalso. apply Hn. exact Hnf.
  - repeat match type of CF with
           | match ?x with _ => _ end => destruct x; try exact CF
           end.
    destruct CF as [_ HR]. apply HR. apply I2.
Qed.

Theorem abort_close : abort_close_stmt.
Proof.
  intros maxc r disc code app ps w Hr He Hab _ Wok Hnf Hex.
  destruct (do_writeable_at_abort maxc r w Hr He Hab Wok Hnf)
    as (e & r1 & w1 & EDW & He' & Hab1 & I1 & Wr1 & SP & Hnf1 & Rem1 & Rs1 & fl & L1 & O1).
  assert (EC : do_close maxc r disc code w = close_tail maxc r1 disc code w1).
  { unfold do_close. rewrite EDW. destruct He' as [-> | ->]; [reflexivity|]. rewrite Hab1. reflexivity. }
  rewrite EC.
  pose proof (close_tail_at_abort maxc r1 disc code app ps w1 I1 (err_at_pos _ _ _ SP He) Hnf1 Hex) as CT.
  pose proof SP as (P1 & P2 & P3 & _).
  assert (KC : keep_conn r1 <-> keep_conn r) by (unfold keep_conn; rewrite P3; tauto).
  assert (CB : wlog w1 ++ close_bytes r1 app ps = wlog w ++ close_bytes r app ps).
  { unfold close_bytes. rewrite L1, O1, Wr1, P3, <- !app_assoc. reflexivity. }
  destruct (close_tail maxc r1 disc code w1) as [[rp|k] w'|o w'].
  - destruct CT as (K & L & R1 & R2 & H1 & H2 & H3).
    split; [apply KC; exact K|]. split; [rewrite L; exact CB|]. split; [congruence|]. split; [congruence|].
    split; [congruence|]. split; [congruence|exact H3].
  - destruct CT as (K & NK & L & R1 & R2).
    split; [exact K|]. split; [intros H; apply NK; apply KC; exact H|]. split; [rewrite L; exact CB|]. split; congruence.
  - exact CT.
Qed.

(* ---------------------------------------------------------------------------------------------- *)
(* Part 2: where Err(ConnectionAborted) of a reading handler comes from                            *)
(* ---------------------------------------------------------------------------------------------- *)
Section Handler.
Variable maxc : N.

(* what every operation of a reading handler keeps on a transport without write faults *)
Definition hinv (r : rstate) (w : world) : Prop := rinv r /\ world_ok w /\ no_fault (wscript w).

Lemma hinv_next r w r' w' : hinv r w -> rinv r' -> wstep w w' -> hinv r' w'.
Proof. intros (_ & Wok & Hnf) Hr S. split; [exact Hr|]. split; [apply (ws_ok _ _ S Wok)|apply (ws_nf _ _ S Hnf)]. Qed.

Lemma hinv_ev r w e : hinv r w -> hinv r (w_ev w e).
Proof. intros H. apply (hinv_next r w); [exact H|apply H|apply wstep_ev]. Qed.

Lemma await_input_hinv dest r w x r' w' : hinv r w -> await_input maxc (io_fuel w 0) dest r w = Ok (x, r') w' -> hinv r' w'.
Proof.
  intros H E. pose proof H as ((G & A) & Wok & Hnf).
  pose proof (await_input_io idn maxc dest r w G Wok) as H1. rewrite E in H1.
  pose proof (await_input_reads maxc (io_fuel w 0) dest r w (rinv_pinv r (conj G A)) (world_ok_remaining w Wok)) as H2.
  rewrite E in H2. cbn [ai_post] in H2. destruct H2 as (dl & AC & _).
  assert (X : rgood r' /\ wstep w w').
  { destruct x as [[n b]|k]; [|destruct H1 as [H1 _]]; destruct H1 as (Y1 & Y2 & _); split; assumption. }
  destruct X as [G' S]. apply (hinv_next r w); [exact H| |exact S]. split; [exact G'|apply (ac_inv _ _ _ _ _ _ _ AC)].
Qed.

(* on a transport without write faults the awaited read reports the kind ConnectionAborted only for the parser's
   AbortRequest: the parser stands at the abort header and Request.aborted is set *)
Lemma await_input_aborted fuel dest r w r' w' : pinv (rsp r) -> bytes_ok (remaining w) -> no_fault (wscript w) ->
  await_input maxc fuel dest r w = Ok (inr EK_Aborted, r') w' -> err_at (abs (rsp r')) EAbortRequest /\ raborted r' = true.
Proof.
  intros Hinv Hrem Hnf E. pose proof (await_input_reads maxc fuel dest r w Hinv Hrem) as H. rewrite E in H.
  cbn [ai_post] in H. destruct H as (dl & _ & C & _). cbn [pi_case] in C.
  destruct C as [(e & C1 & C2 & _ & _ & _ & C6)|[(_ & C1 & _)|(_ & _ & _ & C4)]].
  - symmetry in C1. apply perr_kind_aborted in C1. subst e. split; [exact C2|]. rewrite C6. apply orb_true_r.
  - discriminate C1.
  - exfalso. apply (no_fault_not_fault EK_Aborted _ Hnf). apply C4. discriminate.
Qed.

(* an awaited read that returns an error went through the reply flush: on a transport without write faults the
   request's lock is released — whatever the lock was before (a read polled once and dropped may have left it held) *)
Lemma await_input_err_unlocked fuel dest r w k r' w' : lgood (rsp r) -> world_ok w -> no_fault (wscript w) ->
  await_input maxc fuel dest r w = Ok (inr k, r') w' -> rlock r' = false.
Proof.
  intros G Wok Hnf E.
  assert (Hpre : lk_pre dest r).
  { right. destruct fuel as [|f]; [discriminate E|]. cbn [await_input] in E. unfold poll_input in E. cbv zeta in E.
    destruct dest as [[|pc]|]; destruct (stream_buffer (rsp r)) as [|x sb] eqn:Esb; cbv beta iota in E; try discriminate E;
      (split; [reflexivity|discriminate]). }
  pose proof (await_input_lock idn maxc fuel dest r w G Wok Hpre) as H. rewrite E in H.
  destruct H as (_ & _ & [H|H]); [exact H|contradiction].
Qed.

Lemma read_all_hinv : forall fuel acc r w k acc' r' w', hinv r w -> read_all maxc fuel acc r w = Ok (k, acc', r') w' -> hinv r' w'.
Proof.
  induction fuel as [|f IH]; intros acc r w k acc' r' w' H E; [discriminate E|]. cbn [read_all] in E.
  destruct (await_input maxc (io_fuel w 0) (Some 64) r w) as [[[[n b]|e] r1] w1|o w1] eqn:EA; [| |discriminate E].
  - pose proof (await_input_hinv _ _ _ _ _ _ H EA) as H1.
    destruct (n =? 0); [injection E as _ _ <- <-; exact H1|]. apply (IH _ _ _ _ _ _ _ H1 E).
  - injection E as _ _ <- <-. apply (await_input_hinv _ _ _ _ _ _ H EA).
Qed.

Lemma do_writeable_hinv r w e r' w' : hinv r w -> do_writeable maxc r w = Ok (e, r') w' -> hinv r' w'.
Proof.
  intros H E. pose proof H as ((G & A) & Wok & Hnf).
  pose proof (do_writeable_ok idn maxc r w G Wok) as H1. rewrite E in H1. destruct H1 as ((G' & S & _) & _).
  apply (hinv_next r w); [exact H| |exact S]. split; [exact G'|].
  destruct (do_writeable_gate maxc r w e r' w' (rinv_pinv r (conj G A)) (world_ok_remaining w Wok) E) as [D1 D2].
  destruct (rwriteable r) eqn:Ewr.
  - destruct (D1 eq_refl) as (_ & -> & _). exact A.
  - specialize (D2 eq_refl). cbv zeta in D2. destruct D2 as (p1 & _ & _ & _ & _ & AC & _). apply (ac_inv _ _ _ _ _ _ _ AC).
Qed.

Lemma set_stream_hinv r w s p' : hinv r w -> set_stream (rsp r) (Some s) = SetOk p' ->
  hinv (mkR p' (rwriteable r) (rlock r) (raborted r)) w.
Proof.
  intros H E. pose proof H as ((G & A) & Wok & Hnf).
  pose proof (set_stream_ok_accepted _ _ _ E) as Acc.
  destruct (set_stream_views (rsp r) (Some s) p' (proj1 G) (ConnTotal.accepts_input _ _ _ Acc) E) as (V1 & V2 & V3 & _).
  destruct (set_stream_step maxc _ _ _ (rinv_pinv r (conj G A)) E) as (I1 & _).
  split; [|split; assumption]. split; [|apply I1].
  split; [exact V1|]. pose proof (proj2 G) as W. unfold wr_inv, wr_inv_at in *. cbn [rsp rwriteable]. rewrite V2, V3.
  destruct (accepts_some_inv _ _ _ Acc) as [J1 J2].
  destruct (rwriteable r); [apply J1; exact W|]. destruct W as (x & Ex & Hx). exists s. split; [reflexivity|]. apply (J2 x Ex Hx).
Qed.

Lemma consume_hinv r w c : hinv r w -> hinv (mkR (consume_stream (rsp r) c) (rwriteable r) (rlock r) (raborted r)) w.
Proof.
  intros ((G & A) & Wok & Hnf). split; [|split; assumption].
  destruct (consume_stream_views (rsp r) c (proj1 (proj1 G))) as (V1 & V2 & V3 & _).
  split; [apply (rgood_transfer r); try assumption; try reflexivity; rewrite V2; apply G|].
  cbn [rsp]. rewrite (consume_stream_abs _ _ (proj1 (proj1 G))). apply consume_stream_inv. exact A.
Qed.

Lemma poll_input_hinv dest r w p r' w' : hinv r w ->
  poll_input maxc (io_fuel w (len (buffer (rsp r)))) dest r w = (p, r', w') -> hinv r' w'.
Proof.
  intros H E. pose proof H as (Hr & Wok & Hnf).
  assert (Hf : (length (wscript w) + nb w + 2 <= io_fuel w (len (buffer (rsp r))))%nat) by (rewrite io_fuel_eq; lia).
  destruct (poll_input_rinv maxc _ dest r w p r' w' Hr Wok Hf E) as [Hr' _].
  pose proof (poll_input_ok idn maxc _ dest r w (proj1 Hr) Wok Hf) as PI. rewrite E in PI.
  assert (S : wstep w w').
  { destruct p as [[[n b]|k]| |]; [|destruct PI as [PI _]..]; apply PI. }
  apply (hinv_next r w); assumption.
Qed.

Lemma run_handler_abort : forall f script r w r1 w1, no_fab script -> hinv r w ->
  run_handler maxc f script r w = Ok (inr EK_Aborted, r1) w1 ->
  hinv r1 w1 /\ rlock r1 = false /\ err_at (abs (rsp r1)) EAbortRequest /\ raborted r1 = true.
Proof.
  induction f as [|f IH]; intros script r w r1 w1 Hs H E; [discriminate E|].
  destruct Hs as [|n rest Hs|rest Hs|k rest Hs|s rest Hs|rest Hs|d c rest|k rest Hk|n rest Hs|n rest Hs]; cbn [run_handler] in E.
  - discriminate E.
  - destruct (await_input maxc (io_fuel w 0) (Some n) r w) as [[[[c b]|k] r'] w'|o w'] eqn:EA; [| |discriminate E];
      (apply IH in E; [exact E|exact Hs|]); do 2 apply hinv_ev; apply (await_input_hinv _ _ _ _ _ _ H EA).
  - destruct (read_all maxc _ [] r w) as [[[k acc] r'] w'|o w'] eqn:ER; [|discriminate E].
    apply IH in E; [exact E|exact Hs|]. do 2 apply hinv_ev. apply (read_all_hinv _ _ _ _ _ _ _ _ H ER).
  - destruct (await_input maxc (io_fuel w 0) None r w) as [[[x|e] r'] w'|o w'] eqn:EA; [| |discriminate E]; cbv zeta in E.
    + apply IH in E; [exact E|exact Hs|]. do 2 apply hinv_ev. apply consume_hinv. apply (await_input_hinv _ _ _ _ _ _ H EA).
    + apply IH in E; [exact E|exact Hs|]. do 2 apply hinv_ev. apply (await_input_hinv _ _ _ _ _ _ H EA).
  - destruct (set_stream (rsp r) (Some s)) as [p'| |] eqn:ES; [|discriminate E|discriminate E].
    apply IH in E; [exact E|exact Hs|]. apply hinv_ev. apply (set_stream_hinv _ _ _ _ H ES).
  - destruct (do_writeable maxc r w) as [[e r'] w'|o w'] eqn:ED; [|discriminate E].
    apply IH in E; [exact E|exact Hs|]. apply hinv_ev. apply (do_writeable_hinv _ _ _ _ _ H ED).
  - discriminate E.
  - exfalso. injection E as E _ _. destruct ((2 <=? k) && (k <=? 7)); [apply Hk; exact E|discriminate E].
  - destruct (await_input maxc (io_fuel w 0) (Some n) r w) as [[[[c b]|k] r'] w'|o w'] eqn:EA; [| |discriminate E].
    + apply IH in E; [exact E|exact Hs|]. do 2 apply hinv_ev. apply (await_input_hinv _ _ _ _ _ _ H EA).
    + injection E as -> <- <-. pose proof H as (Hr & Wok & Hnf). pose proof (rinv_pinv r Hr) as Hinv.
      split; [do 2 apply hinv_ev; apply (await_input_hinv _ _ _ _ _ _ H EA)|].
      split; [apply (await_input_err_unlocked _ _ _ _ _ _ _ (pinv_lgood _ Hinv) Wok Hnf EA)|].
      apply (await_input_aborted _ _ _ _ _ _ Hinv (world_ok_remaining w Wok) Hnf EA).
  - destruct (poll_input maxc (io_fuel w (len (buffer (rsp r)))) (Some n) r w) as [[p r'] w'] eqn:EP.
    pose proof (poll_input_hinv _ _ _ _ _ _ H EP) as H1.
    destruct p as [[[c b]|k]| |]; (apply IH in E; [exact E|exact Hs|]); do 2 apply hinv_ev; exact H1.
Qed.
End Handler.

(* the hypothesis [rlock r = false] is not needed: the read that reports the abort releases the lock itself *)
Theorem handler_abort_source : handler_abort_source_stmt.
Proof.
  intros maxc f script r w r1 w1 Hs Hr Wok Hnf _ E.
  destruct (run_handler_abort maxc f script r w r1 w1 Hs (conj Hr (conj Wok Hnf)) E) as ((A & B & C) & D & E' & F).
  tauto.
Qed.

(* ---------------------------------------------------------------------------------------------- *)
(* Part 3: one iteration of Token::run for an aborted request                                      *)
(* ---------------------------------------------------------------------------------------------- *)
Theorem abort_iteration : abort_iteration_stmt.
Proof.
  intros norm maxc fuel p scripts served w s0 w' Hst EPR. cbv zeta. intros r1 w2 Hs Hr0 Wok1 Hnf1 ERH.
  destruct (handler_abort_source maxc _ _ _ _ r1 w2 Hs Hr0 Wok1 Hnf1 eq_refl ERH) as (Hr1 & Wok2 & Hnf2 & Hlk1 & He1 & Hab1).
  pose proof (run_loop_iteration norm maxc fuel p scripts served w Hst) as RL. rewrite EPR in RL. cbv zeta in RL.
  rewrite ERH in RL. rewrite Hab1, N.eqb_refl in RL. cbn [andb] in RL.
  pose proof (abort_close maxc r1 EXIT_Complete EXIT_ABORT_CODE EXIT_ABORT_CODE PS_RequestComplete w2 Hr1 He1 Hab1 Hlk1 Wok2 Hnf2
                (proj1 (exit_status_map EXIT_ABORT_CODE))) as AC.
  destruct (do_close maxc r1 EXIT_Complete EXIT_ABORT_CODE w2) as [[rp|k] w3|o w3].
  - destruct AC as (K & L & R1 & R2 & H1 & H2 & H3). exists w3. split; [exact L|]. split; [exact R1|]. left.
    split; [exact K|]. exists rp. split; [exact H1|]. split; [exact H2|]. split; [exact H3|exact RL].
  - destruct AC as (_ & NK & L & R1 & R2). exists w3. split; [exact L|]. split; [exact R1|]. right. split; [exact NK|exact RL].
  - contradiction.
Qed.

(* ---------------------------------------------------------------------------------------------- *)
(* Non-vacuity: a concrete aborted request.  A Responder request (id 7, KeepConn); the client sends Stdin "1 2 3",
   a GetValues record, AbortRequest (with padding), and the Stdin terminator; reads and writes are answered in pieces
   with Pending in between.  The handler reads with `?` three times and ends with Err(ConnectionAborted).            *)
(* ---------------------------------------------------------------------------------------------- *)
From FV Require Import Parser.ReqWire Parser.ReqTargets.

Module AbortExample.
Definition rq : req := mkReq 7 ROLE_Responder 1 [].
Definition gv : rcd := mkRcd RT_GetValues 0 [] [].
Definition wire := enc_rcds [mkRcd RT_Stdin 7 [1;2;3] [0]; gv; mkRcd RT_AbortRequest 7 [] [9;9]; mkRcd RT_Stdin 7 [] []].
Definition rp := mkParser 128 (take 10 wire) (Done rq).
Definition sp0 := match into_stream_parser rp with inl p => p | inr _ => new_sparser 0 rq end.
Definition r0 := mkR sp0 true false false.
Definition w0 : world := mkW [0; 7; 0; 100] [0; 3; 0; 100; 0; 5; 100; 100; 100] [(0,0,drop 10 wire)] [] 0 1 0 false false [].
Definition script := [10; 2; 10; 5; 10; 5; 8; 0; 0].
Definition hr := run_handler 10 20 script r0 w0.
Definition r1 := match hr with Ok (_, r) _ => r | Halt _ _ => r0 end.
Definition w1 := match hr with Ok _ w => w | Halt _ w => w end.

Lemma hr_eq : run_handler 10 20 script r0 w0 = Ok (inr EK_Aborted, r1) w1.
Proof. vm_compute. reflexivity. Qed.

Lemma script_no_fab : no_fab script.
Proof. unfold script. repeat constructor. Qed.

Lemma rp_ok : parser_ok rp.
Proof.
  unfold parser_ok. split; [exact I|]. split; [exact I|]. split; [apply bytes_okb_ok; vm_compute; reflexivity|].
  split; [vm_compute; discriminate|]. split; [vm_compute; discriminate|vm_compute; reflexivity].
Qed.

Lemma r0_rinv : rinv r0.
Proof.
  destruct (into_stream_parser_rgood rp rq rp_ok eq_refl) as (p0 & E0 & _ & _ & _ & _ & _ & G).
  assert (Ep : p0 = sp0) by (unfold sp0; rewrite E0; reflexivity). subst p0.
  split; [exact G|]. apply (into_stream_parser_pinv rp rq sp0 eq_refl); [vm_compute; discriminate|apply rp_ok|exact E0].
Qed.

Lemma w0_ok : world_ok w0.
Proof. constructor; [apply bytes_okb_ok; vm_compute; reflexivity|constructor]. Qed.

Lemma w0_nf : no_fault (wscript w0).
Proof. unfold no_fault, w0. cbn [wscript]. repeat (constructor; [repeat split; vm_compute; discriminate|]). constructor. Qed.

Example abort_close_hyps :
  rinv r1 /\ err_at (abs (rsp r1)) EAbortRequest /\ raborted r1 = true /\ rlock r1 = false /\
  world_ok w1 /\ no_fault (wscript w1) /\ exit_to_end EXIT_Complete EXIT_ABORT_CODE = Some (EXIT_ABORT_CODE, PS_RequestComplete).
Proof.
  destruct (handler_abort_source 10 20%nat script r0 w0 r1 w1 script_no_fab r0_rinv w0_ok w0_nf eq_refl hr_eq)
    as (H1 & H2 & H3 & H4 & H5 & H6).
  exact (conj H1 (conj H5 (conj H6 (conj H4 (conj H2 (conj H3 (proj1 (exit_status_map EXIT_ABORT_CODE)))))))).
Qed.

Example abort_close_instance :
  match do_close 10 r1 EXIT_Complete EXIT_ABORT_CODE w1 with
  | Ok (inl rp') w' =>
      wlog w' = wlog w1 ++ [1;6;0;7;0;0;0;0; 1;7;0;7;0;0;0;0; 1;3;0;7;0;8;0;0; 65;66;82;84; 0; 0;0;0] /\
      held rp' = [1;2;0;7;0;0;2;0;9;9; 1;5;0;7;0;0;0;0] /\ cap rp' = 128 /\ st rp' = Header
  | _ => False
  end.
Proof. vm_compute. (split; [reflexivity|split; [reflexivity|split; reflexivity]]). Qed.
End AbortExample.


(* A second instance, for the other branch of writeable(): a Filter request (two input streams: the output gate is still
   closed when the abort arrives) whose GetValues reply is still pending in the parser at the abort.  close selects the
   last stream, flushes the reply in pieces (Pending, 3 bytes, Pending, the rest), meets the abort again, and writes
   ONE EndRequest and no stream terminators. *)
Module AbortExample2.
Definition rq : req := mkReq 7 ROLE_Filter 1 [].
Definition gv : rcd := mkRcd RT_GetValues 0 ([14; 0] ++ [70;67;71;73;95;77;65;88;95;67;79;78;78;83]) [].   (* FCGI_MAX_CONNS *)
Definition wire := enc_rcds [mkRcd RT_Stdin 7 [1;2;3] [0]; gv; mkRcd RT_AbortRequest 7 [] [9;9]; mkRcd RT_Stdin 7 [] []].
Definition rp := mkParser 128 (take 10 wire) (Done rq).
Definition sp0 := match into_stream_parser rp with inl p => p | inr _ => new_sparser 0 rq end.
Definition r0 := mkR sp0 false false false.
Definition w0 : world := mkW [0; 7; 0; 100] [0; 3; 0; 100; 0; 5; 100; 100; 100] [(0,0,drop 10 wire)] [] 0 1 0 false false [].
Definition script := [10; 2; 10; 5; 10; 5; 8; 0; 0].
Definition hr := run_handler 10 20 script r0 w0.
Definition r1 := match hr with Ok (_, r) _ => r | Halt _ _ => r0 end.
Definition w1 := match hr with Ok _ w => w | Halt _ w => w end.

Lemma hr_eq : run_handler 10 20 script r0 w0 = Ok (inr EK_Aborted, r1) w1.
Proof. vm_compute. reflexivity. Qed.

Lemma script_no_fab : no_fab script.
Proof. unfold script. repeat constructor. Qed.

Lemma rp_ok : parser_ok rp.
Proof.
  unfold parser_ok. split; [exact I|]. split; [exact I|]. split; [apply bytes_okb_ok; vm_compute; reflexivity|].
  split; [vm_compute; discriminate|]. split; [vm_compute; discriminate|vm_compute; reflexivity].
Qed.

Lemma r0_rinv : rinv r0.
Proof.
  destruct (into_stream_parser_rgood rp rq rp_ok eq_refl) as (p0 & E0 & _ & _ & _ & _ & _ & G).
  assert (Ep : p0 = sp0) by (unfold sp0; rewrite E0; reflexivity). subst p0.
  split; [exact G|]. apply (into_stream_parser_pinv rp rq sp0 eq_refl); [vm_compute; discriminate|apply rp_ok|exact E0].
Qed.

Lemma w0_ok : world_ok w0.
Proof. constructor; [apply bytes_okb_ok; vm_compute; reflexivity|constructor]. Qed.

Lemma w0_nf : no_fault (wscript w0).
Proof. unfold no_fault, w0. cbn [wscript]. repeat (constructor; [repeat split; vm_compute; discriminate|]). constructor. Qed.

Example abort_close_hyps :
  rinv r1 /\ err_at (abs (rsp r1)) EAbortRequest /\ raborted r1 = true /\ rlock r1 = false /\
  world_ok w1 /\ no_fault (wscript w1) /\ exit_to_end EXIT_Complete EXIT_ABORT_CODE = Some (EXIT_ABORT_CODE, PS_RequestComplete) /\
  rwriteable r1 = false /\ output_buffer (rsp r1) <> [].
Proof.
  destruct (handler_abort_source 10 20%nat script r0 w0 r1 w1 script_no_fab r0_rinv w0_ok w0_nf eq_refl hr_eq)
    as (H1 & H2 & H3 & H4 & H5 & H6).
  refine (conj H1 (conj H5 (conj H6 (conj H4 (conj H2 (conj H3 (conj (proj1 (exit_status_map EXIT_ABORT_CODE)) (conj _ _)))))))).
  - vm_compute. reflexivity.
  - vm_compute. discriminate.
Qed.

Example abort_close_instance :
  match do_close 10 r1 EXIT_Complete EXIT_ABORT_CODE w1 with
  | Ok (inl rp') w' =>
      wlog w' = wlog w1 ++ [1;10;0;0;0;18;6;0; 14;2;70;67;71;73;95;77;65;88;95;67;79;78;78;83;49;48; 0;0;0;0;0;0] ++
                           [1;3;0;7;0;8;0;0; 65;66;82;84; 0; 0;0;0] /\
      held rp' = [1;2;0;7;0;0;2;0;9;9; 1;5;0;7;0;0;0;0] /\ cap rp' = 128 /\ st rp' = Header /\ wscript w' = [100; 100]
  | _ => False
  end.
Proof. vm_compute. split; [reflexivity|split; [reflexivity|split; [reflexivity|split; reflexivity]]]. Qed.
End AbortExample2.


Print Assumptions abort_close.
Print Assumptions handler_abort_source.
Print Assumptions abort_iteration.
