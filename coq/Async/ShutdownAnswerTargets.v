(* Async/ShutdownAnswerTargets.v — statement: C14's "in-flight requests finish" in terms of the decoded transport log.  Run a
   connection twice, once never shut down (w1), once with a shutdown requested at ANY moment (w2).  On a transport without write
   faults, with handlers that await their reads and write to Stdout / Stderr: in the run with the shutdown every handler invocation
   that was closed is answered exactly as in C07_epilogue_records (its stretch of the log decodes completely, exactly one EndRequest of
   its id, last, after the empty stream records), and either the list of invocations is the undisturbed one, or the task returned
   with EVERY invocation it started closed - none cut short - and these are an initial segment of the undisturbed run's.
   Corollary of C14_shutdown_cut and C07_epilogue_records.  Statement only; proof in Async/ShutdownAnswerProofs.v. *)
From FV Require Import Base.Bytes Gen.Generated Codec.Header Codec.Bodies Parser.ReqModel Parser.ReqWire Parser.ReqTargets Parser.StreamModel
  Async.Conn Async.ConnWrites Async.ConnTotal Async.ConnReads Async.ReadsWTargets Async.LogTargets Async.FrameTargets
  Async.EpilogueTargets Async.ShutdownTargets.

Definition shutdown_answers_inflight_stmt : Prop :=
  forall (norm : bytes -> bytes) (maxc : N) fuel B scripts w1 w2,
  B < SIZE_LIMIT - 8 -> world_ok w1 -> wlog w1 = [] -> no_fault (wscript w1) ->
  stop_at w1 = 0 -> stopped w1 = false ->
  scripts_ok false scripts -> Forall writes_std scripts -> Forall no_abandoned_read scripts ->
  same_io w1 w2 ->
  let '(o1, w1', l1) := run_loop_log norm maxc fuel (new_parser B) scripts 0 w1 [] in
  let '(o2, w2', l2) := run_loop_log norm maxc fuel (new_parser B) scripts 0 w2 [] in
  (o1 = ORet \/ o1 = ODeadlock) ->
  Forall (fun s => match sv_closed s with Some L2 => answered_once s L2 | None => True end) l2 /\
  (l2 = l1 \/ (o2 = ORet /\ stopped w2' = true /\ Forall closed_entry l2 /\ exists t, l1 = l2 ++ t)).
