(* Async/WriterProofs.v — proofs of the multi-writer exclusion statements of Async/WriterTargets.v
   over the model Async/Writer.v (C10). *)
From Coq Require Import ZArith.
From FV Require Import Base.Bytes Base.BytesLemmas Gen.Generated Codec.Header Codec.ProtoProofs
  Parser.ReqModel Parser.StreamModel Parser.AbsStream Parser.StreamRefine
  Async.Conn Async.ConnWrites Async.Writer Async.WriterTargets.
From Coq Require Import ZifyBool ZifyNat ZifyN.
Ltac Zify.zify_post_hook ::= Z.div_mod_to_equations.

(* ------------------------------------------------------------------------------------------ *)
(* Part 1: the one-step exclusion laws                                                         *)
(* ------------------------------------------------------------------------------------------ *)

Theorem writer_waits : writer_waits_stmt.
Proof.
  intros fuel id i w h wd Hs Hd Hn Hi. destruct fuel as [|f]; [reflexivity|].
  cbn [poll_writer]. rewrite Hd, Hs. cbn [negb].
  destruct h as [|j|]; [contradiction| |reflexivity].
  cbn [holder_is holder_free negb andb].
  destruct (N.eqb_spec j i) as [E|E]; [subst j; contradiction|reflexivity].
Qed.

(* request_waits_stmt quantifies over every fuel; with no fuel at all the model's poll_output_l
   reports its fuel code 99 instead of Pending, so the statement as written fails at fuel = 0 *)
Definition request_waits_full : Prop := request_waits_stmt.

Definition rw_sp : sp := mkSp [] 0 0 0 0 [1] 0 (mkReq 1 1 0 []) None 0 0 SSkip.
Definition rw_world : world := mkW [] [] [] [] 0 1 0 false false [].

Example request_waits_counterexample :
  output_buffer (rsp (mkR rw_sp false false)) <> [] /\
  poll_output_l 0 (mkR rw_sp false false) (HWriter 0) rw_world = (PReady (inr 99), mkR rw_sp false false, HWriter 0, rw_world).
Proof. split; [vm_compute; discriminate|reflexivity]. Qed.

Lemma request_waits_full_false : ~ request_waits_full.
Proof.
  intros H. specialize (H O (mkR rw_sp false false) 0 rw_world).
  destruct request_waits_counterexample as [Hne E]. specialize (H Hne). rewrite E in H. discriminate H.
Qed.

Definition request_waits_partial_stmt : Prop :=
  forall fuel r i w, (0 < fuel)%nat -> output_buffer (rsp r) <> [] ->
  poll_output_l fuel r (HWriter i) w = (PWake, r, HWriter i, w).

Theorem request_waits_partial : request_waits_partial_stmt.
Proof.
  intros fuel r i w Hf Hne. destruct fuel as [|f]; [lia|].
  cbn [poll_output_l]. destruct (output_buffer (rsp r)); [contradiction|reflexivity].
Qed.

(* ------------------------------------------------------------------------------------------ *)
(* Part 2: Parser::parse never touches the request                                              *)
(* ------------------------------------------------------------------------------------------ *)

Definition cf_req (q : req) (f : cflow) : Prop :=
  match f with
  | CContinue l | CBreak l | CErr l _ => sreq (lp l) = q
  | CPanic _ => True
  end.

Lemma pfin_req p p' res cap consumed q : sreq p' = q -> cf_req q (pfin p p' res cap consumed).
Proof.
  intros H. unfold pfin. cbv zeta.
  destruct (N.min (payload_rem p) (free_start p - raw_start p) <? consumed); [exact I|].
  match goal with |- cf_req _ (if negb ?c then _ else _) => destruct c end; cbn [negb]; [|exact I].
  match goal with |- cf_req _ (if ?c then _ else _) => destruct c end; cbn [cf_req lp set_core sreq]; exact H.
Qed.

Lemma parse_payload_req maxc l q : sreq (lp l) = q -> cf_req q (parse_payload maxc l).
Proof.
  intros H. rewrite parse_payload_unfold. cbv zeta.
  destruct (sst (lp l)).
  - destruct (lcap l); apply pfin_req; cbn [set_core sreq]; exact H.
  - apply pfin_req. exact H.
  - match goal with |- cf_req _ (let '(_, _) := ?x in _) => destruct x end.
    match goal with |- cf_req _ (if ?c then _ else _) => destruct c end; apply pfin_req; cbn [set_core sreq]; exact H.
Qed.

Lemma hgo_req l st cl pl out added q : sreq (lp l) = q -> cf_req q (hgo l st cl pl out added).
Proof.
  intros H. unfold hgo. cbv zeta.
  match goal with |- cf_req _ (if ?c then _ else _) => destruct c end; [exact I|].
  cbn [cf_req lp set_core sreq]. exact H.
Qed.

Lemma parse_head_req l q : sreq (lp l) = q -> cf_req q (parse_head l).
Proof.
  intros H. rewrite parse_head_unfold. cbv zeta.
  repeat match goal with
  | |- cf_req _ (if ?c then _ else _) => destruct c
  | |- cf_req _ (match ?x with _ => _ end) => destruct x
  end; try (apply hgo_req; exact H); try exact I; cbn [cf_req lp]; exact H.
Qed.

Lemma after_pl_req l q : sreq (lp l) = q -> cf_req q (after_pl l).
Proof.
  intros H. unfold after_pl. cbv zeta.
  destruct (0 <? padding_rem (lp l)); [|apply parse_head_req; exact H].
  destruct (negb (payload_rem (lp l) =? 0)); [exact I|].
  destruct (free_start (lp l) - raw_start (lp l) <=? padding_rem (lp l)).
  - cbn [cf_req lp set_core sreq]. exact H.
  - apply parse_head_req. cbn [lp set_core sreq]. exact H.
Qed.

Lemma parse_iter_req maxc l q : sreq (lp l) = q -> cf_req q (parse_iter maxc l).
Proof.
  intros H. rewrite parse_iter_unfold.
  destruct (0 <? payload_rem (lp l)); [|apply after_pl_req; exact H].
  pose proof (parse_payload_req maxc l q H) as P.
  destruct (parse_payload maxc l) as [l'|l'|l' e|n]; cbn [cf_req] in P; try exact P.
  apply after_pl_req. exact P.
Qed.

Lemma parse_loop_req maxc fuel : forall l q, sreq (lp l) = q -> cf_req q (parse_loop maxc fuel l).
Proof.
  induction fuel as [|f IH]; intros l q H; [exact I|]. cbn [parse_loop].
  destruct (raw_start (lp l) <? free_start (lp l)); [|exact H].
  pose proof (parse_iter_req maxc l q H) as P.
  destruct (parse_iter maxc l) as [l'|l'|l' e|n]; cbn [cf_req] in P; try exact P.
  apply IH. exact P.
Qed.

Lemma sparse_req maxc p new dest :
  match sparse maxc p new dest with
  | StOk p' _ | StErr p' _ _ => sreq p' = sreq p
  | StPanic _ => True
  end.
Proof.
  unfold sparse.
  match goal with |- match (if ?c then _ else _) with _ => _ end => destruct c end; [exact I|].
  match goal with |- match (if ?c then _ else _) with _ => _ end => destruct c end; [exact I|].
  cbv zeta.
  match goal with |- context [parse_loop maxc ?fu ?l] =>
    pose proof (parse_loop_req maxc fu l (sreq p) eq_refl) as P; destruct (parse_loop maxc fu l) as [l'|l'|l' e|n] end;
    cbn [cf_req] in P; try exact I; try exact P.
  - destruct (invars_ok (lp l')); [exact P|exact I].
  - destruct (invars_ok (lp l')); [exact P|exact I].
Qed.

Lemma consume_output_req p n : sreq (consume_output p n) = sreq p.
Proof. unfold consume_output. destruct (_ <=? _); reflexivity. Qed.

(* ------------------------------------------------------------------------------------------ *)
(* Part 3: one poll of one writer                                                              *)
(* ------------------------------------------------------------------------------------------ *)

Lemma concat_cutW n l : concat (Writer.cut_slices n l) = drop n (concat l).
Proof.
  revert n; induction l as [|s t IH]; intros n; cbn [Writer.cut_slices concat].
  - rewrite drop_nil. reflexivity.
  - destruct (N.leb_spec (len s) n) as [H|H].
    + rewrite IH. rewrite drop_app_ge by lia. reflexivity.
    + cbn [concat]. rewrite drop_app_le by lia. reflexivity.
Qed.

Lemma rec_of_len ty id c : 8 <= len (rec_of ty id c).
Proof. unfold rec_of. rewrite len_app, hdr_encode_len. lia. Qed.

(* what is known about writer i, its payload in progress c, the number k of bytes of the record in
   progress that reached the log, and the part of the tenure in progress *)
Definition WL (ty id i : N) (w : wr) (h : holder) (c : bytes) (k : N) (part : bytes) : Prop :=
  wr_type w = ty /\
  (wr_started w = false -> c = [] /\ wr_cur w = []) /\
  (wr_started w = true -> 0 < len c <= 65535 /\ k <= len (rec_of ty id c) /\
     concat (wr_cur w) = drop k (rec_of ty id c) /\ (h <> HWriter i -> k = 0)) /\
  (wr_done w = true -> wr_started w = false -> wr_data w = []) /\
  (h = HWriter i -> wr_started w = true /\ part = take k (rec_of ty id c)) /\
  (h = HNone -> part = []).

(* somebody else holds the lock *)
Definition other (h : holder) (i : N) : Prop := h <> HNone /\ h <> HWriter i.

Lemma not_other h i : ~ other h i -> h = HNone \/ h = HWriter i.
Proof.
  intros H. destruct h as [|j|]; [left; reflexivity| |exfalso; apply H; split; discriminate].
  destruct (N.eq_dec j i) as [E|E]; [right; subst; reflexivity|].
  exfalso. apply H. split; [discriminate|]. intros X. injection X as X. contradiction.
Qed.

Definition PWpost (ty id i : N) (w : wr) (h : holder) (wd : world) (c : bytes) (part : bytes)
  (code : N) (w' : wr) (h' : holder) (wd' : world) : Prop :=
  exists (cs : list bytes) (c' : bytes) (k' : N) (part' : bytes),
    WL ty id i w' h' c' k' part' /\
    (forall pre, wlog wd = pre ++ part -> wlog wd' = pre ++ concat (map (rec_of ty id) cs) ++ part') /\
    Forall (fun x => 0 < len x <= 65535) cs /\
    c ++ wr_data w = concat cs ++ c' ++ wr_data w' /\
    (other h i -> h' = h /\ cs = [] /\ part' = part) /\
    (~ other h i -> h' = HNone \/ h' = HWriter i) /\
    ((wr_done w = true -> wr_started w = false) -> code <> 3 -> wr_done w' = true -> wr_started w' = false).

Lemma pw_refl ty id i w h wd c k part code : WL ty id i w h c k part -> PWpost ty id i w h wd c part code w h wd.
Proof.
  intros HWL. exists [], c, k, part.
  split; [exact HWL|]. split; [intros pre Hp; exact Hp|]. split; [constructor|]. split; [reflexivity|].
  split; [intros _; repeat split|]. split; [apply not_other|]. intros H _. exact H.
Qed.

Lemma poll_writer_step ty id i : forall fuel w h wd c k part code w' h' wd',
  WL ty id i w h c k part ->
  poll_writer fuel id i w h wd = (code, w', h', wd') ->
  PWpost ty id i w h wd c part code w' h' wd'.
Proof.
  induction fuel as [|f IH]; intros w h wd c k part code w' h' wd' HWL E.
  { cbn [poll_writer] in E. injection E as <- <- <- <-. eapply pw_refl. exact HWL. }
  cbn [poll_writer] in E.
  destruct (wr_done w) eqn:Hd.
  { injection E as <- <- <- <-. eapply pw_refl. exact HWL. }
  destruct (wr_started w) eqn:Hs; cbn [negb] in E.
  - (* a record is in progress *)
    destruct (negb (holder_is h i) && negb (holder_free h)) eqn:Hwait.
    { injection E as <- <- <- <-. eapply pw_refl. exact HWL. }
    assert (Hh : h = HNone \/ h = HWriter i).
    { destruct h as [|j|]; [left; reflexivity| |discriminate Hwait].
      cbn [holder_is holder_free negb] in Hwait. rewrite andb_true_r in Hwait.
      destruct (N.eqb_spec j i) as [Ej|Ej]; [right; subst; reflexivity|discriminate Hwait]. }
    assert (Hno : ~ other h i).
    { intros [O1 O2]. destruct Hh; contradiction. }
    destruct HWL as (T & A & B & D & Eh & Fh). destruct (B Hs) as (B1 & B2 & B3 & B4).
    set (rc := rec_of ty id c) in *.
    assert (Hpart : part = take k rc).
    { destruct Hh as [Hh|Hh].
      - rewrite (Fh Hh). rewrite B4 by (rewrite Hh; discriminate). rewrite take_0. reflexivity.
      - apply Eh. exact Hh. }
    change (filter (fun s => negb (len s =? 0)) (wr_cur w)) with (filter nonempty (wr_cur w)) in E.
    pose proof (concat_filter_nonempty (wr_cur w)) as Hcf.
    destruct (filter nonempty (wr_cur w)) as [|s1 more] eqn:EF.
    + (* the record is complete: unlock and go on *)
      cbn [concat] in Hcf. rewrite <- Hcf in B3.
      assert (Hk : k = len rc).
      { apply (f_equal len) in B3. rewrite len_drop, len_nil in B3. lia. }
      assert (Hp2 : part = rc) by (rewrite Hpart, Hk; apply take_all; lia).
      match type of E with poll_writer _ _ _ ?w1 _ _ = _ =>
        assert (HWL1 : WL ty id i w1 HNone [] 0 []) end.
      { unfold WL. cbn [wr_type wr_started wr_done wr_cur wr_data].
        split; [exact T|]. split; [intros _; split; reflexivity|]. split; [discriminate|].
        split; [discriminate|]. split; [discriminate|]. reflexivity. }
      destruct (IH _ _ _ _ _ _ _ _ _ _ HWL1 E) as (cs1 & c' & k' & part' & W' & Hlog & Hcs & Hdata & Hoth & Hnoth & Hdone).
      cbn [wr_data wr_done wr_started app] in Hdata, Hdone.
      exists (c :: cs1), c', k', part'.
      split; [exact W'|].
      split.
      { intros pre Hpre. rewrite Hp2 in Hpre. specialize (Hlog (pre ++ rc)). rewrite app_nil_r in Hlog.
        specialize (Hlog Hpre). rewrite Hlog. cbn [map concat]. fold rc. rewrite <- !app_assoc. reflexivity. }
      split; [constructor; [exact B1|exact Hcs]|].
      split; [cbn [concat]; rewrite <- app_assoc; f_equal; exact Hdata|].
      split; [intros Ho; contradiction|].
      split.
      { intros _. apply Hnoth. intros [O1 _]. apply O1. reflexivity. }
      intros _. apply Hdone. discriminate.
    + (* something is left to write *)
      assert (Hcat : concat (s1 :: more) = drop k rc) by (rewrite Hcf; exact B3).
      match type of E with context [t_poll_write ?o wd] => set (offer := o) in * end.
      assert (HB : exists rest, concat (s1 :: more) = offer ++ rest).
      { unfold offer. cbn [concat]. destruct (vectored wd);
          [exists []; rewrite app_nil_r; reflexivity|exists (concat more); reflexivity]. }
      (* the outcomes that leave the slices as they are *)
      assert (Hstay : forall dn cd wd1, wlog wd1 = wlog wd -> (dn = true -> cd = 3) ->
                PWpost ty id i w h wd c part cd (mkWr (wr_type w) (wr_data w) (s1 :: more) true dn) (HWriter i) wd1).
      { intros dn cd wd1 Hlg Hdn. exists [], c, k, part.
        split.
        { unfold WL. cbn [wr_type wr_started wr_done wr_cur wr_data].
          split; [exact T|]. split; [discriminate|].
          split; [intros _; split; [exact B1|]; split; [exact B2|]; split; [exact Hcat|]; intros X; contradiction|].
          split; [discriminate|]. split; [intros _; split; [reflexivity|exact Hpart]|discriminate]. }
        split; [intros pre Hpre; rewrite Hlg; exact Hpre|]. split; [constructor|]. split; [reflexivity|].
        split; [intros Ho; contradiction|]. split; [intros _; right; reflexivity|].
        cbn [wr_done wr_started]. intros _ Hc3 Hdt. exfalso. apply Hc3. apply Hdn. exact Hdt. }
      destruct (t_poll_write offer wd) as [p wd1] eqn:ET.
      destruct (t_poll_write_cases _ _ _ _ ET) as (Hio & _ & _ & _ & _ & Hp).
      destruct p as [[n|e]| |].
      * destruct (N.eqb_spec n 0) as [Hn0|Hn0].
        { injection E as <- <- <- <-. apply Hstay; [|reflexivity].
          rewrite (io_rel_wlog _ _ _ Hio). subst n. rewrite take_0. apply app_nil_r. }
        destruct Hp as [Hn _]. destruct HB as [rest HB].
        assert (Hlo : len offer <= len rc - k).
        { apply (f_equal len) in HB. rewrite Hcat, len_drop, len_app in HB. lia. }
        assert (Ht : take n offer = take n (drop k rc)).
        { rewrite <- Hcat, HB. rewrite take_app_le by lia. reflexivity. }
        match type of E with poll_writer _ _ _ ?w1 _ _ = _ =>
          assert (HWL1 : WL ty id i w1 (HWriter i) c (k + n) (take (k + n) rc)) end.
        { unfold WL. cbn [wr_type wr_started wr_done wr_cur wr_data].
          split; [exact T|]. split; [discriminate|].
          split.
          { intros _. split; [exact B1|]. fold rc. split; [lia|].
            split; [rewrite concat_cutW; etransitivity; [apply f_equal; exact Hcat|apply drop_drop]|]. intros X. contradiction. }
          split; [discriminate|]. split; [intros _; split; reflexivity|discriminate]. }
        destruct (IH _ _ _ _ _ _ _ _ _ _ HWL1 E) as (cs1 & c' & k' & part' & W' & Hlog & Hcs & Hdata & Hoth & Hnoth & Hdone).
        cbn [wr_data wr_done wr_started] in Hdata, Hdone.
        exists cs1, c', k', part'.
        split; [exact W'|].
        split.
        { intros pre Hpre. apply Hlog. rewrite (io_rel_wlog _ _ _ Hio), Hpre, Ht, Hpart, take_add, <- app_assoc. reflexivity. }
        split; [exact Hcs|]. split; [exact Hdata|].
        split; [intros Ho; contradiction|].
        split.
        { intros _. apply Hnoth. intros [_ O2]. apply O2. reflexivity. }
        intros _. apply Hdone. discriminate.
      * injection E as <- <- <- <-. apply Hstay; [|reflexivity].
        rewrite (io_rel_wlog _ _ _ Hio). apply app_nil_r.
      * injection E as <- <- <- <-. apply Hstay; [|discriminate].
        rewrite (io_rel_wlog _ _ _ Hio). apply app_nil_r.
      * contradiction.
  - (* no record in progress *)
    destruct HWL as (T & A & B & D & Eh & Fh). destruct (A Hs) as (A1 & A2).
    assert (Hnh : h <> HWriter i).
    { intros X. destruct (Eh X) as [Y _]. rewrite Hs in Y. discriminate Y. }
    destruct (wr_data w) as [|x d] eqn:Edata.
    + injection E as <- <- <- <-. exists [], c, k, part.
      split.
      { unfold WL. cbn [wr_type wr_started wr_done wr_cur wr_data].
        split; [exact T|]. split; [intros _; split; [exact A1|reflexivity]|]. split; [discriminate|].
        split; [reflexivity|]. split; [intros X; contradiction|exact Fh]. }
      split; [intros pre Hpre; exact Hpre|]. split; [constructor|]. split; [rewrite Edata; reflexivity|].
      split; [intros _; repeat split|]. split; [apply not_other|].
      intros _ _ _. reflexivity.
    + set (data := x :: d) in *.
      assert (Hlen : 0 < len data) by (unfold data; rewrite len_cons; lia).
      set (n := N.min (len data) 65535) in *.
      match type of E with poll_writer _ _ _ ?w1 _ _ = _ =>
        assert (HWL1 : WL ty id i w1 h (take n data) 0 part) end.
      { unfold WL. cbn [wr_type wr_started wr_done wr_cur wr_data].
        split; [exact T|]. split; [discriminate|].
        split.
        { intros _. split; [rewrite len_take; lia|]. split; [lia|]. split; [|reflexivity].
          rewrite drop_0, T. unfold n. apply slices_rec. }
        split; [discriminate|]. split; [intros X; contradiction|exact Fh]. }
      destruct (IH _ _ _ _ _ _ _ _ _ _ HWL1 E) as (cs1 & c' & k' & part' & W' & Hlog & Hcs & Hdata & Hoth & Hnoth & Hdone).
      cbn [wr_data wr_done wr_started] in Hdata, Hdone. rewrite take_drop in Hdata.
      exists cs1, c', k', part'.
      split; [exact W'|]. split; [exact Hlog|]. split; [exact Hcs|].
      split; [rewrite A1, Edata; exact Hdata|]. split; [exact Hoth|]. split; [exact Hnoth|].
      intros _. apply Hdone. discriminate.
Qed.
