(* Async/WriterProofs.v — proofs of the multi-writer exclusion statements of Async/WriterTargets.v
   over the model Async/Writer.v (C10). *)
From Coq Require Import ZArith.
From FV Require Import Base.Bytes Base.BytesLemmas Gen.Generated Codec.Header Codec.ProtoProofs
  Parser.ReqModel Parser.StreamModel Parser.AbsStream Parser.StreamRefine
  Async.Conn Async.ConnWrites Async.Writer Async.WriterTargets.
From Coq Require Import ZifyBool ZifyNat ZifyN.
Ltac Zify.zify_post_hook ::= Z.div_mod_to_equations.

(* ------------------------------------------------------------------------------------------ *)
(* Part 1: the one-step exclusion laws                                                         *)
(* ------------------------------------------------------------------------------------------ *)

Theorem writer_waits : writer_waits_stmt.
Proof.
  intros fuel id i w h wd Hs Hd Hn Hi. destruct fuel as [|f]; [reflexivity|].
  cbn [poll_writer]. rewrite Hd, Hs. cbn [negb].
  destruct h as [|j|]; [contradiction| |reflexivity].
  cbn [holder_is holder_free negb andb].
  destruct (N.eqb_spec j i) as [E|E]; [subst j; contradiction|reflexivity].
Qed.

(* request_waits_stmt quantifies over every fuel; with no fuel at all the model's poll_output_l
   reports its fuel code 99 instead of Pending, so the statement as written fails at fuel = 0 *)
Definition request_waits_full : Prop := request_waits_stmt.

Definition rw_sp : sp := mkSp [] 0 0 0 0 [1] 0 (mkReq 1 1 0 []) None 0 0 SSkip.
Definition rw_world : world := mkW [] [] [] [] 0 1 0 false false [].

Example request_waits_counterexample :
  output_buffer (rsp (mkR rw_sp false false false)) <> [] /\
  poll_output_l 0 (mkR rw_sp false false false) (HWriter 0) rw_world = (PReady (inr 99), mkR rw_sp false false false, HWriter 0, rw_world).
Proof. split; [vm_compute; discriminate|reflexivity]. Qed.

Lemma request_waits_full_false : ~ request_waits_full.
Proof.
  intros H. specialize (H O (mkR rw_sp false false false) 0 rw_world).
  destruct request_waits_counterexample as [Hne E]. specialize (H Hne). rewrite E in H. discriminate H.
Qed.

Definition request_waits_partial_stmt : Prop :=
  forall fuel r i w, (0 < fuel)%nat -> output_buffer (rsp r) <> [] ->
  poll_output_l fuel r (HWriter i) w = (PWake, r, HWriter i, w).

Theorem request_waits_partial : request_waits_partial_stmt.
Proof.
  intros fuel r i w Hf Hne. destruct fuel as [|f]; [lia|].
  cbn [poll_output_l]. destruct (output_buffer (rsp r)); [contradiction|reflexivity].
Qed.

(* ------------------------------------------------------------------------------------------ *)
(* Part 2: Parser::parse never touches the request                                              *)
(* ------------------------------------------------------------------------------------------ *)

Definition cf_req (q : req) (f : cflow) : Prop :=
  match f with
  | CContinue l | CBreak l | CErr l _ => sreq (lp l) = q
  | CPanic _ => True
  end.

Lemma pfin_req p p' res cap consumed q : sreq p' = q -> cf_req q (pfin p p' res cap consumed).
Proof.
  intros H. unfold pfin. cbv zeta.
  destruct (N.min (payload_rem p) (free_start p - raw_start p) <? consumed); [exact I|].
  match goal with |- cf_req _ (if negb ?c then _ else _) => destruct c end; cbn [negb]; [|exact I].
  match goal with |- cf_req _ (if ?c then _ else _) => destruct c end; cbn [cf_req lp set_core sreq]; exact H.
Qed.

Lemma parse_payload_req maxc l q : sreq (lp l) = q -> cf_req q (parse_payload maxc l).
Proof.
  intros H. rewrite parse_payload_unfold. cbv zeta.
  destruct (sst (lp l)).
  - destruct (lcap l); apply pfin_req; cbn [set_core sreq]; exact H.
  - apply pfin_req. exact H.
  - match goal with |- cf_req _ (let '(_, _) := ?x in _) => destruct x end.
    match goal with |- cf_req _ (if ?c then _ else _) => destruct c end; apply pfin_req; cbn [set_core sreq]; exact H.
Qed.

Lemma hgo_req l st cl pl out added q : sreq (lp l) = q -> cf_req q (hgo l st cl pl out added).
Proof.
  intros H. unfold hgo. cbv zeta.
  match goal with |- cf_req _ (if ?c then _ else _) => destruct c end; [exact I|].
  cbn [cf_req lp set_core sreq]. exact H.
Qed.

Lemma parse_head_req l q : sreq (lp l) = q -> cf_req q (parse_head l).
Proof.
  intros H. rewrite parse_head_unfold. cbv zeta.
  repeat match goal with
  | |- cf_req _ (if ?c then _ else _) => destruct c
  | |- cf_req _ (match ?x with _ => _ end) => destruct x
  end; try (apply hgo_req; exact H); try exact I; cbn [cf_req lp]; exact H.
Qed.

Lemma after_pl_req l q : sreq (lp l) = q -> cf_req q (after_pl l).
Proof.
  intros H. unfold after_pl. cbv zeta.
  destruct (0 <? padding_rem (lp l)); [|apply parse_head_req; exact H].
  destruct (negb (payload_rem (lp l) =? 0)); [exact I|].
  destruct (free_start (lp l) - raw_start (lp l) <=? padding_rem (lp l)).
  - cbn [cf_req lp set_core sreq]. exact H.
  - apply parse_head_req. cbn [lp set_core sreq]. exact H.
Qed.

Lemma parse_iter_req maxc l q : sreq (lp l) = q -> cf_req q (parse_iter maxc l).
Proof.
  intros H. rewrite parse_iter_unfold.
  destruct (0 <? payload_rem (lp l)); [|apply after_pl_req; exact H].
  pose proof (parse_payload_req maxc l q H) as P.
  destruct (parse_payload maxc l) as [l'|l'|l' e|n]; cbn [cf_req] in P; try exact P.
  apply after_pl_req. exact P.
Qed.

Lemma parse_loop_req maxc fuel : forall l q, sreq (lp l) = q -> cf_req q (parse_loop maxc fuel l).
Proof.
  induction fuel as [|f IH]; intros l q H; [exact I|]. cbn [parse_loop].
  destruct (raw_start (lp l) <? free_start (lp l)); [|exact H].
  pose proof (parse_iter_req maxc l q H) as P.
  destruct (parse_iter maxc l) as [l'|l'|l' e|n]; cbn [cf_req] in P; try exact P.
  apply IH. exact P.
Qed.

Lemma sparse_req maxc p new dest :
  match sparse maxc p new dest with
  | StOk p' _ | StErr p' _ _ => sreq p' = sreq p
  | StPanic _ => True
  end.
Proof.
  unfold sparse.
  match goal with |- match (if ?c then _ else _) with _ => _ end => destruct c end; [exact I|].
  match goal with |- match (if ?c then _ else _) with _ => _ end => destruct c end; [exact I|].
  cbv zeta.
  match goal with |- context [parse_loop maxc ?fu ?l] =>
    pose proof (parse_loop_req maxc fu l (sreq p) eq_refl) as P; destruct (parse_loop maxc fu l) as [l'|l'|l' e|n] end;
    cbn [cf_req] in P; try exact I; try exact P.
  - destruct (invars_ok (lp l')); [exact P|exact I].
  - destruct (invars_ok (lp l')); [exact P|exact I].
Qed.

Lemma consume_output_req p n : sreq (consume_output p n) = sreq p.
Proof. unfold consume_output. destruct (_ <=? _); reflexivity. Qed.

(* ------------------------------------------------------------------------------------------ *)
(* Part 3: one poll of one writer                                                              *)
(* ------------------------------------------------------------------------------------------ *)

Lemma concat_cutW n l : concat (Writer.cut_slices n l) = drop n (concat l).
Proof.
  revert n; induction l as [|s t IH]; intros n; cbn [Writer.cut_slices concat].
  - rewrite drop_nil. reflexivity.
  - destruct (N.leb_spec (len s) n) as [H|H].
    + rewrite IH. rewrite drop_app_ge by lia. reflexivity.
    + cbn [concat]. rewrite drop_app_le by lia. reflexivity.
Qed.

Lemma rec_of_len ty id c : 8 <= len (rec_of ty id c).
Proof. unfold rec_of. rewrite len_app, hdr_encode_len. lia. Qed.

(* what is known about writer i, its payload in progress c, the number k of bytes of the record in
   progress that reached the log, and the part of the tenure in progress *)
Definition WL (ty id i : N) (w : wr) (h : holder) (c : bytes) (k : N) (part : bytes) : Prop :=
  wr_type w = ty /\
  (wr_started w = false -> c = [] /\ wr_cur w = []) /\
  (wr_started w = true -> 0 < len c <= 65535 /\ k <= len (rec_of ty id c) /\
     concat (wr_cur w) = drop k (rec_of ty id c) /\ (h <> HWriter i -> k = 0)) /\
  (wr_done w = true -> wr_started w = false -> wr_data w = []) /\
  (h = HWriter i -> wr_started w = true /\ part = take k (rec_of ty id c)) /\
  (h = HNone -> part = []).

(* somebody else holds the lock *)
Definition other (h : holder) (i : N) : Prop := h <> HNone /\ h <> HWriter i.

Lemma not_other h i : ~ other h i -> h = HNone \/ h = HWriter i.
Proof.
  intros H. destruct h as [|j|]; [left; reflexivity| |exfalso; apply H; split; discriminate].
  destruct (N.eq_dec j i) as [E|E]; [right; subst; reflexivity|].
  exfalso. apply H. split; [discriminate|]. intros X. injection X as X. contradiction.
Qed.

Definition PWpost (ty id i : N) (w : wr) (h : holder) (wd : world) (c : bytes) (part : bytes)
  (code : N) (w' : wr) (h' : holder) (wd' : world) : Prop :=
  exists (cs : list bytes) (c' : bytes) (k' : N) (part' : bytes),
    WL ty id i w' h' c' k' part' /\
    (forall pre, wlog wd = pre ++ part -> wlog wd' = pre ++ concat (map (rec_of ty id) cs) ++ part') /\
    Forall (fun x => 0 < len x <= 65535) cs /\
    c ++ wr_data w = concat cs ++ c' ++ wr_data w' /\
    (other h i -> h' = h /\ cs = [] /\ part' = part) /\
    (~ other h i -> h' = HNone \/ h' = HWriter i) /\
    ((wr_done w = true -> wr_started w = false) -> code <> 3 -> wr_done w' = true -> wr_started w' = false).

Lemma pw_refl ty id i w h wd c k part code : WL ty id i w h c k part -> PWpost ty id i w h wd c part code w h wd.
Proof.
  intros HWL. exists [], c, k, part.
  split; [exact HWL|]. split; [intros pre Hp; exact Hp|]. split; [constructor|]. split; [reflexivity|].
  split; [intros _; repeat split|]. split; [apply not_other|]. intros H _. exact H.
Qed.

Lemma poll_writer_step ty id i : forall fuel w h wd c k part code w' h' wd',
  WL ty id i w h c k part ->
  poll_writer fuel id i w h wd = (code, w', h', wd') ->
  PWpost ty id i w h wd c part code w' h' wd'.
Proof.
  induction fuel as [|f IH]; intros w h wd c k part code w' h' wd' HWL E.
  { cbn [poll_writer] in E. injection E as <- <- <- <-. eapply pw_refl. exact HWL. }
  cbn [poll_writer] in E.
  destruct (wr_done w) eqn:Hd.
  { injection E as <- <- <- <-. eapply pw_refl. exact HWL. }
  destruct (wr_started w) eqn:Hs; cbn [negb] in E.
  - (* a record is in progress *)
    destruct (negb (holder_is h i) && negb (holder_free h)) eqn:Hwait.
    { injection E as <- <- <- <-. eapply pw_refl. exact HWL. }
    assert (Hh : h = HNone \/ h = HWriter i).
    { destruct h as [|j|]; [left; reflexivity| |discriminate Hwait].
      cbn [holder_is holder_free negb] in Hwait. rewrite andb_true_r in Hwait.
      destruct (N.eqb_spec j i) as [Ej|Ej]; [right; subst; reflexivity|discriminate Hwait]. }
    assert (Hno : ~ other h i).
    { intros [O1 O2]. destruct Hh; contradiction. }
    destruct HWL as (T & A & B & D & Eh & Fh). destruct (B Hs) as (B1 & B2 & B3 & B4).
    set (rc := rec_of ty id c) in *.
    assert (Hpart : part = take k rc).
    { destruct Hh as [Hh|Hh].
      - rewrite (Fh Hh). rewrite B4 by (rewrite Hh; discriminate). rewrite take_0. reflexivity.
      - apply Eh. exact Hh. }
    change (filter (fun s => negb (len s =? 0)) (wr_cur w)) with (filter nonempty (wr_cur w)) in E.
    pose proof (concat_filter_nonempty (wr_cur w)) as Hcf.
    destruct (filter nonempty (wr_cur w)) as [|s1 more] eqn:EF.
    + (* the record is complete: unlock and go on *)
      cbn [concat] in Hcf. rewrite <- Hcf in B3.
      assert (Hk : k = len rc).
      { apply (f_equal len) in B3. rewrite len_drop, len_nil in B3. lia. }
      assert (Hp2 : part = rc) by (rewrite Hpart, Hk; apply take_all; lia).
      match type of E with poll_writer _ _ _ ?w1 _ _ = _ =>
        assert (HWL1 : WL ty id i w1 HNone [] 0 []) end.
      { unfold WL. cbn [wr_type wr_started wr_done wr_cur wr_data].
        split; [exact T|]. split; [intros _; split; reflexivity|]. split; [discriminate|].
        split; [discriminate|]. split; [discriminate|]. reflexivity. }
      destruct (IH _ _ _ _ _ _ _ _ _ _ HWL1 E) as (cs1 & c' & k' & part' & W' & Hlog & Hcs & Hdata & Hoth & Hnoth & Hdone).
      cbn [wr_data wr_done wr_started app] in Hdata, Hdone.
      exists (c :: cs1), c', k', part'.
      split; [exact W'|].
      split.
      { intros pre Hpre. rewrite Hp2 in Hpre. specialize (Hlog (pre ++ rc)). rewrite app_nil_r in Hlog.
        specialize (Hlog Hpre). rewrite Hlog. cbn [map concat]. fold rc. rewrite <- !app_assoc. reflexivity. }
      split; [constructor; [exact B1|exact Hcs]|].
      split; [cbn [concat]; rewrite <- app_assoc; f_equal; exact Hdata|].
      split; [intros Ho; contradiction|].
      split.
      { intros _. apply Hnoth. intros [O1 _]. apply O1. reflexivity. }
      intros _. apply Hdone. discriminate.
    + (* something is left to write *)
      assert (Hcat : concat (s1 :: more) = drop k rc) by (rewrite Hcf; exact B3).
      match type of E with context [t_poll_write ?o wd] => set (offer := o) in * end.
      assert (HB : exists rest, concat (s1 :: more) = offer ++ rest).
      { unfold offer. cbn [concat]. destruct (vectored wd);
          [exists []; rewrite app_nil_r; reflexivity|exists (concat more); reflexivity]. }
      (* the outcomes that leave the slices as they are *)
      assert (Hstay : forall dn cd wd1, wlog wd1 = wlog wd -> (dn = true -> cd = 3) ->
                PWpost ty id i w h wd c part cd (mkWr (wr_type w) (wr_data w) (s1 :: more) true dn) (HWriter i) wd1).
      { intros dn cd wd1 Hlg Hdn. exists [], c, k, part.
        split.
        { unfold WL. cbn [wr_type wr_started wr_done wr_cur wr_data].
          split; [exact T|]. split; [discriminate|].
          split; [intros _; split; [exact B1|]; split; [exact B2|]; split; [exact Hcat|]; intros X; contradiction|].
          split; [discriminate|]. split; [intros _; split; [reflexivity|exact Hpart]|discriminate]. }
        split; [intros pre Hpre; rewrite Hlg; exact Hpre|]. split; [constructor|]. split; [reflexivity|].
        split; [intros Ho; contradiction|]. split; [intros _; right; reflexivity|].
        cbn [wr_done wr_started]. intros _ Hc3 Hdt. exfalso. apply Hc3. apply Hdn. exact Hdt. }
      destruct (t_poll_write offer wd) as [p wd1] eqn:ET.
      destruct (t_poll_write_cases _ _ _ _ ET) as (Hio & _ & _ & _ & _ & Hp).
      destruct p as [[n|e]| |].
      * destruct (N.eqb_spec n 0) as [Hn0|Hn0].
        { injection E as <- <- <- <-. apply Hstay; [|reflexivity].
          rewrite (io_rel_wlog _ _ _ Hio). subst n. rewrite take_0. apply app_nil_r. }
        destruct Hp as [Hn _]. destruct HB as [rest HB].
        assert (Hlo : len offer <= len rc - k).
        { apply (f_equal len) in HB. rewrite Hcat, len_drop, len_app in HB. lia. }
        assert (Ht : take n offer = take n (drop k rc)).
        { rewrite <- Hcat, HB. rewrite take_app_le by lia. reflexivity. }
        match type of E with poll_writer _ _ _ ?w1 _ _ = _ =>
          assert (HWL1 : WL ty id i w1 (HWriter i) c (k + n) (take (k + n) rc)) end.
        { unfold WL. cbn [wr_type wr_started wr_done wr_cur wr_data].
          split; [exact T|]. split; [discriminate|].
          split.
          { intros _. split; [exact B1|]. fold rc. split; [lia|].
            split; [rewrite concat_cutW; etransitivity; [apply f_equal; exact Hcat|apply drop_drop]|]. intros X. contradiction. }
          split; [discriminate|]. split; [intros _; split; reflexivity|discriminate]. }
        destruct (IH _ _ _ _ _ _ _ _ _ _ HWL1 E) as (cs1 & c' & k' & part' & W' & Hlog & Hcs & Hdata & Hoth & Hnoth & Hdone).
        cbn [wr_data wr_done wr_started] in Hdata, Hdone.
        exists cs1, c', k', part'.
        split; [exact W'|].
        split.
        { intros pre Hpre. apply Hlog. rewrite (io_rel_wlog _ _ _ Hio), Hpre, Ht, Hpart, take_add, <- app_assoc. reflexivity. }
        split; [exact Hcs|]. split; [exact Hdata|].
        split; [intros Ho; contradiction|].
        split.
        { intros _. apply Hnoth. intros [_ O2]. apply O2. reflexivity. }
        intros _. apply Hdone. discriminate.
      * injection E as <- <- <- <-. apply Hstay; [|reflexivity].
        rewrite (io_rel_wlog _ _ _ Hio). apply app_nil_r.
      * injection E as <- <- <- <-. apply Hstay; [|discriminate].
        rewrite (io_rel_wlog _ _ _ Hio). apply app_nil_r.
      * contradiction.
  - (* no record in progress *)
    destruct HWL as (T & A & B & D & Eh & Fh). destruct (A Hs) as (A1 & A2).
    assert (Hnh : h <> HWriter i).
    { intros X. destruct (Eh X) as [Y _]. rewrite Hs in Y. discriminate Y. }
    destruct (wr_data w) as [|x d] eqn:Edata.
    + injection E as <- <- <- <-. exists [], c, k, part.
      split.
      { unfold WL. cbn [wr_type wr_started wr_done wr_cur wr_data].
        split; [exact T|]. split; [intros _; split; [exact A1|reflexivity]|]. split; [discriminate|].
        split; [reflexivity|]. split; [intros X; contradiction|exact Fh]. }
      split; [intros pre Hpre; exact Hpre|]. split; [constructor|]. split; [rewrite Edata; reflexivity|].
      split; [intros _; repeat split|]. split; [apply not_other|].
      intros _ _ _. reflexivity.
    + set (data := x :: d) in *.
      assert (Hlen : 0 < len data) by (unfold data; rewrite len_cons; lia).
      set (n := N.min (len data) 65535) in *.
      match type of E with poll_writer _ _ _ ?w1 _ _ = _ =>
        assert (HWL1 : WL ty id i w1 h (take n data) 0 part) end.
      { unfold WL. cbn [wr_type wr_started wr_done wr_cur wr_data].
        split; [exact T|]. split; [discriminate|].
        split.
        { intros _. split; [rewrite len_take; lia|]. split; [lia|]. split; [|reflexivity].
          rewrite drop_0, T. unfold n. apply slices_rec. }
        split; [discriminate|]. split; [intros X; contradiction|exact Fh]. }
      destruct (IH _ _ _ _ _ _ _ _ _ _ HWL1 E) as (cs1 & c' & k' & part' & W' & Hlog & Hcs & Hdata & Hoth & Hnoth & Hdone).
      cbn [wr_data wr_done wr_started] in Hdata, Hdone. rewrite take_drop in Hdata.
      exists cs1, c', k', part'.
      split; [exact W'|]. split; [exact Hlog|]. split; [exact Hcs|].
      split; [rewrite A1, Edata; exact Hdata|]. split; [exact Hoth|]. split; [exact Hnoth|].
      intros _. apply Hdone. discriminate.
Qed.

(* ------------------------------------------------------------------------------------------ *)
(* Part 4: one poll of the request's read side                                                 *)
(* ------------------------------------------------------------------------------------------ *)

Definition isw (h : holder) : bool := match h with HWriter _ => true | _ => false end.

(* what the request side relies on: nobody holds the lock = no tenure in progress; the request holds it =
   its lock future exists and the flush in progress is not empty *)
Definition Rinv (h : holder) (part : bytes) (r : rstate) : Prop :=
  match h with
  | HNone => part = []
  | HRequest => rlock r = true /\ (part <> [] \/ output_buffer (rsp r) <> [])
  | HWriter _ => True
  end.

(* the effect of request-side activity: complete flushes fl, then the flush in progress part' *)
Definition Rstep (h : holder) (part : bytes) (r : rstate) (w : world)
                 (h' : holder) (part' : bytes) (r' : rstate) (w' : world) (fl : list bytes) : Prop :=
  (forall pre, wlog w = pre ++ part -> wlog w' = pre ++ concat fl ++ part') /\
  Forall (fun b : bytes => b <> []) fl /\
  Rinv h' part' r' /\
  sreq (rsp r') = sreq (rsp r) /\
  (isw h = true -> h' = h /\ fl = [] /\ part' = part) /\
  (isw h = false -> isw h' = false).

Lemma Rinv_indep h part r r2 : h <> HRequest -> Rinv h part r -> Rinv h part r2.
Proof. destruct h; [tauto|tauto|contradiction]. Qed.

Lemma Rstep_same h part r w r' w' : wlog w' = wlog w -> Rinv h part r' -> sreq (rsp r') = sreq (rsp r) ->
  Rstep h part r w h part r' w' [].
Proof.
  intros Hl Hi Hq. split; [intros pre Hp; rewrite Hl; exact Hp|]. split; [constructor|].
  split; [exact Hi|]. split; [exact Hq|]. split; [intros _; repeat split|tauto].
Qed.

Lemma Rstep_trans h part r w h1 part1 r1 w1 w1' h2 part2 r2 w2 fl1 fl2 :
  Rstep h part r w h1 part1 r1 w1 fl1 -> wlog w1' = wlog w1 ->
  Rstep h1 part1 r1 w1' h2 part2 r2 w2 fl2 ->
  Rstep h part r w h2 part2 r2 w2 (fl1 ++ fl2).
Proof.
  intros (A1 & A2 & A3 & A4 & A5 & A6) Hl (B1 & B2 & B3 & B4 & B5 & B6).
  split.
  { intros pre Hp. specialize (A1 pre Hp). specialize (B1 (pre ++ concat fl1)).
    rewrite Hl, A1, <- app_assoc in B1. specialize (B1 eq_refl). rewrite B1, concat_app, <- !app_assoc. reflexivity. }
  split; [apply Forall_app; split; assumption|]. split; [exact B3|]. split; [congruence|].
  split.
  - intros Hw. destruct (A5 Hw) as (-> & -> & ->). destruct (B5 Hw) as (-> & -> & ->). repeat split.
  - intros Hw. apply B6. apply A6. exact Hw.
Qed.

Lemma Rstep_src h part r r0 w h' part' r' w' fl : sreq (rsp r) = sreq (rsp r0) ->
  Rstep h part r w h' part' r' w' fl -> Rstep h part r0 w h' part' r' w' fl.
Proof.
  intros Hq (A1 & A2 & A3 & A4 & A5 & A6). repeat split; try assumption; try congruence; apply A5; assumption.
Qed.

Lemma po_l_nonwriter f r h w x o : isw h = false -> output_buffer (rsp r) = x :: o ->
  poll_output_l (S f) r h w =
    match t_poll_write (x :: o) w with
    | (PReady (inl n), w') =>
      if n =? 0 then (PReady (inr EK_WriteZero), mkR (rsp r) (rwriteable r) true (raborted r), HRequest, w')
      else poll_output_l f (mkR (consume_output (rsp r) n) (rwriteable r) true (raborted r)) HRequest w'
    | (PReady (inr k), w') => (PReady (inr k), mkR (rsp r) (rwriteable r) true (raborted r), HRequest, w')
    | (PWake, w') => (PWake, mkR (rsp r) (rwriteable r) true (raborted r), HRequest, w')
    | (PBlock, w') => (PBlock, r, HRequest, w')
    end.
Proof. intros Hw Ho. cbn [poll_output_l]. rewrite Ho. destruct h; [reflexivity|discriminate Hw|reflexivity]. Qed.

Lemma poll_output_l_step fuel : forall r h w part p r' h' w',
  Rinv h part r -> poll_output_l fuel r h w = (p, r', h', w') ->
  exists fl part', Rstep h part r w h' part' r' w' fl /\ (forall u, p = PReady (inl u) -> h' <> HRequest).
Proof.
  induction fuel as [|f IH]; intros r h w part p r' h' w' Hi E.
  { cbn [poll_output_l] in E. injection E as <- <- <- <-. exists [], part.
    split; [apply Rstep_same; [reflexivity|exact Hi|reflexivity]|]. intros u Hu. discriminate Hu. }
  destruct (output_buffer (rsp r)) as [|x o] eqn:Eo.
  - (* nothing to flush: the lock future is dropped *)
    cbn [poll_output_l] in E. rewrite Eo in E. injection E as <- <- <- <-.
    destruct h as [|j|].
    + exists [], part. split; [apply Rstep_same; [reflexivity|exact Hi|reflexivity]|]. intros u _. discriminate.
    + exists [], part. split; [apply Rstep_same; [reflexivity|exact I|reflexivity]|]. intros u _. discriminate.
    + destruct Hi as [Hl [Hp|Hp]]; [|rewrite Eo in Hp; contradiction].
      exists [part], []. split; [|intros u _; discriminate].
      split; [intros pre Hpre; rewrite Hpre; cbn [concat]; rewrite !app_nil_r; reflexivity|].
      split; [constructor; [exact Hp|constructor]|]. split; [reflexivity|]. split; [reflexivity|].
      split; [intros X; discriminate X|reflexivity].
  - destruct (isw h) eqn:Ew.
    + (* a writer holds the lock *)
      destruct h as [|j|]; try discriminate Ew. cbn [poll_output_l] in E. rewrite Eo in E.
      injection E as <- <- <- <-. exists [], part.
      split; [apply Rstep_same; [reflexivity|exact I|reflexivity]|]. intros u Hu. discriminate Hu.
    + rewrite (po_l_nonwriter f r h w x o Ew Eo) in E. rewrite <- Eo in E.
      set (out := output_buffer (rsp r)) in *.
      assert (Hne : out <> []) by (rewrite Eo; discriminate).
      assert (Hstay : forall k w1, wlog w1 = wlog w ->
                exists fl part', Rstep h part r w HRequest part' (mkR (rsp r) (rwriteable r) true (raborted r)) w1 fl /\
                  (forall u : unit, @PReady (unit + N) (inr k) = PReady (inl u) -> HRequest <> HRequest)).
      { intros k w1 Hl. exists [], part. split; [|intros u Hu; discriminate Hu].
        split; [intros pre Hp; rewrite Hl; exact Hp|]. split; [constructor|].
        split; [cbn [Rinv rlock rsp]; split; [reflexivity|right; exact Hne]|]. split; [reflexivity|].
        split; [rewrite Ew; discriminate|reflexivity]. }
      destruct (t_poll_write out w) as [p1 w1] eqn:ET.
      destruct (t_poll_write_cases _ _ _ _ ET) as (Hio & _ & _ & _ & _ & Hp).
      pose proof (io_rel_wlog _ _ _ Hio) as Hlg.
      destruct p1 as [[n|k]| |].
      * destruct (N.eqb_spec n 0) as [Hn0|Hn0].
        { injection E as <- <- <- <-. apply Hstay. rewrite Hlg. subst n. rewrite take_0. apply app_nil_r. }
        destruct Hp as [Hn _].
        assert (Hi1 : Rinv HRequest (part ++ take n out) (mkR (consume_output (rsp r) n) (rwriteable r) true (raborted r))).
        { cbn [Rinv rlock]. split; [reflexivity|]. left. intros X. apply app_eq_nil in X. destruct X as [_ X].
          apply (f_equal len) in X. rewrite len_take, len_nil in X. apply len_pos_nonnil in Hne. lia. }
        destruct (IH _ _ _ _ _ _ _ _ Hi1 E) as (fl & part' & (A1 & A2 & A3 & A4 & A5 & A6) & Hpr).
        exists fl, part'. split; [|exact Hpr].
        split; [intros pre Hpre; apply A1; rewrite Hlg, Hpre, <- app_assoc; reflexivity|].
        split; [exact A2|]. split; [exact A3|].
        split; [rewrite A4; cbn [rsp]; apply consume_output_req|].
        split; [rewrite Ew; discriminate|]. intros _. apply A6. reflexivity.
      * injection E as <- <- <- <-. destruct (Hstay k w1) as (fl & part' & H1 & H2);
          [rewrite Hlg; apply app_nil_r|]. exists fl, part'. split; [exact H1|]. intros u Hu. discriminate Hu.
      * injection E as <- <- <- <-. destruct (Hstay 0 w1) as (fl & part' & H1 & H2);
          [rewrite Hlg; apply app_nil_r|]. exists fl, part'. split; [exact H1|]. intros u Hu. discriminate Hu.
      * contradiction.
Qed.

Lemma input_loop_l_step maxc fuel : forall dest new r h w part p r' h' w',
  h <> HRequest -> Rinv h part r -> input_loop_l maxc fuel dest new r h w = (p, r', h', w') ->
  exists fl part', Rstep h part r w h' part' r' w' fl.
Proof.
  induction fuel as [|f IH]; intros dest new r h w part p r' h' w' Hh Hi E.
  { cbn [input_loop_l] in E. injection E as <- <- <- <-. exists [], part.
    apply Rstep_same; [reflexivity|exact Hi|reflexivity]. }
  cbn [input_loop_l] in E. pose proof (sparse_req maxc (rsp r) new dest) as Hq.
  destruct (sparse maxc (rsp r) new dest) as [p1 s|p1 e s|n].
  - destruct (s_end s || (0 <? s_stream s)).
    + injection E as <- <- <- <-. exists [], part.
      apply Rstep_same; [reflexivity|eapply Rinv_indep; eassumption|].
      destruct (negb (rwriteable r) && is_final_stream (mkR p1 (rwriteable r) (rlock r) (raborted r))); exact Hq.
    + set (r2 := mkR (compress p1) (rwriteable r) (rlock r) (raborted r)) in *.
      assert (Hq2 : sreq (rsp r2) = sreq (rsp r)) by exact Hq.
      assert (Hi2 : Rinv h part r2) by (eapply Rinv_indep; eassumption).
      destruct (poll_output_l (S f) r2 h w) as [[[po r3] h3] w0] eqn:EP.
      destruct (poll_output_l_step _ _ _ _ _ _ _ _ _ Hi2 EP) as (fl1 & part1 & S1 & Hpo).
      apply (Rstep_src _ _ _ r _ _ _ _ _ _ Hq2) in S1.
      assert (Hdone : forall w1, wlog w1 = wlog w0 -> exists fl part', Rstep h part r w h3 part' r3 w1 fl).
      { intros w1 Hl. exists (fl1 ++ []), part1. eapply Rstep_trans; [exact S1|reflexivity|].
        apply Rstep_same; [exact Hl|apply S1|reflexivity]. }
      destruct po as [[u|k]| |].
      * destruct (t_poll_read (sinput_space (rsp r3)) w0) as [pr w1] eqn:ER.
        destruct (t_poll_read_spec _ _ _ _ ER) as (Hl & _).
        destruct pr as [[b|k]| |].
        -- destruct b as [|y b'].
           ++ injection E as <- <- <- <-. apply Hdone. exact Hl.
           ++ assert (Hh3 : h3 <> HRequest) by (apply (Hpo u); reflexivity).
              assert (Hi3 : Rinv h3 part1 r3) by apply S1.
              destruct (IH _ _ _ _ _ _ _ _ _ _ Hh3 Hi3 E) as (fl2 & part2 & S2).
              exists (fl1 ++ fl2), part2. eapply Rstep_trans; [exact S1|exact Hl|exact S2].
        -- injection E as <- <- <- <-. apply Hdone. exact Hl.
        -- injection E as <- <- <- <-. apply Hdone. exact Hl.
        -- injection E as <- <- <- <-. apply Hdone. exact Hl.
      * injection E as <- <- <- <-. apply Hdone. reflexivity.
      * injection E as <- <- <- <-. apply Hdone. reflexivity.
      * injection E as <- <- <- <-. apply Hdone. reflexivity.
  - injection E as <- <- <- <-. exists [], part.
    apply Rstep_same; [reflexivity|eapply Rinv_indep; eassumption|exact Hq].
  - injection E as <- <- <- <-. exists [], part.
    apply Rstep_same; [reflexivity|exact Hi|reflexivity].
Qed.

Lemma poll_input_l_step maxc fuel dest r h w part p r' h' w' :
  Rinv h part r -> poll_input_l maxc fuel dest r h w = (p, r', h', w') ->
  exists fl part', Rstep h part r w h' part' r' w' fl.
Proof.
  intros Hi E.
  assert (Hsame : (p, r', h', w') = (PReady (inl (0, [])), r, h, w) -> exists fl part', Rstep h part r w h' part' r' w' fl).
  { intros X. injection X as -> -> -> ->. exists [], part. apply Rstep_same; [reflexivity|exact Hi|reflexivity]. }
  assert (Hcons : forall c, (PReady (inl (N.min c (len (stream_buffer (rsp r))), take (N.min c (len (stream_buffer (rsp r)))) (stream_buffer (rsp r)))),
                    mkR (consume_stream (rsp r) (N.min c (len (stream_buffer (rsp r))))) (rwriteable r) (rlock r) (raborted r), h, w) = (p, r', h', w') ->
                    exists fl part', Rstep h part r w h' part' r' w' fl).
  { intros c X. injection X as <- <- <- <-. exists [], part. apply Rstep_same; [reflexivity| |reflexivity].
    destruct h; [exact Hi|exact I|exact Hi]. }
  assert (Hpoll : match poll_output_l fuel r h w with
                  | (PReady (inl _), r1, h1, w1) => input_loop_l maxc fuel dest [] r1 h1 w1
                  | (PReady (inr k), r1, h1, w1) => (PReady (inr k), r1, h1, w1)
                  | (PWake, r1, h1, w1) => (PWake, r1, h1, w1)
                  | (PBlock, r1, h1, w1) => (PBlock, r1, h1, w1)
                  end = (p, r', h', w') -> exists fl part', Rstep h part r w h' part' r' w' fl).
  { clear E. intros E. destruct (poll_output_l fuel r h w) as [[[po r1] h1] w1] eqn:EP.
    destruct (poll_output_l_step _ _ _ _ _ _ _ _ _ Hi EP) as (fl1 & part1 & S1 & Hpo).
    destruct po as [[u|k]| |]; try (injection E as <- <- <- <-; exists fl1, part1; exact S1).
    assert (Hh1 : h1 <> HRequest) by (apply (Hpo u); reflexivity).
    assert (Hi1 : Rinv h1 part1 r1) by apply S1.
    destruct (input_loop_l_step maxc _ _ _ _ _ _ _ _ _ _ _ Hh1 Hi1 E) as (fl2 & part2 & S2).
    exists (fl1 ++ fl2), part2. eapply Rstep_trans; [exact S1|reflexivity|exact S2]. }
  unfold poll_input_l in E. cbv zeta in E.
  destruct dest as [[|pp]|]; destruct (stream_buffer (rsp r)) as [|y sb] eqn:Esb.
  - apply Hsame. symmetry. exact E.
  - apply Hsame. symmetry. exact E.
  - apply Hpoll. exact E.
  - apply (Hcons (N.pos pp)). exact E.
  - apply Hpoll. exact E.
  - apply Hsame. symmetry. exact E.
Qed.

(* ------------------------------------------------------------------------------------------ *)
(* Part 5: the invariant of the whole system                                                   *)
(* ------------------------------------------------------------------------------------------ *)

Lemma upd_writer_nth_gen i w : forall (l : list wr) s k,
  nth_error (map (fun p : N * wr => if fst p =? i then w else snd p) (combine (map N.of_nat (seq s (length l))) l)) k =
  match nth_error l k with Some x => Some (if N.of_nat (s + k) =? i then w else x) | None => None end.
Proof.
  induction l as [|a l IH]; intros s k.
  - destruct k; reflexivity.
  - cbn [length seq map combine]. destruct k as [|k].
    + cbn [nth_error fst snd]. rewrite Nat.add_0_r. reflexivity.
    + cbn [nth_error]. rewrite IH. replace (S s + k)%nat with (s + S k)%nat by lia. reflexivity.
Qed.

(* the characterisation of upd_writer *)
Lemma upd_writer_nth i w l k : nth_error (upd_writer i w l) k =
  match nth_error l k with Some x => Some (if N.of_nat k =? i then w else x) | None => None end.
Proof. unfold upd_writer. rewrite upd_writer_nth_gen. reflexivity. Qed.

Lemma upd_writer_length i w l : length (upd_writer i w l) = length l.
Proof. unfold upd_writer. rewrite map_length, combine_length, map_length, seq_length. lia. Qed.

Lemma chunks_of_app i a b : chunks_of i (a ++ b) = chunks_of i a ++ chunks_of i b.
Proof. unfold chunks_of. apply flat_map_app. Qed.

Lemma chunks_of_TW_same i cs : chunks_of i (map (TW i) cs) = cs.
Proof.
  unfold chunks_of. induction cs as [|c t IH]; [reflexivity|].
  cbn [map flat_map]. rewrite N.eqb_refl, IH. reflexivity.
Qed.

Lemma chunks_of_TW_other i j cs : j <> i -> chunks_of i (map (TW j) cs) = [].
Proof.
  intros Hne. unfold chunks_of. induction cs as [|c t IH]; [reflexivity|].
  cbn [map flat_map]. destruct (N.eqb_spec j i) as [X|X]; [contradiction|]. exact IH.
Qed.

Lemma chunks_of_TR i fl : chunks_of i (map TR fl) = [].
Proof. unfold chunks_of. induction fl as [|c t IH]; [reflexivity|]. cbn [map flat_map]. exact IH. Qed.

Lemma tb_app ws0 id a b : concat (map (tenure_bytes ws0 id) (a ++ b)) =
  concat (map (tenure_bytes ws0 id) a) ++ concat (map (tenure_bytes ws0 id) b).
Proof. rewrite map_app, concat_app. reflexivity. Qed.

Lemma tb_TW ws0 id i cs : map (tenure_bytes ws0 id) (map (TW i) cs) = map (rec_of (wtype ws0 i) id) cs.
Proof. rewrite map_map. reflexivity. Qed.

Lemma tb_TR ws0 id fl : map (tenure_bytes ws0 id) (map TR fl) = fl.
Proof. rewrite map_map. exact (map_id fl). Qed.

Lemma nth_wtype ws0 i w0 : nth_error ws0 (N.to_nat i) = Some w0 -> wtype ws0 i = wr_type w0.
Proof. intros H. unfold wtype. rewrite (nth_error_nth _ _ dummy_wr H). reflexivity. Qed.

Lemma other_dec h i : other h i \/ ~ other h i.
Proof.
  destruct h as [|j|].
  - right. intros [X _]. apply X. reflexivity.
  - destruct (N.eq_dec j i) as [E|E].
    + right. intros [_ X]. apply X. subst. reflexivity.
    + left. split; [discriminate|]. intros X. injection X as X. contradiction.
  - left. split; discriminate.
Qed.

Section Sys.
Variable ws0 : list wr.
Variable id : N.
Variable lg0 : bytes.

Definition WF (h : holder) (ts : list tenure) (cur : N -> bytes) (written : N -> N) (i : N) (w0 w : wr) : Prop :=
  wr_type w = wr_type w0 /\
  wr_data w0 = concat (chunks_of i ts) ++ cur i ++ wr_data w /\
  (wr_started w = false -> cur i = [] /\ wr_cur w = []) /\
  (wr_started w = true -> 0 < len (cur i) <= 65535 /\
     written i <= len (rec_of (wr_type w0) id (cur i)) /\
     concat (wr_cur w) = drop (written i) (rec_of (wr_type w0) id (cur i)) /\
     (~ holds h i -> written i = 0)) /\
  (wr_done w = true -> wr_started w = false -> wr_data w = []).

Definition HOLD (ws : list wr) (h : holder) (r : rstate) (part : bytes) (cur : N -> bytes) (written : N -> N) : Prop :=
  match h with
  | HNone => part = []
  | HWriter i => exists w, nth_error ws (N.to_nat i) = Some w /\ wr_started w = true /\
                           part = take (written i) (rec_of (wtype ws0 i) id (cur i))
  | HRequest => rlock r = true
  end.

Definition SInv (ws : list wr) (h : holder) (r : rstate) (wd : world)
                (ts : list tenure) (part : bytes) (cur : N -> bytes) (written : N -> N) : Prop :=
  wlog wd = lg0 ++ concat (map (tenure_bytes ws0 id) ts) ++ part /\
  Forall (tenure_ok (len ws0)) ts /\
  length ws = length ws0 /\
  r_id (sreq (rsp r)) = id /\
  (forall i w0 w, nth_error ws0 (N.to_nat i) = Some w0 -> nth_error ws (N.to_nat i) = Some w ->
     WF h ts cur written i w0 w) /\
  HOLD ws h r part cur written /\
  (h = HRequest -> part <> [] \/ output_buffer (rsp r) <> []).

Lemma sys_writer_step ws h r wd ts part cur written idx fuel code w' h' wd' :
  SInv ws h r wd ts part cur written -> idx < len ws ->
  poll_writer fuel id idx (nth (N.to_nat idx) ws (mkWr 0 [] [] false true)) h wd = (code, w', h', wd') ->
  (exists ts' part' cur' written', SInv (upd_writer idx w' ws) h' r wd' ts' part' cur' written') /\
  ((wr_done (nth (N.to_nat idx) ws (mkWr 0 [] [] false true)) = true ->
    wr_started (nth (N.to_nat idx) ws (mkWr 0 [] [] false true)) = false) ->
   code <> 3 -> wr_done w' = true -> wr_started w' = false).
Proof.
  intros (I1 & I2 & I3 & I4 & I5 & I6 & I7) Hidx E.
  assert (Hlt : (N.to_nat idx < length ws)%nat) by (unfold len in Hidx; lia).
  destruct (nth_error ws (N.to_nat idx)) as [w|] eqn:Ew; [|apply nth_error_None in Ew; lia].
  destruct (nth_error ws0 (N.to_nat idx)) as [w0|] eqn:Ew0; [|apply nth_error_None in Ew0; lia].
  assert (Hn : nth (N.to_nat idx) ws (mkWr 0 [] [] false true) = w) by (apply nth_error_nth; exact Ew).
  rewrite Hn in *. clear Hn.
  destruct (I5 idx w0 w Ew0 Ew) as (F1 & F2 & F3 & F4 & F5).
  pose proof (nth_wtype _ _ _ Ew0) as Hty.
  assert (HWL : WL (wr_type w0) id idx w h (cur idx) (written idx) part).
  { split; [exact F1|]. split; [exact F3|]. split; [exact F4|]. split; [exact F5|]. split.
    - intros Hh. rewrite Hh in I6. cbn [HOLD] in I6. destruct I6 as (w2 & Ew2 & Hs2 & Hp2).
      rewrite Ew in Ew2. injection Ew2 as <-. split; [exact Hs2|]. rewrite Hp2, Hty. reflexivity.
    - intros Hh. rewrite Hh in I6. exact I6. }
  destruct (poll_writer_step _ _ _ _ _ _ _ _ _ _ _ _ _ _ HWL E)
    as (cs & c' & k' & part' & (T' & A' & B' & D' & Eh' & Fh') & Hlog & Hcs & Hdata & Hoth & Hnoth & Hdone).
  split; [|exact Hdone].
  set (cur' := fun j => if j =? idx then c' else cur j).
  set (written' := fun j => if j =? idx then k' else written j).
  exists (ts ++ map (TW idx) cs), part', cur', written'.
  assert (Hci : cur' idx = c') by (unfold cur'; rewrite N.eqb_refl; reflexivity).
  assert (Hki : written' idx = k') by (unfold written'; rewrite N.eqb_refl; reflexivity).
  assert (Hcj : forall j, j <> idx -> cur' j = cur j /\ written' j = written j).
  { intros j Hj. unfold cur', written'. destruct (N.eqb_spec j idx) as [X|X]; [contradiction|]. split; reflexivity. }
  assert (Hcase : (other h idx /\ h' = h /\ cs = [] /\ part' = part) \/ (~ other h idx /\ (h' = HNone \/ h' = HWriter idx))).
  { destruct (other_dec h idx) as [Ho|Ho]; [left; split; [exact Ho|apply Hoth; exact Ho]|right; split; [exact Ho|apply Hnoth; exact Ho]]. }
  split.
  { rewrite tb_app, tb_TW, Hty. specialize (Hlog (lg0 ++ concat (map (tenure_bytes ws0 id) ts))).
    rewrite <- app_assoc in Hlog. rewrite (Hlog I1). rewrite <- !app_assoc. reflexivity. }
  split.
  { apply Forall_app. split; [exact I2|]. apply Forall_map. eapply Forall_impl; [|exact Hcs].
    intros c0 Hc0. cbn [tenure_ok]. split; [|exact Hc0]. unfold len in *. lia. }
  split; [rewrite upd_writer_length; exact I3|].
  split; [exact I4|].
  split.
  { intros j w0j wj E0j Ej. rewrite upd_writer_nth in Ej.
    destruct (nth_error ws (N.to_nat j)) as [wj0|] eqn:Ewj; [|discriminate Ej].
    rewrite N2Nat.id in Ej. injection Ej as <-.
    destruct (N.eqb_spec j idx) as [->|Hne].
    - rewrite Ew0 in E0j. injection E0j as <-. unfold WF. rewrite Hci, Hki.
      rewrite chunks_of_app, chunks_of_TW_same, concat_app.
      split; [exact T'|]. split; [rewrite F2, <- !app_assoc; f_equal; exact Hdata|].
      split; [exact A'|]. split; [exact B'|exact D'].
    - destruct (Hcj j Hne) as [C1 C2].
      destruct (I5 j w0j wj0 E0j Ewj) as (G1 & G2 & G3 & G4 & G5). unfold WF. rewrite C1, C2.
      rewrite chunks_of_app, chunks_of_TW_other, app_nil_r by (intros X; apply Hne; symmetry; exact X).
      split; [exact G1|]. split; [exact G2|]. split; [exact G3|]. split; [|exact G5].
      intros Hst. destruct (G4 Hst) as (G41 & G42 & G43 & G44).
      split; [exact G41|]. split; [exact G42|]. split; [exact G43|].
      intros Hnh. apply G44. intros Hhj. apply Hnh. unfold holds in *.
      destruct Hcase as [(_ & Hh & _)|(Ho & _)]; [rewrite Hh; exact Hhj|].
      exfalso. apply Ho. rewrite Hhj. split; [discriminate|]. intros X. injection X as X. contradiction. }
  split.
  { destruct Hcase as [(Ho & Hh & _ & Hpp)|(Ho & [Hh|Hh])].
    - rewrite Hh, Hpp. destruct h as [|j|].
      + exact I6.
      + assert (Hne : j <> idx). { intros X. destruct Ho as [_ O2]. apply O2. rewrite X. reflexivity. }
        destruct (Hcj j Hne) as [C1 C2]. cbn [HOLD] in I6 |- *. destruct I6 as (w2 & E2 & S2 & P2).
        exists w2. rewrite C1, C2. split; [|split; [exact S2|exact P2]].
        rewrite upd_writer_nth, E2, N2Nat.id. destruct (N.eqb_spec j idx); [contradiction|reflexivity].
      + exact I6.
    - rewrite Hh. exact (Fh' Hh).
    - rewrite Hh. destruct (Eh' Hh) as (Hs' & Hp'). cbn [HOLD]. exists w'.
      split; [rewrite upd_writer_nth, Ew, N2Nat.id, N.eqb_refl; reflexivity|]. split; [exact Hs'|].
      rewrite Hci, Hki, Hty. exact Hp'. }
  intros Hr. destruct Hcase as [(Ho & Hh & _ & Hpp)|(Ho & [Hh|Hh])]; [|congruence|congruence].
  rewrite Hpp. apply I7. congruence.
Qed.

Lemma SInv_Rinv ws h r wd ts part cur written : SInv ws h r wd ts part cur written -> Rinv h part r.
Proof.
  intros (I1 & I2 & I3 & I4 & I5 & I6 & I7). destruct h as [|j|]; cbn [Rinv HOLD] in *.
  - exact I6.
  - exact I.
  - split; [exact I6|apply I7; reflexivity].
Qed.

Lemma sys_req_step ws h r wd ts part cur written h' part' r' wd' fl :
  SInv ws h r wd ts part cur written -> Rstep h part r wd h' part' r' wd' fl ->
  SInv ws h' r' wd' (ts ++ map TR fl) part' cur written.
Proof.
  intros (I1 & I2 & I3 & I4 & I5 & I6 & I7) (A1 & A2 & A3 & A4 & A5 & A6).
  split.
  { rewrite tb_app, tb_TR. specialize (A1 (lg0 ++ concat (map (tenure_bytes ws0 id) ts))).
    rewrite <- app_assoc in A1. rewrite (A1 I1). rewrite <- !app_assoc. reflexivity. }
  split.
  { apply Forall_app. split; [exact I2|]. apply Forall_map. eapply Forall_impl; [|exact A2].
    intros b Hb. exact Hb. }
  split; [exact I3|]. split; [rewrite A4; exact I4|].
  split.
  { intros j w0 w E0 Ej. destruct (I5 j w0 w E0 Ej) as (G1 & G2 & G3 & G4 & G5). unfold WF.
    rewrite chunks_of_app, chunks_of_TR, app_nil_r.
    split; [exact G1|]. split; [exact G2|]. split; [exact G3|]. split; [|exact G5].
    intros Hst. destruct (G4 Hst) as (G41 & G42 & G43 & G44).
    split; [exact G41|]. split; [exact G42|]. split; [exact G43|].
    intros Hnh. apply G44. intros Hhj. apply Hnh. unfold holds in *.
    assert (Hw : isw h = true) by (rewrite Hhj; reflexivity).
    destruct (A5 Hw) as (-> & _). exact Hhj. }
  split.
  { destruct h' as [|j|] eqn:Eh'; cbn [HOLD Rinv] in *.
    - exact A3.
    - destruct (isw h) eqn:Ew; [|specialize (A6 eq_refl); discriminate A6].
      destruct (A5 eq_refl) as (Hh & _ & Hpp). rewrite <- Hh in I6. cbn [HOLD] in I6. rewrite Hpp. exact I6.
    - apply A3. }
  intros Hr. rewrite Hr in A3. apply A3.
Qed.
End Sys.

(* ------------------------------------------------------------------------------------------ *)
(* Part 6: every schedule                                                                      *)
(* ------------------------------------------------------------------------------------------ *)

Definition wstep_poll (maxc : N) (idx : N) (s : wsys) : N * wsys :=
  let n := len (ws_writers s) in
  if idx =? 99 then
    match poll_input_l maxc (io_fuel (ws_world s) (len (buffer (rsp (ws_req s))))) (Some 4) (ws_req s) (ws_holder s) (ws_world s) with
    | (PReady (inl _), r', h', w') => (1, mkWS (ws_writers s) h' r' w')
    | (PReady (inr _), r', h', w') => (3, mkWS (ws_writers s) h' r' w')
    | (_, r', h', w') => (0, mkWS (ws_writers s) h' r' w')
    end
  else if idx <? n then
    let w := nth (N.to_nat idx) (ws_writers s) (mkWr 0 [] [] false true) in
    let '(c, w', h', wd') := poll_writer (Nat.add (length (wscript (ws_world s))) (Nat.add (Nat.mul 3 (Nat.add (N.to_nat (len (wr_data w) / 65535)) 4)) 16))
                                          (r_id (sreq (rsp (ws_req s)))) idx w (ws_holder s) (ws_world s) in
    (c, mkWS (upd_writer idx w' (ws_writers s)) h' (ws_req s) wd')
  else (2, s).

Definition wnext (s : wsys) (order : list N) (rr : N) : N * list N * N :=
  let n := len (ws_writers s) in
  match order with
  | i :: t => (i, t, rr)
  | [] => ((if rr mod (n + 1) =? n then 99 else rr mod (n + 1)), [], rr + 1)
  end.

Lemma wsteps_S maxc f order rr idle s errd acc : wsteps maxc (S f) order rr idle s errd acc =
  if forallb wr_done (ws_writers s) then (s, errd, acc)
  else
    let '(idx, order', rr') := wnext s order rr in
    let '(code, s') := wstep_poll maxc idx s in
    let idle' := match order' with [] => if (code =? 0) || (code =? 2) then idle + 1 else 0 | _ => idle end in
    wsteps maxc f order' rr' idle' (mkWS (ws_writers s') (ws_holder s') (ws_req s') (w_bump (ws_world s')))
           (errd || (code =? 3) && negb (idx =? 99)) ([idx; code] :: acc).
Proof. reflexivity. Qed.

(* as long as no writer reported an error, a finished writer has no record in progress *)
Definition EInv (ws : list wr) (errd : bool) : Prop :=
  errd = false -> forall k w, nth_error ws k = Some w -> wr_done w = true -> wr_started w = false.

Definition SysInv (ws0 : list wr) (id : N) (lg0 : bytes) (s : wsys) : Prop :=
  exists ts part cur written,
    SInv ws0 id lg0 (ws_writers s) (ws_holder s) (ws_req s) (ws_world s) ts part cur written.

Lemma wstep_poll_inv maxc ws0 id lg0 idx s errd code s' :
  SysInv ws0 id lg0 s -> EInv (ws_writers s) errd -> wstep_poll maxc idx s = (code, s') ->
  SysInv ws0 id lg0 s' /\ EInv (ws_writers s') (errd || (code =? 3) && negb (idx =? 99)).
Proof.
  intros (ts & part & cur & written & HS) HE E. unfold wstep_poll in E. cbv zeta in E.
  destruct (idx =? 99) eqn:E99.
  - destruct (poll_input_l maxc (io_fuel (ws_world s) (len (buffer (rsp (ws_req s))))) (Some 4) (ws_req s) (ws_holder s) (ws_world s))
      as [[[p r'] h'] w'] eqn:EPI.
    destruct (poll_input_l_step _ _ _ _ _ _ _ _ _ _ _ (SInv_Rinv _ _ _ _ _ _ _ _ _ _ _ HS) EPI) as (fl & part' & RS).
    pose proof (sys_req_step _ _ _ _ _ _ _ _ _ _ _ _ _ _ _ _ HS RS) as HS'.
    assert (Hs' : ws_writers s' = ws_writers s /\ ws_holder s' = h' /\ ws_req s' = r' /\ ws_world s' = w').
    { destruct p as [[x|k]| |]; injection E as <- <-; repeat split. }
    destruct Hs' as (S1 & S2 & S3 & S4).
    split.
    + exists (ts ++ map TR fl), part', cur, written. rewrite S1, S2, S3, S4. exact HS'.
    + rewrite S1. cbn [negb]. rewrite andb_false_r, orb_false_r. exact HE.
  - destruct (idx <? len (ws_writers s)) eqn:Elt.
    + apply N.ltb_lt in Elt.
      assert (Hid : r_id (sreq (rsp (ws_req s))) = id) by apply HS.
      rewrite Hid in E.
      match type of E with context [poll_writer ?a1 ?a2 ?a3 ?a4 ?a5 ?a6] =>
        destruct (poll_writer a1 a2 a3 a4 a5 a6) as [[[c w'] h'] wd'] eqn:EPW end.
      injection E as <- <-.
      destruct (sys_writer_step _ _ _ _ _ _ _ _ _ _ _ _ _ _ _ _ _ HS Elt EPW) as [HS' Hdone].
      split; [exact HS'|]. cbn [ws_writers negb]. rewrite andb_true_r.
      intros He k w Hk Hd. apply orb_false_iff in He. destruct He as [He1 He2]. apply N.eqb_neq in He2.
      rewrite upd_writer_nth in Hk. destruct (nth_error (ws_writers s) k) as [w1|] eqn:Ek; [|discriminate Hk].
      injection Hk as <-. destruct (N.eqb_spec (N.of_nat k) idx) as [Eki|Eki].
      * apply Hdone; [|exact He2|exact Hd].
        assert (Hk' : N.to_nat idx = k) by lia. rewrite Hk'. rewrite (nth_error_nth _ _ _ Ek).
        apply (HE He1 k w1 Ek).
      * apply (HE He1 k w1 Ek Hd).
    + injection E as <- <-. split; [exists ts, part, cur, written; exact HS|].
      change (2 =? 3) with false. cbn [andb]. rewrite orb_false_r. exact HE.
Qed.

Lemma wsteps_inv maxc ws0 id lg0 fuel : forall order rr idle s errd acc s' errd' acc',
  SysInv ws0 id lg0 s -> EInv (ws_writers s) errd ->
  wsteps maxc fuel order rr idle s errd acc = (s', errd', acc') ->
  SysInv ws0 id lg0 s' /\ EInv (ws_writers s') errd'.
Proof.
  induction fuel as [|f IH]; intros order rr idle s errd acc s' errd' acc' HS HE E.
  { cbn [wsteps] in E. injection E as <- <- <-. split; assumption. }
  rewrite wsteps_S in E.
  destruct (forallb wr_done (ws_writers s)); [injection E as <- <- <-; split; assumption|].
  destruct (wnext s order rr) as [[idx order'] rr'].
  destruct (wstep_poll maxc idx s) as [code s1] eqn:EP.
  destruct (wstep_poll_inv _ _ _ _ _ _ _ _ _ HS HE EP) as [HS1 HE1].
  eapply IH; [| |exact E].
  - destruct HS1 as (ts & part & cur & written & H). exists ts, part, cur, written.
    cbn [ws_writers ws_holder ws_req ws_world]. exact H.
  - cbn [ws_writers]. exact HE1.
Qed.

Lemma fresh_inv s0 : fresh s0 ->
  SysInv (ws_writers s0) (r_id (sreq (rsp (ws_req s0)))) (wlog (ws_world s0)) s0 /\
  forall errd, EInv (ws_writers s0) errd.
Proof.
  intros (Hh & Hl & Hall). rewrite Forall_forall in Hall. split.
  - exists [], [], (fun _ => []), (fun _ => 0).
    split; [cbn [map concat]; rewrite !app_nil_r; reflexivity|]. split; [constructor|].
    split; [reflexivity|]. split; [reflexivity|].
    split.
    { intros i w0 w E0 Ei. rewrite E0 in Ei. injection Ei as <-.
      destruct (Hall w0 (nth_error_In _ _ E0)) as (Hs & Hc & Hd). unfold WF. cbn [chunks_of flat_map concat app].
      split; [reflexivity|]. split; [reflexivity|]. split; [intros _; split; [reflexivity|exact Hc]|].
      split; [intros X; rewrite Hs in X; discriminate X|]. intros X. rewrite Hd in X. discriminate X. }
    split; [rewrite Hh; reflexivity|]. intros X. rewrite Hh in X. discriminate X.
  - intros errd _ k w Hk Hd. destruct (Hall w (nth_error_In _ _ Hk)) as (_ & _ & Hd'). rewrite Hd' in Hd. discriminate Hd.
Qed.

Theorem writers_exclusive : writers_exclusive_stmt.
Proof.
  intros maxc fuel order rr idle s0 errd acc Hf HRI. cbv zeta.
  destruct (wsteps maxc fuel order rr idle s0 errd acc) as [[s e'] a'] eqn:E. cbn [fst].
  destruct (fresh_inv s0 Hf) as [HS0 HE0].
  destruct (wsteps_inv _ _ _ _ _ _ _ _ _ _ _ _ _ _ HS0 (HE0 errd) E)
    as [(ts & part & cur & written & (I1 & I2 & I3 & I4 & I5 & I6 & I7)) _].
  exists ts, part, cur, written.
  split; [exact I1|]. split; [exact I2|]. split; [exact I3|]. split; [exact I4|]. split; [exact I5|exact I6].
Qed.

Theorem writers_complete : writers_complete_stmt.
Proof.
  intros maxc fuel order rr idle s0 errd acc Hf HRI. cbv zeta.
  destruct (wsteps maxc fuel order rr idle s0 errd acc) as [[s e'] a'] eqn:E.
  intros Hall He Hnr.
  destruct (fresh_inv s0 Hf) as [HS0 HE0].
  destruct (wsteps_inv _ _ _ _ _ _ _ _ _ _ _ _ _ _ HS0 (HE0 errd) E)
    as [(ts & part & cur & written & (I1 & I2 & I3 & I4 & I5 & I6 & I7)) HE].
  rewrite forallb_forall in Hall.
  assert (Hns : forall k w, nth_error (ws_writers s) k = Some w -> wr_done w = true /\ wr_started w = false).
  { intros k w Hk. pose proof (Hall w (nth_error_In _ _ Hk)) as Hd. split; [exact Hd|]. exact (HE He k w Hk Hd). }
  assert (Hpart : part = []).
  { destruct (ws_holder s) as [|j|]; cbn [HOLD] in I6.
    - exact I6.
    - destruct I6 as (w & Ew & Hs & _). destruct (Hns _ _ Ew) as [_ Hs']. rewrite Hs' in Hs. discriminate Hs.
    - exfalso. apply Hnr. reflexivity. }
  exists ts. split; [rewrite I1, Hpart, app_nil_r; reflexivity|]. split; [exact I2|].
  intros i w0 E0.
  destruct (nth_error (ws_writers s) (N.to_nat i)) as [w|] eqn:Ew.
  - destruct (I5 i w0 w E0 Ew) as (G1 & G2 & G3 & G4 & G5). destruct (Hns _ _ Ew) as [Hd Hs].
    destruct (G3 Hs) as [Hc _]. rewrite G2, Hc, (G5 Hd Hs), !app_nil_r. reflexivity.
  - exfalso. apply nth_error_None in Ew. assert (N.to_nat i < length (ws_writers s0))%nat; [|lia].
    apply nth_error_Some. rewrite E0. discriminate.
Qed.

Print Assumptions writer_waits.
Print Assumptions request_waits_partial.
Print Assumptions request_waits_full_false.
Print Assumptions writers_exclusive.
Print Assumptions writers_complete.
