(* Async/EpilogueProofs.v — proof of Async/EpilogueTargets.v: every closed handler invocation owns a stretch of the transport log
   that decodes completely into records, exactly one of which - the last - is an EndRequest with the request's id.
   Part A: decoding a sequence of complete records; typed records ([typed id]: complete records none of which is an EndRequest of
           request [id]) and the records the model writes.
   Part C: the stream parser appends only typed records to its output (on the abstract machine, transferred by refinement; an
           EndRequest among its replies - CantMpxConn - carries the id of ANOTHER request, a 16-bit value as the input is bytes).
   Part B: the request id handed over by the request parser is a 16-bit value (so the epilogue's records decode to that id).
   Part D: the typed invariant threaded through Async/Conn.v, relative to a base log (next to FrameProofs' invariants):
           D1 Request::poll_output / poll_input / record_boundary, D2 handlers and Request::close.
   Part E: Token::run with the ghost log; the theorem.
   Part F: a run (PeerProofs2.ex2). *)
From Coq Require Import ZArith.
From FV Require Import Base.Bytes Base.BytesLemmas Gen.Generated Codec.Varint Codec.NV Codec.Header Codec.Bodies Codec.Vars
  Codec.ProtoProofs Parser.ReqModel Parser.ReqParamsSpec Parser.ReqWire Parser.ReqTargets Parser.ReqParams Parser.ReqDrive Parser.ReqRecords Parser.ReqFinal
  Parser.StreamModel Parser.AbsStream Parser.StreamRefine Parser.StreamInv Parser.EnvCanon
  Async.Conn Async.ConnWrites Async.ConnTotal Async.ConnReads Async.PeerProofs Async.PeerProofs2 Async.LogTargets Async.LogProofs
  Async.ReadsWTargets Async.FrameTargets Async.FrameProofs Async.EpilogueTargets.
From Coq Require Import ZifyBool ZifyNat ZifyN.
Ltac Zify.zify_post_hook ::= Z.div_mod_to_equations.

(* ------------------------------------------------------------------------------------------ *)
(* Part A: decoding complete records                                                            *)
(* ------------------------------------------------------------------------------------------ *)

Lemma parse_records_fuel : forall f1 f2 L, (length L <= f1)%nat -> (length L <= f2)%nat ->
  parse_records f1 L = parse_records f2 L.
Proof.
  induction f1 as [|f1 IH]; intros f2 L H1 H2.
  - destruct L as [|x L']; [|cbn [length] in H1; lia]. destruct f2; reflexivity.
  - destruct f2 as [|f2].
    { destruct L as [|x L']; [reflexivity|cbn [length] in H2; lia]. }
    cbn [parse_records]. destruct (N.ltb_spec (len L) 8) as [H8|H8]; [reflexivity|].
    destruct (hdr_decode (take 8 L)) as [t id cl pl|v|t]; [|reflexivity..].
    destruct (N.ltb_spec (len L) (8 + cl + pl)) as [Hn|Hn]; [reflexivity|].
    assert (Hd : (length (drop (8 + cl + pl) L) + 8 <= length L)%nat).
    { pose proof (len_drop (8 + cl + pl) L) as X. unfold len in *. lia. }
    rewrite (IH f2 (drop (8 + cl + pl) L)) by lia. reflexivity.
Qed.

(* the record a complete record decodes into *)
Definition rec_dec (r : bytes) : N * N * bytes :=
  match hdr_decode (take 8 r) with
  | HOk t id cl pl => (t, id, take cl (drop 8 r))
  | _ => (0, 0, [])
  end.

Lemma decode_cons r L : one_rec r -> decode (r ++ L) = rec_dec r :: decode L.
Proof.
  intros (t & id & cl & pl & H8 & Hd & Hl). unfold decode, rec_dec. rewrite Hd.
  assert (Hlr : (8 <= length r)%nat) by (unfold len in H8; lia).
  rewrite app_length. destruct (length r + length L)%nat as [|f] eqn:Ef; [lia|].
  cbn [parse_records]. rewrite len_app.
  destruct (N.ltb_spec (len r + len L) 8) as [H|_]; [lia|].
  rewrite take_app_le by lia. rewrite Hd.
  destruct (N.ltb_spec (len r + len L) (8 + cl + pl)) as [H|_]; [lia|].
  rewrite <- Hl, drop_len_app.
  rewrite (parse_records_fuel f (length L) L) by lia.
  destruct (parse_records (length L) L) as [rs rest]. cbn [fst]. f_equal. f_equal.
  rewrite drop_app_le by lia. apply take_app_le. rewrite len_drop. lia.
Qed.

Lemma decode_nil : decode [] = [].
Proof. reflexivity. Qed.

Lemma decode_app a b : recs a -> decode (a ++ b) = decode a ++ decode b.
Proof.
  intros Ha. induction Ha as [|r L Hr HL IH]; [reflexivity|].
  rewrite <- app_assoc, (decode_cons r (L ++ b) Hr), (decode_cons r L Hr), IH. reflexivity.
Qed.

(* complete records none of which is an EndRequest of request [id] *)
Definition NE (id : N) (r : N * N * bytes) : Prop := ~ is_end_of id r.
Definition typed (id : N) (X : bytes) : Prop := recs X /\ Forall (NE id) (decode X).

Lemma typed_nil id : typed id [].
Proof. split; [apply recs_nil|constructor]. Qed.

Lemma typed_recs id X : typed id X -> recs X.
Proof. intros H. apply H. Qed.

Lemma typed_app id a b : typed id a -> typed id b -> typed id (a ++ b).
Proof.
  intros [A1 A2] [B1 B2]. split; [apply recs_app; assumption|]. rewrite decode_app by exact A1.
  apply Forall_app. split; assumption.
Qed.

Lemma typed_cancel id a b : recs a -> typed id (a ++ b) -> typed id b.
Proof.
  intros A [B1 B2]. split; [apply (recs_cancel a A b B1)|]. rewrite decode_app in B2 by exact A.
  apply Forall_app in B2. apply B2.
Qed.

Lemma typed_one id r : one_rec r -> NE id (rec_dec r) -> typed id r.
Proof.
  intros H1 H2. split; [apply recs_one; exact H1|]. rewrite <- (app_nil_r r), decode_cons by exact H1.
  constructor; [exact H2|constructor].
Qed.

(* -- the records of the model -- *)
Lemma rec_dec_enc t i cl pl body : known_type t = true -> cl < 65536 ->
  rec_dec (hdr_encode t i cl pl ++ body) = (t, be16 (i / 256 mod 256) (i mod 256), take cl body).
Proof.
  intros Ht Hcl. assert (Hh : len (hdr_encode t i cl pl) = 8) by apply hdr_encode_len.
  assert (Hd : drop 8 (hdr_encode t i cl pl ++ body) = body) by (rewrite <- Hh; apply drop_len_app).
  unfold rec_dec. rewrite Hd, take_app_exact by (symmetry; exact Hh).
  unfold hdr_encode, to_be16. cbn [app]. rewrite (hdr_decode_8 _ _ _ _ _ _ _ Ht).
  rewrite (be16_to_be16 cl Hcl). reflexivity.
Qed.

Lemma NE_type id t i b : t <> RT_EndRequest -> NE id (t, i, b).
Proof. intros H [E _]. cbn [fst] in E. exact (H E). Qed.

Lemma NE_id id t i b : i <> id -> NE id (t, i, b).
Proof. intros H [_ E]. cbn [fst snd] in E. exact (H E). Qed.

Lemma unk_typed id t i : typed id (unk_record t i).
Proof.
  apply typed_one.
  - unfold unk_record. apply one_rec_enc; [reflexivity|vm_compute; reflexivity|].
    unfold unk_encode. rewrite len_cons, len_zeros. reflexivity.
  - unfold unk_record. rewrite rec_dec_enc; [|reflexivity|vm_compute; reflexivity]. apply NE_type. discriminate.
Qed.

Lemma gv_typed id vars maxc : typed id (write_response vars maxc).
Proof.
  pose proof (response_body_len vars maxc) as Hl. unfold write_response. cbv zeta.
  set (body := response_body vars maxc) in *.
  assert (Hm : len body mod 65536 = len body) by (apply N.mod_small; lia). rewrite Hm.
  apply typed_one.
  - apply one_rec_enc; [reflexivity|lia|]. rewrite len_app, len_zeros. reflexivity.
  - rewrite rec_dec_enc; [|reflexivity|lia]. apply NE_type. discriminate.
Qed.

Lemma end_other_typed id app ps i : i < 65536 -> i <> id -> typed id (end_record app ps i).
Proof.
  intros Hi Hne. apply typed_one.
  - unfold end_record. apply one_rec_enc; [reflexivity|vm_compute; reflexivity|].
    unfold end_encode, to_be32. rewrite !len_app, len_zeros. reflexivity.
  - unfold end_record. rewrite rec_dec_enc; [|reflexivity|vm_compute; reflexivity].
    rewrite (be16_to_be16 i Hi). apply NE_id. exact Hne.
Qed.

Lemma stream_records_typed id stype i data : known_type stype = true -> stype <> RT_EndRequest ->
  typed id (stream_records stype i data).
Proof.
  intros Ht Hne. unfold stream_records. pose proof (chunks_sizes data) as Hs.
  induction (chunks data) as [|c t IH]; [apply typed_nil|].
  apply Forall_cons_iff in Hs. destruct Hs as [Hc Hs]. cbn [map concat].
  apply typed_app; [|apply IH; exact Hs]. apply typed_one; [apply rec_of_one; [exact Ht|lia]|].
  unfold rec_of. rewrite rec_dec_enc; [|exact Ht|lia]. apply NE_type. exact Hne.
Qed.

Lemma std_known s : std_stream s -> known_type s = true /\ s <> RT_EndRequest.
Proof. intros [-> | ->]; split; try reflexivity; discriminate. Qed.

(* the epilogue *)
Lemma decode_hdr0 s id L : known_type s = true -> id < 65536 ->
  decode (hdr_encode s id 0 0 ++ L) = (s, id, []) :: decode L.
Proof.
  intros Hs Hid.
  assert (H1 : one_rec (hdr_encode s id 0 0)).
  { rewrite <- (app_nil_r (hdr_encode s id 0 0)). apply one_rec_enc; [exact Hs|lia|reflexivity]. }
  rewrite decode_cons by exact H1. f_equal.
  rewrite <- (app_nil_r (hdr_encode s id 0 0)), rec_dec_enc; [|exact Hs|lia].
  rewrite (be16_to_be16 id Hid). reflexivity.
Qed.

Lemma decode_end app ps id : id < 65536 -> decode (end_record app ps id) = [(RT_EndRequest, id, end_encode app ps)].
Proof.
  intros Hid.
  assert (Hlen : len (end_encode app ps) = 8).
  { unfold end_encode, to_be32. rewrite !len_app, len_zeros. reflexivity. }
  assert (H1 : one_rec (end_record app ps id)).
  { unfold end_record. apply one_rec_enc; [reflexivity|vm_compute; reflexivity|exact Hlen]. }
  rewrite <- (app_nil_r (end_record app ps id)), decode_cons by exact H1. rewrite decode_nil. f_equal.
  unfold end_record. rewrite rec_dec_enc; [|reflexivity|vm_compute; reflexivity].
  rewrite (be16_to_be16 id Hid). reflexivity.
Qed.

Lemma decode_epilogue (gate : bool) app ps id : id < 65536 ->
  decode ((if gate then hdr_encode RT_Stdout id 0 0 ++ hdr_encode RT_Stderr id 0 0 else []) ++ end_record app ps id) =
  (if gate then [(RT_Stdout, id, []); (RT_Stderr, id, [])] else []) ++ [(RT_EndRequest, id, end_encode app ps)].
Proof.
  intros Hid. destruct gate.
  - rewrite <- app_assoc, decode_hdr0, decode_hdr0, decode_end by (try reflexivity; exact Hid). reflexivity.
  - apply decode_end. exact Hid.
Qed.

Lemma epilogue_part_recs (gate : bool) app ps id :
  recs ((if gate then hdr_encode RT_Stdout id 0 0 ++ hdr_encode RT_Stderr id 0 0 else []) ++ end_record app ps id).
Proof.
  apply recs_app; [|apply end_recs]. destruct gate; [|apply recs_nil]. apply recs_app; apply hdr0_recs; reflexivity.
Qed.

(* ------------------------------------------------------------------------------------------ *)
(* Part C: the stream parser appends only typed records to its output                           *)
(* ------------------------------------------------------------------------------------------ *)
Section TypedAbs.
Variable maxc : N.
Variable id : N.
Variable O0 : bytes.

Definition tout (out : bytes) : Prop := exists o, out = O0 ++ o /\ typed id o.

Definition tlinv (l : alstate) : Prop :=
  r_id (a_req (al l)) = id /\ bytes_ok (a_raw (al l)) /\ tout (a_out (al l)).

Definition tfpost (f : aflow) : Prop :=
  match f with
  | AContinue l | ABreak l | AErr l _ => tlinv l
  | APanic _ => True
  end.

Lemma tout_add out x : tout out -> typed id x -> tout (out ++ x).
Proof.
  intros (o & E & T) Tx. exists (o ++ x). split; [rewrite E, app_assoc; reflexivity|apply typed_app; assumption].
Qed.

Lemma apfin_t a a' res cap' consumed :
  r_id (a_req a') = id -> bytes_ok (a_raw a) -> tout (a_out a') -> tfpost (apfin a a' res cap' consumed).
Proof.
  intros Hq Hok Ho. unfold apfin.
  destruct (N.min (a_prem a) (len (a_raw a)) <? consumed); [exact I|].
  assert (L : tlinv (mkAL (a_set a' (a_parsed a') (drop consumed (a_raw a)) (a_out a') (a_prem a - consumed) (a_pad a') (a_st a'))
                          res cap')).
  { unfold tlinv, a_set. cbn [al a_req a_raw a_out]. split; [exact Hq|]. split; [apply bytes_ok_drop; exact Hok|exact Ho]. }
  destruct ((a_prem (a_set a' (a_parsed a') (drop consumed (a_raw a)) (a_out a') (a_prem a - consumed) (a_pad a') (a_st a')) =? 0)
            && (consumed <? len (a_raw a))); exact L.
Qed.

Lemma aparse_payload_t l : tlinv l -> tfpost (aparse_payload maxc l).
Proof.
  intros (Hq & Hok & Ho). rewrite aparse_payload_unfold. cbn zeta.
  set (a := al l) in *.
  destruct (a_st a).
  - destruct (acap l) as [c|]; apply apfin_t; unfold a_set; cbn [a_req a_out]; assumption.
  - apply apfin_t; assumption.
  - destruct (nv_run (take (N.min (a_prem a) (len (a_raw a))) (a_raw a))) as [ps rest].
    destruct (len (a_raw a) <? a_prem a); apply apfin_t; unfold a_set; cbn [a_req a_out]; try assumption.
    apply tout_add; [exact Ho|apply gv_typed].
Qed.

Lemma ahgo_t l st cl pl out added : tlinv l -> tout out -> tfpost (ahgo l st cl pl out added).
Proof.
  intros (Hq & Hok & _) Ho. unfold ahgo, tfpost, tlinv, a_set. cbn [al a_req a_raw a_out].
  split; [exact Hq|]. split; [apply bytes_ok_drop; exact Hok|exact Ho].
Qed.

Lemma aparse_head_t l : tlinv l -> tfpost (aparse_head l).
Proof.
  intros L. rewrite aparse_head_unfold. cbn zeta.
  destruct (a_boundary (al l)); cbn [negb]; [|exact I].
  destruct (len (a_raw (al l)) <? HEADER_LEN); [exact L|].
  assert (SE : tlinv (mkAL (al l) (set_end (ares l)) (acap l))) by exact L.
  pose proof L as (Hq & Hok & Ho).
  destruct (hdr_decode (take HEADER_LEN (a_raw (al l)))) as [t i cl pl|v|t] eqn:Ed.
  - destruct (is_input_stream t && (i =? r_id (a_req (al l)))).
    + destruct (cmp_input_streams (r_role (a_req (al l))) t (a_stream (al l))) as [[| |]|].
      * apply ahgo_t; assumption.
      * destruct (negb (cl =? 0)); [apply ahgo_t; assumption|exact SE].
      * exact SE.
      * exact I.
    + destruct ((t =? RT_AbortRequest) && (i =? r_id (a_req (al l)))); [exact L|].
      destruct ((t =? RT_BeginRequest) && negb (i =? r_id (a_req (al l)))) eqn:Eb.
      * apply ahgo_t; [exact L|]. apply tout_add; [exact Ho|].
        apply andb_true_iff in Eb. destruct Eb as [_ Eb]. apply negb_true_iff, N.eqb_neq in Eb.
        apply hdr_decode_ok_inv in Ed. destruct Ed as (_ & Ei & _).
        pose proof (bytes_ok_take HEADER_LEN _ Hok) as Hh.
        apply end_other_typed; [rewrite Ei; apply be16_lt; apply nthN_lt; exact Hh|congruence].
      * destruct ((t =? RT_GetValues) && hdr_is_management t i); apply ahgo_t; assumption.
  - exact L.
  - apply ahgo_t; [exact L|]. apply tout_add; [exact Ho|apply unk_typed].
Qed.

Lemma aafter_pl_t l : tlinv l -> tfpost (aafter_pl l).
Proof.
  intros L. unfold aafter_pl. cbn zeta.
  destruct (0 <? a_pad (al l)); [|apply aparse_head_t; exact L].
  destruct (negb (a_prem (al l) =? 0)); [exact I|].
  destruct L as (Hq & Hok & Ho).
  destruct (len (a_raw (al l)) <=? a_pad (al l)).
  - unfold tfpost, tlinv, a_set. cbn [al a_req a_raw a_out]. split; [exact Hq|]. split; [constructor|exact Ho].
  - apply aparse_head_t. unfold tlinv, a_set. cbn [al a_req a_raw a_out].
    split; [exact Hq|]. split; [apply bytes_ok_drop; exact Hok|exact Ho].
Qed.

Lemma aparse_iter_t l : tlinv l -> tfpost (aparse_iter maxc l).
Proof.
  intros L. rewrite aparse_iter_unfold.
  destruct (0 <? a_prem (al l)); [|apply aafter_pl_t; exact L].
  pose proof (aparse_payload_t l L) as P.
  destruct (aparse_payload maxc l) as [l'|l'|l' e|n]; cbn [tfpost] in P; try exact P.
  apply aafter_pl_t. exact P.
Qed.

Lemma aparse_loop_t fuel : forall l, tlinv l -> tfpost (aparse_loop maxc fuel l).
Proof.
  induction fuel as [|f IH]; intros l L; [exact I|]. cbn [aparse_loop].
  destruct (a_raw (al l)) as [|x tl] eqn:Er; [exact L|].
  pose proof (aparse_iter_t l L) as P.
  destruct (aparse_iter maxc l) as [l'|l'|l' e|n]; cbn [tfpost] in P; try exact P.
  apply IH. exact P.
Qed.
End TypedAbs.

Lemma aparse_typed maxc a new dest : bytes_ok (a_raw a) -> bytes_ok new ->
  match aparse maxc a new dest with
  | AOk a' _ | AFail a' _ _ => exists o, a_out a' = a_out a ++ o /\ typed (r_id (a_req a)) o
  | APanicked _ => True
  end.
Proof.
  intros Hr Hn. unfold aparse.
  destruct (match dest with Some _ => negb (len (a_parsed a) =? 0) | None => false end); [exact I|].
  destruct (a_space a <? len new); [exact I|].
  set (a1 := mkA (a_B a) (a_space a - len new) (a_parsed a) (a_raw a ++ new) (a_out a) (a_req a) (a_stream a)
                 (a_prem a) (a_pad a) (a_st a)).
  set (res0 := mkStatus 0 (match a_stream a with None => true | Some _ => false end) 0 []).
  assert (L0 : tlinv (r_id (a_req a)) (a_out a) (mkAL a1 res0 dest)).
  { unfold tlinv. subst a1. cbn [al a_req a_raw a_out]. split; [reflexivity|]. split; [apply bytes_ok_app; split; assumption|].
    exists []. split; [symmetry; apply app_nil_r|apply typed_nil]. }
  pose proof (aparse_loop_t maxc _ _ (2 * N.to_nat (a_B a) + 8) _ L0) as P.
  destruct (aparse_loop maxc (2 * N.to_nat (a_B a) + 8) (mkAL a1 res0 dest)) as [l|l|l e|n]; cbn [tfpost] in P;
    try exact I; apply P.
Qed.

(* the same on the index-level model *)
Definition text (id : N) (p p' : sp) : Prop :=
  output_start p' = output_start p /\ exists o, output p' = output p ++ o /\ typed id o.

Lemma text_pext id p p' : text id p p' -> pext p p'.
Proof. intros (E1 & o & E2 & T). split; [exact E1|]. exists o. split; [exact E2|apply T]. Qed.

Lemma text_refl id p : text id p p.
Proof. split; [reflexivity|]. exists []. split; [symmetry; apply app_nil_r|apply typed_nil]. Qed.

Lemma text_trans id a b c : text id a b -> text id b c -> text id a c.
Proof.
  intros (A1 & o1 & A2 & A3) (B1 & o2 & B2 & B3). split; [congruence|].
  exists (o1 ++ o2). split; [rewrite B2, A2, app_assoc; reflexivity|apply typed_app; assumption].
Qed.

Lemma text_same id p p' : output_start p' = output_start p -> output p' = output p -> text id p p'.
Proof. intros H1 H2. split; [exact H1|]. exists []. split; [rewrite H2; symmetry; apply app_nil_r|apply typed_nil]. Qed.

Lemma sparse_typed maxc p new dest : RI p -> bytes_ok (raw_bytes p) -> bytes_ok new ->
  match sparse maxc p new dest with
  | StOk p' _ | StErr p' _ _ => text (r_id (sreq p)) p p'
  | StPanic _ => True
  end.
Proof.
  intros HRI Hraw Hnew. pose proof (sparse_ext maxc p new dest) as X.
  destruct (sparse_refines maxc p new dest HRI) as [Ga _].
  pose proof (aparse_typed maxc (abs p) new dest Hraw Hnew) as T. rewrite Ga in T.
  assert (G : forall p', pext p p' ->
            (exists o, output_buffer p' = output_buffer p ++ o /\ typed (r_id (sreq p)) o) -> text (r_id (sreq p)) p p').
  { intros p' (E1 & o & E2 & Ho) (o' & E3 & To). split; [exact E1|]. exists o. split; [exact E2|].
    assert (Eo : output_buffer p' = output_buffer p ++ o).
    { unfold output_buffer. rewrite E1, E2. apply drop_app_le. apply HRI. }
    rewrite Eo in E3. apply app_inv_head in E3. subst o'. exact To. }
  destruct (sparse maxc p new dest) as [p' s|p' e s|n]; cbn [absres] in T; [| |exact I]; apply G; assumption.
Qed.

(* ------------------------------------------------------------------------------------------ *)
(* Part B: the id of the request handed to the handler is a 16-bit value                         *)
(* ------------------------------------------------------------------------------------------ *)

Definition sid (s : state) : Prop :=
  match s with
  | Params i _ _ | ParamsSkip i _ _ | ParamsValues i _ _ _ => r_id (ireq i) < 65536
  | DoneSkip r _ _ | Done r => r_id r < 65536
  | _ => True
  end.

Definition fsid (f : flow) : Prop :=
  match f with Break _ s | Continue _ s => sid s | PANIC _ => True end.

Ltac brk :=
  repeat match goal with
  | |- (match ?x with _ => _ end) = _ -> _ => destruct x
  end.

Section Sid.
Variable norm : bytes -> bytes.
Variable maxc : N.

Lemma env_extend_id : forall ps r, r_id (env_extend norm r ps) = r_id r.
Proof.
  unfold env_extend. induction ps as [|x t IH]; intros r; [reflexivity|].
  cbn [fold_left]. rewrite IH. reflexivity.
Qed.

Lemma parse_buffered_id i d e i' d' :
  parse_buffered norm i d e = Some (i', d') -> r_id (ireq i') = r_id (ireq i).
Proof.
  unfold parse_buffered. cbv zeta. brk; intros H; try discriminate H; inversion H; reflexivity.
Qed.

Lemma parse_stream_id i d e i' c :
  parse_stream norm i d e = Some (i', c) -> r_id (ireq i') = r_id (ireq i).
Proof.
  unfold parse_stream. cbv zeta. destruct (ibuf i) as [|b0 bt] eqn:Eb.
  - destruct (nv_run d) as [ps rest]. destruct (e && negb (len rest =? 0)); intros H; inversion H;
      cbn [ireq]; apply env_extend_id.
  - destruct (parse_buffered norm i d e) as [[i1 d1]|] eqn:E1; [|discriminate].
    apply parse_buffered_id in E1.
    destruct (ibuf i1) as [|b1 bt1].
    + destruct (nv_run d1) as [ps rest]. destruct (e && negb (len rest =? 0)); intros H; inversion H;
        cbn [ireq]; rewrite env_extend_id; exact E1.
    + intros H; inversion H; subst. exact E1.
Qed.

Lemma into_skip_sid wrap nxt p q : sid nxt -> sid (wrap p q) -> sid (into_skip wrap nxt p q).
Proof. intros Hn Hw. unfold into_skip. destruct ((p =? 0) && (q =? 0)); assumption. Qed.

Lemma skip_sid wrap nxt p q d : (forall p' q', sid (wrap p' q')) -> sid nxt ->
  fsid (skip_drive wrap nxt p q d).
Proof.
  intros Hw Hn. unfold skip_drive. cbv zeta.
  destruct (len d <? p); [apply Hw|]. destruct (len d <? p + q); [apply Hw|exact Hn].
Qed.

Lemma values_sid wrap nxt vars p q d : (forall v' p' q', sid (wrap v' p' q')) -> sid nxt ->
  fsid (fst (values_drive maxc wrap nxt vars p q d)).
Proof.
  intros Hw Hn. unfold values_drive. cbv zeta.
  destruct (0 <? p).
  - destruct (nv_run (take (N.min (len d) p) d)) as [ps rest].
    destruct (len d <? p); [apply Hw|].
    destruct (len (drop p d) <? q); [apply Hw|exact Hn].
  - destruct (len d <? q); [apply Hw|exact Hn].
Qed.

Lemma try_head_sid st0 sk d : sid st0 -> (forall p q, sid (sk p q)) ->
  match try_head st0 sk d with HeadRet f _ => fsid f | HeadOk _ _ _ _ => True end.
Proof.
  intros Hs Hk. unfold try_head. destruct (len d <? HEADER_LEN); [exact Hs|].
  destruct (hdr_decode (take HEADER_LEN d)); cbn [fsid sid]; auto.
Qed.

Lemma try_head_id st0 sk d t id cl pl : bytes_ok d -> try_head st0 sk d = HeadOk t id cl pl -> id < 65536.
Proof.
  intros Hok H. destruct (N.ltb_spec (len d) 8) as [Hl|Hl].
  - rewrite try_head_short in H by exact Hl. discriminate.
  - rewrite try_head_long in H by exact Hl.
    destruct (hdr_decode (take 8 d)) as [t' id' cl' pl'|v|t'] eqn:E; try discriminate.
    inversion H; subst. apply hdr_decode_ok_inv in E. destruct E as [Et [Eid [Ecl Epl]]].
    pose proof (bytes_ok_take 8 d Hok) as Hh. subst. apply be16_lt; apply nthN_lt; exact Hh.
Qed.

Lemma header_skip_to_sid p q : sid (header_skip_to p q).
Proof. unfold header_skip_to. apply into_skip_sid; exact I. Qed.

Lemma params_skip_to_sid i p q : r_id (ireq i) < 65536 -> sid (params_skip_to i p q).
Proof. intros H. unfold params_skip_to. apply into_skip_sid; exact H. Qed.

Lemma header_sid d : bytes_ok d -> fsid (fst (header_drive d)).
Proof.
  intros Hok. rewrite header_drive_eq.
  pose proof (try_head_sid Header header_skip_to d I header_skip_to_sid) as T.
  destruct (try_head Header header_skip_to d) as [t id cl pl|f o] eqn:E; [|exact T].
  apply try_head_id in E; [|exact Hok]. unfold header_body.
  destruct (t =? RT_BeginRequest).
  - destruct (negb (BeginRequest_LEN =? cl)); [exact I|].
    destruct (len d <? 16); [exact I|].
    destruct (begin_decode (slice 8 16 d)) as [x [[role flags]|]].
    + destruct (id =? 0); [exact I|]. cbn [fst fsid sid ireq r_id]. exact E.
    + apply header_skip_to_sid.
  - destruct ((t =? RT_GetValues) && hdr_is_management t id); [exact I|apply header_skip_to_sid].
Qed.

Lemma sh_state_sid i t id cl pl : r_id (ireq i) < 65536 -> sid (sh_state i t id cl pl).
Proof.
  intros H. unfold sh_state. cbv zeta.
  destruct ((t =? RT_Params) && (id =? r_id (ireq i))).
  - destruct (cl =? 0); [apply into_skip_sid; exact H|exact H].
  - destruct ((t =? RT_AbortRequest) && (id =? r_id (ireq i))); [apply header_skip_to_sid|].
    destruct ((t =? RT_BeginRequest) && negb (id =? r_id (ireq i))); [apply params_skip_to_sid; exact H|].
    destruct ((t =? RT_GetValues) && hdr_is_management t id); [exact H|apply params_skip_to_sid; exact H].
Qed.

Lemma stage_head_sid i d : r_id (ireq i) < 65536 -> fsid (fst (stage_head i d)).
Proof.
  intros H. unfold stage_head.
  pose proof (try_head_sid (Params i 0 0) (params_skip_to i) d H (fun p q => params_skip_to_sid i p q H)) as T.
  destruct (try_head (Params i 0 0) (params_skip_to i) d) as [t id cl pl|f o]; [|exact T].
  apply sh_state_sid. exact H.
Qed.

Lemma stage_pad_sid i q d : r_id (ireq i) < 65536 -> fsid (fst (stage_pad i q d)).
Proof.
  intros H. unfold stage_pad. destruct (0 <? q); [|apply stage_head_sid; exact H].
  destruct (len d <=? q); [exact H|apply stage_head_sid; exact H].
Qed.

Lemma params_sid i p q d : r_id (ireq i) < 65536 -> fsid (fst (params_drive norm i p q d)).
Proof.
  intros H. rewrite ReqDrive.params_drive_eq. destruct (0 <? p); [|apply stage_pad_sid; exact H].
  destruct (len d <? p).
  - destruct (parse_stream norm i d false) as [[i' c]|] eqn:E; [|exact I].
    apply parse_stream_id in E.
    destruct (p <? c); [exact I|]. destruct (len d <? c); [exact I|]. cbn [fst fsid sid]. rewrite E. exact H.
  - destruct (parse_stream norm i (take p d) true) as [[i' c]|] eqn:E; [|exact I].
    apply parse_stream_id in E. destruct (negb (c =? p)); [exact I|].
    apply stage_pad_sid. rewrite E. exact H.
Qed.

Lemma drive1_sid s d : sid s -> bytes_ok d -> fsid (fst (drive1 norm maxc s d)).
Proof.
  intros Hs Hok. destruct s as [|p q|vars p q|i p q|i p q|i vars p q|r p q|r|e]; cbn [drive1 fst sid] in *.
  - apply header_sid. exact Hok.
  - apply skip_sid; [intros; exact I|exact I].
  - apply values_sid; [intros; exact I|exact I].
  - apply params_sid. exact Hs.
  - apply skip_sid; [intros; exact Hs|exact Hs].
  - apply values_sid; [intros; exact Hs|exact Hs].
  - apply skip_sid; [intros; exact Hs|exact Hs].
  - exact Hs.
  - exact I.
Qed.

Lemma drive_sid : forall f s d out r s' o, state_ok s -> sid s -> bytes_ok d -> len d < SIZE_LIMIT ->
  drive norm maxc f s d out = DOk r s' o -> sid s'.
Proof.
  induction f as [|f IH]; intros s d out r s' o Hs Hsid Hok Hsz H; [discriminate|].
  rewrite drive_S in H.
  pose proof (drive1_post norm maxc (F_S1 norm) s d Hs Hok Hsz) as P.
  pose proof (drive1_sid s d Hsid Hok) as Q.
  destruct (drive1 norm maxc s d) as [[r0 s0|r0 s0|n] o0]; cbn [step_post fst fsid] in P, Q.
  - inversion H; subst. exact Q.
  - destruct P as [P1 [P2 [P3 P4]]]. destruct r0 as [|b r0'].
    + inversion H; subst. exact Q.
    + pose proof (suffix_len _ _ P3) as Hl.
      eapply (IH s0 (b :: r0')); [exact (proj1 P1)|exact Q|eapply suffix_ok; eassumption|lia|exact H].
  - contradiction.
Qed.

Lemma parse_sid p new p' d o :
  parser_ok p -> sid (st p) -> bytes_ok new -> len new <= input_space p ->
  parse norm maxc p new = POk p' d o -> sid (st p').
Proof.
  intros Hp Hsid Hn Hsp H.
  destruct (parse_spec norm maxc (F_S1 norm) p new Hp Hn Hsp)
    as (rest & s' & o' & Ed & G1 & G2 & G3 & G4 & G5 & _ & Hparse).
  rewrite H in Hparse.
  destruct Hp as (Q1 & Q2 & Q3 & Q4 & Q5). unfold input_space in Hsp.
  assert (Hok : bytes_ok (held p ++ new)) by (apply bytes_ok_app; split; assumption).
  assert (Hl : len (held p ++ new) < SIZE_LIMIT) by (rewrite len_app; lia).
  unfold drive_all in Ed.
  pose proof (drive_sid _ _ _ _ _ _ _ Q1 Hsid Hok Hl Ed) as S.
  destruct (negb (is_final s') && (len rest =? cap p)); inversion Hparse; subst; cbn [st sid]; [exact I|exact S].
Qed.

Lemma parse_request_sid : forall fuel p new w,
  parser_ok p -> sid (st p) -> world_ok w -> bytes_ok new -> len new <= input_space p ->
  match parse_request norm maxc fuel p new w with
  | Ok (inl s) _ => r_id (sreq s) < 65536
  | _ => True
  end.
Proof.
  induction fuel as [|f IH]; intros p new w Hp Hsid Wok Hn Hsp; [exact I|]. cbn [parse_request].
  destruct (parse_facts norm maxc p new Hp Hn Hsp) as (p' & d & o & E & Hp' & Hd & Hl & Hprog).
  pose proof (parse_sid p new p' d o Hp Hsid Hn Hsp E) as Hsid'.
  rewrite E.
  pose proof (await_write_all_io true o w (len o)) as W1.
  destruct (await_write_all (io_fuel w (len o)) true o w) as [[k|] w1|o1 w1]; [exact I| |exact I].
  destruct d.
  - unfold into_stream_parser. destruct (st p') as [| | | | | | |rq|e]; try exact I.
    cbn [sreq]. exact Hsid'.
  - pose proof (await_read_io true (input_space p') w1 0) as AR.
    destruct (await_read (io_fuel w1 0) true (input_space p') w1) as [[b|k] w2|o2 w2]; [|exact I|exact I].
    destruct AR as (S2 & Hb & Hlb & Hnb). destruct b as [|x b']; [exact I|].
    pose proof (ws_ok _ _ W1 Wok) as Wok1.
    exact (IH p' (x :: b') w2 Hp' Hsid' (ws_ok _ _ S2 Wok1) (Hb Wok1) Hlb).
Qed.

End Sid.


(* ------------------------------------------------------------------------------------------ *)
(* Part D1: the typed invariant of a Request, relative to a base log [L0] of complete records:  *)
(*          Request::poll_output / poll_input / record_boundary                                 *)
(* ------------------------------------------------------------------------------------------ *)

Lemma sparse_mini maxc p new dest : RI p -> bytes_ok (raw_bytes p) -> bytes_ok new ->
  match sparse maxc p new dest with
  | StOk p' _ | StErr p' _ _ => RI p' /\ bytes_ok (raw_bytes p') /\ sreq p' = sreq p /\ text (r_id (sreq p)) p p'
  | StPanic _ => True
  end.
Proof.
  intros HRI Hraw Hnew. pose proof (sparse_typed maxc p new dest HRI Hraw Hnew) as T.
  pose proof (sparse_sreq maxc p new dest) as Q.
  destruct (sparse_refines maxc p new dest HRI) as [Ga Gb].
  pose proof (aparse_facts maxc (abs p) new dest Hraw Hnew) as F. rewrite Ga in F.
  destruct (sparse maxc p new dest) as [p' s|p' e s|n]; cbn [absres sparse_post] in *; [| |exact I];
    destruct Gb as [R' _]; destruct F as (_ & _ & _ & F4 & _); (split; [exact R'|split; [exact F4|split; [exact Q|exact T]]]).
Qed.

Lemma tpw_wok offer w p w' : t_poll_write offer w = (p, w') -> world_ok w -> world_ok w'.
Proof.
  unfold t_poll_write. intros E Wok.
  repeat match type of E with
  | (if ?c then _ else _) = _ => destruct c
  | (match ?x with _ => _ end) = _ => destruct x
  end; injection E as <- <-; exact Wok.
Qed.

Lemma tpr_wok L w p w' : t_poll_read L w = (p, w') -> world_ok w ->
  world_ok w' /\ (forall b, p = PReady (inl b) -> bytes_ok b).
Proof.
  intros E Wok. pose proof (ConnTotal.t_poll_read_spec L w) as TS. rewrite E in TS.
  destruct p as [[b|k]| |].
  - destruct TS as (S1 & Hb & _). split; [exact (ws_ok _ _ S1 Wok)|]. intros b' X. injection X as <-. exact (Hb Wok).
  - destruct TS as (S1 & _). split; [exact (ws_ok _ _ S1 Wok)|]. intros b' X. discriminate X.
  - destruct TS as (S1 & _). split; [exact (ws_ok _ _ S1 Wok)|]. intros b' X. discriminate X.
  - destruct TS as (-> & _). split; [exact Wok|]. intros b' X. discriminate X.
Qed.

Lemma compress_text id p : text id p (compress p).
Proof. apply text_same; reflexivity. Qed.

Lemma consume_stream_text id p n : text id p (consume_stream p n).
Proof. apply text_same; reflexivity. Qed.

Lemma set_stream_text id p s p' : set_stream p s = SetOk p' -> text id p p'.
Proof.
  unfold set_stream. intros E.
  repeat match type of E with
         | context [if ?c then _ else _] => destruct c
         | context [match ?x with _ => _ end] => destruct x
         end; try discriminate E; injection E as <-; apply text_same; reflexivity.
Qed.

Section TConn.
Variable maxc : N.
Variable norm : bytes -> bytes.
Variable id : N.
Variable L0 : bytes.
Hypothesis HL0 : recs L0.

(* the log is the base followed by typed records [D], up to the parser's unsent output; with the output lock free [D] is typed *)
Definition TFI (r : rstate) (w : world) : Prop :=
  r_id (sreq (rsp r)) = id /\
  exists D, wlog w = L0 ++ D /\ typed id (D ++ output_buffer (rsp r)) /\ (rlock r = false -> typed id D).

Definition J (r : rstate) (w : world) : Prop :=
  RI (rsp r) /\ bytes_ok (raw_bytes (rsp r)) /\ world_ok w /\ WI true w /\ TFI r w.

Lemma TFI_FI r w : RI (rsp r) -> TFI r w -> FI r w.
Proof.
  intros (_ & _ & _ & _ & R5 & _) (_ & D & E & T1 & T2). unfold FI. split; [exact R5|]. rewrite E. split.
  - rewrite <- app_assoc. apply recs_app; [exact HL0|apply T1].
  - intros Hl. apply recs_app; [exact HL0|apply (T2 Hl)].
Qed.

Lemma TFI_text r w p' wr ab : RI (rsp r) -> TFI r w -> text id (rsp r) p' -> sreq p' = sreq (rsp r) ->
  TFI (mkR p' wr (rlock r) ab) w.
Proof.
  intros R (Hid & D & E & T1 & T2) (E1 & o & E2 & To) Hq. unfold TFI. cbn [rsp rlock]. split; [rewrite Hq; exact Hid|].
  exists D. split; [exact E|]. split; [|exact T2].
  assert (Eo : output_buffer p' = output_buffer (rsp r) ++ o).
  { unfold output_buffer. rewrite E1, E2. apply drop_app_le. apply R. }
  rewrite Eo, app_assoc. apply typed_app; assumption.
Qed.

Lemma TFI_wlog r w w' : TFI r w -> wlog w' = wlog w -> TFI r w'.
Proof. intros (Hid & D & E & T) Ew. split; [exact Hid|]. exists D. rewrite Ew. split; [exact E|exact T]. Qed.

Lemma J_world r w w' : J r w -> world_ok w' -> WI true w' -> wlog w' = wlog w -> J r w'.
Proof.
  intros (R & B & _ & _ & T) Wok' W' Ew. split; [exact R|]. split; [exact B|]. split; [exact Wok'|]. split; [exact W'|].
  apply (TFI_wlog r w w' T Ew).
Qed.

Lemma J_text r w p' wr ab : J r w -> RI p' -> bytes_ok (raw_bytes p') -> sreq p' = sreq (rsp r) -> text id (rsp r) p' ->
  J (mkR p' wr (rlock r) ab) w.
Proof.
  intros (R & B & Wok & W & T) R' B' Hq X. split; [exact R'|]. split; [exact B'|]. split; [exact Wok|]. split; [exact W|].
  apply TFI_text; assumption.
Qed.

Lemma J_id r w : J r w -> r_id (sreq (rsp r)) = id.
Proof. intros (_ & _ & _ & _ & Hid & _). exact Hid. Qed.

Lemma poll_output_J : forall fuel r w, J r w -> match poll_output fuel r w with (_, r', w') => J r' w' end.
Proof.
  induction fuel as [|f IH]; intros r w HJ; [exact HJ|].
  cbn [poll_output]. destruct HJ as (R & B & Wok & W & Hid & D & E & T1 & T2).
  destruct (output_buffer (rsp r)) as [|x o'] eqn:Eo.
  - split; [exact R|]. split; [exact B|]. split; [exact Wok|]. split; [exact W|]. split; [exact Hid|].
    exists D. cbn [rsp rlock]. rewrite Eo. split; [exact E|]. split; [exact T1|]. intros _. rewrite app_nil_r in T1. exact T1.
  - destruct (t_poll_write (x :: o') w) as [p w1] eqn:ET. destruct (tpw_fr true _ w p w1 ET W) as [W1 C].
    pose proof (tpw_wok _ _ _ _ ET Wok) as Wok1.
    destruct p as [[n|k]| |]; try contradiction.
    + destruct C as (L1 & Hn & Hn0). destruct (N.eqb_spec n 0) as [Hz|Hz]; [specialize (Hn0 Hz); discriminate Hn0|].
      apply IH. destruct (sp_same_views _ _ (consume_output_same (rsp r) n)) as (_ & V2 & _ & _ & _ & V6).
      split; [apply consume_output_RI; exact R|]. split; [cbn [rsp]; rewrite V2; exact B|]. split; [exact Wok1|].
      split; [exact W1|]. split; [cbn [rsp]; rewrite V6; exact Hid|].
      exists (D ++ take n (x :: o')). cbn [rsp rlock]. split; [rewrite L1, E, app_assoc; reflexivity|]. split; [|discriminate].
      rewrite consume_output_buffer, Eo, <- app_assoc, take_drop. exact T1.
    + split; [exact R|]. split; [exact B|]. split; [exact Wok1|]. split; [exact W1|]. split; [exact Hid|].
      exists D. cbn [rsp rlock]. rewrite Eo, C. split; [exact E|]. split; [exact T1|discriminate].
Qed.

Lemma input_loop_J : forall fuel dest new r w, bytes_ok new -> J r w ->
  match input_loop maxc fuel dest new r w with (_, r', w') => J r' w' end.
Proof.
  induction fuel as [|f IH]; intros dest new r w Hnew HJ; [exact HJ|].
  cbn [input_loop]. pose proof HJ as (R & B & Wok & W & T).
  pose proof (sparse_mini maxc (rsp r) new dest R B Hnew) as X. rewrite (J_id r w HJ) in X.
  destruct (sparse maxc (rsp r) new dest) as [p1 s|p1 e s|n].
  - destruct X as (R1 & B1 & Q1 & X1).
    destruct (s_end s || (0 <? s_stream s)).
    + match goal with |- context [if ?c then _ else _] => destruct c end; apply J_text; assumption.
    + set (r2 := mkR (compress p1) (rwriteable r) (rlock r) (raborted r)).
      destruct (compress_views p1 R1) as (Rc & _ & Bc & _).
      assert (J2 : J r2 w).
      { apply J_text; [exact HJ|exact Rc|rewrite Bc; exact B1|exact Q1|].
        eapply text_trans; [exact X1|apply compress_text]. }
      pose proof (poll_output_J (S f) r2 w J2) as PO.
      destruct (poll_output (S f) r2 w) as [[po r3] w0].
      destruct po as [[u|k]| |]; try exact PO.
      destruct (t_poll_read (sinput_space (rsp r3)) w0) as [pr w1] eqn:ET.
      pose proof PO as (_ & _ & Wok0 & W0 & _).
      destruct (tpr_fr true _ _ _ _ ET W0) as [W1 L1]. destruct (tpr_wok _ _ _ _ ET Wok0) as [Wok1 Hb].
      pose proof (J_world r3 w0 w1 PO Wok1 W1 L1) as J3.
      destruct pr as [[b|k]| |]; try exact J3.
      destruct b as [|y b']; [exact J3|]. apply IH; [apply Hb; reflexivity|exact J3].
  - destruct X as (R1 & B1 & Q1 & X1). apply J_text; assumption.
  - exact HJ.
Qed.

Lemma poll_input_J fuel dest r w : J r w -> match poll_input maxc fuel dest r w with (_, r', w') => J r' w' end.
Proof.
  intros HJ. unfold poll_input. cbv zeta.
  assert (POLL : match (match poll_output fuel r w with
                 | (PReady (inl _), r1, w1) => input_loop maxc fuel dest [] r1 w1
                 | (PReady (inr k), r1, w1) => (PReady (inr k), r1, w1)
                 | (PWake, r1, w1) => (PWake, r1, w1)
                 | (PBlock, r1, w1) => (PBlock, r1, w1)
                 end) with (_, r', w') => J r' w' end).
  { pose proof (poll_output_J fuel r w HJ) as PO. destruct (poll_output fuel r w) as [[po r1] w1].
    destruct po as [[u|k]| |]; try exact PO. apply input_loop_J; [constructor|exact PO]. }
  destruct dest as [c|].
  - destruct c as [|c'].
    + destruct (stream_buffer (rsp r)); exact HJ.
    + destruct (stream_buffer (rsp r)) as [|x sb']; [exact POLL|].
      pose proof HJ as (R & B & _).
      match goal with |- context [consume_stream (rsp r) ?k] =>
        destruct (consume_stream_views (rsp r) k R) as (V1 & V2 & _) end.
      apply J_text; [exact HJ|exact V1|rewrite V2; exact B|reflexivity|apply consume_stream_text].
  - destruct (stream_buffer (rsp r)) as [|x sb']; [exact POLL|exact HJ].
Qed.

Definition jpost {X} (x : res (X * rstate)) : Prop :=
  match x with Ok (_, r') w' => J r' w' | Halt _ _ => True end.

Lemma J_bump r w : J r w -> J r (w_bump w).
Proof. intros HJ. pose proof HJ as (_ & _ & Wok & W & _). apply (J_world r w); [exact HJ|exact Wok|apply WI_bump; exact W|reflexivity]. Qed.

Lemma await_input_J : forall fuel dest r w, J r w -> jpost (await_input maxc fuel dest r w).
Proof.
  induction fuel as [|f IH]; intros dest r w HJ; [exact I|].
  cbn [await_input].
  pose proof (poll_input_J (io_fuel w (len (buffer (rsp r)))) dest r w HJ) as PI.
  destruct (poll_input maxc (io_fuel w (len (buffer (rsp r)))) dest r w) as [[p r1] w1].
  pose proof PI as (_ & _ & _ & W1 & _).
  destruct p as [x| |].
  - exact PI.
  - apply (on_wake_fr true false w1 _ jpost W1).
    + intros Wb. apply IH. apply J_bump. exact PI.
    + intros X. discriminate X.
  - apply (on_block_fr true false w1 _ jpost W1).
    + intros X. discriminate X.
    + intros X. discriminate X.
    + exact I.
Qed.

Lemma boundary_loop_J : forall fuel new r w, bytes_ok new -> J r w -> jpost (boundary_loop maxc fuel new r w).
Proof.
  induction fuel as [|f IH]; intros new r w Hnew HJ; [exact I|].
  rewrite ConnTotal.boundary_loop_S. pose proof HJ as (R & B & Wok & W & T).
  assert (AFTER : forall p', RI p' -> bytes_ok (raw_bytes p') -> sreq p' = sreq (rsp r) -> text id (rsp r) p' ->
            jpost (ConnTotal.bl_after maxc f r w p')).
  { intros p' R1 B1 Q1 X1. unfold ConnTotal.bl_after. cbv zeta. destruct (is_record_boundary p').
    { apply J_text; assumption. }
    destruct (compress_views p' R1) as (Rc & _ & Bc & _).
    assert (J2 : J (mkR (compress p') (rwriteable r) (rlock r) (raborted r)) w).
    { apply J_text; [exact HJ|exact Rc|rewrite Bc; exact B1|exact Q1|].
      eapply text_trans; [exact X1|apply compress_text]. }
    pose proof (await_read_fr true (io_fuel w 0) false (sinput_space (compress p')) w W) as AR.
    pose proof (await_read_io false (sinput_space (compress p')) w 0) as AI.
    destruct (await_read (io_fuel w 0) false (sinput_space (compress p')) w) as [[b|k] w1|o w1]; [| |exact I].
    - destruct AR as [W1 L1]. destruct AI as (S1 & Hb & _).
      pose proof (J_world _ w w1 J2 (ws_ok _ _ S1 Wok) W1 L1) as J3.
      destruct b as [|x b']; [exact J3|]. apply IH; [exact (Hb Wok)|exact J3].
    - destruct AR as [W1 L1]. destruct AI as (S1 & _).
      exact (J_world _ w w1 J2 (ws_ok _ _ S1 Wok) W1 L1). }
  pose proof (sparse_mini maxc (rsp r) new None R B Hnew) as X. rewrite (J_id r w HJ) in X.
  destruct (sparse maxc (rsp r) new None) as [p' s|p' e s|n]; [| |exact I].
  - destruct X as (R1 & B1 & Q1 & X1). apply AFTER; assumption.
  - destruct X as (R1 & B1 & Q1 & X1).
    destruct e; try (apply AFTER; assumption); (apply J_text; assumption).
Qed.

Lemma record_boundary_J r w : J r w -> jpost (record_boundary maxc r w).
Proof.
  intros HJ. unfold record_boundary. destruct (is_record_boundary (rsp r)); [exact HJ|].
  apply boundary_loop_J; [constructor|exact HJ].
Qed.

(* ------------------------------------------------------------------------------------------ *)
(* Part D2: handlers and Request::close.  Between the operations of a handler that awaits its    *)
(* reads the output lock is free (FrameProofs.HI in mode [true]); the typed invariant rides along *)
(* ------------------------------------------------------------------------------------------ *)
Definition TI (r : rstate) (w : world) : Prop := HI true r w /\ TFI r w.

Lemma TI_J r w : TI r w -> J r w.
Proof.
  intros ((G & Wok & W & F & LK) & T). destruct G as ((R & _ & B & _) & _).
  split; [exact R|]. split; [exact B|]. split; [exact Wok|]. split; [exact W|exact T].
Qed.

Definition tpost {X} (x : res (X * rstate)) : Prop :=
  match x with Ok (_, r') w' => TI r' w' | Halt _ _ => True end.

Lemma await_input_TI dest r w : TI r w -> tpost (await_input maxc (io_fuel w 0) dest r w).
Proof.
  intros HT. pose proof (await_input_HI maxc norm true dest r w (proj1 HT)) as A.
  pose proof (await_input_J (io_fuel w 0) dest r w (TI_J r w HT)) as Bj.
  destruct (await_input maxc (io_fuel w 0) dest r w) as [[v r1] w1|o w1]; cbn [hpostF jpost tpost] in *; [|exact I].
  split; [exact A|apply Bj].
Qed.

Lemma read_all_TI : forall fuel acc r w, TI r w -> tpost (read_all maxc fuel acc r w).
Proof.
  induction fuel as [|f IH]; intros acc r w H; [exact I|].
  cbn [read_all]. pose proof (await_input_TI (Some 64) r w H) as A.
  destruct (await_input maxc (io_fuel w 0) (Some 64) r w) as [[[[n b]|k] r'] w'|o w']; cbn [tpost] in A |- *.
  - destruct (n =? 0); [exact A|apply IH; exact A].
  - exact A.
  - exact I.
Qed.

Lemma J_set r w s p' : rgood r -> J r w -> set_stream (rsp r) s = SetOk p' ->
  J (mkR p' (rwriteable r) (rlock r) (raborted r)) w.
Proof.
  intros G HJ E.
  assert (Hs : match s with Some x => is_input_stream x = true | None => True end).
  { destruct s as [x|]; [|exact I]. apply (accepts_input _ _ _ (set_stream_ok_accepted _ _ _ E)). }
  destruct (set_stream_views (rsp r) s p' (proj1 G) Hs E) as ((R' & _ & B' & _) & Q & _).
  apply J_text; [exact HJ|exact R'|exact B'|exact Q|apply (set_stream_text id _ s); exact E].
Qed.

Lemma do_writeable_J r w : rgood r -> J r w -> jpost (do_writeable maxc r w).
Proof.
  intros G HJ. unfold do_writeable. destruct (rwriteable r); [exact HJ|].
  match goal with |- context [set_stream ?p ?s] => destruct (set_stream p s) as [p'| |] eqn:ES end; [|exact I..].
  pose proof (J_set r w _ p' G HJ ES) as J1.
  match goal with |- context [await_input maxc ?fu ?d ?r0 w] =>
    pose proof (await_input_J fu d r0 w J1) as H;
    destruct (await_input maxc fu d r0 w) as [[[v|k] r'] w'|o w'] end; exact H.
Qed.

Lemma do_writeable_TI r w : TI r w -> tpost (do_writeable maxc r w).
Proof.
  intros HT. pose proof (do_writeable_HI maxc norm true r w (proj1 HT)) as A.
  pose proof (do_writeable_J r w (proj1 (proj1 HT)) (TI_J r w HT)) as Bj.
  destruct (do_writeable maxc r w) as [[v r1] w1|o w1]; cbn [hpostF jpost tpost] in *; [|exact I].
  split; [exact A|apply Bj].
Qed.

Lemma TI_consume r w c : TI r w -> TI (mkR (consume_stream (rsp r) c) (rwriteable r) (rlock r) (raborted r)) w.
Proof.
  intros HT. split; [apply HI_consume; exact (proj1 HT)|].
  pose proof (TI_J r w HT) as (R & _ & _ & _ & T). apply TFI_text; [exact R|exact T|apply consume_stream_text|reflexivity].
Qed.

Lemma TI_set r w s p' : TI r w -> set_stream (rsp r) (Some s) = SetOk p' ->
  TI (mkR p' (rwriteable r) (rlock r) (raborted r)) w.
Proof.
  intros HT E. split; [apply (HI_set true r w s p' (proj1 HT) E)|].
  pose proof (TI_J r w HT) as (R & _ & _ & _ & T).
  apply TFI_text; [exact R|exact T|apply (set_stream_text id _ (Some s)); exact E|apply (set_stream_sreq _ _ _ E)].
Qed.

(* the scripts of the statement *)
Inductive tscript : list N -> Prop :=
| TS_nil : tscript []
| TS_read n rest : tscript rest -> tscript (1 :: n :: rest)
| TS_all rest : tscript rest -> tscript (2 :: rest)
| TS_fill k rest : tscript rest -> tscript (3 :: k :: rest)
| TS_set s rest : tscript rest -> tscript (4 :: s :: rest)
| TS_wr rest : tscript rest -> tscript (5 :: rest)
| TS_write s n rest : std_stream s -> tscript (drop n rest) -> tscript (6 :: s :: n :: rest)
| TS_flush s rest : tscript rest -> tscript (7 :: s :: rest)
| TS_exit d c rest : In d EXITSTATUS_VALUES -> tscript (8 :: d :: c :: rest)
| TS_fail k rest : tscript (9 :: k :: rest)
| TS_readq n rest : tscript rest -> tscript (10 :: n :: rest).

Definition tres (x : res ((N * N + N) * rstate)) : Prop :=
  match x with
  | Ok (st, r') w' => TI r' w' /\ match st with inl (d, _) => In d EXITSTATUS_VALUES | inr _ => True end
  | Halt _ _ => True
  end.

Lemma run_handler_TI script : tscript script -> forall f r w, TI r w -> tres (run_handler maxc f script r w).
Proof.
  induction 1 as [|n rest H IH|rest H IH|k rest H IH|s rest H IH|rest H IH|s n rest Hs H IH|s rest H IH|d c rest Hd|k rest
                  |n rest H IH];
    intros f r w HT; (destruct f as [|f]; [exact I|]); cbn [run_handler].
  - (* end of script *) split; [exact HT|apply exit_complete_in].
  - (* 1 n *)
    pose proof (await_input_TI (Some n) r w HT) as A.
    destruct (await_input maxc (io_fuel w 0) (Some n) r w) as [[[[c b]|k] r1] w1|o w1]; cbn [tpost] in A;
      [apply IH; exact A|apply IH; exact A|exact I].
  - (* 2 *)
    match goal with |- context [read_all maxc ?fu [] r w] =>
      pose proof (read_all_TI fu [] r w HT) as A; destruct (read_all maxc fu [] r w) as [[[k acc] r1] w1|o w1] end;
      cbn [tpost] in A; [apply IH; exact A|exact I].
  - (* 3 k *)
    pose proof (await_input_TI None r w HT) as A.
    destruct (await_input maxc (io_fuel w 0) None r w) as [[[[c b]|e] r1] w1|o w1]; cbn [tpost] in A; [| |exact I].
    + apply IH. apply (TI_consume r1 w1 _ A).
    + apply IH. exact A.
  - (* 4 s *)
    destruct (set_stream (rsp r) (Some s)) as [p'| |] eqn:E; [|exact I..].
    apply IH. apply (TI_set r w s p' HT E).
  - (* 5 *)
    pose proof (do_writeable_TI r w HT) as A.
    destruct (do_writeable maxc r w) as [[e r1] w1|o w1]; cbn [tpost] in A; [apply IH; exact A|exact I].
  - (* 6 s n data *)
    cbv zeta. destruct (negb (rwriteable r)); [apply IH; exact HT|].
    destruct HT as ((G & Wok & W & F & LK) & T).
    pose proof (LK eq_refl) as Elk. rewrite Elk. cbn [andb].
    destruct (std_known s Hs) as [Hk Hne].
    pose proof (wwa_fr true (N.to_nat (n / 65535) + 2) s (r_id (sreq (rsp r))) (take n rest) w W (proj2 (proj2 F) Elk) Hk) as WW.
    pose proof (ConnWrites.writer_write_all_ok (N.to_nat (n / 65535) + 2) s (r_id (sreq (rsp r))) (take n rest) w) as WS.
    destruct (writer_write_all (N.to_nat (n / 65535) + 2) s (r_id (sreq (rsp r))) (take n rest) w) as [[k|] w1|o w1];
      cbn [wfr] in WW; [contradiction| |exact I].
    destruct WW as [W1 L1]. destruct (WS w1 eq_refl) as (_ & _ & Hsegs & _).
    apply IH. split.
    + split; [exact G|]. split; [unfold world_ok; cbn [w_ev segs]; rewrite Hsegs; exact Wok|]. split; [exact W1|].
      split; [|intros _; exact Elk].
      apply (FI_write r w _ (stream_records s (r_id (sreq (rsp r))) (take n rest)) F Elk L1).
      apply stream_records_recs. exact Hk.
    + destruct T as (Hid & D & E & T1 & T2). split; [exact Hid|].
      exists (D ++ stream_records s (r_id (sreq (rsp r))) (take n rest)).
      split; [cbn [w_ev wlog]; rewrite L1, E, app_assoc; reflexivity|].
      pose proof (T2 Elk) as TD. pose proof (typed_cancel id D _ (typed_recs _ _ TD) T1) as Tob.
      assert (Tsr : typed id (stream_records s (r_id (sreq (rsp r))) (take n rest)))
        by (apply stream_records_typed; assumption).
      split; [rewrite <- app_assoc; apply typed_app; [exact TD|apply typed_app; assumption]|].
      intros _. apply typed_app; assumption.
  - (* 7 s *)
    destruct (rwriteable r); [|apply IH; exact HT].
    destruct (rlock r) eqn:Elk; [exact I|apply IH; exact HT].
  - (* 8 d c *) split; [exact HT|exact Hd].
  - (* 9 k *) split; [exact HT|exact I].
  - (* 10 n *)
    pose proof (await_input_TI (Some n) r w HT) as A.
    destruct (await_input maxc (io_fuel w 0) (Some n) r w) as [[[[c b]|k] r1] w1|o w1]; cbn [tpost] in A;
      [apply IH; exact A|split; [exact A|exact I]|exact I].
Qed.

(* Request::close, when it completed: everything it appended after the base log is typed records followed by the epilogue *)
Lemma do_close_typed r d c w x w' : TI r w -> do_close maxc r d c w = Ok x w' -> (x = inr EK_Reset \/ exists rp, x = inl rp) ->
  exists X app ps, typed id X /\ exit_to_end d c = Some (app, ps) /\
    wlog w' = L0 ++ X ++
      (if (match do_writeable maxc r w with Ok (_, r2) _ => rwriteable r2 | Halt _ _ => false end)
       then hdr_encode RT_Stdout id 0 0 ++ hdr_encode RT_Stderr id 0 0 else []) ++ end_record app ps id.
Proof.
  intros HT E Hx. destruct (do_close_cases maxc r d c w x w' E) as (e & r1 & w1 & EW & [[He ECT]|(k & He & Hk & Hxk & Hw)]).
  - pose proof (do_writeable_TI r w HT) as DW. rewrite EW in DW |- *. cbn [tpost] in DW.
    destruct (close_tail_log_shape maxc r1 d c w1 x w' ECT Hx) as (p2 & r3 & w2 & ast & ps & S1 & S2 & S3 & S4 & S5).
    cbv zeta in S5.
    pose proof (J_set r1 w1 None p2 (proj1 (proj1 DW)) (TI_J r1 w1 DW) S1) as J2.
    pose proof (record_boundary_J _ w1 J2) as RB. rewrite S2 in RB. cbn [jpost] in RB.
    destruct RB as (_ & _ & _ & _ & Hid3 & D3 & E3 & T3 & _).
    exists (D3 ++ output_buffer (rsp r3)), ast, ps. split; [exact T3|]. split; [exact S4|].
    rewrite S5, E3, Hid3. destruct (rwriteable r1); rewrite <- !app_assoc; reflexivity.
  - exfalso. pose proof (do_writeable_k maxc r w) as DW. rewrite EW in DW. destruct DW as [_ Nk].
    destruct Hx as [Hx|[rp Hx]]; [|congruence]. apply Nk. congruence.
Qed.

End TConn.

(* ------------------------------------------------------------------------------------------ *)
(* Part E: Token::run with the ghost log; the theorem                                            *)
(* ------------------------------------------------------------------------------------------ *)
Definition Good (s : served) : Prop :=
  match sv_closed s with Some L2 => answered_once s L2 | None => True end.

Lemma tscript_of role : forall cur s, script_ok false role cur s -> writes_std s -> no_abandoned_read s -> tscript s.
Proof.
  induction 1 as [cur|cur n rest H IH|cur rest H IH|cur k rest H IH|cur s rest Hacc H IH|cur rest H IH
                  |cur s n rest H IH|cur s rest H IH|cur d c rest Hd|cur k rest|cur n rest H IH|cur n rest H IH];
    intros Hw Hna.
  - constructor.
  - constructor. apply IH; [inversion Hw; assumption|inversion Hna; assumption].
  - constructor. apply IH; [inversion Hw; assumption|inversion Hna; assumption].
  - constructor. apply IH; [inversion Hw; assumption|inversion Hna; assumption].
  - constructor. apply IH; [inversion Hw; assumption|inversion Hna; assumption].
  - constructor. apply IH; [inversion Hw; assumption|inversion Hna; assumption].
  - constructor; [inversion Hw; assumption|]. apply IH; [inversion Hw; assumption|inversion Hna; assumption].
  - constructor. apply IH; [inversion Hw; assumption|inversion Hna; assumption].
  - constructor. exact Hd.
  - constructor.
  - constructor. apply IH; [inversion Hw; assumption|inversion Hna; assumption].
  - inversion Hna.
Qed.

Lemma tscripts_of scripts : scripts_ok false scripts -> Forall writes_std scripts -> Forall no_abandoned_read scripts ->
  Forall tscript scripts.
Proof.
  intros Hs Hw Hna. unfold scripts_ok in Hs. rewrite Forall_forall in Hs, Hw, Hna. apply Forall_forall. intros s Hin.
  apply (tscript_of 0 _ s (Hs s Hin 0) (Hw s Hin) (Hna s Hin)).
Qed.

Lemma run_loop_log_ep norm maxc scripts : Forall tscript scripts ->
  forall fuel p n w acc, parser_ok p -> sid (st p) -> world_ok w -> WI true w -> recs (wlog w) -> Forall Good acc ->
  let '(o, w', l) := run_loop_log norm maxc fuel p scripts n w acc in Forall Good l.
Proof.
  intros Hscripts. induction fuel as [|f IH]; intros p n w acc Hp Hsid Wok W R HA; [exact HA|].
  cbn [run_loop_log]. destruct (stopped w); [exact HA|].
  pose proof (parse_request_ok norm maxc (io_fuel w 0) p [] w Hp Wok ltac:(apply Forall_nil) ltac:(rewrite len_nil; lia)
                ltac:(rewrite io_fuel_eq; lia)) as PR.
  pose proof (parse_request_fr maxc norm true (io_fuel w 0) p [] w W R) as PF.
  pose proof (parse_request_sid norm maxc (io_fuel w 0) p [] w Hp Hsid Wok ltac:(apply Forall_nil) ltac:(rewrite len_nil; lia)) as PS.
  unfold preq_post in PR.
  destruct (parse_request norm maxc (io_fuel w 0) p [] w) as [[s0|k] w1|o w1]; [|exact HA|exact HA].
  destruct PR as (G0 & S1 & _ & St0 & _). destruct PF as (W1 & R1 & Eo & Es).
  cbv zeta.
  set (rq := sreq s0) in *.
  set (r0 := mkR s0 (len (role_input_streams (r_role rq)) <=? 1) false false).
  match goal with |- context [run_handler maxc ?fu ?sc r0 ?ww] => set (w2 := ww); set (script := sc) end.
  assert (GR0 : rgood r0).
  { split; [exact G0|]. unfold wr_inv. subst r0. cbn [rsp rwriteable]. fold rq. rewrite St0. apply wr_inv_init. }
  assert (Eob : output_buffer s0 = []).
  { unfold output_buffer. rewrite Eo. apply drop_nil. }
  assert (H0 : HI true r0 w1).
  { split; [exact GR0|]. split; [exact (ws_ok _ _ S1 Wok)|]. split; [exact W1|]. split; [|intros _; reflexivity].
    unfold FI, oinv. subst r0. cbn [rsp rlock]. rewrite Eob, Eo, Es. change (len (@nil N)) with 0.
    split; [lia|]. split; [|intros _; exact R1]. rewrite app_nil_r. exact R1. }
  assert (H2 : HI true r0 w2) by (subst w2; apply fold_ev_HI; exact H0).
  assert (E2 : wlog w2 = wlog w1) by (subst w2; rewrite wlog_fold_ev; reflexivity).
  assert (R2 : recs (wlog w2)) by (rewrite E2; exact R1).
  assert (Hscript : tscript script).
  { subst script. apply Forall_nth_default; [exact Hscripts|]. apply Forall_last; [exact Hscripts|constructor]. }
  assert (T0 : TI (r_id rq) (wlog w2) r0 w2).
  { split; [exact H2|]. split; [reflexivity|]. exists []. split; [symmetry; apply app_nil_r|].
    subst r0. cbn [rsp rlock app]. rewrite Eob. split; [apply typed_nil|intros _; apply typed_nil]. }
  pose proof (run_handler_TI maxc norm (r_id rq) (wlog w2) script Hscript (length script + 2) r0 w2 T0) as RH.
  destruct (run_handler maxc (length script + 2) script r0 w2) as [[st r1] w3|o w3]; [|exact HA].
  destruct RH as [T3 Hst].
  pose proof T3 as (H3 & Hid3 & H & EH & TH1 & TH2).
  pose proof H3 as (G3 & Wok3 & W3 & F3 & LK3).
  pose proof (TH2 (LK3 eq_refl)) as THd.
  assert (R3 : recs (wlog w3)) by (rewrite EH; apply recs_app; [exact R2|apply THd]).
  assert (T3' : TI (r_id rq) (wlog w3) r1 w3).
  { split; [exact H3|]. split; [exact Hid3|]. exists []. split; [symmetry; apply app_nil_r|].
    cbn [app]. split; [|intros _; apply typed_nil]. apply (typed_cancel _ H _ (typed_recs _ _ THd) TH1). }
  assert (CLOSE : forall d c, In d EXITSTATUS_VALUES ->
            (forall app ps, exit_to_end d c = Some (app, ps) -> answered_with (mkServed rq st false [] [] None) app ps) ->
    let '(o, w', l) :=
      match do_close maxc r1 d c w3 with
      | Halt o w4 => (o, w4, acc ++ [mkServed rq st (match do_writeable maxc r1 w3 with Ok (_, r2) _ => rwriteable r2 | Halt _ _ => false end)
                                       (wlog w2) (wlog w3) None])
      | Ok (inl rp) w4 => run_loop_log norm maxc f rp scripts (S n) w4
                            (acc ++ [mkServed rq st (match do_writeable maxc r1 w3 with Ok (_, r2) _ => rwriteable r2 | Halt _ _ => false end)
                                       (wlog w2) (wlog w3) (Some (wlog w4))])
      | Ok (inr k) w4 => (ORet, w4, acc ++ [mkServed rq st (match do_writeable maxc r1 w3 with Ok (_, r2) _ => rwriteable r2 | Halt _ _ => false end)
                                       (wlog w2) (wlog w3) (if k =? EK_Reset then Some (wlog w4) else None)])
      end in
    Forall Good l).
  { intros d c Hd Hans.
    set (gate := match do_writeable maxc r1 w3 with Ok (_, r2) _ => rwriteable r2 | Halt _ _ => false end).
    assert (DONE : forall x w4, do_close maxc r1 d c w3 = Ok x w4 -> (x = inr EK_Reset \/ exists rp, x = inl rp) ->
              Good (mkServed rq st gate (wlog w2) (wlog w3) (Some (wlog w4)))).
    { intros x w4 E Hx.
      destruct (do_close_typed maxc norm (r_id rq) (wlog w3) r1 d c w3 x w4 T3' E Hx) as (X & app & ps & TX & Ex & EL).
      fold gate in EL.
      unfold Good. cbn [sv_closed]. unfold answered_once. cbn [sv_req sv_start sv_ret sv_gate].
      exists H, (X ++ (if gate then hdr_encode RT_Stdout (r_id rq) 0 0 ++ hdr_encode RT_Stderr (r_id rq) 0 0 else []) ++
                 end_record app ps (r_id rq)), app, ps.
      split; [exact EH|]. split; [exact EL|].
      split; [apply whole_recs; exact R2|]. split; [apply whole_recs; apply THd|].
      split; [apply whole_recs; apply recs_app; [apply TX|apply epilogue_part_recs]|].
      split; [exact (proj2 THd)|]. split; [exact (Hans app ps Ex)|].
      exists (decode X). split; [exact (proj2 TX)|].
      rewrite (decode_app X _ (proj1 TX)), (decode_epilogue gate app ps (r_id rq) PS). reflexivity. }
    pose proof (do_close_HI maxc norm true r1 d c w3 H3 Hd) as DC.
    pose proof (do_close_ok norm maxc r1 d c w3 G3 Wok3 Hd) as DO. unfold close_post in DO.
    destruct (do_close maxc r1 d c w3) as [[rp|k] w4|o w4] eqn:EC.
    - destruct DC as (C1 & C2 & C3 & C4). destruct DO as (_ & Hst0 & _).
      apply IH; [exact C1|rewrite Hst0; exact I|exact C2|exact C3|exact C4|].
      apply Forall_snoc; [exact HA|]. apply (DONE _ _ eq_refl). right. exists rp. reflexivity.
    - apply Forall_snoc; [exact HA|]. destruct (N.eqb_spec k EK_Reset) as [Hk|Hk]; [|exact I].
      subst k. apply (DONE _ _ eq_refl). left. reflexivity.
    - apply Forall_snoc; [exact HA|exact I]. }
  destruct st as [[d c]|k].
  - apply CLOSE; [exact Hst|]. intros app ps Hx. exact Hx.
  - destruct ((k =? EK_Aborted) && raborted r1).
    + apply CLOSE; [apply exit_complete_in|]. intros app ps Hx. cbn [answered_with sv_result]. apply abort_status_map. exact Hx.
    + apply Forall_snoc; [exact HA|exact I].
Qed.

Theorem epilogue_records : epilogue_records_stmt.
Proof.
  intros norm maxc fuel B scripts w0 HB Wok Hlog Hnf S1 S2 Hs Hwk Hna.
  assert (R0 : recs (wlog w0)) by (rewrite Hlog; apply recs_nil).
  assert (W0 : WI true w0) by (split; [exact Hnf|intros _; split; assumption]).
  exact (run_loop_log_ep norm maxc scripts (tscripts_of scripts Hs Hwk Hna) fuel (new_parser B) 0%nat w0 []
           (new_parser_ok B HB) I Wok W0 R0 (Forall_nil _)).
Qed.
Print Assumptions epilogue_records.

(* ------------------------------------------------------------------------------------------ *)
(* Part F: the statement is about non-trivial runs: the client and handler of PeerProofs2.ex2 (one Responder request,
   id 1, no KeepConn, with a GetValues query in front of the end of its Stdin; the handler reads Stdin to the end and
   writes "hi" to Stdout).  Every hypothesis of the theorem holds ... *)
(* ------------------------------------------------------------------------------------------ *)
Example epr_hyps :
  64 < SIZE_LIMIT - 8 /\ world_ok (ex2_w 1) /\ wlog (ex2_w 1) = [] /\ no_fault (wscript (ex2_w 1)) /\
  stop_at (ex2_w 1) = 0 /\ stopped (ex2_w 1) = false /\
  scripts_ok false ex2_scripts /\ Forall writes_std ex2_scripts /\ Forall no_abandoned_read ex2_scripts.
Proof.
  destruct exf_hyps as (H1 & H2 & H3 & H4 & H5 & _ & H7 & H8 & H9).
  split; [exact H1|]. split; [exact H2|]. split; [exact H3|]. split; [exact H4|]. split; [exact H7|]. split; [exact H8|].
  split; [exact H5|]. split; [|exact H9].
  constructor; [|constructor]. apply WS_all. apply (WS_write 6 2 [104; 105]); [left; reflexivity|apply WS_nil].
Qed.

(* ... the ghost log has ONE entry, closed; while the handler ran the log grew by the GetValuesResult reply (a management record,
   id 0) and the handler's Stdout record; close appended the empty Stdout and Stderr records and the one EndRequest of id 1 *)
Example epilogue_records_ex :
  let '(o, w', l) := exl_run in
  o = ORet /\
  match l with
  | [s] =>
    let H := exl_reply ++ stream_records RT_Stdout 1 [104; 105] in
    let C := hdr_encode RT_Stdout 1 0 0 ++ hdr_encode RT_Stderr 1 0 0 ++ end_record EXIT_SUCCESS_CODE PS_RequestComplete 1 in
    r_id (sv_req s) = 1 /\ sv_start s = [] /\ sv_ret s = sv_start s ++ H /\ sv_closed s = Some (sv_ret s ++ C) /\ sv_gate s = true /\
    decode H = [(RT_GetValuesResult, 0, take 18 (drop 8 exl_reply)); (RT_Stdout, 1, [104; 105])] /\
    decode C = [(RT_Stdout, 1, []); (RT_Stderr, 1, []); (RT_EndRequest, 1, end_encode EXIT_SUCCESS_CODE PS_RequestComplete)]
  | _ => False
  end.
Proof. vm_compute. repeat split. Qed.

(* the theorem applied to this client and handler, for every normalisation function, max_conns and fuel *)
Example epilogue_records_ex_any norm maxc fuel :
  let '(o, w', l) := run_loop_log norm maxc fuel (new_parser 64) ex2_scripts 0 (ex2_w 1) [] in
  Forall (fun s => match sv_closed s with Some L2 => answered_once s L2 | None => True end) l.
Proof.
  destruct epr_hyps as (H1 & H2 & H3 & H4 & H5 & H6 & H7 & H8 & H9).
  exact (epilogue_records norm maxc fuel 64 ex2_scripts (ex2_w 1) H1 H2 H3 H4 H5 H6 H7 H8 H9).
Qed.

(* ... in particular to the run above (exl_run, spelled out): its one invocation is closed and answered exactly once *)
Example epilogue_records_ex_thm :
  let l := snd (run_loop_log (fun b => b) 10 (nb (ex2_w 1) + 4) (new_parser 64) ex2_scripts 0 (ex2_w 1) []) in
  length l = 1%nat /\ Forall (fun s => exists L2, sv_closed s = Some L2 /\ answered_once s L2) l.
Proof.
  cbv zeta. split; [vm_compute; reflexivity|].
  assert (Hc : forallb (fun s => match sv_closed s with Some _ => true | None => false end)
                 (snd (run_loop_log (fun b => b) 10 (nb (ex2_w 1) + 4) (new_parser 64) ex2_scripts 0 (ex2_w 1) [])) = true)
    by (vm_compute; reflexivity).
  pose proof (epilogue_records_ex_any (fun b => b) 10 (nb (ex2_w 1) + 4)%nat) as T.
  destruct (run_loop_log (fun b => b) 10 (nb (ex2_w 1) + 4) (new_parser 64) ex2_scripts 0 (ex2_w 1) []) as [[o w'] l].
  cbn [snd] in *.
  rewrite forallb_forall in Hc. rewrite Forall_forall in T. apply Forall_forall. intros s Hin.
  specialize (Hc s Hin). specialize (T s Hin). destruct (sv_closed s) as [L2|]; [|discriminate Hc].
  exists L2. split; [reflexivity|exact T].
Qed.

Print Assumptions epilogue_records.
Print Assumptions epilogue_records_ex.
Print Assumptions epilogue_records_ex_thm.
