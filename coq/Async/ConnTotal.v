(* Async/ConnTotal.v — totality of the connection task model (Async/Conn.v):
   (i)   for every read script, write script (faults included), segment table and gating, and every
         well-formed handler script, [run_loop] returns [ORet] or [ODeadlock]: no Rust panic site is reached
         and no loop bound of the model is exhausted (C12; no-panic backbone of C07/C09/C11);
   (ii)  [ODeadlock] means that the task waits for a GATED client (so: if the client is not gated — every gate is
         (0,0) — the outcome is [ORet]) when the handlers cannot reach a StreamWriter op with Request.lock held:
         (a) no write fault on the transport and handlers that await their reads, or (b) handlers that propagate
         I/O errors (any transport);
   (iii) without such a condition that is false: run_loop_terminates_unrestricted_refuted (known findings F5/F6). *)
From Coq Require Import ZArith.
From FV Require Import Base.Bytes Base.BytesLemmas Gen.Generated Codec.Varint Codec.NV Codec.Header Codec.Bodies
  Codec.Vars Codec.ProtoProofs
  Parser.ReqModel Parser.ReqParamsSpec Parser.ReqWire Parser.ReqTargets Parser.ReqParams Parser.ReqDrive
  Parser.ReqRecords Parser.ReqFinal
  Parser.StreamModel Parser.AbsStream Parser.StreamRefine Parser.StreamSeqProofs Parser.EnvCanon Async.Conn Async.ConnWrites.
From Coq Require Import ZifyBool ZifyNat ZifyN.
Ltac Zify.zify_post_hook ::= Z.div_mod_to_equations.

(* ------------------------------------------------------------------------------------------ *)
(* Part A: further facts about stream::Parser::parse, proved on the abstract machine            *)
(* ------------------------------------------------------------------------------------------ *)

Lemma len_length {A} (l : list A) : len l = N.of_nat (length l).
Proof. reflexivity. Qed.

Definition is_some {A} (o : option A) : bool := match o with Some _ => true | None => false end.

(* bytes handed to the caller's buffer so far (only when a destination buffer is in use) *)
Definition dcount (cap : option N) (s : status) : N := match cap with Some _ => s_stream s | None => 0 end.

Section AbsFacts.
Variable maxc : N.
Variable B0 : N.
Variable q0 : req.
Variable s0 : option N.
Variable P0 : bytes.
Variable K : N.
Variable some : bool.

(* loop invariant of Parser::parse: buffer size / request / stream untouched, the unparsed bytes stay
   bytes, nothing is created (stream buffer + unparsed + delivered never grows), and with a
   destination buffer the internal stream buffer is not touched; without one, Status.stream counts exactly the bytes
   appended to the internal stream buffer *)
Definition linv (l : alstate) : Prop :=
  a_B (al l) = B0 /\ a_req (al l) = q0 /\ a_stream (al l) = s0 /\ bytes_ok (a_raw (al l)) /\
  is_some (acap l) = some /\ (some = true -> a_parsed (al l) = P0) /\
  len (a_parsed (al l)) + len (a_raw (al l)) + dcount (acap l) (ares l) <= K /\
  (some = false -> len (a_parsed (al l)) = len P0 + s_stream (ares l)).

Definition fpost (f : aflow) : Prop :=
  match f with
  | AContinue l | ABreak l | AErr l _ => linv l
  | APanic _ => True
  end.

Lemma apfin_inv a a' res cap' consumed :
  a_B a' = B0 -> a_req a' = q0 -> a_stream a' = s0 -> bytes_ok (a_raw a) -> is_some cap' = some ->
  (some = true -> a_parsed a' = P0) ->
  (consumed <= len (a_raw a) -> len (a_parsed a') + (len (a_raw a) - consumed) + dcount cap' res <= K) ->
  (some = false -> len (a_parsed a') = len P0 + s_stream res) ->
  fpost (apfin a a' res cap' consumed).
Proof.
  intros HB Hq Hs Hok Hc HP HK HN. unfold apfin.
  destruct (N.ltb_spec (N.min (a_prem a) (len (a_raw a))) consumed) as [Hlt|Hge]; [exact I|].
  assert (L : linv (mkAL (a_set a' (a_parsed a') (drop consumed (a_raw a)) (a_out a') (a_prem a - consumed) (a_pad a') (a_st a'))
                         res cap')).
  { unfold linv, a_set. cbn [al ares acap a_B a_req a_stream a_raw a_parsed].
    repeat split; try assumption.
    - apply bytes_ok_drop. exact Hok.
    - rewrite len_drop. apply HK. lia. }
  destruct ((a_prem (a_set a' (a_parsed a') (drop consumed (a_raw a)) (a_out a') (a_prem a - consumed) (a_pad a') (a_st a')) =? 0)
            && (consumed <? len (a_raw a))); exact L.
Qed.

Lemma aparse_payload_inv l : linv l -> fpost (aparse_payload maxc l).
Proof.
  intros (HB & Hq & Hs & Hok & Hc & HP & HK & HN). rewrite aparse_payload_unfold. cbn zeta.
  set (a := al l) in *.
  set (pl := N.min (a_prem a) (len (a_raw a))).
  assert (Hpl : pl <= len (a_raw a)) by (subst pl; lia).
  destruct (a_st a) eqn:Est.
  - destruct (acap l) as [c|] eqn:Ec.
    + apply apfin_inv; try assumption.
      * intros _. unfold add_stream, dcount in *. cbn [s_stream]. lia.
      * intros E. rewrite <- Hc in E. discriminate.
    + apply apfin_inv; unfold a_set; cbn [a_B a_req a_stream a_parsed]; try assumption.
      * intros E. rewrite <- Hc in E. discriminate.
      * intros _. unfold dcount in *. rewrite len_app, len_take. lia.
      * intros E. unfold add_stream. cbn [s_stream]. rewrite len_app, len_take, (HN E). lia.
  - apply apfin_inv; try assumption. intros _. lia.
  - destruct (nv_run (take pl (a_raw a))) as [ps rest].
    destruct (len (a_raw a) <? a_prem a).
    + apply apfin_inv; unfold a_set; cbn [a_B a_req a_stream a_parsed]; try assumption. intros _. lia.
    + apply apfin_inv; unfold a_set; cbn [a_B a_req a_stream a_parsed]; try assumption.
      intros _. unfold add_output, dcount in *. destruct (acap l); cbn [s_stream]; lia.
Qed.

Lemma ahgo_inv l st cl pl out added : linv l -> HEADER_LEN <= len (a_raw (al l)) -> fpost (ahgo l st cl pl out added).
Proof.
  intros (HB & Hq & Hs & Hok & Hc & HP & HK & HN) Hl. unfold ahgo, fpost, linv, a_set, add_output, dcount in *.
  cbn [al ares acap a_B a_req a_stream a_raw a_parsed s_stream].
  repeat split; try assumption.
  - apply bytes_ok_drop. exact Hok.
  - rewrite len_drop. destruct (acap l); lia.
Qed.

Lemma aparse_head_inv l : linv l -> fpost (aparse_head l).
Proof.
  intros L. rewrite aparse_head_unfold. cbn zeta.
  destruct (a_boundary (al l)); cbn [negb]; [|exact I].
  destruct (N.ltb_spec (len (a_raw (al l))) HEADER_LEN) as [Hs|Hs]; [exact L|].
  assert (SE : linv (mkAL (al l) (set_end (ares l)) (acap l))).
  { destruct L as (HB & Hq & Hst & Hok & Hc & HP & HK & HN). unfold linv, set_end, dcount in *.
    cbn [al ares acap s_stream]. repeat split; assumption. }
  destruct (hdr_decode (take HEADER_LEN (a_raw (al l)))) as [t id cl pl|v|t].
  - destruct (is_input_stream t && (id =? r_id (a_req (al l)))).
    + destruct (cmp_input_streams (r_role (a_req (al l))) t (a_stream (al l))) as [[| |]|].
      * apply ahgo_inv; assumption.
      * destruct (negb (cl =? 0)); [apply ahgo_inv; assumption|exact SE].
      * exact SE.
      * exact I.
    + destruct ((t =? RT_AbortRequest) && (id =? r_id (a_req (al l)))); [exact L|].
      destruct ((t =? RT_BeginRequest) && negb (id =? r_id (a_req (al l)))); [apply ahgo_inv; assumption|].
      destruct ((t =? RT_GetValues) && hdr_is_management t id); apply ahgo_inv; assumption.
  - exact L.
  - apply ahgo_inv; assumption.
Qed.

Lemma aafter_pl_inv l : linv l -> fpost (aafter_pl l).
Proof.
  intros L. unfold aafter_pl. cbn zeta.
  destruct (0 <? a_pad (al l)); [|apply aparse_head_inv; exact L].
  destruct (negb (a_prem (al l) =? 0)); [exact I|].
  destruct L as (HB & Hq & Hst & Hok & Hc & HP & HK & HN).
  destruct (len (a_raw (al l)) <=? a_pad (al l)).
  - unfold fpost, linv, a_set. cbn [al ares acap a_B a_req a_stream a_raw a_parsed].
    repeat split; try assumption; [constructor|]. rewrite len_nil. lia.
  - apply aparse_head_inv. unfold linv, a_set. cbn [al ares acap a_B a_req a_stream a_raw a_parsed].
    repeat split; try assumption; [apply bytes_ok_drop; exact Hok|]. rewrite len_drop. lia.
Qed.

Lemma aparse_iter_inv l : linv l -> fpost (aparse_iter maxc l).
Proof.
  intros L. rewrite aparse_iter_unfold.
  destruct (0 <? a_prem (al l)); [|apply aafter_pl_inv; exact L].
  pose proof (aparse_payload_inv l L) as P.
  destruct (aparse_payload maxc l) as [l'|l'|l' e|n]; cbn [fpost] in P; try exact P.
  apply aafter_pl_inv. exact P.
Qed.

Lemma aparse_loop_inv fuel : forall l, linv l -> fpost (aparse_loop maxc fuel l).
Proof.
  induction fuel as [|f IH]; intros l L; [exact I|]. cbn [aparse_loop].
  destruct (a_raw (al l)) as [|x tl] eqn:Er; [exact L|].
  pose proof (aparse_iter_inv l L) as P.
  destruct (aparse_iter maxc l) as [l'|l'|l' e|n]; cbn [fpost] in P; try exact P.
  apply IH. exact P.
Qed.
End AbsFacts.

(* what a parse that returns (Ok or Err) guarantees about the abstract state *)
Definition aparse_keeps (a : ast) (new : bytes) (dest : option N) (a' : ast) (s : status) : Prop :=
  a_B a' = a_B a /\ a_req a' = a_req a /\ a_stream a' = a_stream a /\ bytes_ok (a_raw a') /\
  (dest <> None -> a_parsed a' = a_parsed a) /\
  len (a_parsed a') + len (a_raw a') + dcount dest s <= len (a_parsed a) + len (a_raw a) + len new /\
  (dest = None -> len (a_parsed a') = len (a_parsed a) + s_stream s).

Lemma dcount_some {A} (c c' : option A) s : is_some c = is_some c' ->
  match c with Some _ => s_stream s | None => 0 end = match c' with Some _ => s_stream s | None => 0 end.
Proof. destruct c, c'; cbn [is_some]; intros E; try discriminate; reflexivity. Qed.

Lemma aparse_facts maxc a new dest : bytes_ok (a_raw a) -> bytes_ok new ->
  match aparse maxc a new dest with
  | AOk a' s | AFail a' _ s => aparse_keeps a new dest a' s
  | APanicked _ => True
  end.
Proof.
  intros Hr Hn. unfold aparse.
  destruct (match dest with Some _ => negb (len (a_parsed a) =? 0) | None => false end); [exact I|].
  destruct (a_space a <? len new); [exact I|].
  set (a1 := mkA (a_B a) (a_space a - len new) (a_parsed a) (a_raw a ++ new) (a_out a) (a_req a) (a_stream a)
                 (a_prem a) (a_pad a) (a_st a)).
  set (res0 := mkStatus 0 (match a_stream a with None => true | Some _ => false end) 0 []).
  assert (L0 : linv (a_B a) (a_req a) (a_stream a) (a_parsed a) (len (a_parsed a) + len (a_raw a) + len new)
                    (is_some dest) (mkAL a1 res0 dest)).
  { unfold linv. subst a1 res0. cbn [al ares acap a_B a_req a_stream a_raw a_parsed s_stream].
    repeat split; try reflexivity.
    - apply bytes_ok_app. split; assumption.
    - rewrite len_app. unfold dcount. destruct dest; cbn [s_stream]; lia.
    - lia. }
  pose proof (aparse_loop_inv maxc _ _ _ _ _ _ (2 * N.to_nat (a_B a) + 8) _ L0) as P.
  assert (G : forall l, linv (a_B a) (a_req a) (a_stream a) (a_parsed a) (len (a_parsed a) + len (a_raw a) + len new)
                             (is_some dest) l -> aparse_keeps a new dest (al l) (ares l)).
  { intros l (HB & Hq & Hs & Hok & Hc & HP & HK & HN). unfold aparse_keeps.
    repeat split; try assumption.
    - intros Hd. apply HP. destruct dest; [reflexivity|contradiction].
    - unfold dcount in *. rewrite (dcount_some dest (acap l)) by (symmetry; exact Hc). exact HK.
    - intros Hd. apply HN. rewrite Hd. reflexivity. }
  destruct (aparse_loop maxc (2 * N.to_nat (a_B a) + 8) (mkAL a1 res0 dest)) as [l|l|l e|n]; cbn [fpost] in P;
    try (apply G; exact P). exact I.
Qed.

(* the same, for the index-level model: a legal call never panics and keeps everything the
   connection model relies on *)
Definition sparse_keeps (p : sp) (new : bytes) (dest : option N) (p' : sp) (s : status) : Prop :=
  RI p' /\ stream p' = stream p /\ sreq p' = sreq p /\ len (buffer p') = len (buffer p) /\
  bytes_ok (raw_bytes p') /\ (dest <> None -> stream_buffer p' = []) /\
  len (stream_buffer p') + len (raw_bytes p') + dcount dest s <= len (stream_buffer p) + len (raw_bytes p) + len new /\
  (dest = None -> len (stream_buffer p') = len (stream_buffer p) + s_stream s).

Lemma sparse_facts maxc p new dest : RI p -> stream_ok p -> bytes_ok (raw_bytes p) -> bytes_ok new ->
  len new <= sinput_space p -> (dest <> None -> stream_buffer p = []) ->
  match sparse maxc p new dest with
  | StOk p' s | StErr p' _ s => sparse_keeps p new dest p' s
  | StPanic _ => False
  end.
Proof.
  intros HRI Hok Hraw Hnew Hfit Hd.
  pose proof (sparse_no_panic maxc p new dest HRI Hok Hfit Hd) as NP.
  destruct (sparse_refines maxc p new dest HRI) as [Ga Gb].
  pose proof (aparse_facts maxc (abs p) new dest Hraw Hnew) as F. rewrite Ga in F.
  destruct (sparse maxc p new dest) as [p' s|p' e s|n]; cbn [absres sparse_post] in *;
    [| |exact (NP n eq_refl)];
    destruct Gb as [R' S']; destruct F as (F1 & F2 & F3 & F4 & F5 & F6 & F7);
    cbn [abs a_B a_req a_stream a_raw a_parsed] in *;
    (split; [exact R'|]; split; [exact S'|]; split; [exact F2|]; split; [exact F1|]; split; [exact F4|];
     split; [intros Hx; rewrite (F5 Hx); apply Hd; exact Hx|split; [exact F6|exact F7]]).
Qed.

(* ------------------------------------------------------------------------------------------ *)
(* Part B: finite facts about roles and the order of input streams                              *)
(* ------------------------------------------------------------------------------------------ *)

(* Role::input_streams().last() *)
Definition last_opt (role : N) : option N :=
  match rev (role_input_streams role) with x :: _ => Some x | [] => None end.

Lemma role_cases role :
  role = 1 \/ role = 2 \/ role = 3 \/ (role_input_streams role = [] /\ forall c, next_input_stream role c = None).
Proof.
  destruct (N.eqb_spec role 1) as [|H1]; [auto|].
  destruct (N.eqb_spec role 2) as [|H2]; [auto|].
  destruct (N.eqb_spec role 3) as [|H3]; [auto|].
  right; right; right. split.
  - unfold role_input_streams, ROLE_INPUT_STREAMS. cbn [find fst snd].
    destruct (N.eqb_spec 1 role); [congruence|]. destruct (N.eqb_spec 2 role); [congruence|].
    destruct (N.eqb_spec 3 role); [congruence|]. reflexivity.
  - intros c. unfold next_input_stream, NEXT_INPUT_STREAM, memN. cbn [find fst snd existsb].
    destruct (N.eqb_spec role 1); [congruence|]. destruct (N.eqb_spec role 3); [congruence|]. reflexivity.
Qed.

Lemma input_stream_cases x : is_input_stream x = true -> x = 5 \/ x = 8.
Proof. unfold is_input_stream, memN, IS_INPUT_STREAM. cbn [existsb]. lia. Qed.

Lemma next_is_input role c e : next_input_stream role c = Some e -> is_input_stream e = true.
Proof.
  unfold next_input_stream, NEXT_INPUT_STREAM. cbn [find fst snd].
  destruct (memN role [1; 3] && optN_eqb None c); [intros E; inversion E; reflexivity|].
  destruct (memN role [3] && optN_eqb (Some 5) c); [intros E; inversion E; reflexivity|discriminate].
Qed.

Lemma in_streams_cases role x : In x (role_input_streams role) ->
  (role = 1 /\ x = 5) \/ (role = 3 /\ x = 5) \/ (role = 3 /\ x = 8).
Proof.
  destruct (role_cases role) as [->|[->|[->|[E _]]]].
  - change (role_input_streams 1) with [5]. intros [<-|[]]. auto.
  - change (role_input_streams 2) with (@nil N). intros [].
  - change (role_input_streams 3) with [5; 8]. intros [<-|[<-|[]]]; auto.
  - rewrite E. intros [].
Qed.

(* the request starts on the first stream of its role; it is writeable at once iff that is the last one *)
Definition wr_inv_at (role : N) (wr : bool) (cur : option N) : Prop :=
  if wr then cur = last_opt role
  else exists x, cur = Some x /\ In x (role_input_streams role).

Lemma wr_inv_init role :
  wr_inv_at role (len (role_input_streams role) <=? 1) (next_input_stream role None).
Proof.
  destruct (role_cases role) as [->|[->|[->|[E Hn]]]]; unfold wr_inv_at.
  - reflexivity.
  - reflexivity.
  - exists 5. split; [reflexivity|]. left. reflexivity.
  - unfold last_opt. rewrite E, Hn. reflexivity.
Qed.

(* writeable(): selecting the role's last stream is accepted from every stream of the role *)
Lemma accepts_last role x : In x (role_input_streams role) -> accepts role (Some x) (last_opt role) = Some true.
Proof.
  intros H. destruct (in_streams_cases role x H) as [[-> ->]|[[-> ->]|[-> ->]]]; reflexivity.
Qed.

(* the final stream of a role is its last *)
Lemma final_is_last role x : In x (role_input_streams role) -> next_input_stream role (Some x) = None ->
  last_opt role = Some x.
Proof.
  intros H. destruct (in_streams_cases role x H) as [[-> ->]|[[-> ->]|[-> ->]]]; try reflexivity.
  vm_compute. discriminate.
Qed.

(* an accepted selection stays inside the role's streams, and cannot leave the last one *)
Lemma accepts_some_inv role cur s : accepts role cur (Some s) = Some true ->
  (cur = last_opt role -> Some s = last_opt role) /\
  (forall x, cur = Some x -> In x (role_input_streams role) -> In s (role_input_streams role)).
Proof.
  intros A. destruct cur as [e|]; [|discriminate A].
  assert (Hs : is_input_stream s = true /\ is_input_stream e = true).
  { unfold accepts, cmp_input_streams in A.
    destruct (is_input_stream s), (is_input_stream e); cbn [negb orb] in A; try discriminate A. split; reflexivity. }
  destruct Hs as [Hs He].
  assert (Hu : role_input_streams role = [] -> e = s).
  { intros E. unfold accepts, cmp_input_streams in A. rewrite Hs, He, E in A. cbn [negb orb] in A.
    revert A. destruct (N.eqb_spec s e) as [Heq|Hne]; intros A; [symmetry; exact Heq|].
    cbv beta iota fix in A. discriminate A. }
  apply input_stream_cases in Hs. apply input_stream_cases in He.
  destruct (role_cases role) as [->|[->|[->|[E Hn]]]].
  - destruct Hs as [->| ->], He as [->| ->]; vm_compute in A; try discriminate A;
      (split; [intros H; try discriminate H; reflexivity|intros x Hx; inversion Hx; subst x; vm_compute; tauto]).
  - destruct Hs as [->| ->], He as [->| ->]; vm_compute in A; try discriminate A;
      (split; [intros H; try discriminate H; reflexivity|intros x Hx; inversion Hx; subst x; vm_compute; tauto]).
  - destruct Hs as [->| ->], He as [->| ->]; vm_compute in A; try discriminate A;
      (split; [intros H; try discriminate H; reflexivity|intros x Hx; inversion Hx; subst x; vm_compute; tauto]).
  - rewrite (Hu E). split; [intros H; exact H|intros x Hx; inversion Hx; subst x; tauto].
Qed.

(* ExitStatus values *)
Lemma epilogue_some id disc code streams : In disc EXITSTATUS_VALUES -> epilogue id disc code streams <> None.
Proof.
  unfold EXITSTATUS_VALUES. cbn [In]. intros [<-|[<-|[<-|[]]]]; unfold epilogue, exit_to_end, EXIT_MAP;
    cbn [find fst snd]; discriminate.
Qed.

(* ------------------------------------------------------------------------------------------ *)
(* Part C: the scripted world                                                                   *)
(* ------------------------------------------------------------------------------------------ *)

(* client bytes not yet delivered *)
Definition nb (w : world) : nat := length (flat_map (fun s : N * N * bytes => snd s) (segs w)).
Definition world_ok (w : world) : Prop := Forall (fun s : N * N * bytes => bytes_ok (snd s)) (segs w).
(* no segment waits for replies: all bytes are available, then EOF *)
Definition ungated (w : world) : Prop := Forall (fun s : N * N * bytes => fst s = (0, 0)) (segs w).
Definition sm (w : world) : nat := if stopped w then 0%nat else 1%nat.

(* w' is a later state of the world w *)
Record wstep (w w' : world) : Prop := mkWstep {
  ws_r : (length (rscript w') <= length (rscript w))%nat;
  ws_w : (length (wscript w') <= length (wscript w))%nat;
  ws_b : (nb w' <= nb w)%nat;
  ws_stop : stopped w = true -> stopped w' = true;
  ws_ug : ungated w -> ungated w';
  ws_ok : world_ok w -> world_ok w';
  ws_nf : no_fault (wscript w) -> no_fault (wscript w') }.   (* a transport that has no write fault left keeps none *)

Lemma wstep_refl w : wstep w w.
Proof. constructor; auto. Qed.

Lemma wstep_trans a b c : wstep a b -> wstep b c -> wstep a c.
Proof. intros [A1 A2 A3 A4 A5 A6 A7] [B1 B2 B3 B4 B5 B6 B7]. constructor; auto; lia. Qed.

Lemma wstep_ev w e : wstep w (w_ev w e).
Proof. constructor; auto. Qed.

Lemma wstep_bump w : wstep w (w_bump w).
Proof.
  constructor; auto. unfold w_bump. cbn [stopped]. intros ->. reflexivity.
Qed.

Lemma wstep_stop w : wstep w (w_stop w).
Proof. constructor; auto. Qed.

Lemma wstep_set_w w ws lg : suffix ws (wscript w) -> wstep w (w_set_w w ws lg).
Proof.
  intros H. constructor; auto.
  - unfold w_set_w. cbn [wscript]. apply suffix_length. exact H.
  - unfold w_set_w. cbn [wscript]. apply no_fault_suffix. exact H.
Qed.

Lemma sm_step w w' : wstep w w' -> (sm w' <= sm w)%nat.
Proof.
  intros H. unfold sm. destruct (stopped w) eqn:E; [rewrite (ws_stop _ _ H E); lia|].
  destruct (stopped w'); lia.
Qed.

Lemma sm_stop w : sm (w_stop w) = 0%nat.
Proof. reflexivity. Qed.

Lemma io_fuel_eq w x :
  io_fuel w x = (length (rscript w) + length (wscript w) + nb w + N.to_nat x + 16)%nat.
Proof. reflexivity. Qed.

Definition okhalt (w : world) (o : outcome) : Prop := o = ORet \/ (o = ODeadlock /\ ~ ungated w).

Lemma okhalt_step w w' o : wstep w w' -> okhalt w' o -> okhalt w o.
Proof. intros H [A|[A B]]; [left; exact A|right; split; [exact A|]]. intros U. apply B. apply (ws_ug _ _ H U). Qed.

Lemma skip_flat s :
  flat_map (fun s : N * N * bytes => snd s) (skip_empty_segs s) = flat_map (fun s : N * N * bytes => snd s) s.
Proof.
  induction s as [|[[ge gm] b] t IH]; [reflexivity|]. destruct b as [|x b]; [|reflexivity].
  cbn [skip_empty_segs flat_map snd app]. exact IH.
Qed.

Lemma skip_Forall (P : N * N * bytes -> Prop) s : Forall P s -> Forall P (skip_empty_segs s).
Proof.
  induction s as [|[[ge gm] b] t IH]; intros H; [exact H|]. destruct b as [|x b]; [|exact H].
  cbn [skip_empty_segs]. apply IH. inversion H; assumption.
Qed.

Lemma seg_update w rs' ge gm b k rest c :
  skip_empty_segs (segs w) = (ge, gm, b) :: rest -> (length rs' <= length (rscript w))%nat ->
  wstep w (w_set_r w rs' ((ge, gm, drop k b) :: rest) c) /\
  (nb (w_set_r w rs' ((ge, gm, drop k b) :: rest) c) + length (take k b) = nb w)%nat.
Proof.
  intros Es Hr.
  assert (Enb : nb w = (length b + length (flat_map (fun s : N * N * bytes => snd s) rest))%nat).
  { unfold nb. rewrite <- skip_flat, Es. cbn [flat_map snd]. apply app_length. }
  assert (El : (length (take k b) + length (drop k b) = length b)%nat).
  { rewrite <- app_length, take_drop. reflexivity. }
  assert (Enb' : nb (w_set_r w rs' ((ge, gm, drop k b) :: rest) c) =
                 (length (drop k b) + length (flat_map (fun s : N * N * bytes => snd s) rest))%nat).
  { unfold nb, w_set_r. cbn [segs flat_map snd]. apply app_length. }
  split; [|lia].
  constructor; [exact Hr|unfold w_set_r; cbn [wscript]; lia|lia|auto| | |auto].
  - intros U. unfold ungated in *. cbn [segs]. pose proof (skip_Forall _ _ U) as U'. rewrite Es in U'.
    inversion U' as [|? ? U1 U2]; subst. constructor; [exact U1|exact U2].
  - intros U. unfold world_ok in *. cbn [segs]. pose proof (skip_Forall _ _ U) as U'. rewrite Es in U'.
    inversion U' as [|? ? U1 U2]; subst. constructor; [cbn [snd] in *; apply bytes_ok_drop; exact U1|exact U2].
Qed.

Lemma t_poll_read_spec L w :
  match t_poll_read L w with
  | (PReady (inl b), w') => wstep w w' /\ (world_ok w -> bytes_ok b) /\ len b <= L /\ (nb w' + length b <= nb w)%nat
  | (PReady (inr k), w') => wstep w w' /\ k = EK_Transport
  | (PWake, w') => wstep w w' /\ (length (rscript w') < length (rscript w))%nat
  | (PBlock, w') => w' = w /\ ~ ungated w
  end.
Proof.
  unfold t_poll_read. destruct (N.eqb_spec L 0) as [EL|EL].
  { split; [apply wstep_refl|]. split; [intros _; constructor|]. rewrite len_nil. split; [lia|]. cbn [length]. lia. }
  destruct (skip_empty_segs (segs w)) as [|[[ge gm] b] rest] eqn:Es.
  { split.
    - constructor; unfold w_set_r; cbn [rscript wscript stopped]; auto.
      + unfold nb. cbn [segs flat_map length]. lia.
      + intros _. constructor.
      + intros _. constructor.
    - split; [intros _; constructor|]. rewrite len_nil. split; [lia|]. unfold nb, w_set_r. cbn [segs flat_map length]. lia. }
  destruct (count_records (length (wlog w)) (wlog w) 0 0) as [e m].
  destruct ((e <? ge) || (m <? gm)) eqn:Eg.
  { split; [reflexivity|]. intros U. pose proof (skip_Forall _ _ U) as U'. rewrite Es in U'.
    inversion U' as [|? ? U1 U2]; subst. cbn [fst] in U1. inversion U1; subst. lia. }
  assert (READ : forall r rs', (length rs' <= length (rscript w))%nat -> r <> 0 ->
            let n := N.min r (N.min L (len b)) in
            let w' := w_set_r w rs' ((ge, gm, drop n b) :: rest) (consumed w + n) in
            wstep w w' /\ (world_ok w -> bytes_ok (take n b)) /\ len (take n b) <= L /\
            (nb w' + length (take n b) <= nb w)%nat).
  { intros r rs' Hrs Hr n w'. destruct (seg_update w rs' ge gm b n rest (consumed w + n) Es Hrs) as [S1 S2].
    split; [exact S1|]. split.
    - intros U. pose proof (skip_Forall _ _ U) as U'. rewrite Es in U'.
      inversion U' as [|? ? U1 U2]; subst. apply bytes_ok_take. exact U1.
    - split; [rewrite len_take; subst n; lia|]. subst w'. lia. }
  destruct (rscript w) as [|r t] eqn:Er; cbv beta iota zeta.
  - destruct (N.eqb_spec L 0) as [|_]; [contradiction|].
    destruct (N.eqb_spec L R_ERR) as [_|_].
    + destruct (seg_update w [] ge gm b 0 rest (consumed w) Es ltac:(rewrite Er; cbn [length]; lia)) as [S1 _].
      rewrite drop_0 in S1. split; [exact S1|reflexivity].
    + apply READ; [try rewrite Er; cbn [length]; lia|exact EL].
  - destruct (N.eqb_spec r 0) as [E0|E0].
    + destruct (seg_update w t ge gm b 0 rest (consumed w) Es ltac:(rewrite Er; cbn [length]; lia)) as [S1 _].
      rewrite drop_0 in S1. split; [exact S1|]. unfold w_set_r. cbn [rscript length]. lia.
    + destruct (N.eqb_spec r R_ERR) as [_|_].
      * destruct (seg_update w t ge gm b 0 rest (consumed w) Es ltac:(rewrite Er; cbn [length]; lia)) as [S1 _].
        rewrite drop_0 in S1. split; [exact S1|reflexivity].
      * apply READ; [try rewrite Er; cbn [length]; lia|exact E0].
Qed.

(* a non-empty read really removes bytes from the client *)
Lemma nonempty_length {A} (l : list A) : l <> [] -> (1 <= length l)%nat.
Proof. destruct l; [congruence|cbn [length]; lia]. Qed.

Lemma t_poll_write_spec offer w : offer <> [] ->
  match t_poll_write offer w with
  | (PReady (inl n), w') =>
    wstep w w' /\ n <= len offer /\
    ((wscript w = [] /\ wscript w' = [] /\ n = len offer) \/ (length (wscript w') < length (wscript w))%nat) /\
    (wscript w = [] -> n <> 0)
  | (PReady (inr k), w') => wstep w w' /\ (length (wscript w') < length (wscript w))%nat /\ (k = EK_Transport \/ k = EK_Aborted)
  | (PWake, w') => wstep w w' /\ (length (wscript w') < length (wscript w))%nat
  | (PBlock, _) => False
  end.
Proof.
  intros Hne. unfold t_poll_write.
  assert (Hl : 1 <= len offer) by (pose proof (nonempty_length offer Hne); unfold len; lia).
  destruct (wscript w) as [|k ws'] eqn:Ew.
  - split; [apply wstep_set_w; rewrite Ew; apply suffix_refl|]. split; [lia|].
    split; [left; repeat split|intros _; lia].
  - assert (Hs : forall lg, wstep w (w_set_w w ws' lg)) by (intros lg; apply wstep_set_w; rewrite Ew; exists [k]; reflexivity).
    destruct (k =? 0); [split; [apply Hs|unfold w_set_w; cbn [wscript length]; lia]|].
    destruct (k =? W_ZERO).
    { split; [apply Hs|]. split; [lia|]. split; [right; unfold w_set_w; cbn [wscript length]; lia|discriminate]. }
    destruct (k =? W_ERR).
    { split; [apply Hs|]. split; [unfold w_set_w; cbn [wscript length]; lia|left; reflexivity]. }
    destruct (k =? W_ERR_AB).
    { split; [apply Hs|]. split; [unfold w_set_w; cbn [wscript length]; lia|right; reflexivity]. }
    split; [apply Hs|]. split; [lia|]. split; [right; unfold w_set_w; cbn [wscript length]; lia|discriminate].
Qed.

(* ------------------------------------------------------------------------------------------ *)
(* Part D: awaits on the transport                                                              *)
(* ------------------------------------------------------------------------------------------ *)

Lemma await_read_ok : forall fuel sel L w,
  (length (rscript w) + sm w + 1 <= fuel)%nat ->
  match await_read fuel sel L w with
  | Ok (inl b) w' => wstep w w' /\ (world_ok w -> bytes_ok b) /\ len b <= L /\ (nb w' + length b <= nb w)%nat
  | Ok (inr k) w' => wstep w w' /\ k = EK_Transport
  | Halt o w' => wstep w w' /\ okhalt w o
  end.
Proof.
  induction fuel as [|f IH]; intros sel L w Hf; [lia|]. cbn [await_read].
  pose proof (t_poll_read_spec L w) as P.
  destruct (t_poll_read L w) as [[[b|k]| |] w1].
  - exact P.
  - exact P.
  - destruct P as [S1 Hr]. unfold on_wake.
    pose proof (wstep_bump w1) as S2. pose proof (wstep_trans _ _ _ S1 S2) as S3.
    destruct (sel && stopped (w_bump w1)).
    + split; [exact S3|left; reflexivity].
    + assert (Hf' : (length (rscript (w_bump w1)) + sm (w_bump w1) + 1 <= f)%nat).
      { pose proof (sm_step _ _ S3). change (rscript (w_bump w1)) with (rscript w1). lia. }
      specialize (IH sel L (w_bump w1) Hf').
      destruct (await_read f sel L (w_bump w1)) as [[b|k] w2|o w2].
      * destruct IH as (I1 & I2 & I3 & I4). split; [eapply wstep_trans; eassumption|].
        split; [intros U; apply I2; apply (ws_ok _ _ S3 U)|]. split; [exact I3|]. pose proof (ws_b _ _ S3). lia.
      * destruct IH as (I1 & I2). split; [eapply wstep_trans; eassumption|exact I2].
      * destruct IH as (I1 & I2). split; [eapply wstep_trans; eassumption|]. eapply okhalt_step; eassumption.
  - destruct P as [-> NU]. unfold on_block.
    destruct (negb (stop_at w =? 0) && negb (stopped w)) eqn:Ec.
    + pose proof (wstep_stop w) as S2. destruct sel.
      * split; [exact S2|left; reflexivity].
      * assert (Hs : sm w = 1%nat).
        { unfold sm. destruct (stopped w); [|reflexivity]. rewrite andb_false_r in Ec. discriminate. }
        assert (Hf' : (length (rscript (w_stop w)) + sm (w_stop w) + 1 <= f)%nat).
        { rewrite sm_stop. change (rscript (w_stop w)) with (rscript w). lia. }
        specialize (IH false L (w_stop w) Hf').
        destruct (await_read f false L (w_stop w)) as [[b|k] w2|o w2].
        -- destruct IH as (I1 & I2 & I3 & I4). split; [eapply wstep_trans; eassumption|].
           split; [intros U; apply I2; apply (ws_ok _ _ S2 U)|]. split; [exact I3|]. pose proof (ws_b _ _ S2). lia.
        -- destruct IH as (I1 & I2). split; [eapply wstep_trans; eassumption|exact I2].
        -- destruct IH as (I1 & I2). split; [eapply wstep_trans; eassumption|]. eapply okhalt_step; eassumption.
    + split; [apply wstep_refl|]. right. split; [reflexivity|exact NU].
Qed.

Lemma await_write_all_ok : forall fuel sel b w,
  (length (wscript w) + (match b with [] => 0 | _ => 1 end) + 1 <= fuel)%nat ->
  match await_write_all fuel sel b w with
  | Ok _ w' => wstep w w'
  | Halt o w' => wstep w w' /\ o = ORet
  end.
Proof.
  induction fuel as [|f IH]; intros sel b w Hf; [lia|]. cbn [await_write_all].
  destruct b as [|x b']; [apply wstep_refl|].
  pose proof (t_poll_write_spec (x :: b') w ltac:(discriminate)) as P.
  destruct (t_poll_write (x :: b') w) as [[[n|k]| |] w1].
  - destruct P as (S1 & Hn & Hw & Hz).
    destruct (N.eqb_spec n 0) as [E0|E0]; [exact S1|].
    assert (Hf' : (length (wscript w1) + (match drop n (x :: b') with [] => 0 | _ => 1 end) + 1 <= f)%nat).
    { destruct Hw as [(W1 & W2 & W3)|W].
      - rewrite W2, W3, drop_all by lia. rewrite W1 in Hf. cbn [length] in *. lia.
      - destruct (drop n (x :: b')); lia. }
    specialize (IH sel (drop n (x :: b')) w1 Hf').
    destruct (await_write_all f sel (drop n (x :: b')) w1) as [r w2|o w2].
    + eapply wstep_trans; eassumption.
    + destruct IH as [I1 I2]. split; [eapply wstep_trans; eassumption|exact I2].
  - apply P.
  - destruct P as [S1 Hw]. unfold on_wake.
    pose proof (wstep_bump w1) as S2. pose proof (wstep_trans _ _ _ S1 S2) as S3.
    destruct (sel && stopped (w_bump w1)); [split; [exact S3|reflexivity]|].
    assert (Hf' : (length (wscript (w_bump w1)) + 1 + 1 <= f)%nat) by (change (wscript (w_bump w1)) with (wscript w1); lia).
    specialize (IH sel (x :: b') (w_bump w1) Hf').
    destruct (await_write_all f sel (x :: b') (w_bump w1)) as [r w2|o w2].
    + eapply wstep_trans; eassumption.
    + destruct IH as [I1 I2]. split; [eapply wstep_trans; eassumption|exact I2].
  - contradiction.
Qed.

Lemma await_write_all_io sel b w x :
  match await_write_all (io_fuel w x) sel b w with
  | Ok _ w' => wstep w w'
  | Halt o w' => wstep w w' /\ o = ORet
  end.
Proof. apply await_write_all_ok. rewrite io_fuel_eq. destruct b; lia. Qed.

Lemma await_read_io sel L w x :
  match await_read (io_fuel w x) sel L w with
  | Ok (inl b) w' => wstep w w' /\ (world_ok w -> bytes_ok b) /\ len b <= L /\ (nb w' + length b <= nb w)%nat
  | Ok (inr k) w' => wstep w w' /\ k = EK_Transport
  | Halt o w' => wstep w w' /\ okhalt w o
  end.
Proof. apply await_read_ok. rewrite io_fuel_eq. unfold sm. destruct (stopped w); lia. Qed.

(* ------------------------------------------------------------------------------------------ *)
(* Part E: the invariant of a Request and the operations the model applies to its parser        *)
(* ------------------------------------------------------------------------------------------ *)

Definition pgood (p : sp) : Prop :=
  RI p /\ stream_ok p /\ bytes_ok (raw_bytes p) /\ 24 <= len (buffer p) < SIZE_LIMIT.
(* request, active stream and buffer size are kept *)
Definition pkeep (p p' : sp) : Prop :=
  sreq p' = sreq p /\ stream p' = stream p /\ len (buffer p') = len (buffer p).
(* buffered bytes: stream data not yet consumed + protocol bytes not yet parsed *)
Definition psize (p : sp) : nat := (length (stream_buffer p) + length (raw_bytes p))%nat.

Definition wr_inv (r : rstate) : Prop := wr_inv_at (r_role (sreq (rsp r))) (rwriteable r) (stream (rsp r)).
Definition rgood (r : rstate) : Prop := pgood (rsp r) /\ wr_inv r.
Definition rsize (r : rstate) : nat := psize (rsp r).

Lemma pkeep_refl p : pkeep p p.
Proof. repeat split. Qed.

Lemma pkeep_trans a b c : pkeep a b -> pkeep b c -> pkeep a c.
Proof. intros (A1 & A2 & A3) (B1 & B2 & B3). repeat split; congruence. Qed.

Lemma psize_bound p : RI p -> (psize p <= length (buffer p))%nat.
Proof.
  intros H. pose proof (RI_len_parsed p H). pose proof (RI_len_raw p H). destruct H as (Q1 & Q2 & Q3 & Q4 & _).
  unfold psize. unfold len in *. lia.
Qed.

Lemma pgood_transfer p p' : pgood p -> RI p' -> pkeep p p' -> bytes_ok (raw_bytes p') -> pgood p'.
Proof.
  intros (G1 & G2 & G3 & G4) R' (K1 & K2 & K3) B'. split; [exact R'|]. split; [|split; [exact B'|rewrite K3; exact G4]].
  apply (stream_ok_eq p p' K2). exact G2.
Qed.

Lemma rgood_transfer r p' wr lk ab : rgood r -> RI p' -> pkeep (rsp r) p' -> bytes_ok (raw_bytes p') ->
  wr = rwriteable r -> rgood (mkR p' wr lk ab).
Proof.
  intros [G W] R' K B' ->. split; [cbn [rsp]; eapply pgood_transfer; eassumption|].
  destruct K as (K1 & K2 & K3). unfold wr_inv in *. cbn [rsp rwriteable]. rewrite K1, K2. exact W.
Qed.

(* the part of the invariant that Parser::parse needs to be a legal call (what the lock discipline below relies on) *)
Definition lgood (p : sp) : Prop := RI p /\ stream_ok p /\ bytes_ok (raw_bytes p).

Lemma pgood_lgood p : pgood p -> lgood p.
Proof. intros (G1 & G2 & G3 & _). split; [exact G1|split; [exact G2|exact G3]]. Qed.

Lemma lgood_transfer p p' : lgood p -> RI p' -> stream p' = stream p -> bytes_ok (raw_bytes p') -> lgood p'.
Proof. intros (G1 & G2 & G3) R' S' B'. split; [exact R'|]. split; [apply (stream_ok_eq p p' S'); exact G2|exact B']. Qed.

(* everything but the pending output *)
Definition osame (p p' : sp) : Prop :=
  buffer p' = buffer p /\ parsed_start p' = parsed_start p /\ gap_start p' = gap_start p /\
  raw_start p' = raw_start p /\ free_start p' = free_start p /\ sreq p' = sreq p /\ stream p' = stream p /\
  payload_rem p' = payload_rem p /\ padding_rem p' = padding_rem p /\ sst p' = sst p.

Lemma osame_refl p : osame p p.
Proof. repeat split. Qed.

Lemma osame_trans a b c : osame a b -> osame b c -> osame a c.
Proof.
  intros (A1 & A2 & A3 & A4 & A5 & A6 & A7 & A8 & A9 & A10) (B1 & B2 & B3 & B4 & B5 & B6 & B7 & B8 & B9 & B10).
  repeat split; congruence.
Qed.

Lemma osame_consume p n : osame p (consume_output p n).
Proof. unfold consume_output. destruct (len (output p) - output_start p <=? n); repeat split. Qed.

Lemma osame_views p p' : osame p p' ->
  stream_buffer p' = stream_buffer p /\ raw_bytes p' = raw_bytes p /\ sinput_space p' = sinput_space p /\
  pkeep p p' /\ psize p' = psize p /\ is_record_boundary p' = is_record_boundary p.
Proof.
  intros (A1 & A2 & A3 & A4 & A5 & A6 & A7 & A8 & A9 & A10).
  unfold stream_buffer, raw_bytes, sinput_space, pkeep, psize, stream_buffer, raw_bytes, is_record_boundary.
  rewrite A1, A2, A3, A4, A5, A6, A7, A8, A9. repeat split.
Qed.

Lemma consume_output_all p n : len (output_buffer p) <= n -> output_buffer (consume_output p n) = [].
Proof.
  unfold output_buffer, consume_output. rewrite len_drop. intros H.
  destruct (N.leb_spec (len (output p) - output_start p) n) as [_|?]; [|lia]. cbn [output output_start]. reflexivity.
Qed.

Lemma output_empty p : RI p -> output_buffer p = [] -> output p = [].
Proof.
  intros (_ & _ & _ & _ & H5 & H6) E. apply H6. apply (f_equal len) in E. unfold output_buffer in E.
  rewrite len_drop, len_nil in E. lia.
Qed.

Lemma compress_views p : RI p ->
  RI (compress p) /\ stream_buffer (compress p) = stream_buffer p /\ raw_bytes (compress p) = raw_bytes p /\
  output_buffer (compress p) = output_buffer p /\ pkeep p (compress p) /\ psize (compress p) = psize p.
Proof.
  intros H. pose proof (compress_abs p H) as A.
  pose proof (f_equal a_parsed A) as A1. pose proof (f_equal a_raw A) as A2. pose proof (f_equal a_out A) as A3.
  pose proof (f_equal a_B A) as A4. cbn [abs acompress a_parsed a_raw a_out a_B] in A1, A2, A3, A4.
  split; [apply compress_RI; exact H|]. split; [exact A1|]. split; [exact A2|]. split; [exact A3|].
  split; [|unfold psize; rewrite A1, A2; reflexivity].
  split; [reflexivity|]. split; [reflexivity|exact A4].
Qed.

Lemma consume_stream_views p k : RI p ->
  RI (consume_stream p k) /\ raw_bytes (consume_stream p k) = raw_bytes p /\ pkeep p (consume_stream p k) /\
  (psize (consume_stream p k) + N.to_nat (N.min k (len (stream_buffer p))) = psize p)%nat.
Proof.
  intros H. pose proof (consume_stream_abs p k H) as A.
  pose proof (f_equal a_parsed A) as A1. pose proof (f_equal a_raw A) as A2.
  cbn [abs aconsume_stream a_parsed a_raw] in A1, A2.
  split; [apply consume_stream_RI; exact H|]. split; [exact A2|]. split; [repeat split|].
  unfold psize. rewrite A1, A2. pose proof (len_drop (N.min k (len (stream_buffer p))) (stream_buffer p)) as L.
  unfold len in *. lia.
Qed.

(* set_stream, when accepted *)
Lemma set_stream_views p s p' : pgood p -> (match s with Some x => is_input_stream x = true | None => True end) ->
  set_stream p s = SetOk p' ->
  pgood p' /\ sreq p' = sreq p /\ stream p' = s /\ len (buffer p') = len (buffer p) /\ (psize p' <= psize p)%nat /\
  output_buffer p' = output_buffer p /\ is_record_boundary p' = is_record_boundary p.
Proof.
  intros (G1 & G2 & G3 & G4) Hs E. pose proof (set_stream_refines p s G1) as R. rewrite E in R.
  unfold aset_stream in R. change (a_req (abs p)) with (sreq p) in R. change (a_stream (abs p)) with (stream p) in R.
  destruct (accepts (r_role (sreq p)) (stream p) s) as [[|]|]; try contradiction.
  destruct (optN_eqb s (stream p)) eqn:Eo.
  - destruct R as [R1 R2].
    assert (Es : stream p' = s).
    { pose proof (f_equal a_stream R2) as X. cbn [abs a_stream] in X. rewrite X.
      destruct s as [x|], (stream p) as [y|]; cbn [optN_eqb] in Eo; try discriminate; [|reflexivity].
      apply N.eqb_eq in Eo. congruence. }
    pose proof (f_equal a_parsed R2) as X1. pose proof (f_equal a_raw R2) as X2. pose proof (f_equal a_B R2) as X3.
    pose proof (f_equal a_req R2) as X4. pose proof (f_equal a_out R2) as X5.
    pose proof (f_equal a_prem R2) as X6. pose proof (f_equal a_pad R2) as X7.
    cbn [abs a_parsed a_raw a_B a_req a_out a_prem a_pad] in X1, X2, X3, X4, X5, X6, X7.
    split; [|split; [exact X4|split; [exact Es|split; [exact X3|split; [unfold psize; rewrite X1, X2; lia|split; [exact X5|]]]]]].
    + split; [exact R1|]. split; [unfold stream_ok; rewrite Es; destruct s; [exact Hs|exact I]|].
      split; [rewrite X2; exact G3|rewrite X3; exact G4].
    + unfold is_record_boundary. rewrite X6, X7. reflexivity.
  - destruct R as [R1 R2].
    pose proof (f_equal a_parsed R2) as X1. pose proof (f_equal a_raw R2) as X2. pose proof (f_equal a_B R2) as X3.
    pose proof (f_equal a_req R2) as X4. pose proof (f_equal a_out R2) as X5. pose proof (f_equal a_stream R2) as X0.
    pose proof (f_equal a_prem R2) as X6. pose proof (f_equal a_pad R2) as X7.
    cbn [abs a_parsed a_raw a_B a_req a_out a_stream a_prem a_pad] in X0, X1, X2, X3, X4, X5, X6, X7.
    split; [|split; [exact X4|split; [exact X0|split; [exact X3|split; [unfold psize; rewrite X1, X2; cbn [length]; lia|split; [exact X5|]]]]]].
    + split; [exact R1|]. split; [unfold stream_ok; rewrite X0; destruct s; [exact Hs|exact I]|].
      split; [rewrite X2; exact G3|rewrite X3; exact G4].
    + unfold is_record_boundary. rewrite X6, X7. reflexivity.
Qed.

(* ------------------------------------------------------------------------------------------ *)
(* Part F: Request::poll_output, poll_input                                                     *)
(* ------------------------------------------------------------------------------------------ *)

Definition okeep (r r' : rstate) : Prop :=
  RI (rsp r') /\ osame (rsp r) (rsp r') /\ rwriteable r' = rwriteable r.

Lemma okeep_rgood r r' : rgood r -> okeep r r' -> rgood r' /\ pkeep (rsp r) (rsp r') /\ rsize r' = rsize r.
Proof.
  intros G (R' & O & W). destruct (osame_views _ _ O) as (V1 & V2 & V3 & V4 & V5 & V6).
  split; [|split; [exact V4|exact V5]].
  destruct r' as [p' wr' lk' ab']. cbn [rsp rwriteable] in *. apply (rgood_transfer r); try assumption.
  rewrite V2. apply G.
Qed.

Lemma poll_output_ok : forall fuel r w, RI (rsp r) ->
  (length (wscript w) + (match output_buffer (rsp r) with [] => 0 | _ => 1 end) + 1 <= fuel)%nat ->
  match poll_output fuel r w with
  | (PReady (inl _), r', w') => okeep r r' /\ wstep w w' /\ output_buffer (rsp r') = []
  | (PReady (inr k), r', w') => okeep r r' /\ wstep w w' /\ (k = EK_WriteZero \/ k = EK_Transport \/ k = EK_Aborted)
  | (PWake, r', w') => okeep r r' /\ wstep w w' /\ (length (wscript w') < length (wscript w))%nat
  | (PBlock, _, _) => False
  end.
Proof.
  induction fuel as [|f IH]; intros r w HRI Hf; [lia|]. cbn [poll_output].
  assert (SELF : forall lk, okeep r (mkR (rsp r) (rwriteable r) lk (raborted r))).
  { intros lk. split; [exact HRI|]. split; [apply osame_refl|reflexivity]. }
  destruct (output_buffer (rsp r)) as [|x out] eqn:Eo.
  { split; [apply SELF|]. split; [apply wstep_refl|exact Eo]. }
  pose proof (t_poll_write_spec (x :: out) w ltac:(discriminate)) as P.
  destruct (t_poll_write (x :: out) w) as [[[n|k]| |] w1].
  - destruct P as (S1 & Hn & Hw & Hz).
    destruct (N.eqb_spec n 0) as [E0|E0].
    { split; [apply SELF|]. split; [exact S1|left; reflexivity]. }
    set (r1 := mkR (consume_output (rsp r) n) (rwriteable r) true (raborted r)).
    assert (R1 : RI (rsp r1)) by (apply consume_output_RI; exact HRI).
    assert (K1 : okeep r r1).
    { split; [exact R1|]. split; [apply osame_consume|reflexivity]. }
    assert (Hf' : (length (wscript w1) + (match output_buffer (rsp r1) with [] => 0 | _ => 1 end) + 1 <= f)%nat).
    { destruct Hw as [(W1 & W2 & W3)|W].
      - subst r1. cbn [rsp]. rewrite consume_output_all by (rewrite Eo; lia). rewrite W2. rewrite W1 in Hf. cbn [length] in *. lia.
      - destruct (output_buffer (rsp r1)); lia. }
    specialize (IH r1 w1 R1 Hf').
    assert (T : forall r', okeep r1 r' -> okeep r r').
    { intros r' (A1 & A2 & A3). destruct K1 as (B1 & B2 & B3). split; [exact A1|]. split; [eapply osame_trans; eassumption|congruence]. }
    destruct (poll_output f r1 w1) as [[[[u|k]| |] r2] w2].
    + destruct IH as (I1 & I2 & I3). split; [apply T; exact I1|]. split; [eapply wstep_trans; eassumption|exact I3].
    + destruct IH as (I1 & I2 & I3). split; [apply T; exact I1|]. split; [eapply wstep_trans; eassumption|exact I3].
    + destruct IH as (I1 & I2 & I3). split; [apply T; exact I1|]. split; [eapply wstep_trans; eassumption|].
      pose proof (ws_w _ _ S1). lia.
    + contradiction.
  - destruct P as (S1 & Hw & Hk). split; [apply SELF|]. split; [exact S1|right; exact Hk].
  - destruct P as (S1 & Hw). split; [apply SELF|]. split; [exact S1|exact Hw].
  - contradiction.
Qed.

(* relation between a Request (and the world) before and after an operation: the invariant is kept,
   request / stream / buffer size are kept, and the bytes still to be looked at (buffered + with the client)
   shrink at least by what was delivered to the handler *)
Definition ckeep (r : rstate) (w : world) (extra : nat) (r' : rstate) (w' : world) (deliv : nat) : Prop :=
  rgood r' /\ wstep w w' /\ pkeep (rsp r) (rsp r') /\ (rsize r' + nb w' + deliv <= rsize r + nb w + extra)%nat.

Lemma ckeep_refl r w : rgood r -> ckeep r w 0 r w 0.
Proof. intros G. split; [exact G|]. split; [apply wstep_refl|]. split; [apply pkeep_refl|lia]. Qed.

Lemma ckeep_trans r w e r1 w1 d1 r2 w2 d2 :
  ckeep r w e r1 w1 d1 -> ckeep r1 w1 0 r2 w2 d2 -> ckeep r w e r2 w2 (d1 + d2).
Proof.
  intros (A1 & A2 & A3 & A4) (B1 & B2 & B3 & B4). split; [exact B1|]. split; [eapply wstep_trans; eassumption|].
  split; [eapply pkeep_trans; eassumption|lia].
Qed.

Lemma ckeep_weaken r w e r' w' d d' : (d' <= d)%nat -> ckeep r w e r' w' d -> ckeep r w e r' w' d'.
Proof. intros H (A1 & A2 & A3 & A4). split; [exact A1|split; [exact A2|split; [exact A3|lia]]]. Qed.

Lemma ckeep_world r w e r' w' d w'' : ckeep r w e r' w' d -> wstep w' w'' -> ckeep r w e r' w'' d.
Proof.
  intros (A1 & A2 & A3 & A4) S. split; [exact A1|]. split; [eapply wstep_trans; eassumption|]. split; [exact A3|].
  pose proof (ws_b _ _ S). lia.
Qed.

Lemma ckeep_okeep r w r' w' : rgood r -> okeep r r' -> wstep w w' -> ckeep r w 0 r' w' 0.
Proof.
  intros G K S. destruct (okeep_rgood r r' G K) as (G' & K' & Z). split; [exact G'|]. split; [exact S|]. split; [exact K'|].
  pose proof (ws_b _ _ S). lia.
Qed.

Lemma perr_kind_range e : 1 <= perr_kind e <= 7.
Proof. destruct e; cbn [perr_kind]; unfold EK_Aborted, EK_InvalidData, EK_Other; lia. Qed.

(* the result of a parse, as a Request *)
Lemma sparse_ckeep r w new dest p' s lk : rgood r -> sparse_keeps (rsp r) new dest p' s ->
  ckeep r w (length new) (mkR p' (rwriteable r) lk (raborted r)) w (N.to_nat (dcount dest s)) /\
  (dest <> None -> stream_buffer p' = []).
Proof.
  intros G (K1 & K2 & K3 & K4 & K5 & K6 & K7 & _). split; [|exact K6].
  split; [apply (rgood_transfer r); try assumption; try reflexivity; repeat split; assumption|].
  split; [apply wstep_refl|]. split; [repeat split; assumption|].
  unfold rsize, psize. cbn [rsp]. unfold len in K7. lia.
Qed.

Lemma set_writeable_rgood p lk ab : rgood (mkR p false lk ab) -> is_final_stream (mkR p false lk ab) = true -> rgood (mkR p true lk ab).
Proof.
  intros [G W] F. split; [exact G|]. unfold wr_inv, wr_inv_at, is_final_stream in *. cbn [rsp rwriteable] in *.
  destruct W as (x & Ex & Hx). rewrite Ex in *. symmetry. apply final_is_last; [exact Hx|].
  destruct (next_input_stream (r_role (sreq p)) (Some x)); [discriminate|reflexivity].
Qed.

Section ConnTotal.
Variable norm : bytes -> bytes.
Variable maxc : N.

Definition dlv (dest : option N) (n : N) : nat := match dest with Some _ => N.to_nat n | None => 0%nat end.

Lemma input_loop_ok : forall fuel dest new r w, rgood r -> world_ok w -> bytes_ok new ->
  len new <= sinput_space (rsp r) -> (dest <> None -> stream_buffer (rsp r) = []) ->
  (length (wscript w) + nb w + 2 <= fuel)%nat ->
  match input_loop maxc fuel dest new r w with
  | (PReady (inl (n, b)), r', w') => ckeep r w (length new) r' w' (dlv dest n)
  | (PReady (inr k), r', w') => ckeep r w (length new) r' w' 0 /\ 1 <= k <= 7
  | (PWake, r', w') => ckeep r w (length new) r' w' 0 /\
                       (length (rscript w') + length (wscript w') < length (rscript w) + length (wscript w))%nat
  | (PBlock, r', w') => ckeep r w (length new) r' w' 0 /\ ~ ungated w'
  end.
Proof.
  induction fuel as [|f IH]; intros dest new r w G Wok Hnew Hfit Hd Hf; [lia|].
  cbn [input_loop].
  pose proof (sparse_facts maxc (rsp r) new dest (proj1 (proj1 G)) (proj1 (proj2 (proj1 G)))
                (proj1 (proj2 (proj2 (proj1 G)))) Hnew Hfit Hd) as SF.
  destruct (sparse maxc (rsp r) new dest) as [p' s|p' e s|n]; [| |contradiction].
  2:{ destruct (sparse_ckeep r w new dest p' s (rlock r) G SF) as [C _].
      split; [eapply ckeep_weaken; [|exact C]; lia|apply perr_kind_range]. }
  destruct (sparse_ckeep r w new dest p' s (rlock r) G SF) as [C HD].
  destruct (s_end s || (0 <? s_stream s)) eqn:Edone.
  { cbn [rwriteable]. replace (dlv dest (s_stream s)) with (N.to_nat (dcount dest s)) by (destruct dest; reflexivity).
    destruct (rwriteable r) eqn:Ewr; cbn [negb andb]; [exact C|].
    destruct (is_final_stream (mkR p' false (rlock r) (raborted r))) eqn:Efin; [|exact C].
    destruct C as (C1 & C2 & C3 & C4). split; [apply set_writeable_rgood; assumption|]. split; [exact C2|]. split; [exact C3|exact C4]. }
  set (r2 := mkR (compress p') (rwriteable r) (rlock r) (raborted r)).
  assert (C2 : ckeep r w (length new) r2 w 0 /\ (dest <> None -> stream_buffer (rsp r2) = [])).
  { destruct C as (C1 & C2 & C3 & C4). destruct (compress_views p' (proj1 (proj1 C1))) as (V1 & V2 & V3 & V4 & V5 & V6).
    split; [|intros Hx; subst r2; cbn [rsp]; rewrite V2; apply HD; exact Hx].
    split; [apply (rgood_transfer (mkR p' (rwriteable r) (rlock r) (raborted r))); try assumption; try reflexivity; rewrite V3; apply C1|].
    split; [exact C2|]. split; [eapply pkeep_trans; [exact C3|exact V5]|].
    unfold rsize in *. subst r2. cbn [rsp] in *. rewrite V6. lia. }
  destruct C2 as [C2 HD2]. clearbody r2. clear C HD SF.
  pose proof (poll_output_ok (S f) r2 w (proj1 (proj1 (proj1 C2))) ltac:(destruct (output_buffer (rsp r2)); lia)) as PO.
  destruct (poll_output (S f) r2 w) as [[[[u|k]| |] r3] w0].
  - destruct PO as (K3 & S3 & _).
    assert (C3 : ckeep r w (length new) r3 w0 0).
    { replace 0%nat with (0 + 0)%nat by reflexivity. eapply ckeep_trans; [exact C2|]. apply ckeep_okeep; [apply C2|exact K3|exact S3]. }
    assert (HD3 : dest <> None -> stream_buffer (rsp r3) = []).
    { intros Hx. destruct K3 as (_ & O & _). destruct (osame_views _ _ O) as (V1 & _). rewrite V1. apply HD2. exact Hx. }
    pose proof (t_poll_read_spec (sinput_space (rsp r3)) w0) as PR.
    assert (Wok0 : world_ok w0) by (apply (ws_ok _ _ S3 Wok)).
    destruct (t_poll_read (sinput_space (rsp r3)) w0) as [[[b|k]| |] w1].
    + destruct PR as (S4 & Hb & Hl & Hn).
      destruct b as [|x b'].
      { split; [eapply ckeep_world; eassumption|unfold EK_UnexpectedEof; lia]. }
      assert (Hf' : (length (wscript w1) + nb w1 + 2 <= f)%nat).
      { pose proof (ws_w _ _ S3). pose proof (ws_w _ _ S4). pose proof (ws_b _ _ S3). cbn [length] in Hn. lia. }
      specialize (IH dest (x :: b') r3 w1 (proj1 C3) (ws_ok _ _ S4 Wok0) (Hb Wok0) Hl HD3 Hf').
      assert (T : forall r' w' d, ckeep r3 w1 (length (x :: b')) r' w' d -> ckeep r w (length new) r' w' d).
      { intros r' w' d (A1 & A2 & A3 & A4). destruct C3 as (B1 & B2 & B3 & B4).
        split; [exact A1|]. split; [eapply wstep_trans; [exact B2|]; eapply wstep_trans; eassumption|].
        split; [eapply pkeep_trans; eassumption|lia]. }
      destruct (input_loop maxc f dest (x :: b') r3 w1) as [[[[[n b]|k]| |] r4] w2].
      * apply T. exact IH.
      * destruct IH as [I1 I2]. split; [apply T; exact I1|exact I2].
      * destruct IH as [I1 I2]. split; [apply T; exact I1|].
        pose proof (ws_w _ _ S3). pose proof (ws_w _ _ S4). pose proof (ws_r _ _ S3). pose proof (ws_r _ _ S4). lia.
      * destruct IH as [I1 I2]. split; [apply T; exact I1|exact I2].
    + destruct PR as (S4 & Hk). split; [eapply ckeep_world; eassumption|subst k; unfold EK_Transport; lia].
    + destruct PR as (S4 & Hr). split; [eapply ckeep_world; eassumption|].
      pose proof (ws_w _ _ S3). pose proof (ws_w _ _ S4). pose proof (ws_r _ _ S3). lia.
    + destruct PR as (-> & NU). split; [exact C3|exact NU].
  - destruct PO as (K3 & S3 & Hk). split.
    + replace 0%nat with (0 + 0)%nat by reflexivity. eapply ckeep_trans; [exact C2|]. apply ckeep_okeep; [apply C2|exact K3|exact S3].
    + destruct Hk as [->|[->| ->]]; unfold EK_WriteZero, EK_Transport, EK_Aborted; lia.
  - destruct PO as (K3 & S3 & Hw). split.
    + replace 0%nat with (0 + 0)%nat by reflexivity. eapply ckeep_trans; [exact C2|]. apply ckeep_okeep; [apply C2|exact K3|exact S3].
    + pose proof (ws_r _ _ S3). lia.
  - contradiction.
Qed.

Lemma poll_input_ok fuel dest r w : rgood r -> world_ok w -> (length (wscript w) + nb w + 2 <= fuel)%nat ->
  match poll_input maxc fuel dest r w with
  | (PReady (inl (n, b)), r', w') => ckeep r w 0 r' w' (dlv dest n)
  | (PReady (inr k), r', w') => ckeep r w 0 r' w' 0 /\ 1 <= k <= 7
  | (PWake, r', w') => ckeep r w 0 r' w' 0 /\
                       (length (rscript w') + length (wscript w') < length (rscript w) + length (wscript w))%nat
  | (PBlock, r', w') => ckeep r w 0 r' w' 0 /\ ~ ungated w'
  end.
Proof.
  intros G Wok Hf.
  assert (EMPTY : stream_buffer (rsp r) = [] ->
    match (match poll_output fuel r w with
           | (PReady (inl _), r', w') => input_loop maxc fuel dest [] r' w'
           | (PReady (inr k), r', w') => (PReady (inr k), r', w')
           | (PWake, r', w') => (PWake, r', w')
           | (PBlock, r', w') => (PBlock, r', w')
           end) with
    | (PReady (inl (n, b)), r', w') => ckeep r w 0 r' w' (dlv dest n)
    | (PReady (inr k), r', w') => ckeep r w 0 r' w' 0 /\ 1 <= k <= 7
    | (PWake, r', w') => ckeep r w 0 r' w' 0 /\
                         (length (rscript w') + length (wscript w') < length (rscript w) + length (wscript w))%nat
    | (PBlock, r', w') => ckeep r w 0 r' w' 0 /\ ~ ungated w'
    end).
  { intros Esb.
    pose proof (poll_output_ok fuel r w (proj1 (proj1 G)) ltac:(destruct (output_buffer (rsp r)); lia)) as PO.
    destruct (poll_output fuel r w) as [[[[u|k]| |] r1] w1].
    - destruct PO as (K1 & S1 & _). pose proof (ckeep_okeep r w r1 w1 G K1 S1) as C1.
      assert (HD : dest <> None -> stream_buffer (rsp r1) = []).
      { intros _. destruct K1 as (_ & O & _). destruct (osame_views _ _ O) as (V1 & _). rewrite V1. exact Esb. }
      pose proof (input_loop_ok fuel dest [] r1 w1 (proj1 C1) (ws_ok _ _ S1 Wok) ltac:(constructor)
                    ltac:(rewrite len_nil; lia) HD
                    ltac:(pose proof (ws_w _ _ S1); pose proof (ws_b _ _ S1); lia)) as IL.
      assert (T : forall r' w' d, ckeep r1 w1 (length (@nil N)) r' w' d -> ckeep r w 0 r' w' d).
      { intros r' w' d C. cbn [length] in C. replace d with (0 + d)%nat by lia. eapply ckeep_trans; eassumption. }
      destruct (input_loop maxc fuel dest [] r1 w1) as [[[[[n b]|k]| |] r2] w2].
      + apply T. exact IL.
      + destruct IL as [I1 I2]. split; [apply T; exact I1|exact I2].
      + destruct IL as [I1 I2]. split; [apply T; exact I1|]. pose proof (ws_w _ _ S1). pose proof (ws_r _ _ S1). lia.
      + destruct IL as [I1 I2]. split; [apply T; exact I1|exact I2].
    - destruct PO as (K1 & S1 & Hk). split; [apply ckeep_okeep; assumption|].
      destruct Hk as [->|[->| ->]]; unfold EK_WriteZero, EK_Transport, EK_Aborted; lia.
    - destruct PO as (K1 & S1 & Hw). split; [apply ckeep_okeep; assumption|]. pose proof (ws_r _ _ S1). lia.
    - contradiction. }
  unfold poll_input. cbv zeta.
  destruct dest as [[|pc]|]; destruct (stream_buffer (rsp r)) as [|x sb] eqn:Esb.
  - apply ckeep_refl. exact G.
  - apply ckeep_refl. exact G.
  - apply EMPTY. reflexivity.
  - set (n := N.min (N.pos pc) (len (x :: sb))).
    destruct (consume_stream_views (rsp r) n (proj1 (proj1 G))) as (V1 & V2 & V3 & V4).
    split; [apply (rgood_transfer r); try assumption; try reflexivity; rewrite V2; apply G|].
    split; [apply wstep_refl|]. split; [exact V3|].
    unfold rsize, dlv. cbn [rsp]. rewrite Esb in V4. replace (N.min n (len (x :: sb))) with n in V4 by (subst n; lia). lia.
  - apply EMPTY. reflexivity.
  - apply ckeep_refl. exact G.
Qed.

Lemma await_input_ok : forall fuel dest r w, rgood r -> world_ok w ->
  (length (rscript w) + length (wscript w) + sm w + 1 <= fuel)%nat ->
  match await_input maxc fuel dest r w with
  | Ok (inl (n, b), r') w' => ckeep r w 0 r' w' (dlv dest n)
  | Ok (inr k, r') w' => ckeep r w 0 r' w' 0 /\ 1 <= k <= 7
  | Halt o w' => wstep w w' /\ okhalt w o
  end.
Proof.
  induction fuel as [|f IH]; intros dest r w G Wok Hf; [lia|]. cbn [await_input].
  pose proof (poll_input_ok (io_fuel w (len (buffer (rsp r)))) dest r w G Wok ltac:(rewrite io_fuel_eq; lia)) as PI.
  assert (T : forall r1 w1 w1', ckeep r w 0 r1 w1 0 -> wstep w1 w1' ->
              (length (rscript w1') + length (wscript w1') + sm w1' + 1 <= f)%nat ->
              match await_input maxc f dest r1 w1' with
              | Ok (inl (n, b), r') w' => ckeep r w 0 r' w' (dlv dest n)
              | Ok (inr k, r') w' => ckeep r w 0 r' w' 0 /\ 1 <= k <= 7
              | Halt o w' => wstep w w' /\ okhalt w o
              end).
  { intros r1 w1 w1' C S Hf'. pose proof (ckeep_world _ _ _ _ _ _ _ C S) as C'.
    pose proof C' as (C1 & C2 & C3 & C4).
    specialize (IH dest r1 w1' C1 (ws_ok _ _ C2 Wok) Hf').
    destruct (await_input maxc f dest r1 w1') as [[[[n b]|k] r2] w2|o w2].
    - replace (dlv dest n) with (0 + dlv dest n)%nat by lia. eapply ckeep_trans; [exact C'|exact IH].
    - destruct IH as [I1 I2]. split; [|exact I2]. replace 0%nat with (0 + 0)%nat by lia.
      eapply ckeep_trans; [exact C'|exact I1].
    - destruct IH as [I1 I2]. split; [eapply wstep_trans; eassumption|eapply okhalt_step; eassumption]. }
  destruct (poll_input maxc (io_fuel w (len (buffer (rsp r)))) dest r w) as [[[[[n b]|k]| |] r1] w1].
  - exact PI.
  - exact PI.
  - destruct PI as [C Hs]. unfold on_wake. cbn [andb]. apply (T r1 w1 (w_bump w1) C (wstep_bump w1)).
    destruct C as (_ & S & _). pose proof (sm_step _ _ (wstep_trans _ _ _ S (wstep_bump w1))).
    change (rscript (w_bump w1)) with (rscript w1). change (wscript (w_bump w1)) with (wscript w1). lia.
  - destruct PI as [C NU]. unfold on_block.
    destruct (negb (stop_at w1 =? 0) && negb (stopped w1)) eqn:Ec.
    + apply (T r1 w1 (w_stop w1) C (wstep_stop w1)). destruct C as (_ & S & _).
      pose proof (ws_r _ _ S). pose proof (ws_w _ _ S). rewrite sm_stop.
      change (rscript (w_stop w1)) with (rscript w1). change (wscript (w_stop w1)) with (wscript w1).
      assert (sm w = 1%nat); [|lia].
      unfold sm. destruct (stopped w) eqn:Es; [|reflexivity]. rewrite (ws_stop _ _ S Es) in Ec.
      rewrite andb_false_r in Ec. discriminate.
    + destruct C as (_ & S & _). split; [exact S|]. apply (okhalt_step _ _ _ S). right. split; [reflexivity|exact NU].
Qed.

Lemma await_input_io dest r w : rgood r -> world_ok w ->
  match await_input maxc (io_fuel w 0) dest r w with
  | Ok (inl (n, b), r') w' => ckeep r w 0 r' w' (dlv dest n)
  | Ok (inr k, r') w' => ckeep r w 0 r' w' 0 /\ 1 <= k <= 7
  | Halt o w' => wstep w w' /\ okhalt w o
  end.
Proof. intros G Wok. apply await_input_ok; try assumption. rewrite io_fuel_eq. unfold sm. destruct (stopped w); lia. Qed.


(* ---- the request's output lock (Request.lock) ----
   Request::poll_output takes the lock when it starts to flush a pending management reply and releases it only when
   the reply is completely written: it stays held across Pending, and after a failed write ("keep lock even in the
   Err case").  What follows: every AWAITED read returns with the lock released, unless it returned the error of a
   failed reply flush (then a write fault was left in the write script). *)
Lemma nf_back w w' : wstep w w' -> ~ no_fault (wscript w') -> ~ no_fault (wscript w).
Proof. intros S H Hn. apply H. apply (ws_nf _ _ S Hn). Qed.

Lemma poll_output_lock fuel r w : RI (rsp r) -> (length (wscript w) + 2 <= fuel)%nat ->
  match poll_output fuel r w with
  | (p, r', w') => okeep r r' /\ wstep w w' /\
    match p with
    | PReady (inl _) => rlock r' = false
    | PReady (inr _) => ~ no_fault (wscript w)
    | PWake => True
    | PBlock => False
    end
  end.
Proof.
  intros HRI Hf.
  pose proof (poll_output_ok fuel r w HRI ltac:(destruct (output_buffer (rsp r)); lia)) as PO.
  destruct (poll_output fuel r w) as [[p r'] w'] eqn:E.
  destruct (poll_output_spec _ _ _ _ _ _ E) as (n & _ & _ & _ & _ & _ & _ & _ & _ & _ & _ & L).
  destruct p as [[u|k]| |].
  - destruct PO as (A & B & _). split; [exact A|]. split; [exact B|]. apply L.
  - destruct PO as (A & B & _). split; [exact A|]. split; [exact B|].
    destruct L as [[_ L]|(_ & _ & _ & L)]; [lia|exact L].
  - destruct PO as (A & B & _). split; [exact A|]. split; [exact B|exact I].
  - contradiction.
Qed.

(* a poll of poll_input may start with the lock held only where it begins with poll_output: nothing is buffered for the
   handler and the read is not the empty one *)
Definition lk_pre (dest : option N) (r : rstate) : Prop :=
  rlock r = false \/ (stream_buffer (rsp r) = [] /\ dest <> Some 0).

Definition lk_post (dest : option N) (w : world) (x : pres (N * bytes + N) * rstate * world) : Prop :=
  match x with
  | (p, r', w') =>
    lgood (rsp r') /\ wstep w w' /\
    match p with
    | PReady (inl _) => rlock r' = false
    | PReady (inr _) => rlock r' = false \/ ~ no_fault (wscript w)
    | _ => lk_pre dest r'
    end
  end.

Lemma lk_post_pre dest w w1 x : wstep w w1 -> lk_post dest w1 x -> lk_post dest w x.
Proof.
  intros S. destruct x as [[p r'] w']. unfold lk_post. intros (A & B & C). split; [exact A|]. split; [eapply wstep_trans; eassumption|].
  destruct p as [[u|k]| |]; try exact C. destruct C as [C|C]; [left; exact C|right; eapply nf_back; eassumption].
Qed.

Lemma input_loop_lock : forall fuel dest new r w, lgood (rsp r) -> world_ok w -> bytes_ok new ->
  len new <= sinput_space (rsp r) -> stream_buffer (rsp r) = [] -> dest <> Some 0 -> rlock r = false ->
  (length (wscript w) + nb w + 2 <= fuel)%nat ->
  lk_post dest w (input_loop maxc fuel dest new r w).
Proof.
  induction fuel as [|f IH]; intros dest new r w G Wok Hnew Hfit Hsb Hd0 Hlk Hf; [lia|].
  cbn [input_loop].
  pose proof (sparse_facts maxc (rsp r) new dest (proj1 G) (proj1 (proj2 G)) (proj2 (proj2 G)) Hnew Hfit
                ltac:(intros _; exact Hsb)) as SF.
  destruct (sparse maxc (rsp r) new dest) as [p' s|p' e s|n]; [| |contradiction].
  2:{ destruct SF as (K1 & K2 & K3 & K4 & K5 & _). unfold lk_post. cbn [rsp rlock].
      split; [apply (lgood_transfer (rsp r)); assumption|]. split; [apply wstep_refl|left; exact Hlk]. }
  destruct SF as (K1 & K2 & K3 & K4 & K5 & K6 & K7 & K8).
  assert (G' : lgood p') by (apply (lgood_transfer (rsp r)); assumption).
  destruct (s_end s || (0 <? s_stream s)) eqn:Edone.
  { match goal with |- context [if ?c then _ else _] => destruct c end; unfold lk_post; cbn [rsp rlock];
      (split; [exact G'|]; split; [apply wstep_refl|exact Hlk]). }
  apply orb_false_iff in Edone. destruct Edone as [Eend Estr].
  assert (Hz : s_stream s = 0) by (destruct (N.ltb_spec 0 (s_stream s)); [discriminate|lia]).
  assert (Hsb1 : stream_buffer p' = []).
  { destruct dest as [c|]; [apply K6; discriminate|]. apply len_zero_nil. rewrite (K8 eq_refl), Hsb, len_nil, Hz. reflexivity. }
  destruct (compress_views p' K1) as (V1 & V2 & V3 & V4 & V5 & V6).
  set (r2 := mkR (compress p') (rwriteable r) (rlock r) (raborted r)).
  pose proof (poll_output_lock (S f) r2 w V1 ltac:(lia)) as PO.
  destruct (poll_output (S f) r2 w) as [[po r3] w0]. destruct PO as ((R3 & O3 & _) & S3 & L3).
  destruct (osame_views _ _ O3) as (U1 & U2 & U3 & (_ & U4 & _) & _). cbn [r2 rsp] in U1, U2, U3, U4.
  assert (G3 : lgood (rsp r3)).
  { apply (lgood_transfer p'); [exact G'|exact R3| |rewrite U2, V3; apply G']. rewrite U4. apply V5. }
  assert (Hsb3 : stream_buffer (rsp r3) = []) by (rewrite U1, V2; exact Hsb1).
  destruct po as [[u|k]| |].
  - pose proof (t_poll_read_spec (sinput_space (rsp r3)) w0) as PR.
    assert (Wok0 : world_ok w0) by (apply (ws_ok _ _ S3 Wok)).
    destruct (t_poll_read (sinput_space (rsp r3)) w0) as [[[b|k]| |] w1].
    + destruct PR as (S4 & Hb & Hl & Hn).
      destruct b as [|x b'].
      { unfold lk_post. split; [exact G3|]. split; [eapply wstep_trans; eassumption|left; exact L3]. }
      assert (Hf' : (length (wscript w1) + nb w1 + 2 <= f)%nat).
      { pose proof (ws_w _ _ S3). pose proof (ws_w _ _ S4). pose proof (ws_b _ _ S3). cbn [length] in Hn. lia. }
      apply (lk_post_pre dest w w1); [eapply wstep_trans; eassumption|].
      apply IH; try assumption; [apply (ws_ok _ _ S4 Wok0)|apply Hb; exact Wok0].
    + destruct PR as (S4 & _). unfold lk_post. split; [exact G3|]. split; [eapply wstep_trans; eassumption|left; exact L3].
    + destruct PR as (S4 & _). unfold lk_post. split; [exact G3|]. split; [eapply wstep_trans; eassumption|left; exact L3].
    + destruct PR as (-> & _). unfold lk_post. split; [exact G3|]. split; [exact S3|left; exact L3].
  - unfold lk_post. split; [exact G3|]. split; [exact S3|right; exact L3].
  - unfold lk_post. split; [exact G3|]. split; [exact S3|]. right. split; [exact Hsb3|exact Hd0].
  - contradiction.
Qed.

Lemma poll_input_lock fuel dest r w : lgood (rsp r) -> world_ok w -> lk_pre dest r ->
  (length (wscript w) + nb w + 2 <= fuel)%nat -> lk_post dest w (poll_input maxc fuel dest r w).
Proof.
  intros G Wok Hpre Hf.
  assert (EMPTY : stream_buffer (rsp r) = [] -> dest <> Some 0 ->
    lk_post dest w (match poll_output fuel r w with
                    | (PReady (inl _), r', w') => input_loop maxc fuel dest [] r' w'
                    | (PReady (inr k), r', w') => (PReady (inr k), r', w')
                    | (PWake, r', w') => (PWake, r', w')
                    | (PBlock, r', w') => (PBlock, r', w')
                    end)).
  { intros Esb Hd0. pose proof (poll_output_lock fuel r w (proj1 G) ltac:(lia)) as PO.
    destruct (poll_output fuel r w) as [[po r1] w1]. destruct PO as ((R1 & O1 & _) & S1 & L1).
    destruct (osame_views _ _ O1) as (U1 & U2 & U3 & (_ & U4 & _) & _).
    assert (G1 : lgood (rsp r1)) by (apply (lgood_transfer (rsp r)); [exact G|exact R1|exact U4|rewrite U2; apply G]).
    assert (Hsb1 : stream_buffer (rsp r1) = []) by (rewrite U1; exact Esb).
    destruct po as [[u|k]| |].
    - apply (lk_post_pre dest w w1 _ S1).
      apply input_loop_lock; try assumption; [apply (ws_ok _ _ S1 Wok)|constructor|rewrite len_nil; lia|].
      pose proof (ws_w _ _ S1). pose proof (ws_b _ _ S1). lia.
    - unfold lk_post. split; [exact G1|]. split; [exact S1|right; exact L1].
    - unfold lk_post. split; [exact G1|]. split; [exact S1|]. right. split; [exact Hsb1|exact Hd0].
    - contradiction. }
  assert (FREE : dest = Some 0 \/ stream_buffer (rsp r) <> [] -> rlock r = false).
  { intros H. destruct Hpre as [Hl|[Hs Hd]]; [exact Hl|]. destruct H as [H|H]; [contradiction|contradiction]. }
  unfold poll_input. cbv zeta.
  destruct dest as [[|pc]|]; destruct (stream_buffer (rsp r)) as [|x sb] eqn:Esb.
  - unfold lk_post. split; [exact G|]. split; [apply wstep_refl|]. apply FREE. left. reflexivity.
  - unfold lk_post. split; [exact G|]. split; [apply wstep_refl|]. apply FREE. left. reflexivity.
  - apply EMPTY; [reflexivity|discriminate].
  - set (n := N.min (N.pos pc) (len (x :: sb))).
    destruct (consume_stream_views (rsp r) n (proj1 G)) as (V1 & V2 & (_ & V3 & _) & _).
    unfold lk_post. cbn [rsp rlock]. split; [apply (lgood_transfer (rsp r)); [exact G|exact V1|exact V3|rewrite V2; apply G]|].
    split; [apply wstep_refl|]. apply FREE. right. discriminate.
  - apply EMPTY; [reflexivity|discriminate].
  - unfold lk_post. split; [exact G|]. split; [apply wstep_refl|]. apply FREE. right. discriminate.
Qed.

Definition ai_lock (w : world) (x : res ((N * bytes + N) * rstate)) : Prop :=
  match x with
  | Ok (y, r') w' => lgood (rsp r') /\ wstep w w' /\
      match y with inl _ => rlock r' = false | inr _ => rlock r' = false \/ ~ no_fault (wscript w) end
  | Halt _ _ => True
  end.

Lemma ai_lock_pre w w1 x : wstep w w1 -> ai_lock w1 x -> ai_lock w x.
Proof.
  intros S. destruct x as [[y r'] w'|o w']; [|intros _; exact I]. unfold ai_lock. intros (A & B & C).
  split; [exact A|]. split; [eapply wstep_trans; eassumption|].
  destruct y as [u|k]; [exact C|]. destruct C as [C|C]; [left; exact C|right; eapply nf_back; eassumption].
Qed.

Lemma await_input_lock : forall fuel dest r w, lgood (rsp r) -> world_ok w -> lk_pre dest r ->
  ai_lock w (await_input maxc fuel dest r w).
Proof.
  induction fuel as [|f IH]; intros dest r w G Wok Hpre; [exact I|]. cbn [await_input].
  pose proof (poll_input_lock (io_fuel w (len (buffer (rsp r)))) dest r w G Wok Hpre ltac:(rewrite io_fuel_eq; lia)) as PI.
  destruct (poll_input maxc (io_fuel w (len (buffer (rsp r)))) dest r w) as [[p r1] w1].
  destruct PI as (G1 & S1 & L1). destruct p as [y| |].
  - unfold ai_lock. split; [exact G1|]. split; [exact S1|]. destruct y; exact L1.
  - unfold on_wake. cbn [andb]. apply (ai_lock_pre w (w_bump w1)); [eapply wstep_trans; [exact S1|apply wstep_bump]|].
    apply IH; [exact G1| |exact L1]. apply (ws_ok _ _ (wstep_bump w1)), (ws_ok _ _ S1 Wok).
  - unfold on_block. destruct (negb (stop_at w1 =? 0) && negb (stopped w1)); [|exact I].
    apply (ai_lock_pre w (w_stop w1)); [eapply wstep_trans; [exact S1|apply wstep_stop]|].
    apply IH; [exact G1| |exact L1]. apply (ws_ok _ _ (wstep_stop w1)), (ws_ok _ _ S1 Wok).
Qed.

(* on a transport without write faults an awaited read that starts with the lock released ends with it released *)
Corollary await_input_unlocked fuel dest r w x r' w' : lgood (rsp r) -> world_ok w -> rlock r = false ->
  no_fault (wscript w) -> await_input maxc fuel dest r w = Ok (x, r') w' -> rlock r' = false.
Proof.
  intros G Wok Hl Hnf E. pose proof (await_input_lock fuel dest r w G Wok (or_introl Hl)) as H. rewrite E in H.
  destruct H as (_ & _ & H). destruct x as [u|k]; [exact H|]. destruct H as [H|H]; [exact H|contradiction].
Qed.

(* ---- Request::writeable ---- *)
Lemma last_opt_facts role l : last_opt role = Some l -> is_input_stream l = true /\ In l (role_input_streams role).
Proof.
  destruct (role_cases role) as [->|[->|[->|[E _]]]].
  - vm_compute. intros H. inversion H. split; [reflexivity|tauto].
  - vm_compute. discriminate.
  - vm_compute. intros H. inversion H. split; [reflexivity|tauto].
  - unfold last_opt. rewrite E. discriminate.
Qed.

Lemma set_stream_accepted p s : accepts (r_role (sreq p)) (stream p) s = Some true -> exists p', set_stream p s = SetOk p'.
Proof.
  intros A. pose proof (set_stream_spec p s) as S. rewrite A in S.
  destruct (optN_eqb s (stream p)); [exists p; exact S|]. destruct S as (p' & E & _). exists p'. exact E.
Qed.

Lemma set_stream_ok_accepted p s p' : set_stream p s = SetOk p' -> accepts (r_role (sreq p)) (stream p) s = Some true.
Proof.
  intros E. pose proof (set_stream_spec p s) as S.
  destruct (accepts (r_role (sreq p)) (stream p) s) as [[|]|]; [reflexivity|congruence|congruence].
Qed.

(* relation used at the level of handlers: the active stream may change *)
Definition hkeep (r : rstate) (w : world) (r' : rstate) (w' : world) : Prop :=
  rgood r' /\ wstep w w' /\ sreq (rsp r') = sreq (rsp r) /\ len (buffer (rsp r')) = len (buffer (rsp r)) /\
  (rsize r' + nb w' <= rsize r + nb w)%nat.

Lemma hkeep_refl r w : rgood r -> hkeep r w r w.
Proof. intros G. split; [exact G|]. split; [apply wstep_refl|]. repeat split. lia. Qed.

Lemma hkeep_trans r w r1 w1 r2 w2 : hkeep r w r1 w1 -> hkeep r1 w1 r2 w2 -> hkeep r w r2 w2.
Proof.
  intros (A1 & A2 & A3 & A4 & A5) (B1 & B2 & B3 & B4 & B5). split; [exact B1|]. split; [eapply wstep_trans; eassumption|].
  split; [congruence|]. split; [congruence|lia].
Qed.

Lemma ckeep_hkeep r w r' w' d : ckeep r w 0 r' w' d -> hkeep r w r' w' /\ stream (rsp r') = stream (rsp r).
Proof.
  intros (A1 & A2 & (K1 & K2 & K3) & A4). split; [|exact K2]. split; [exact A1|]. split; [exact A2|].
  split; [exact K1|]. split; [exact K3|lia].
Qed.

Lemma hkeep_world r w r' w' w'' : hkeep r w r' w' -> wstep w' w'' -> hkeep r w r' w''.
Proof.
  intros (A1 & A2 & A3 & A4 & A5) S. split; [exact A1|]. split; [eapply wstep_trans; eassumption|].
  split; [exact A3|]. split; [exact A4|]. pose proof (ws_b _ _ S). lia.
Qed.

Lemma do_writeable_ok r w : rgood r -> world_ok w ->
  match do_writeable maxc r w with
  | Ok (e, r') w' => hkeep r w r' w' /\ stream (rsp r') = last_opt (r_role (sreq (rsp r))) /\
                     match e with Some k => 1 <= k <= 7 | None => True end /\
                     (rlock r = false ->
                      match e with None => rlock r' = false | Some _ => rlock r' = false \/ ~ no_fault (wscript w) end)
  | Halt o w' => wstep w w' /\ okhalt w o
  end.
Proof.
  intros G Wok. unfold do_writeable. pose proof (proj2 G) as W. unfold wr_inv, wr_inv_at in W.
  destruct (rwriteable r) eqn:Ewr.
  { split; [apply hkeep_refl; exact G|]. split; [exact W|]. split; [exact I|intros H; exact H]. }
  destruct W as (x & Ex & Hx).
  change (match rev (role_input_streams (r_role (sreq (rsp r)))) with x :: _ => Some x | [] => None end)
    with (last_opt (r_role (sreq (rsp r)))).
  pose proof (accepts_last _ x Hx) as A. rewrite <- Ex in A.
  destruct (set_stream_accepted (rsp r) _ A) as (p' & E). rewrite E.
  assert (Hl : match last_opt (r_role (sreq (rsp r))) with Some y => is_input_stream y = true | None => True end).
  { destruct (last_opt (r_role (sreq (rsp r)))) as [l|] eqn:El; [|exact I]. apply (last_opt_facts _ _ El). }
  destruct (set_stream_views (rsp r) _ p' (proj1 G) Hl E) as (V1 & V2 & V3 & V4 & V5 & _).
  set (r1 := mkR p' false (rlock r) (raborted r)).
  assert (G1 : rgood r1).
  { split; [exact V1|]. unfold wr_inv, wr_inv_at. subst r1. cbn [rsp rwriteable]. rewrite V2, V3.
    destruct (last_opt (r_role (sreq (rsp r)))) as [l|] eqn:El.
    - exists l. split; [reflexivity|]. apply (last_opt_facts _ _ El).
    - destruct (in_streams_cases _ x Hx) as [[Er _]|[[Er _]|[Er _]]]; rewrite Er in El; vm_compute in El; discriminate. }
  assert (H1 : hkeep r w r1 w).
  { split; [exact G1|]. split; [apply wstep_refl|]. split; [exact V2|]. split; [exact V4|]. unfold rsize. subst r1. cbn [rsp]. lia. }
  pose proof (await_input_io None r1 w G1 Wok) as AI.
  pose proof (fun H : rlock r = false => await_input_lock (io_fuel w 0) None r1 w (pgood_lgood _ (proj1 G1)) Wok (or_introl H)) as AL.
  destruct (await_input maxc (io_fuel w 0) None r1 w) as [[[[n b]|k] r2] w2|o w2].
  - destruct (ckeep_hkeep _ _ _ _ _ AI) as [H2 S2]. split; [eapply hkeep_trans; eassumption|]. split; [|split; [exact I|]].
    + rewrite S2. exact V3.
    + intros H. apply (AL H).
  - destruct AI as [AI Hk]. destruct (ckeep_hkeep _ _ _ _ _ AI) as [H2 S2]. split; [eapply hkeep_trans; eassumption|].
    split; [rewrite S2; exact V3|split; [exact Hk|]]. intros H. apply (AL H).
  - exact AI.
Qed.

(* ---- Request::record_boundary ---- *)
Definition pck (p : sp) (w : world) (extra : nat) (p' : sp) (w' : world) : Prop :=
  pgood p' /\ wstep w w' /\ pkeep p p' /\ (psize p' + nb w' <= psize p + nb w + extra)%nat.

Lemma sparse_pck p w new dest p' s : pgood p -> sparse_keeps p new dest p' s -> pck p w (length new) p' w.
Proof.
  intros G (K1 & K2 & K3 & K4 & K5 & K6 & K7 & _).
  split; [apply (pgood_transfer p); try assumption; repeat split; assumption|].
  split; [apply wstep_refl|]. split; [repeat split; assumption|]. unfold psize. unfold len in K7. lia.
Qed.

Definition bl_after (f : nat) (r : rstate) (w : world) (p' : sp) : res (option N * rstate) :=
  let r1 := mkR p' (rwriteable r) (rlock r) (raborted r) in
  if is_record_boundary p' then Ok (None, r1) w
  else
    let p2 := compress p' in
    let r2 := mkR p2 (rwriteable r) (rlock r) (raborted r) in
    match await_read (io_fuel w 0) false (sinput_space p2) w with
    | Ok (inl []) w' => Ok (Some EK_UnexpectedEof, r2) w'
    | Ok (inl b) w' => boundary_loop maxc f b r2 w'
    | Ok (inr k) w' => Ok (Some k, r2) w'
    | Halt o w' => Halt o w'
    end.

Lemma boundary_loop_S f new r w :
  boundary_loop maxc (S f) new r w =
  match sparse maxc (rsp r) new None with
  | StPanic n => Halt (OPanic (1000 + n)) w
  | StOk p' _ => bl_after f r w p'
  | StErr p' EAbortRequest _ => bl_after f r w p'
  | StErr p' e _ => Ok (Some (perr_kind e), mkR p' (rwriteable r) (rlock r) (raborted r)) w
  end.
Proof. reflexivity. Qed.

Definition bl_post (r : rstate) (w : world) (extra : nat) (x : res (option N * rstate)) : Prop :=
  match x with
  | Ok (e, r') w' => pck (rsp r) w extra (rsp r') w' /\ rwriteable r' = rwriteable r /\
                     match e with Some k => 1 <= k <= 7 | None => True end
  | Halt o w' => wstep w w' /\ okhalt w o
  end.

Lemma boundary_loop_ok : forall fuel new r w, pgood (rsp r) -> world_ok w -> bytes_ok new ->
  len new <= sinput_space (rsp r) -> (nb w + 1 <= fuel)%nat ->
  bl_post r w (length new) (boundary_loop maxc fuel new r w).
Proof.
  induction fuel as [|f IH]; intros new r w G Wok Hnew Hfit Hf; [lia|]. rewrite boundary_loop_S.
  pose proof (sparse_facts maxc (rsp r) new None (proj1 G) (proj1 (proj2 G)) (proj1 (proj2 (proj2 G))) Hnew Hfit
                ltac:(intros X; contradiction)) as SF.
  assert (AFTER : forall p' s, sparse_keeps (rsp r) new None p' s -> bl_post r w (length new) (bl_after f r w p')).
  { intros p' s K. pose proof (sparse_pck (rsp r) w new None p' s G K) as C.
    unfold bl_after. cbv zeta. destruct (is_record_boundary p').
    { cbn [bl_post rsp rwriteable]. split; [exact C|]. split; [reflexivity|exact I]. }
    destruct C as (C1 & C2 & C3 & C4).
    destruct (compress_views p' (proj1 C1)) as (V1 & V2 & V3 & V4 & V5 & V6).
    assert (C' : pck (rsp r) w (length new) (compress p') w).
    { split; [apply (pgood_transfer p'); try assumption; rewrite V3; apply C1|]. split; [exact C2|].
      split; [eapply pkeep_trans; eassumption|]. rewrite V6. exact C4. }
    pose proof (await_read_io false (sinput_space (compress p')) w 0) as AR.
    destruct (await_read (io_fuel w 0) false (sinput_space (compress p')) w) as [[b|k] w1|o w1].
    - destruct AR as (S1 & Hb & Hl & Hn).
      assert (CW : pck (rsp r) w (length new) (compress p') w1).
      { destruct C' as (D1 & D2 & D3 & D4). split; [exact D1|]. split; [exact (wstep_trans _ _ _ D2 S1)|].
        split; [exact D3|]. pose proof (ws_b _ _ S1). lia. }
      destruct b as [|x b'].
      + cbn [bl_post rsp rwriteable]. split; [exact CW|]. split; [reflexivity|unfold EK_UnexpectedEof; lia].
      + set (r2 := mkR (compress p') (rwriteable r) (rlock r) (raborted r)).
        specialize (IH (x :: b') r2 w1 (proj1 C') (ws_ok _ _ S1 Wok) (Hb Wok) Hl ltac:(cbn [length] in Hn; lia)).
        unfold bl_post in *. destruct (boundary_loop maxc f (x :: b') r2 w1) as [[e r3] w3|o w3].
        * destruct IH as ((I1 & I2 & I3 & I4) & I5 & I6). split; [|split; [exact I5|exact I6]].
          destruct C' as (D1 & D2 & D3 & D4). subst r2. cbn [rsp] in *.
          split; [exact I1|]. split; [eapply wstep_trans; [exact S1|exact I2]|]. split; [eapply pkeep_trans; eassumption|lia].
        * destruct IH as [I1 I2]. split; [eapply wstep_trans; eassumption|eapply okhalt_step; eassumption].
    - destruct AR as (S1 & Hk). cbn [bl_post rsp rwriteable].
      split; [|split; [reflexivity|subst k; unfold EK_Transport; lia]].
      destruct C' as (D1 & D2 & D3 & D4). split; [exact D1|]. split; [exact (wstep_trans _ _ _ D2 S1)|].
      split; [exact D3|]. pose proof (ws_b _ _ S1). lia.
    - exact AR. }
  destruct (sparse maxc (rsp r) new None) as [p' s|p' e s|n]; [apply (AFTER p' s SF)| |contradiction].
  assert (ERR : bl_post r w (length new) (Ok (Some (perr_kind e), mkR p' (rwriteable r) (rlock r) (raborted r)) w)).
  { cbn [bl_post rsp rwriteable]. split; [apply (sparse_pck _ _ _ _ _ _ G SF)|]. split; [reflexivity|apply perr_kind_range]. }
  destruct e; try exact ERR. apply (AFTER p' s SF).
Qed.

Lemma record_boundary_ok r w : pgood (rsp r) -> world_ok w -> bl_post r w 0 (record_boundary maxc r w).
Proof.
  intros G Wok. unfold record_boundary. destruct (is_record_boundary (rsp r)).
  - cbn [bl_post]. split; [|split; [reflexivity|exact I]].
    split; [exact G|]. split; [apply wstep_refl|]. split; [apply pkeep_refl|lia].
  - apply (boundary_loop_ok _ [] r w G Wok); [apply Forall_nil|rewrite len_nil; lia|change (nb w + 1 <= nb w + 4)%nat; lia].
Qed.

(* ---- Request::close ---- *)
Definition close_post (p : sp) (w : world) (x : res (parser + N)) : Prop :=
  match x with
  | Ok (inl rp) w' => parser_ok rp /\ st rp = Header /\ wstep w w' /\ (length (held rp) + nb w' <= psize p + nb w)%nat
  | Ok (inr _) w' => wstep w w'
  | Halt o w' => wstep w w' /\ okhalt w o
  end.

Lemma close_tail_ok r disc code w : pgood (rsp r) -> world_ok w -> In disc EXITSTATUS_VALUES ->
  close_post (rsp r) w (close_tail maxc r disc code w).
Proof.
  intros G Wok Hd. unfold close_tail.
  destruct (set_stream_accepted (rsp r) None eq_refl) as (p2 & E). rewrite E.
  destruct (set_stream_views (rsp r) None p2 G I E) as (V1 & V2 & V3 & V4 & V5 & _).
  set (r2 := mkR p2 (rwriteable r) (rlock r) (raborted r)).
  pose proof (record_boundary_ok r2 w V1 Wok) as RB. unfold bl_post in RB.
  destruct (record_boundary maxc r2 w) as [[[k2|] r3] w2|o w2]; [apply RB| |exact RB].
  destruct RB as ((B1 & B2 & B3 & B4) & _ & _). subst r2. cbn [rsp] in *.
  destruct (epilogue (r_id (sreq (rsp r3))) disc code (if rwriteable r3 then ROLE_OUTPUT_STREAMS else [])) as [ep|] eqn:Eep;
    [|exfalso; exact (epilogue_some _ _ _ _ Hd Eep)].
  pose proof (await_write_all_io false (output_buffer (rsp r3)) w2 (len (output_buffer (rsp r3)))) as W1.
  destruct (await_write_all (io_fuel w2 (len (output_buffer (rsp r3)))) false (output_buffer (rsp r3)) w2) as [[k3|] w3|o w3].
  - cbn [close_post]. eapply wstep_trans; eassumption.
  - set (p4 := match output_buffer (rsp r3) with [] => rsp r3 | _ => consume_output (rsp r3) (len (output_buffer (rsp r3))) end).
    pose proof (await_write_all_io false ep w3 (len ep)) as W2.
    destruct (await_write_all (io_fuel w3 (len ep)) false ep w3) as [[k4|] w4|o w4].
    + cbn [close_post]. eapply wstep_trans; [exact B2|]. eapply wstep_trans; eassumption.
    + assert (S4 : wstep w w4) by (eapply wstep_trans; [exact B2|]; eapply wstep_trans; eassumption).
      destruct (N.land (r_flags (sreq p4)) FLAG_KeepConn =? FLAG_KeepConn); [|exact S4].
      assert (P4 : RI p4 /\ osame (rsp r3) p4 /\ output_buffer p4 = []).
      { subst p4. destruct (output_buffer (rsp r3)) as [|x out] eqn:Eo.
        - split; [apply B1|]. split; [apply osame_refl|exact Eo].
        - split; [apply consume_output_RI; apply B1|]. split; [apply osame_consume|].
          apply consume_output_all. rewrite Eo. lia. }
      destruct P4 as (R4 & O4 & E4). destruct (osame_views _ _ O4) as (U1 & U2 & U3 & U4 & U5 & U6).
      unfold into_request_parser.
      destruct (is_record_boundary p4) eqn:Eb; cbn [negb]; [|exact S4].
      destruct (into_request_parser_ok p4 R4 Eb E4) as (rp & Erp & H1 & H2 & H3).
      unfold into_request_parser in Erp. rewrite Eb in Erp. cbn [negb] in Erp. rewrite Erp.
      cbn [abs a_raw a_B] in H1, H2. cbn [close_post].
      destruct B1 as (Q1 & Q2 & Q3 & Q4). destruct U4 as (_ & _ & U4).
      split; [|split; [exact H3|split; [exact S4|]]].
      * split; [rewrite H3; exact I|]. split; [rewrite H3; exact I|]. rewrite H1, H2, U2, U4.
        split; [exact Q3|]. split; [|exact Q4].
        pose proof (RI_len_raw _ Q1). destruct Q1 as (T1 & T2 & T3 & T4 & _). lia.
      * rewrite H1, U2. pose proof (ws_b _ _ W1). pose proof (ws_b _ _ W2). unfold psize in *. lia.
    + destruct W2 as [W2 ->]. split; [|left; reflexivity]. eapply wstep_trans; [exact B2|]. eapply wstep_trans; eassumption.
  - destruct W1 as [W1 ->]. split; [eapply wstep_trans; eassumption|left; reflexivity].
Qed.

Lemma do_close_ok r disc code w : rgood r -> world_ok w -> In disc EXITSTATUS_VALUES ->
  close_post (rsp r) w (do_close maxc r disc code w).
Proof.
  intros G Wok Hd. unfold do_close. pose proof (do_writeable_ok r w G Wok) as DW.
  destruct (do_writeable maxc r w) as [[e r1] w1|o w1]; [|exact DW].
  destruct DW as ((H1 & H2 & H3 & H4 & H5) & _ & _).
  assert (CT : close_post (rsp r) w (close_tail maxc r1 disc code w1)).
  { pose proof (close_tail_ok r1 disc code w1 (proj1 H1) (ws_ok _ _ H2 Wok) Hd) as C.
    unfold close_post in *. destruct (close_tail maxc r1 disc code w1) as [[rp|k] w2|o w2].
    - destruct C as (C1 & C2 & C3 & C4). split; [exact C1|]. split; [exact C2|]. split; [eapply wstep_trans; eassumption|].
      unfold rsize in H5. lia.
    - eapply wstep_trans; eassumption.
    - destruct C as [C1 C2]. split; [eapply wstep_trans; eassumption|eapply okhalt_step; eassumption]. }
  destruct e as [k|]; [|exact CT]. destruct ((k =? EK_Aborted) && raborted r1); [exact CT|exact H2].
Qed.

(* ---- StreamWriter ---- *)
Fixpoint cut (n : N) (l : list bytes) : list bytes :=
  match l with
  | [] => []
  | s :: t => if len s <=? n then cut (n - len s) t else drop n s :: t
  end.
Definition tot (l : list bytes) : nat := length (concat l).

Lemma write_slices_S f slices w :
  write_slices (S f) slices w =
  match filter (fun s => negb (len s =? 0)) slices with
  | [] => Ok None w
  | s1 :: more =>
    match t_poll_write (if vectored w then s1 ++ concat more else s1) w with
    | (PReady (inl n), w') => if n =? 0 then Ok (Some EK_WriteZero) w' else write_slices f (cut n (s1 :: more)) w'
    | (PReady (inr k), w') => Ok (Some k) w'
    | (PWake, w') => on_wake false w' (write_slices f (s1 :: more))
    | (PBlock, w') => Halt (OPanic 51) w'
    end
  end.
Proof. reflexivity. Qed.

Lemma tot_filter l : tot (filter (fun s : list N => negb (len s =? 0)) l) = tot l.
Proof.
  unfold tot. induction l as [|s t IH]; [reflexivity|]. cbn [filter].
  destruct (N.eqb_spec (len s) 0) as [E|E]; cbn [negb].
  - apply len_zero_nil in E. subst s. cbn [concat app]. exact IH.
  - cbn [concat]. rewrite !app_length, IH. reflexivity.
Qed.

Lemma tot_cut : forall l n, tot (cut n l) = (tot l - N.to_nat n)%nat.
Proof.
  unfold tot. induction l as [|s t IH]; intros n; [reflexivity|]. cbn [cut].
  destruct (N.leb_spec (len s) n) as [H|H].
  - rewrite IH. cbn [concat]. rewrite app_length. unfold len in *. lia.
  - cbn [concat]. rewrite !app_length. pose proof (len_drop n s) as L. unfold len in *. lia.
Qed.

Lemma filter_head_nonempty l s1 more : filter (fun s : list N => negb (len s =? 0)) l = s1 :: more -> s1 <> [].
Proof.
  intros E. assert (H : In s1 (filter (fun s : list N => negb (len s =? 0)) l)) by (rewrite E; left; reflexivity).
  apply filter_In in H. destruct H as [_ H]. intros ->. rewrite len_nil in H. discriminate.
Qed.

Lemma write_slices_ok : forall fuel slices w, (length (wscript w) + tot slices + 1 <= fuel)%nat ->
  match write_slices fuel slices w with
  | Ok _ w' => wstep w w'
  | Halt _ _ => False
  end.
Proof.
  induction fuel as [|f IH]; intros slices w Hf; [lia|]. rewrite write_slices_S.
  pose proof (tot_filter slices) as TF.
  destruct (filter (fun s : list N => negb (len s =? 0)) slices) as [|s1 more] eqn:Ef; [apply wstep_refl|].
  pose proof (filter_head_nonempty _ _ _ Ef) as Hne.
  set (offer := if vectored w then _ else _).
  assert (Hoff : offer <> [] /\ (length offer <= tot (s1 :: more))%nat).
  { subst offer. unfold tot. cbn [concat]. rewrite app_length. destruct (vectored w).
    - split; [destruct s1; [congruence|discriminate]|rewrite app_length; lia].
    - split; [exact Hne|lia]. }
  destruct Hoff as [Hoff Hlen].
  pose proof (t_poll_write_spec offer w Hoff) as P.
  destruct (t_poll_write offer w) as [[[n|k]| |] w1].
  - destruct P as (S1 & Hn & Hw & Hz). destruct (N.eqb_spec n 0) as [E0|E0]; [exact S1|].
    assert (Hf' : (length (wscript w1) + tot (cut n (s1 :: more)) + 1 <= f)%nat).
    { rewrite tot_cut. destruct Hw as [(W1 & W2 & W3)|W]; [|lia].
      rewrite W2. rewrite W1 in Hf. cbn [length] in *. unfold len in *. lia. }
    specialize (IH (cut n (s1 :: more)) w1 Hf').
    destruct (write_slices f (cut n (s1 :: more)) w1) as [x w2|o w2]; [|contradiction].
    eapply wstep_trans; eassumption.
  - apply P.
  - destruct P as [S1 Hw]. unfold on_wake. cbn [andb].
    assert (Hf' : (length (wscript (w_bump w1)) + tot (s1 :: more) + 1 <= f)%nat)
      by (change (wscript (w_bump w1)) with (wscript w1); lia).
    specialize (IH (s1 :: more) (w_bump w1) Hf').
    destruct (write_slices f (s1 :: more) (w_bump w1)) as [x w2|o w2]; [|contradiction].
    eapply wstep_trans; [exact S1|]. eapply wstep_trans; [apply wstep_bump|exact IH].
  - contradiction.
Qed.

Lemma auto_padding_lt n : auto_padding n < 8.
Proof. unfold auto_padding. destruct (N.ltb_spec 0 (n mod 8)); lia. Qed.

Lemma writer_write_all_ok : forall fuel stype id data w,
  (1 <= fuel)%nat -> len data <= 65535 * (N.of_nat fuel - 1) ->
  match writer_write_all fuel stype id data w with
  | Ok _ w' => wstep w w'
  | Halt _ _ => False
  end.
Proof.
  induction fuel as [|f IH]; intros stype id data w H1 Hl; [lia|]. cbn [writer_write_all].
  destruct data as [|x data']; [apply wstep_refl|].
  set (data := x :: data') in *. set (n := N.min (len data) 65535).
  pose proof (write_slices_ok (io_fuel w (n + 300)) [hdr_encode stype id n (auto_padding n); take n data; zeros (auto_padding n)] w) as WS.
  assert (Hf : (length (wscript w) + tot [hdr_encode stype id n (auto_padding n); take n data; zeros (auto_padding n)] + 1
                <= io_fuel w (n + 300))%nat).
  { rewrite io_fuel_eq. unfold tot. cbn [concat]. rewrite !app_length. cbn [length].
    pose proof (len_take n data) as L1. pose proof (len_zeros (auto_padding n)) as L2. pose proof (auto_padding_lt n).
    change (length (hdr_encode stype id n (auto_padding n))) with 8%nat. unfold len in *. lia. }
  specialize (WS Hf).
  destruct (write_slices (io_fuel w (n + 300)) [hdr_encode stype id n (auto_padding n); take n data; zeros (auto_padding n)] w)
    as [[k|] w1|o w1]; [exact WS| |contradiction].
  assert (Hd : 1 <= len data) by (subst data; rewrite len_cons; lia).
  assert (H1' : (1 <= f)%nat) by lia.
  assert (Hl' : len (drop n data) <= 65535 * (N.of_nat f - 1)) by (rewrite len_drop; subst n; lia).
  specialize (IH stype id (drop n data) w1 H1' Hl').
  destruct (writer_write_all f stype id (drop n data) w1) as [y w2|o w2]; [|contradiction].
  eapply wstep_trans; eassumption.
Qed.

(* ---- handler scripts ---- *)
Lemma read_all_ok : forall fuel acc r w, rgood r -> world_ok w -> (rsize r + nb w + 2 <= fuel)%nat ->
  match read_all maxc fuel acc r w with
  | Ok (_, r') w' => hkeep r w r' w' /\ stream (rsp r') = stream (rsp r) /\
                     (rlock r = false -> rlock r' = false \/ ~ no_fault (wscript w))
  | Halt o w' => wstep w w' /\ okhalt w o
  end.
Proof.
  induction fuel as [|f IH]; intros acc r w G Wok Hf; [lia|]. cbn [read_all].
  pose proof (await_input_io (Some 64) r w G Wok) as AI.
  pose proof (fun H : rlock r = false => await_input_lock (io_fuel w 0) (Some 64) r w (pgood_lgood _ (proj1 G)) Wok (or_introl H)) as AL.
  destruct (await_input maxc (io_fuel w 0) (Some 64) r w) as [[[[n b]|k] r1] w1|o w1].
  - destruct (ckeep_hkeep _ _ _ _ _ AI) as [H1 S1].
    destruct (N.eqb_spec n 0) as [E0|E0]; [split; [exact H1|split; [exact S1|intros H; left; apply (AL H)]]|].
    destruct AI as (A1 & A2 & A3 & A4). cbn [dlv] in A4.
    specialize (IH (acc ++ b) r1 w1 A1 (ws_ok _ _ A2 Wok) ltac:(lia)).
    destruct (read_all maxc f (acc ++ b) r1 w1) as [[[k acc'] r2] w2|o w2].
    + destruct IH as (I1 & I2 & I3). split; [eapply hkeep_trans; eassumption|]. split; [congruence|].
      intros H. destruct (I3 (proj2 (proj2 (AL H)))) as [I|I]; [left; exact I|right; eapply nf_back; eassumption].
    + destruct IH as [I1 I2]. split; [eapply wstep_trans; eassumption|eapply okhalt_step; eassumption].
  - destruct AI as [AI _]. destruct (ckeep_hkeep _ _ _ _ _ AI) as [H1 S1]. split; [exact H1|]. split; [exact S1|].
    intros H. apply (AL H).
  - exact AI.
Qed.

(* A handler script is a list of numbers: 1 n (read n bytes), 2 (read to the end), 3 k (fill the buffer, consume k),
   4 s (set_stream(Some s)), 5 (writeable), 6 s n data (write data on stream s), 7 s (flush), 8 d c (return the
   exit status (d, c)), 9 k (return an error), 10 n (read n bytes, return the read error if there is one), 11 n (poll a
   read of n bytes once without awaiting it: a Pending result is abandoned).  A script is well-formed if it only uses these opcodes with
   their arities and every exit status is a value of ExitStatus.  With [strict = true] it is moreover required
   that every set_stream is accepted by the stream order at that point ([cur] is the active stream: writeable()
   moves it to the role's last stream); with [strict = false] a rejected set_stream is the handler's own
   unwrap panic (site 70). *)
Inductive script_ok (strict : bool) (role : N) : option N -> list N -> Prop :=
| SO_nil cur : script_ok strict role cur []
| SO_read cur n rest : script_ok strict role cur rest -> script_ok strict role cur (1 :: n :: rest)
| SO_read_all cur rest : script_ok strict role cur rest -> script_ok strict role cur (2 :: rest)
| SO_fill cur k rest : script_ok strict role cur rest -> script_ok strict role cur (3 :: k :: rest)
| SO_set cur s rest : (strict = true -> accepts role cur (Some s) = Some true) ->
    script_ok strict role (Some s) rest -> script_ok strict role cur (4 :: s :: rest)
| SO_writeable cur rest : script_ok strict role (last_opt role) rest -> script_ok strict role cur (5 :: rest)
| SO_write cur s n rest : script_ok strict role cur (drop n rest) -> script_ok strict role cur (6 :: s :: n :: rest)
| SO_flush cur s rest : script_ok strict role cur rest -> script_ok strict role cur (7 :: s :: rest)
| SO_exit cur d c rest : In d EXITSTATUS_VALUES -> script_ok strict role cur (8 :: d :: c :: rest)
| SO_fail cur k rest : script_ok strict role cur (9 :: k :: rest)
| SO_readq cur n rest : script_ok strict role cur rest -> script_ok strict role cur (10 :: n :: rest)
| SO_poll cur n rest : script_ok strict role cur rest -> script_ok strict role cur (11 :: n :: rest).

(* handlers that never ABANDON a pending read: every opcode of [script_ok] except 11 (a read future polled once and
   dropped).  Request::poll_output may return Pending after it has written only PART of a management reply, with
   Request.lock held; a handler that drops the read future at that point and then writes or flushes through a
   StreamWriter waits for that lock for ever (ex2p_abandoned_read_deadlocks in Async/PeerProofs2.v; known finding F6). *)
Inductive no_abandoned_read : list N -> Prop :=
| NA_nil : no_abandoned_read []
| NA_read n rest : no_abandoned_read rest -> no_abandoned_read (1 :: n :: rest)
| NA_read_all rest : no_abandoned_read rest -> no_abandoned_read (2 :: rest)
| NA_fill k rest : no_abandoned_read rest -> no_abandoned_read (3 :: k :: rest)
| NA_set s rest : no_abandoned_read rest -> no_abandoned_read (4 :: s :: rest)
| NA_writeable rest : no_abandoned_read rest -> no_abandoned_read (5 :: rest)
| NA_write s n rest : no_abandoned_read (drop n rest) -> no_abandoned_read (6 :: s :: n :: rest)
| NA_flush s rest : no_abandoned_read rest -> no_abandoned_read (7 :: s :: rest)
| NA_exit d c rest : no_abandoned_read (8 :: d :: c :: rest)
| NA_fail k rest : no_abandoned_read (9 :: k :: rest)
| NA_readq n rest : no_abandoned_read rest -> no_abandoned_read (10 :: n :: rest).

(* handlers that propagate I/O errors: every read is `read(..).await?` (op 10), writes return their error (op 6
   does), no op that observes an error and goes on (1, 2, 3, 5), no abandoned read (11) *)
Inductive prop_script : list N -> Prop :=
| PS_nil : prop_script []
| PS_set s rest : prop_script rest -> prop_script (4 :: s :: rest)
| PS_write s n rest : prop_script (drop n rest) -> prop_script (6 :: s :: n :: rest)
| PS_flush s rest : prop_script rest -> prop_script (7 :: s :: rest)
| PS_exit d c rest : prop_script (8 :: d :: c :: rest)
| PS_fail k rest : prop_script (9 :: k :: rest)
| PS_readq n rest : prop_script rest -> prop_script (10 :: n :: rest).

(* Three ways to look at a handler with respect to the request's output lock:
   LAny   — any well-formed script: a StreamWriter op (6 with data, 7) may find Request.lock held and wait for ever;
   LAwait — it awaits the reads it starts and the transport has no write fault left: the lock is free between ops;
   LProp  — it propagates I/O errors: the lock is free between ops whatever the transport does. *)
Inductive lmode := LAny | LAwait | LProp.

Definition lm_script (m : lmode) (s : list N) : Prop :=
  match m with LAny => True | LAwait => no_abandoned_read s | LProp => prop_script s end.
Definition lm_pre (m : lmode) (r : rstate) (w : world) : Prop :=
  match m with LAny => True | LAwait => rlock r = false /\ no_fault (wscript w) | LProp => rlock r = false end.

Lemma lm_script_nil m : lm_script m [].
Proof. destruct m; [exact I|constructor|constructor]. Qed.

(* the lock is certainly free after the step *)
Lemma lm_pre_free m r w r1 w1 : lm_pre m r w -> wstep w w1 -> (rlock r = false -> rlock r1 = false) -> lm_pre m r1 w1.
Proof.
  destruct m; cbn [lm_pre]; [intros; exact I| |].
  - intros [Hl Hn] S H. split; [apply H; exact Hl|apply (ws_nf _ _ S Hn)].
  - intros Hl S H. apply H. exact Hl.
Qed.

(* the step reported an error and the handler goes on: the lock is free unless a write fault occurred *)
Lemma lm_pre_soft m r w r1 w1 : m <> LProp -> lm_pre m r w -> wstep w w1 ->
  (rlock r = false -> rlock r1 = false \/ ~ no_fault (wscript w)) -> lm_pre m r1 w1.
Proof.
  destruct m; cbn [lm_pre]; [intros; exact I| |intros H; contradiction].
  intros _ [Hl Hn] S H. split; [|apply (ws_nf _ _ S Hn)]. destruct (H Hl) as [H1|H1]; [exact H1|contradiction].
Qed.

Definition okhalt70 (strict : bool) (w : world) (o : outcome) : Prop :=
  okhalt w o \/ (strict = false /\ o = OPanic 70).

(* ... or, if nothing is known about the lock, the task waits for it *)
Definition okhaltm (m : lmode) (strict : bool) (w : world) (o : outcome) : Prop :=
  okhalt70 strict w o \/ (m = LAny /\ o = ODeadlock).

Definition hpost (m : lmode) (strict : bool) (r : rstate) (w : world) (x : res ((N * N + N) * rstate)) : Prop :=
  match x with
  | Ok (st, r') w' => hkeep r w r' w' /\ match st with inl (d, _) => In d EXITSTATUS_VALUES | inr _ => True end
  | Halt o w' => wstep w w' /\ okhaltm m strict w o
  end.

Lemma okhalt70_step strict w w' o : wstep w w' -> okhalt70 strict w' o -> okhalt70 strict w o.
Proof. intros S [H|H]; [left; eapply okhalt_step; eassumption|right; exact H]. Qed.

Lemma okhaltm_step m strict w w' o : wstep w w' -> okhaltm m strict w' o -> okhaltm m strict w o.
Proof. intros S [H|H]; [left; eapply okhalt70_step; eassumption|right; exact H]. Qed.

Lemma hpost_cont m strict r w r1 w1 x : hkeep r w r1 w1 -> hpost m strict r1 w1 x -> hpost m strict r w x.
Proof.
  intros H. unfold hpost. destruct x as [[st r2] w2|o w2].
  - intros [A B]. split; [eapply hkeep_trans; eassumption|exact B].
  - intros [A B]. destruct H as (_ & S & _). split; [eapply wstep_trans; eassumption|eapply okhaltm_step; eassumption].
Qed.

Lemma exit_complete_in : In EXIT_Complete EXITSTATUS_VALUES.
Proof. left. reflexivity. Qed.

Lemma accepts_input role cur s : accepts role cur (Some s) = Some true -> is_input_stream s = true.
Proof.
  unfold accepts, cmp_input_streams. destruct cur as [e|]; [|discriminate].
  destruct (is_input_stream s); [reflexivity|]. cbn [negb orb]. discriminate.
Qed.

Lemma run_handler_ok m strict role cur script : script_ok strict role cur script -> lm_script m script ->
  forall f r w, (length script < f)%nat -> rgood r -> world_ok w ->
  r_role (sreq (rsp r)) = role -> stream (rsp r) = cur -> lm_pre m r w ->
  hpost m strict r w (run_handler maxc f script r w).
Proof.
  induction 1 as [cur|cur n rest H IH|cur rest H IH|cur k rest H IH|cur s rest Hacc H IH|cur rest H IH
                  |cur s n rest H IH|cur s rest H IH|cur d c rest Hd|cur k rest|cur n rest H IH|cur n rest H IH];
    intros Hm f r w Hf G Wok Hrole Hcur Hpre; (destruct f as [|f]; [cbn [length] in Hf; lia|]); cbn [length] in Hf; cbn [run_handler].
  - (* end of script *)
    split; [apply hkeep_world with (w' := w); [apply hkeep_refl; exact G|apply wstep_ev]|apply exit_complete_in].
  - (* 1 n *)
    assert (Hm' : lm_script m rest /\ m <> LProp) by (destruct m; [split; [exact I|discriminate]|split; [inversion Hm; assumption|discriminate]|inversion Hm]).
    destruct Hm' as [Hmr Hnp].
    pose proof (await_input_io (Some n) r w G Wok) as AI.
    pose proof (fun Hl : rlock r = false => await_input_lock (io_fuel w 0) (Some n) r w (pgood_lgood _ (proj1 G)) Wok (or_introl Hl)) as AL.
    destruct (await_input maxc (io_fuel w 0) (Some n) r w) as [[[[c b]|k] r1] w1|o w1].
    + destruct (ckeep_hkeep _ _ _ _ _ AI) as [H1 S1].
      set (w2 := w_ev (w_ev w1 [1; 1; c]) b).
      assert (H2 : hkeep r w r1 w2).
      { apply hkeep_world with (w' := w1); [exact H1|]. eapply wstep_trans; apply wstep_ev. }
      apply (hpost_cont _ _ _ _ _ _ _ H2). pose proof H2 as (G2 & S2 & Q2 & _).
      apply IH; [exact Hmr|lia|exact G2|exact (ws_ok _ _ S2 Wok)|rewrite Q2; exact Hrole|congruence|].
      apply (lm_pre_free m r w); [exact Hpre|exact S2|]. intros Hl. apply (AL Hl).
    + destruct AI as [AI _]. destruct (ckeep_hkeep _ _ _ _ _ AI) as [H1 S1].
      set (w2 := w_ev (w_ev w1 [1; 0; k]) []).
      assert (H2 : hkeep r w r1 w2).
      { apply hkeep_world with (w' := w1); [exact H1|]. eapply wstep_trans; apply wstep_ev. }
      apply (hpost_cont _ _ _ _ _ _ _ H2). pose proof H2 as (G2 & S2 & Q2 & _).
      apply IH; [exact Hmr|lia|exact G2|exact (ws_ok _ _ S2 Wok)|rewrite Q2; exact Hrole|congruence|].
      apply (lm_pre_soft m r w); [exact Hnp|exact Hpre|exact S2|]. intros Hl. apply (AL Hl).
    + destruct AI as [A1 A2]. split; [exact A1|left; left; exact A2].
  - (* 2 *)
    assert (Hm' : lm_script m rest /\ m <> LProp) by (destruct m; [split; [exact I|discriminate]|split; [inversion Hm; assumption|discriminate]|inversion Hm]).
    destruct Hm' as [Hmr Hnp].
    set (fu := (_ + length (buffer (rsp r)) + 4)%nat).
    assert (Efu : fu = (nb w + length (buffer (rsp r)) + 4)%nat) by reflexivity.
    pose proof (read_all_ok fu [] r w G Wok) as RA.
    assert (Hfu : (rsize r + nb w + 2 <= fu)%nat).
    { pose proof (psize_bound (rsp r) (proj1 (proj1 G))). unfold rsize. lia. }
    specialize (RA Hfu). clearbody fu.
    destruct (read_all maxc fu [] r w) as [[[k acc] r1] w1|o w1].
    + destruct RA as (H1 & S1 & L1). set (w2 := w_ev (w_ev w1 [2; k]) acc).
      assert (H2 : hkeep r w r1 w2).
      { apply hkeep_world with (w' := w1); [exact H1|]. eapply wstep_trans; apply wstep_ev. }
      apply (hpost_cont _ _ _ _ _ _ _ H2). pose proof H2 as (G2 & S2 & Q2 & _).
      apply IH; [exact Hmr|lia|exact G2|exact (ws_ok _ _ S2 Wok)|rewrite Q2; exact Hrole|congruence|].
      apply (lm_pre_soft m r w); [exact Hnp|exact Hpre|exact S2|exact L1].
    + destruct RA as [A1 A2]. split; [exact A1|left; left; exact A2].
  - (* 3 k *)
    assert (Hm' : lm_script m rest /\ m <> LProp) by (destruct m; [split; [exact I|discriminate]|split; [inversion Hm; assumption|discriminate]|inversion Hm]).
    destruct Hm' as [Hmr Hnp].
    pose proof (await_input_io None r w G Wok) as AI.
    pose proof (fun Hl : rlock r = false => await_input_lock (io_fuel w 0) None r w (pgood_lgood _ (proj1 G)) Wok (or_introl Hl)) as AL.
    destruct (await_input maxc (io_fuel w 0) None r w) as [[[[c b]|e] r1] w1|o w1].
    + destruct (ckeep_hkeep _ _ _ _ _ AI) as [H1 S1].
      set (cc := N.min k (len (stream_buffer (rsp r1)))).
      set (r2 := mkR (consume_stream (rsp r1) cc) (rwriteable r1) (rlock r1) (raborted r1)).
      set (w2 := w_ev (w_ev w1 [3; 1; cc]) (stream_buffer (rsp r1))).
      pose proof H1 as (G1 & Sw1 & Q1 & B1 & Z1).
      destruct (consume_stream_views (rsp r1) cc (proj1 (proj1 G1))) as (V1 & V2 & V3 & V4).
      assert (H2 : hkeep r w r2 w2).
      { apply hkeep_world with (w' := w1); [|eapply wstep_trans; apply wstep_ev].
        apply hkeep_trans with (r1 := r1) (w1 := w1); [exact H1|].
        split; [apply (rgood_transfer r1); try assumption; try reflexivity; rewrite V2; apply G1|].
        split; [apply wstep_refl|]. destruct V3 as (K1 & K2 & K3). split; [exact K1|]. split; [exact K3|].
        unfold rsize. subst r2. cbn [rsp]. lia. }
      apply (hpost_cont _ _ _ _ _ _ _ H2). pose proof H2 as (G2 & S2 & Q2 & _).
      apply IH; [exact Hmr|lia|exact G2|exact (ws_ok _ _ S2 Wok)|rewrite Q2; exact Hrole| |].
      * subst r2. cbn [rsp]. destruct V3 as (_ & K2 & _). congruence.
      * apply (lm_pre_free m r w); [exact Hpre|exact S2|]. intros Hl. subst r2. cbn [rlock]. apply (AL Hl).
    + destruct AI as [AI _]. destruct (ckeep_hkeep _ _ _ _ _ AI) as [H1 S1].
      set (w2 := w_ev (w_ev w1 [3; 0; e]) []).
      assert (H2 : hkeep r w r1 w2).
      { apply hkeep_world with (w' := w1); [exact H1|]. eapply wstep_trans; apply wstep_ev. }
      apply (hpost_cont _ _ _ _ _ _ _ H2). pose proof H2 as (G2 & S2 & Q2 & _).
      apply IH; [exact Hmr|lia|exact G2|exact (ws_ok _ _ S2 Wok)|rewrite Q2; exact Hrole|congruence|].
      apply (lm_pre_soft m r w); [exact Hnp|exact Hpre|exact S2|]. intros Hl. apply (AL Hl).
    + destruct AI as [A1 A2]. split; [exact A1|left; left; exact A2].
  - (* 4 s *)
    assert (Hmr : lm_script m rest) by (destruct m; [exact I|inversion Hm; assumption|inversion Hm; assumption]).
    assert (BAD : strict = false -> hpost m strict r w (Halt (OPanic 70) w)).
    { intros Es. split; [apply wstep_refl|left; right; split; [exact Es|reflexivity]]. }
    assert (GOOD : forall p', set_stream (rsp r) (Some s) = SetOk p' ->
              hpost m strict r w (run_handler maxc f rest (mkR p' (rwriteable r) (rlock r) (raborted r)) (w_ev w [4; stream_code (stream p')]))).
    { intros p' E. pose proof (set_stream_ok_accepted _ _ _ E) as A. rewrite Hrole, Hcur in A.
      destruct (set_stream_views (rsp r) (Some s) p' (proj1 G) (accepts_input _ _ _ A) E) as (V1 & V2 & V3 & V4 & V5 & _).
      set (r2 := mkR p' (rwriteable r) (rlock r) (raborted r)).
      assert (G2 : rgood r2).
      { split; [exact V1|]. pose proof (proj2 G) as W. unfold wr_inv, wr_inv_at in *. subst r2. cbn [rsp rwriteable].
        rewrite V2, V3, Hrole. rewrite Hrole, Hcur in W. destruct (accepts_some_inv _ _ _ A) as [I1 I2].
        destruct (rwriteable r); [apply I1; exact W|]. destruct W as (x & Ex & Hx). exists s. split; [reflexivity|].
        apply (I2 x Ex Hx). }
      assert (H2 : hkeep r w r2 (w_ev w [4; stream_code (stream p')])).
      { apply hkeep_world with (w' := w); [|apply wstep_ev]. split; [exact G2|]. split; [apply wstep_refl|].
        split; [exact V2|]. split; [exact V4|]. unfold rsize. subst r2. cbn [rsp]. lia. }
      apply (hpost_cont _ _ _ _ _ _ _ H2). pose proof H2 as (_ & S2 & _).
      apply IH; [exact Hmr|lia|exact G2|exact (ws_ok _ _ S2 Wok)|subst r2; cbn [rsp]; rewrite V2; exact Hrole|exact V3|].
      apply (lm_pre_free m r w); [exact Hpre|exact S2|intros Hl; exact Hl]. }
    destruct strict.
    + specialize (Hacc eq_refl). rewrite <- Hrole, <- Hcur in Hacc.
      destruct (set_stream_accepted _ _ Hacc) as (p' & E). rewrite E. apply GOOD. exact E.
    + destruct (set_stream (rsp r) (Some s)) as [p'| |] eqn:E; [apply GOOD; reflexivity|apply BAD; reflexivity|apply BAD; reflexivity].
  - (* 5 *)
    assert (Hm' : lm_script m rest /\ m <> LProp) by (destruct m; [split; [exact I|discriminate]|split; [inversion Hm; assumption|discriminate]|inversion Hm]).
    destruct Hm' as [Hmr Hnp].
    pose proof (do_writeable_ok r w G Wok) as DW.
    destruct (do_writeable maxc r w) as [[e r1] w1|o w1].
    + destruct DW as (H1 & S1 & _ & L1).
      set (w2 := w_ev w1 [5; match e with None => 0 | Some k => k end; if rwriteable r1 then 1 else 0; stream_code (stream (rsp r1))]).
      assert (H2 : hkeep r w r1 w2) by (apply hkeep_world with (w' := w1); [exact H1|apply wstep_ev]).
      apply (hpost_cont _ _ _ _ _ _ _ H2). pose proof H2 as (G2 & S2 & Q2 & _).
      apply IH; [exact Hmr|lia|exact G2|exact (ws_ok _ _ S2 Wok)|rewrite Q2; exact Hrole|rewrite S1, Hrole; reflexivity|].
      apply (lm_pre_soft m r w); [exact Hnp|exact Hpre|exact S2|]. intros Hl. specialize (L1 Hl).
      destruct e; [exact L1|left; exact L1].
    + destruct DW as [A1 A2]. split; [exact A1|left; left; exact A2].
  - (* 6 s n data *)
    assert (Hmr : lm_script m (drop n rest)) by (destruct m; [exact I|inversion Hm; assumption|inversion Hm; assumption]).
    assert (Hlen : (length (drop n rest) <= length rest)%nat).
    { pose proof (len_drop n rest) as L. unfold len in L. lia. }
    assert (FREE : rlock r = true -> m = LAny).
    { intros Hl. destruct m; [reflexivity|destruct Hpre as [Hp _]; congruence|cbn [lm_pre] in Hpre; congruence]. }
    destruct (negb (rwriteable r)).
    + assert (H2 : hkeep r w r (w_ev w [6; 99])) by (apply hkeep_world with (w' := w); [apply hkeep_refl; exact G|apply wstep_ev]).
      apply (hpost_cont _ _ _ _ _ _ _ H2). pose proof H2 as (_ & S2 & _).
      apply IH; [exact Hmr|lia|exact G|exact (ws_ok _ _ S2 Wok)|exact Hrole|exact Hcur|].
      apply (lm_pre_free m r w); [exact Hpre|exact S2|intros Hl; exact Hl].
    + destruct (rlock r && negb (len (take n rest) =? 0)) eqn:Elk.
      { (* the writer finds Request.lock held *)
        apply andb_true_iff in Elk. split; [apply wstep_refl|]. right. split; [apply FREE; apply Elk|reflexivity]. }
      pose proof (writer_write_all_ok (N.to_nat (n / 65535) + 2) s (r_id (sreq (rsp r))) (take n rest) w ltac:(lia)
                    ltac:(rewrite len_take; lia)) as WW.
      destruct (writer_write_all (N.to_nat (n / 65535) + 2) s (r_id (sreq (rsp r))) (take n rest) w) as [[k|] w1|o w1];
        [| |contradiction].
      * split; [|exact I]. apply hkeep_world with (w' := w); [apply hkeep_refl; exact G|].
        eapply wstep_trans; [exact WW|apply wstep_ev].
      * assert (H2 : hkeep r w r (w_ev w1 [6; 0])).
        { apply hkeep_world with (w' := w); [apply hkeep_refl; exact G|]. eapply wstep_trans; [exact WW|apply wstep_ev]. }
        apply (hpost_cont _ _ _ _ _ _ _ H2). pose proof H2 as (_ & S2 & _).
        apply IH; [exact Hmr|lia|exact G|exact (ws_ok _ _ S2 Wok)|exact Hrole|exact Hcur|].
        apply (lm_pre_free m r w); [exact Hpre|exact S2|intros Hl; exact Hl].
  - (* 7 s *)
    assert (Hmr : lm_script m rest) by (destruct m; [exact I|inversion Hm; assumption|inversion Hm; assumption]).
    assert (FREE : rlock r = true -> m = LAny).
    { intros Hl. destruct m; [reflexivity|destruct Hpre as [Hp _]; congruence|cbn [lm_pre] in Hpre; congruence]. }
    destruct (rwriteable r).
    + destruct (rlock r) eqn:Elk.
      { split; [apply wstep_refl|]. right. split; [apply FREE; reflexivity|reflexivity]. }
      assert (H2 : hkeep r w r (w_ev w [7; 0])) by (apply hkeep_world with (w' := w); [apply hkeep_refl; exact G|apply wstep_ev]).
      apply (hpost_cont _ _ _ _ _ _ _ H2). pose proof H2 as (_ & S2 & _).
      apply IH; [exact Hmr|lia|exact G|exact (ws_ok _ _ S2 Wok)|exact Hrole|exact Hcur|].
      apply (lm_pre_free m r w); [exact Hpre|exact S2|intros Hl; exact Elk].
    + assert (H2 : hkeep r w r (w_ev w [7; 99])) by (apply hkeep_world with (w' := w); [apply hkeep_refl; exact G|apply wstep_ev]).
      apply (hpost_cont _ _ _ _ _ _ _ H2). pose proof H2 as (_ & S2 & _).
      apply IH; [exact Hmr|lia|exact G|exact (ws_ok _ _ S2 Wok)|exact Hrole|exact Hcur|].
      apply (lm_pre_free m r w); [exact Hpre|exact S2|intros Hl; exact Hl].
  - (* 8 d c *)
    split; [apply hkeep_world with (w' := w); [apply hkeep_refl; exact G|apply wstep_ev]|exact Hd].
  - (* 9 k *)
    split; [apply hkeep_world with (w' := w); [apply hkeep_refl; exact G|apply wstep_ev]|exact I].
  - (* 10 n *)
    assert (Hmr : lm_script m rest) by (destruct m; [exact I|inversion Hm; assumption|inversion Hm; assumption]).
    pose proof (await_input_io (Some n) r w G Wok) as AI.
    pose proof (fun Hl : rlock r = false => await_input_lock (io_fuel w 0) (Some n) r w (pgood_lgood _ (proj1 G)) Wok (or_introl Hl)) as AL.
    destruct (await_input maxc (io_fuel w 0) (Some n) r w) as [[[[c b]|k] r1] w1|o w1].
    + destruct (ckeep_hkeep _ _ _ _ _ AI) as [H1 S1].
      set (w2 := w_ev (w_ev w1 [1; 1; c]) b).
      assert (H2 : hkeep r w r1 w2).
      { apply hkeep_world with (w' := w1); [exact H1|]. eapply wstep_trans; apply wstep_ev. }
      apply (hpost_cont _ _ _ _ _ _ _ H2). pose proof H2 as (G2 & S2 & Q2 & _).
      apply IH; [exact Hmr|lia|exact G2|exact (ws_ok _ _ S2 Wok)|rewrite Q2; exact Hrole|congruence|].
      apply (lm_pre_free m r w); [exact Hpre|exact S2|]. intros Hl. apply (AL Hl).
    + destruct AI as [AI _]. destruct (ckeep_hkeep _ _ _ _ _ AI) as [H1 S1].
      split; [|exact I]. apply hkeep_world with (w' := w1); [exact H1|]. eapply wstep_trans; apply wstep_ev.
    + destruct AI as [A1 A2]. split; [exact A1|left; left; exact A2].
  - (* 11 n: one poll, not awaited; whatever the result, the script continues — possibly with the lock held *)
    assert (Hm' : m = LAny) by (destruct m; [reflexivity|inversion Hm|inversion Hm]). subst m.
    pose proof (poll_input_ok (io_fuel w (len (buffer (rsp r)))) (Some n) r w G Wok ltac:(rewrite io_fuel_eq; lia)) as PI.
    assert (T : forall r1 w1 d e b, ckeep r w 0 r1 w1 d ->
              hpost LAny strict r w (run_handler maxc f rest r1 (w_ev (w_ev w1 e) b))).
    { intros r1 w1 d e b C. destruct (ckeep_hkeep _ _ _ _ _ C) as [H1 S1].
      assert (H2 : hkeep r w r1 (w_ev (w_ev w1 e) b)).
      { apply hkeep_world with (w' := w1); [exact H1|]. eapply wstep_trans; apply wstep_ev. }
      apply (hpost_cont _ _ _ _ _ _ _ H2). pose proof H2 as (G2 & S2 & Q2 & _).
      apply IH; [exact I|lia|exact G2|exact (ws_ok _ _ S2 Wok)|rewrite Q2; exact Hrole|congruence|exact I]. }
    destruct (poll_input maxc (io_fuel w (len (buffer (rsp r)))) (Some n) r w) as [[[[[c b]|k]| |] r1] w1].
    + eapply T. exact PI.
    + eapply T. exact (proj1 PI).
    + eapply T. exact (proj1 PI).
    + eapply T. exact (proj1 PI).
Qed.

(* ---- the request parser makes progress: from the state Header it cannot finish without consuming ---- *)
Lemma header_break d r s' o : header_drive d = (Break r s', o) -> s' = Header \/ exists e, s' = Fatal e.
Proof.
  rewrite header_drive_eq. unfold try_head.
  destruct (len d <? HEADER_LEN); [intros E; inversion E; left; reflexivity|].
  destruct (hdr_decode (take HEADER_LEN d)) as [t id cl pl|v|t].
  - unfold header_body. destruct (t =? RT_BeginRequest).
    + destruct (negb (BeginRequest_LEN =? cl)); [intros E; inversion E; right; eexists; reflexivity|].
      destruct (len d <? 16); [intros E; inversion E; left; reflexivity|].
      destruct (begin_decode (slice 8 16 d)) as [x [[role flags]|]].
      * destruct (id =? 0); intros E; inversion E. right; eexists; reflexivity.
      * intros E; inversion E.
    + destruct ((t =? RT_GetValues) && hdr_is_management t id); intros E; inversion E.
  - intros E; inversion E. right; eexists; reflexivity.
  - intros E; inversion E.
Qed.

Lemma parse_facts p new : parser_ok p -> bytes_ok new -> len new <= input_space p ->
  exists p' d o, parse norm maxc p new = POk p' d o /\ parser_ok p' /\ d = is_final (st p') /\
    len (held p') <= len (held p) + len new /\
    (st p = Header -> (st p' = Header \/ exists e, st p' = Fatal e) \/ len (held p') < len (held p) + len new).
Proof.
  intros Hp Hn Hsp.
  destruct (F_parse_total norm maxc p new Hp Hn Hsp) as (p' & d & o & E & Hp' & _ & _ & _).
  destruct (parse_spec norm maxc (F_S1 norm) p new Hp Hn Hsp) as (rest & s' & o' & Ed & G1 & G2 & G3 & G4 & G5 & _ & Hparse).
  exists p', d, o. split; [exact E|]. split; [exact Hp'|]. rewrite E in Hparse.
  pose proof (suffix_len _ _ G4) as Hl. rewrite len_app in Hl.
  assert (C : st p = Header -> (s' = Header \/ exists e, s' = Fatal e) \/ len rest < len (held p) + len new).
  { intros Eh. rewrite Eh in Ed. unfold drive_all in Ed.
    set (data := held p ++ new) in *.
    assert (Hd : bytes_ok data) by (subst data; apply bytes_ok_app; split; [apply Hp|exact Hn]).
    assert (Hsz : len data <= cap p).
    { subst data. rewrite len_app. unfold input_space in Hsp. destruct Hp as (_ & _ & _ & Hc & _). lia. }
    assert (Hcap : cap p < SIZE_LIMIT) by apply Hp.
    rewrite <- len_app. fold data.
    destruct (drive_fuel_S data) as [f Ef]. rewrite Ef, drive_S in Ed. cbn [drive1] in Ed.
    pose proof (header_post data Hd) as HP.
    destruct (header_drive data) as [[r s1|r s1|n] oo] eqn:Eh1; cbn [ReqDrive.head_post] in HP.
    - inversion Ed; subst. left. eapply header_break. exact Eh1.
    - destruct HP as (P1 & P2 & P3 & P4). destruct r as [|x r'].
      + inversion Ed; subst. right. rewrite len_nil in *. lia.
      + right. pose proof (suffix_len _ _ P3) as Hr.
        destruct (drive_enough norm maxc (F_S1 norm) f s1 (x :: r') ([] ++ oo) (proj1 P1) (suffix_ok _ _ P3 Hd)
                    ltac:(lia) ltac:(pose proof (kappa_le1 s1); unfold drive_fuel in Ef; unfold len in *; lia))
          as (r2 & s2 & o2 & E2 & _ & _ & S2 & _).
        rewrite E2 in Ed. inversion Ed; subst. pose proof (suffix_len _ _ S2). lia.
    - contradiction. }
  destruct (negb (is_final s') && (len rest =? cap p)) eqn:Ec; inversion Hparse; subst; cbn [held st].
  - split; [reflexivity|]. split; [lia|]. intros _. left. right. eexists. reflexivity.
  - split; [reflexivity|]. split; [lia|exact C].
Qed.

Definition preq_post (p : parser) (new : bytes) (w : world) (x : res (sp + N)) : Prop :=
  match x with
  | Ok (inl s) w' =>
    pgood s /\ wstep w w' /\ stream_buffer s = [] /\ stream s = next_input_stream (r_role (sreq s)) None /\
    (length (raw_bytes s) + nb w' <= length (held p) + length new + nb w)%nat /\
    (st p = Header -> (length (raw_bytes s) + nb w' < length (held p) + length new + nb w)%nat)
  | Ok (inr _) w' => wstep w w'
  | Halt o w' => wstep w w' /\ okhalt w o
  end.

Lemma parse_request_ok : forall fuel p new w, parser_ok p -> world_ok w -> bytes_ok new ->
  len new <= input_space p -> (nb w + 1 <= fuel)%nat ->
  preq_post p new w (parse_request norm maxc fuel p new w).
Proof.
  induction fuel as [|f IH]; intros p new w Hp Wok Hn Hsp Hf; [lia|]. cbn [parse_request].
  destruct (parse_facts p new Hp Hn Hsp) as (p' & d & o & E & Hp' & Hd & Hl & Hprog). rewrite E.
  pose proof (await_write_all_io true o w (len o)) as W1.
  destruct (await_write_all (io_fuel w (len o)) true o w) as [[k|] w1|o1 w1].
  - exact W1.
  - destruct d.
    + destruct (st p') as [| | | | | | |rq|e] eqn:Est; try (unfold into_stream_parser; rewrite Est; exact W1).
      destruct (into_stream_parser_init p' rq Est (proj1 (proj2 (proj2 (proj2 Hp'))))) as (p0 & E0 & R0 & A0).
      rewrite E0. cbn [preq_post].
      pose proof (f_equal a_parsed A0) as X1. pose proof (f_equal a_raw A0) as X2. pose proof (f_equal a_B A0) as X3.
      pose proof (f_equal a_req A0) as X4. pose proof (f_equal a_stream A0) as X5.
      cbn [abs a_parsed a_raw a_B a_req a_stream] in X1, X2, X3, X4, X5.
      destruct Hp' as (Q1 & Q2 & Q3 & Q4 & Q5).
      split; [|split; [exact W1|split; [exact X1|split; [rewrite X4; exact X5|]]]].
      * split; [exact R0|]. split; [|split; [rewrite X2; exact Q3|rewrite X3; exact Q5]].
        unfold stream_ok. rewrite X5. destruct (next_input_stream (r_role rq) None) as [e|] eqn:En; [|exact I].
        eapply next_is_input. exact En.
      * rewrite X2. pose proof (ws_b _ _ W1). split; [unfold len in *; lia|].
        intros Eh. destruct (Hprog Eh) as [[C|[e C]]|C]; [congruence|congruence|unfold len in *; lia].
    + pose proof (await_read_io true (input_space p') w1 0) as AR.
      destruct (await_read (io_fuel w1 0) true (input_space p') w1) as [[b|k] w2|o2 w2].
      * destruct AR as (S2 & Hb & Hlb & Hnb). destruct b as [|x b']; [eapply wstep_trans; eassumption|].
        pose proof (ws_ok _ _ W1 Wok) as Wok1.
        specialize (IH p' (x :: b') w2 Hp' (ws_ok _ _ S2 Wok1) (Hb Wok1) Hlb
                      ltac:(pose proof (ws_b _ _ W1); cbn [length] in Hnb; lia)).
        unfold preq_post in *. destruct (parse_request norm maxc f p' (x :: b') w2) as [[s|k] w3|o3 w3].
        -- destruct IH as (I1 & I2 & I3 & I4 & I5 & I6).
           split; [exact I1|]. split; [eapply wstep_trans; [exact W1|]; eapply wstep_trans; eassumption|].
           split; [exact I3|]. split; [exact I4|]. pose proof (ws_b _ _ W1).
           split; [unfold len in *; lia|]. intros Eh.
           destruct (Hprog Eh) as [[C|[e C]]|C].
           ++ specialize (I6 C). unfold len in *. lia.
           ++ rewrite C in Hd. discriminate Hd.
           ++ unfold len in *. lia.
        -- eapply wstep_trans; [exact W1|]. eapply wstep_trans; eassumption.
        -- destruct IH as [I1 I2]. assert (S3 : wstep w w2) by (eapply wstep_trans; eassumption).
           split; [eapply wstep_trans; eassumption|eapply okhalt_step; eassumption].
      * destruct AR as [S2 _]. eapply wstep_trans; eassumption.
      * destruct AR as [S2 O2]. split; [eapply wstep_trans; eassumption|eapply okhalt_step; eassumption].
  - destruct W1 as [W1 ->]. split; [exact W1|left; reflexivity].
Qed.

(* ---- Token::run ---- *)
Lemma wstep_fold_ev (env : list (bytes * bytes)) : forall w,
  wstep w (fold_left (fun w p => w_ev (w_ev w (fst p)) (snd p)) env w).
Proof.
  induction env as [|e t IH]; intros w; [apply wstep_refl|]. cbn [fold_left].
  eapply wstep_trans; [|apply IH]. eapply wstep_trans; apply wstep_ev.
Qed.

Lemma Forall_last {A} (P : A -> Prop) l d : Forall P l -> P d -> P (last l d).
Proof.
  induction l as [|x t IH]; intros H Hd; [exact Hd|]. inversion H; subst. cbn [last].
  destruct t; [assumption|]. apply IH; assumption.
Qed.

Lemma Forall_nth_default {A} (P : A -> Prop) l d n : Forall P l -> P d -> P (nth n l d).
Proof.
  intros H Hd. destruct (nth_in_or_default n l d) as [Hin| ->]; [|exact Hd].
  rewrite Forall_forall in H. apply H. exact Hin.
Qed.

(* every script is well-formed for whatever role the client asks *)
Definition scripts_ok (strict : bool) (scripts : list (list N)) : Prop :=
  Forall (fun s => forall role, script_ok strict role (next_input_stream role None) s) scripts.

Lemma run_loop_ok m strict scripts : scripts_ok strict scripts -> Forall (lm_script m) scripts ->
  forall fuel p served w, parser_ok p -> st p = Header -> world_ok w -> (length (held p) + nb w + 2 <= fuel)%nat ->
  (m = LAwait -> no_fault (wscript w)) ->
  wstep w (snd (run_loop norm maxc fuel p scripts served w)) /\
  okhaltm m strict w (fst (run_loop norm maxc fuel p scripts served w)).
Proof.
  intros Hscripts Hmodes. induction fuel as [|f IH]; intros p served w Hp Eh Wok Hf Hnf; [lia|]. cbn [run_loop].
  assert (RET : forall w', wstep w w' -> wstep w (snd (ORet, w')) /\ okhaltm m strict w (fst (ORet, w'))).
  { intros w' S. cbn [fst snd]. split; [exact S|left; left; left; reflexivity]. }
  destruct (stopped w); [apply RET; apply wstep_refl|].
  pose proof (parse_request_ok (io_fuel w 0) p [] w Hp Wok ltac:(apply Forall_nil) ltac:(rewrite len_nil; lia)
                ltac:(rewrite io_fuel_eq; lia)) as PR.
  unfold preq_post in PR.
  destruct (parse_request norm maxc (io_fuel w 0) p [] w) as [[s0|k] w1|o w1].
  2:{ apply RET. exact PR. }
  2:{ cbn [fst snd]. destruct PR as [P1 P2]. split; [exact P1|left; left; exact P2]. }
  destruct PR as (G0 & S1 & B0 & St0 & _ & Hlt). specialize (Hlt Eh). cbn [length] in Hlt.
  set (role := r_role (sreq s0)) in *.
  set (r0 := mkR s0 (len (role_input_streams role) <=? 1) false false).
  assert (GR0 : rgood r0).
  { split; [exact G0|]. unfold wr_inv. subst r0. cbn [rsp rwriteable]. fold role. rewrite St0. apply wr_inv_init. }
  set (w2 := fold_left _ _ _).
  assert (S2 : wstep w1 w2).
  { subst w2. eapply wstep_trans; [|apply wstep_fold_ev]. eapply wstep_trans; apply wstep_ev. }
  set (script := nth served scripts (last scripts [])).
  assert (Hscript : script_ok strict role (next_input_stream role None) script).
  { subst script. apply (Forall_nth_default (fun s => forall role, script_ok strict role (next_input_stream role None) s));
      [exact Hscripts|]. apply Forall_last; [exact Hscripts|]. intros role'. constructor. }
  assert (Hmscript : lm_script m script).
  { subst script. apply Forall_nth_default; [exact Hmodes|]. apply Forall_last; [exact Hmodes|]. apply lm_script_nil. }
  assert (S02 : wstep w w2) by (eapply wstep_trans; eassumption).
  assert (Hpre0 : lm_pre m r0 w2).
  { destruct m; cbn [lm_pre]; [exact I|split; [reflexivity|apply (ws_nf _ _ S02), Hnf; reflexivity]|reflexivity]. }
  pose proof (run_handler_ok m strict role _ script Hscript Hmscript (length script + 2) r0 w2 ltac:(lia) GR0
                (ws_ok _ _ S2 (ws_ok _ _ S1 Wok)) eq_refl St0 Hpre0) as RH.
  unfold hpost in RH.
  destruct (run_handler maxc (length script + 2) script r0 w2) as [[st r1] w3|o w3].
  2:{ cbn [fst snd]. destruct RH as [R1 R2]. split; [eapply wstep_trans; eassumption|eapply okhaltm_step; eassumption]. }
  destruct RH as ((G1 & S3 & Q1 & Q2 & Z1) & Hst).
  assert (S03 : wstep w w3) by (eapply wstep_trans; eassumption).
  assert (CLOSE : forall d c, In d EXITSTATUS_VALUES ->
    wstep w (snd (match do_close maxc r1 d c w3 with
                  | Halt o w4 => (o, w4)
                  | Ok (inl rp) w4 => run_loop norm maxc f rp scripts (S served) w4
                  | Ok (inr _) w4 => (ORet, w4)
                  end)) /\
    okhaltm m strict w (fst (match do_close maxc r1 d c w3 with
                  | Halt o w4 => (o, w4)
                  | Ok (inl rp) w4 => run_loop norm maxc f rp scripts (S served) w4
                  | Ok (inr _) w4 => (ORet, w4)
                  end))).
  { intros d c Hd. pose proof (do_close_ok r1 d c w3 G1 (ws_ok _ _ S03 Wok) Hd) as DC. unfold close_post in DC.
    destruct (do_close maxc r1 d c w3) as [[rp|k] w4|o w4].
    - destruct DC as (C1 & C2 & C3 & C4).
      assert (Hf' : (length (held rp) + nb w4 + 2 <= f)%nat).
      { pose proof (ws_b _ _ S2). unfold rsize, psize in *. subst r0. cbn [rsp] in *. rewrite B0 in Z1. cbn [length] in Z1. lia. }
      assert (S04 : wstep w w4) by (eapply wstep_trans; eassumption).
      destruct (IH rp (S served) w4 C1 C2 (ws_ok _ _ C3 (ws_ok _ _ S03 Wok)) Hf'
                  ltac:(intros Em; apply (ws_nf _ _ S04), Hnf; exact Em)) as [I1 I2].
      split; [eapply wstep_trans; eassumption|eapply okhaltm_step; eassumption].
    - apply RET. eapply wstep_trans; eassumption.
    - cbn [fst snd]. destruct DC as [D1 D2]. split; [eapply wstep_trans; eassumption|].
      left. left. eapply okhalt_step; eassumption. }
  destruct st as [[d c]|k].
  - apply CLOSE. exact Hst.
  - destruct ((k =? EK_Aborted) && raborted r1); [apply CLOSE; apply exit_complete_in|apply RET; exact S03].
Qed.

Lemma Forall_any (scripts : list (list N)) : Forall (lm_script LAny) scripts.
Proof. apply Forall_forall. intros x _. exact I. Qed.

(* ---- main theorems ---- *)
(* Layer (i), C12/C08: for every read script, write script (faults included), segment table and gating and every
   well-formed handler script the connection task ends by returning or by waiting — for the client, or (known findings
   F5/F6) for its own output lock: it reaches no panic site and does not spin (no loop bound of the model is used up) *)
Theorem run_loop_total scripts B w0 :
  world_ok w0 -> scripts_ok true scripts -> B < SIZE_LIMIT - 8 ->
  exists w, run_loop norm maxc (nb w0 + 4) (new_parser B) scripts 0 w0 = (ORet, w) \/
            run_loop norm maxc (nb w0 + 4) (new_parser B) scripts 0 w0 = (ODeadlock, w).
Proof.
  intros Wok Hs HB.
  destruct (run_loop_ok LAny true scripts Hs (Forall_any scripts) (nb w0 + 4) (new_parser B) 0%nat w0 (new_parser_ok B HB) eq_refl Wok
              ltac:(cbn [new_parser held length]; lia) ltac:(discriminate)) as [_ O].
  destruct (run_loop norm maxc (nb w0 + 4) (new_parser B) scripts 0 w0) as [o w]. exists w. cbn [fst] in O.
  destruct O as [[[->|[-> NU]]|[X _]]|[_ ->]]; [left; reflexivity|right; reflexivity|discriminate X|right; reflexivity].
Qed.

(* without the stream-order requirement on scripts: the only possible panic is the handler's own unwrap of a
   rejected set_stream (site 70) *)
Theorem run_loop_total_lax scripts B w0 :
  world_ok w0 -> scripts_ok false scripts -> B < SIZE_LIMIT - 8 ->
  exists w, run_loop norm maxc (nb w0 + 4) (new_parser B) scripts 0 w0 = (ORet, w) \/
            run_loop norm maxc (nb w0 + 4) (new_parser B) scripts 0 w0 = (ODeadlock, w) \/
            run_loop norm maxc (nb w0 + 4) (new_parser B) scripts 0 w0 = (OPanic 70, w).
Proof.
  intros Wok Hs HB.
  destruct (run_loop_ok LAny false scripts Hs (Forall_any scripts) (nb w0 + 4) (new_parser B) 0%nat w0 (new_parser_ok B HB) eq_refl Wok
              ltac:(cbn [new_parser held length]; lia) ltac:(discriminate)) as [_ O].
  destruct (run_loop norm maxc (nb w0 + 4) (new_parser B) scripts 0 w0) as [o w]. exists w. cbn [fst] in O.
  destruct O as [[[->|[-> NU]]|[_ ->]]|[_ ->]];
    [left; reflexivity|right; left; reflexivity|right; right; reflexivity|right; left; reflexivity].
Qed.

(* Layer (ii): when the handlers cannot reach a StreamWriter op with Request.lock held, the task waits only for a
   client that waits for it: ODeadlock implies that the client is gated. *)
Lemma run_loop_waits m strict scripts B w0 :
  m <> LAny -> world_ok w0 -> scripts_ok strict scripts -> Forall (lm_script m) scripts -> B < SIZE_LIMIT - 8 ->
  (m = LAwait -> no_fault (wscript w0)) ->
  exists w, run_loop norm maxc (nb w0 + 4) (new_parser B) scripts 0 w0 = (ORet, w) \/
            (run_loop norm maxc (nb w0 + 4) (new_parser B) scripts 0 w0 = (ODeadlock, w) /\ ~ ungated w0) \/
            (strict = false /\ run_loop norm maxc (nb w0 + 4) (new_parser B) scripts 0 w0 = (OPanic 70, w)).
Proof.
  intros Hm Wok Hs Hms HB Hnf.
  destruct (run_loop_ok m strict scripts Hs Hms (nb w0 + 4) (new_parser B) 0%nat w0 (new_parser_ok B HB) eq_refl Wok
              ltac:(cbn [new_parser held length]; lia) Hnf) as [_ O].
  destruct (run_loop norm maxc (nb w0 + 4) (new_parser B) scripts 0 w0) as [o w]. exists w. cbn [fst] in O.
  destruct O as [[[->|[-> NU]]|[Es ->]]|[X _]];
    [left; reflexivity|right; left; split; [reflexivity|exact NU]|right; right; split; [exact Es|reflexivity]|contradiction].
Qed.

(* (ii-a) the transport has no write fault (no zero-length write, no write error) and the handlers await the reads
   they start: every awaited operation returns with the lock released *)
Theorem run_loop_waits_fault_free scripts B w0 :
  world_ok w0 -> scripts_ok true scripts -> Forall no_abandoned_read scripts -> no_fault (wscript w0) -> B < SIZE_LIMIT - 8 ->
  exists w, run_loop norm maxc (nb w0 + 4) (new_parser B) scripts 0 w0 = (ORet, w) \/
            (run_loop norm maxc (nb w0 + 4) (new_parser B) scripts 0 w0 = (ODeadlock, w) /\ ~ ungated w0).
Proof.
  intros Wok Hs Hna Hnf HB.
  destruct (run_loop_waits LAwait true scripts B w0 ltac:(discriminate) Wok Hs Hna HB (fun _ => Hnf)) as (w & [E|[E|[E _]]]);
    exists w; [left; exact E|right; exact E|discriminate E].
Qed.

Theorem run_loop_waits_fault_free_lax scripts B w0 :
  world_ok w0 -> scripts_ok false scripts -> Forall no_abandoned_read scripts -> no_fault (wscript w0) -> B < SIZE_LIMIT - 8 ->
  exists w, run_loop norm maxc (nb w0 + 4) (new_parser B) scripts 0 w0 = (ORet, w) \/
            (run_loop norm maxc (nb w0 + 4) (new_parser B) scripts 0 w0 = (ODeadlock, w) /\ ~ ungated w0) \/
            run_loop norm maxc (nb w0 + 4) (new_parser B) scripts 0 w0 = (OPanic 70, w).
Proof.
  intros Wok Hs Hna Hnf HB.
  destruct (run_loop_waits LAwait false scripts B w0 ltac:(discriminate) Wok Hs Hna HB (fun _ => Hnf)) as (w & [E|[E|[_ E]]]);
    exists w; [left; exact E|right; left; exact E|right; right; exact E].
Qed.

(* C12: without gating (all bytes available, then EOF) the connection task then always returns, wherever the
   transport EOF / read error / spurious wake-ups / partial writes occur *)
Theorem run_loop_terminates_fault_free scripts B w0 :
  world_ok w0 -> scripts_ok true scripts -> Forall no_abandoned_read scripts -> no_fault (wscript w0) -> B < SIZE_LIMIT - 8 ->
  ungated w0 ->
  exists w, run_loop norm maxc (nb w0 + 4) (new_parser B) scripts 0 w0 = (ORet, w).
Proof.
  intros Wok Hs Hna Hnf HB U.
  destruct (run_loop_waits_fault_free scripts B w0 Wok Hs Hna Hnf HB) as (w & [E|[_ NU]]); [exists w; exact E|contradiction].
Qed.

(* (ii-b) the handlers propagate I/O errors: a failed reply flush ends the handler (op 10 returns the error), so no
   StreamWriter op runs with the lock held — for ANY write script, faults included *)
Theorem run_loop_waits_propagating scripts B w0 :
  world_ok w0 -> scripts_ok true scripts -> Forall prop_script scripts -> B < SIZE_LIMIT - 8 ->
  exists w, run_loop norm maxc (nb w0 + 4) (new_parser B) scripts 0 w0 = (ORet, w) \/
            (run_loop norm maxc (nb w0 + 4) (new_parser B) scripts 0 w0 = (ODeadlock, w) /\ ~ ungated w0).
Proof.
  intros Wok Hs Hps HB.
  destruct (run_loop_waits LProp true scripts B w0 ltac:(discriminate) Wok Hs Hps HB ltac:(discriminate)) as (w & [E|[E|[E _]]]);
    exists w; [left; exact E|right; exact E|discriminate E].
Qed.

Theorem run_loop_waits_propagating_lax scripts B w0 :
  world_ok w0 -> scripts_ok false scripts -> Forall prop_script scripts -> B < SIZE_LIMIT - 8 ->
  exists w, run_loop norm maxc (nb w0 + 4) (new_parser B) scripts 0 w0 = (ORet, w) \/
            (run_loop norm maxc (nb w0 + 4) (new_parser B) scripts 0 w0 = (ODeadlock, w) /\ ~ ungated w0) \/
            run_loop norm maxc (nb w0 + 4) (new_parser B) scripts 0 w0 = (OPanic 70, w).
Proof.
  intros Wok Hs Hps HB.
  destruct (run_loop_waits LProp false scripts B w0 ltac:(discriminate) Wok Hs Hps HB ltac:(discriminate)) as (w & [E|[E|[_ E]]]);
    exists w; [left; exact E|right; left; exact E|right; right; exact E].
Qed.

Theorem run_loop_terminates_propagating scripts B w0 :
  world_ok w0 -> scripts_ok true scripts -> Forall prop_script scripts -> B < SIZE_LIMIT - 8 -> ungated w0 ->
  exists w, run_loop norm maxc (nb w0 + 4) (new_parser B) scripts 0 w0 = (ORet, w).
Proof.
  intros Wok Hs Hps HB U.
  destruct (run_loop_waits_propagating scripts B w0 Wok Hs Hps HB) as (w & [E|[_ NU]]); [exists w; exact E|contradiction].
Qed.
End ConnTotal.

(* the invariant is established by into_stream_parser of a finished request parser (Token::parse_request) *)
Lemma into_stream_parser_rgood rp rq : parser_ok rp -> st rp = Done rq ->
  exists p0, into_stream_parser rp = inl p0 /\ pgood p0 /\ stream_buffer p0 = [] /\ raw_bytes p0 = held rp /\
             sreq p0 = rq /\ stream p0 = next_input_stream (r_role rq) None /\
             rgood (mkR p0 (len (role_input_streams (r_role rq)) <=? 1) false false).
Proof.
  intros (Q1 & Q2 & Q3 & Q4 & Q5) Est.
  destruct (into_stream_parser_init rp rq Est Q4) as (p0 & E0 & R0 & A0). exists p0. split; [exact E0|].
  pose proof (f_equal a_parsed A0) as X1. pose proof (f_equal a_raw A0) as X2. pose proof (f_equal a_B A0) as X3.
  pose proof (f_equal a_req A0) as X4. pose proof (f_equal a_stream A0) as X5.
  cbn [abs a_parsed a_raw a_B a_req a_stream] in X1, X2, X3, X4, X5.
  assert (G : pgood p0).
  { split; [exact R0|]. split; [|split; [rewrite X2; exact Q3|rewrite X3; exact Q5]].
    unfold stream_ok. rewrite X5. destruct (next_input_stream (r_role rq) None) as [e|] eqn:En; [|exact I].
    eapply next_is_input. exact En. }
  split; [exact G|]. split; [exact X1|]. split; [exact X2|]. split; [exact X4|]. split; [exact X5|].
  split; [exact G|]. unfold wr_inv. cbn [rsp rwriteable]. rewrite X4, X5. apply wr_inv_init.
Qed.

(* the halting outcomes allowed by the lemmas above exclude every panic site and the model's fuel *)
Lemma okhalt_no_panic w o : okhalt w o -> o <> OFuel /\ forall n, o <> OPanic n.
Proof. intros [->|[-> _]]; split; try discriminate; intros n; discriminate. Qed.

Lemma okhalt70_no_panic w o : okhalt70 true w o -> o <> OFuel /\ forall n, o <> OPanic n.
Proof. intros [H|[H _]]; [exact (okhalt_no_panic w o H)|discriminate H]. Qed.

Lemma okhaltm_no_panic m w o : okhaltm m true w o -> o <> OFuel /\ forall n, o <> OPanic n.
Proof. intros [H|[_ ->]]; [exact (okhalt70_no_panic w o H)|split; [discriminate|intros n; discriminate]]. Qed.

(* ---- the hypotheses are satisfiable: a KeepConn client sending the same Responder request twice, a handler
   that reads 2 bytes, reads to the end, waits for writeable, writes 2 bytes on stdout and exits; read script with
   short reads, spurious wake-ups and an error; write script with a wake-up, a 1-byte write and a zero write ---- *)
Definition ex_request (role : N) : bytes :=
  [1; 1; 0; 1; 0; 8; 0; 0;  0; role; 1; 0; 0; 0; 0; 0] ++ [1; 4; 0; 1; 0; 0; 0; 0] ++
  [1; 5; 0; 1; 0; 3; 5; 0; 97; 98; 99; 0; 0; 0; 0; 0] ++ [1; 5; 0; 1; 0; 0; 0; 0].
Definition ex_world (role ge : N) (rs ws : list N) : world :=
  mkW rs ws [(ge, 0, ex_request role ++ ex_request role)] [] 0 1 0 false false [].
Definition ex_script : list N := [1; 2; 2; 5; 6; 6; 2; 104; 105; 8; 0; 0].

Example ex_script_ok : scripts_ok true [ex_script].
Proof.
  constructor; [|constructor]. intros role. unfold ex_script.
  apply SO_read. apply SO_read_all. apply SO_writeable. apply SO_write.
  change (drop 2 [104; 105; 8; 0; 0]) with [8; 0; 0]. apply SO_exit. left. reflexivity.
Qed.

Example ex_world_ok role ge rs ws : role < 256 -> world_ok (ex_world role ge rs ws).
Proof.
  intros H. constructor; [|constructor]. cbn [snd]. unfold ex_request.
  repeat (apply bytes_ok_app; split); repeat (constructor; [unfold byte_ok; lia|]); constructor.
Qed.

Example ex_script_awaits : Forall no_abandoned_read [ex_script].
Proof.
  constructor; [|constructor]. unfold ex_script.
  apply NA_read. apply NA_read_all. apply NA_writeable. apply NA_write.
  change (drop 2 [104; 105; 8; 0; 0]) with [8; 0; 0]. apply NA_exit.
Qed.

Example ex_terminates :
  exists w, run_loop (fun b => b) 10 (nb (ex_world 1 0 [3; 0; 5; R_ERR] [0; 1; 7]) + 4) (new_parser 0) [ex_script] 0
                     (ex_world 1 0 [3; 0; 5; R_ERR] [0; 1; 7]) = (ORet, w).
Proof.
  apply run_loop_terminates_fault_free.
  - apply ex_world_ok. lia.
  - exact ex_script_ok.
  - exact ex_script_awaits.
  - repeat constructor; discriminate.
  - reflexivity.
  - constructor; [reflexivity|constructor].
Qed.

(* a handler that propagates I/O errors, on a transport with a wake-up, a 1-byte write and a zero-length write *)
Definition ex_prop_script : list N := [10; 2; 10; 16; 6; 6; 2; 104; 105; 7; 6; 8; 0; 0].

Example ex_prop_script_ok : scripts_ok true [ex_prop_script] /\ Forall prop_script [ex_prop_script].
Proof.
  split; (constructor; [|constructor]).
  - intros role. unfold ex_prop_script. apply SO_readq. apply SO_readq. apply SO_write.
    change (drop 2 [104; 105; 7; 6; 8; 0; 0]) with [7; 6; 8; 0; 0]. apply SO_flush. apply SO_exit. left. reflexivity.
  - unfold ex_prop_script. apply PS_readq. apply PS_readq. apply PS_write.
    change (drop 2 [104; 105; 7; 6; 8; 0; 0]) with [7; 6; 8; 0; 0]. apply PS_flush. apply PS_exit.
Qed.

Example ex_terminates_propagating :
  exists w, run_loop (fun b => b) 10 (nb (ex_world 1 0 [3; 0; 5; R_ERR] [0; 1; W_ZERO]) + 4) (new_parser 0) [ex_prop_script] 0
                     (ex_world 1 0 [3; 0; 5; R_ERR] [0; 1; W_ZERO]) = (ORet, w).
Proof.
  apply run_loop_terminates_propagating.
  - apply ex_world_ok. lia.
  - apply ex_prop_script_ok.
  - apply ex_prop_script_ok.
  - reflexivity.
  - constructor; [reflexivity|constructor].
Qed.

(* ---- the hypotheses are needed (evaluated in the model) ---- *)
(* a gated client that waits for a reply which the server does not owe: the task suspends *)
Example ex_deadlock :
  fst (run_loop (fun b => b) 10 (nb (ex_world 1 1 [] []) + 4) (new_parser 0) [ex_script] 0 (ex_world 1 1 [] [])) = ODeadlock.
Proof. vm_compute. reflexivity. Qed.
(* Layer (iii): without a restriction on handlers or transport the old statement ("an ungated client is always
   answered by ORet") is FALSE (known finding F5): a Responder request with a GetValues record before its Stdin; the
   transport fails the write of the GetValues reply; the first read returns that error with Request.lock kept ("keep
   lock even in the Err case"); the handler ignores it, reads again and then writes to stdout: the StreamWriter waits
   for the lock for ever, although the client waits for nothing. *)
Definition f5_request : bytes :=
  [1; 1; 0; 1; 0; 8; 0; 0;  0; 1; 0; 0; 0; 0; 0; 0] ++ [1; 4; 0; 1; 0; 0; 0; 0] ++
  [1; 9; 0; 0; 0; 16; 0; 0;  14; 0; 70; 67; 71; 73; 95; 77; 65; 88; 95; 67; 79; 78; 78; 83] ++
  [1; 5; 0; 1; 0; 3; 0; 0; 97; 98; 99] ++ [1; 5; 0; 1; 0; 0; 0; 0].
Definition f5_world : world := mkW [] [W_ERR] [(0, 0, f5_request)] [] 0 1 0 false false [].
Definition f5_script : list N := [1; 16; 1; 16; 6; 6; 2; 104; 105; 8; 0; 0].

Theorem run_loop_terminates_unrestricted_refuted :
  exists (w0 : world) (scripts : list (list N)) (B : N),
    world_ok w0 /\ scripts_ok true scripts /\ B < SIZE_LIMIT - 8 /\ ungated w0 /\
    fst (run_loop (fun b => b) 10 (nb w0 + 4) (new_parser B) scripts 0 w0) = ODeadlock.
Proof.
  exists f5_world, [f5_script], 64. split; [|split; [|split; [|split]]].
  - constructor; [|constructor]. cbn [snd]. unfold f5_request.
    repeat (apply bytes_ok_app; split); repeat (constructor; [unfold byte_ok; lia|]); constructor.
  - constructor; [|constructor]. intros role. unfold f5_script. apply SO_read. apply SO_read. apply SO_write.
    change (drop 2 [104; 105; 8; 0; 0]) with [8; 0; 0]. apply SO_exit. left. reflexivity.
  - reflexivity.
  - constructor; [reflexivity|constructor].
  - vm_compute. reflexivity.
Qed.
(* the same handler with the flush (op 7) instead of the write, and the F6 scenario (abandoned read, op 11, while the
   reply is partly flushed on a fault-free transport) *)
Example ex_f5_flush :
  fst (run_loop (fun b => b) 10 (nb f5_world + 4) (new_parser 64) [[1; 16; 1; 16; 7; 6; 8; 0; 0]] 0 f5_world) = ODeadlock.
Proof. vm_compute. reflexivity. Qed.
Example ex_f6_abandoned_read :
  let w := mkW [] [3; 0] [(0, 0, f5_request)] [] 0 1 0 false false [] in
  no_fault (wscript w) /\ ungated w /\
  fst (run_loop (fun b => b) 10 (nb w + 4) (new_parser 64) [[1; 16; 11; 5; 6; 6; 2; 104; 105; 8; 0; 0]] 0 w) = ODeadlock.
Proof.
  split; [repeat constructor; discriminate|]. split; [constructor; [reflexivity|constructor]|]. vm_compute. reflexivity.
Qed.
(* an exit status outside ExitStatus (impossible in Rust): make_request_epilogue has no value *)
Example ex_bad_exit :
  fst (run_loop (fun b => b) 10 (nb (ex_world 1 0 [] []) + 4) (new_parser 0) [[8; 1; 0]] 0 (ex_world 1 0 [] [])) = OPanic 61.
Proof. vm_compute. reflexivity. Qed.
(* a handler that unwraps set_stream(Data) in a Responder request: its own panic; fine for a Filter *)
Example ex_bad_set_stream :
  fst (run_loop (fun b => b) 10 (nb (ex_world 1 0 [] []) + 4) (new_parser 0) [[4; 8; 8; 0; 0]] 0 (ex_world 1 0 [] [])) = OPanic 70 /\
  fst (run_loop (fun b => b) 10 (nb (ex_world 3 0 [] []) + 4) (new_parser 0) [[4; 8; 8; 0; 0]] 0 (ex_world 3 0 [] [])) = ORet.
Proof. split; vm_compute; reflexivity. Qed.
(* an ill-formed script *)
Example ex_bad_opcode :
  fst (run_loop (fun b => b) 10 (nb (ex_world 1 0 [] []) + 4) (new_parser 0) [[10]] 0 (ex_world 1 0 [] [])) = OPanic 71.
Proof. vm_compute. reflexivity. Qed.

Print Assumptions sparse_facts.
Print Assumptions into_stream_parser_rgood.
Print Assumptions await_read_ok.
Print Assumptions await_write_all_ok.
Print Assumptions poll_output_ok.
Print Assumptions input_loop_ok.
Print Assumptions poll_input_ok.
Print Assumptions await_input_ok.
Print Assumptions do_writeable_ok.
Print Assumptions boundary_loop_ok.
Print Assumptions record_boundary_ok.
Print Assumptions close_tail_ok.
Print Assumptions do_close_ok.
Print Assumptions write_slices_ok.
Print Assumptions writer_write_all_ok.
Print Assumptions read_all_ok.
Print Assumptions run_handler_ok.
Print Assumptions parse_request_ok.
Print Assumptions run_loop_ok.
Print Assumptions input_loop_lock.
Print Assumptions poll_input_lock.
Print Assumptions await_input_lock.
Print Assumptions await_input_unlocked.
Print Assumptions run_loop_total.
Print Assumptions run_loop_total_lax.
Print Assumptions run_loop_waits_fault_free.
Print Assumptions run_loop_waits_fault_free_lax.
Print Assumptions run_loop_terminates_fault_free.
Print Assumptions run_loop_waits_propagating.
Print Assumptions run_loop_waits_propagating_lax.
Print Assumptions run_loop_terminates_propagating.
Print Assumptions run_loop_terminates_unrestricted_refuted.
