(* Async/ConnTotal.v — totality of the connection task model (Async/Conn.v):
   for every read script, write script (faults included), segment table and gating, and every
   well-formed handler script, [run_loop] returns [ORet] or [ODeadlock]: no Rust panic site is reached
   and no loop bound of the model is exhausted (C12; no-panic backbone of C07/C09/C11).
   If the client is not gated (every gate is (0,0)) the outcome is [ORet]. *)
From Coq Require Import ZArith.
From FV Require Import Base.Bytes Base.BytesLemmas Gen.Generated Codec.Varint Codec.NV Codec.Header Codec.Bodies
  Codec.Vars Codec.ProtoProofs
  Parser.ReqModel Parser.ReqParamsSpec Parser.ReqWire Parser.ReqTargets Parser.ReqParams Parser.ReqDrive
  Parser.ReqRecords Parser.ReqFinal
  Parser.StreamModel Parser.AbsStream Parser.StreamRefine Parser.StreamSeqProofs Parser.EnvCanon Async.Conn.
From Coq Require Import ZifyBool ZifyNat ZifyN.
Ltac Zify.zify_post_hook ::= Z.div_mod_to_equations.

(* ------------------------------------------------------------------------------------------ *)
(* Part A: further facts about stream::Parser::parse, proved on the abstract machine            *)
(* ------------------------------------------------------------------------------------------ *)

Lemma len_length {A} (l : list A) : len l = N.of_nat (length l).
Proof. reflexivity. Qed.

Definition is_some {A} (o : option A) : bool := match o with Some _ => true | None => false end.

(* bytes handed to the caller's buffer so far (only when a destination buffer is in use) *)
Definition dcount (cap : option N) (s : status) : N := match cap with Some _ => s_stream s | None => 0 end.

Section AbsFacts.
Variable maxc : N.
Variable B0 : N.
Variable q0 : req.
Variable s0 : option N.
Variable P0 : bytes.
Variable K : N.
Variable some : bool.

(* loop invariant of Parser::parse: buffer size / request / stream untouched, the unparsed bytes stay
   bytes, nothing is created (stream buffer + unparsed + delivered never grows), and with a
   destination buffer the internal stream buffer is not touched *)
Definition linv (l : alstate) : Prop :=
  a_B (al l) = B0 /\ a_req (al l) = q0 /\ a_stream (al l) = s0 /\ bytes_ok (a_raw (al l)) /\
  is_some (acap l) = some /\ (some = true -> a_parsed (al l) = P0) /\
  len (a_parsed (al l)) + len (a_raw (al l)) + dcount (acap l) (ares l) <= K.

Definition fpost (f : aflow) : Prop :=
  match f with
  | AContinue l | ABreak l | AErr l _ => linv l
  | APanic _ => True
  end.

Lemma apfin_inv a a' res cap' consumed :
  a_B a' = B0 -> a_req a' = q0 -> a_stream a' = s0 -> bytes_ok (a_raw a) -> is_some cap' = some ->
  (some = true -> a_parsed a' = P0) ->
  (consumed <= len (a_raw a) -> len (a_parsed a') + (len (a_raw a) - consumed) + dcount cap' res <= K) ->
  fpost (apfin a a' res cap' consumed).
Proof.
  intros HB Hq Hs Hok Hc HP HK. unfold apfin.
  destruct (N.ltb_spec (N.min (a_prem a) (len (a_raw a))) consumed) as [Hlt|Hge]; [exact I|].
  assert (L : linv (mkAL (a_set a' (a_parsed a') (drop consumed (a_raw a)) (a_out a') (a_prem a - consumed) (a_pad a') (a_st a'))
                         res cap')).
  { unfold linv, a_set. cbn [al ares acap a_B a_req a_stream a_raw a_parsed].
    repeat split; try assumption.
    - apply bytes_ok_drop. exact Hok.
    - rewrite len_drop. apply HK. lia. }
  destruct ((a_prem (a_set a' (a_parsed a') (drop consumed (a_raw a)) (a_out a') (a_prem a - consumed) (a_pad a') (a_st a')) =? 0)
            && (consumed <? len (a_raw a))); exact L.
Qed.

Lemma aparse_payload_inv l : linv l -> fpost (aparse_payload maxc l).
Proof.
  intros (HB & Hq & Hs & Hok & Hc & HP & HK). rewrite aparse_payload_unfold. cbn zeta.
  set (a := al l) in *.
  set (pl := N.min (a_prem a) (len (a_raw a))).
  assert (Hpl : pl <= len (a_raw a)) by (subst pl; lia).
  destruct (a_st a) eqn:Est.
  - destruct (acap l) as [c|] eqn:Ec.
    + apply apfin_inv; try assumption.
      intros _. unfold add_stream, dcount in *. cbn [s_stream]. lia.
    + apply apfin_inv; unfold a_set; cbn [a_B a_req a_stream a_parsed]; try assumption.
      * intros E. rewrite <- Hc in E. discriminate.
      * intros _. unfold dcount in *. rewrite len_app, len_take. lia.
  - apply apfin_inv; try assumption. intros _. lia.
  - destruct (nv_run (take pl (a_raw a))) as [ps rest].
    destruct (len (a_raw a) <? a_prem a).
    + apply apfin_inv; unfold a_set; cbn [a_B a_req a_stream a_parsed]; try assumption. intros _. lia.
    + apply apfin_inv; unfold a_set; cbn [a_B a_req a_stream a_parsed]; try assumption.
      intros _. unfold add_output, dcount in *. destruct (acap l); cbn [s_stream]; lia.
Qed.

Lemma ahgo_inv l st cl pl out added : linv l -> HEADER_LEN <= len (a_raw (al l)) -> fpost (ahgo l st cl pl out added).
Proof.
  intros (HB & Hq & Hs & Hok & Hc & HP & HK) Hl. unfold ahgo, fpost, linv, a_set, add_output, dcount in *.
  cbn [al ares acap a_B a_req a_stream a_raw a_parsed s_stream].
  repeat split; try assumption.
  - apply bytes_ok_drop. exact Hok.
  - rewrite len_drop. destruct (acap l); lia.
Qed.

Lemma aparse_head_inv l : linv l -> fpost (aparse_head l).
Proof.
  intros L. rewrite aparse_head_unfold. cbn zeta.
  destruct (a_boundary (al l)); cbn [negb]; [|exact I].
  destruct (N.ltb_spec (len (a_raw (al l))) HEADER_LEN) as [Hs|Hs]; [exact L|].
  assert (SE : linv (mkAL (al l) (set_end (ares l)) (acap l))).
  { destruct L as (HB & Hq & Hst & Hok & Hc & HP & HK). unfold linv, set_end, dcount in *.
    cbn [al ares acap s_stream]. repeat split; assumption. }
  destruct (hdr_decode (take HEADER_LEN (a_raw (al l)))) as [t id cl pl|v|t].
  - destruct (is_input_stream t && (id =? r_id (a_req (al l)))).
    + destruct (cmp_input_streams (r_role (a_req (al l))) t (a_stream (al l))) as [[| |]|].
      * apply ahgo_inv; assumption.
      * destruct (negb (cl =? 0)); [apply ahgo_inv; assumption|exact SE].
      * exact SE.
      * exact I.
    + destruct ((t =? RT_AbortRequest) && (id =? r_id (a_req (al l)))); [exact L|].
      destruct ((t =? RT_BeginRequest) && negb (id =? r_id (a_req (al l)))); [apply ahgo_inv; assumption|].
      destruct ((t =? RT_GetValues) && hdr_is_management t id); apply ahgo_inv; assumption.
  - exact L.
  - apply ahgo_inv; assumption.
Qed.

Lemma aafter_pl_inv l : linv l -> fpost (aafter_pl l).
Proof.
  intros L. unfold aafter_pl. cbn zeta.
  destruct (0 <? a_pad (al l)); [|apply aparse_head_inv; exact L].
  destruct (negb (a_prem (al l) =? 0)); [exact I|].
  destruct L as (HB & Hq & Hst & Hok & Hc & HP & HK).
  destruct (len (a_raw (al l)) <=? a_pad (al l)).
  - unfold fpost, linv, a_set. cbn [al ares acap a_B a_req a_stream a_raw a_parsed].
    repeat split; try assumption; [constructor|]. rewrite len_nil. lia.
  - apply aparse_head_inv. unfold linv, a_set. cbn [al ares acap a_B a_req a_stream a_raw a_parsed].
    repeat split; try assumption; [apply bytes_ok_drop; exact Hok|]. rewrite len_drop. lia.
Qed.

Lemma aparse_iter_inv l : linv l -> fpost (aparse_iter maxc l).
Proof.
  intros L. rewrite aparse_iter_unfold.
  destruct (0 <? a_prem (al l)); [|apply aafter_pl_inv; exact L].
  pose proof (aparse_payload_inv l L) as P.
  destruct (aparse_payload maxc l) as [l'|l'|l' e|n]; cbn [fpost] in P; try exact P.
  apply aafter_pl_inv. exact P.
Qed.

Lemma aparse_loop_inv fuel : forall l, linv l -> fpost (aparse_loop maxc fuel l).
Proof.
  induction fuel as [|f IH]; intros l L; [exact I|]. cbn [aparse_loop].
  destruct (a_raw (al l)) as [|x tl] eqn:Er; [exact L|].
  pose proof (aparse_iter_inv l L) as P.
  destruct (aparse_iter maxc l) as [l'|l'|l' e|n]; cbn [fpost] in P; try exact P.
  apply IH. exact P.
Qed.
End AbsFacts.

(* what a parse that returns (Ok or Err) guarantees about the abstract state *)
Definition aparse_keeps (a : ast) (new : bytes) (dest : option N) (a' : ast) (s : status) : Prop :=
  a_B a' = a_B a /\ a_req a' = a_req a /\ a_stream a' = a_stream a /\ bytes_ok (a_raw a') /\
  (dest <> None -> a_parsed a' = a_parsed a) /\
  len (a_parsed a') + len (a_raw a') + dcount dest s <= len (a_parsed a) + len (a_raw a) + len new.

Lemma dcount_some {A} (c c' : option A) s : is_some c = is_some c' ->
  match c with Some _ => s_stream s | None => 0 end = match c' with Some _ => s_stream s | None => 0 end.
Proof. destruct c, c'; cbn [is_some]; intros E; try discriminate; reflexivity. Qed.

Lemma aparse_facts maxc a new dest : bytes_ok (a_raw a) -> bytes_ok new ->
  match aparse maxc a new dest with
  | AOk a' s | AFail a' _ s => aparse_keeps a new dest a' s
  | APanicked _ => True
  end.
Proof.
  intros Hr Hn. unfold aparse.
  destruct (match dest with Some _ => negb (len (a_parsed a) =? 0) | None => false end); [exact I|].
  destruct (a_space a <? len new); [exact I|].
  set (a1 := mkA (a_B a) (a_space a - len new) (a_parsed a) (a_raw a ++ new) (a_out a) (a_req a) (a_stream a)
                 (a_prem a) (a_pad a) (a_st a)).
  set (res0 := mkStatus 0 (match a_stream a with None => true | Some _ => false end) 0 []).
  assert (L0 : linv (a_B a) (a_req a) (a_stream a) (a_parsed a) (len (a_parsed a) + len (a_raw a) + len new)
                    (is_some dest) (mkAL a1 res0 dest)).
  { unfold linv. subst a1 res0. cbn [al ares acap a_B a_req a_stream a_raw a_parsed].
    repeat split; try reflexivity.
    - apply bytes_ok_app. split; assumption.
    - rewrite len_app. unfold dcount. destruct dest; cbn [s_stream]; lia. }
  pose proof (aparse_loop_inv maxc _ _ _ _ _ _ (2 * N.to_nat (a_B a) + 8) _ L0) as P.
  assert (G : forall l, linv (a_B a) (a_req a) (a_stream a) (a_parsed a) (len (a_parsed a) + len (a_raw a) + len new)
                             (is_some dest) l -> aparse_keeps a new dest (al l) (ares l)).
  { intros l (HB & Hq & Hs & Hok & Hc & HP & HK). unfold aparse_keeps.
    repeat split; try assumption.
    - intros Hd. apply HP. destruct dest; [reflexivity|contradiction].
    - unfold dcount in *. rewrite (dcount_some dest (acap l)) by (symmetry; exact Hc). exact HK. }
  destruct (aparse_loop maxc (2 * N.to_nat (a_B a) + 8) (mkAL a1 res0 dest)) as [l|l|l e|n]; cbn [fpost] in P;
    try (apply G; exact P). exact I.
Qed.

(* the same, for the index-level model: a legal call never panics and keeps everything the
   connection model relies on *)
Definition sparse_keeps (p : sp) (new : bytes) (dest : option N) (p' : sp) (s : status) : Prop :=
  RI p' /\ stream p' = stream p /\ sreq p' = sreq p /\ len (buffer p') = len (buffer p) /\
  bytes_ok (raw_bytes p') /\ (dest <> None -> stream_buffer p' = []) /\
  len (stream_buffer p') + len (raw_bytes p') + dcount dest s <= len (stream_buffer p) + len (raw_bytes p) + len new.

Lemma sparse_facts maxc p new dest : RI p -> stream_ok p -> bytes_ok (raw_bytes p) -> bytes_ok new ->
  len new <= sinput_space p -> (dest <> None -> stream_buffer p = []) ->
  match sparse maxc p new dest with
  | StOk p' s | StErr p' _ s => sparse_keeps p new dest p' s
  | StPanic _ => False
  end.
Proof.
  intros HRI Hok Hraw Hnew Hfit Hd.
  pose proof (sparse_no_panic maxc p new dest HRI Hok Hfit Hd) as NP.
  destruct (sparse_refines maxc p new dest HRI) as [Ga Gb].
  pose proof (aparse_facts maxc (abs p) new dest Hraw Hnew) as F. rewrite Ga in F.
  destruct (sparse maxc p new dest) as [p' s|p' e s|n]; cbn [absres sparse_post] in *;
    [| |exact (NP n eq_refl)];
    destruct Gb as [R' S']; destruct F as (F1 & F2 & F3 & F4 & F5 & F6);
    cbn [abs a_B a_req a_stream a_raw a_parsed] in *;
    (split; [exact R'|]; split; [exact S'|]; split; [exact F2|]; split; [exact F1|]; split; [exact F4|];
     split; [intros Hx; rewrite (F5 Hx); apply Hd; exact Hx|exact F6]).
Qed.

(* ------------------------------------------------------------------------------------------ *)
(* Part B: finite facts about roles and the order of input streams                              *)
(* ------------------------------------------------------------------------------------------ *)

(* Role::input_streams().last() *)
Definition last_opt (role : N) : option N :=
  match rev (role_input_streams role) with x :: _ => Some x | [] => None end.

Lemma role_cases role :
  role = 1 \/ role = 2 \/ role = 3 \/ (role_input_streams role = [] /\ forall c, next_input_stream role c = None).
Proof.
  destruct (N.eqb_spec role 1) as [|H1]; [auto|].
  destruct (N.eqb_spec role 2) as [|H2]; [auto|].
  destruct (N.eqb_spec role 3) as [|H3]; [auto|].
  right; right; right. split.
  - unfold role_input_streams, ROLE_INPUT_STREAMS. cbn [find fst snd].
    destruct (N.eqb_spec 1 role); [congruence|]. destruct (N.eqb_spec 2 role); [congruence|].
    destruct (N.eqb_spec 3 role); [congruence|]. reflexivity.
  - intros c. unfold next_input_stream, NEXT_INPUT_STREAM, memN. cbn [find fst snd existsb].
    destruct (N.eqb_spec role 1); [congruence|]. destruct (N.eqb_spec role 3); [congruence|]. reflexivity.
Qed.

Lemma input_stream_cases x : is_input_stream x = true -> x = 5 \/ x = 8.
Proof. unfold is_input_stream, memN, IS_INPUT_STREAM. cbn [existsb]. lia. Qed.

Lemma next_is_input role c e : next_input_stream role c = Some e -> is_input_stream e = true.
Proof.
  unfold next_input_stream, NEXT_INPUT_STREAM. cbn [find fst snd].
  destruct (memN role [1; 3] && optN_eqb None c); [intros E; inversion E; reflexivity|].
  destruct (memN role [3] && optN_eqb (Some 5) c); [intros E; inversion E; reflexivity|discriminate].
Qed.

Lemma in_streams_cases role x : In x (role_input_streams role) ->
  (role = 1 /\ x = 5) \/ (role = 3 /\ x = 5) \/ (role = 3 /\ x = 8).
Proof.
  destruct (role_cases role) as [->|[->|[->|[E _]]]].
  - cbn. intros [<-|[]]. auto.
  - cbn. intros [].
  - cbn. intros [<-|[<-|[]]]; auto.
  - rewrite E. intros [].
Qed.

(* the request starts on the first stream of its role; it is writeable at once iff that is the last one *)
Definition wr_inv_at (role : N) (wr : bool) (cur : option N) : Prop :=
  if wr then cur = last_opt role
  else exists x, cur = Some x /\ In x (role_input_streams role).

Lemma wr_inv_init role :
  wr_inv_at role (len (role_input_streams role) <=? 1) (next_input_stream role None).
Proof.
  destruct (role_cases role) as [->|[->|[->|[E Hn]]]]; unfold wr_inv_at.
  - reflexivity.
  - reflexivity.
  - exists 5. split; [reflexivity|]. left. reflexivity.
  - unfold last_opt. rewrite E, Hn. reflexivity.
Qed.

(* writeable(): selecting the role's last stream is accepted from every stream of the role *)
Lemma accepts_last role x : In x (role_input_streams role) -> accepts role (Some x) (last_opt role) = Some true.
Proof.
  intros H. destruct (in_streams_cases role x H) as [[-> ->]|[[-> ->]|[-> ->]]]; reflexivity.
Qed.

(* the final stream of a role is its last *)
Lemma final_is_last role x : In x (role_input_streams role) -> next_input_stream role (Some x) = None ->
  last_opt role = Some x.
Proof.
  intros H. destruct (in_streams_cases role x H) as [[-> ->]|[[-> ->]|[-> ->]]]; try reflexivity.
  vm_compute. discriminate.
Qed.

(* an accepted selection stays inside the role's streams, and cannot leave the last one *)
Lemma accepts_some_inv role cur s : accepts role cur (Some s) = Some true ->
  (cur = last_opt role -> Some s = last_opt role) /\
  (forall x, cur = Some x -> In x (role_input_streams role) -> In s (role_input_streams role)).
Proof.
  intros A. destruct cur as [e|]; [|discriminate A].
  assert (Hs : is_input_stream s = true /\ is_input_stream e = true).
  { unfold accepts, cmp_input_streams in A.
    destruct (is_input_stream s), (is_input_stream e); cbn [negb orb] in A; try discriminate A. split; reflexivity. }
  destruct Hs as [Hs He].
  assert (Hu : role_input_streams role = [] -> e = s).
  { intros E. unfold accepts, cmp_input_streams in A. rewrite Hs, He, E in A. cbn [negb orb] in A.
    revert A. destruct (N.eqb_spec s e) as [Heq|Hne]; intros A; [symmetry; exact Heq|].
    cbv beta iota fix in A. discriminate A. }
  apply input_stream_cases in Hs. apply input_stream_cases in He.
  destruct (role_cases role) as [->|[->|[->|[E Hn]]]].
  - destruct Hs as [->| ->], He as [->| ->]; vm_compute in A; try discriminate A;
      (split; [intros H; try discriminate H; reflexivity|intros x Hx; inversion Hx; subst x; vm_compute; tauto]).
  - destruct Hs as [->| ->], He as [->| ->]; vm_compute in A; try discriminate A;
      (split; [intros H; try discriminate H; reflexivity|intros x Hx; inversion Hx; subst x; vm_compute; tauto]).
  - destruct Hs as [->| ->], He as [->| ->]; vm_compute in A; try discriminate A;
      (split; [intros H; try discriminate H; reflexivity|intros x Hx; inversion Hx; subst x; vm_compute; tauto]).
  - rewrite (Hu E). split; [intros H; exact H|intros x Hx; inversion Hx; subst x; tauto].
Qed.

(* ExitStatus values *)
Lemma epilogue_some id disc code streams : In disc EXITSTATUS_VALUES -> epilogue id disc code streams <> None.
Proof.
  unfold EXITSTATUS_VALUES. cbn [In]. intros [<-|[<-|[<-|[]]]]; unfold epilogue, exit_to_end, EXIT_MAP;
    cbn [find fst snd]; discriminate.
Qed.

(* ------------------------------------------------------------------------------------------ *)
(* Part C: the scripted world                                                                   *)
(* ------------------------------------------------------------------------------------------ *)

(* client bytes not yet delivered *)
Definition nb (w : world) : nat := length (flat_map (fun s : N * N * bytes => snd s) (segs w)).
Definition world_ok (w : world) : Prop := Forall (fun s : N * N * bytes => bytes_ok (snd s)) (segs w).
(* no segment waits for replies: all bytes are available, then EOF *)
Definition ungated (w : world) : Prop := Forall (fun s : N * N * bytes => fst s = (0, 0)) (segs w).
Definition sm (w : world) : nat := if stopped w then 0%nat else 1%nat.

(* w' is a later state of the world w *)
Record wstep (w w' : world) : Prop := mkWstep {
  ws_r : (length (rscript w') <= length (rscript w))%nat;
  ws_w : (length (wscript w') <= length (wscript w))%nat;
  ws_b : (nb w' <= nb w)%nat;
  ws_stop : stopped w = true -> stopped w' = true;
  ws_ug : ungated w -> ungated w';
  ws_ok : world_ok w -> world_ok w' }.

Lemma wstep_refl w : wstep w w.
Proof. constructor; auto. Qed.

Lemma wstep_trans a b c : wstep a b -> wstep b c -> wstep a c.
Proof. intros [A1 A2 A3 A4 A5 A6] [B1 B2 B3 B4 B5 B6]. constructor; auto; lia. Qed.

Lemma wstep_ev w e : wstep w (w_ev w e).
Proof. constructor; auto. Qed.

Lemma wstep_bump w : wstep w (w_bump w).
Proof.
  constructor; auto. unfold w_bump. cbn [stopped]. intros ->. reflexivity.
Qed.

Lemma wstep_stop w : wstep w (w_stop w).
Proof. constructor; auto. Qed.

Lemma wstep_set_w w ws lg : (length ws <= length (wscript w))%nat -> wstep w (w_set_w w ws lg).
Proof. intros H. constructor; auto. Qed.

Lemma sm_step w w' : wstep w w' -> (sm w' <= sm w)%nat.
Proof.
  intros H. unfold sm. destruct (stopped w) eqn:E; [rewrite (ws_stop _ _ H E); lia|].
  destruct (stopped w'); lia.
Qed.

Lemma sm_stop w : sm (w_stop w) = 0%nat.
Proof. reflexivity. Qed.

Lemma io_fuel_eq w x :
  io_fuel w x = (length (rscript w) + length (wscript w) + nb w + N.to_nat x + 16)%nat.
Proof. reflexivity. Qed.

Definition okhalt (w : world) (o : outcome) : Prop := o = ORet \/ (o = ODeadlock /\ ~ ungated w).

Lemma okhalt_step w w' o : wstep w w' -> okhalt w' o -> okhalt w o.
Proof. intros H [A|[A B]]; [left; exact A|right; split; [exact A|]]. intros U. apply B. apply (ws_ug _ _ H U). Qed.

Lemma skip_flat s :
  flat_map (fun s : N * N * bytes => snd s) (skip_empty_segs s) = flat_map (fun s : N * N * bytes => snd s) s.
Proof.
  induction s as [|[[ge gm] b] t IH]; [reflexivity|]. destruct b as [|x b]; [|reflexivity].
  cbn [skip_empty_segs flat_map snd app]. exact IH.
Qed.

Lemma skip_Forall (P : N * N * bytes -> Prop) s : Forall P s -> Forall P (skip_empty_segs s).
Proof.
  induction s as [|[[ge gm] b] t IH]; intros H; [exact H|]. destruct b as [|x b]; [|exact H].
  cbn [skip_empty_segs]. apply IH. inversion H; assumption.
Qed.

Lemma seg_update w rs' ge gm b k rest c :
  skip_empty_segs (segs w) = (ge, gm, b) :: rest -> (length rs' <= length (rscript w))%nat ->
  wstep w (w_set_r w rs' ((ge, gm, drop k b) :: rest) c) /\
  (nb (w_set_r w rs' ((ge, gm, drop k b) :: rest) c) + length (take k b) = nb w)%nat.
Proof.
  intros Es Hr.
  assert (Enb : nb w = (length b + length (flat_map (fun s : N * N * bytes => snd s) rest))%nat).
  { unfold nb. rewrite <- skip_flat, Es. cbn [flat_map snd]. apply app_length. }
  assert (El : (length (take k b) + length (drop k b) = length b)%nat).
  { rewrite <- app_length, take_drop. reflexivity. }
  assert (Enb' : nb (w_set_r w rs' ((ge, gm, drop k b) :: rest) c) =
                 (length (drop k b) + length (flat_map (fun s : N * N * bytes => snd s) rest))%nat).
  { unfold nb, w_set_r. cbn [segs flat_map snd]. apply app_length. }
  split; [|lia].
  constructor; [exact Hr|unfold w_set_r; cbn [wscript]; lia|lia|auto| |].
  - intros U. unfold ungated in *. cbn [segs]. pose proof (skip_Forall _ _ U) as U'. rewrite Es in U'.
    inversion U' as [|? ? U1 U2]; subst. constructor; [exact U1|exact U2].
  - intros U. unfold world_ok in *. cbn [segs]. pose proof (skip_Forall _ _ U) as U'. rewrite Es in U'.
    inversion U' as [|? ? U1 U2]; subst. constructor; [cbn [snd] in *; apply bytes_ok_drop; exact U1|exact U2].
Qed.

Lemma t_poll_read_spec L w :
  match t_poll_read L w with
  | (PReady (inl b), w') => wstep w w' /\ (world_ok w -> bytes_ok b) /\ len b <= L /\ (nb w' + length b <= nb w)%nat
  | (PReady (inr k), w') => wstep w w' /\ k = EK_Transport
  | (PWake, w') => wstep w w' /\ (length (rscript w') < length (rscript w))%nat
  | (PBlock, w') => w' = w /\ ~ ungated w
  end.
Proof.
  unfold t_poll_read. destruct (N.eqb_spec L 0) as [EL|EL].
  { split; [apply wstep_refl|]. split; [intros _; constructor|]. rewrite len_nil. split; [lia|]. cbn [length]. lia. }
  destruct (skip_empty_segs (segs w)) as [|[[ge gm] b] rest] eqn:Es.
  { split.
    - constructor; unfold w_set_r; cbn [rscript wscript stopped]; auto.
      + unfold nb. cbn [segs flat_map length]. lia.
      + intros _. constructor.
      + intros _. constructor.
    - split; [intros _; constructor|]. rewrite len_nil. split; [lia|]. unfold nb, w_set_r. cbn [segs flat_map length]. lia. }
  destruct (count_records (length (wlog w)) (wlog w) 0 0) as [e m].
  destruct ((e <? ge) || (m <? gm)) eqn:Eg.
  { split; [reflexivity|]. intros U. pose proof (skip_Forall _ _ U) as U'. rewrite Es in U'.
    inversion U' as [|? ? U1 U2]; subst. cbn [fst] in U1. inversion U1; subst. lia. }
  assert (READ : forall r rs', (length rs' <= length (rscript w))%nat -> r <> 0 ->
            let n := N.min r (N.min L (len b)) in
            let w' := w_set_r w rs' ((ge, gm, drop n b) :: rest) (consumed w + n) in
            wstep w w' /\ (world_ok w -> bytes_ok (take n b)) /\ len (take n b) <= L /\
            (nb w' + length (take n b) <= nb w)%nat).
  { intros r rs' Hrs Hr n w'. destruct (seg_update w rs' ge gm b n rest (consumed w + n) Es Hrs) as [S1 S2].
    split; [exact S1|]. split.
    - intros U. pose proof (skip_Forall _ _ U) as U'. rewrite Es in U'.
      inversion U' as [|? ? U1 U2]; subst. apply bytes_ok_take. exact U1.
    - split; [rewrite len_take; subst n; lia|]. subst w'. lia. }
  destruct (rscript w) as [|r t] eqn:Er; cbv beta iota zeta.
  - destruct (N.eqb_spec L 0) as [|_]; [contradiction|].
    destruct (N.eqb_spec L R_ERR) as [_|_].
    + destruct (seg_update w [] ge gm b 0 rest (consumed w) Es ltac:(rewrite Er; cbn [length]; lia)) as [S1 _].
      rewrite drop_0 in S1. split; [exact S1|reflexivity].
    + apply READ; [try rewrite Er; cbn [length]; lia|exact EL].
  - destruct (N.eqb_spec r 0) as [E0|E0].
    + destruct (seg_update w t ge gm b 0 rest (consumed w) Es ltac:(rewrite Er; cbn [length]; lia)) as [S1 _].
      rewrite drop_0 in S1. split; [exact S1|]. unfold w_set_r. cbn [rscript length]. lia.
    + destruct (N.eqb_spec r R_ERR) as [_|_].
      * destruct (seg_update w t ge gm b 0 rest (consumed w) Es ltac:(rewrite Er; cbn [length]; lia)) as [S1 _].
        rewrite drop_0 in S1. split; [exact S1|reflexivity].
      * apply READ; [try rewrite Er; cbn [length]; lia|exact E0].
Qed.

(* a non-empty read really removes bytes from the client *)
Lemma nonempty_length {A} (l : list A) : l <> [] -> (1 <= length l)%nat.
Proof. destruct l; [congruence|cbn [length]; lia]. Qed.

Lemma t_poll_write_spec offer w : offer <> [] ->
  match t_poll_write offer w with
  | (PReady (inl n), w') =>
    wstep w w' /\ n <= len offer /\
    ((wscript w = [] /\ wscript w' = [] /\ n = len offer) \/ (length (wscript w') < length (wscript w))%nat) /\
    (wscript w = [] -> n <> 0)
  | (PReady (inr k), w') => wstep w w' /\ (length (wscript w') < length (wscript w))%nat /\ k = EK_Transport
  | (PWake, w') => wstep w w' /\ (length (wscript w') < length (wscript w))%nat
  | (PBlock, _) => False
  end.
Proof.
  intros Hne. unfold t_poll_write.
  assert (Hl : 1 <= len offer) by (pose proof (nonempty_length offer Hne); unfold len; lia).
  destruct (wscript w) as [|k ws'] eqn:Ew.
  - split; [apply wstep_set_w; rewrite Ew; cbn [length]; lia|]. split; [lia|].
    split; [left; repeat split|intros _; lia].
  - assert (Hs : forall lg, wstep w (w_set_w w ws' lg)) by (intros lg; apply wstep_set_w; rewrite Ew; cbn [length]; lia).
    destruct (k =? 0); [split; [apply Hs|unfold w_set_w; cbn [wscript length]; lia]|].
    destruct (k =? W_ZERO).
    { split; [apply Hs|]. split; [lia|]. split; [right; unfold w_set_w; cbn [wscript length]; lia|discriminate]. }
    destruct (k =? W_ERR).
    { split; [apply Hs|]. split; [unfold w_set_w; cbn [wscript length]; lia|reflexivity]. }
    split; [apply Hs|]. split; [lia|]. split; [right; unfold w_set_w; cbn [wscript length]; lia|discriminate].
Qed.

(* ------------------------------------------------------------------------------------------ *)
(* Part D: awaits on the transport                                                              *)
(* ------------------------------------------------------------------------------------------ *)

Lemma await_read_ok : forall fuel sel L w,
  (length (rscript w) + sm w + 1 <= fuel)%nat ->
  match await_read fuel sel L w with
  | Ok (inl b) w' => wstep w w' /\ (world_ok w -> bytes_ok b) /\ len b <= L /\ (nb w' + length b <= nb w)%nat
  | Ok (inr k) w' => wstep w w' /\ k = EK_Transport
  | Halt o w' => wstep w w' /\ okhalt w o
  end.
Proof.
  induction fuel as [|f IH]; intros sel L w Hf; [lia|]. cbn [await_read].
  pose proof (t_poll_read_spec L w) as P.
  destruct (t_poll_read L w) as [[[b|k]| |] w1].
  - exact P.
  - exact P.
  - destruct P as [S1 Hr]. unfold on_wake.
    pose proof (wstep_bump w1) as S2. pose proof (wstep_trans _ _ _ S1 S2) as S3.
    destruct (sel && stopped (w_bump w1)).
    + split; [exact S3|left; reflexivity].
    + assert (Hf' : (length (rscript (w_bump w1)) + sm (w_bump w1) + 1 <= f)%nat).
      { pose proof (sm_step _ _ S3). change (rscript (w_bump w1)) with (rscript w1). lia. }
      specialize (IH sel L (w_bump w1) Hf').
      destruct (await_read f sel L (w_bump w1)) as [[b|k] w2|o w2].
      * destruct IH as (I1 & I2 & I3 & I4). split; [eapply wstep_trans; eassumption|].
        split; [intros U; apply I2; apply (ws_ok _ _ S3 U)|]. split; [exact I3|]. pose proof (ws_b _ _ S3). lia.
      * destruct IH as (I1 & I2). split; [eapply wstep_trans; eassumption|exact I2].
      * destruct IH as (I1 & I2). split; [eapply wstep_trans; eassumption|]. eapply okhalt_step; eassumption.
  - destruct P as [-> NU]. unfold on_block.
    destruct (negb (stop_at w =? 0) && negb (stopped w)) eqn:Ec.
    + pose proof (wstep_stop w) as S2. destruct sel.
      * split; [exact S2|left; reflexivity].
      * assert (Hs : sm w = 1%nat).
        { unfold sm. destruct (stopped w); [|reflexivity]. rewrite andb_false_r in Ec. discriminate. }
        assert (Hf' : (length (rscript (w_stop w)) + sm (w_stop w) + 1 <= f)%nat).
        { rewrite sm_stop. change (rscript (w_stop w)) with (rscript w). lia. }
        specialize (IH false L (w_stop w) Hf').
        destruct (await_read f false L (w_stop w)) as [[b|k] w2|o w2].
        -- destruct IH as (I1 & I2 & I3 & I4). split; [eapply wstep_trans; eassumption|].
           split; [intros U; apply I2; apply (ws_ok _ _ S2 U)|]. split; [exact I3|]. pose proof (ws_b _ _ S2). lia.
        -- destruct IH as (I1 & I2). split; [eapply wstep_trans; eassumption|exact I2].
        -- destruct IH as (I1 & I2). split; [eapply wstep_trans; eassumption|]. eapply okhalt_step; eassumption.
    + split; [apply wstep_refl|]. right. split; [reflexivity|exact NU].
Qed.

Lemma await_write_all_ok : forall fuel sel b w,
  (length (wscript w) + (match b with [] => 0 | _ => 1 end) + 1 <= fuel)%nat ->
  match await_write_all fuel sel b w with
  | Ok _ w' => wstep w w'
  | Halt o w' => wstep w w' /\ o = ORet
  end.
Proof.
  induction fuel as [|f IH]; intros sel b w Hf; [lia|]. cbn [await_write_all].
  destruct b as [|x b']; [apply wstep_refl|].
  pose proof (t_poll_write_spec (x :: b') w ltac:(discriminate)) as P.
  destruct (t_poll_write (x :: b') w) as [[[n|k]| |] w1].
  - destruct P as (S1 & Hn & Hw & Hz).
    destruct (N.eqb_spec n 0) as [E0|E0]; [exact S1|].
    assert (Hf' : (length (wscript w1) + (match drop n (x :: b') with [] => 0 | _ => 1 end) + 1 <= f)%nat).
    { destruct Hw as [(W1 & W2 & W3)|W].
      - rewrite W2, W3, drop_all by lia. rewrite W1 in Hf. cbn [length] in *. lia.
      - destruct (drop n (x :: b')); lia. }
    specialize (IH sel (drop n (x :: b')) w1 Hf').
    destruct (await_write_all f sel (drop n (x :: b')) w1) as [r w2|o w2].
    + eapply wstep_trans; eassumption.
    + destruct IH as [I1 I2]. split; [eapply wstep_trans; eassumption|exact I2].
  - apply P.
  - destruct P as [S1 Hw]. unfold on_wake.
    pose proof (wstep_bump w1) as S2. pose proof (wstep_trans _ _ _ S1 S2) as S3.
    destruct (sel && stopped (w_bump w1)); [split; [exact S3|reflexivity]|].
    assert (Hf' : (length (wscript (w_bump w1)) + 1 + 1 <= f)%nat) by (change (wscript (w_bump w1)) with (wscript w1); lia).
    specialize (IH sel (x :: b') (w_bump w1) Hf').
    destruct (await_write_all f sel (x :: b') (w_bump w1)) as [r w2|o w2].
    + eapply wstep_trans; eassumption.
    + destruct IH as [I1 I2]. split; [eapply wstep_trans; eassumption|exact I2].
  - contradiction.
Qed.

Lemma await_write_all_io sel b w x :
  match await_write_all (io_fuel w x) sel b w with
  | Ok _ w' => wstep w w'
  | Halt o w' => wstep w w' /\ o = ORet
  end.
Proof. apply await_write_all_ok. rewrite io_fuel_eq. destruct b; lia. Qed.

Lemma await_read_io sel L w x :
  match await_read (io_fuel w x) sel L w with
  | Ok (inl b) w' => wstep w w' /\ (world_ok w -> bytes_ok b) /\ len b <= L /\ (nb w' + length b <= nb w)%nat
  | Ok (inr k) w' => wstep w w' /\ k = EK_Transport
  | Halt o w' => wstep w w' /\ okhalt w o
  end.
Proof. apply await_read_ok. rewrite io_fuel_eq. unfold sm. destruct (stopped w); lia. Qed.
