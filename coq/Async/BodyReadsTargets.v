(* Async/BodyReadsTargets.v — statements: C09 end to end over a WHOLE connection of the one-outstanding client.
   (1) At EVERY handler invocation of the connection the trace law of C09 (Async/ReadsWTargets.v hw_post / htlaw: every read takes its
       bytes from the front of what is still to come of the selected stream, a newly selected stream delivering its content as of the
       start of the handler, whatever is written in between) holds, AND the contents it speaks about are those of the request the
       client sent at that position: the handler of request i reads the body of request i.
   (2) Connection reuse is invisible to the handler: what invocation i of a connection carrying k requests is started with and can
       read is what the single invocation of a fresh connection carrying only request i is started with and can read.
   Statements only; proofs in Async/BodyReadsProofs.v. *)
From FV Require Import Base.Bytes Gen.Generated Codec.Varint Codec.NV Codec.Header Codec.Bodies Codec.Vars Parser.ReqModel Parser.ReqWire
  Parser.ReqTargets Parser.StreamModel Parser.AbsStream Parser.StreamSpec Parser.StreamFinal Parser.EnvCanon
  Async.Conn Async.ConnWrites Async.ConnTotal Async.ConnReads Async.ReadsWTargets
  Async.PeerTargets Async.PeerTargets2 Async.PeerTargets3 Async.PeerTargets4 Async.BodyTargets.

(* Token::run with a ghost trace of the handler invocations: the script that runs, the request state and the world it starts in *)
Fixpoint run_loop_inv (norm : bytes -> bytes) (maxc : N) (fuel : nat) (p : parser) (scripts : list (list N)) (served : nat)
                      (w : world) (acc : list (list N * rstate * world)) : outcome * world * list (list N * rstate * world) :=
  match fuel with
  | O => (OFuel, w, acc)
  | S f =>
    if stopped w then (ORet, w, acc)
    else
      match parse_request norm maxc (io_fuel w 0) p [] w with
      | Halt o w' => (o, w', acc)
      | Ok (inr _) w' => (ORet, w', acc)
      | Ok (inl s0) w' =>
        let rq := sreq s0 in
        let r0 := mkR s0 (len (role_input_streams (r_role rq)) <=? 1) false false in
        let env := canon_env (r_env rq) in
        let w1 := fold_left (fun w p => w_ev (w_ev w (fst p)) (snd p)) env
                    (w_ev (w_ev w' [100; epoch w']) [r_role rq; r_flags rq; len env; stream_code (stream s0);
                                            if rwriteable r0 then 1 else 0]) in
        let script := nth served scripts (last scripts []) in
        let acc' := acc ++ [(script, r0, w1)] in
        match run_handler maxc (length script + 2) script r0 w1 with
        | Halt o w2 => (o, w2, acc')
        | Ok (st, r1) w2 =>
          let status := match st with
                        | inl dc => Some dc
                        | inr k => if (k =? EK_Aborted) && raborted r1 then Some (EXIT_Complete, EXIT_ABORT_CODE) else None
                        end in
          match status with
          | None => (ORet, w2, acc')
          | Some (d, c) =>
            match do_close maxc r1 d c w2 with
            | Halt o w3 => (o, w3, acc')
            | Ok (inl rp) w3 => run_loop_inv norm maxc f rp scripts (S served) w3 acc'
            | Ok (inr _) w3 => (ORet, w3, acc')
            end
          end
        end
      end
  end.

Definition run_loop_inv_erase_stmt : Prop := forall norm maxc fuel p scripts served w acc,
  fst (run_loop_inv norm maxc fuel p scripts served w acc) = run_loop norm maxc fuel p scripts served w.

(* (1) *)
Definition connection_reads_stmt : Prop :=
  forall (norm : bytes -> bytes) (maxc : N) scripts B cs pairss w0,
  B < SIZE_LIMIT - 8 -> scripts_ok true scripts -> Forall any_script scripts ->
  segs w0 = enc_client cs -> client_segs 0 0 cs -> wlog w0 = [] ->
  no_fault (wscript w0) ->
  length pairss = length cs ->
  (forall i c ps, nth_error (map snd cs) i = Some c -> nth_error pairss i = Some ps -> creq_fits B c ps) ->
  len (flat_map (fun s : N * N * bytes => snd s) (segs w0)) < SIZE_LIMIT ->
  let tr := snd (run_loop_inv norm maxc (nb w0 + 4) (new_parser B) scripts 0 w0 []) in
  (length tr <= length cs)%nat /\
  forall i script r0 w1 c ps,
    nth_error tr i = Some (script, r0, w1) -> nth_error (map snd cs) i = Some c -> nth_error pairss i = Some ps ->
    script = nth i scripts (last scripts []) /\
    sreq (rsp r0) = sent_request norm c ps /\
    (* the trace law for this invocation, whatever the handler script does and however the run ends *)
    hw_post script (abs (rsp r0)) (remaining w1) r0 w1 (run_handler maxc (length script + 2) script r0 w1) /\
    (* ... in which the content read from is the body of request i *)
    stream (rsp r0) = next_input_stream (w_role (c_pre c)) None /\
    forall sg, In sg (role_input_streams (w_role (c_pre c))) ->
      (if optN_eqb (Some sg) (stream (rsp r0)) then K (abs (rsp r0)) (remaining w1) else F (Some sg) (abs (rsp r0)) (remaining w1))
      = content_rcds (w_role (c_pre c)) (w_id (c_pre c)) (Some sg) (c_srs c).

(* (2) the single-request client that sends only request c *)
Definition alone (c : creq) : list (N * N * creq) := [(0, 0, c)].

Definition reuse_is_invisible_stmt : Prop :=
  forall (norm : bytes -> bytes) (maxc : N) scripts scripts1 B cs pairss w0 w1,
  B < SIZE_LIMIT - 8 -> scripts_ok true scripts -> scripts_ok true scripts1 ->
  segs w0 = enc_client cs -> client_segs 0 0 cs -> wlog w0 = [] -> no_fault (wscript w0) ->
  length pairss = length cs ->
  (forall i c ps, nth_error (map snd cs) i = Some c -> nth_error pairss i = Some ps -> creq_fits B c ps) ->
  len (flat_map (fun s : N * N * bytes => snd s) (segs w0)) < SIZE_LIMIT ->
  forall i c ps, nth_error (map snd cs) i = Some c -> nth_error pairss i = Some ps ->
  (* the fresh connection: any transport behaviour of its own *)
  segs w1 = enc_client (alone c) -> wlog w1 = [] -> no_fault (wscript w1) ->
  let tr := snd (run_loop_body norm maxc (nb w0 + 4) (new_parser B) scripts 0 w0 []) in
  let tr1 := snd (run_loop_body norm maxc (nb w1 + 4) (new_parser B) scripts1 0 w1 []) in
  forall rq a u rq1 a1 u1, nth_error tr i = Some (rq, a, u) -> nth_error tr1 0 = Some (rq1, a1, u1) ->
    rq = rq1 /\ a_stream a = a_stream a1 /\ a_parsed a = a_parsed a1 /\
    forall sg, In sg (role_input_streams (r_role rq)) -> to_come sg a u = to_come sg a1 u1.
