(* Async/ReadsWTargets.v — statement: the read law of C09 (Async/ConnReads.v run_handler_reads) for handlers that ALSO WRITE:
   every script of the handler family (all eleven opcodes), the writes interleaved anywhere.  Statements only; proof in
   Async/ReadsWProofs.v. *)
From FV Require Import Base.Bytes Gen.Generated Codec.Header Parser.ReqModel Parser.StreamModel Parser.AbsStream Parser.StreamSpec
  Async.Conn Async.ConnWrites Async.ConnTotal Async.ConnReads.

(* a handler operation as logged: a read-side observation of ConnReads.v, or a write / flush through a StreamWriter
   (code 0 = Ok, 99 = refused because the request is not writeable yet, otherwise the error kind) *)
Inductive hobs := HR (o : obs) | HWrite (code : N) | HFlush (code : N).

Definition hobs_events (h : hobs) : list (list N) :=
  match h with HR o => obs_events o | HWrite c => [[6; c]] | HFlush c => [[7; c]] end.
Definition hobs_bytes (h : hobs) : bytes := match h with HR o => obs_bytes o | _ => [] end.
Definition hobs_switch (h : hobs) : option (option N) := match h with HR o => obs_switch o | _ => None end.

(* tlaw of ConnReads.v over the extended observations: writes take nothing from any input stream and select nothing *)
Fixpoint htlaw (a0 : ast) (u0 : bytes) (cur : option N) (T : bytes) (os : list hobs) (T' : bytes) : Prop :=
  match os with
  | [] => T' = T
  | o :: t =>
    match hobs_switch o with
    | Some s => if optN_eqb s cur then htlaw a0 u0 cur T t T' else htlaw a0 u0 s (F s a0 u0) t T'
    | None => exists T1, T = hobs_bytes o ++ T1 /\ htlaw a0 u0 cur T1 t T'
    end
  end.

(* every script of the family: the read-side operations of rd_script plus write (6 s n data..) and flush (7 s) *)
Inductive any_script : list N -> Prop :=
| AS_nil : any_script []
| AS_read n rest : any_script rest -> any_script (1 :: n :: rest)
| AS_all rest : any_script rest -> any_script (2 :: rest)
| AS_fill k rest : any_script rest -> any_script (3 :: k :: rest)
| AS_set s rest : any_script rest -> any_script (4 :: s :: rest)
| AS_wr rest : any_script rest -> any_script (5 :: rest)
| AS_write s n rest : any_script (drop n rest) -> any_script (6 :: s :: n :: rest)
| AS_flush s rest : any_script rest -> any_script (7 :: s :: rest)
| AS_exit d c rest : any_script (8 :: d :: c :: rest)
| AS_fail k rest : any_script (9 :: k :: rest)
| AS_readq n rest : any_script rest -> any_script (10 :: n :: rest)
| AS_poll n rest : any_script rest -> any_script (11 :: n :: rest).

Inductive hobs_of : list N -> list hobs -> Prop :=
| HO_nil script : hobs_of script []
| HO_read n rest c b t : hobs_of rest t -> hobs_of (1 :: n :: rest) (HR (ORead c b) :: t)
| HO_read_err n rest k l t : hobs_of rest t -> hobs_of (1 :: n :: rest) (HR (OReadErr k l) :: t)
| HO_all rest k acc l t : hobs_of rest t -> hobs_of (2 :: rest) (HR (OAll k acc l) :: t)
| HO_fill k rest c seen t : hobs_of rest t -> hobs_of (3 :: k :: rest) (HR (OFill c seen) :: t)
| HO_fill_err k rest e t : hobs_of rest t -> hobs_of (3 :: k :: rest) (HR (OFillErr e) :: t)
| HO_set s rest code t : hobs_of rest t -> hobs_of (4 :: s :: rest) (HR (OSet code) :: t)
| HO_wr rest e wr code t : hobs_of rest t -> hobs_of (5 :: rest) (HR (OWr e wr code) :: t)
| HO_write s n rest t : hobs_of (drop n rest) t -> hobs_of (6 :: s :: n :: rest) (HWrite 0 :: t)
| HO_write_refused s n rest t : hobs_of (drop n rest) t -> hobs_of (6 :: s :: n :: rest) (HWrite 99 :: t)
| HO_write_err s n rest k : hobs_of (6 :: s :: n :: rest) [HWrite k]              (* the error is returned: the run ends *)
| HO_flush s rest code t : hobs_of rest t -> hobs_of (7 :: s :: rest) (HFlush code :: t)
| HO_readq n rest c b t : hobs_of rest t -> hobs_of (10 :: n :: rest) (HR (ORead c b) :: t)
| HO_readq_err n rest k l : hobs_of (10 :: n :: rest) [HR (OReadErr k l)]
| HO_poll n rest c wr b t : hobs_of rest t -> hobs_of (11 :: n :: rest) (HR (OPoll c wr b) :: t)
| HO_poll_err n rest k wr l t : hobs_of rest t -> hobs_of (11 :: n :: rest) (HR (OPollErr k wr l) :: t)
| HO_poll_pending n rest wr t : hobs_of rest t -> hobs_of (11 :: n :: rest) (HR (OPollPending wr) :: t).

(* how the event log of a returning handler ends: the event of the return operation, or nothing more when the error of a
   propagated read (10 n) or of a write was returned: then that error is the result *)
Definition hfin_ok (fin : list (list N)) (os : list hobs) (st : N * N + N) : Prop :=
  (exists e, fin = [e]) \/
  (fin = [] /\ exists k os', st = inr k /\ ((exists lost, os = os' ++ [HR (OReadErr k lost)]) \/ os = os' ++ [HWrite k])).

Definition hw_post (script : list N) (a0 : ast) (u0 : bytes) (r : rstate) (w : world) (x : res ((N * N + N) * rstate)) : Prop :=
  exists os, hobs_of script os /\
  match x with
  | Ok (st, r') w' =>
      (exists fin, events w' = fin ++ flat_map hobs_events (rev os) ++ events w /\ hfin_ok fin os st) /\ pinv (rsp r') /\
      sreq (rsp r') = sreq (rsp r) /\
      htlaw a0 u0 (stream (rsp r)) (K (abs (rsp r)) (remaining w)) os (K (abs (rsp r')) (remaining w'))
  | Halt o w' =>
      events w' = flat_map hobs_events (rev os) ++ events w /\
      exists T', htlaw a0 u0 (stream (rsp r)) (K (abs (rsp r)) (remaining w)) os T'
  end.

(* For EVERY script of the family — reads of every kind, stream selection, writeable(), writes and flushes of any size to
   stdout / stderr interleaved anywhere, any way of returning —, every transport behaviour (read sizes, Pending, write accept
   sizes, write faults) and every client input: the operations observed are those of the script in order, and every read-side
   operation takes its bytes from the FRONT of what is still to come of the selected stream (K), a newly selected stream
   delivering its content as of the start of the handler (F): each byte once, in order, nothing of another stream — whatever
   was written in between.  (When the task stops early — blocked, or waiting for its own lock as in known finding F6 — the
   law holds for the operations completed so far.) *)
Definition run_handler_reads_w_stmt : Prop := forall maxc a0 u0 script, any_script script ->
  forall f r w, pinv (rsp r) -> bytes_ok (remaining w) -> later_kept a0 u0 r w ->
  hw_post script a0 u0 r w (run_handler maxc f script r w).

Definition run_handler_reads_w_top_stmt : Prop := forall maxc script f r w, any_script script -> pinv (rsp r) -> bytes_ok (remaining w) ->
  hw_post script (abs (rsp r)) (remaining w) r w (run_handler maxc f script r w).
