(* Async/FrameFaultTargets.v — statement: C12's write-side clause over a WHOLE connection ("nothing is written after a failed write;
   what was written before is a prefix of a well-formed record sequence"): whatever the transport's write script - accept sizes,
   Pending, and a first fault (zero-length write or write error) at ANY call -, for every client, buffer size, fuel and handler
   scripts that propagate I/O errors, the transport log of Token::run is at every end of the run a prefix of a byte string that
   decodes completely into records.  (C12_nothing_after_failed_write says that the failed call is the last write call;
   C10_connection_framing is the fault-free case; handlers that swallow a write error and write again are outside the clause.)
   Statement only; proof in Async/FrameFaultProofs.v. *)
From FV Require Import Base.Bytes Gen.Generated Codec.Header Parser.ReqModel Parser.ReqWire Parser.ReqTargets Parser.StreamModel
  Async.Conn Async.ConnWrites Async.ConnTotal Async.ConnReads Async.ReadsWTargets Async.LoopTargets2 Async.FrameTargets.

Definition connection_framing_faults_stmt : Prop :=
  forall (norm : bytes -> bytes) (maxc : N) fuel B scripts w0 pre k post,
  B < SIZE_LIMIT - 8 -> world_ok w0 -> wlog w0 = [] ->
  wscript w0 = pre ++ k :: post -> no_fault pre -> plain_fault k ->
  scripts_ok false scripts -> Forall writes_known scripts -> Forall prop_script scripts ->
  let '(o, w') := run_loop norm maxc fuel (new_parser B) scripts 0 w0 in
  framed (wlog w').
