(* Async/LoopProofs2.v — proofs of the statements of Async/LoopTargets2.v.
   Part A (C14): nothing inside a request looks at the stop listener.  The shutdown bookkeeping of the world is
   read only by on_wake (in_select = true: parse_request) and by on_block; inside a request on_block re-polls once
   after the stop request, and a suspended await suspends again: for input.read(..).await because the transport's
   answer depends on the client gate only, for poll_fn(poll_input).await because a call of Parser::parse that
   reported nothing is followed by a call (without new bytes) that changes nothing (Part A0).
   Part B (C12): with a handler that propagates I/O errors, the first failed write call is the last write call. *)
From Coq Require Import ZArith.
From FV Require Import Base.Bytes Base.BytesLemmas Gen.Generated Codec.Varint Codec.NV Codec.NVProofs Codec.Header Codec.Bodies Codec.Vars
  Parser.ReqModel Parser.StreamModel Parser.StreamRefine
  Async.Conn Async.ConnWrites Async.ConnTotal Async.ConnReads Async.LoopTargets2.
From Coq Require Import ZifyBool ZifyNat ZifyN.
Ltac Zify.zify_post_hook ::= Z.div_mod_to_equations.

(* ================================================================================================ *)
(* Part A0: a call of Parser::parse that reports nothing leaves the parser in a state on which an   *)
(* immediate second call (without new bytes) changes nothing                                        *)
(* ================================================================================================ *)
Section Requiet.
Variable maxc : N.

(* the Status reports neither stream data nor the end of the stream *)
Definition ZP (s : status) : Prop := s_stream s = 0 /\ s_end s = false.

(* nothing can be done with the unparsed bytes *)
Definition quiet (p : sp) : Prop :=
  free_start p <= raw_start p \/
  (is_record_boundary p = true /\ free_start p < raw_start p + HEADER_LEN) \/
  (exists vars, sst p = SValues vars /\ 0 < payload_rem p /\ free_start p - raw_start p < payload_rem p /\
                nv_next (raw_bytes p) = None).

(* what the parsing loop does not touch as long as it reports nothing *)
Definition fr (p p' : sp) : Prop :=
  parsed_start p' = parsed_start p /\ gap_start p' = gap_start p /\ buffer p' = buffer p /\
  free_start p' = free_start p /\ stream p' = stream p.

Lemma fr_refl p : fr p p.
Proof. repeat split. Qed.
Lemma fr_trans a b c : fr a b -> fr b c -> fr a c.
Proof. intros (A1 & A2 & A3 & A4 & A5) (B1 & B2 & B3 & B4 & B5). repeat split; congruence. Qed.

Definition lpost (l : lstate) (f : cflow) : Prop :=
  match f with
  | CContinue l' => ZP (lres l') -> ZP (lres l) /\ (lcap l <> Some 0 -> fr (lp l) (lp l') /\ lcap l' = lcap l)
  | CBreak l' => ZP (lres l') -> ZP (lres l) /\ (lcap l <> Some 0 -> fr (lp l) (lp l') /\ lcap l' = lcap l /\
                                 (invars_ok (lp l') = true -> quiet (lp l')))
  | _ => True
  end.

Lemma lpost_trans l l2 f : (ZP (lres l2) -> ZP (lres l) /\ (lcap l <> Some 0 -> fr (lp l) (lp l2) /\ lcap l2 = lcap l)) ->
  lpost l2 f -> lpost l f.
Proof.
  intros HZ. destruct f as [l'|l'|l' e|n]; cbn [lpost]; try tauto.
  - intros H Z. destruct (H Z) as (Z2 & K2). destruct (HZ Z2) as (Z1 & K1).
    split; [tauto|]. intros Hc. destruct (K1 Hc) as (F1 & C1). destruct (K2 ltac:(congruence)) as (F2 & C2).
    split; [eapply fr_trans; eassumption|congruence].
  - intros H Z. destruct (H Z) as (Z2 & K2). destruct (HZ Z2) as (Z1 & K1).
    split; [tauto|]. intros Hc. destruct (K1 Hc) as (F1 & C1). destruct (K2 ltac:(congruence)) as (F2 & C2 & Q2).
    split; [eapply fr_trans; eassumption|]. split; [congruence|exact Q2].
Qed.

Lemma set_core_id p st : sst p = st ->
  set_core p (raw_start p) (payload_rem p) (padding_rem p) st (output p) (gap_start p) (buffer p) = p.
Proof. intros <-. destruct p. reflexivity. Qed.

Lemma pfin_q l p' res cap' consumed :
  let p := lp l in
  (ZP res -> ZP (lres l)) ->
  (ZP res -> lcap l <> Some 0 -> cap' = lcap l /\ fr p p') ->
  (ZP res -> lcap l <> Some 0 ->
     invars_ok (set_core p' (raw_start p + consumed) (payload_rem p - consumed) (padding_rem p') (sst p')
                                  (output p') (gap_start p') (buffer p')) = true ->
     ~ ((payload_rem p - consumed =? 0) && (consumed <? free_start p - raw_start p) = true) ->
     quiet (set_core p' (raw_start p + consumed) (payload_rem p - consumed) (padding_rem p') (sst p')
                     (output p') (gap_start p') (buffer p'))) ->
  lpost l (pfin p p' res cap' consumed).
Proof.
  intros p H0 H1 H2. unfold pfin. cbv zeta.
  destruct (N.min (payload_rem p) (free_start p - raw_start p) <? consumed); [exact I|].
  set (p'' := set_core p' (raw_start p + consumed) (payload_rem p - consumed) (padding_rem p') (sst p')
                       (output p') (gap_start p') (buffer p')) in *.
  destruct (invars_ok p'') eqn:EI; cbn [negb]; [|exact I].
  assert (F : ZP res -> lcap l <> Some 0 -> fr p p'').
  { intros Z Hc. destruct (H1 Z Hc) as (_ & (F1 & F2 & F3 & F4 & F5)). repeat split; assumption. }
  change (payload_rem p'') with (payload_rem p - consumed).
  destruct ((payload_rem p - consumed =? 0) && (consumed <? free_start p - raw_start p)) eqn:EC; cbn [lpost lres lcap lp].
  - intros Z. split; [apply H0; exact Z|]. intros Hc. split; [apply F; assumption|apply H1; assumption].
  - intros Z. split; [apply H0; exact Z|]. intros Hc. split; [apply F; assumption|]. split; [apply H1; assumption|].
    intros _. apply H2; [exact Z|exact Hc|reflexivity|discriminate].
Qed.

Lemma payload_q l : 0 < payload_rem (lp l) -> raw_start (lp l) < free_start (lp l) ->
  lpost l (parse_payload maxc l).
Proof.
  intros Hp Hr. rewrite parse_payload_unfold. cbv zeta.
  set (p := lp l) in *. set (pl := N.min (payload_rem p) (free_start p - raw_start p)).
  assert (Hpl : 0 < pl) by (subst pl; lia).
  assert (SK : forall p' res st' out', (ZP res -> ZP (lres l)) -> 
             p' = set_core p (raw_start p) (payload_rem p) (padding_rem p) st' out' (gap_start p) (buffer p) ->
             lpost l (pfin p p' res (lcap l) pl)).
  { intros p' res st' out' HZ ->. apply pfin_q.
    - exact HZ.
    - intros Z _. split; [reflexivity|]. repeat split.
    - intros _ _ _ HB. left. cbn [set_core free_start raw_start].
      rewrite andb_true_iff, N.eqb_eq, N.ltb_lt in HB. subst pl p. lia. }
  destruct (sst p) as [| |vars] eqn:Est.
  - destruct (lcap l) as [c|] eqn:Ecap.
    + apply pfin_q.
      * intros [Z1 Z2]. cbn [s_stream s_end] in Z1, Z2. split; [lia|exact Z2].
      * intros [Z _] Hc. cbn [s_stream] in Z. exfalso. assert (c <> 0) by congruence. lia.
      * intros [Z _] Hc. cbn [s_stream] in Z. exfalso. assert (c <> 0) by congruence. lia.
    + apply pfin_q.
      * intros [Z _]. cbn [s_stream] in Z. exfalso. lia.
      * intros [Z _]. cbn [s_stream] in Z. exfalso. lia.
      * intros [Z _]. cbn [s_stream] in Z. exfalso. lia.
  - apply (SK p (lres l) SSkip (output p)); [tauto|]. symmetry. apply set_core_id. exact Est.
  - destruct (nv_run (slice (raw_start p) (raw_start p + pl) (buffer p))) as [ps rest] eqn:En.
    destruct (N.ltb_spec (free_start p - raw_start p) (payload_rem p)) as [Hlt|Hge].
    + apply pfin_q.
      * tauto.
      * intros Z _. split; [reflexivity|]. repeat split.
      * intros _ _ HI _. right. right. exists (vars_of_pairs vars ps).
        cbn [set_core sst payload_rem free_start raw_start raw_bytes buffer padding_rem gap_start output] in *. fold p.
        assert (Epl : pl = free_start p - raw_start p) by (subst pl; lia).
        pose proof (nv_run_rest (slice (raw_start p) (raw_start p + pl) (buffer p))) as (pre & Hpre & Hnone).
        rewrite En in Hpre, Hnone. cbn [snd] in Hpre, Hnone.
        unfold invars_ok in HI. cbn [set_core parsed_start gap_start raw_start free_start buffer output output_start] in HI.
        assert (Hfs : free_start p <= len (buffer p)) by lia.
        assert (Hlen : len (slice (raw_start p) (raw_start p + pl) (buffer p)) = pl).
        { rewrite len_slice_le by lia. lia. }
        rewrite Hpre, len_app in Hlen.
        split; [reflexivity|]. split; [lia|]. split; [lia|].
        unfold raw_bytes. cbn [set_core raw_start free_start buffer].
        replace (free_start p) with (raw_start p + pl) by lia.
        rewrite <- drop_slice, Hpre.
        replace (pl - len rest) with (len pre) by lia.
        rewrite drop_app_ge by lia. replace (len pre - len pre) with 0 by lia. rewrite drop_0. exact Hnone.
    + apply (SK _ _ (SValues (vars_of_pairs vars ps)) (output p ++ write_response (vars_of_pairs vars ps) maxc)).
      * intros [Z1 Z2]. split; assumption.
      * reflexivity.
Qed.

Lemma hgo_q l st cl pl out added : lpost l (hgo l st cl pl out added).
Proof.
  unfold hgo. cbv zeta. destruct (invars_ok _); cbn [negb]; [|exact I].
  cbn [lpost lres lcap lp]. intros [Z1 Z2]. cbn [s_stream s_end] in Z1, Z2. split; [split; assumption|].
  intros _. split; [repeat split|reflexivity].
Qed.

Lemma head_q l : lpost l (parse_head l).
Proof.
  rewrite parse_head_unfold. cbv zeta.
  destruct (is_record_boundary (lp l)) eqn:Eb; cbn [negb]; [|exact I].
  destruct (N.ltb_spec (free_start (lp l)) (raw_start (lp l) + HEADER_LEN)) as [Hs|Hs].
  { cbn [lpost]. intros Z. split; [exact Z|]. intros _. split; [apply fr_refl|]. split; [reflexivity|].
    intros _. right. left. split; assumption. }
  assert (SE : forall p, lpost l (CBreak (mkL p (mkStatus (s_stream (lres l)) true (s_output (lres l)) (s_dest (lres l))) (lcap l)))).
  { intros p. cbn [lpost lres]. intros [_ Z]. cbn [s_end] in Z. discriminate Z. }
  destruct (hdr_decode _) as [t id cl pl|v|t]; try exact I; try apply hgo_q.
  destruct (is_input_stream t && (id =? r_id (sreq (lp l)))).
  - destruct (cmp_input_streams _ t _) as [[| |]|]; try exact I; try apply hgo_q; try apply SE.
    destruct (negb (cl =? 0)); [apply hgo_q|apply SE].
  - destruct ((t =? RT_AbortRequest) && _); [exact I|].
    destruct ((t =? RT_BeginRequest) && _); [apply hgo_q|].
    destruct ((t =? RT_GetValues) && _); apply hgo_q.
Qed.

Lemma after_pl_q l : lpost l (after_pl l).
Proof.
  unfold after_pl. cbv zeta. destruct (0 <? padding_rem (lp l)); [|apply head_q].
  destruct (negb (payload_rem (lp l) =? 0)); [exact I|].
  destruct (N.leb_spec (free_start (lp l) - raw_start (lp l)) (padding_rem (lp l))) as [Hle|Hgt].
  - cbn [lpost lres lcap lp]. intros Z. split; [exact Z|]. intros _. split; [repeat split|]. split; [reflexivity|].
    intros _. left. cbn [set_core free_start raw_start]. lia.
  - eapply lpost_trans; [|apply head_q]; cbn [lres lcap lp].
    intros Z. split; [exact Z|]. intros _. split; [repeat split|reflexivity].
Qed.

Lemma iter_q l : raw_start (lp l) < free_start (lp l) -> lpost l (parse_iter maxc l).
Proof.
  intros Hr. rewrite parse_iter_unfold. destruct (N.ltb_spec 0 (payload_rem (lp l))) as [Hp|Hp]; [|apply after_pl_q].
  pose proof (payload_q l Hp Hr) as H. destruct (parse_payload maxc l) as [l'|l'|l' e|n]; try exact H; try exact I.
  cbn [lpost] in H. eapply lpost_trans; [exact H|apply after_pl_q].
Qed.

Lemma loop_q fuel : forall l, lpost l (parse_loop maxc fuel l).
Proof.
  induction fuel as [|f IH]; intros l; [exact I|]. cbn [parse_loop].
  destruct (N.ltb_spec (raw_start (lp l)) (free_start (lp l))) as [Hr|Hr].
  - pose proof (iter_q l Hr) as H. destruct (parse_iter maxc l) as [l'|l'|l' e|n]; try exact H; try exact I.
    cbn [lpost] in H. eapply lpost_trans; [exact H|apply IH].
  - cbn [lpost]. intros Z. split; [exact Z|]. intros _. split; [apply fr_refl|]. split; [reflexivity|]. intros _. left. exact Hr.
Qed.

Lemma loop_no_continue fuel : forall l l', parse_loop maxc fuel l <> CContinue l'.
Proof.
  induction fuel as [|f IH]; intros l l'; [discriminate|]. cbn [parse_loop].
  destruct (raw_start (lp l) <? free_start (lp l)); [|discriminate].
  destruct (parse_iter maxc l) as [l2|l2|l2 e|n]; try discriminate. apply IH.
Qed.

(* one call of Parser::parse that reports nothing *)
Lemma sparse_q p new dest p1 s : sparse maxc p new dest = StOk p1 s -> ZP s -> dest <> Some 0 ->
  invars_ok p1 = true /\ quiet p1 /\ stream p1 <> None /\
  (dest <> None -> parsed_start p1 = gap_start p1) /\
  (stream_buffer p = [] -> parsed_start p1 = gap_start p1).
Proof.
  unfold sparse. intros E Z Hd.
  destruct (match dest with Some _ => negb (parsed_start p =? gap_start p) | None => false end) eqn:E1; [discriminate E|].
  destruct (N.ltb_spec (len (buffer p) - free_start p) (len new)) as [Hn|Hn]; [discriminate E|].
  set (p0 := upd_idx p (write_at (buffer p) (free_start p) new) (parsed_start p) (gap_start p) (raw_start p)
                     (free_start p + len new)) in E.
  set (res0 := mkStatus 0 (match stream p with None => true | Some _ => false end) 0 []) in E.
  pose proof (loop_q (2 * length (buffer p) + 8) (mkL p0 res0 dest)) as LQ.
  assert (FIN : forall l', lpost (mkL p0 res0 dest) (CBreak l') -> invars_ok (lp l') = true -> lp l' = p1 -> lres l' = s ->
            invars_ok p1 = true /\ quiet p1 /\ stream p1 <> None /\
            (dest <> None -> parsed_start p1 = gap_start p1) /\
            (stream_buffer p = [] -> parsed_start p1 = gap_start p1)).
  { intros l' LP EI <- <-. cbn [lpost lres lcap lp] in LP. destruct (LP Z) as ((_ & Z0) & K).
    destruct (K Hd) as ((F1 & F2 & F3 & F4 & F5) & _ & Q).
    cbn [res0 s_end] in Z0. unfold p0 in F1, F2, F3, F4, F5. cbn [upd_idx parsed_start gap_start buffer free_start stream] in F1, F2, F3, F4, F5.
    split; [exact EI|]. split; [apply Q; exact EI|].
    split; [rewrite F5; destruct (stream p); [discriminate|discriminate Z0]|].
    split.
    - intros Hdn. destruct dest as [c|]; [|contradiction]. rewrite F1, F2.
      destruct (N.eqb_spec (parsed_start p) (gap_start p)) as [Heq|Hne]; [exact Heq|discriminate E1].
    - intros Hsb. unfold invars_ok in EI. rewrite F1, F2 in *. rewrite F3, F4 in EI.
      assert (HL : len (write_at (buffer p) (free_start p) new) = len (buffer p) \/ len (buffer p) < free_start p).
      { destruct (N.le_gt_cases (free_start p) (len (buffer p))) as [Hle|Hgt]; [left|right; exact Hgt].
        apply len_write_at. lia. }
      destruct HL as [HL|HL].
      + rewrite HL in EI. apply (f_equal len) in Hsb. unfold stream_buffer in Hsb. rewrite len_slice, len_nil in Hsb. lia.
      + exfalso. assert (Hnew : new = []) by (apply len_zero_nil; lia). subst new.
        unfold write_at in EI. rewrite len_nil in EI. cbn [app] in EI.
        rewrite take_all, drop_all, app_nil_r in EI by lia. lia. }
  pose proof (loop_no_continue (2 * length (buffer p) + 8) (mkL p0 res0 dest)) as NC.
  destruct (parse_loop maxc (2 * length (buffer p) + 8) (mkL p0 res0 dest)) as [l'|l'|l' e|n]; try discriminate E.
  - exfalso. apply (NC l'). reflexivity.
  - destruct (invars_ok (lp l')) eqn:EI; [|discriminate E]. injection E as E2 E3.
    apply (FIN l' LQ EI E2 E3).
Qed.

(* ... and the next call, without new bytes, is the identity *)
Lemma upd_idx_id p : upd_idx p (buffer p) (parsed_start p) (gap_start p) (raw_start p) (free_start p) = p.
Proof. destruct p. reflexivity. Qed.

Lemma sparse_rerun q dest : invars_ok q = true -> quiet q -> stream q <> None ->
  (dest <> None -> parsed_start q = gap_start q) ->
  sparse maxc q [] dest = StOk q (mkStatus 0 false 0 []).
Proof.
  intros HI HQ HS HD. unfold sparse.
  assert (E1 : (match dest with Some _ => negb (parsed_start q =? gap_start q) | None => false end) = false).
  { destruct dest as [c|]; [|reflexivity]. rewrite HD by discriminate. rewrite N.eqb_refl. reflexivity. }
  rewrite E1. rewrite len_nil.
  destruct (N.ltb_spec (len (buffer q) - free_start q) 0) as [Hn|_]; [lia|].
  assert (HI' := HI). unfold invars_ok in HI'.
  assert (EW : write_at (buffer q) (free_start q) [] = buffer q).
  { unfold write_at. rewrite len_nil, N.add_0_r. cbn [app]. apply take_drop. }
  rewrite EW, N.add_0_r, upd_idx_id.
  assert (ES : (match stream q with None => true | Some _ => false end) = false) by (destruct (stream q); [reflexivity|contradiction]).
  rewrite ES. set (l0 := mkL q (mkStatus 0 false 0 []) dest).
  assert (GOAL : parse_loop maxc (2 * length (buffer q) + 8) l0 = CBreak l0).
  { replace (2 * length (buffer q) + 8)%nat with (S (2 * length (buffer q) + 7)) by lia. cbn [parse_loop]. cbn [l0 lp].
    destruct HQ as [HQ|[(HB & HH)|(vars & Hst & Hp & Hlt & Hnv)]].
    - destruct (N.ltb_spec (raw_start q) (free_start q)) as [Hr|Hr]; [lia|reflexivity].
    - destruct (N.ltb_spec (raw_start q) (free_start q)) as [Hr|Hr]; [|reflexivity].
      rewrite parse_iter_unfold. cbn [l0 lp]. unfold is_record_boundary in HB. apply andb_prop in HB. destruct HB as [HB1 HB2].
      apply N.eqb_eq in HB1, HB2. rewrite HB1. change (0 <? 0) with false. cbv iota.
      unfold after_pl. cbv zeta. cbn [l0 lp]. rewrite HB2. change (0 <? 0) with false. cbv iota.
      rewrite parse_head_unfold. cbv zeta. cbn [l0 lp]. unfold is_record_boundary. rewrite HB1, HB2.
      change (0 =? 0) with true. cbn [andb negb].
      destruct (N.ltb_spec (free_start q) (raw_start q + HEADER_LEN)) as [_|Hge]; [reflexivity|lia].
    - destruct (N.ltb_spec (raw_start q) (free_start q)) as [Hr|Hr]; [|reflexivity].
      rewrite parse_iter_unfold. cbn [l0 lp]. destruct (N.ltb_spec 0 (payload_rem q)) as [_|Hp']; [|lia].
      rewrite parse_payload_unfold. cbv zeta. cbn [l0 lp lres lcap]. rewrite Hst.
      replace (N.min (payload_rem q) (free_start q - raw_start q)) with (free_start q - raw_start q) by lia.
      replace (raw_start q + (free_start q - raw_start q)) with (free_start q) by lia.
      fold (raw_bytes q). rewrite (nv_run_none _ Hnv).
      destruct (N.ltb_spec (free_start q - raw_start q) (payload_rem q)) as [_|Hge]; [|lia].
      unfold pfin. cbv zeta. cbn [set_core raw_start free_start payload_rem padding_rem sst output gap_start buffer parsed_start].
      replace (N.min (payload_rem q) (free_start q - raw_start q)) with (free_start q - raw_start q) by lia.
      assert (Hlr : len (raw_bytes q) = free_start q - raw_start q) by (unfold raw_bytes; rewrite len_slice_le by lia; reflexivity).
      rewrite Hlr, N.sub_diag. destruct (N.ltb_spec (free_start q - raw_start q) 0) as [Hx|_]; [lia|].
      rewrite N.add_0_r, N.sub_0_r.
      change (vars_of_pairs vars []) with vars. rewrite !(set_core_id q (SValues vars) Hst).
      rewrite HI. cbn [negb].
      destruct (N.eqb_spec (payload_rem q) 0) as [H0|_]; [lia|]. cbn [andb]. reflexivity. }
  rewrite GOAL. cbn [l0 lp lres]. rewrite HI. reflexivity.
Qed.

(* the state poll_input leaves behind when it suspends: compressed, nothing to parse, nothing to flush *)
Definition cquiet (q : sp) : Prop :=
  invars_ok q = true /\ quiet q /\ stream q <> None /\ parsed_start q = 0 /\ gap_start q = 0 /\ raw_start q = 0 /\
  output_buffer q = [].

Lemma compress_c p : invars_ok p = true -> parsed_start p = gap_start p ->
  exists b2, compress p = upd_idx p b2 0 0 0 (free_start p - raw_start p) /\ len b2 = len (buffer p) /\
             slice 0 (free_start p - raw_start p) b2 = raw_bytes p.
Proof.
  intros HI Hpg. unfold invars_ok in HI. unfold compress. cbv zeta. rewrite Hpg, N.sub_diag, N.ltb_irrefl, andb_false_r, N.sub_0_r.
  destruct (N.ltb_spec 0 (raw_start p)) as [Ha|Ha]; cbn [andb].
  - destruct (N.ltb_spec (raw_start p) (free_start p)) as [Hb|Hb].
    + exists (copy_within (buffer p) (raw_start p) (free_start p) 0). split; [reflexivity|].
      split; [apply len_copy_within; lia|].
      replace (free_start p - raw_start p) with (0 + (free_start p - raw_start p)) at 1 by lia.
      apply slice_copy_within; lia.
    + exists (buffer p). split; [reflexivity|]. split; [reflexivity|]. unfold raw_bytes.
      rewrite !slice_nil by lia. reflexivity.
  - exists (buffer p). split; [reflexivity|]. split; [reflexivity|]. unfold raw_bytes.
    replace (raw_start p) with 0 by lia. rewrite N.sub_0_r. reflexivity.
Qed.

Lemma compress_id q : parsed_start q = 0 -> gap_start q = 0 -> raw_start q = 0 -> compress q = q.
Proof.
  destruct q as [b ps gs rs fs o os rq st pr pd ss]. cbn [parsed_start gap_start raw_start]. intros -> -> ->.
  unfold compress, upd_idx. cbn [buffer parsed_start gap_start raw_start free_start output output_start sreq stream payload_rem padding_rem sst].
  change (0 - 0) with 0. change (0 <? 0) with false. cbn [andb]. rewrite N.sub_0_r. reflexivity.
Qed.

Lemma cquiet_after p q : invars_ok p = true -> quiet p -> stream p <> None -> parsed_start p = gap_start p ->
  sp_same_but_output (compress p) q -> invars_ok q = true -> output_buffer q = [] -> cquiet q.
Proof.
  intros HI HQ HS Hpg SS HIq Ho.
  destruct (compress_c p HI Hpg) as (b2 & EC & HL & HR). rewrite EC in SS.
  destruct SS as (S1 & S2 & S3 & S4 & S5 & S6 & S7 & S8 & S9 & S10).
  cbn [upd_idx buffer parsed_start gap_start raw_start free_start sreq stream payload_rem padding_rem sst] in *.
  unfold invars_ok in HI.
  split; [exact HIq|]. split; [|split; [rewrite S7; exact HS|repeat split; assumption]].
  destruct HQ as [HQ|[(HB & HH)|(vars & Hst & Hp & Hlt & Hnv)]].
  - left. lia.
  - right. left. split; [unfold is_record_boundary in *; rewrite S8, S9; exact HB|lia].
  - right. right. exists vars. split; [congruence|]. split; [lia|]. split; [lia|].
    unfold raw_bytes. rewrite S1, S4, S5, HR. exact Hnv.
Qed.

Lemma consume_output_invars p n : invars_ok p = true -> invars_ok (consume_output p n) = true.
Proof.
  unfold invars_ok, consume_output. intros H. destruct (N.leb_spec (len (output p) - output_start p) n) as [Hle|Hgt];
    cbn [buffer parsed_start gap_start raw_start free_start output output_start]; rewrite ?len_nil; lia.
Qed.
End Requiet.

(* ================================================================================================ *)
(* Part A1: worlds that differ in the shutdown bookkeeping only                                     *)
(* ================================================================================================ *)
Notation sms := same_mod_stop.

Lemma sms_refl w : sms w w.
Proof. repeat split. Qed.
Lemma sms_sym w1 w2 : sms w1 w2 -> sms w2 w1.
Proof. intros (A1 & A2 & A3 & A4 & A5 & A6 & A7). repeat split; congruence. Qed.
Lemma sms_trans w1 w2 w3 : sms w1 w2 -> sms w2 w3 -> sms w1 w3.
Proof. intros (A1 & A2 & A3 & A4 & A5 & A6 & A7) (B1 & B2 & B3 & B4 & B5 & B6 & B7). repeat split; congruence. Qed.
Lemma sms_bump_l w : sms (w_bump w) w.
Proof. repeat split. Qed.
Lemma sms_stop_l w : sms (w_stop w) w.
Proof. repeat split. Qed.
Lemma sms_bump w1 w2 : sms w1 w2 -> sms (w_bump w1) (w_bump w2).
Proof. intros H. exact H. Qed.
Lemma sms_ev w1 w2 e : sms w1 w2 -> sms (w_ev w1 e) (w_ev w2 e).
Proof. intros (A1 & A2 & A3 & A4 & A5 & A6 & A7). repeat split; try assumption. cbn [w_ev events]. congruence. Qed.

Lemma sms_io_fuel w1 w2 x : sms w1 w2 -> io_fuel w1 x = io_fuel w2 x.
Proof. intros (A1 & A2 & A3 & _). unfold io_fuel. rewrite A1, A2, A3. reflexivity. Qed.

Lemma sms_tpr L w1 w2 : sms w1 w2 ->
  fst (t_poll_read L w1) = fst (t_poll_read L w2) /\ sms (snd (t_poll_read L w1)) (snd (t_poll_read L w2)).
Proof.
  intros S. pose proof S as (A1 & A2 & A3 & A4 & A5 & A6 & A7). unfold t_poll_read. rewrite A1, A3, A4, A5.
  assert (SR : forall rs sg c, sms (w_set_r w1 rs sg c) (w_set_r w2 rs sg c)) by (intros; repeat split; assumption).
  destruct (L =? 0); [split; [reflexivity|exact S]|].
  destruct (skip_empty_segs (segs w2)) as [|[[ge gm] b] rest]; [split; [reflexivity|apply SR]|].
  destruct (count_records _ _ 0 0) as [e m]. destruct ((e <? ge) || (m <? gm)); [split; [reflexivity|exact S]|].
  destruct (rscript w2) as [|r t]; cbv beta iota zeta.
  - destruct (L =? 0); [split; [reflexivity|apply SR]|]. destruct (L =? R_ERR); split; try reflexivity; apply SR.
  - destruct (r =? 0); [split; [reflexivity|apply SR]|]. destruct (r =? R_ERR); split; try reflexivity; apply SR.
Qed.

Lemma sms_tpw offer w1 w2 : sms w1 w2 ->
  fst (t_poll_write offer w1) = fst (t_poll_write offer w2) /\ sms (snd (t_poll_write offer w1)) (snd (t_poll_write offer w2)).
Proof.
  intros S. pose proof S as (A1 & A2 & A3 & A4 & A5 & A6 & A7). unfold t_poll_write. rewrite A2, A4.
  assert (SW : forall ws lg, sms (w_set_w w1 ws lg) (w_set_w w2 ws lg)) by (intros; repeat split; assumption).
  destruct (wscript w2) as [|k ws']; [split; [reflexivity|apply SW]|].
  destruct (k =? 0); [split; [reflexivity|apply SW]|].
  destruct (k =? W_ZERO); [split; [reflexivity|apply SW]|].
  destruct (k =? W_ERR); [split; [reflexivity|apply SW]|].
  destruct (k =? W_ERR_AB); split; try reflexivity; apply SW.
Qed.

Lemma gated_sms w1 w2 : gated w1 -> sms w1 w2 -> gated w2.
Proof.
  intros G S L HL. specialize (G L HL). destruct (sms_tpr L w1 w2 S) as [E1 _]. rewrite G in E1. cbn [fst] in E1.
  destruct (t_poll_read L w2) as [p w'] eqn:ET. cbn [fst] in E1. subst p.
  destruct (t_poll_read_rem _ _ _ _ ET) as (_ & _ & _ & (-> & _)). reflexivity.
Qed.

Section SimA.
Variable maxc : N.

Ltac triv S := split; [reflexivity|exact S].

Lemma sms_poll_output fuel : forall r w1 w2, sms w1 w2 ->
  fst (poll_output fuel r w1) = fst (poll_output fuel r w2) /\ sms (snd (poll_output fuel r w1)) (snd (poll_output fuel r w2)).
Proof.
  induction fuel as [|f IH]; intros r w1 w2 HS; [triv HS|].
  cbn [poll_output]. destruct (output_buffer (rsp r)) as [|x o] eqn:Eo; [triv HS|].
  destruct (sms_tpw (x :: o) w1 w2 HS) as [E1 S1].
  destruct (t_poll_write (x :: o) w1) as [p1 w1']. destruct (t_poll_write (x :: o) w2) as [p2 w2']. cbn [fst snd] in E1, S1. subst p2.
  destruct p1 as [[n|k]| |]; try (triv S1).
  destruct (n =? 0); [triv S1|]. apply IH. exact S1.
Qed.

Lemma sms_input_loop fuel : forall dest new r w1 w2, sms w1 w2 ->
  fst (input_loop maxc fuel dest new r w1) = fst (input_loop maxc fuel dest new r w2) /\
  sms (snd (input_loop maxc fuel dest new r w1)) (snd (input_loop maxc fuel dest new r w2)).
Proof.
  induction fuel as [|f IH]; intros dest new r w1 w2 HS; [triv HS|].
  cbn [input_loop]. destruct (sparse maxc (rsp r) new dest) as [p1 s|p1 e s|n]; try (triv HS).
  destruct (s_end s || (0 <? s_stream s)); [triv HS|].
  set (r2 := mkR (compress p1) (rwriteable r) (rlock r) (raborted r)).
  destruct (sms_poll_output (S f) r2 w1 w2 HS) as [E1 S1].
  destruct (poll_output (S f) r2 w1) as [[po1 r31] w01]. destruct (poll_output (S f) r2 w2) as [[po2 r32] w02].
  cbn [fst snd] in E1, S1. injection E1 as -> ->.
  destruct po2 as [[u|k]| |]; try (triv S1).
  destruct (sms_tpr (sinput_space (rsp r32)) w01 w02 S1) as [E2 S2].
  destruct (t_poll_read (sinput_space (rsp r32)) w01) as [q1 w1']. destruct (t_poll_read (sinput_space (rsp r32)) w02) as [q2 w2'].
  cbn [fst snd] in E2, S2. subst q2.
  destruct q1 as [[b|k]| |]; try (triv S2).
  destruct b as [|x b']; [triv S2|]. apply IH. exact S2.
Qed.

Lemma sms_poll_input fuel dest r w1 w2 : sms w1 w2 ->
  fst (poll_input maxc fuel dest r w1) = fst (poll_input maxc fuel dest r w2) /\
  sms (snd (poll_input maxc fuel dest r w1)) (snd (poll_input maxc fuel dest r w2)).
Proof.
  intros HS. unfold poll_input. cbv zeta.
  assert (EMPTY :
    fst (match poll_output fuel r w1 with
     | (PReady (inl _), r', w') => input_loop maxc fuel dest [] r' w'
     | (PReady (inr k), r', w') => (PReady (inr k), r', w')
     | (PWake, r', w') => (PWake, r', w')
     | (PBlock, r', w') => (PBlock, r', w')
     end) =
    fst (match poll_output fuel r w2 with
     | (PReady (inl _), r', w') => input_loop maxc fuel dest [] r' w'
     | (PReady (inr k), r', w') => (PReady (inr k), r', w')
     | (PWake, r', w') => (PWake, r', w')
     | (PBlock, r', w') => (PBlock, r', w')
     end) /\
    sms (snd (match poll_output fuel r w1 with
     | (PReady (inl _), r', w') => input_loop maxc fuel dest [] r' w'
     | (PReady (inr k), r', w') => (PReady (inr k), r', w')
     | (PWake, r', w') => (PWake, r', w')
     | (PBlock, r', w') => (PBlock, r', w')
     end))
    (snd (match poll_output fuel r w2 with
     | (PReady (inl _), r', w') => input_loop maxc fuel dest [] r' w'
     | (PReady (inr k), r', w') => (PReady (inr k), r', w')
     | (PWake, r', w') => (PWake, r', w')
     | (PBlock, r', w') => (PBlock, r', w')
     end))).
  { destruct (sms_poll_output fuel r w1 w2 HS) as [E1 S1].
    destruct (poll_output fuel r w1) as [[po1 r11] w11]. destruct (poll_output fuel r w2) as [[po2 r12] w12].
    cbn [fst snd] in E1, S1. injection E1 as -> ->.
    destruct po2 as [[u|k]| |]; try (triv S1). apply sms_input_loop. exact S1. }
  destruct dest as [[|pc]|]; destruct (stream_buffer (rsp r)) as [|x sb]; try exact EMPTY; triv HS.
Qed.

(* ---- the two scripts only shrink; a wake-up consumes an entry ---- *)
Definition sl (w : world) : nat := (length (rscript w) + length (wscript w))%nat.

Lemma tpw_sl offer w p w' : t_poll_write offer w = (p, w') -> (sl w' <= sl w)%nat /\ (p = PWake -> (sl w' < sl w)%nat).
Proof.
  unfold t_poll_write, sl. destruct (wscript w) as [|k ws'].
  - intros E. injection E as <- <-. cbn [w_set_w rscript wscript length]. split; [lia|discriminate].
  - cbn [length].
    destruct (k =? 0); [intros E; injection E as <- <-; cbn [w_set_w rscript wscript]; split; [lia|intros _; lia]|].
    destruct (k =? W_ZERO); [intros E; injection E as <- <-; cbn [w_set_w rscript wscript]; split; [lia|discriminate]|].
    destruct (k =? W_ERR); [intros E; injection E as <- <-; cbn [w_set_w rscript wscript]; split; [lia|discriminate]|].
    destruct (k =? W_ERR_AB); intros E; injection E as <- <-; cbn [w_set_w rscript wscript]; split; try lia; discriminate.
Qed.

Lemma tpr_sl L w p w' : t_poll_read L w = (p, w') -> (sl w' <= sl w)%nat /\ (p = PWake -> (sl w' < sl w)%nat).
Proof.
  unfold t_poll_read, sl. destruct (N.eqb_spec L 0) as [HL|HL]; [intros E; injection E as <- <-; split; [lia|discriminate]|].
  destruct (skip_empty_segs (segs w)) as [|[[ge gm] b] rest];
    [intros E; injection E as <- <-; cbn [w_set_r rscript wscript]; split; [lia|discriminate]|].
  destruct (count_records _ _ 0 0) as [e m]. destruct ((e <? ge) || (m <? gm)); [intros E; injection E as <- <-; split; [lia|discriminate]|].
  destruct (rscript w) as [|r t]; cbv beta iota zeta; cbn [length].
  - destruct (N.eqb_spec L 0) as [HL'|_]; [contradiction|].
    destruct (L =? R_ERR); intros E; injection E as <- <-; cbn [w_set_r rscript wscript length]; split; try lia; discriminate.
  - destruct (r =? 0); [intros E; injection E as <- <-; cbn [w_set_r rscript wscript length]; split; [lia|intros _; lia]|].
    destruct (r =? R_ERR); intros E; injection E as <- <-; cbn [w_set_r rscript wscript length]; split; try lia; discriminate.
Qed.

Lemma poll_output_sl fuel : forall r w p r' w', poll_output fuel r w = (p, r', w') ->
  (sl w' <= sl w)%nat /\ (p = PWake -> (sl w' < sl w)%nat).
Proof.
  induction fuel as [|f IH]; intros r w p r' w' E.
  { cbn [poll_output] in E. injection E as <- <- <-. split; [lia|discriminate]. }
  cbn [poll_output] in E. destruct (output_buffer (rsp r)) as [|x o]; [injection E as <- <- <-; split; [lia|discriminate]|].
  destruct (t_poll_write (x :: o) w) as [q w1] eqn:ET. destruct (tpw_sl _ _ _ _ ET) as [L1 L2].
  destruct q as [[n|k]| |]; try (injection E as <- <- <-; split; [exact L1|first [discriminate|intros _; apply L2; reflexivity]]).
  destruct (n =? 0); [injection E as <- <- <-; split; [exact L1|discriminate]|].
  destruct (IH _ _ _ _ _ E) as [M1 M2]. split; [lia|]. intros Hp. specialize (M2 Hp). lia.
Qed.

Lemma input_loop_sl fuel : forall dest new r w p r' w', input_loop maxc fuel dest new r w = (p, r', w') ->
  (sl w' <= sl w)%nat /\ (p = PWake -> (sl w' < sl w)%nat).
Proof.
  induction fuel as [|f IH]; intros dest new r w p r' w' E.
  { cbn [input_loop] in E. injection E as <- <- <-. split; [lia|discriminate]. }
  cbn [input_loop] in E. destruct (sparse maxc (rsp r) new dest) as [p1 s|p1 e s|n];
    try (injection E as <- <- <-; split; [lia|discriminate]).
  destruct (s_end s || (0 <? s_stream s)); [injection E as <- <- <-; split; [lia|discriminate]|].
  destruct (poll_output (S f) _ w) as [[po r3] w0] eqn:EPO. destruct (poll_output_sl _ _ _ _ _ _ EPO) as [L1 L2].
  destruct po as [[u|k]| |]; try (injection E as <- <- <-; split; [exact L1|first [discriminate|intros _; apply L2; reflexivity]]).
  destruct (t_poll_read (sinput_space (rsp r3)) w0) as [q w1] eqn:ET. destruct (tpr_sl _ _ _ _ ET) as [M1 M2].
  destruct q as [[b|k]| |]; try (injection E as <- <- <-; split; [lia|first [discriminate|intros _; specialize (M2 eq_refl); lia]]).
  destruct b as [|x b']; [injection E as <- <- <-; split; [lia|discriminate]|].
  destruct (IH _ _ _ _ _ _ _ E) as [K1 K2]. split; [lia|]. intros Hp. specialize (K2 Hp). lia.
Qed.

Lemma poll_input_sl fuel dest r w p r' w' : poll_input maxc fuel dest r w = (p, r', w') ->
  (sl w' <= sl w)%nat /\ (p = PWake -> (sl w' < sl w)%nat).
Proof.
  unfold poll_input. cbv zeta. intros E.
  assert (EMPTY : (match poll_output fuel r w with
     | (PReady (inl _), r1, w1) => input_loop maxc fuel dest [] r1 w1
     | (PReady (inr k), r1, w1) => (PReady (inr k), r1, w1)
     | (PWake, r1, w1) => (PWake, r1, w1)
     | (PBlock, r1, w1) => (PBlock, r1, w1)
     end) = (p, r', w') -> (sl w' <= sl w)%nat /\ (p = PWake -> (sl w' < sl w)%nat)).
  { intros E1. destruct (poll_output fuel r w) as [[po r1] w1] eqn:EPO. destruct (poll_output_sl _ _ _ _ _ _ EPO) as [L1 L2].
    destruct po as [[u|k]| |]; try (injection E1 as <- <- <-; split; [exact L1|first [discriminate|intros _; apply L2; reflexivity]]).
    destruct (input_loop_sl _ _ _ _ _ _ _ _ E1) as [K1 K2]. split; [lia|]. intros Hp. specialize (K2 Hp). lia. }
  destruct dest as [[|pc]|]; destruct (stream_buffer (rsp r)) as [|x sb];
    try (apply EMPTY; exact E); injection E as <- <- <-; split; try lia; discriminate.
Qed.

(* ---- a suspended poll_input suspends again when polled again ---- *)
Definition Blocked (dest : option N) (r : rstate) (w : world) : Prop :=
  gated w /\ dest <> Some 0 /\ cquiet (rsp r) /\ sinput_space (rsp r) <> 0 /\ rlock r = false.

Lemma Blocked_sms dest r w1 w2 : Blocked dest r w1 -> sms w1 w2 -> Blocked dest r w2.
Proof. intros (G & H) HS. split; [eapply gated_sms; eassumption|exact H]. Qed.

Lemma poll_output_invars fuel : forall r w, invars_ok (rsp r) = true -> invars_ok (rsp (snd (fst (poll_output fuel r w)))) = true.
Proof.
  induction fuel as [|f IH]; intros r w H; [exact H|]. cbn [poll_output].
  destruct (output_buffer (rsp r)) as [|x o]; [exact H|].
  destruct (t_poll_write (x :: o) w) as [[[n|k]| |] w1]; try exact H.
  destruct (n =? 0); [exact H|]. apply IH. cbn [rsp]. apply consume_output_invars. exact H.
Qed.

Lemma input_loop_blocked fuel : forall dest new r w r' w', dest <> Some 0 -> stream_buffer (rsp r) = [] ->
  input_loop maxc fuel dest new r w = (PBlock, r', w') -> Blocked dest r' w'.
Proof.
  induction fuel as [|f IH]; intros dest new r w r' w' Hd Hsb E; [discriminate E|].
  cbn [input_loop] in E. destruct (sparse maxc (rsp r) new dest) as [p1 s|p1 e s|n] eqn:ES; try discriminate E.
  destruct (s_end s || (0 <? s_stream s)) eqn:EZ; [discriminate E|].
  assert (Z : ZP s).
  { apply orb_false_elim in EZ. destruct EZ as [Z1 Z2]. split; [|exact Z1]. apply N.ltb_ge in Z2. lia. }
  destruct (sparse_q maxc _ _ _ _ _ ES Z Hd) as (Q1 & Q2 & Q3 & _ & Q5). specialize (Q5 Hsb).
  set (r2 := mkR (compress p1) (rwriteable r) (rlock r) (raborted r)) in E.
  destruct (poll_output (S f) r2 w) as [[po r3] w0] eqn:EPO.
  destruct (poll_output_spec _ _ _ _ _ _ EPO) as (n & _ & _ & _ & _ & _ & SS & SB & _ & _ & _ & PP).
  cbn [r2 rsp] in SS, SB.
  destruct po as [[u|k]| |]; try discriminate E; [|contradiction].
  destruct PP as (_ & Po & Plock).
  assert (CQ : cquiet (rsp r3)).
  { eapply cquiet_after; try eassumption.
    pose proof (poll_output_invars (S f) r2 w) as PI. rewrite EPO in PI. cbn [fst snd] in PI. apply PI. cbn [r2 rsp].
    destruct (compress_c p1 Q1 Q5) as (b2 & EC & HL & _). rewrite EC. unfold invars_ok in *.
    cbn [upd_idx buffer parsed_start gap_start raw_start free_start output output_start]. lia. }
  destruct (t_poll_read (sinput_space (rsp r3)) w0) as [q w1] eqn:ET.
  destruct q as [[b|k]| |]; try discriminate E.
  - destruct b as [|x b']; [discriminate E|]. eapply IH; [exact Hd| |exact E].
    destruct CQ as (_ & _ & _ & C4 & C5 & _). unfold stream_buffer. rewrite C4, C5. apply slice_nil. lia.
  - injection E as <- <-. destruct (t_poll_read_rem _ _ _ _ ET) as (_ & _ & _ & (-> & G)).
    split; [exact G|]. split; [exact Hd|]. split; [exact CQ|]. split; [|exact Plock].
    intros H0. unfold t_poll_read in ET. rewrite H0 in ET. change (0 =? 0) with true in ET. discriminate ET.
Qed.

Lemma poll_input_blocked fuel dest r w r' w' : poll_input maxc fuel dest r w = (PBlock, r', w') -> Blocked dest r' w'.
Proof.
  unfold poll_input. cbv zeta. intros E.
  assert (EMPTY : stream_buffer (rsp r) = [] -> dest <> Some 0 -> (match poll_output fuel r w with
     | (PReady (inl _), r1, w1) => input_loop maxc fuel dest [] r1 w1
     | (PReady (inr k), r1, w1) => (PReady (inr k), r1, w1)
     | (PWake, r1, w1) => (PWake, r1, w1)
     | (PBlock, r1, w1) => (PBlock, r1, w1)
     end) = (PBlock, r', w') -> Blocked dest r' w').
  { intros Hsb Hd E1. destruct (poll_output fuel r w) as [[po r1] w1] eqn:EPO.
    destruct (poll_output_spec _ _ _ _ _ _ EPO) as (n & _ & _ & _ & _ & _ & _ & SB & _ & _ & _ & PP).
    destruct po as [[u|k]| |]; try discriminate E1; [|contradiction].
    eapply input_loop_blocked; [exact Hd| |exact E1]. rewrite SB. exact Hsb. }
  destruct dest as [[|pc]|]; destruct (stream_buffer (rsp r)) as [|x sb] eqn:Esb; try discriminate E;
    apply EMPTY; try reflexivity; try exact E; discriminate.
Qed.

Lemma poll_input_again fuel dest r w : Blocked dest r w -> (1 <= fuel)%nat -> poll_input maxc fuel dest r w = (PBlock, r, w).
Proof.
  intros (G & Hd & (C1 & C2 & C3 & C4 & C5 & C6 & C7) & Hsp & Hlk) Hf.
  destruct fuel as [|f]; [lia|].
  assert (Esb : stream_buffer (rsp r) = []) by (unfold stream_buffer; rewrite C4, C5; apply slice_nil; lia).
  assert (Er : mkR (rsp r) (rwriteable r) false (raborted r) = r) by (rewrite <- Hlk; destruct r; reflexivity).
  assert (EPO : forall r0, rsp r0 = rsp r -> poll_output (S f) r0 w = (PReady (inl tt), mkR (rsp r0) (rwriteable r0) false (raborted r0), w)).
  { intros r0 E0. cbn [poll_output]. rewrite E0, C7. reflexivity. }
  assert (MAIN : (match poll_output (S f) r w with
     | (PReady (inl _), r1, w1) => input_loop maxc (S f) dest [] r1 w1
     | (PReady (inr k), r1, w1) => (PReady (inr k), r1, w1)
     | (PWake, r1, w1) => (PWake, r1, w1)
     | (PBlock, r1, w1) => (PBlock, r1, w1)
     end) = (PBlock, r, w)).
  { rewrite (EPO r eq_refl), Er. cbn [input_loop].
    rewrite (sparse_rerun maxc (rsp r) dest C1 C2 C3) by (intros _; congruence).
    cbn [s_end s_stream]. change (0 <? 0) with false. cbn [orb].
    rewrite (compress_id (rsp r) C4 C5 C6).
    rewrite (EPO (mkR (rsp r) (rwriteable r) (rlock r) (raborted r)) eq_refl). cbn [rsp rwriteable raborted]. rewrite Er.
    rewrite (G _ Hsp). reflexivity. }
  unfold poll_input. cbv zeta. rewrite Esb.
  destruct dest as [[|pc]|]; [contradiction (Hd eq_refl)|exact MAIN|exact MAIN].
Qed.

(* ---- awaited computations: a run that completes, or suspends for good, does the same in the other world ---- *)
Definition rsim {A} (x1 x2 : res A) : Prop :=
  match x1 with
  | Ok a w1' => exists w2', x2 = Ok a w2' /\ sms w1' w2'
  | Halt ODeadlock w1' => exists w2', x2 = Halt ODeadlock w2' /\ sms w1' w2'
  | Halt _ _ => True
  end.

Lemma rsim_ok {A} (a : A) w1 w2 : sms w1 w2 -> rsim (Ok a w1) (Ok a w2).
Proof. intros H. exists w2. split; [reflexivity|exact H]. Qed.
Lemma rsim_dl {A} w1 w2 : sms w1 w2 -> @rsim A (Halt ODeadlock w1) (Halt ODeadlock w2).
Proof. intros H. exists w2. split; [reflexivity|exact H]. Qed.

Ltac sim_destruct H :=
  match type of H with
  | rsim ?X1 ?X2 =>
    let a := fresh "a" in let w1' := fresh "w1'" in let o := fresh "o" in let w2' := fresh "w2'" in let HS' := fresh "HS'" in
    destruct X1 as [a w1'|o w1']; cbn [rsim] in H;
    [ destruct H as (w2' & -> & HS')
    | destruct o; try exact I; destruct H as (w2' & -> & HS'); apply rsim_dl; exact HS' ]
  end.

Lemma on_wake_false {A} w (retry : world -> res A) : on_wake false w retry = retry (w_bump w).
Proof. reflexivity. Qed.

Lemma on_block_sim {A} (k : nat -> world -> res A) f w1 w2 :
  sms w1 w2 -> (1 <= f)%nat ->
  (forall w f', sms w1 w -> stopped w = true -> k (S f') w = Halt ODeadlock w) ->
  rsim (on_block false w1 (k f)) (on_block false w2 (k f)).
Proof.
  intros HS Hf HK. destruct f as [|f']; [lia|]. unfold on_block.
  destruct (negb (stop_at w1 =? 0) && negb (stopped w1)); destruct (negb (stop_at w2 =? 0) && negb (stopped w2)).
  - rewrite !HK; try reflexivity; [apply rsim_dl; exact HS| |apply sms_sym, sms_stop_l].
    eapply sms_trans; [exact HS|apply sms_sym, sms_stop_l].
  - rewrite HK; try reflexivity; [|apply sms_sym, sms_stop_l]. apply rsim_dl. eapply sms_trans; [apply sms_stop_l|exact HS].
  - rewrite HK; try reflexivity; [|eapply sms_trans; [exact HS|apply sms_sym, sms_stop_l]].
    apply rsim_dl. eapply sms_trans; [exact HS|apply sms_sym, sms_stop_l].
  - apply rsim_dl. exact HS.
Qed.

Lemma sim_awa fuel : forall b w1 w2, sms w1 w2 -> rsim (await_write_all fuel false b w1) (await_write_all fuel false b w2).
Proof.
  induction fuel as [|f IH]; intros b w1 w2 HS; [exact I|]. cbn [await_write_all].
  destruct b as [|x b']; [apply rsim_ok; exact HS|].
  destruct (sms_tpw (x :: b') w1 w2 HS) as [E1 S1].
  destruct (t_poll_write (x :: b') w1) as [p1 w1']. destruct (t_poll_write (x :: b') w2) as [p2 w2']. cbn [fst snd] in E1, S1. subst p2.
  destruct p1 as [[n|k]| |].
  - destruct (n =? 0); [apply rsim_ok; exact S1|apply IH; exact S1].
  - apply rsim_ok; exact S1.
  - rewrite !on_wake_false. apply IH. exact S1.
  - exact I.
Qed.

Lemma await_read_gated f L w : gated w -> L <> 0 -> stopped w = true -> await_read (S f) false L w = Halt ODeadlock w.
Proof.
  intros G HL Hst. cbn [await_read]. rewrite (G L HL). unfold on_block. rewrite Hst, andb_false_r. reflexivity.
Qed.

Lemma sim_await_read fuel : forall L w1 w2, sms w1 w2 -> (sl w1 + 2 <= fuel)%nat ->
  rsim (await_read fuel false L w1) (await_read fuel false L w2).
Proof.
  induction fuel as [|f IH]; intros L w1 w2 HS Hf; [exact I|]. cbn [await_read].
  destruct (sms_tpr L w1 w2 HS) as [E1 S1].
  destruct (t_poll_read L w1) as [p1 w1'] eqn:ET1. destruct (t_poll_read L w2) as [p2 w2'] eqn:ET2. cbn [fst snd] in E1, S1. subst p2.
  destruct (tpr_sl _ _ _ _ ET1) as [L1 L2].
  destruct p1 as [[b|k]| |].
  - apply rsim_ok; exact S1.
  - apply rsim_ok; exact S1.
  - rewrite !on_wake_false. apply IH; [exact S1|]. specialize (L2 eq_refl). change (sl (w_bump w1')) with (sl w1'). lia.
  - destruct (t_poll_read_rem _ _ _ _ ET1) as (_ & _ & _ & (-> & G1)).
    assert (HL : L <> 0).
    { intros ->. unfold t_poll_read in ET1. change (0 =? 0) with true in ET1. discriminate ET1. }
    apply (on_block_sim (fun f => await_read f false L)); [exact S1|lia|].
    intros w f' HSw Hst. apply await_read_gated; [eapply gated_sms; eassumption|exact HL|exact Hst].
Qed.

Lemma await_input_again f dest r w : Blocked dest r w -> stopped w = true -> await_input maxc (S f) dest r w = Halt ODeadlock w.
Proof.
  intros B Hst. cbn [await_input]. rewrite (poll_input_again _ dest r w B) by (unfold io_fuel; lia).
  unfold on_block. rewrite Hst, andb_false_r. reflexivity.
Qed.

Lemma sim_await_input fuel : forall dest r w1 w2, sms w1 w2 -> (sl w1 + 2 <= fuel)%nat ->
  rsim (await_input maxc fuel dest r w1) (await_input maxc fuel dest r w2).
Proof.
  induction fuel as [|f IH]; intros dest r w1 w2 HS Hf; [exact I|]. cbn [await_input].
  rewrite <- (sms_io_fuel w1 w2 _ HS).
  destruct (sms_poll_input (io_fuel w1 (len (buffer (rsp r)))) dest r w1 w2 HS) as [E1 S1].
  destruct (poll_input maxc _ dest r w1) as [[p1 r1] w1'] eqn:EP1. destruct (poll_input maxc _ dest r w2) as [[p2 r2] w2'] eqn:EP2.
  cbn [fst snd] in E1, S1. injection E1 as <- <-.
  destruct (poll_input_sl _ _ _ _ _ _ _ EP1) as [L1 L2].
  destruct p1 as [x| |].
  - apply rsim_ok; exact S1.
  - rewrite !on_wake_false. apply IH; [exact S1|]. specialize (L2 eq_refl). change (sl (w_bump w1')) with (sl w1'). lia.
  - pose proof (poll_input_blocked _ _ _ _ _ _ EP1) as B1.
    apply (on_block_sim (fun f => await_input maxc f dest r1)); [exact S1|lia|].
    intros w f' HSw Hst. apply await_input_again; [eapply Blocked_sms; eassumption|exact Hst].
Qed.

Lemma io_fuel_sl w x : (sl w + 2 <= io_fuel w x)%nat.
Proof. unfold io_fuel, sl. lia. Qed.

Lemma sim_do_writeable r w1 w2 : sms w1 w2 -> rsim (do_writeable maxc r w1) (do_writeable maxc r w2).
Proof.
  intros HS. unfold do_writeable. destruct (rwriteable r); [apply rsim_ok; exact HS|].
  destruct (set_stream (rsp r) _) as [p'| |]; try exact I.
  rewrite <- (sms_io_fuel w1 w2 _ HS).
  pose proof (sim_await_input (io_fuel w1 0) None (mkR p' false (rlock r) (raborted r)) w1 w2 HS (io_fuel_sl _ _)) as H.
  sim_destruct H. destruct a as [[x|k] r']; apply rsim_ok; exact HS'.
Qed.

Lemma sim_boundary_loop fuel : forall new r w1 w2, sms w1 w2 -> rsim (boundary_loop maxc fuel new r w1) (boundary_loop maxc fuel new r w2).
Proof.
  induction fuel as [|f IH]; intros new r w1 w2 HS; [exact I|].
  rewrite !ConnWrites.boundary_loop_S.
  assert (AFTER : forall p', rsim (ConnWrites.bl_after maxc f r w1 p') (ConnWrites.bl_after maxc f r w2 p')).
  { intros p'. unfold ConnWrites.bl_after. cbv zeta. destruct (is_record_boundary p'); [apply rsim_ok; exact HS|].
    rewrite <- (sms_io_fuel w1 w2 _ HS).
    pose proof (sim_await_read (io_fuel w1 0) (sinput_space (compress p')) w1 w2 HS (io_fuel_sl _ _)) as H.
    sim_destruct H. destruct a as [[|x b]|k]; [apply rsim_ok; exact HS'|apply IH; exact HS'|apply rsim_ok; exact HS']. }
  destruct (sparse maxc (rsp r) new None) as [p' s|p' e s|n]; [apply AFTER| |exact I].
  destruct e; try (apply rsim_ok; exact HS). apply AFTER.
Qed.

Lemma sim_record_boundary r w1 w2 : sms w1 w2 -> rsim (record_boundary maxc r w1) (record_boundary maxc r w2).
Proof.
  intros HS. unfold record_boundary. destruct (is_record_boundary (rsp r)); [apply rsim_ok; exact HS|].
  pose proof HS as (_ & _ & A3 & _). rewrite A3. apply sim_boundary_loop. exact HS.
Qed.

Lemma sim_close_finish r3 d c w1 w2 : sms w1 w2 -> rsim (close_finish r3 d c w1) (close_finish r3 d c w2).
Proof.
  intros HS. unfold close_finish. destruct (epilogue _ d c _) as [ep|]; [|exact I]. cbv zeta.
  rewrite <- (sms_io_fuel w1 w2 _ HS).
  pose proof (sim_awa (io_fuel w1 (len (output_buffer (rsp r3)))) (output_buffer (rsp r3)) w1 w2 HS) as H.
  sim_destruct H. destruct a as [k3|]; [apply rsim_ok; exact HS'|].
  rewrite <- (sms_io_fuel w1' w2' _ HS').
  pose proof (sim_awa (io_fuel w1' (len ep)) ep w1' w2' HS') as H2.
  sim_destruct H2. destruct a as [k4|]; [apply rsim_ok; exact HS'0|].
  destruct (N.land _ FLAG_KeepConn =? FLAG_KeepConn); [|apply rsim_ok; exact HS'0].
  destruct (into_request_parser _) as [rp| |]; [apply rsim_ok; exact HS'0|apply rsim_ok; exact HS'0|exact I].
Qed.

Lemma sim_close_tail r1 d c w1 w2 : sms w1 w2 -> rsim (close_tail maxc r1 d c w1) (close_tail maxc r1 d c w2).
Proof.
  intros HS. rewrite !close_tail_unfold. destruct (set_stream (rsp r1) None) as [p2| |]; try exact I.
  pose proof (sim_record_boundary (mkR p2 (rwriteable r1) (rlock r1) (raborted r1)) w1 w2 HS) as H.
  sim_destruct H. destruct a as [[k2|] r3]; [apply rsim_ok; exact HS'|apply sim_close_finish; exact HS'].
Qed.

Lemma sim_do_close r d c w1 w2 : sms w1 w2 -> rsim (do_close maxc r d c w1) (do_close maxc r d c w2).
Proof.
  intros HS. unfold do_close. pose proof (sim_do_writeable r w1 w2 HS) as H.
  sim_destruct H. destruct a as [[k|] r1]; [|apply sim_close_tail; exact HS'].
  destruct ((k =? EK_Aborted) && raborted r1); [apply sim_close_tail; exact HS'|apply rsim_ok; exact HS'].
Qed.

Lemma sim_write_slices fuel : forall slices w1 w2, sms w1 w2 -> rsim (write_slices fuel slices w1) (write_slices fuel slices w2).
Proof.
  induction fuel as [|f IH]; intros slices w1 w2 HS; [exact I|]. rewrite !ConnTotal.write_slices_S.
  destruct (filter (fun s => negb (len s =? 0)) slices) as [|s1 more]; [apply rsim_ok; exact HS|].
  pose proof HS as (_ & _ & _ & _ & _ & A6 & _). rewrite A6.
  match goal with |- context [t_poll_write ?o w1] => generalize o end. intros offer.
  destruct (sms_tpw offer w1 w2 HS) as [E1 S1].
  destruct (t_poll_write offer w1) as [p1 w1']. destruct (t_poll_write offer w2) as [p2 w2']. cbn [fst snd] in E1, S1. subst p2.
  destruct p1 as [[n|k]| |].
  - destruct (n =? 0); [apply rsim_ok; exact S1|apply IH; exact S1].
  - apply rsim_ok; exact S1.
  - rewrite !on_wake_false. apply IH. exact S1.
  - exact I.
Qed.

Lemma sim_writer_write_all fuel : forall stype id data w1 w2, sms w1 w2 ->
  rsim (writer_write_all fuel stype id data w1) (writer_write_all fuel stype id data w2).
Proof.
  induction fuel as [|f IH]; intros stype id data w1 w2 HS; [exact I|]. rewrite !writer_write_all_S.
  destruct data as [|x data']; [apply rsim_ok; exact HS|]. cbv zeta.
  rewrite <- (sms_io_fuel w1 w2 _ HS).
  set (n := N.min (len (x :: data')) 65535).
  pose proof (sim_write_slices (io_fuel w1 (n + 300)) [hdr_encode stype id n (auto_padding n); take n (x :: data'); zeros (auto_padding n)] w1 w2 HS) as H.
  sim_destruct H. destruct a as [k|]; [apply rsim_ok; exact HS'|apply IH; exact HS'].
Qed.

Lemma sim_read_all fuel : forall acc r w1 w2, sms w1 w2 -> rsim (read_all maxc fuel acc r w1) (read_all maxc fuel acc r w2).
Proof.
  induction fuel as [|f IH]; intros acc r w1 w2 HS; [exact I|]. cbn [read_all].
  rewrite <- (sms_io_fuel w1 w2 _ HS).
  pose proof (sim_await_input (io_fuel w1 0) (Some 64) r w1 w2 HS (io_fuel_sl _ _)) as H.
  sim_destruct H. destruct a as [[[n b]|k] r']; [|apply rsim_ok; exact HS'].
  destruct (n =? 0); [apply rsim_ok; exact HS'|apply IH; exact HS'].
Qed.

(* the shapes of a handler script *)
Inductive sc : list N -> Prop :=
| sc_nil : sc []
| sc_1 n rest : sc (1 :: n :: rest)
| sc_2 rest : sc (2 :: rest)
| sc_3 k rest : sc (3 :: k :: rest)
| sc_4 s rest : sc (4 :: s :: rest)
| sc_5 rest : sc (5 :: rest)
| sc_6 s n rest : sc (6 :: s :: n :: rest)
| sc_7 s rest : sc (7 :: s :: rest)
| sc_8 d c rest : sc (8 :: d :: c :: rest)
| sc_9 k rest : sc (9 :: k :: rest)
| sc_10 n rest : sc (10 :: n :: rest)
| sc_11 n rest : sc (11 :: n :: rest)
| sc_bad script : (forall f r w, run_handler maxc (S f) script r w = Halt (OPanic 71) w) -> sc script.

Lemma sc_all script : sc script.
Proof.
  destruct script as [|op rest]; [constructor|].
  destruct op as [|p]; [apply sc_bad; reflexivity|].
  do 4 (try destruct p as [p|p|]);
    first [ apply sc_bad; reflexivity
          | apply sc_2 | apply sc_5
          | destruct rest as [|a rest];
            first [ apply sc_bad; reflexivity
                  | apply sc_1 | apply sc_3 | apply sc_4 | apply sc_7 | apply sc_9 | apply sc_10 | apply sc_11
                  | destruct rest as [|b rest]; first [ apply sc_bad; reflexivity | apply sc_6 | apply sc_8 ] ] ].
Qed.

Lemma sim_run_handler fuel : forall script r w1 w2, sms w1 w2 ->
  rsim (run_handler maxc fuel script r w1) (run_handler maxc fuel script r w2).
Proof.
  induction fuel as [|f IH]; intros script r w1 w2 HS; [exact I|].
  destruct (sc_all script) as [|n rest|rest|k rest|s rest|rest|s n rest|s rest|d c rest|k rest|n rest|n rest|script BAD].
  - cbn [run_handler]. apply rsim_ok. apply sms_ev. exact HS.
  - cbn [run_handler]. rewrite <- (sms_io_fuel w1 w2 _ HS).
    pose proof (sim_await_input (io_fuel w1 0) (Some n) r w1 w2 HS (io_fuel_sl _ _)) as H.
    sim_destruct H. destruct a as [[[c b]|k] r']; apply IH; repeat apply sms_ev; exact HS'.
  - cbn [run_handler]. pose proof HS as (_ & _ & A3 & _). rewrite A3.
    pose proof (sim_read_all (length (flat_map (fun s => snd s) (segs w2)) + length (buffer (rsp r)) + 4) [] r w1 w2 HS) as H.
    sim_destruct H. destruct a as [[k acc] r']. apply IH; repeat apply sms_ev; exact HS'.
  - cbn [run_handler]. rewrite <- (sms_io_fuel w1 w2 _ HS).
    pose proof (sim_await_input (io_fuel w1 0) None r w1 w2 HS (io_fuel_sl _ _)) as H.
    sim_destruct H. destruct a as [[x|e] r']; apply IH; repeat apply sms_ev; exact HS'.
  - cbn [run_handler]. destruct (set_stream (rsp r) (Some s)) as [p'| |]; try exact I.
    apply IH. apply sms_ev. exact HS.
  - cbn [run_handler]. pose proof (sim_do_writeable r w1 w2 HS) as H.
    sim_destruct H. destruct a as [e r']. apply IH. apply sms_ev. exact HS'.
  - cbn [run_handler]. destruct (negb (rwriteable r)); [apply IH; apply sms_ev; exact HS|].
    (* both runs see the same Request.lock: the writer waits for it in both, or in neither *)
    destruct (rlock r && negb (len (take n rest) =? 0)); [apply rsim_dl; exact HS|].
    pose proof (sim_writer_write_all (N.to_nat (n / 65535) + 2) s (r_id (sreq (rsp r))) (take n rest) w1 w2 HS) as H.
    sim_destruct H. destruct a as [k|]; [apply rsim_ok; apply sms_ev; exact HS'|apply IH; apply sms_ev; exact HS'].
  - cbn [run_handler]. destruct (rwriteable r); [|apply IH; apply sms_ev; exact HS].
    destruct (rlock r); [apply rsim_dl; exact HS|apply IH; apply sms_ev; exact HS].
  - cbn [run_handler]. apply rsim_ok. apply sms_ev. exact HS.
  - cbn [run_handler]. apply rsim_ok. apply sms_ev. exact HS.
  - cbn [run_handler]. rewrite <- (sms_io_fuel w1 w2 _ HS).
    pose proof (sim_await_input (io_fuel w1 0) (Some n) r w1 w2 HS (io_fuel_sl _ _)) as H.
    sim_destruct H. destruct a as [[[c b]|k] r']; [apply IH|apply rsim_ok]; repeat apply sms_ev; exact HS'.
  - (* 11 n: a single poll gives the same result in both worlds; Pending is not retried *)
    cbn [run_handler]. rewrite <- (sms_io_fuel w1 w2 _ HS).
    destruct (sms_poll_input (io_fuel w1 (len (buffer (rsp r)))) (Some n) r w1 w2 HS) as [E1 S1].
    destruct (poll_input maxc _ (Some n) r w1) as [[p1 r1] w1']. destruct (poll_input maxc _ (Some n) r w2) as [[p2 r2] w2'].
    cbn [fst snd] in E1, S1. injection E1 as <- <-.
    destruct p1 as [[[c b]|k]| |]; apply IH; repeat apply sms_ev; exact S1.
  - rewrite BAD. exact I.
Qed.
End SimA.

(* ================================================================================================ *)
(* Part B: nothing is written after a failed write (C12)                                            *)
(* ================================================================================================ *)
Lemma cons_nonnil {A} (x : A) l : x :: l <> [].
Proof. discriminate. Qed.

Section PartB.
Variable k : N.
Variable post : list N.
Hypothesis Hk : plain_fault k.

(* the fault has not been reached / the fault was answered to the last write call *)
Definition Bef (w : world) : Prop := exists s, wscript w = s ++ k :: post /\ no_fault s.
Definition Aft (w : world) : Prop := wscript w = post.
Definition nab (e : N) : Prop := e <> EK_Aborted.

Lemma Bef_ws w w' : wscript w' = wscript w -> Bef w -> Bef w'.
Proof. intros E (s & Hs & Hn). exists s. split; [congruence|exact Hn]. Qed.
Lemma Aft_ws w w' : wscript w' = wscript w -> Aft w -> Aft w'.
Proof. unfold Aft. congruence. Qed.

(* a computation ends before the fault, or right after it with an error result that ends everything *)
Definition rpostB {A} (E : A -> Prop) (x : res A) : Prop :=
  match x with
  | Ok a w' => Bef w' \/ (Aft w' /\ E a)
  | Halt _ w' => Bef w'
  end.
Definition ppostB {A} (p : pres (A + N)) (w' : world) : Prop :=
  Bef w' \/ (Aft w' /\ exists e, p = PReady (inr e) /\ nab e).
Definition E_opt (o : option N) : Prop := exists e, o = Some e /\ nab e.

Lemma nab_wz : nab EK_WriteZero.
Proof. discriminate. Qed.
Lemma nab_tr : nab EK_Transport.
Proof. discriminate. Qed.

Lemma tpw_B offer w p w' : Bef w -> offer <> [] -> t_poll_write offer w = (p, w') ->
  (Bef w' /\ (p = PWake \/ exists n, p = PReady (inl n) /\ n <> 0)) \/
  (Aft w' /\ (p = PReady (inl 0) \/ p = PReady (inr EK_Transport))).
Proof.
  intros (s & Hs & Hn) Ho. unfold t_poll_write. rewrite Hs. destruct s as [|a s'].
  - cbn [app]. destruct Hk as [-> | ->].
    + change (W_ZERO =? 0) with false. change (W_ZERO =? W_ZERO) with true. cbv iota.
      intros E. injection E as <- <-. right. split; [reflexivity|left; reflexivity].
    + change (W_ERR =? 0) with false. change (W_ERR =? W_ZERO) with false. change (W_ERR =? W_ERR) with true. cbv iota.
      intros E. injection E as <- <-. right. split; [reflexivity|right; reflexivity].
  - cbn [app]. inversion Hn as [|? ? (N1 & N2 & N3) Hn']; subst.
    assert (BW : forall lg, Bef (w_set_w w (s' ++ k :: post) lg)) by (intros lg; exists s'; split; [reflexivity|exact Hn']).
    destruct (N.eqb_spec a 0) as [E0|E0]; [intros E; injection E as <- <-; left; split; [apply BW|left; reflexivity]|].
    destruct (N.eqb_spec a W_ZERO) as [|_]; [contradiction|].
    destruct (N.eqb_spec a W_ERR) as [|_]; [contradiction|].
    destruct (N.eqb_spec a W_ERR_AB) as [|_]; [contradiction|].
    intros E. injection E as <- <-. left. split; [apply BW|]. right. eexists. split; [reflexivity|].
    pose proof (len_pos_nonnil offer Ho). lia.
Qed.

Lemma awa_B fuel : forall sel b w, Bef w -> rpostB E_opt (await_write_all fuel sel b w).
Proof.
  induction fuel as [|f IH]; intros sel b w HB; [exact HB|]. cbn [await_write_all].
  destruct b as [|x b']; [left; exact HB|].
  destruct (t_poll_write (x :: b') w) as [p w1] eqn:ET.
  destruct (tpw_B _ _ _ _ HB (cons_nonnil _ _) ET) as [(B1 & [->|(n & -> & Hn)])|(A1 & [->| ->])].
  - unfold on_wake. destruct (sel && stopped (w_bump w1)); [exact B1|]. apply IH. exact B1.
  - destruct (N.eqb_spec n 0) as [|_]; [contradiction|]. apply IH. exact B1.
  - change (0 =? 0) with true. cbv iota. right. split; [exact A1|]. exists EK_WriteZero. split; [reflexivity|exact nab_wz].
  - right. split; [exact A1|]. exists EK_Transport. split; [reflexivity|exact nab_tr].
Qed.

Lemma poll_output_B fuel : forall r w, Bef w ->
  ppostB (fst (fst (poll_output fuel r w))) (snd (poll_output fuel r w)).
Proof.
  induction fuel as [|f IH]; intros r w HB; [left; exact HB|]. cbn [poll_output].
  destruct (output_buffer (rsp r)) as [|x o]; [left; exact HB|].
  destruct (t_poll_write (x :: o) w) as [p w1] eqn:ET.
  destruct (tpw_B _ _ _ _ HB (cons_nonnil _ _) ET) as [(B1 & [->|(n & -> & Hn)])|(A1 & [->| ->])].
  - left. exact B1.
  - destruct (N.eqb_spec n 0) as [|_]; [contradiction|]. apply IH. exact B1.
  - change (0 =? 0) with true. cbv iota. right. split; [exact A1|]. exists EK_WriteZero. split; [reflexivity|exact nab_wz].
  - right. split; [exact A1|]. exists EK_Transport. split; [reflexivity|exact nab_tr].
Qed.

Lemma ppostB_cast {A B} (p : pres (A + N)) (q : pres (B + N)) w :
  ppostB p w -> (forall e, p = PReady (inr e) -> q = PReady (inr e)) -> ppostB q w.
Proof. intros [H|(H & e & -> & He)] Hq; [left; exact H|right]. split; [exact H|]. exists e. split; [apply Hq; reflexivity|exact He]. Qed.

Section WithMaxc.
Variable maxc : N.

Lemma input_loop_B fuel : forall dest new r w, Bef w ->
  ppostB (fst (fst (input_loop maxc fuel dest new r w))) (snd (input_loop maxc fuel dest new r w)).
Proof.
  induction fuel as [|f IH]; intros dest new r w HB; [left; exact HB|]. cbn [input_loop].
  destruct (sparse maxc (rsp r) new dest) as [p1 s|p1 e s|n]; try (left; exact HB).
  destruct (s_end s || (0 <? s_stream s)); [left; exact HB|].
  pose proof (poll_output_B (S f) (mkR (compress p1) (rwriteable r) (rlock r) (raborted r)) w HB) as PO.
  destruct (poll_output (S f) _ w) as [[po r3] w0]. cbn [fst snd] in PO.
  destruct po as [[u|e]| |].
  - destruct PO as [B0|(_ & e & E & _)]; [|discriminate E].
    destruct (t_poll_read (sinput_space (rsp r3)) w0) as [q w1] eqn:ET.
    destruct (t_poll_read_rem _ _ _ _ ET) as (_ & WS & _).
    pose proof (Bef_ws _ _ WS B0) as B1.
    destruct q as [[b|e]| |]; try (left; exact B1).
    destruct b as [|x b']; [left; exact B1|]. apply IH. exact B1.
  - eapply ppostB_cast; [exact PO|]. intros e' E. injection E as ->. reflexivity.
  - eapply ppostB_cast; [exact PO|]. intros e' E. discriminate E.
  - eapply ppostB_cast; [exact PO|]. intros e' E. discriminate E.
Qed.

Lemma poll_input_B fuel dest r w : Bef w ->
  ppostB (fst (fst (poll_input maxc fuel dest r w))) (snd (poll_input maxc fuel dest r w)).
Proof.
  intros HB. unfold poll_input. cbv zeta.
  assert (EMPTY : ppostB
    (fst (fst (match poll_output fuel r w with
     | (PReady (inl _), r', w') => input_loop maxc fuel dest [] r' w'
     | (PReady (inr e), r', w') => (PReady (inr e), r', w')
     | (PWake, r', w') => (PWake, r', w')
     | (PBlock, r', w') => (PBlock, r', w')
     end)))
    (snd (match poll_output fuel r w with
     | (PReady (inl _), r', w') => input_loop maxc fuel dest [] r' w'
     | (PReady (inr e), r', w') => (PReady (inr e), r', w')
     | (PWake, r', w') => (PWake, r', w')
     | (PBlock, r', w') => (PBlock, r', w')
     end))).
  { pose proof (poll_output_B fuel r w HB) as PO. destruct (poll_output fuel r w) as [[po r1] w1]. cbn [fst snd] in PO.
    destruct po as [[u|e]| |].
    - destruct PO as [B0|(_ & e & E & _)]; [|discriminate E]. apply input_loop_B. exact B0.
    - eapply ppostB_cast; [exact PO|]. intros e' E. injection E as ->. reflexivity.
    - eapply ppostB_cast; [exact PO|]. intros e' E. discriminate E.
    - eapply ppostB_cast; [exact PO|]. intros e' E. discriminate E. }
  destruct dest as [[|pc]|]; destruct (stream_buffer (rsp r)) as [|x sb]; try exact EMPTY; left; exact HB.
Qed.

Definition E_in (xr : (N * bytes + N) * rstate) : Prop := exists e, fst xr = inr e /\ nab e.

Lemma await_input_B fuel : forall dest r w, Bef w -> rpostB E_in (await_input maxc fuel dest r w).
Proof.
  induction fuel as [|f IH]; intros dest r w HB; [exact HB|]. cbn [await_input].
  pose proof (poll_input_B (io_fuel w (len (buffer (rsp r)))) dest r w HB) as PI.
  destruct (poll_input maxc _ dest r w) as [[p r1] w1]. cbn [fst snd] in PI.
  destruct p as [x| |].
  - destruct PI as [B1|(A1 & e & E & He)]; [left; exact B1|right]. split; [exact A1|]. exists e. injection E as ->. split; [reflexivity|exact He].
  - destruct PI as [B1|(_ & e & E & _)]; [|discriminate E]. apply IH. exact B1.
  - destruct PI as [B1|(_ & e & E & _)]; [|discriminate E]. unfold on_block.
    destruct (negb (stop_at w1 =? 0) && negb (stopped w1)); [apply IH; exact B1|exact B1].
Qed.

Definition E_fst {X} (er : option N * X) : Prop := E_opt (fst er).

Lemma do_writeable_B r w : Bef w -> rpostB E_fst (do_writeable maxc r w).
Proof.
  intros HB. unfold do_writeable. destruct (rwriteable r); [left; exact HB|].
  destruct (set_stream (rsp r) _) as [p'| |]; try exact HB.
  pose proof (await_input_B (io_fuel w 0) None (mkR p' false (rlock r) (raborted r)) w HB) as AI.
  destruct (await_input maxc _ None _ w) as [[[x|e] r'] w'|o w']; cbn [rpostB] in *.
  - destruct AI as [B1|(_ & e & E & _)]; [left; exact B1|discriminate E].
  - destruct AI as [B1|(A1 & e' & E & He)]; [left; exact B1|right]. cbn [fst] in E. injection E as ->.
    split; [exact A1|]. exists e'. split; [reflexivity|exact He].
  - exact AI.
Qed.

(* reads never touch the write script *)
Lemma await_read_ws fuel sel L w : match await_read fuel sel L w with Ok _ w' | Halt _ w' => wscript w' = wscript w end.
Proof. pose proof (await_read_rem fuel sel L w) as H. destruct (await_read fuel sel L w) as [[b|e] w'|o w']; apply H. Qed.

Lemma boundary_loop_ws fuel : forall new r w,
  match boundary_loop maxc fuel new r w with Ok _ w' | Halt _ w' => wscript w' = wscript w end.
Proof.
  induction fuel as [|f IH]; intros new r w; [reflexivity|]. rewrite ConnWrites.boundary_loop_S.
  assert (AFTER : forall p', match ConnWrites.bl_after maxc f r w p' with Ok _ w' | Halt _ w' => wscript w' = wscript w end).
  { intros p'. unfold ConnWrites.bl_after. cbv zeta. destruct (is_record_boundary p'); [reflexivity|].
    pose proof (await_read_ws (io_fuel w 0) false (sinput_space (compress p')) w) as AR.
    destruct (await_read _ false _ w) as [[[|x b]|e] w'|o w']; try exact AR.
    specialize (IH (x :: b) (mkR (compress p') (rwriteable r) (rlock r) (raborted r)) w').
    destruct (boundary_loop maxc f _ _ w') as [a w2|o w2]; congruence. }
  destruct (sparse maxc (rsp r) new None) as [p' s|p' e s|n]; [apply AFTER| |reflexivity].
  destruct e; try reflexivity. apply AFTER.
Qed.

Lemma record_boundary_ws r w : match record_boundary maxc r w with Ok _ w' | Halt _ w' => wscript w' = wscript w end.
Proof. unfold record_boundary. destruct (is_record_boundary (rsp r)); [reflexivity|apply boundary_loop_ws]. Qed.

Definition E_inr {X} (x : X + N) : Prop := exists e, x = inr e.

Lemma close_finish_B r3 d c w : Bef w -> rpostB E_inr (close_finish r3 d c w).
Proof.
  intros HB. unfold close_finish. destruct (epilogue _ d c _) as [ep|]; [|exact HB]. cbv zeta.
  pose proof (awa_B (io_fuel w (len (output_buffer (rsp r3)))) false (output_buffer (rsp r3)) w HB) as W1.
  destruct (await_write_all _ false (output_buffer (rsp r3)) w) as [[k3|] w3|o w3]; cbn [rpostB] in *.
  - destruct W1 as [B|(A & _)]; [left; exact B|right; split; [exact A|eexists; reflexivity]].
  - destruct W1 as [B3|(_ & e & E & _)]; [|discriminate E].
    pose proof (awa_B (io_fuel w3 (len ep)) false ep w3 B3) as W2.
    destruct (await_write_all _ false ep w3) as [[k4|] w4|o w4]; cbn [rpostB] in *.
    + destruct W2 as [B|(A & _)]; [left; exact B|right; split; [exact A|eexists; reflexivity]].
    + destruct W2 as [B4|(_ & e & E & _)]; [|discriminate E].
      destruct (N.land _ FLAG_KeepConn =? FLAG_KeepConn); [|left; exact B4].
      destruct (into_request_parser _) as [rp| |]; [left; exact B4|left; exact B4|exact B4].
    + exact W2.
  - exact W1.
Qed.

Lemma close_tail_B r1 d c w : Bef w -> rpostB E_inr (close_tail maxc r1 d c w).
Proof.
  intros HB. rewrite close_tail_unfold. destruct (set_stream (rsp r1) None) as [p2| |]; try exact HB.
  pose proof (record_boundary_ws (mkR p2 (rwriteable r1) (rlock r1) (raborted r1)) w) as RB.
  destruct (record_boundary maxc _ w) as [[[k2|] r3] w2|o w2].
  - left. eapply Bef_ws; eassumption.
  - apply close_finish_B. eapply Bef_ws; eassumption.
  - eapply Bef_ws; eassumption.
Qed.

Lemma do_close_B r d c w : Bef w -> rpostB E_inr (do_close maxc r d c w).
Proof.
  intros HB. unfold do_close. pose proof (do_writeable_B r w HB) as DW.
  destruct (do_writeable maxc r w) as [[[e|] r1] w1|o w1]; cbn [rpostB] in *.
  - destruct DW as [B1|(A1 & e' & E & He)].
    + destruct ((e =? EK_Aborted) && raborted r1); [apply close_tail_B; exact B1|left; exact B1].
    + cbn [fst] in E. injection E as ->. destruct (N.eqb_spec e' EK_Aborted) as [Ha|_]; [contradiction (He Ha)|].
      cbn [andb]. right. split; [exact A1|eexists; reflexivity].
  - destruct DW as [B1|(_ & e' & E & _)]; [|discriminate E]. apply close_tail_B. exact B1.
  - exact DW.
Qed.

Lemma write_slices_B fuel : forall slices w, Bef w -> rpostB E_opt (write_slices fuel slices w).
Proof.
  induction fuel as [|f IH]; intros slices w HB; [exact HB|]. rewrite ConnTotal.write_slices_S.
  destruct (filter (fun s => negb (len s =? 0)) slices) as [|s1 more] eqn:EF; [left; exact HB|].
  pose proof (filter_head_nonempty _ _ _ EF) as Hs1.
  match goal with |- context [t_poll_write ?o w] =>
    assert (Ho : o <> []) by (destruct (vectored w); [destruct s1; [contradiction|discriminate]|exact Hs1]);
    revert Ho; generalize o end. intros offer Ho.
  destruct (t_poll_write offer w) as [p w1] eqn:ET.
  destruct (tpw_B _ _ _ _ HB Ho ET) as [(B1 & [->|(n & -> & Hn)])|(A1 & [->| ->])].
  - rewrite on_wake_false. apply IH. exact B1.
  - destruct (N.eqb_spec n 0) as [|_]; [contradiction|]. apply IH. exact B1.
  - change (0 =? 0) with true. cbv iota. right. split; [exact A1|]. exists EK_WriteZero. split; [reflexivity|exact nab_wz].
  - right. split; [exact A1|]. exists EK_Transport. split; [reflexivity|exact nab_tr].
Qed.

Lemma writer_write_all_B fuel : forall stype id data w, Bef w -> rpostB E_opt (writer_write_all fuel stype id data w).
Proof.
  induction fuel as [|f IH]; intros stype id data w HB; [exact HB|]. rewrite writer_write_all_S.
  destruct data as [|x data']; [left; exact HB|]. cbv zeta.
  set (n := N.min (len (x :: data')) 65535).
  pose proof (write_slices_B (io_fuel w (n + 300)) [hdr_encode stype id n (auto_padding n); take n (x :: data'); zeros (auto_padding n)] w HB) as WS.
  destruct (write_slices _ _ w) as [[e|] w'|o w']; cbn [rpostB] in *.
  - exact WS.
  - destruct WS as [B1|(_ & e & E & _)]; [|discriminate E]. apply IH. exact B1.
  - exact WS.
Qed.

Definition E_h (xr : (N * N + N) * rstate) : Prop := exists e, fst xr = inr e /\ nab e.

Lemma Bef_ev w e : Bef w -> Bef (w_ev w e).
Proof. apply Bef_ws. reflexivity. Qed.
Lemma Aft_ev w e : Aft w -> Aft (w_ev w e).
Proof. apply Aft_ws. reflexivity. Qed.

Lemma run_handler_B fuel : forall script r w, prop_script script -> Bef w -> rpostB E_h (run_handler maxc fuel script r w).
Proof.
  induction fuel as [|f IH]; intros script r w PS HB; [exact HB|].
  inversion PS as [|s rest PS'|s n rest PS'|s rest PS'|d c rest|e rest|n rest PS']; subst; cbn [run_handler].
  - left. apply Bef_ev. exact HB.
  - destruct (set_stream (rsp r) (Some s)) as [p'| |]; try exact HB. apply IH; [exact PS'|apply Bef_ev; exact HB].
  - destruct (negb (rwriteable r)); [apply IH; [exact PS'|apply Bef_ev; exact HB]|].
    (* a writer that waits for Request.lock writes nothing: the world is unchanged (with prop_script the lock is in fact
       never held here: ConnTotal.run_handler_ok, mode LProp) *)
    destruct (rlock r && negb (len (take n rest) =? 0)); [exact HB|].
    pose proof (writer_write_all_B (N.to_nat (n / 65535) + 2) s (r_id (sreq (rsp r))) (take n rest) w HB) as WW.
    destruct (writer_write_all _ s _ (take n rest) w) as [[e|] w'|o w']; cbn [rpostB] in *.
    + destruct WW as [B1|(A1 & e' & E & He)]; [left; apply Bef_ev; exact B1|right]. injection E as ->.
      split; [apply Aft_ev; exact A1|]. exists e'. split; [reflexivity|exact He].
    + destruct WW as [B1|(_ & e & E & _)]; [|discriminate E]. apply IH; [exact PS'|apply Bef_ev; exact B1].
    + exact WW.
  - destruct (rwriteable r); [destruct (rlock r); [exact HB|]|]; apply IH; try exact PS'; apply Bef_ev; exact HB.
  - left. apply Bef_ev. exact HB.
  - left. apply Bef_ev. exact HB.
  - pose proof (await_input_B (io_fuel w 0) (Some n) r w HB) as AI.
    destruct (await_input maxc _ (Some n) r w) as [[[[c b]|e] r'] w'|o w']; cbn [rpostB] in *.
    + destruct AI as [B1|(_ & e & E & _)]; [|discriminate E]. apply IH; [exact PS'|]. apply Bef_ev, Bef_ev. exact B1.
    + destruct AI as [B1|(A1 & e' & E & He)]; [left; apply Bef_ev, Bef_ev; exact B1|right]. cbn [fst] in E. injection E as ->.
      split; [apply Aft_ev, Aft_ev; exact A1|]. exists e'. split; [reflexivity|exact He].
    + exact AI.
Qed.

Section WithNorm.
Variable norm : bytes -> bytes.

Lemma parse_request_B fuel : forall p new w, Bef w -> rpostB E_inr (parse_request norm maxc fuel p new w).
Proof.
  induction fuel as [|f IH]; intros p new w HB; [exact HB|]. cbn [parse_request].
  destruct (parse norm maxc p new) as [p' done out|n]; [|exact HB].
  pose proof (awa_B (io_fuel w (len out)) true out w HB) as W1.
  destruct (await_write_all _ true out w) as [[e|] w'|o w']; cbn [rpostB] in *.
  - destruct W1 as [B|(A & _)]; [left; exact B|right; split; [exact A|eexists; reflexivity]].
  - destruct W1 as [B1|(_ & e & E & _)]; [|discriminate E].
    destruct done.
    + destruct (into_stream_parser p') as [s|e]; left; exact B1.
    + pose proof (await_read_ws (io_fuel w' 0) true (input_space p') w') as AR.
      destruct (await_read _ true _ w') as [[[|x b]|e] w''|o w'']; cbn [rpostB].
      * left. eapply Bef_ws; eassumption.
      * apply IH. eapply Bef_ws; eassumption.
      * left. eapply Bef_ws; eassumption.
      * eapply Bef_ws; eassumption.
  - exact W1.
Qed.

Lemma fold_ev_ws (env : list (bytes * bytes)) : forall w,
  wscript (fold_left (fun w p => w_ev (w_ev w (fst p)) (snd p)) env w) = wscript w.
Proof. induction env as [|x env IH]; intros w; [reflexivity|]. cbn [fold_left]. rewrite IH. reflexivity. Qed.

Lemma run_loop_B scripts : Forall prop_script scripts -> forall fuel p served w, Bef w ->
  Bef (snd (run_loop norm maxc fuel p scripts served w)) \/ Aft (snd (run_loop norm maxc fuel p scripts served w)).
Proof.
  intros HS. induction fuel as [|f IH]; intros p served w HB; [left; exact HB|]. cbn [run_loop].
  destruct (stopped w); [left; exact HB|].
  pose proof (parse_request_B (io_fuel w 0) p [] w HB) as PR.
  destruct (parse_request norm maxc _ p [] w) as [[s0|e] w'|o w']; cbn [rpostB snd] in *.
  - destruct PR as [B1|(_ & e & E)]; [|discriminate E].
    match goal with |- context [run_handler maxc ?fu ?sc ?r0 ?w1] =>
      assert (PS : prop_script sc) by (apply Forall_nth_default; [exact HS|apply Forall_last; [exact HS|constructor]]);
      assert (B2 : Bef w1) by (eapply Bef_ws; [apply fold_ev_ws|]; apply Bef_ev, Bef_ev; exact B1);
      pose proof (run_handler_B fu sc r0 w1 PS B2) as RH; destruct (run_handler maxc fu sc r0 w1) as [[st r1] w2|o w2]
    end; cbn [rpostB snd] in *.
    + destruct RH as [B3|(A3 & e' & E & He)].
      * destruct st as [[d c]|e'].
        -- pose proof (do_close_B r1 d c w2 B3) as DC.
           destruct (do_close maxc r1 d c w2) as [[rp|e] w3|o w3]; cbn [rpostB snd] in *.
           ++ destruct DC as [B4|(_ & e & E)]; [|discriminate E]. apply IH. exact B4.
           ++ destruct DC as [B4|(A4 & _)]; [left; exact B4|right; exact A4].
           ++ left. exact DC.
        -- destruct ((e' =? EK_Aborted) && raborted r1); [|left; exact B3].
           pose proof (do_close_B r1 EXIT_Complete EXIT_ABORT_CODE w2 B3) as DC.
           destruct (do_close maxc r1 _ _ w2) as [[rp|e] w3|o w3]; cbn [rpostB snd] in *.
           ++ destruct DC as [B4|(_ & e & E)]; [|discriminate E]. apply IH. exact B4.
           ++ destruct DC as [B4|(A4 & _)]; [left; exact B4|right; exact A4].
           ++ left. exact DC.
      * cbn [fst] in E. subst st. destruct (N.eqb_spec e' EK_Aborted) as [Ha|_]; [contradiction (He Ha)|].
        cbn [andb snd]. right. exact A3.
    + left. exact RH.
  - destruct PR as [B1|(A1 & _)]; [left; exact B1|right; exact A1].
  - left. exact PR.
Qed.
End WithNorm.
End WithMaxc.
End PartB.

(* ================================================================================================ *)
(* Examples                                                                                         *)
(* ================================================================================================ *)
(* Part A: a Responder request whose handler reads 2 bytes of stdin (after two spurious wake-ups of the transport),
   writes one byte to stdout (after a wake-up of the writer) and exits.  In the second world a shutdown is requested
   before the task's second poll: same result, same observations, same bytes on the wire; only the bookkeeping
   differs (stopped). *)
Definition exA_stdin : bytes := [1; 5; 0; 1; 0; 3; 5; 0; 97; 98; 99; 0; 0; 0; 0; 0].
Definition exA_r : rstate := mkR (new_sparser 64 (mkReq 1 1 1 [])) true false false.
Definition exA_w (stop_at : N) : world := mkW [0; 3; 0] [0; 4] [(0, 0, exA_stdin)] [] 0 1 stop_at false false [].
Definition exA_script : list N := [1; 2; 6; 6; 1; 33; 8; 0; 0].

Example handler_ignores_stop_example :
  same_mod_stop (exA_w 0) (exA_w 2) /\
  exists r' w1' w2',
    run_handler 10 7 exA_script exA_r (exA_w 0) = Ok (inl (0, 0), r') w1' /\
    run_handler 10 7 exA_script exA_r (exA_w 2) = Ok (inl (0, 0), r') w2' /\
    same_mod_stop w1' w2' /\ stopped w1' = false /\ stopped w2' = true /\
    events w1' = [[8]; [6; 0]; [97; 98]; [1; 1; 2]] /\
    wlog w1' = [1; 6; 0; 1; 0; 1; 7; 0; 33; 0; 0; 0; 0; 0; 0; 0].
Proof.
  split; [repeat split|]. do 3 eexists. split; [vm_compute; reflexivity|].
  split; [vm_compute; reflexivity|]. repeat split.
Qed.

(* the same request when the client sends only part of a GetValues record and waits for a reply the server does
   not owe: the handler's read suspends for good, shutdown requested (second world: before poll 7) or not *)
Definition exA_gv : bytes := [1; 9; 0; 0; 0; 16; 0; 0; 14; 0; 70; 67; 71; 73; 95; 77; 65; 88; 95; 67; 79; 78; 78; 83].
Definition exA_wb (stop_at : N) : world :=
  mkW [0; 3; 0] [] [(0, 0, take 13 exA_gv); (1, 0, drop 13 exA_gv)] [] 0 1 stop_at false false [].

Example handler_block_example :
  exists w1' w2',
    run_handler 10 7 [1; 5; 8; 0; 0] exA_r (exA_wb 0) = Halt ODeadlock w1' /\
    run_handler 10 7 [1; 5; 8; 0; 0] exA_r (exA_wb 7) = Halt ODeadlock w2' /\
    same_mod_stop w1' w2' /\ stopped w1' = false /\ stopped w2' = true /\ epoch w2' = epoch w1' + 1.
Proof.
  do 2 eexists. split; [vm_compute; reflexivity|]. split; [vm_compute; reflexivity|]. repeat split.
Qed.

(* Part B: the keep-alive client of ConnTotal.ex_world; the handler writes two bytes to stdout and exits.  The
   transport accepts 3 bytes of the record header and fails the next write call: the handler's write returns the
   error, the task ends, and the rest of the write script ([5; 7]) is never consulted; the log holds the 3 bytes. *)
Definition exB_script : list N := [6; 6; 2; 104; 105; 8; 0; 0].
Definition exB_w (fault : N) : world := ex_world 1 0 [] [3; fault; 5; 7].

Example nothing_after_failed_write_example : forall fault, fault = W_ERR \/ fault = W_ZERO ->
  let w' := snd (run_loop (fun b => b) 10 (nb (exB_w fault) + 4) (new_parser 0) [exB_script] 0 (exB_w fault)) in
  wscript w' = [5; 7] /\ wlog w' = [1; 6; 0].
Proof. intros fault [-> | ->]; vm_compute; split; reflexivity. Qed.

(* ... and the hypotheses of the theorem hold for it *)
Example nothing_after_failed_write_instance :
  Forall prop_script [exB_script] /\ wscript (exB_w W_ERR) = [3] ++ W_ERR :: [5; 7] /\ no_fault [3] /\ plain_fault W_ERR.
Proof.
  split.
  { constructor; [|constructor]. unfold exB_script. apply PS_write. change (drop 2 [104; 105; 8; 0; 0]) with [8; 0; 0]. apply PS_exit. }
  split; [reflexivity|]. split; [|right; reflexivity].
  constructor; [|constructor]. repeat split; discriminate.
Qed.

(* ================================================================================================ *)
(* The theorems                                                                                     *)
(* ================================================================================================ *)
Theorem handler_ignores_stop : handler_ignores_stop_stmt.
Proof.
  intros maxc f script r w1 w2 x w1' HS E. pose proof (sim_run_handler maxc f script r w1 w2 HS) as H.
  rewrite E in H. exact H.
Qed.
Print Assumptions handler_ignores_stop.

Theorem close_ignores_stop : close_ignores_stop_stmt.
Proof.
  intros maxc r d c w1 w2 x w1' HS E. pose proof (sim_do_close maxc r d c w1 w2 HS) as H.
  rewrite E in H. exact H.
Qed.
Print Assumptions close_ignores_stop.

Theorem handler_block : handler_block_stmt.
Proof.
  intros maxc f script r w1 w2 w1' HS E. pose proof (sim_run_handler maxc f script r w1 w2 HS) as H.
  rewrite E in H. exact H.
Qed.
Print Assumptions handler_block.

Theorem nothing_after_failed_write : nothing_after_failed_write_stmt.
Proof.
  intros norm maxc fuel p scripts served w pre k post HS Hw Hnf Hk w'.
  assert (HB : Bef k post w) by (exists pre; split; assumption).
  destruct (run_loop_B k post Hk maxc norm scripts HS fuel p served w HB) as [(s & E & _)|A].
  - left. exists s. exact E.
  - right. exact A.
Qed.
Print Assumptions nothing_after_failed_write.
