(* Async/PeerProofs2.v — proof of Async/PeerTargets2.v: a peer that sends whole records and gates its segments only
   on management replies owed for records of EARLIER segments never ends in a wait-for cycle with the server.
   Part A: counting complete records is monotone along every extension of the log.
   Part B: WK, the framing walk: (number of management replies owed for the records completed by the bytes,
           whether the bytes end exactly at a record boundary), from a framing position (k, prem, pad).
   Part C: the stream parser conserves WK (every call), and stops only where nothing more can be done.
   Part D: the request parser conserves WK (every call), and stops only where nothing more can be done.
   Part E: the invariant of the connection and its elementary steps.
   Part F: the layers of the connection task.  Part G: the theorem and an instance. *)
From Coq Require Import ZArith.
From FV Require Import Base.Bytes Base.BytesLemmas Gen.Generated Codec.Varint Codec.VarintProofs Codec.NV Codec.NVProofs
  Codec.Header Codec.Bodies Codec.Vars Codec.ProtoProofs
  Parser.ReqModel Parser.ReqParamsSpec Parser.ReqWire Parser.ReqTargets Parser.ReqParams Parser.ReqDrive Parser.ReqRecords Parser.ReqFinal
  Parser.StreamModel Parser.AbsStream Parser.StreamRefine Parser.StreamSpec Parser.StreamInv Parser.StreamFinal Parser.EnvCanon
  Async.ConnWrites Async.ConnTotal Async.Conn Async.ConnReads Async.PeerTargets Async.PeerProofs Async.PeerTargets2.
From Coq Require Import ZifyBool ZifyNat ZifyN.
Ltac Zify.zify_post_hook ::= Z.div_mod_to_equations.

Notation flat := (flat_map (fun s : N * N * bytes => snd s)).

(* ------------------------------------------------------------------------------------------ *)
(* Part A: counting                                                                             *)
(* ------------------------------------------------------------------------------------------ *)

Lemma count_ge : forall f l e m, e <= fst (count_records f l e m) /\ m <= snd (count_records f l e m).
Proof.
  induction f as [|f IH]; intros l e m; [cbn [count_records fst snd]; lia|].
  cbn [count_records]. destruct (len l <? 8); [cbn [fst snd]; lia|]. cbv zeta.
  destruct (len l <? 8 + be16 (nthN l 4) (nthN l 5) + nthN l 6); [cbn [fst snd]; lia|].
  match goal with |- context [count_records f ?l' ?e' ?m'] => pose proof (IH l' e' m') as H end.
  destruct (nthN l 1 =? RT_EndRequest); destruct ((nthN l 1 =? RT_GetValuesResult) || (nthN l 1 =? RT_Unknown)); lia.
Qed.

Lemma nthN_app_lt (l x : bytes) i : i < len l -> nthN (l ++ x) i = nthN l i.
Proof. intros H. unfold nthN. apply app_nth1. unfold len in H. lia. Qed.

(* the records counted in a log are still counted in every extension of it *)
Lemma count_mono : forall f1 f2 l x e m, (length l <= f1)%nat -> (length (l ++ x) <= f2)%nat ->
  fst (count_records f1 l e m) <= fst (count_records f2 (l ++ x) e m) /\
  snd (count_records f1 l e m) <= snd (count_records f2 (l ++ x) e m).
Proof.
  induction f1 as [|f1 IH]; intros f2 l x e m H1 H2.
  { cbn [count_records fst snd]. apply count_ge. }
  cbn [count_records]. destruct (N.ltb_spec (len l) 8) as [H8|H8]; [cbn [fst snd]; apply count_ge|]. cbv zeta.
  destruct (N.ltb_spec (len l) (8 + be16 (nthN l 4) (nthN l 5) + nthN l 6)) as [Hc|Hc]; [cbn [fst snd]; apply count_ge|].
  assert (Hl : len (l ++ x) = len l + len x) by apply len_app.
  destruct f2 as [|f2]; [unfold len in *; lia|]. cbn [count_records].
  destruct (N.ltb_spec (len (l ++ x)) 8) as [H8'|_]; [lia|]. cbv zeta.
  rewrite !nthN_app_lt by lia.
  destruct (N.ltb_spec (len (l ++ x)) (8 + be16 (nthN l 4) (nthN l 5) + nthN l 6)) as [Hc'|_]; [lia|].
  rewrite drop_app_le by lia. apply IH.
  - pose proof (len_drop (8 + be16 (nthN l 4) (nthN l 5) + nthN l 6) l). unfold len in *. lia.
  - pose proof (len_app (drop (8 + be16 (nthN l 4) (nthN l 5) + nthN l 6) l) x).
    pose proof (len_drop (8 + be16 (nthN l 4) (nthN l 5) + nthN l 6) l). unfold len in *. lia.
Qed.

Lemma counts_mono_any l x : fst (counts l) <= fst (counts (l ++ x)) /\ snd (counts l) <= snd (counts (l ++ x)).
Proof. unfold counts. apply count_mono; lia. Qed.

Lemma counts_nil : counts [] = (0, 0).
Proof. reflexivity. Qed.

(* complete records as far as the framing goes: the handler may write any "byte" values and any stream type *)
Definition rcd_fr (r : rcd) : Prop := len (rbody r) < 65536 /\ len (rpad r) < 256.
Definition wholeF (l : bytes) : Prop := exists rs, Forall rcd_fr rs /\ l = enc_rcds rs.

Lemma count_step_fr f r rest e m : rcd_fr r ->
  count_records (S f) (enc_rcd r ++ rest) e m =
  count_records f rest (e + fst (tally1 r)) (m + snd (tally1 r)).
Proof.
  intros (Hb & Hp).
  assert (Hdrop : drop (8 + len (rbody r) + len (rpad r)) (enc_rcd r ++ rest) = rest).
  { rewrite <- enc_rcd_len. apply drop_len_app. }
  assert (Hlen : len (enc_rcd r ++ rest) = 8 + len (rbody r) + len (rpad r) + len rest).
  { rewrite len_app, enc_rcd_len. reflexivity. }
  cbn [count_records]. rewrite Hlen.
  destruct (N.ltb_spec (8 + len (rbody r) + len (rpad r) + len rest) 8) as [H|_]; [lia|].
  assert (E4 : nthN (enc_rcd r ++ rest) 4 = len (rbody r) / 256 mod 256) by (rewrite enc_rcd_shape; reflexivity).
  assert (E5 : nthN (enc_rcd r ++ rest) 5 = len (rbody r) mod 256) by (rewrite enc_rcd_shape; reflexivity).
  assert (E6 : nthN (enc_rcd r ++ rest) 6 = len (rpad r)) by (rewrite enc_rcd_shape; reflexivity).
  assert (E1 : nthN (enc_rcd r ++ rest) 1 = rt r) by (rewrite enc_rcd_shape; reflexivity).
  rewrite E4, E5, E6, E1, (be16_to_be16 _ Hb).
  destruct (N.ltb_spec (8 + len (rbody r) + len (rpad r) + len rest) (8 + len (rbody r) + len (rpad r))) as [H|_]; [lia|].
  rewrite Hdrop. unfold tally1. cbn [fst snd].
  f_equal.
  - destruct (rt r =? RT_EndRequest); [reflexivity|apply eq_sym, N.add_0_r].
  - destruct ((rt r =? RT_GetValuesResult) || (rt r =? RT_Unknown)); [reflexivity|apply eq_sym, N.add_0_r].
Qed.

Lemma count_enc_fr : forall rs fuel e m, Forall rcd_fr rs -> (length rs <= fuel)%nat ->
  count_records fuel (enc_rcds rs) e m = (e + fst (tally rs), m + snd (tally rs)).
Proof.
  induction rs as [|r t IH]; intros fuel e m Hok Hf.
  - cbn [enc_rcds flat_map tally fst snd]. rewrite !N.add_0_r. destruct fuel; reflexivity.
  - inversion Hok as [|? ? Hr Ht]; subst. destruct fuel as [|f]; [cbn [length] in Hf; lia|].
    cbn [enc_rcds flat_map]. change (flat_map enc_rcd t) with (enc_rcds t).
    rewrite (count_step_fr f r (enc_rcds t) e m Hr). rewrite IH; [|exact Ht|cbn [length] in Hf; lia].
    cbn [tally]. unfold cadd. cbn [fst snd]. f_equal; lia.
Qed.

Lemma counts_enc_fr rs : Forall rcd_fr rs -> counts (enc_rcds rs) = tally rs.
Proof.
  intros H. unfold counts. rewrite (count_enc_fr rs _ 0 0 H (enc_rcds_length rs)).
  destruct (tally rs) as [a b]. cbn [fst snd]. f_equal; lia.
Qed.

Lemma counts_app_F a b : wholeF a -> wholeF b -> counts (a ++ b) = cadd (counts a) (counts b).
Proof.
  intros (ra & Ha & ->) (rb & Hb & ->).
  rewrite <- enc_rcds_app, !counts_enc_fr; [apply tally_app|exact Hb|exact Ha|].
  apply Forall_app. split; assumption.
Qed.

Lemma rcd_ok_fr r : rcd_ok r -> rcd_fr r.
Proof. intros (_ & _ & Hb & Hp & _). split; assumption. Qed.

Lemma whole_F l : whole l -> wholeF l.
Proof.
  intros (rs & H & ->). exists rs. split; [|reflexivity]. rewrite Forall_forall in *. intros r Hr. apply rcd_ok_fr, H, Hr.
Qed.

Lemma wholeF_nil : wholeF [].
Proof. exists []. split; [constructor|reflexivity]. Qed.

Lemma wholeF_app a b : wholeF a -> wholeF b -> wholeF (a ++ b).
Proof.
  intros (ra & Ha & ->) (rb & Hb & ->). exists (ra ++ rb). split; [apply Forall_app; split; assumption|].
  symmetry. apply enc_rcds_app.
Qed.

Lemma counts_app_w a b : wholeF a -> wholeF b -> snd (counts (a ++ b)) = snd (counts a) + snd (counts b).
Proof. intros Ha Hb. rewrite (counts_app_F a b Ha Hb). reflexivity. Qed.

(* the three kinds of reply, counted *)
Lemma unk_counts t id : t < 256 -> id < 65536 -> counts (unk_record t id) = (0, 1).
Proof.
  intros Ht Hid. change (unk_record t id) with (enc_rcds [mkRcd RT_Unknown id (unk_encode t) []] ++ []).
  rewrite app_nil_r, counts_enc; [reflexivity|]. constructor; [|constructor].
  unfold rcd_ok. cbn [rt rid rbody rpad].
  split; [unfold RT_Unknown; lia|]. split; [exact Hid|]. split; [vm_compute; reflexivity|]. split; [vm_compute; reflexivity|].
  split; [|constructor]. unfold unk_encode. constructor; [exact Ht|apply bytes_ok_zeros].
Qed.

Lemma end_counts ps id : ps < 256 -> id < 65536 -> snd (counts (end_record 0 ps id)) = 0.
Proof.
  intros Hps Hid. change (end_record 0 ps id) with (enc_rcds [mkRcd RT_EndRequest id (end_encode 0 ps) []] ++ []).
  rewrite app_nil_r, counts_enc; [reflexivity|]. constructor; [|constructor].
  unfold rcd_ok. cbn [rt rid rbody rpad].
  split; [unfold RT_EndRequest; lia|]. split; [exact Hid|]. split; [vm_compute; reflexivity|]. split; [vm_compute; reflexivity|].
  split; [|constructor]. unfold end_encode. apply bytes_ok_app. split; [apply to_be32_ok|].
  apply bytes_ok_app. split; [repeat constructor; exact Hps|apply bytes_ok_zeros].
Qed.

Lemma gv_counts vars maxc : counts (write_response vars maxc) = (0, 1).
Proof.
  pose proof (response_body_len vars maxc) as Hl. pose proof (response_body_ok vars maxc) as Hb.
  set (body := response_body vars maxc) in *.
  assert (Hm : len body mod 65536 = len body) by (apply N.mod_small; lia).
  destruct (pad_rule (len body)) as [P1 _].
  assert (E : write_response vars maxc = enc_rcds [mkRcd RT_GetValuesResult 0 body (zeros (auto_padding (len body)))]).
  { unfold write_response. fold body. rewrite Hm. unfold enc_rcds, enc_rcd, enc_rcd_rsv, hdr_encode. cbn [flat_map rt rid rbody rpad].
    rewrite len_zeros. rewrite app_nil_r, <- !app_assoc. reflexivity. }
  rewrite E, counts_enc; [reflexivity|]. constructor; [|constructor].
  unfold rcd_ok. cbn [rt rid rbody rpad]. rewrite len_zeros.
  split; [unfold RT_GetValuesResult; lia|]. split; [lia|]. split; [lia|]. split; [lia|]. split; [exact Hb|apply bytes_ok_zeros].
Qed.

(* ------------------------------------------------------------------------------------------ *)
(* Part B: the framing walk                                                                     *)
(* ------------------------------------------------------------------------------------------ *)

Definition padd (n : N) (r : N * bool) : N * bool := (n + fst r, snd r).

Lemma padd_0 r : padd 0 r = r.
Proof. destruct r as [a b]. unfold padd. cbn [fst snd]. f_equal. Qed.

Lemma padd_padd a b r : padd a (padd b r) = padd (a + b) r.
Proof. unfold padd. cbn [fst snd]. f_equal. lia. Qed.

Definition b2n (b : bool) : N := if b then 1 else 0.

(* is this the header of a GetValues management record? *)
Definition gvk (t rid : N) : bool := (t =? RT_GetValues) && hdr_is_management t rid.

Definition wk_body (rec : bool -> N -> N -> bytes -> N * bool) (k : bool) (prem pad : N) (w : bytes) : N * bool :=
  if 0 <? prem then
    if len w <? prem then (0, false) else padd (b2n k) (rec false 0 pad (drop prem w))
  else if 0 <? pad then
    if len w <? pad then (0, false) else rec false 0 0 (drop pad w)
  else if len w =? 0 then (0, true)
  else if len w <? HEADER_LEN then (0, false)
  else
    let head := take HEADER_LEN w in
    let rest := drop HEADER_LEN w in
    match hdr_decode head with
    | HBadVersion _ => (0, false)
    | HBadType _ => padd 1 (rec false (be16 (nthN head 4) (nthN head 5)) (nthN head 6) rest)
    | HOk t rid cl pl => rec (gvk t rid) cl pl rest
    end.

Fixpoint wk_from (fuel : nat) (k : bool) (prem pad : N) (w : bytes) : N * bool :=
  match fuel with
  | O => (0, false)
  | S f => wk_body (wk_from f) k prem pad w
  end.

Lemma wk_body_ext (r1 r2 : bool -> N -> N -> bytes -> N * bool) k prem pad w :
  (forall k' prem' pad' w', (length w' < length w)%nat -> r1 k' prem' pad' w' = r2 k' prem' pad' w') ->
  wk_body r1 k prem pad w = wk_body r2 k prem pad w.
Proof.
  intros H. unfold wk_body.
  destruct (N.ltb_spec 0 prem) as [Hp|Hp].
  - destruct (N.ltb_spec (len w) prem) as [Hl|Hl]; [reflexivity|]. f_equal. apply H. apply drop_shorter; lia.
  - destruct (N.ltb_spec 0 pad) as [Hq|Hq].
    + destruct (N.ltb_spec (len w) pad) as [Hl|Hl]; [reflexivity|]. apply H. apply drop_shorter; lia.
    + destruct (len w =? 0); [reflexivity|].
      destruct (N.ltb_spec (len w) HEADER_LEN) as [Hl|Hl]; [reflexivity|].
      assert (Hs : (length (drop HEADER_LEN w) < length w)%nat) by (apply drop_shorter; unfold HEADER_LEN in *; lia).
      cbv zeta. destruct (hdr_decode (take HEADER_LEN w)) as [t rid cl pl|v|t]; [apply H; exact Hs|reflexivity|].
      f_equal. apply H; exact Hs.
Qed.

Lemma wk_from_fuel f1 : forall f2 k prem pad w, (length w < f1)%nat -> (length w < f2)%nat ->
  wk_from f1 k prem pad w = wk_from f2 k prem pad w.
Proof.
  induction f1 as [|f1 IH]; intros f2 k prem pad w H1 H2; [lia|]. destruct f2 as [|f2]; [lia|].
  cbn [wk_from]. apply wk_body_ext. intros k' prem' pad' w' Hw. apply IH; lia.
Qed.

Definition WK (k : bool) (prem pad : N) (w : bytes) : N * bool := wk_from (length w + 2) k prem pad w.

Lemma WK_eq k prem pad w : WK k prem pad w = wk_body WK k prem pad w.
Proof.
  unfold WK at 1. replace (length w + 2)%nat with (S (length w + 1)) by lia. cbn [wk_from].
  apply wk_body_ext. intros k' prem' pad' w' Hw. unfold WK. apply wk_from_fuel; lia.
Qed.

Lemma WK_prem k prem pad w : 0 < prem ->
  WK k prem pad w = if len w <? prem then (0, false) else padd (b2n k) (WK false 0 pad (drop prem w)).
Proof. intros H. rewrite WK_eq at 1. unfold wk_body. rewrite (ltb_0_pos _ H). reflexivity. Qed.

Lemma WK_pad k pad w : 0 < pad ->
  WK k 0 pad w = if len w <? pad then (0, false) else WK false 0 0 (drop pad w).
Proof. intros H. rewrite WK_eq at 1. unfold wk_body. rewrite ltb_0_0, (ltb_0_pos _ H). reflexivity. Qed.

Definition wk_hd (head rest : bytes) : N * bool :=
  match hdr_decode head with
  | HBadVersion _ => (0, false)
  | HBadType _ => padd 1 (WK false (be16 (nthN head 4) (nthN head 5)) (nthN head 6) rest)
  | HOk t rid cl pl => WK (gvk t rid) cl pl rest
  end.

Lemma WK_head k w : HEADER_LEN <= len w -> WK k 0 0 w = wk_hd (take HEADER_LEN w) (drop HEADER_LEN w).
Proof.
  intros H. rewrite WK_eq at 1. unfold wk_body. rewrite !ltb_0_0.
  destruct (N.eqb_spec (len w) 0) as [Hz|_]; [unfold HEADER_LEN in H; lia|].
  destruct (N.ltb_spec (len w) HEADER_LEN) as [Hl|_]; [lia|]. reflexivity.
Qed.

Lemma WK_short k w : 0 < len w -> len w < HEADER_LEN -> WK k 0 0 w = (0, false).
Proof.
  intros H0 H. rewrite WK_eq. unfold wk_body. rewrite !ltb_0_0.
  destruct (N.eqb_spec (len w) 0) as [Hz|_]; [lia|].
  destruct (N.ltb_spec (len w) HEADER_LEN) as [_|Hl]; [reflexivity|lia].
Qed.

Lemma WK_nil0 k : WK k 0 0 [] = (0, true).
Proof. reflexivity. Qed.

Lemma WK_k0 k k' pad w : WK k 0 pad w = WK k' 0 pad w.
Proof. rewrite (WK_eq k), (WK_eq k'). unfold wk_body. rewrite !ltb_0_0. reflexivity. Qed.

Lemma WK_nil k prem pad : WK k prem pad [] = (0, (prem =? 0) && (pad =? 0)).
Proof.
  rewrite WK_eq. unfold wk_body. change (len (@nil N)) with 0.
  destruct (N.ltb_spec 0 prem) as [Hp|Hp].
  - destruct (N.ltb_spec 0 prem) as [_|Hl]; [|lia]. destruct (N.eqb_spec prem 0); [lia|reflexivity].
  - assert (prem = 0) by lia. subst prem. destruct (N.ltb_spec 0 pad) as [Hq|Hq].
    + destruct (N.eqb_spec pad 0); [lia|reflexivity].
    + assert (pad = 0) by lia. subst pad. reflexivity.
Qed.

(* fewer than a header's worth of bytes at a boundary: nothing is owed *)
Lemma WK_lt8 k w : len w < HEADER_LEN -> fst (WK k 0 0 w) = 0.
Proof.
  intros H. destruct (N.eq_dec (len w) 0) as [Hz|Hz].
  - rewrite (len_zero_nil w Hz). reflexivity.
  - rewrite WK_short by lia. reflexivity.
Qed.

(* consuming n bytes of a payload (not the last byte of a GetValues body) *)
Lemma WK_adv k prem pad w n : n <= prem -> n <= len w -> (k = false \/ n < prem) ->
  WK k prem pad w = WK k (prem - n) pad (drop n w).
Proof.
  intros Hn Hw Hk.
  destruct (N.eq_dec n 0) as [->|Hn0].
  { rewrite drop_0, N.sub_0_r. reflexivity. }
  rewrite (WK_prem k prem) by lia.
  destruct (N.eq_dec n prem) as [->|Hne].
  - destruct Hk as [->|Hk]; [|lia]. rewrite N.sub_diag.
    destruct (N.ltb_spec (len w) prem) as [Hl|Hl]; [lia|]. cbn [b2n]. apply padd_0.
  - rewrite (WK_prem k (prem - n)) by lia. rewrite len_drop, drop_drop.
    replace (n + (prem - n)) with prem by lia.
    destruct (N.ltb_spec (len w - n) (prem - n)); destruct (N.ltb_spec (len w) prem); try reflexivity; lia.
Qed.

Lemma WK_pad_adv k pad w n : n <= pad -> n <= len w -> WK k 0 pad w = WK k 0 (pad - n) (drop n w).
Proof.
  intros Hn Hw.
  destruct (N.eq_dec n 0) as [->|Hn0].
  { rewrite drop_0, N.sub_0_r. reflexivity. }
  rewrite (WK_pad k pad) by lia.
  destruct (N.eq_dec n pad) as [->|Hne].
  - rewrite N.sub_diag. destruct (N.ltb_spec (len w) pad) as [Hl|Hl]; [lia|]. apply WK_k0.
  - rewrite (WK_pad k (pad - n)) by lia. rewrite len_drop, drop_drop.
    replace (n + (pad - n)) with pad by lia.
    destruct (N.ltb_spec (len w - n) (pad - n)); destruct (N.ltb_spec (len w) pad); try reflexivity; lia.
Qed.

Lemma WK_head_app k raw u : HEADER_LEN <= len raw ->
  WK k 0 0 (raw ++ u) = wk_hd (take HEADER_LEN raw) (drop HEADER_LEN raw ++ u).
Proof.
  intros H. rewrite WK_head by (rewrite len_app; lia).
  rewrite (take_app_le HEADER_LEN raw u H), (drop_app_le HEADER_LEN raw u H). reflexivity.
Qed.

(* a whole body + padding lying in front *)
Lemma WK_body k b q w : WK k (len b) (len q) (b ++ q ++ w) = padd (if len b =? 0 then 0 else b2n k) (WK false 0 0 w).
Proof.
  destruct (N.eqb_spec (len b) 0) as [Hz|Hz].
  - rewrite Hz, (len_zero_nil b Hz). cbn [app].
    rewrite (WK_pad_adv k (len q) (q ++ w) (len q)) by (rewrite ?len_app; lia).
    rewrite drop_len_app, N.sub_diag, padd_0. apply WK_k0.
  - rewrite WK_prem by lia. rewrite len_app.
    destruct (N.ltb_spec (len b + len (q ++ w)) (len b)) as [Hl|_]; [lia|].
    rewrite drop_len_app. f_equal.
    rewrite (WK_pad_adv false (len q) (q ++ w) (len q)) by (rewrite ?len_app; lia).
    rewrite drop_len_app, N.sub_diag. reflexivity.
Qed.

Lemma WK_record k r w : rcd_ok r ->
  WK k 0 0 (enc_rcd r ++ w) = padd (b2n (owes_mgmt r)) (WK false 0 0 w).
Proof.
  intros Hr. rewrite enc_rcd_app.
  rewrite WK_head by apply len_hdr8_app. rewrite take8_hdr8, drop8_hdr8.
  unfold wk_hd. rewrite (hdr_decode_hdr8 r Hr). unfold owes_mgmt.
  destruct (known_type (rt r)) eqn:Hk; cbn [negb orb].
  - rewrite WK_body. unfold gvk. rewrite gv_cond.
    destruct ((rt r =? RT_GetValues) && (rid r =? 0)); cbn [andb b2n]; destruct (len (rbody r) =? 0); reflexivity.
  - destruct (hdr8_fields r Hr) as (_ & -> & ->). rewrite WK_body. cbn [b2n].
    destruct (len (rbody r) =? 0); rewrite padd_0; reflexivity.
Qed.

Theorem WK_rcds rs w : Forall rcd_ok rs ->
  WK false 0 0 (enc_rcds rs ++ w) = padd (owed_count rs) (WK false 0 0 w).
Proof.
  intros Hrs. induction Hrs as [|r rs Hr Hrs IH].
  - cbn [enc_rcds flat_map app]. unfold owed_count. cbn [filter]. change (len (@nil rcd)) with 0. rewrite padd_0. reflexivity.
  - rewrite enc_rcds_cons, <- app_assoc, (WK_record false r _ Hr), IH, padd_padd. f_equal.
    unfold owed_count. cbn [filter]. destruct (owes_mgmt r); cbn [b2n]; [rewrite len_cons; lia|lia].
Qed.

(* the walk only grows along further bytes: what is owed for a prefix is owed for the whole *)
Lemma WK_mono : forall n k prem pad w x, (length w <= n)%nat -> fst (WK k prem pad w) <= fst (WK k prem pad (w ++ x)).
Proof.
  induction n as [|n IH]; intros k prem pad w x Hn.
  { assert (w = []) by (destruct w; [reflexivity|cbn [length] in Hn; lia]). subst w. rewrite WK_nil. cbn [fst]. lia. }
  destruct (N.ltb_spec 0 prem) as [Hp|Hp].
  - rewrite (WK_prem k prem pad w Hp), (WK_prem k prem pad (w ++ x) Hp), len_app.
    destruct (N.ltb_spec (len w) prem) as [Hl|Hl]; [cbn [fst]; lia|].
    destruct (N.ltb_spec (len w + len x) prem) as [Hl'|_]; [lia|].
    rewrite drop_app_le by lia. unfold padd. cbn [fst].
    pose proof (IH false 0 pad (drop prem w) x ltac:(pose proof (drop_shorter prem w Hp Hl); lia)). lia.
  - assert (prem = 0) by lia. subst prem. destruct (N.ltb_spec 0 pad) as [Hq|Hq].
    + rewrite (WK_pad k pad w Hq), (WK_pad k pad (w ++ x) Hq), len_app.
      destruct (N.ltb_spec (len w) pad) as [Hl|Hl]; [cbn [fst]; lia|].
      destruct (N.ltb_spec (len w + len x) pad) as [Hl'|_]; [lia|].
      rewrite drop_app_le by lia.
      apply (IH false 0 0 (drop pad w) x). pose proof (drop_shorter pad w Hq Hl). lia.
    + assert (pad = 0) by lia. subst pad.
      destruct (N.ltb_spec (len w) HEADER_LEN) as [Hl|Hl]; [rewrite (WK_lt8 k w Hl); lia|].
      rewrite (WK_head_app k w x Hl), (WK_head k w Hl). unfold wk_hd.
      assert (Hs : (length (drop HEADER_LEN w) <= n)%nat).
      { pose proof (drop_shorter HEADER_LEN w ltac:(unfold HEADER_LEN; lia) Hl). lia. }
      destruct (hdr_decode (take HEADER_LEN w)) as [t rid cl pl|v|t]; [apply IH; exact Hs|cbn [fst]; lia|].
      unfold padd. cbn [fst]. pose proof (IH false (be16 (nthN (take HEADER_LEN w) 4) (nthN (take HEADER_LEN w) 5))
        (nthN (take HEADER_LEN w) 6) (drop HEADER_LEN w) x Hs). lia.
Qed.

(* ------------------------------------------------------------------------------------------ *)
(* Part C: the stream parser conserves the walk                                                 *)
(* ------------------------------------------------------------------------------------------ *)
Section WalkMachine.
Variable maxc : N.

Definition kst (st : sstate) : bool := match st with SValues _ => true | _ => false end.

(* the walk from the parser's position over (unparsed bytes ++ not-yet-fed bytes) *)
Definition W (a : ast) (u : bytes) : N * bool := WK (kst (a_st a)) (a_prem a) (a_pad a) (a_raw a ++ u).

(* a' is a later state of a: complete records [o] were appended to the output, and they are exactly what the
   walk loses *)
Definition w_rel (a a' : ast) : Prop :=
  bytes_ok (a_raw a) -> bytes_ok (a_raw a') /\
  exists o, a_out a' = a_out a ++ o /\ whole o /\ forall u, W a u = padd (snd (counts o)) (W a' u).

Definition w_post (a : ast) (fl : aflow) : Prop :=
  match fl with AContinue l' | ABreak l' | AErr l' _ => w_rel a (al l') | APanic _ => True end.

Lemma w_rel_refl a : w_rel a a.
Proof.
  intros H. split; [exact H|]. exists []. split; [symmetry; apply app_nil_r|]. split; [apply whole_nil|].
  intros u. rewrite counts_nil. cbn [snd]. symmetry. apply padd_0.
Qed.

Lemma w_rel_trans a1 a2 a3 : w_rel a1 a2 -> w_rel a2 a3 -> w_rel a1 a3.
Proof.
  intros H1 H2 Hb. destruct (H1 Hb) as (Hb2 & o1 & E1 & W1 & L1). destruct (H2 Hb2) as (Hb3 & o2 & E2 & W2 & L2).
  split; [exact Hb3|]. exists (o1 ++ o2). split; [rewrite E2, E1, app_assoc; reflexivity|].
  split; [apply whole_app; assumption|]. intros u. rewrite L1, L2, padd_padd, (counts_app_w o1 o2 (whole_F _ W1) (whole_F _ W2)). reflexivity.
Qed.

Lemma w_post_trans a1 a2 fl : w_rel a1 a2 -> w_post a2 fl -> w_post a1 fl.
Proof.
  intros H12 H. destruct fl as [l'|l'|l' e|n]; cbn [w_post] in *; try (apply (w_rel_trans _ _ _ H12 H)). exact I.
Qed.

Lemma pfin_W a parsed' out' o st' res cap' n : out' = a_out a ++ o -> whole o ->
  ((o = [] /\ kst st' = kst (a_st a) /\ (kst (a_st a) = false \/ n < a_prem a)) \/
   (snd (counts o) = 1 /\ kst (a_st a) = true /\ n = a_prem a /\ 0 < a_prem a)) ->
  w_post a (pfin' a parsed' out' st' res cap' n).
Proof.
  intros Eo Ho Hc. unfold pfin'. cbv zeta.
  destruct (N.ltb_spec (N.min (a_prem a) (len (a_raw a))) n) as [Hn|Hn]; [exact I|].
  assert (Hrel : w_rel a (mkA (a_B a) (a_space a) parsed' (drop n (a_raw a)) out' (a_req a) (a_stream a)
                              (a_prem a - n) (a_pad a) st')).
  { intros Hb. cbn [a_raw a_out]. split; [apply bytes_ok_drop; exact Hb|]. exists o. split; [exact Eo|]. split; [exact Ho|].
    intros u. unfold W. cbn [a_B a_space a_parsed a_raw a_out a_req a_stream a_prem a_pad a_st].
    destruct Hc as [(-> & Ek & Hk)|(Ec & Ek & -> & Hp)].
    - rewrite counts_nil. cbn [snd]. rewrite padd_0, Ek.
      rewrite (WK_adv (kst (a_st a)) (a_prem a) (a_pad a) (a_raw a ++ u) n ltac:(lia) ltac:(rewrite len_app; lia) Hk).
      rewrite (drop_app_le n (a_raw a) u) by lia. reflexivity.
    - rewrite Ec, Ek. rewrite WK_prem by exact Hp. rewrite len_app.
      destruct (N.ltb_spec (len (a_raw a) + len u) (a_prem a)) as [Hl|_]; [lia|].
      rewrite N.sub_diag, (drop_app_le (a_prem a) (a_raw a) u) by lia. cbn [b2n]. f_equal. apply WK_k0. }
  match goal with |- w_post _ (if ?c then _ else _) => destruct c end; cbn [w_post al]; exact Hrel.
Qed.

Lemma payload_W l : 0 < a_prem (al l) -> w_post (al l) (aparse_payload maxc l).
Proof.
  intros Hp. rewrite aparse_payload_eq. cbv zeta. destruct l as [a res cap]. cbn [al ares acap] in *.
  assert (NO : forall parsed' st' res' cap' n, kst st' = kst (a_st a) -> (kst (a_st a) = false \/ n < a_prem a) ->
             w_post a (pfin' a parsed' (a_out a) st' res' cap' n)).
  { intros parsed' st' res' cap' n H1 H2. apply (pfin_W a parsed' (a_out a) []); [symmetry; apply app_nil_r|apply whole_nil|].
    left. split; [reflexivity|]. split; assumption. }
  destruct (a_st a) as [| |vars] eqn:Est.
  - destruct cap as [c|]; apply NO; try reflexivity; left; reflexivity.
  - apply NO; [reflexivity|left; reflexivity].
  - destruct (nv_run (take (N.min (a_prem a) (len (a_raw a))) (a_raw a))) as [ps rest] eqn:En.
    pose proof (nv_run_rest_len (take (N.min (a_prem a) (len (a_raw a))) (a_raw a))) as Hr.
    rewrite En in Hr. cbn [snd] in Hr. rewrite len_take in Hr.
    destruct (N.ltb_spec (len (a_raw a)) (a_prem a)) as [Hlt|Hge].
    + apply NO; [reflexivity|right; lia].
    + apply (pfin_W a (a_parsed a) _ (write_response (vars_of_pairs vars ps) maxc)); [reflexivity|apply gv_whole|].
      right. rewrite gv_counts, Est. cbn [snd kst]. repeat split; lia.
Qed.

Lemma hgo_W l st cl pl out added :
  (bytes_ok (a_raw (al l)) -> exists o, out = a_out (al l) ++ o /\ whole o /\
     forall u, W (al l) u = padd (snd (counts o)) (WK (kst st) cl pl (drop HEADER_LEN (a_raw (al l)) ++ u))) ->
  w_post (al l) (StreamInv.hgo l st cl pl out added).
Proof.
  intros H. unfold StreamInv.hgo. cbn [w_post al]. intros Hb. cbn [a_raw a_out].
  split; [apply bytes_ok_drop; exact Hb|]. destruct (H Hb) as (o & E & Ho & L). exists o. split; [exact E|]. split; [exact Ho|].
  intros u. rewrite L. reflexivity.
Qed.

Lemma input_not_gv t : is_input_stream t = true -> (t =? RT_GetValues) = false.
Proof. intros H. apply is_input_cases in H. destruct H as [-> | ->]; reflexivity. Qed.

Lemma head_W l : a_prem (al l) = 0 -> a_pad (al l) = 0 -> w_post (al l) (aparse_head l).
Proof.
  intros Hp Hq. rewrite aparse_head_eq. cbv zeta.
  destruct (negb (a_boundary (al l))); [exact I|].
  destruct (N.ltb_spec (len (a_raw (al l))) HEADER_LEN) as [Hl|Hl]; [apply w_rel_refl|].
  assert (HW : forall u, W (al l) u = wk_hd (take HEADER_LEN (a_raw (al l))) (drop HEADER_LEN (a_raw (al l)) ++ u)).
  { intros u. unfold W. rewrite Hp, Hq. apply WK_head_app. exact Hl. }
  unfold wk_hd in HW.
  assert (PLAIN : forall st cl pl added, kst st = false ->
            (forall u, W (al l) u = WK false cl pl (drop HEADER_LEN (a_raw (al l)) ++ u)) ->
            w_post (al l) (StreamInv.hgo l st cl pl (a_out (al l)) added)).
  { intros st cl pl added Hk H. apply hgo_W. intros _. exists []. split; [symmetry; apply app_nil_r|]. split; [apply whole_nil|].
    intros u. rewrite counts_nil, Hk. cbn [snd]. rewrite padd_0. apply H. }
  destruct (hdr_decode (take HEADER_LEN (a_raw (al l)))) as [t hid cl pl|v|t] eqn:Ed.
  - destruct (is_input_stream t && (hid =? r_id (a_req (al l)))) eqn:Hin.
    + apply andb_true_iff in Hin. destruct Hin as [Hin _].
      assert (Hg : gvk t hid = false) by (unfold gvk; rewrite (input_not_gv t Hin); reflexivity).
      destruct (cmp_input_streams (r_role (a_req (al l))) t (a_stream (al l))) as [[| |]|].
      * apply PLAIN; [reflexivity|]. intros u. rewrite HW, Hg. reflexivity.
      * destruct (cl =? 0); cbn [negb]; [cbn [w_post al]; apply w_rel_refl|].
        apply PLAIN; [reflexivity|]. intros u. rewrite HW, Hg. reflexivity.
      * cbn [w_post al]. apply w_rel_refl.
      * exact I.
    + destruct ((t =? RT_AbortRequest) && (hid =? r_id (a_req (al l)))); [apply w_rel_refl|].
      destruct ((t =? RT_BeginRequest) && negb (hid =? r_id (a_req (al l)))) eqn:Hbg.
      { apply andb_true_iff in Hbg. destruct Hbg as [Hbg _]. apply N.eqb_eq in Hbg. subst t.
        apply hgo_W. intros Hb. exists (end_record 0 PS_CantMpxConn hid).
        assert (Hid : hid < 65536).
        { apply hdr_decode_ok_inv in Ed. destruct Ed as (_ & -> & _ & _).
          pose proof (bytes_ok_take HEADER_LEN _ Hb) as Hh. apply be16_lt; apply nthN_lt; exact Hh. }
        split; [reflexivity|]. split; [apply end_whole; [unfold PS_CantMpxConn; lia|exact Hid]|].
        intros u. rewrite (end_counts PS_CantMpxConn hid ltac:(unfold PS_CantMpxConn; lia) Hid), padd_0, HW. reflexivity. }
      destruct ((t =? RT_GetValues) && hdr_is_management t hid) eqn:Hgv.
      * apply hgo_W. intros _. exists []. split; [symmetry; apply app_nil_r|]. split; [apply whole_nil|].
        intros u. rewrite counts_nil. cbn [snd kst]. rewrite padd_0, HW. unfold gvk. rewrite Hgv. reflexivity.
      * apply PLAIN; [reflexivity|]. intros u. rewrite HW. unfold gvk. rewrite Hgv. reflexivity.
  - apply w_rel_refl.
  - apply hgo_W. intros Hb. pose proof (bytes_ok_take HEADER_LEN _ Hb) as Hh.
    exists (unk_record t (be16 (nthN (take HEADER_LEN (a_raw (al l))) 2) (nthN (take HEADER_LEN (a_raw (al l))) 3))).
    apply hdr_decode_badtype_inv in Ed. subst t.
    assert (H1 : nthN (take HEADER_LEN (a_raw (al l))) 1 < 256) by (apply nthN_lt; exact Hh).
    assert (H2 : be16 (nthN (take HEADER_LEN (a_raw (al l))) 2) (nthN (take HEADER_LEN (a_raw (al l))) 3) < 65536)
      by (apply be16_lt; apply nthN_lt; exact Hh).
    split; [reflexivity|]. split; [apply unk_whole; assumption|].
    intros u. rewrite (unk_counts _ _ H1 H2), HW. reflexivity.
Qed.

Lemma after_payload_W l : w_post (al l) (after_payload l).
Proof.
  unfold after_payload. cbv zeta.
  destruct (N.ltb_spec 0 (a_pad (al l))) as [Hq|Hq].
  - destruct (N.eqb_spec (a_prem (al l)) 0) as [Hp|Hp]; cbn [negb]; [|exact I].
    assert (ADV : forall n, n <= a_pad (al l) -> n <= len (a_raw (al l)) ->
              w_rel (al l) (a_set (al l) (a_parsed (al l)) (drop n (a_raw (al l))) (a_out (al l)) (a_prem (al l))
                                  (a_pad (al l) - n) (a_st (al l)))).
    { intros n H1 H2 Hb. unfold a_set. cbn [a_raw a_out]. split; [apply bytes_ok_drop; exact Hb|].
      exists []. split; [symmetry; apply app_nil_r|]. split; [apply whole_nil|].
      intros u. unfold W. cbn [a_B a_space a_parsed a_raw a_out a_req a_stream a_prem a_pad a_st].
      rewrite counts_nil. cbn [snd]. rewrite padd_0, Hp.
      rewrite (WK_pad_adv _ (a_pad (al l)) (a_raw (al l) ++ u) n) by (rewrite ?len_app; lia).
      rewrite (drop_app_le n (a_raw (al l)) u) by lia. reflexivity. }
    destruct (N.leb_spec (len (a_raw (al l))) (a_pad (al l))) as [Hl|Hl].
    + cbn [w_post al]. pose proof (ADV (len (a_raw (al l))) Hl ltac:(lia)) as H.
      rewrite (drop_all (len (a_raw (al l))) (a_raw (al l))) in H by lia. exact H.
    + set (l2 := mkAL (a_set (al l) (a_parsed (al l)) (drop (a_pad (al l)) (a_raw (al l))) (a_out (al l))
                              (a_prem (al l)) 0 (a_st (al l))) (ares l) (acap l)).
      apply (w_post_trans (al l) (al l2)).
      * unfold l2. cbn [al]. pose proof (ADV (a_pad (al l)) ltac:(lia) ltac:(lia)) as H. rewrite N.sub_diag in H. exact H.
      * apply head_W; unfold l2, a_set; cbn [al a_prem a_pad]; [exact Hp|reflexivity].
  - destruct (N.eq_dec (a_prem (al l)) 0) as [Hp|Hp].
    + apply head_W; [exact Hp|lia].
    + rewrite aparse_head_eq. cbv zeta. unfold a_boundary.
      destruct (N.eqb_spec (a_prem (al l)) 0) as [Hz|_]; [contradiction|]. cbn [andb negb]. exact I.
Qed.

Lemma iter_W l : w_post (al l) (aparse_iter maxc l).
Proof.
  rewrite aparse_iter_eq.
  destruct (N.ltb_spec 0 (a_prem (al l))) as [Hp|Hp]; [|apply after_payload_W].
  pose proof (payload_W l Hp) as H.
  destruct (aparse_payload maxc l) as [l'|l'|l' e|n]; cbn [w_post] in H.
  - apply (w_post_trans _ _ _ H). apply after_payload_W.
  - exact H.
  - exact H.
  - exact I.
Qed.

Lemma loop_W fuel : forall l, w_post (al l) (aparse_loop maxc fuel l).
Proof.
  induction fuel as [|f IH]; intros l; [exact I|].
  cbn [aparse_loop]. destruct (a_raw (al l)) as [|b r]; [apply w_rel_refl|].
  pose proof (iter_W l) as H.
  destruct (aparse_iter maxc l) as [l'|l'|l' e|n]; cbn [w_post] in H.
  - apply (w_post_trans _ _ _ H). apply IH.
  - exact H.
  - exact H.
  - exact I.
Qed.

(* every call conserves the walk: the records it appends to the output are the replies owed for the records it
   went through *)
Theorem walk_law a new dest a' s : bytes_ok (a_raw a) -> bytes_ok new ->
  (aparse maxc a new dest = AOk a' s \/ exists e, aparse maxc a new dest = AFail a' e s) ->
  bytes_ok (a_raw a') /\
  exists o, a_out a' = a_out a ++ o /\ whole o /\ forall u, W a (new ++ u) = padd (snd (counts o)) (W a' u).
Proof.
  intros Hb Hn Hres. unfold aparse in Hres.
  destruct (match dest with Some _ => negb (len (a_parsed a) =? 0) | None => false end).
  { destruct Hres as [H|[e H]]; discriminate H. }
  destruct (a_space a <? len new).
  { destruct Hres as [H|[e H]]; discriminate H. }
  cbv zeta in Hres.
  assert (FIN : forall l', w_rel (mkA (a_B a) (a_space a - len new) (a_parsed a) (a_raw a ++ new) (a_out a) (a_req a)
                                     (a_stream a) (a_prem a) (a_pad a) (a_st a)) (al l') ->
            bytes_ok (a_raw (al l')) /\
            exists o, a_out (al l') = a_out a ++ o /\ whole o /\ forall u, W a (new ++ u) = padd (snd (counts o)) (W (al l') u)).
  { intros l' H. destruct (H ltac:(cbn [a_raw]; apply bytes_ok_app; split; assumption)) as (Hb' & o & E & Ho & L).
    split; [exact Hb'|]. exists o. split; [exact E|]. split; [exact Ho|]. intros u. rewrite <- L. unfold W.
    cbn [a_B a_space a_parsed a_raw a_out a_req a_stream a_prem a_pad a_st]. rewrite <- app_assoc. reflexivity. }
  match type of Hres with context [aparse_loop maxc ?f ?l] =>
    pose proof (loop_W f l) as H; destruct (aparse_loop maxc f l) as [l'|l'|l' e'|n] end;
    cbn [w_post al] in H.
  - destruct Hres as [Hr|[e Hr]]; [|discriminate Hr]. inversion Hr; subst a' s. apply FIN, H.
  - destruct Hres as [Hr|[e Hr]]; [|discriminate Hr]. inversion Hr; subst a' s. apply FIN, H.
  - destruct Hres as [Hr|[e Hr]]; [discriminate Hr|]. inversion Hr; subst a' s. apply FIN, H.
  - destruct Hres as [Hr|[e Hr]]; discriminate Hr.
Qed.

(* ---- where a call stops ---- *)
(* nothing can be done with the unparsed bytes: nothing is owed for them; and inside a record they do not complete it *)
Lemma stuck_W a : stuck a -> fst (W a []) = 0 /\ (a_boundary a = false -> snd (W a []) = false).
Proof.
  unfold W, a_boundary. rewrite app_nil_r. intros [H|[[H1 H2]|(H1 & H2 & H3)]].
  - rewrite H, WK_nil. cbn [fst snd]. split; [reflexivity|exact (fun x => x)].
  - rewrite WK_prem by exact H1. destruct (N.ltb_spec (len (a_raw a)) (a_prem a)); [|lia]. split; reflexivity.
  - rewrite H1, H2. split; [apply WK_lt8; exact H3|]. intros H. discriminate H.
Qed.

(* a call that reports neither stream data nor the end of the stream stops only when stuck *)
Lemma aparse_stuck a new dest a' s : a_inv a -> legal a new dest -> dest <> Some 0 ->
  aparse maxc a new dest = AOk a' s -> s_end s = false -> s_stream s = 0 -> stuck a'.
Proof.
  intros Hinv Hleg Hd E Hend Hstr. rewrite (aparse_eq maxc a new dest Hleg) in E.
  pose proof (loop_ok maxc _ _ (linv_l0 a new dest Hinv Hleg) (fuel_l0 a new dest Hinv Hleg)) as LO.
  pose proof (loop_brk maxc (2 * N.to_nat (a_B a) + 8) (l0 a new dest)) as LB.
  destruct (aparse_loop maxc (2 * N.to_nat (a_B a) + 8) (l0 a new dest)) as [l'|l'|l' e|n];
    cbn [loop_post brk_flow] in LO, LB; try contradiction; try discriminate E.
  assert (Ea : al l' = a') by congruence. assert (Es : ares l' = s) by congruence. subst a' s.
  destruct LB as [St|[Se|Sc]].
  - exact St.
  - rewrite Se in Hend. discriminate Hend.
  - exfalso. destruct LO as (P & _). pose proof (p_cap _ _ _ P) as Hc. unfold cap_rel in Hc.
    cbn [l0 acap ares res0 s_stream] in Hc. destruct dest as [c|].
    + destruct Hc as (d & c' & C1 & _ & _ & C4 & C5). rewrite Sc in C1. injection C1 as <-.
      apply Hd. f_equal. lia.
    + destruct Hc as (C1 & _). rewrite Sc in C1. discriminate C1.
Qed.

(* a call without a capacity limit stops only when stuck, or at a record boundary (end of the stream) *)
Definition s_post (l : alstate) (fl : aflow) : Prop :=
  acap l = None ->
  match fl with
  | AContinue l' => acap l' = None
  | ABreak l' => stuck (al l') \/ a_boundary (al l') = true
  | _ => True
  end.

Lemma pfin_S a parsed' out' st' res n : 0 < a_prem a ->
  (n = N.min (a_prem a) (len (a_raw a)) \/ (len (a_raw a) < a_prem a /\ n <= len (a_raw a))) ->
  match pfin' a parsed' out' st' res None n with
  | AContinue l' => acap l' = None
  | ABreak l' => stuck (al l')
  | _ => True
  end.
Proof.
  intros Hp Hn. unfold pfin'. cbv zeta.
  destruct (N.ltb_spec (N.min (a_prem a) (len (a_raw a))) n) as [Hlt|Hle]; [exact I|]. cbn [a_prem].
  destruct ((a_prem a - n =? 0) && (n <? len (a_raw a))) eqn:Hc; [reflexivity|].
  unfold stuck. cbn [al a_raw a_prem a_pad]. apply andb_false_iff in Hc.
  destruct Hn as [Hn|[H1 H2]].
  - left. apply drop_all. destruct Hc as [Hc|Hc]; [apply N.eqb_neq in Hc|apply N.ltb_ge in Hc]; lia.
  - right. left. rewrite len_drop. lia.
Qed.

Lemma payload_S l : 0 < a_prem (al l) -> acap l = None ->
  match aparse_payload maxc l with
  | AContinue l' => acap l' = None
  | ABreak l' => stuck (al l')
  | _ => True
  end.
Proof.
  intros Hp Hc. rewrite aparse_payload_eq. cbv zeta. destruct l as [a res cap]. cbn [al ares acap] in *. subst cap.
  destruct (a_st a).
  - apply pfin_S; [exact Hp|left; reflexivity].
  - apply pfin_S; [exact Hp|left; reflexivity].
  - destruct (nv_run (take (N.min (a_prem a) (len (a_raw a))) (a_raw a))) as [ps rest] eqn:En.
    pose proof (nv_run_rest_len (take (N.min (a_prem a) (len (a_raw a))) (a_raw a))) as Hr.
    rewrite En in Hr. cbn [snd] in Hr. rewrite len_take in Hr.
    destruct (N.ltb_spec (len (a_raw a)) (a_prem a)) as [Hlt|Hge].
    + apply pfin_S; [exact Hp|right; split; [exact Hlt|lia]].
    + apply pfin_S; [exact Hp|left; reflexivity].
Qed.

Lemma head_S l : s_post l (aparse_head l).
Proof.
  intros Hc. rewrite aparse_head_eq. cbv zeta.
  destruct (a_boundary (al l)) eqn:Hb; cbn [negb]; [|exact I].
  destruct (len (a_raw (al l)) <? HEADER_LEN); [right; exact Hb|].
  assert (GO : forall st cl pl out added, match StreamInv.hgo l st cl pl out added with
     | AContinue l' => acap l' = None | ABreak l' => stuck (al l') \/ a_boundary (al l') = true | _ => True end).
  { intros. unfold StreamInv.hgo. cbn [acap]. exact Hc. }
  destruct (hdr_decode (take HEADER_LEN (a_raw (al l)))) as [t hid cl pl|v|t]; [|exact I|apply GO].
  destruct (is_input_stream t && (hid =? r_id (a_req (al l)))).
  - destruct (cmp_input_streams (r_role (a_req (al l))) t (a_stream (al l))) as [[| |]|]; try apply GO; try exact I.
    + destruct (negb (cl =? 0)); [apply GO|]. cbn [al]. right. exact Hb.
    + cbn [al]. right. exact Hb.
  - destruct ((t =? RT_AbortRequest) && (hid =? r_id (a_req (al l)))); [exact I|].
    destruct ((t =? RT_BeginRequest) && negb (hid =? r_id (a_req (al l)))); [apply GO|].
    destruct ((t =? RT_GetValues) && hdr_is_management t hid); apply GO.
Qed.

Lemma after_payload_S l : s_post l (after_payload l).
Proof.
  unfold after_payload. cbv zeta. destruct (0 <? a_pad (al l)); [|apply head_S].
  destruct (negb (a_prem (al l) =? 0)); [intros _; exact I|].
  destruct (len (a_raw (al l)) <=? a_pad (al l)).
  - intros _. left. left. reflexivity.
  - intros Hc. apply (head_S (mkAL _ (ares l) (acap l))). exact Hc.
Qed.

Lemma iter_S l : s_post l (aparse_iter maxc l).
Proof.
  intros Hc. rewrite aparse_iter_eq. destruct (N.ltb_spec 0 (a_prem (al l))) as [Hp|Hp]; [|apply after_payload_S; exact Hc].
  pose proof (payload_S l Hp Hc) as H. destruct (aparse_payload maxc l) as [l'|l'|l' e|n]; try exact I.
  - apply after_payload_S. exact H.
  - left. exact H.
Qed.

Lemma loop_S fuel : forall l, acap l = None ->
  match aparse_loop maxc fuel l with
  | AContinue _ => False
  | ABreak l' => stuck (al l') \/ a_boundary (al l') = true
  | _ => True
  end.
Proof.
  induction fuel as [|f IH]; intros l Hc; [exact I|]. cbn [aparse_loop].
  destruct (a_raw (al l)) as [|x t] eqn:Er; [left; left; exact Er|].
  pose proof (iter_S l Hc) as H. destruct (aparse_iter maxc l) as [l'|l'|l' e|n]; try exact H; try exact I.
  apply IH. exact H.
Qed.

Lemma aparse_none_stop a new a' s : aparse maxc a new None = AOk a' s -> stuck a' \/ a_boundary a' = true.
Proof.
  unfold aparse. destruct (a_space a <? len new); [discriminate|]. cbv zeta.
  match goal with |- context [aparse_loop maxc ?f ?l] =>
    pose proof (loop_S f l eq_refl) as H; destruct (aparse_loop maxc f l) as [l'|l'|l' e'|n] end;
    intros E; try discriminate E; [contradiction|].
  inversion E; subst a' s. exact H.
Qed.
End WalkMachine.

(* ------------------------------------------------------------------------------------------ *)
(* Part D: the request parser conserves the walk                                                *)
(* ------------------------------------------------------------------------------------------ *)
Section WalkRequest.
Variable norm : bytes -> bytes.
Variable maxc : N.

(* the framing position of a request-parser state *)
Definition sk (s : state) : bool := match s with HeaderValues _ _ _ | ParamsValues _ _ _ _ => true | _ => false end.
Definition sprem (s : state) : N :=
  match s with
  | HeaderSkip p _ | ParamsSkip _ p _ | DoneSkip _ p _ | Params _ p _ | HeaderValues _ p _ | ParamsValues _ _ p _ => p
  | _ => 0
  end.
Definition spad (s : state) : N :=
  match s with
  | HeaderSkip _ q | ParamsSkip _ _ q | DoneSkip _ _ q | Params _ _ q | HeaderValues _ _ q | ParamsValues _ _ _ q => q
  | _ => 0
  end.
Definition WS (s : state) (w : bytes) : N * bool := WK (sk s) (sprem s) (spad s) w.
Definition is_fatal (s : state) : bool := match s with Fatal _ => true | _ => false end.

Definition plain (s : state) (p q : N) : Prop := sk s = false /\ sprem s = p /\ spad s = q /\ is_fatal s = false.

Lemma WS_plain s p q w : plain s p q -> WS s w = WK false p q w.
Proof. intros (H1 & H2 & H3 & _). unfold WS. rewrite H1, H2, H3. reflexivity. Qed.

Lemma into_skip_plain wrap nxt p q : (forall p' q', plain (wrap p' q') p' q') -> plain nxt 0 0 ->
  plain (into_skip wrap nxt p q) p q.
Proof.
  intros Hw Hn. destruct (into_skip_cases wrap nxt p q) as [(-> & -> & E)|(_ & E)]; rewrite E; [exact Hn|apply Hw].
Qed.

Lemma header_skip_plain p q : plain (header_skip_to p q) p q.
Proof. apply into_skip_plain; [intros; repeat split|repeat split]. Qed.
Lemma params_skip_plain i p q : plain (params_skip_to i p q) p q.
Proof. apply into_skip_plain; [intros; repeat split|repeat split]. Qed.
Lemma done_skip_plain r p q : plain (into_skip (DoneSkip r) (Done r) p q) p q.
Proof. apply into_skip_plain; [intros; repeat split|repeat split]. Qed.

(* the whole payload lies in front *)
Lemma WK_through k p q w : p <= len w -> WK k p q w = padd (if p =? 0 then 0 else b2n k) (WK false 0 q (drop p w)).
Proof.
  intros H. destruct (N.eqb_spec p 0) as [->|Hp].
  - rewrite drop_0, padd_0. apply WK_k0.
  - rewrite WK_prem by lia. destruct (N.ltb_spec (len w) p); [lia|reflexivity].
Qed.

Lemma WK_skip p q w : p + q <= len w -> WK false p q w = WK false 0 0 (drop (p + q) w).
Proof.
  intros H. rewrite WK_through by lia. cbn [b2n]. replace (if p =? 0 then 0 else 0) with 0 by (destruct (p =? 0); reflexivity).
  rewrite padd_0. rewrite (WK_pad_adv false q (drop p w) q) by (rewrite ?len_drop; lia).
  rewrite N.sub_diag, drop_drop. reflexivity.
Qed.

(* the postcondition of one sub-state drive *)
Definition d_law (s : state) (d : bytes) (res : flow * bytes) : Prop :=
  bytes_ok d ->
  match res with
  | (PANIC _, _) => True
  | (Break r s', o) =>
      (is_fatal s' = false -> whole o /\ forall u, WS s (d ++ u) = padd (snd (counts o)) (WS s' (r ++ u))) /\
      (is_final s' = false -> fst (WS s' r) = 0)
  | (Continue r s', o) =>
      is_fatal s' = false -> whole o /\ forall u, WS s (d ++ u) = padd (snd (counts o)) (WS s' (r ++ u))
  end.

Lemma d_law_pre s d s0 d0 res : (forall u, WS s (d ++ u) = WS s0 (d0 ++ u)) -> (bytes_ok d -> bytes_ok d0) ->
  d_law s0 d0 res -> d_law s d res.
Proof.
  intros HW Hb H Hd. specialize (H (Hb Hd)). destruct res as [[r s'|r s'|n] o]; [| |exact I].
  - destruct H as [H1 H2]. split; [|exact H2]. intros Hf. destruct (H1 Hf) as [A B]. split; [exact A|].
    intros u. rewrite HW. apply B.
  - intros Hf. destruct (H Hf) as [A B]. split; [exact A|]. intros u. rewrite HW. apply B.
Qed.

Lemma skip_law wrap nxt p q d s : (forall p' q', plain (wrap p' q') p' q') -> plain nxt 0 0 -> plain s p q ->
  d_law s d (skip_drive wrap nxt p q d, []).
Proof.
  intros Hw Hn Hs _. unfold skip_drive. cbv zeta.
  destruct (N.ltb_spec (len d) p) as [H1|H1]; [|destruct (N.ltb_spec (len d) (p + q)) as [H2|H2]].
  - split.
    + intros _. split; [apply whole_nil|]. intros u. rewrite counts_nil. cbn [snd app]. rewrite padd_0.
      rewrite (WS_plain s p q _ Hs), (WS_plain _ _ _ _ (Hw (p - len d) q)).
      rewrite (WK_adv false p q (d ++ u) (len d)) by (rewrite ?len_app; try lia; left; reflexivity).
      rewrite drop_len_app. reflexivity.
    + intros _. rewrite (WS_plain _ _ _ _ (Hw (p - len d) q)), WK_nil. reflexivity.
  - split.
    + intros _. split; [apply whole_nil|]. intros u. rewrite counts_nil. cbn [snd app]. rewrite padd_0.
      rewrite (WS_plain s p q _ Hs), (WS_plain _ _ _ _ (Hw 0 (q - (len d - p)))).
      rewrite WK_through by (rewrite len_app; lia). cbn [b2n].
      replace (if p =? 0 then 0 else 0) with 0 by (destruct (p =? 0); reflexivity). rewrite padd_0.
      rewrite (WK_pad_adv false q _ (len d - p)) by (rewrite ?len_drop, ?len_app; lia).
      rewrite drop_drop. replace (p + (len d - p)) with (len d) by lia. rewrite drop_len_app. reflexivity.
    + intros _. rewrite (WS_plain _ _ _ _ (Hw 0 (q - (len d - p)))), WK_nil. reflexivity.
  - intros _. split; [apply whole_nil|]. intros u. rewrite counts_nil. cbn [snd]. rewrite padd_0.
    rewrite (WS_plain s p q _ Hs), (WS_plain nxt 0 0 _ Hn). rewrite WK_skip by (rewrite len_app; lia).
    rewrite drop_app_le by lia. reflexivity.
Qed.

(* the padding stage of a GetValues sub-state *)
Lemma finish_law (wrap : N -> N -> N -> state) nxt q vars x o :
  (forall v p' q', sk (wrap v p' q') = true /\ sprem (wrap v p' q') = p' /\ spad (wrap v p' q') = q') -> plain nxt 0 0 ->
  match values_finish wrap nxt q vars x o with
  | (Break r s', o') => o' = o /\ is_final s' = false /\ (forall u, WK false 0 q (x ++ u) = WS s' (r ++ u)) /\ fst (WS s' r) = 0
  | (Continue r s', o') => o' = o /\ is_fatal s' = false /\ forall u, WK false 0 q (x ++ u) = WS s' (r ++ u)
  | _ => True
  end.
Proof.
  intros Hw Hn. unfold values_finish. destruct (N.ltb_spec (len x) q) as [H|H].
  - split; [reflexivity|]. destruct (Hw vars 0 (q - len x)) as (W1 & W2 & W3).
    assert (Hfin : is_final (wrap vars 0 (q - len x)) = false).
    { destruct (wrap vars 0 (q - len x)); try reflexivity; discriminate W1. }
    split; [exact Hfin|]. unfold WS. rewrite W1, W2, W3. split.
    + intros u. cbn [app]. rewrite (WK_pad_adv false q (x ++ u) (len x)) by (rewrite ?len_app; lia).
      rewrite drop_len_app. apply WK_k0.
    + rewrite WK_nil. reflexivity.
  - split; [reflexivity|]. split; [apply Hn|].
    intros u. rewrite (WS_plain nxt 0 0 _ Hn).
    rewrite (WK_pad_adv false q (x ++ u) q) by (rewrite ?len_app; lia).
    rewrite N.sub_diag, drop_app_le by lia. reflexivity.
Qed.

Lemma values_law (wrap : N -> N -> N -> state) nxt vars p q d s :
  (forall v p' q', sk (wrap v p' q') = true /\ sprem (wrap v p' q') = p' /\ spad (wrap v p' q') = q') -> plain nxt 0 0 ->
  sk s = true -> sprem s = p -> spad s = q ->
  d_law s d (values_drive maxc wrap nxt vars p q d).
Proof.
  intros Hw Hn S1 S2 S3 _. rewrite values_drive_eq.
  assert (HWS : forall w, WS s w = WK true p q w) by (intros w; unfold WS; rewrite S1, S2, S3; reflexivity).
  destruct (N.ltb_spec 0 p) as [Hp|Hp].
  - destruct (nv_run (take (N.min (len d) p) d)) as [ps rest] eqn:En.
    pose proof (nv_run_rest_len (take (N.min (len d) p) d)) as Hr. rewrite En in Hr. cbn [snd] in Hr. rewrite len_take in Hr.
    destruct (N.ltb_spec (len d) p) as [H1|H1].
    + set (c := N.min (len d) p - len rest). assert (Hc : c <= len d /\ c < p) by (unfold c; lia).
      destruct (Hw (vars_of_pairs vars ps) (p - c) q) as (W1 & W2 & W3).
      split.
      * intros _. split; [apply whole_nil|]. intros u. rewrite counts_nil. cbn [snd]. rewrite padd_0, HWS.
        unfold WS. rewrite W1, W2, W3.
        rewrite (WK_adv true p q (d ++ u) c) by (rewrite ?len_app; try lia; right; lia).
        rewrite drop_app_le by lia. reflexivity.
      * intros _. unfold WS. rewrite W1, W2, W3. rewrite WK_prem by lia. rewrite len_drop.
        destruct (N.ltb_spec (len d - c) (p - c)); [reflexivity|lia].
    + pose proof (finish_law wrap nxt q (vars_of_pairs vars ps) (drop p d) (write_response (vars_of_pairs vars ps) maxc) Hw Hn) as F.
      assert (PRE : forall u, WS s (d ++ u) = padd 1 (WK false 0 q (drop p d ++ u))).
      { intros u. rewrite HWS, WK_prem by exact Hp. rewrite len_app.
        destruct (N.ltb_spec (len d + len u) p); [lia|]. rewrite drop_app_le by lia. reflexivity. }
      destruct (values_finish wrap nxt q (vars_of_pairs vars ps) (drop p d) (write_response (vars_of_pairs vars ps) maxc))
        as [[r s'|r s'|n] o']; [| |exact I].
      * destruct F as (-> & F0 & F1 & F2). split; [|intros _; exact F2]. intros _. split; [apply gv_whole|].
        intros u. rewrite gv_counts, PRE, F1. reflexivity.
      * destruct F as (-> & F0 & F1). intros _. split; [apply gv_whole|]. intros u. rewrite gv_counts, PRE, F1. reflexivity.
  - assert (Hp0 : p = 0) by lia. rewrite Hp0 in HWS.
    pose proof (finish_law wrap nxt q vars d [] Hw Hn) as F.
    assert (PRE : forall u, WS s (d ++ u) = WK false 0 q (d ++ u)) by (intros u; rewrite HWS; apply WK_k0).
    destruct (values_finish wrap nxt q vars d []) as [[r s'|r s'|n] o']; [| |exact I].
    + destruct F as (-> & F0 & F1 & F2). split; [|intros _; exact F2]. intros _. split; [apply whole_nil|].
      intros u. rewrite counts_nil, PRE, F1. cbn [snd]. symmetry. apply padd_0.
    + destruct F as (-> & F0 & F1). intros _. split; [apply whole_nil|]. intros u. rewrite counts_nil, PRE, F1. cbn [snd]. symmetry. apply padd_0.
Qed.

(* the header of a record: what try_head returns, in terms of the walk *)
Lemma try_head_law self (skip : N -> N -> state) d : (forall p q, plain (skip p q) p q) -> bytes_ok d ->
  match try_head self skip d with
  | HeadOk t id cl pl => HEADER_LEN <= len d /\ id < 65536 /\ forall k u, WK k 0 0 (d ++ u) = WK (gvk t id) cl pl (drop 8 d ++ u)
  | HeadRet (Break r s') o => o = [] /\ r = d /\ ((s' = self /\ len d < HEADER_LEN) \/ is_fatal s' = true)
  | HeadRet (Continue r s') o => is_fatal s' = false /\ whole o /\
      forall k u, WK k 0 0 (d ++ u) = padd (snd (counts o)) (WS s' (r ++ u))
  | HeadRet (PANIC _) _ => True
  end.
Proof.
  intros Hsk Hb. destruct (N.ltb_spec (len d) 8) as [Hl|Hl].
  - rewrite try_head_short by exact Hl. split; [reflexivity|]. split; [reflexivity|]. left. split; [reflexivity|exact Hl].
  - rewrite try_head_long by exact Hl. pose proof (bytes_ok_take 8 d Hb) as Hh.
    assert (HW : forall k u, WK k 0 0 (d ++ u) = wk_hd (take 8 d) (drop 8 d ++ u)) by (intros k u; apply WK_head_app; exact Hl).
    unfold wk_hd in HW. destruct (hdr_decode (take 8 d)) as [t id cl pl|v|t] eqn:E.
    + split; [exact Hl|]. split; [|exact HW]. apply hdr_decode_ok_inv in E. destruct E as (_ & -> & _ & _).
      apply be16_lt; apply nthN_lt; exact Hh.
    + split; [reflexivity|]. split; [reflexivity|]. right. reflexivity.
    + apply hdr_decode_badtype_inv in E. subst t.
      assert (H1 : nthN (take 8 d) 1 < 256) by (apply nthN_lt; exact Hh).
      assert (H2 : be16 (nthN (take 8 d) 2) (nthN (take 8 d) 3) < 65536) by (apply be16_lt; apply nthN_lt; exact Hh).
      pose proof (Hsk (be16 (nthN (take 8 d) 4) (nthN (take 8 d) 5)) (nthN (take 8 d) 6)) as Hp.
      split; [apply Hp|].
      split; [apply unk_whole; assumption|]. intros k u. rewrite (unk_counts _ _ H1 H2), HW, (WS_plain _ _ _ _ Hp). reflexivity.
Qed.

Lemma WS_Header w : WS Header w = WK false 0 0 w.
Proof. reflexivity. Qed.

Lemma header_law d : d_law Header d (header_drive d).
Proof.
  intros Hb. rewrite header_drive_eq.
  pose proof (try_head_law Header header_skip_to d header_skip_plain Hb) as TH.
  assert (TRIV : whole [] /\ forall u, WS Header (d ++ u) = padd (snd (counts [])) (WS Header (d ++ u))).
  { split; [apply whole_nil|]. intros u. rewrite counts_nil. cbn [snd]. symmetry. apply padd_0. }
  destruct (try_head Header header_skip_to d) as [t id cl pl|f o].
  - destruct TH as (Hl & Hid & HW). unfold header_body.
    destruct (N.eqb_spec t RT_BeginRequest) as [Et|Et].
    + subst t. change (gvk RT_BeginRequest id) with false in HW.
      destruct (N.eqb_spec BeginRequest_LEN cl) as [Ecl|Ecl]; cbn [negb]; [|split; intros H; discriminate H].
      subst cl. destruct (N.ltb_spec (len d) 16) as [H16|H16].
      * split; [intros _; exact TRIV|]. intros _. rewrite WS_Header. specialize (HW false []). rewrite !app_nil_r in HW.
        rewrite HW. rewrite WK_prem by (unfold BeginRequest_LEN; lia). rewrite len_drop.
        destruct (N.ltb_spec (len d - 8) BeginRequest_LEN) as [_|Hc]; [reflexivity|unfold BeginRequest_LEN in Hc; lia].
      * assert (ADV : forall u, WS Header (d ++ u) = WK false 0 pl (drop 16 d ++ u)).
        { intros u. rewrite WS_Header, HW.
          rewrite (WK_adv false BeginRequest_LEN pl (drop 8 d ++ u) 8)
            by (rewrite ?len_app, ?len_drop; unfold BeginRequest_LEN; try lia; left; reflexivity).
          change (BeginRequest_LEN - 8) with 0. rewrite drop_app_le by (rewrite len_drop; lia). rewrite drop_drop.
          change (8 + 8) with 16. reflexivity. }
        destruct (begin_decode (slice 8 16 d)) as [role [[role' flags]|]].
        -- destruct (id =? 0); [split; intros H; discriminate H|].
           intros _. split; [apply whole_nil|]. intros u. rewrite counts_nil, ADV. cbn [snd]. rewrite padd_0. reflexivity.
        -- intros _. split; [apply end_whole; [unfold PS_UnknownRole; lia|exact Hid]|]. intros u.
           rewrite (end_counts PS_UnknownRole id ltac:(unfold PS_UnknownRole; lia) Hid), padd_0, ADV.
           rewrite (WS_plain _ _ _ _ (header_skip_plain 0 pl)). reflexivity.
    + destruct ((t =? RT_GetValues) && hdr_is_management t id) eqn:Hgv.
      * intros _. split; [apply whole_nil|]. intros u. rewrite counts_nil, WS_Header, HW. cbn [snd]. rewrite padd_0.
        unfold gvk. rewrite Hgv. reflexivity.
      * intros _. split; [apply whole_nil|]. intros u. rewrite counts_nil, WS_Header, HW. cbn [snd]. rewrite padd_0.
        unfold gvk. rewrite Hgv. rewrite (WS_plain _ _ _ _ (header_skip_plain cl pl)). reflexivity.
  - destruct f as [r s'|r s'|n]; [| |exact I].
    + destruct TH as (-> & -> & [[-> Hl]|Hf]).
      * split; [intros _; exact TRIV|]. intros _. rewrite WS_Header. apply WK_lt8. exact Hl.
      * split; intros H; [rewrite Hf in H; discriminate H|]. destruct s'; try discriminate Hf. discriminate H.
    + destruct TH as (Hnf & Ho & HW). intros _. split; [exact Ho|]. intros u. rewrite WS_Header. apply HW.
Qed.

Lemma sh_facts i t id cl pl : id < 65536 ->
  whole (sh_out i t id cl pl) /\ snd (counts (sh_out i t id cl pl)) = 0 /\
  is_fatal (sh_state i t id cl pl) = false /\
  forall w, WS (sh_state i t id cl pl) w = WK (gvk t id) cl pl w.
Proof.
  intros Hid. unfold sh_out, sh_state. cbv zeta.
  destruct ((t =? RT_Params) && (id =? r_id (ireq i))) eqn:E1.
  { apply andb_true_iff in E1. destruct E1 as [E1 _]. apply N.eqb_eq in E1. subst t. change (gvk RT_Params id) with false.
    split; [apply whole_nil|]. split; [reflexivity|]. destruct (N.eqb_spec cl 0) as [->|Hc].
    - split; [apply (done_skip_plain (ireq i) 0 pl)|]. intros w. apply (WS_plain _ _ _ _ (done_skip_plain (ireq i) 0 pl)).
    - split; reflexivity. }
  destruct ((t =? RT_AbortRequest) && (id =? r_id (ireq i))) eqn:E2.
  { apply andb_true_iff in E2. destruct E2 as [E2 E2']. apply N.eqb_eq in E2. apply N.eqb_eq in E2'. subst t. rewrite <- E2'.
    change (gvk RT_AbortRequest id) with false.
    split; [apply end_whole; [unfold PS_RequestComplete; lia|exact Hid]|].
    split; [apply end_counts; [unfold PS_RequestComplete; lia|exact Hid]|].
    split; [apply (header_skip_plain cl pl)|]. intros w. apply (WS_plain _ _ _ _ (header_skip_plain cl pl)). }
  destruct ((t =? RT_BeginRequest) && negb (id =? r_id (ireq i))) eqn:E3.
  { apply andb_true_iff in E3. destruct E3 as [E3 _]. apply N.eqb_eq in E3. subst t. change (gvk RT_BeginRequest id) with false.
    split; [apply end_whole; [unfold PS_CantMpxConn; lia|exact Hid]|].
    split; [apply end_counts; [unfold PS_CantMpxConn; lia|exact Hid]|].
    split; [apply (params_skip_plain i cl pl)|]. intros w. apply (WS_plain _ _ _ _ (params_skip_plain i cl pl)). }
  split; [apply whole_nil|]. split; [reflexivity|]. unfold gvk.
  destruct ((t =? RT_GetValues) && hdr_is_management t id).
  - split; reflexivity.
  - split; [apply (params_skip_plain i cl pl)|]. intros w. apply (WS_plain _ _ _ _ (params_skip_plain i cl pl)).
Qed.

Lemma WS_Params i p q w : WS (Params i p q) w = WK false p q w.
Proof. reflexivity. Qed.

Lemma stage_head_law i d : d_law (Params i 0 0) d (stage_head i d).
Proof.
  intros Hb. unfold stage_head.
  pose proof (try_head_law (Params i 0 0) (params_skip_to i) d (params_skip_plain i) Hb) as TH.
  destruct (try_head (Params i 0 0) (params_skip_to i) d) as [t id cl pl|f o].
  - destruct TH as (Hl & Hid & HW). destruct (sh_facts i t id cl pl Hid) as (F1 & F2 & F3 & F4).
    intros _. split; [exact F1|]. intros u. rewrite F2, padd_0, F4, WS_Params. apply HW.
  - destruct f as [r s'|r s'|n]; [| |exact I].
    + destruct TH as (-> & -> & [[-> Hl]|Hf]).
      * split.
        -- intros _. split; [apply whole_nil|]. intros u. rewrite counts_nil. cbn [snd]. symmetry. apply padd_0.
        -- intros _. rewrite WS_Params. apply WK_lt8. exact Hl.
      * split; intros H; [rewrite Hf in H; discriminate H|]. destruct s'; try discriminate Hf. discriminate H.
    + destruct TH as (Hnf & Ho & HW). intros _. split; [exact Ho|]. intros u. rewrite WS_Params. apply HW.
Qed.

Lemma stage_pad_law i q d : d_law (Params i 0 q) d (stage_pad i q d).
Proof.
  unfold stage_pad. destruct (N.ltb_spec 0 q) as [Hq|Hq].
  - destruct (N.leb_spec (len d) q) as [Hl|Hl].
    + intros _. split.
      * intros _. split; [apply whole_nil|]. intros u. rewrite counts_nil. cbn [snd app]. rewrite padd_0, !WS_Params.
        rewrite (WK_pad_adv false q (d ++ u) (len d)) by (rewrite ?len_app; lia). rewrite drop_len_app. reflexivity.
      * intros _. rewrite WS_Params, WK_nil. reflexivity.
    + apply (d_law_pre _ _ (Params i 0 0) (drop q d)); [|apply bytes_ok_drop|apply stage_head_law].
      intros u. rewrite !WS_Params. rewrite (WK_pad_adv false q (d ++ u) q) by (rewrite ?len_app; lia).
      rewrite N.sub_diag, drop_app_le by lia. reflexivity.
  - assert (q = 0) by lia. subst q. apply stage_head_law.
Qed.

Lemma params_law i p q d : d_law (Params i p q) d (params_drive norm i p q d).
Proof.
  rewrite ReqDrive.params_drive_eq. destruct (N.ltb_spec 0 p) as [Hp|Hp].
  - destruct (N.ltb_spec (len d) p) as [H1|H1].
    + destruct (parse_stream norm i d false) as [[i' c]|]; [|intros _; exact I].
      destruct (N.ltb_spec p c) as [|Hc1]; [intros _; exact I|]. destruct (N.ltb_spec (len d) c) as [|Hc2]; [intros _; exact I|].
      intros _. split.
      * intros _. split; [apply whole_nil|]. intros u. rewrite counts_nil. cbn [snd]. rewrite padd_0, !WS_Params.
        rewrite (WK_adv false p q (d ++ u) c) by (rewrite ?len_app; try lia; left; reflexivity).
        rewrite drop_app_le by lia. reflexivity.
      * intros _. rewrite WS_Params, WK_prem by lia. rewrite len_drop. destruct (N.ltb_spec (len d - c) (p - c)); [reflexivity|lia].
    + destruct (parse_stream norm i (take p d) true) as [[i' c]|]; [|intros _; exact I].
      destruct (negb (c =? p)); [intros _; exact I|].
      apply (d_law_pre _ _ (Params i' 0 q) (drop p d)); [|apply bytes_ok_drop|apply stage_pad_law].
      intros u. rewrite !WS_Params. rewrite (WK_adv false p q (d ++ u) p) by (rewrite ?len_app; try lia; left; reflexivity).
      rewrite N.sub_diag, drop_app_le by lia. reflexivity.
  - assert (p = 0) by lia. subst p. apply stage_pad_law.
Qed.

Lemma drive1_law s d : d_law s d (drive1 norm maxc s d).
Proof.
  destruct s as [|p q|vars p q|i p q|i p q|i vars p q|r p q|r|e]; cbn [drive1].
  - apply header_law.
  - apply (skip_law HeaderSkip Header); [intros; repeat split|repeat split|repeat split].
  - apply (values_law HeaderValues Header); [intros; repeat split|repeat split|reflexivity..].
  - apply params_law.
  - apply (skip_law (ParamsSkip i) (Params i 0 0)); [intros; repeat split|repeat split|repeat split].
  - apply (values_law (ParamsValues i) (Params i 0 0)); [intros; repeat split|repeat split|reflexivity..].
  - apply (skip_law (DoneSkip r) (Done r)); [intros; repeat split|repeat split|repeat split].
  - intros _. split; [|intros H; discriminate H]. intros _. split; [apply whole_nil|]. intros u. rewrite counts_nil. cbn [snd].
    symmetry. apply padd_0.
  - intros _. split; intros H; discriminate H.
Qed.

Lemma drive_law : forall f s d out r s' o, state_ok s -> bytes_ok d -> len d < SIZE_LIMIT ->
  drive norm maxc f s d out = DOk r s' o -> is_fatal s' = false ->
  exists o1, o = out ++ o1 /\ whole o1 /\ (forall u, WS s (d ++ u) = padd (snd (counts o1)) (WS s' (r ++ u))) /\
             (is_final s' = false -> fst (WS s' r) = 0).
Proof.
  induction f as [|f IH]; intros s d out r s' o Hs Hok Hsz E Hnf; [discriminate E|].
  rewrite drive_S in E. pose proof (drive1_post norm maxc (F_S1 norm) s d Hs Hok Hsz) as P.
  pose proof (drive1_law s d Hok) as L.
  destruct (drive1 norm maxc s d) as [[r0 s0|r0 s0|n] o0]; cbn [step_post] in P.
  - injection E as <- <- <-. destruct L as [L1 L2]. destruct (L1 Hnf) as [A B]. exists o0.
    split; [reflexivity|]. split; [exact A|]. split; [exact B|exact L2].
  - destruct P as (P1 & P2 & P3 & P4).
    assert (Hnf0 : is_fatal s0 = false).
    { destruct s0; try reflexivity. exfalso. destruct r0 as [|b r0']; [injection E as _ <- _; discriminate Hnf|].
      destruct f as [|f']; [discriminate E|]. cbn [drive is_final] in E. injection E as _ <- _. discriminate Hnf. }
    destruct (L Hnf0) as [A B]. destruct r0 as [|b r0'].
    + injection E as <- <- <-. exists o0. split; [reflexivity|]. split; [exact A|]. split; [exact B|].
      intros _. unfold WS. rewrite WK_nil. reflexivity.
    + destruct (IH s0 (b :: r0') (out ++ o0) r s' o (proj1 P1) (suffix_ok _ _ P3 Hok)
                  ltac:(pose proof (suffix_len _ _ P3); lia) E Hnf) as (o1 & E1 & W1 & L1 & S1).
      exists (o0 ++ o1). split; [rewrite E1, app_assoc; reflexivity|]. split; [apply whole_app; assumption|].
      split; [|exact S1]. intros u. rewrite B, L1, padd_padd, (counts_app_w o0 o1 (whole_F _ A) (whole_F _ W1)). reflexivity.
  - contradiction.
Qed.

(* Parser::parse: the output consists of complete records, which are exactly what the walk loses; and a call that
   is not done leaves nothing owed for the bytes it holds *)
Theorem parse_law p new p' dn out : parser_ok p -> bytes_ok new -> len new <= input_space p ->
  parse norm maxc p new = POk p' dn out -> is_fatal (st p') = false ->
  whole out /\ (forall u, WS (st p) (held p ++ new ++ u) = padd (snd (counts out)) (WS (st p') (held p' ++ u))) /\
  (dn = false -> fst (WS (st p') (held p')) = 0).
Proof.
  intros Hp Hn Hsp E Hnf.
  destruct (parse_spec norm maxc (F_S1 norm) p new Hp Hn Hsp) as (rest & s' & o' & Ed & G1 & G2 & G3 & G4 & G5 & _ & Hparse).
  rewrite E in Hparse. destruct Hp as (Hs & _ & Hh & Hl & Hc). unfold input_space in Hsp.
  destruct (negb (is_final s') && (len rest =? cap p)); injection Hparse as -> -> ->; [discriminate Hnf|].
  cbn [st held] in *. unfold drive_all in Ed.
  apply drive_law in Ed; [|exact Hs|apply bytes_ok_app; split; assumption|rewrite len_app; lia|exact Hnf].
  destruct Ed as (o1 & E1 & W1 & L1 & S1). cbn [app] in E1. subst o1.
  split; [exact W1|]. split; [intros u; rewrite app_assoc; apply L1|]. intros Hd. apply S1. exact Hd.
Qed.
End WalkRequest.

(* ------------------------------------------------------------------------------------------ *)
(* Part E: the invariant of the connection                                                      *)
(* ------------------------------------------------------------------------------------------ *)

(* [k, p, q]: framing position of the parser; [raw]: bytes it holds unparsed; [out]: replies it has produced but not
   yet written; [new]: bytes read but not yet fed to it.  Every gate of a segment still to come asks for nothing but
   management replies, and either is met by the log already, or the bytes before the segment end at a record
   boundary and the gate is met by the log completed by the pending output and by the replies owed for the
   records still to be completed by those bytes. *)
Definition Q (k : bool) (p q : N) (raw out log new : bytes) (sg : list (N * N * bytes)) : Prop :=
  wholeF (log ++ out) /\
  forall pre ge gm b post, sg = pre ++ (ge, gm, b) :: post -> b <> [] ->
    ge = 0 /\ (gm <= snd (counts log) \/
               (snd (WK k p q (raw ++ new ++ flat pre)) = true /\
                gm <= snd (counts (log ++ out)) + fst (WK k p q (raw ++ new ++ flat pre)))).

Lemma Q_parse k p q raw out log new sg k' p' q' raw' o : whole o ->
  (forall u, WK k p q (raw ++ new ++ u) = padd (snd (counts o)) (WK k' p' q' (raw' ++ u))) ->
  Q k p q raw out log new sg -> Q k' p' q' raw' (out ++ o) log [] sg.
Proof.
  intros Ho L [HW HG]. apply whole_F in Ho. split; [rewrite app_assoc; apply wholeF_app; assumption|].
  intros pre ge gm b post E Hb. destruct (HG pre ge gm b post E Hb) as [G0 [G|[G1 G2]]].
  - split; [exact G0|left; exact G].
  - split; [exact G0|right]. rewrite L in G1, G2. cbn [app]. unfold padd in G1, G2. cbn [fst snd] in G1, G2.
    split; [exact G1|]. rewrite app_assoc, (counts_app_w _ o HW Ho). lia.
Qed.

Lemma Q_flush k p q raw out log new sg fl out' : out = fl ++ out' ->
  Q k p q raw out log new sg -> Q k p q raw out' (log ++ fl) new sg.
Proof.
  intros -> [HW HG]. split; [rewrite <- app_assoc; exact HW|].
  intros pre ge gm b post E Hb. destruct (HG pre ge gm b post E Hb) as [G0 [G|[G1 G2]]].
  - split; [exact G0|left]. pose proof (counts_mono_any log fl). lia.
  - split; [exact G0|right]. rewrite <- app_assoc. split; assumption.
Qed.

Lemma Q_skip k p q raw out log new E s : flat E = [] -> Q k p q raw out log new (E ++ s) -> Q k p q raw out log new s.
Proof.
  intros HF [HW HG]. split; [exact HW|]. intros pre ge gm b post Es Hb.
  specialize (HG (E ++ pre) ge gm b post). rewrite flat_map_app, HF in HG. cbn [app] in HG. apply HG; [|exact Hb].
  rewrite Es, app_assoc. reflexivity.
Qed.

(* a delivery: the gate of the segment read from was met when it was read *)
Lemma Q_read k p q raw out log E ge gm bb rest n : flat E = [] -> bb <> [] -> gm <= snd (counts log) ->
  Q k p q raw out log [] (E ++ (ge, gm, bb) :: rest) ->
  Q k p q raw out log (take n bb) ((ge, gm, drop n bb) :: rest).
Proof.
  intros HF Hbb Hm [HW HG]. split; [exact HW|]. intros pre ge' gm' b' post Es Hb'. destruct pre as [|s0 pre2].
  - cbn [app] in Es. injection Es as <- <- _ _. destruct (HG E ge gm bb rest eq_refl Hbb) as [G0 _].
    split; [exact G0|left; exact Hm].
  - cbn [app] in Es. injection Es as <- Erest.
    specialize (HG (E ++ (ge, gm, bb) :: pre2) ge' gm' b' post).
    rewrite flat_map_app, HF in HG. cbn [app flat_map snd] in HG.
    cbn [flat_map snd]. rewrite (app_assoc (take n bb)), take_drop. apply HG; [|exact Hb'].
    rewrite Erest, <- app_assoc. reflexivity.
Qed.

(* a block with nothing pending and nothing owed for the bytes held is impossible *)
Lemma Q_block k p q raw log E ge gm bb rest : flat E = [] -> bb <> [] -> fst (WK k p q raw) = 0 ->
  Q k p q raw [] log [] (E ++ (ge, gm, bb) :: rest) -> gate_met (counts log) ge gm.
Proof.
  intros HF Hbb H0 [_ HG]. destruct (HG E ge gm bb rest eq_refl Hbb) as [G0 G]. rewrite HF, !app_nil_r in G.
  unfold gate_met. split; [lia|]. destruct G as [G|[_ G]]; lia.
Qed.

(* a block strictly inside a record (the bytes held do not complete it) is impossible: the segment was opened *)
Lemma Q_block_mid k p q raw out log E ge gm bb rest : flat E = [] -> bb <> [] -> snd (WK k p q raw) = false ->
  Q k p q raw out log [] (E ++ (ge, gm, bb) :: rest) -> gate_met (counts log) ge gm.
Proof.
  intros HF Hbb H0 [_ HG]. destruct (HG E ge gm bb rest eq_refl Hbb) as [G0 G]. rewrite HF, !app_nil_r in G.
  unfold gate_met. split; [lia|]. destruct G as [G|[G _]]; [lia|]. rewrite H0 in G. discriminate G.
Qed.

(* complete records written to the log by someone else (the handler's output, the epilogue) *)
Lemma Q_log k p q raw out log new sg x : wholeF log -> wholeF out -> wholeF x ->
  Q k p q raw out log new sg -> Q k p q raw out (log ++ x) new sg.
Proof.
  intros Hl Ho Hx [HW HG]. split; [apply wholeF_app; [apply wholeF_app; assumption|exact Ho]|].
  intros pre ge gm b post E Hb. destruct (HG pre ge gm b post E Hb) as [G0 [G|[G1 G2]]].
  - split; [exact G0|left]. pose proof (counts_mono_any log x). lia.
  - split; [exact G0|right]. split; [exact G1|].
    rewrite (counts_app_w _ out (wholeF_app _ _ Hl Hx) Ho), (counts_app_w log x Hl Hx).
    rewrite (counts_app_w log out Hl Ho) in G2. lia.
Qed.

Lemma Q_pos k p q k' p' q' raw out log new sg : (forall w, WK k p q w = WK k' p' q' w) ->
  Q k p q raw out log new sg -> Q k' p' q' raw out log new sg.
Proof.
  intros H [HW HG]. split; [exact HW|]. intros pre ge gm b post E Hb. rewrite <- H. apply (HG pre ge gm b post E Hb).
Qed.

Lemma Q_world k p q raw out log new sg : Q k p q raw out log new sg -> wholeF (log ++ out).
Proof. intros [H _]. exact H. Qed.

(* the peer of the theorem, at the start *)
Lemma peer_segs_Q : forall sg done, peer_segs (owed_count done) sg -> Forall rcd_ok done ->
  forall pre ge gm b post, enc_segs sg = pre ++ (ge, gm, b) :: post ->
    ge = 0 /\ snd (WK false 0 0 (enc_rcds done ++ flat pre)) = true /\ gm <= fst (WK false 0 0 (enc_rcds done ++ flat pre)).
Proof.
  induction sg as [|[[ge0 gm0] rs] t IH]; intros done HP Hd pre ge gm b post E.
  - destruct pre; discriminate E.
  - cbn [peer_segs] in HP. destruct HP as (-> & Hgm & Hrs & HP). cbn [enc_segs map fst snd] in E.
    destruct pre as [|s0 pre2].
    + cbn [app] in E. injection E as <- <- _ _. cbn [flat_map]. rewrite app_nil_r.
      pose proof (WK_rcds done [] Hd) as H. rewrite app_nil_r, WK_nil0 in H. rewrite H. cbn [padd fst snd].
      split; [reflexivity|]. split; [reflexivity|lia].
    + cbn [app] in E. injection E as <- E. cbn [flat_map snd].
      assert (HP' : peer_segs (owed_count (done ++ rs)) t).
      { replace (owed_count (done ++ rs)) with (owed_count done + owed_count rs); [exact HP|].
        unfold owed_count. rewrite filter_app, len_app. reflexivity. }
      specialize (IH (done ++ rs) HP' ltac:(apply Forall_app; split; assumption) pre2 ge gm b post E).
      rewrite enc_rcds_app, <- app_assoc in IH. exact IH.
Qed.

Lemma Q_init sg : peer_segs 0 sg -> Q false 0 0 [] [] [] [] (enc_segs sg).
Proof.
  intros HP. split; [apply wholeF_nil|]. intros pre ge gm b post E Hb.
  destruct (peer_segs_Q sg [] HP ltac:(constructor) pre ge gm b post E) as (G0 & G1 & G2).
  cbn [enc_rcds flat_map app] in G1, G2. split; [exact G0|right]. cbn [app]. split; [exact G1|]. rewrite counts_nil. cbn [snd]. lia.
Qed.

(* ------------------------------------------------------------------------------------------ *)
(* Part F: the layers of the connection task                                                    *)
(* ------------------------------------------------------------------------------------------ *)
Section Layers.
Variable maxc : N.

Definition SQ (a : ast) (log new : bytes) (sg : list (N * N * bytes)) : Prop :=
  Q (kst (a_st a)) (a_prem a) (a_pad a) (a_raw a) (a_out a) log new sg.
Definition inv2 (r : rstate) (w : world) (new : bytes) : Prop := SQ (abs (rsp r)) (wlog w) new (segs w).
(* between the operations of a handler the log and the pending output are sequences of complete records *)
Definition wl (r : rstate) (w : world) : Prop := wholeF (wlog w) /\ wholeF (output_buffer (rsp r)).
Definition ready {A} (p : Conn.pres A) : Prop := match p with PReady _ => True | _ => False end.

Lemma sparse_walk p new dest : pinv p -> bytes_ok new ->
  match sparse maxc p new dest with
  | StOk p' _ | StErr p' _ _ =>
      exists o, output_buffer p' = output_buffer p ++ o /\ whole o /\
                forall u, W (abs p) (new ++ u) = padd (snd (counts o)) (W (abs p') u)
  | StPanic _ => True
  end.
Proof.
  intros [HRI Hinv] Hn. destruct (sparse_refines maxc p new dest HRI) as [Ga _].
  assert (Hb : bytes_ok (a_raw (abs p))) by (destruct Hinv as (_ & _ & _ & Hb & _); exact Hb).
  destruct (sparse maxc p new dest) as [p' s|p' e s|n]; cbn [absres] in Ga; [| |exact I].
  - destruct (walk_law maxc (abs p) new dest (abs p') s Hb Hn (or_introl Ga)) as (_ & H). exact H.
  - destruct (walk_law maxc (abs p) new dest (abs p') s Hb Hn (or_intror (ex_intro _ e Ga))) as (_ & H). exact H.
Qed.

Lemma SQ_sparse p new p' o log sg : output_buffer p' = output_buffer p ++ o -> whole o ->
  (forall u, W (abs p) (new ++ u) = padd (snd (counts o)) (W (abs p') u)) ->
  SQ (abs p) log new sg -> SQ (abs p') log [] sg.
Proof.
  intros Eo Ho L H. unfold SQ in *. change (a_out (abs p')) with (output_buffer p'). rewrite Eo.
  apply (Q_parse (kst (a_st (abs p))) (a_prem (abs p)) (a_pad (abs p)) (a_raw (abs p)) (output_buffer p) log new sg
           (kst (a_st (abs p'))) (a_prem (abs p')) (a_pad (abs p')) (a_raw (abs p')) o Ho); [|exact H]. intros u. apply (L u).
Qed.

Lemma sparse_stuck p new dest p' s : pinv p -> bytes_ok new -> len new <= sinput_space p ->
  (dest <> None -> stream_buffer p = []) -> dest <> Some 0 ->
  sparse maxc p new dest = StOk p' s -> s_end s = false -> s_stream s = 0 -> stuck (abs p').
Proof.
  intros [HRI Hinv] Hb Hl Hd Hd0 E Hend Hstr.
  assert (Hleg : legal (abs p) new dest) by (split; [exact Hb|split; [exact Hl|exact Hd]]).
  destruct (sparse_refines maxc p new dest HRI) as [Ga _]. rewrite E in Ga. cbn [absres] in Ga.
  apply (aparse_stuck maxc (abs p) new dest (abs p') s Hinv Hleg Hd0 Ga Hend Hstr).
Qed.

(* what one poll_read does to the invariant *)
Lemma read_inv a log w0 L pr w1 : t_poll_read L w0 = (pr, w1) -> wlog w0 = log ->
  SQ a log [] (segs w0) ->
  match pr with
  | PReady (inl b) => SQ a log b (segs w1)
  | PBlock => a_out a = [] -> fst (W a []) = 0 -> False
  | _ => SQ a log [] (segs w1)
  end.
Proof.
  intros ER El HI. pose proof (t_poll_read_segs _ _ _ _ ER) as S2. rewrite El in S2.
  destruct pr as [[b|k]| |]; cbv beta iota in S2.
  - destruct S2 as [(-> & E0 & HF & HS)|(E0 & ge & gm & bb & rest & n & HF & HS & Hbb & Hb & HS' & Hm)].
    + rewrite HS in HI. apply (Q_skip _ _ _ _ _ _ _ E0 _ HF HI).
    + rewrite HS in HI. rewrite HS', Hb. apply (Q_read _ _ _ _ _ _ E0); [exact HF|exact Hbb|apply Hm|exact HI].
  - destruct S2 as (E0 & HF & HS). rewrite HS in HI. apply (Q_skip _ _ _ _ _ _ _ E0 _ HF HI).
  - destruct S2 as (E0 & HF & HS). rewrite HS in HI. apply (Q_skip _ _ _ _ _ _ _ E0 _ HF HI).
  - intros Ho H0. destruct S2 as (E0 & ge & gm & bb & rest & HF & HS & Hbb & Hn). apply Hn.
    rewrite HS in HI. unfold SQ in HI. rewrite Ho in HI. unfold W in H0. rewrite app_nil_r in H0.
    apply (Q_block _ _ _ _ _ E0 ge gm bb rest HF Hbb H0 HI).
Qed.

Lemma input_loop_nd : forall fuel dest new r w p r' w',
  pinv (rsp r) -> bytes_ok (remaining w) -> bytes_ok new -> len new <= sinput_space (rsp r) ->
  stream_buffer (rsp r) = [] -> dest <> Some 0 -> no_fault (wscript w) ->
  (length (wscript w) + length (remaining w) + 2 <= fuel)%nat ->
  input_loop maxc fuel dest new r w = (p, r', w') ->
  inv2 r w new -> wl r w ->
  p <> PBlock /\ inv2 r' w' [] /\ (ready p -> wl r' w').
Proof.
  induction fuel as [|f IH]; intros dest new r w p r' w' Hinv Hrem Hnew Hfit Hsb Hd0 Hnf Hf E HI HWL; [lia|].
  cbn [input_loop] in E.
  pose proof (sparse_step maxc (rsp r) new dest Hinv Hnew Hfit ltac:(intros _; exact Hsb)) as SS.
  pose proof (sparse_walk (rsp r) new dest Hinv Hnew) as SW.
  destruct (sparse maxc (rsp r) new dest) as [p1 s|p1 e s|n] eqn:ESP; [| |contradiction].
  2:{ injection E as <- <- <-. destruct SW as (o & Eo & Ho & L). split; [discriminate|]. split.
      - unfold inv2. cbn [rsp]. apply (SQ_sparse (rsp r) new p1 o _ _ Eo Ho L HI).
      - intros _. destruct HWL as [H1 H2]. split; [exact H1|]. cbn [rsp]. rewrite Eo.
        apply wholeF_app; [exact H2|apply whole_F, Ho]. }
  destruct SS as (SO & Hend). destruct SW as (o & Eo & Ho & L).
  assert (I1 : SQ (abs p1) (wlog w) [] (segs w)) by (apply (SQ_sparse (rsp r) new p1 o _ _ Eo Ho L HI)).
  assert (WL1 : wholeF (output_buffer p1)).
  { rewrite Eo. apply wholeF_app; [apply HWL|apply whole_F, Ho]. }
  destruct (s_end s || (0 <? s_stream s)) eqn:Edone.
  { match type of E with (_, (if ?c then _ else _), _) = _ => destruct c end; injection E as <- <- <-;
      (split; [discriminate|]; split; [exact I1|]; intros _; split; [apply HWL|exact WL1]). }
  apply orb_false_iff in Edone. destruct Edone as [Eend Estr].
  assert (Hz : s_stream s = 0) by (destruct (N.ltb_spec 0 (s_stream s)); [discriminate|lia]).
  assert (Hsb1 : stream_buffer p1 = []).
  { destruct dest as [c|].
    - destruct (so_some _ _ _ _ _ _ SO c eq_refl) as (A & _). exact A.
    - destruct (so_none _ _ _ _ _ _ SO eq_refl) as (_ & d & B & C). rewrite B, Hsb.
      assert (d = []) by (apply len_zero_nil; lia). subst d. reflexivity. }
  pose proof (so_inv _ _ _ _ _ _ SO) as [RI1 A1].
  destruct (compress_views p1 RI1) as (V1 & V2 & V3 & V4 & V5 & V6).
  pose proof (compress_abs p1 RI1) as CA.
  pose proof (sparse_stuck (rsp r) new dest p1 s Hinv Hnew Hfit ltac:(intros _; exact Hsb) Hd0 ESP Eend Hz) as ST.
  set (r2 := mkR (compress p1) (rwriteable r) (rlock r) (raborted r)) in E.
  assert (Hinv2 : pinv (rsp r2)).
  { split; [exact V1|]. cbn [r2 rsp]. rewrite CA. apply compress_inv. exact A1. }
  destruct (poll_output (S f) r2 w) as [[po r3] w0] eqn:EPO.
  destruct (poll_output_abs _ _ _ _ _ _ EPO Hinv2 ltac:(lia))
    as (fl & P1 & P2 & P3 & P4 & P5 & P6 & P7 & P8 & P9 & P10 & P11 & P12).
  cbn [r2 rsp rwriteable] in P4, P5, P6, P7, P8, P9, P11.
  pose proof (same_but_io_remaining _ _ P2) as Prem.
  assert (Psegs : segs w0 = segs w) by apply P2.
  assert (I3 : SQ (abs (rsp r3)) (wlog w0) [] (segs w0)).
  { rewrite P5, P1, Psegs, CA. unfold SQ in *. cbn [set_out acompress a_st a_prem a_pad a_raw a_out].
    apply (Q_flush _ _ _ _ (a_out (abs p1)) _ _ _ fl); [|exact I1].
    change (a_out (abs p1)) with (output_buffer p1). rewrite <- V4. exact P4. }
  assert (ST3 : stuck (abs (rsp r3))).
  { rewrite P5, CA. exact ST. }
  assert (Hnf0 : no_fault (wscript w0)) by (apply (no_fault_suffix _ _ P3 Hnf)).
  destruct po as [[u|k]| |].
  - assert (Hlog0 : wholeF (wlog w0)).
    { pose proof (Q_world _ _ _ _ _ _ _ _ I3) as H. change (a_out (abs (rsp r3))) with (output_buffer (rsp r3)) in H.
      rewrite P12, app_nil_r in H. exact H. }
    assert (WL3 : forall w1, wlog w1 = wlog w0 -> wl r3 w1).
    { intros w1 Q1. split; [rewrite Q1; exact Hlog0|rewrite P12; apply wholeF_nil]. }
    destruct (t_poll_read (sinput_space (rsp r3)) w0) as [pr w1] eqn:ER.
    destruct (t_poll_read_rem _ _ _ _ ER) as (T1 & T2 & T3 & T4).
    pose proof (read_inv (abs (rsp r3)) (wlog w0) w0 _ pr w1 ER eq_refl I3) as RI3.
    destruct pr as [[b|k]| |].
    + destruct T4 as (Tr & Tl & Tnil). destruct b as [|x b'].
      * injection E as <- <- <-. split; [discriminate|]. split; [unfold inv2; rewrite T1; exact RI3|].
        intros _. apply WL3, T1.
      * assert (Hb : bytes_ok (x :: b' ++ remaining w1)) by (rewrite <- Prem, Tr in Hrem; exact Hrem).
        change (x :: b' ++ remaining w1) with ((x :: b') ++ remaining w1) in Hb. apply bytes_ok_app in Hb.
        assert (Hf' : (length (wscript w1) + length (remaining w1) + 2 <= f)%nat).
        { rewrite T2. pose proof (suffix_length _ _ P3). rewrite <- Prem, Tr in Hf.
          cbn [app length] in Hf. rewrite app_length in Hf. lia. }
        apply (IH dest (x :: b') r3 w1 p r' w' P10 (proj2 Hb) (proj1 Hb) Tl ltac:(rewrite P6, V2; exact Hsb1) Hd0
                  ltac:(rewrite T2; exact Hnf0) Hf' E); [unfold inv2; rewrite T1; exact RI3|apply WL3, T1].
    + injection E as <- <- <-. split; [discriminate|]. split; [unfold inv2; rewrite T1; exact RI3|]. intros _. apply WL3, T1.
    + injection E as <- <- <-. split; [discriminate|]. split; [unfold inv2; rewrite T1; exact RI3|]. intros H; destruct H.
    + exfalso. apply RI3; [exact P12|apply (stuck_W _ ST3)].
  - exfalso. apply (no_fault_not_fault _ _ Hnf P12).
  - injection E as <- <- <-. split; [discriminate|]. split; [exact I3|]. intros H; destruct H.
  - contradiction.
Qed.

Lemma flush_inv r w fl r1 w1 : wlog w1 = wlog w ++ fl -> segs w1 = segs w ->
  output_buffer (rsp r) = fl ++ output_buffer (rsp r1) ->
  abs (rsp r1) = set_out (abs (rsp r)) (output_buffer (rsp r1)) ->
  forall new, inv2 r w new -> inv2 r1 w1 new.
Proof.
  intros P1 Psegs P4 P5 new HI. unfold inv2, SQ in *. rewrite P5, P1, Psegs.
  cbn [set_out a_st a_prem a_pad a_raw a_out].
  apply (Q_flush _ _ _ _ (a_out (abs (rsp r))) _ _ _ fl); [exact P4|exact HI].
Qed.

Lemma poll_input_nd fuel dest r w p r' w' :
  pinv (rsp r) -> bytes_ok (remaining w) -> no_fault (wscript w) ->
  (length (wscript w) + length (remaining w) + 2 <= fuel)%nat ->
  poll_input maxc fuel dest r w = (p, r', w') ->
  inv2 r w [] -> (wl r w \/ poll_parses dest r = true) ->
  p <> PBlock /\ inv2 r' w' [] /\ (ready p -> wl r' w').
Proof.
  intros Hinv Hrem Hnf Hf E HI HD.
  assert (EMPTY : stream_buffer (rsp r) = [] -> dest <> Some 0 ->
    (match poll_output fuel r w with
     | (PReady (inl _), r1, w1) => input_loop maxc fuel dest [] r1 w1
     | (PReady (inr k), r1, w1) => (PReady (inr k), r1, w1)
     | (PWake, r1, w1) => (PWake, r1, w1)
     | (PBlock, r1, w1) => (PBlock, r1, w1)
     end) = (p, r', w') ->
    p <> PBlock /\ inv2 r' w' [] /\ (ready p -> wl r' w')).
  { intros Esb Hd0 E1.
    destruct (poll_output fuel r w) as [[po r1] w1] eqn:EPO.
    destruct (poll_output_abs _ _ _ _ _ _ EPO Hinv ltac:(lia))
      as (fl & P1 & P2 & P3 & P4 & P5 & P6 & P7 & P8 & P9 & P10 & P11 & P12).
    pose proof (same_but_io_remaining _ _ P2) as Prem.
    assert (Psegs : segs w1 = segs w) by apply P2.
    pose proof (flush_inv r w fl r1 w1 P1 Psegs P4 P5 [] HI) as I1.
    destruct po as [[u|k]| |].
    - pose proof (suffix_length _ _ P3) as Hsl.
      assert (WL1 : wl r1 w1).
      { pose proof (Q_world _ _ _ _ _ _ _ _ I1) as H. change (a_out (abs (rsp r1))) with (output_buffer (rsp r1)) in H.
        rewrite P12, app_nil_r in H. split; [exact H|rewrite P12; apply wholeF_nil]. }
      apply (input_loop_nd fuel dest [] r1 w1 p r' w' P10 ltac:(rewrite Prem; exact Hrem) ltac:(constructor)
               ltac:(rewrite len_nil; lia) ltac:(rewrite P6; exact Esb) Hd0 (no_fault_suffix _ _ P3 Hnf)
               ltac:(rewrite Prem; lia) E1 I1 WL1).
    - exfalso. apply (no_fault_not_fault _ _ Hnf P12).
    - injection E1 as <- <- <-. split; [discriminate|]. split; [exact I1|]. intros H; destruct H.
    - contradiction. }
  assert (SAME : poll_parses dest r = false -> PReady (inl (0, @nil N)) <> @PBlock (N * bytes + N) /\ inv2 r w [] /\
                 (ready (PReady (@inl (N * bytes) N (0, @nil N))) -> wl r w)).
  { intros Hpp. split; [discriminate|]. split; [exact HI|]. intros _. destruct HD as [H|H]; [exact H|]. rewrite Hpp in H. discriminate H. }
  destruct dest as [[|pc]|].
  - rewrite poll_input_zero in E. injection E as <- <- <-. apply SAME. reflexivity.
  - unfold poll_input in E. cbv zeta in E. destruct (stream_buffer (rsp r)) as [|x sb] eqn:Esb.
    + apply EMPTY; [reflexivity|discriminate|exact E].
    + cbv beta iota in E. injection E as <- <- <-.
      set (n := N.min (N.pos pc) (len (x :: sb))).
      destruct Hinv as [HRI HI0].
      pose proof (consume_stream_abs (rsp r) n HRI) as CA.
      assert (Hpp : poll_parses (Some (N.pos pc)) r = false) by (unfold poll_parses; rewrite Esb; reflexivity).
      split; [discriminate|]. split.
      * unfold inv2, SQ in *. cbn [rsp]. rewrite CA. cbn [aconsume_stream a_st a_prem a_pad a_raw a_out]. exact HI.
      * intros _. destruct HD as [[H1 H2]|H]; [|rewrite Hpp in H; discriminate H]. split; [exact H1|]. cbn [rsp].
        pose proof (f_equal a_out CA) as Eo. cbn [abs aconsume_stream a_out] in Eo. rewrite Eo. exact H2.
  - unfold poll_input in E. cbv zeta in E. destruct (stream_buffer (rsp r)) as [|x sb] eqn:Esb.
    + apply EMPTY; [reflexivity|discriminate|exact E].
    + cbv beta iota in E. injection E as <- <- <-. apply SAME. unfold poll_parses. rewrite Esb. reflexivity.
Qed.

(* poll_fn(|cx| poll_input(cx, dest)).await never ends in the wait-for cycle *)
Theorem await_input_nd : forall fuel dest r w, pinv (rsp r) -> bytes_ok (remaining w) -> no_fault (wscript w) ->
  inv2 r w [] -> (wl r w \/ poll_parses dest r = true) ->
  match await_input maxc fuel dest r w with
  | Ok (_, r') w' => inv2 r' w' [] /\ wl r' w'
  | Halt o w' => o <> ODeadlock
  end.
Proof.
  induction fuel as [|f IH]; intros dest r w Hinv Hrem Hnf HI HD; [cbn [await_input]; discriminate|].
  cbn [await_input].
  destruct (poll_input maxc (io_fuel w (len (buffer (rsp r)))) dest r w) as [[p r1] w1] eqn:EP.
  assert (Hfu : (length (wscript w) + length (remaining w) + 2 <= io_fuel w (len (buffer (rsp r))))%nat)
    by (rewrite io_fuel_remaining; lia).
  destruct (poll_input_reads maxc _ dest r w p r1 w1 Hinv Hrem Hfu EP) as (dl & A & C & _).
  destruct (poll_input_nd _ dest r w p r1 w1 Hinv Hrem Hnf Hfu EP HI HD) as (NB & I1 & WL1).
  assert (RETRY : forall w1', remaining w1' = remaining w1 -> wlog w1' = wlog w1 -> segs w1' = segs w1 ->
            wscript w1' = wscript w1 -> poll_parses dest r1 = true ->
            match await_input maxc f dest r1 w1' with
            | Ok (_, r') w' => inv2 r' w' [] /\ wl r' w'
            | Halt o w' => o <> ODeadlock
            end).
  { intros w1' Q1 Q2 Q3 Q4 Hpp. apply IH.
    - apply (ac_inv _ _ _ _ _ _ _ A).
    - rewrite Q1. apply (acct_bytes_ok _ _ _ _ _ _ _ A Hrem).
    - rewrite Q4. apply (no_fault_suffix _ _ (ac_ws _ _ _ _ _ _ _ A) Hnf).
    - unfold inv2 in *. rewrite Q2, Q3. exact I1.
    - right. exact Hpp. }
  destruct p as [x| |].
  - split; [exact I1|apply WL1; exact I].
  - unfold on_wake. cbn [andb]. apply RETRY; try reflexivity.
    destruct C as (C1 & C2 & C3). destruct dest as [[|pc]|].
    + rewrite poll_input_zero in EP. discriminate EP.
    + unfold poll_parses. rewrite C3. reflexivity.
    + unfold poll_parses. rewrite C3. reflexivity.
  - exfalso. apply NB. reflexivity.
Qed.

(* what an await keeps, for the next operation *)
Lemma await_input_keeps fuel dest r w x r' w' : pinv (rsp r) -> bytes_ok (remaining w) -> no_fault (wscript w) ->
  await_input maxc fuel dest r w = Ok (x, r') w' ->
  pinv (rsp r') /\ bytes_ok (remaining w') /\ no_fault (wscript w').
Proof.
  intros Hinv Hrem Hnf E. pose proof (await_input_reads maxc fuel dest r w Hinv Hrem) as H. rewrite E in H.
  cbn [ai_post] in H. destruct H as (dl & A & _).
  split; [apply (ac_inv _ _ _ _ _ _ _ A)|]. split; [apply (acct_bytes_ok _ _ _ _ _ _ _ A Hrem)|].
  apply (no_fault_suffix _ _ (ac_ws _ _ _ _ _ _ _ A) Hnf).
Qed.

(* ---- the handler's view: what holds between its operations ---- *)
Definition HS (r : rstate) (w : world) : Prop :=
  pinv (rsp r) /\ bytes_ok (remaining w) /\ no_fault (wscript w) /\ inv2 r w [] /\ wl r w.

Lemma HS_world r w w' : remaining w' = remaining w -> wscript w' = wscript w -> wlog w' = wlog w -> segs w' = segs w ->
  HS r w -> HS r w'.
Proof.
  intros Q1 Q2 Q3 Q4 (H1 & H2 & H3 & H4 & H5). unfold HS, inv2, wl in *. rewrite Q1, Q2, Q3, Q4. tauto.
Qed.

Lemma HS_ev r w e : HS r w -> HS r (w_ev w e).
Proof. apply HS_world; reflexivity. Qed.

Lemma await_input_hs fuel dest r w : HS r w ->
  match await_input maxc fuel dest r w with
  | Ok (_, r') w' => HS r' w'
  | Halt o _ => o <> ODeadlock
  end.
Proof.
  intros (H1 & H2 & H3 & H4 & H5).
  pose proof (await_input_nd fuel dest r w H1 H2 H3 H4 (or_introl H5)) as ND.
  pose proof (await_input_keeps fuel dest r w) as KP.
  destruct (await_input maxc fuel dest r w) as [[x r'] w'|o w']; [|exact ND].
  destruct (KP x r' w' H1 H2 H3 eq_refl) as (K1 & K2 & K3). destruct ND as [N1 N2].
  split; [exact K1|]. split; [exact K2|]. split; [exact K3|]. split; assumption.
Qed.

(* ... and Request.lock is free (what a StreamWriter op needs): on a fault-free transport every AWAITED read ends with
   the reply flush completed (ConnTotal.await_input_unlocked) *)
Definition HSL (r : rstate) (w : world) : Prop := HS r w /\ rlock r = false.

Lemma HSL_ev r w e : HSL r w -> HSL r (w_ev w e).
Proof. intros [H L]. split; [apply HS_ev; exact H|exact L]. Qed.

Lemma await_input_hsl fuel dest r w : HSL r w ->
  match await_input maxc fuel dest r w with
  | Ok (_, r') w' => HSL r' w'
  | Halt o _ => o <> ODeadlock
  end.
Proof.
  intros [H L]. pose proof (await_input_hs fuel dest r w H) as A.
  pose proof (await_input_unlocked (fun b => b) maxc fuel dest r w) as U.
  destruct (await_input maxc fuel dest r w) as [[x r'] w'|o w']; [|exact A]. split; [exact A|].
  destruct H as (H1 & H2 & H3 & _).
  apply (U x r' w' (pinv_lgood _ H1) (remaining_world_ok _ H2) L H3 eq_refl).
Qed.

Lemma consume_hs r w c wr lk ab : HS r w -> HS (mkR (consume_stream (rsp r) c) wr lk ab) w.
Proof.
  intros ([HRI HI0] & H2 & H3 & H4 & [H5 H6]). pose proof (consume_stream_abs (rsp r) c HRI) as CA.
  split; [split; [apply consume_stream_RI; exact HRI|cbn [rsp]; rewrite CA; apply consume_stream_inv; exact HI0]|].
  split; [exact H2|]. split; [exact H3|]. split.
  - unfold inv2, SQ in *. cbn [rsp]. rewrite CA. cbn [aconsume_stream a_st a_prem a_pad a_raw a_out]. exact H4.
  - split; [exact H5|]. cbn [rsp]. pose proof (f_equal a_out CA) as Eo. cbn [abs aconsume_stream a_out] in Eo. rewrite Eo. exact H6.
Qed.

Lemma set_stream_hs r w s p' wr lk ab : HS r w -> set_stream (rsp r) s = SetOk p' -> HS (mkR p' wr lk ab) w.
Proof.
  intros (Hinv & Hrem & Hnf & HI & HWL) E.
  destruct (set_stream_step maxc (rsp r) s p' Hinv E) as (I1 & _ & _ & Eo & _).
  split; [exact I1|]. split; [exact Hrem|]. split; [exact Hnf|]. split.
  - destruct Hinv as [HRI _]. pose proof (set_stream_refines (rsp r) s HRI) as SR. rewrite E in SR.
    destruct (aset_stream (abs (rsp r)) s) as [a1| |] eqn:EA; try contradiction. destruct SR as [_ A1].
    unfold inv2, SQ in *. cbn [rsp]. rewrite A1. unfold aset_stream in EA.
    destruct (accepts (r_role (a_req (abs (rsp r)))) (a_stream (abs (rsp r))) s) as [[|]|]; try discriminate EA.
    destruct (optN_eqb s (a_stream (abs (rsp r)))); injection EA as <-; [exact HI|].
    cbn [abs a_st a_prem a_pad a_raw a_out] in HI |- *. destruct (sst (rsp r)); exact HI.
  - split; [apply HWL|]. cbn [rsp]. rewrite Eo. apply HWL.
Qed.

Lemma do_writeable_hs r w : HS r w ->
  match do_writeable maxc r w with
  | Ok (_, r') w' => HS r' w'
  | Halt o _ => o <> ODeadlock
  end.
Proof.
  intros H. unfold do_writeable. destruct (rwriteable r); [exact H|].
  destruct (set_stream (rsp r) _) as [p'| |] eqn:E; [|discriminate|discriminate].
  pose proof (await_input_hs (io_fuel w 0) None _ w (set_stream_hs r w _ p' false (rlock r) (raborted r) H E)) as A.
  destruct (await_input maxc (io_fuel w 0) None (mkR p' false (rlock r) (raborted r)) w) as [[[x|k] r'] w'|o w']; exact A.
Qed.

Lemma read_all_hs : forall fuel acc r w, HS r w ->
  match read_all maxc fuel acc r w with
  | Ok (_, r') w' => HS r' w'
  | Halt o _ => o <> ODeadlock
  end.
Proof.
  induction fuel as [|f IH]; intros acc r w H; [cbn [read_all]; discriminate|]. cbn [read_all].
  pose proof (await_input_hs (io_fuel w 0) (Some 64) r w H) as A.
  destruct (await_input maxc (io_fuel w 0) (Some 64) r w) as [[[[n b]|k] r'] w'|o w']; [|exact A|exact A].
  destruct (n =? 0); [exact A|]. apply IH. exact A.
Qed.

Lemma do_writeable_hsl r w : HSL r w ->
  match do_writeable maxc r w with
  | Ok (_, r') w' => HSL r' w'
  | Halt o _ => o <> ODeadlock
  end.
Proof.
  intros [H L]. unfold do_writeable. destruct (rwriteable r); [split; assumption|].
  destruct (set_stream (rsp r) _) as [p'| |] eqn:E; [|discriminate|discriminate].
  pose proof (await_input_hsl (io_fuel w 0) None _ w
                (conj (set_stream_hs r w _ p' false (rlock r) (raborted r) H E) L)) as A.
  destruct (await_input maxc (io_fuel w 0) None (mkR p' false (rlock r) (raborted r)) w) as [[[x|k] r'] w'|o w']; exact A.
Qed.

Lemma read_all_hsl : forall fuel acc r w, HSL r w ->
  match read_all maxc fuel acc r w with
  | Ok (_, r') w' => HSL r' w'
  | Halt o _ => o <> ODeadlock
  end.
Proof.
  induction fuel as [|f IH]; intros acc r w H; [cbn [read_all]; discriminate|]. cbn [read_all].
  pose proof (await_input_hsl (io_fuel w 0) (Some 64) r w H) as A.
  destruct (await_input maxc (io_fuel w 0) (Some 64) r w) as [[[[n b]|k] r'] w'|o w']; [|exact A|exact A].
  destruct (n =? 0); [exact A|]. apply IH. exact A.
Qed.

Lemma stream_records_F stype id data : wholeF (stream_records stype id data).
Proof.
  rewrite stream_records_enc. exists (map (chunk_rcd stype id) (chunks data)). split; [|reflexivity].
  pose proof (chunks_sizes data) as Hs. rewrite Forall_forall in *. intros r Hr. apply in_map_iff in Hr.
  destruct Hr as (c & <- & Hc). specialize (Hs c Hc). unfold rcd_fr, chunk_rcd. cbn [rbody rpad]. rewrite len_zeros.
  pose proof (auto_padding_lt (len c)). lia.
Qed.

(* the handler's own output: complete records appended to the log *)
Lemma log_hs r w w' x : io_rel w w' x -> wholeF x -> HS r w -> HS r w'.
Proof.
  intros (Hsame & Hlog & Hsuf & _) Hx (H1 & H2 & H3 & H4 & [H5 H6]). unfold wlog_ext in Hlog.
  split; [exact H1|]. split; [rewrite (same_but_io_remaining _ _ Hsame); exact H2|].
  split; [apply (no_fault_suffix _ _ Hsuf H3)|]. assert (Hsegs : segs w' = segs w) by apply Hsame. split.
  - unfold inv2, SQ in *. rewrite Hlog, Hsegs. apply Q_log; assumption.
  - split; [rewrite Hlog; apply wholeF_app; assumption|exact H6].
Qed.

Lemma writer_hs fuel stype id data r w : HS r w ->
  match writer_write_all fuel stype id data w with
  | Ok None w' => HS r w'
  | Ok (Some _) _ => False
  | Halt o _ => o <> ODeadlock
  end.
Proof.
  intros H. pose proof (writer_write_all_spec fuel stype id data w) as S.
  destruct (writer_write_all fuel stype id data w) as [[k|] w'|o w']; cbn [wspec] in S.
  - destruct S as (_ & Hn & _). apply Hn. apply H.
  - apply (log_hs r w w' _ S (stream_records_F stype id data) H).
  - destruct o; try contradiction; discriminate.
Qed.

Lemma run_handler_hsl strict role cur script : script_ok strict role cur script -> no_abandoned_read script ->
  forall f r w, HSL r w ->
  match run_handler maxc f script r w with
  | Ok (_, r') w' => HSL r' w'
  | Halt o _ => o <> ODeadlock
  end.
Proof.
  induction 1 as [cur|cur n rest H IH|cur rest H IH|cur k rest H IH|cur s rest Hacc H IH|cur rest H IH
                  |cur s n rest H IH|cur s rest H IH|cur d c rest Hd|cur k rest|cur n rest H IH|cur n rest H IH];
    intros NA; try (specialize (IH ltac:(inversion NA; assumption))); intros f r w HSr; (destruct f as [|f]; [cbn [run_handler]; discriminate|]); cbn [run_handler].
  - apply HSL_ev, HSr.
  - pose proof (await_input_hsl (io_fuel w 0) (Some n) r w HSr) as A.
    destruct (await_input maxc (io_fuel w 0) (Some n) r w) as [[[[c b]|k] r1] w1|o w1]; [| |exact A];
      apply IH; apply HSL_ev, HSL_ev, A.
  - match goal with |- context [read_all maxc ?fu [] r w] => pose proof (read_all_hsl fu [] r w HSr) as A;
      destruct (read_all maxc fu [] r w) as [[[k acc] r1] w1|o w1] end; [|exact A].
    apply IH. apply HSL_ev, HSL_ev, A.
  - pose proof (await_input_hsl (io_fuel w 0) None r w HSr) as A.
    destruct (await_input maxc (io_fuel w 0) None r w) as [[[[c b]|e] r1] w1|o w1]; [| |exact A].
    + apply IH. apply HSL_ev, HSL_ev. split; [apply consume_hs; apply A|apply A].
    + apply IH. apply HSL_ev, HSL_ev, A.
  - destruct (set_stream (rsp r) (Some s)) as [p'| |] eqn:E; [|discriminate|discriminate].
    apply IH. apply HSL_ev. split; [apply (set_stream_hs r w (Some s) p' _ _ _ (proj1 HSr) E)|apply HSr].
  - pose proof (do_writeable_hsl r w HSr) as A.
    destruct (do_writeable maxc r w) as [[e r1] w1|o w1]; [|exact A]. apply IH. apply HSL_ev, A.
  - destruct (negb (rwriteable r)); [apply IH; apply HSL_ev, HSr|].
    (* the lock is free: the writer does not wait *)
    rewrite (proj2 HSr). cbn [andb].
    pose proof (writer_hs (N.to_nat (n / 65535) + 2) s (r_id (sreq (rsp r))) (take n rest) r w (proj1 HSr)) as A.
    destruct (writer_write_all (N.to_nat (n / 65535) + 2) s (r_id (sreq (rsp r))) (take n rest) w) as [[k|] w1|o w1];
      [contradiction| |exact A].
    apply IH. apply HSL_ev. split; [exact A|apply HSr].
  - rewrite (proj2 HSr). destruct (rwriteable r); apply IH; apply HSL_ev, HSr.
  - apply HSL_ev, HSr.
  - apply HSL_ev, HSr.
  - pose proof (await_input_hsl (io_fuel w 0) (Some n) r w HSr) as A.
    destruct (await_input maxc (io_fuel w 0) (Some n) r w) as [[[[c b]|k] r1] w1|o w1]; [| |exact A].
    + apply IH. apply HSL_ev, HSL_ev, A.
    + apply HSL_ev, HSL_ev, A.
  - (* 11 n is not a script that awaits its reads *)
    inversion NA.
Qed.

Lemma run_handler_hs strict role cur script : script_ok strict role cur script -> no_abandoned_read script ->
  forall f r w, HS r w -> rlock r = false ->
  match run_handler maxc f script r w with
  | Ok (_, r') w' => HS r' w'
  | Halt o _ => o <> ODeadlock
  end.
Proof.
  intros Hs NA f r w H L. pose proof (run_handler_hsl strict role cur script Hs NA f r w (conj H L)) as A.
  destruct (run_handler maxc f script r w) as [[x r'] w'|o w']; [apply A|exact A].
Qed.

(* ---- input.read(buf).await outside poll_input: Request::record_boundary, Token::parse_request ---- *)
Lemma await_read_inv k p q raw out : forall fuel sel L w, Q k p q raw out (wlog w) [] (segs w) ->
  (forall E ge gm bb rest, flat E = [] -> segs w = E ++ (ge, gm, bb) :: rest -> bb <> [] -> gate_met (counts (wlog w)) ge gm) ->
  match await_read fuel sel L w with
  | Ok (inl b) w' => Q k p q raw out (wlog w') b (segs w')
  | Ok (inr _) w' => Q k p q raw out (wlog w') [] (segs w')
  | Halt o _ => o <> ODeadlock
  end.
Proof.
  induction fuel as [|f IH]; intros sel L w HI HG; [cbn [await_read]; discriminate|]. cbn [await_read].
  destruct (t_poll_read L w) as [pr w1] eqn:ET. pose proof (t_poll_read_segs _ _ _ _ ET) as S2.
  destruct (t_poll_read_rem _ _ _ _ ET) as (T1 & _). destruct pr as [[b|e]| |]; cbv beta iota in S2.
  - rewrite T1. destruct S2 as [(-> & E0 & HF & HS)|(E0 & ge & gm & bb & rest & n & HF & HS & Hbb & Hb & HS' & Hm)].
    + rewrite HS in HI. apply (Q_skip _ _ _ _ _ _ _ E0 _ HF HI).
    + rewrite HS in HI. rewrite HS', Hb. apply (Q_read _ _ _ _ _ _ E0); [exact HF|exact Hbb|apply Hm|exact HI].
  - rewrite T1. destruct S2 as (E0 & HF & HS). rewrite HS in HI. apply (Q_skip _ _ _ _ _ _ _ E0 _ HF HI).
  - unfold on_wake. destruct (sel && stopped (w_bump w1)); [discriminate|].
    destruct S2 as (E0 & HF & HS). apply IH.
    + change (wlog (w_bump w1)) with (wlog w1). change (segs (w_bump w1)) with (segs w1). rewrite T1.
      rewrite HS in HI. apply (Q_skip _ _ _ _ _ _ _ E0 _ HF HI).
    + intros E ge gm bb rest HF' HS' Hbb. change (wlog (w_bump w1)) with (wlog w1). change (segs (w_bump w1)) with (segs w1) in HS'.
      rewrite T1. apply (HG (E0 ++ E) ge gm bb rest); [rewrite flat_map_app, HF, HF'; reflexivity| |exact Hbb].
      rewrite HS, HS', app_assoc. reflexivity.
  - exfalso. destruct S2 as (E0 & ge & gm & bb & rest & HF & HS & Hbb & Hn). apply Hn. apply (HG E0 ge gm bb rest HF HS Hbb).
Qed.

Lemma HS_mk p1 wr lk ab w : pinv p1 -> bytes_ok (remaining w) -> no_fault (wscript w) ->
  SQ (abs p1) (wlog w) [] (segs w) -> wholeF (wlog w) -> wholeF (output_buffer p1) -> HS (mkR p1 wr lk ab) w.
Proof.
  intros H1 H2 H3 H4 H5 H6. split; [exact H1|]. split; [exact H2|]. split; [exact H3|]. split; [exact H4|]. split; [exact H5|exact H6].
Qed.

Lemma sparse_none_stop p new p' s : pinv p -> sparse maxc p new None = StOk p' s ->
  stuck (abs p') \/ is_record_boundary p' = true.
Proof.
  intros [HRI _] E. destruct (sparse_refines maxc p new None HRI) as [Ga _]. rewrite E in Ga. cbn [absres] in Ga.
  apply (aparse_none_stop maxc (abs p) new (abs p') s Ga).
Qed.

(* Request::record_boundary: a read inside the skip loop happens strictly inside a record, hence inside a segment
   the client has already opened *)
Lemma boundary_loop_hs : forall fuel new r w,
  pinv (rsp r) -> bytes_ok new -> len new <= sinput_space (rsp r) -> bytes_ok (remaining w) -> no_fault (wscript w) ->
  inv2 r w new -> wl r w ->
  match boundary_loop maxc fuel new r w with
  | Ok (_, r') w' => HS r' w'
  | Halt o _ => o <> ODeadlock
  end.
Proof.
  induction fuel as [|f IH]; intros new r w Hinv Hnew Hfit Hrem Hnf HI HWL; [cbn [boundary_loop]; discriminate|].
  rewrite ConnWrites.boundary_loop_S.
  pose proof (sparse_step maxc (rsp r) new None Hinv Hnew Hfit ltac:(intros H; contradiction)) as SS.
  pose proof (sparse_walk (rsp r) new None Hinv Hnew) as SW.
  assert (PARSED : forall p1 s, sparse_ok maxc (rsp r) new None p1 s ->
            (exists o, output_buffer p1 = output_buffer (rsp r) ++ o /\ whole o /\
                       forall u, W (abs (rsp r)) (new ++ u) = padd (snd (counts o)) (W (abs p1) u)) ->
            pinv p1 /\ SQ (abs p1) (wlog w) [] (segs w) /\ wholeF (output_buffer p1)).
  { intros p1 s SO (o & Eo & Ho & L). split; [apply (so_inv _ _ _ _ _ _ SO)|].
    split; [apply (SQ_sparse (rsp r) new p1 o _ _ Eo Ho L HI)|]. rewrite Eo. apply wholeF_app; [apply HWL|apply whole_F, Ho]. }
  assert (AFTER : forall p1 s, sparse_ok maxc (rsp r) new None p1 s ->
            (exists o, output_buffer p1 = output_buffer (rsp r) ++ o /\ whole o /\
                       forall u, W (abs (rsp r)) (new ++ u) = padd (snd (counts o)) (W (abs p1) u)) ->
            (stuck (abs p1) \/ is_record_boundary p1 = true) ->
            match ConnWrites.bl_after maxc f r w p1 with
            | Ok (_, r') w' => HS r' w'
            | Halt o _ => o <> ODeadlock
            end).
  { intros p1 s SO SW1 Hstop. destruct (PARSED p1 s SO SW1) as ([RI1 A1] & I1 & WL1).
    unfold ConnWrites.bl_after. cbv zeta. destruct (is_record_boundary p1) eqn:Eb.
    { apply HS_mk; try assumption; [split; assumption|apply HWL]. }
    destruct Hstop as [ST|Hc]; [|discriminate Hc].
    destruct (compress_views p1 RI1) as (V1 & V2 & V3 & V4 & V5 & V6).
    pose proof (compress_abs p1 RI1) as CA.
    assert (I2 : pinv (compress p1)) by (split; [exact V1|rewrite CA; apply compress_inv; exact A1]).
    assert (Q2 : SQ (abs (compress p1)) (wlog w) [] (segs w)) by (rewrite CA; exact I1).
    assert (GATE : forall E ge gm bb rest, flat E = [] -> segs w = E ++ (ge, gm, bb) :: rest -> bb <> [] ->
              gate_met (counts (wlog w)) ge gm).
    { intros E ge gm bb rest HF HS Hbb. unfold SQ in I1. rewrite HS in I1.
      refine (Q_block_mid _ _ _ _ _ _ E ge gm bb rest HF Hbb _ I1).
      destruct (stuck_W _ ST) as [_ H]. unfold W in H. rewrite app_nil_r in H. apply H. exact Eb. }
    pose proof (await_read_inv _ _ _ _ _ (io_fuel w 0) false (sinput_space (compress p1)) w Q2 GATE) as AR.
    pose proof (await_read_rem (io_fuel w 0) false (sinput_space (compress p1)) w) as RM.
    destruct (await_read (io_fuel w 0) false (sinput_space (compress p1)) w) as [[b|k] w1|o w1]; [| |exact AR].
    - destruct RM as (R1 & R2 & R3 & R4 & _). rewrite R3 in Hrem. apply bytes_ok_app in Hrem. destruct b as [|x b].
      + apply HS_mk; [exact I2|apply Hrem|rewrite R2; exact Hnf|exact AR|rewrite R1; apply HWL|rewrite V4; exact WL1].
      + apply IH; [exact I2|apply Hrem|exact R4|apply Hrem|rewrite R2; exact Hnf|exact AR|].
        split; [rewrite R1; apply HWL|cbn [rsp]; rewrite V4; exact WL1].
    - destruct RM as (R1 & R2 & R3 & _).
      apply HS_mk; [exact I2|rewrite R3; exact Hrem|rewrite R2; exact Hnf|exact AR|rewrite R1; apply HWL|rewrite V4; exact WL1]. }
  destruct (sparse maxc (rsp r) new None) as [p1 s|p1 e s|n] eqn:ESP; [| |discriminate].
  - apply (AFTER p1 s); [apply SS|exact SW|apply (sparse_none_stop (rsp r) new p1 s Hinv ESP)].
  - destruct SS as (SO & He & _).
    assert (ERR : HS (mkR p1 (rwriteable r) (rlock r) (raborted r)) w).
    { destruct (PARSED p1 s SO SW) as (J1 & J2 & J3). apply HS_mk; try assumption. apply HWL. }
    destruct e; try exact ERR.
    apply (AFTER p1 s SO SW). right. apply (err_at_boundary _ _ He).
Qed.

Lemma record_boundary_hs r w : HS r w ->
  match record_boundary maxc r w with
  | Ok (_, r') w' => HS r' w'
  | Halt o _ => o <> ODeadlock
  end.
Proof.
  intros H. unfold record_boundary. destruct (is_record_boundary (rsp r)); [exact H|].
  destruct H as (H1 & H2 & H3 & H4 & H5). apply boundary_loop_hs; try assumption; [constructor|rewrite len_nil; lia].
Qed.

(* ---- Request::close ---- *)
(* what holds between requests: [new] are bytes read but not yet fed to the request parser *)
Definition PS (p : parser) (w : world) (new : bytes) : Prop :=
  bytes_ok (remaining w) /\ no_fault (wscript w) /\
  Q (sk (st p)) (sprem (st p)) (spad (st p)) (held p) [] (wlog w) new (segs w).

Lemma hdr0_F s id : wholeF (hdr_encode s id 0 0).
Proof.
  exists [mkRcd s id [] []]. split; [constructor; [|constructor]; split; vm_compute; reflexivity|].
  unfold enc_rcds, enc_rcd, enc_rcd_rsv, hdr_encode. cbn [flat_map rt rid rbody rpad app]. reflexivity.
Qed.

Lemma end_F app ps id : wholeF (end_record app ps id).
Proof.
  exists [mkRcd RT_EndRequest id (end_encode app ps) []]. split; [constructor; [|constructor]; split; vm_compute; reflexivity|].
  cbn [enc_rcds flat_map]. rewrite app_nil_r. reflexivity.
Qed.

Lemma epilogue_F id disc code streams ep : epilogue id disc code streams = Some ep -> wholeF ep.
Proof.
  unfold epilogue. destruct (exit_to_end disc code) as [[app ps]|]; [|discriminate]. intros E. injection E as <-.
  apply wholeF_app; [|apply end_F]. induction streams as [|s t IH]; [apply wholeF_nil|].
  cbn [flat_map]. apply wholeF_app; [apply hdr0_F|exact IH].
Qed.

Lemma close_tail_hs r1 disc code w1 : HS r1 w1 ->
  match close_tail maxc r1 disc code w1 with
  | Ok (inl rp) w' => PS rp w' []
  | Ok (inr _) _ => True
  | Halt o _ => o <> ODeadlock
  end.
Proof.
  intros H. rewrite close_tail_unfold.
  destruct (set_stream (rsp r1) None) as [p2| |] eqn:E; [|discriminate|discriminate].
  pose proof (record_boundary_hs _ w1 (set_stream_hs r1 w1 None p2 (rwriteable r1) (rlock r1) (raborted r1) H E)) as RB.
  destruct (record_boundary maxc (mkR p2 (rwriteable r1) (rlock r1) (raborted r1)) w1) as [[[k2|] r3] w2|o w2];
    [exact I| |exact RB].
  pose proof (close_finish_spec r3 disc code w2) as CF.
  destruct (epilogue (r_id (sreq (rsp r3))) disc code (if rwriteable r3 then ROLE_OUTPUT_STREAMS else [])) as [ep|] eqn:Eep;
    [|rewrite CF; discriminate].
  destruct (close_finish r3 disc code w2) as [[rp|k] w'|o w']; unfold cf_post in CF; cbv zeta in CF.
  - destruct CF as ((Hsame & Hlog & Hsuf & _) & Hconv & _). unfold wlog_ext in Hlog.
    destruct RB as ([RI3 A3] & R2 & R3 & R4 & [R5 R6]).
    split; [rewrite (same_but_io_remaining _ _ Hsame); exact R2|]. split; [apply (no_fault_suffix _ _ Hsuf R3)|].
    assert (Hsegs : segs w' = segs w2) by apply Hsame.
    destruct (close_p4_spec r3) as (Hsp & Ho4 & _). destruct (sp_same_views _ _ Hsp) as (_ & V2 & _ & V4 & _).
    assert (RI4 : RI (close_p4 r3)).
    { unfold close_p4. destruct (output_buffer (rsp r3)); [exact RI3|apply consume_output_RI; exact RI3]. }
    pose proof (into_request_parser_refines (close_p4 r3) RI4) as IR. rewrite Hconv in IR. cbn [absconv] in IR.
    unfold ainto_request_parser in IR. change (a_boundary (abs (close_p4 r3))) with (is_record_boundary (close_p4 r3)) in IR.
    rewrite V4 in IR. destruct (is_record_boundary (rsp r3)) eqn:Eb; cbn [negb] in IR; [|discriminate IR].
    destruct (negb (len (a_out (abs (close_p4 r3))) =? 0)); [discriminate IR|]. injection IR as <-. cbn [st held sk sprem spad].
    change (a_raw (abs (close_p4 r3))) with (raw_bytes (close_p4 r3)). rewrite V2, Hlog, Hsegs.
    unfold is_record_boundary in Eb. apply andb_true_iff in Eb. destruct Eb as [Ep Eq]. apply N.eqb_eq in Ep. apply N.eqb_eq in Eq.
    unfold inv2, SQ in R4. cbn [abs a_st a_prem a_pad a_raw a_out] in R4. rewrite Ep, Eq in R4.
    apply (Q_pos (kst (sst (rsp r3))) 0 0 false 0 0); [intros x; apply WK_k0|].
    rewrite app_assoc. apply Q_log; [apply wholeF_app; assumption|apply wholeF_nil|apply (epilogue_F _ _ _ _ _ Eep)|].
    apply (Q_flush _ _ _ _ (output_buffer (rsp r3)) _ _ _ (output_buffer (rsp r3)) []); [symmetry; apply app_nil_r|exact R4].
  - exact I.
  - destruct o; try contradiction; discriminate.
Qed.

Lemma do_close_hs r disc code w : HS r w ->
  match do_close maxc r disc code w with
  | Ok (inl rp) w' => PS rp w' []
  | Ok (inr _) _ => True
  | Halt o _ => o <> ODeadlock
  end.
Proof.
  intros H. unfold do_close. pose proof (do_writeable_hs r w H) as DW.
  destruct (do_writeable maxc r w) as [[[k|] r1] w1|o w1]; [| |exact DW].
  - destruct ((k =? EK_Aborted) && raborted r1); [apply close_tail_hs; exact DW|exact I].
  - apply close_tail_hs; exact DW.
Qed.

End Layers.

(* ------------------------------------------------------------------------------------------ *)
(* Part G: Token::parse_request, Token::run, the theorem                                        *)
(* ------------------------------------------------------------------------------------------ *)
Section Loop.
Variable norm : bytes -> bytes.
Variable maxc : N.

(* between requests: every read happens after the whole output of the parse call just made has been written, and
   that call has consumed every complete record it held *)
Lemma parse_request_ps : forall fuel p new w, parser_ok p -> bytes_ok new -> len new <= input_space p -> PS p w new ->
  match parse_request norm maxc fuel p new w with
  | Ok (inl s0) w' => forall wr lk ab, HS (mkR s0 wr lk ab) w'
  | Ok (inr _) _ => True
  | Halt o _ => o <> ODeadlock
  end.
Proof.
  induction fuel as [|f IH]; intros p new w Hp Hn Hl (Hrem & Hnf & HQ); [cbn [parse_request]; discriminate|].
  rewrite parse_request_iter.
  destruct (parse_facts norm maxc p new Hp Hn Hl) as (p' & d & o & EP & Hp' & Hd & _). rewrite EP.
  pose proof (await_write_all_spec (io_fuel w (len o)) true o w) as WS1.
  destruct (await_write_all (io_fuel w (len o)) true o w) as [[k|] w1|o1 w1]; [exact I| |].
  2:{ destruct o1; try contradiction; discriminate. }
  destruct WS1 as (Hsame & Hlog & Hsuf & _). unfold wlog_ext in Hlog.
  assert (Hrem1 : bytes_ok (remaining w1)) by (rewrite (same_but_io_remaining _ _ Hsame); exact Hrem).
  assert (Hnf1 : no_fault (wscript w1)) by (apply (no_fault_suffix _ _ Hsuf Hnf)).
  assert (Hsegs : segs w1 = segs w) by apply Hsame.
  assert (STEP : is_fatal (st p') = false ->
            Q (sk (st p')) (sprem (st p')) (spad (st p')) (held p') [] (wlog w1) [] (segs w1) /\
            (d = false -> fst (WS (st p') (held p')) = 0)).
  { intros Hnfat. destruct (parse_law norm maxc p new p' d o Hp Hn Hl EP Hnfat) as (Wo & L & S).
    split; [|exact S]. rewrite Hlog, Hsegs.
    pose proof (Q_parse (sk (st p)) (sprem (st p)) (spad (st p)) (held p) [] (wlog w) new (segs w)
                  (sk (st p')) (sprem (st p')) (spad (st p')) (held p') o Wo L HQ) as H1. cbn [app] in H1.
    apply (Q_flush _ _ _ _ o _ _ _ o []); [symmetry; apply app_nil_r|exact H1]. }
  destruct d.
  - destruct (into_stream_parser p') as [s0|e] eqn:EI; [|exact I].
    pose proof EI as EI'. unfold into_stream_parser in EI'.
    destruct (st p') as [| | | | | | |rq|e] eqn:Est; try discriminate EI'.
    destruct (STEP eq_refl) as [Q1 _]. cbn [sk sprem spad] in Q1.
    destruct Hp' as (_ & _ & Hh & Hc & _).
    destruct (into_stream_parser_init p' rq Est Hc) as (p0 & E0 & R0 & A0). rewrite EI in E0. injection E0 as <-.
    intros wr lk ab. apply HS_mk.
    + apply (into_stream_parser_pinv p' rq s0 Est Hc Hh EI).
    + exact Hrem1.
    + exact Hnf1.
    + unfold SQ. rewrite A0. cbn [a_st a_prem a_pad a_raw a_out kst]. exact Q1.
    + pose proof (Q_world _ _ _ _ _ _ _ _ Q1) as H. rewrite app_nil_r in H. exact H.
    + pose proof (f_equal a_out A0) as Eo. cbn [abs a_out] in Eo. rewrite Eo. apply wholeF_nil.
  - assert (Hnfat : is_fatal (st p') = false) by (destruct (st p'); try reflexivity; discriminate Hd).
    destruct (STEP Hnfat) as [Q1 S1]. specialize (S1 eq_refl).
    assert (GATE : forall E ge gm bb rest, flat E = [] -> segs w1 = E ++ (ge, gm, bb) :: rest -> bb <> [] ->
              gate_met (counts (wlog w1)) ge gm).
    { intros E ge gm bb rest HF HS Hbb. rewrite HS in Q1. apply (Q_block _ _ _ _ _ E ge gm bb rest HF Hbb S1 Q1). }
    pose proof (await_read_inv _ _ _ _ _ (io_fuel w1 0) true (input_space p') w1 Q1 GATE) as AR.
    pose proof (await_read_rem (io_fuel w1 0) true (input_space p') w1) as RM.
    destruct (await_read (io_fuel w1 0) true (input_space p') w1) as [[b|k] w2|o2 w2]; [|exact I|exact AR].
    destruct b as [|x b]; [exact I|]. destruct RM as (R1 & R2 & R3 & R4 & _).
    rewrite R3 in Hrem1. apply bytes_ok_app in Hrem1.
    apply IH; [exact Hp'|apply Hrem1|exact R4|]. split; [apply Hrem1|]. split; [rewrite R2; exact Hnf1|exact AR].
Qed.

Lemma fold_ev_fields (env : list (bytes * bytes)) : forall w,
  remaining (fold_left (fun w p => w_ev (w_ev w (fst p)) (snd p)) env w) = remaining w /\
  wscript (fold_left (fun w p => w_ev (w_ev w (fst p)) (snd p)) env w) = wscript w /\
  wlog (fold_left (fun w p => w_ev (w_ev w (fst p)) (snd p)) env w) = wlog w /\
  segs (fold_left (fun w p => w_ev (w_ev w (fst p)) (snd p)) env w) = segs w.
Proof.
  induction env as [|e t IH]; intros w; [repeat split|]. cbn [fold_left].
  destruct (IH (w_ev (w_ev w (fst e)) (snd e))) as (H1 & H2 & H3 & H4). repeat split; assumption.
Qed.

(* Token::run never ends in the wait-for cycle *)
Lemma run_loop_nd scripts : scripts_ok true scripts -> Forall no_abandoned_read scripts ->
  forall fuel p served w, parser_ok p -> world_ok w -> PS p w [] ->
  fst (run_loop norm maxc fuel p scripts served w) <> ODeadlock.
Proof.
  intros Hscripts Hna. induction fuel as [|f IH]; intros p served w Hp Wok HPS; [cbn [run_loop fst]; discriminate|].
  cbn [run_loop]. destruct (stopped w); [cbn [fst]; discriminate|].
  pose proof (parse_request_ok norm maxc (io_fuel w 0) p [] w Hp Wok ltac:(apply Forall_nil) ltac:(rewrite len_nil; lia)
                ltac:(rewrite io_fuel_eq; lia)) as PR.
  pose proof (parse_request_ps (io_fuel w 0) p [] w Hp ltac:(constructor) ltac:(rewrite len_nil; lia) HPS) as PN.
  unfold preq_post in PR.
  destruct (parse_request norm maxc (io_fuel w 0) p [] w) as [[s0|k] w1|o w1]; [|cbn [fst]; discriminate|cbn [fst]; exact PN].
  destruct PR as (G0 & S1 & B0 & St0 & _).
  set (role := r_role (sreq s0)) in *.
  set (r0 := mkR s0 (len (role_input_streams role) <=? 1) false false).
  assert (GR0 : rgood r0).
  { split; [exact G0|]. unfold wr_inv. subst r0. cbn [rsp rwriteable]. fold role. rewrite St0. apply wr_inv_init. }
  set (w2 := fold_left _ _ _).
  assert (S2 : wstep w1 w2).
  { subst w2. eapply wstep_trans; [|apply wstep_fold_ev]. eapply wstep_trans; apply wstep_ev. }
  assert (HS2 : HS r0 w2).
  { subst w2. match goal with |- HS _ (fold_left _ ?env ?w) => destruct (fold_ev_fields env w) as (F1 & F2 & F3 & F4) end.
    apply (HS_world r0 w1); [rewrite F1; reflexivity|rewrite F2; reflexivity|rewrite F3; reflexivity|rewrite F4; reflexivity|].
    apply PN. }
  set (script := nth served scripts (last scripts [])).
  assert (Hscript : script_ok true role (next_input_stream role None) script).
  { subst script. apply (Forall_nth_default (fun s => forall role, script_ok true role (next_input_stream role None) s));
      [exact Hscripts|]. apply Forall_last; [exact Hscripts|]. intros role'. constructor. }
  pose proof (run_handler_ok norm maxc LAny true role _ script Hscript I (length script + 2) r0 w2 ltac:(lia) GR0
                (ws_ok _ _ S2 (ws_ok _ _ S1 Wok)) eq_refl St0 I) as RH.
  assert (Hnascript : no_abandoned_read script).
  { subst script. apply Forall_nth_default; [exact Hna|]. apply Forall_last; [exact Hna|constructor]. }
  pose proof (run_handler_hs maxc true role _ script Hscript Hnascript (length script + 2) r0 w2 HS2 eq_refl) as RN.
  unfold hpost in RH.
  destruct (run_handler maxc (length script + 2) script r0 w2) as [[st r1] w3|o w3]; [|cbn [fst]; exact RN].
  destruct RH as ((G1 & S3 & _) & Hst).
  assert (Wok3 : world_ok w3) by (apply (ws_ok _ _ S3), (ws_ok _ _ S2), (ws_ok _ _ S1), Wok).
  assert (CLOSE : forall d c, In d EXITSTATUS_VALUES ->
    fst (match do_close maxc r1 d c w3 with
         | Halt o w4 => (o, w4)
         | Ok (inl rp) w4 => run_loop norm maxc f rp scripts (S served) w4
         | Ok (inr _) w4 => (ORet, w4)
         end) <> ODeadlock).
  { intros d c Hd. pose proof (do_close_ok norm maxc r1 d c w3 G1 Wok3 Hd) as DC.
    pose proof (do_close_hs maxc r1 d c w3 RN) as DN. unfold close_post in DC.
    destruct (do_close maxc r1 d c w3) as [[rp|k] w4|o w4].
    - destruct DC as (C1 & C2 & C3 & C4). apply IH; [exact C1|apply (ws_ok _ _ C3 Wok3)|exact DN].
    - cbn [fst]. discriminate.
    - cbn [fst]. exact DN. }
  destruct st as [[d c]|k].
  - apply CLOSE. exact Hst.
  - destruct ((k =? EK_Aborted) && raborted r1); [apply CLOSE; apply exit_complete_in|cbn [fst]; discriminate].
Qed.
End Loop.

Lemma peer_segs_world : forall sg n, peer_segs n sg -> Forall (fun s : N * N * bytes => bytes_ok (snd s)) (enc_segs sg).
Proof.
  induction sg as [|[[ge gm] rs] t IH]; intros n H; [constructor|]. cbn [peer_segs] in H. destruct H as (_ & _ & Hrs & H).
  cbn [enc_segs map]. constructor; [|apply (IH _ H)]. cbn [snd]. apply whole_bytes_ok. exists rs. split; [exact Hrs|reflexivity].
Qed.

Theorem peer_never_deadlocks : peer_never_deadlocks_stmt.
Proof.
  intros norm maxc scripts B sg w0 HB Hs Hna Hsegs Hpeer Hlog Hnf _ _ _ _.
  assert (Wok : world_ok w0) by (unfold world_ok; rewrite Hsegs; apply (peer_segs_world sg 0 Hpeer)).
  destruct (run_loop_total norm maxc scripts B w0 Wok Hs HB) as (w & [E|E]); [rewrite E; reflexivity|].
  exfalso. apply (run_loop_nd norm maxc scripts Hs Hna (nb w0 + 4) (new_parser B) 0%nat w0 (new_parser_ok B HB) Wok);
    [|rewrite E; reflexivity].
  split; [apply world_ok_remaining; exact Wok|]. split; [exact Hnf|].
  rewrite Hlog, Hsegs. cbn [new_parser st held sk sprem spad]. apply Q_init. exact Hpeer.
Qed.
Print Assumptions peer_never_deadlocks.


(* ------------------------------------------------------------------------------------------ *)
(* An instance: a GetValues query inside request 1's Stdin stream; the client keeps the rest of the stream back until
   it has counted one management reply                                                          *)
(* ------------------------------------------------------------------------------------------ *)
Definition rcd_okb (r : rcd) : bool :=
  (rt r <? 256) && (rid r <? 65536) && (len (rbody r) <? 65536) && (len (rpad r) <? 256) &&
  bytes_okb (rbody r) && bytes_okb (rpad r).

Lemma rcd_okb_ok rs : forallb rcd_okb rs = true -> Forall rcd_ok rs.
Proof.
  intros H. rewrite forallb_forall in H. rewrite Forall_forall. intros r Hr. specialize (H r Hr). unfold rcd_okb in H.
  repeat (apply andb_true_iff in H; destruct H as [H ?]). unfold rcd_ok.
  repeat split; try (apply N.ltb_lt; assumption); apply bytes_okb_ok; assumption.
Qed.

Definition ex2_rs1 : list rcd :=
  [ mkRcd RT_BeginRequest 1 (begin_encode ROLE_Responder 0) [];
    mkRcd RT_Params 1 [] [];
    mkRcd 5 1 [97; 98; 99] [0; 0; 0; 0; 0];
    mkRcd RT_GetValues 0 [14; 0; 70; 67; 71; 73; 95; 77; 65; 88; 95; 67; 79; 78; 78; 83] [] ].
Definition ex2_rs2 : list rcd := [ mkRcd 5 1 [100; 101] []; mkRcd 5 1 [] [] ].
(* segment 2 is released once the client has counted [gm] management replies *)
Definition ex2_sg (gm : N) : list (N * N * list rcd) := [ (0, 0, ex2_rs1); (0, gm, ex2_rs2) ].
Definition ex2_w (gm : N) : world := mkW [] [] (enc_segs (ex2_sg gm)) [] 0 1 0 false false [].
(* the handler reads Stdin to the end, then writes "hi" to Stdout *)
Definition ex2_scripts : list (list N) := [[2; 6; 6; 2; 104; 105]].

(* the hypotheses of the theorem hold for it *)
Example ex2_hyps :
  64 < SIZE_LIMIT - 8 /\ scripts_ok true ex2_scripts /\ Forall no_abandoned_read ex2_scripts /\
  segs (ex2_w 1) = enc_segs (ex2_sg 1) /\ peer_segs 0 (ex2_sg 1) /\
  wlog (ex2_w 1) = [] /\ no_fault (wscript (ex2_w 1)) /\ no_read_fault (rscript (ex2_w 1)) /\ stop_at (ex2_w 1) = 0 /\
  stopped (ex2_w 1) = false /\ len (flat_map (fun s : N * N * bytes => snd s) (segs (ex2_w 1))) < SIZE_LIMIT.
Proof.
  split; [vm_compute; reflexivity|]. split.
  { constructor; [|constructor]. intros role. apply SO_read_all. apply (SO_write true role _ 6 2 [104; 105]). apply SO_nil. }
  split.
  { constructor; [|constructor]. apply NA_read_all. apply (NA_write 6 2 [104; 105]). apply NA_nil. }
  split; [reflexivity|]. split.
  { cbn [peer_segs ex2_sg]. split; [reflexivity|]. split; [lia|]. split; [apply rcd_okb_ok; vm_compute; reflexivity|].
    split; [reflexivity|]. split; [vm_compute; discriminate|]. split; [apply rcd_okb_ok; vm_compute; reflexivity|exact I]. }
  split; [reflexivity|]. split; [constructor|]. split; [constructor|]. split; [reflexivity|]. split; [reflexivity|].
  vm_compute. reflexivity.
Qed.

(* the run: the handler receives "abcde" (so the second segment was delivered: its gate was met by the reply to the
   query), the connection task returns; the log holds one EndRequest and one management reply *)
Example ex2_returns :
  let r := run_loop (fun b => b) 10 (nb (ex2_w 1) + 4) (new_parser 64) ex2_scripts 0 (ex2_w 1) in
  fst r = ORet /\ counts (wlog (snd r)) = (1, 1) /\ remaining (snd r) = [] /\ In [97; 98; 99; 100; 101] (events (snd r)).
Proof. vm_compute. repeat split; try reflexivity. right. right. left. reflexivity. Qed.

(* ... and by the theorem, for every normalisation function and every max_conns *)
Example ex2_never_deadlocks norm maxc :
  fst (run_loop norm maxc (nb (ex2_w 1) + 4) (new_parser 64) ex2_scripts 0 (ex2_w 1)) = ORet.
Proof.
  destruct ex2_hyps as (H1 & H2 & H2' & H3 & H4 & H5 & H6 & H7 & H8 & H9 & H10).
  exact (peer_never_deadlocks norm maxc ex2_scripts 64 (ex2_sg 1) (ex2_w 1) H1 H2 H2' H3 H4 H5 H6 H7 H8 H9 H10).
Qed.

(* the hypothesis on the gates matters: a client that asks for two management replies when it is owed one is waited
   for in vain, with its second segment undelivered *)
Example ex2_greedy_deadlocks :
  let r := run_loop (fun b => b) 10 (nb (ex2_w 2) + 4) (new_parser 64) ex2_scripts 0 (ex2_w 2) in
  fst r = ODeadlock /\ counts (wlog (snd r)) = (0, 1) /\ remaining (snd r) = enc_rcds ex2_rs2 /\ ~ peer_segs 0 (ex2_sg 2).
Proof.
  cbv zeta. split; [vm_compute; reflexivity|]. split; [vm_compute; reflexivity|]. split; [vm_compute; reflexivity|].
  cbn [peer_segs ex2_sg]. intros (_ & _ & _ & _ & H & _). vm_compute in H. apply H. reflexivity.
Qed.

(* the hypothesis [no_abandoned_read] matters too.  The GetValues query comes BEFORE the Stdin data, the second segment
   (the end of Stdin) is released after one management reply, the transport accepts 3 bytes and is then not ready once
   (wscript = [3; 0]).  The handler reads "abc" (the reply to the query is now pending in the parser's output buffer),
   polls a read once and drops it (op 11: poll_output has written 3 bytes of the reply when the transport returns
   Pending, with Request.lock held), then writes "hi" to Stdout and would read to the end.  Every other hypothesis of the
   theorem holds -- the script is well-formed, the client asks for one reply and is owed one -- but the StreamWriter waits
   for Request.lock, which only another poll of the request's input could release: the reply is never completed (3 of its
   bytes are in the log), nothing of "hi" is written, the client cannot count the reply and the task ends in the wait-for
   cycle (known finding F6).  With the read awaited (op 1) the same run returns. *)
Definition ex2p_rs1 : list rcd :=
  [ mkRcd RT_BeginRequest 1 (begin_encode ROLE_Responder 0) [];
    mkRcd RT_Params 1 [] [];
    mkRcd RT_GetValues 0 [14; 0; 70; 67; 71; 73; 95; 77; 65; 88; 95; 67; 79; 78; 78; 83] [];
    mkRcd 5 1 [97; 98; 99] [0; 0; 0; 0; 0] ].
Definition ex2p_sg : list (N * N * list rcd) := [ (0, 0, ex2p_rs1); (0, 1, [ mkRcd 5 1 [] [] ]) ].
Definition ex2p_w : world := mkW [] [3; 0] (enc_segs ex2p_sg) [] 0 1 0 false false [].
Definition ex2p_scripts (op : N) : list (list N) := [[1; 3; op; 5; 6; 6; 2; 104; 105; 2]].

Example ex2p_hyps :
  64 < SIZE_LIMIT - 8 /\ scripts_ok true (ex2p_scripts 11) /\ ~ Forall no_abandoned_read (ex2p_scripts 11) /\
  Forall no_abandoned_read (ex2p_scripts 1) /\
  segs ex2p_w = enc_segs ex2p_sg /\ peer_segs 0 ex2p_sg /\
  wlog ex2p_w = [] /\ no_fault (wscript ex2p_w) /\ no_read_fault (rscript ex2p_w) /\ stop_at ex2p_w = 0 /\
  stopped ex2p_w = false /\ len (flat_map (fun s : N * N * bytes => snd s) (segs ex2p_w)) < SIZE_LIMIT.
Proof.
  split; [vm_compute; reflexivity|]. split.
  { constructor; [|constructor]. intros role. apply SO_read. apply SO_poll. apply (SO_write true role _ 6 2 [104; 105; 2]).
    apply SO_read_all. apply SO_nil. }
  split.
  { intros H. inversion H as [|x l Hx Hl]; subst. inversion Hx as [|n rest Hr| | | | | | | | |]; subst. inversion Hr. }
  split.
  { constructor; [|constructor]. apply NA_read. apply NA_read. apply (NA_write 6 2 [104; 105; 2]). apply NA_read_all. apply NA_nil. }
  split; [reflexivity|]. split.
  { cbn [peer_segs ex2p_sg]. split; [reflexivity|]. split; [lia|]. split; [apply rcd_okb_ok; vm_compute; reflexivity|].
    split; [reflexivity|]. split; [vm_compute; discriminate|]. split; [apply rcd_okb_ok; vm_compute; reflexivity|exact I]. }
  split; [reflexivity|]. split; [repeat constructor; discriminate|]. split; [constructor|]. split; [reflexivity|].
  split; [reflexivity|]. vm_compute. reflexivity.
Qed.

Example ex2p_abandoned_read_deadlocks :
  let r := run_loop (fun b => b) 10 (nb ex2p_w + 4) (new_parser 64) (ex2p_scripts 11) 0 ex2p_w in
  fst r = ODeadlock /\ wlog (snd r) = [1; 10; 0] /\ counts (wlog (snd r)) = (0, 0) /\
  remaining (snd r) = enc_rcds [ mkRcd 5 1 [] [] ] /\
  In [11; 2; 0; 1] (events (snd r)) /\ ~ In [6; 0] (events (snd r)).
Proof.
  vm_compute. repeat split; try reflexivity; try tauto.
  intros H. repeat (destruct H as [H|H]; [discriminate H|]). exact H.
Qed.

Example ex2p_awaited_read_returns :
  let r := run_loop (fun b => b) 10 (nb ex2p_w + 4) (new_parser 64) (ex2p_scripts 1) 0 ex2p_w in
  fst r = ORet /\ counts (wlog (snd r)) = (1, 1) /\ remaining (snd r) = [].
Proof. vm_compute. repeat split; reflexivity. Qed.

Print Assumptions ex2_hyps.
Print Assumptions ex2p_hyps.
Print Assumptions ex2p_abandoned_read_deadlocks.
Print Assumptions ex2p_awaited_read_returns.
Print Assumptions ex2_returns.
Print Assumptions ex2_never_deadlocks.
Print Assumptions ex2_greedy_deadlocks.
