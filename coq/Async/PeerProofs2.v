(* Async/PeerProofs2.v — proof of Async/PeerTargets2.v: a peer that sends whole records and gates its segments only
   on management replies owed for records of EARLIER segments never ends in a wait-for cycle with the server.
   Part A: counting complete records is monotone along every extension of the log.
   Part B: WK, the framing walk: (number of management replies owed for the records completed by the bytes,
           whether the bytes end exactly at a record boundary), from a framing position (k, prem, pad).
   Part C: the stream parser conserves WK (every call), and stops only where nothing more can be done.
   Part D: the request parser conserves WK (every call), and stops only where nothing more can be done.
   Part E: the invariant of the connection and its elementary steps.
   Part F: the layers of the connection task.  Part G: the theorem and an instance. *)
From Coq Require Import ZArith.
From FV Require Import Base.Bytes Base.BytesLemmas Gen.Generated Codec.Varint Codec.VarintProofs Codec.NV Codec.NVProofs
  Codec.Header Codec.Bodies Codec.Vars Codec.ProtoProofs
  Parser.ReqModel Parser.ReqParamsSpec Parser.ReqWire Parser.ReqTargets Parser.ReqParams Parser.ReqDrive Parser.ReqRecords Parser.ReqFinal
  Parser.StreamModel Parser.AbsStream Parser.StreamRefine Parser.StreamSpec Parser.StreamInv Parser.StreamFinal Parser.EnvCanon
  Async.ConnWrites Async.ConnTotal Async.Conn Async.ConnReads Async.PeerTargets Async.PeerProofs Async.PeerTargets2.
From Coq Require Import ZifyBool ZifyNat ZifyN.
Ltac Zify.zify_post_hook ::= Z.div_mod_to_equations.

Notation flat := (flat_map (fun s : N * N * bytes => snd s)).

(* ------------------------------------------------------------------------------------------ *)
(* Part A: counting                                                                             *)
(* ------------------------------------------------------------------------------------------ *)

Lemma count_ge : forall f l e m, e <= fst (count_records f l e m) /\ m <= snd (count_records f l e m).
Proof.
  induction f as [|f IH]; intros l e m; [cbn [count_records fst snd]; lia|].
  cbn [count_records]. destruct (len l <? 8); [cbn [fst snd]; lia|]. cbv zeta.
  destruct (len l <? 8 + be16 (nthN l 4) (nthN l 5) + nthN l 6); [cbn [fst snd]; lia|].
  match goal with |- context [count_records f ?l' ?e' ?m'] => pose proof (IH l' e' m') as H end.
  destruct (nthN l 1 =? RT_EndRequest); destruct ((nthN l 1 =? RT_GetValuesResult) || (nthN l 1 =? RT_Unknown)); lia.
Qed.

Lemma nthN_app_lt (l x : bytes) i : i < len l -> nthN (l ++ x) i = nthN l i.
Proof. intros H. unfold nthN. apply app_nth1. unfold len in H. lia. Qed.

(* the records counted in a log are still counted in every extension of it *)
Lemma count_mono : forall f1 f2 l x e m, (length l <= f1)%nat -> (length (l ++ x) <= f2)%nat ->
  fst (count_records f1 l e m) <= fst (count_records f2 (l ++ x) e m) /\
  snd (count_records f1 l e m) <= snd (count_records f2 (l ++ x) e m).
Proof.
  induction f1 as [|f1 IH]; intros f2 l x e m H1 H2.
  { cbn [count_records fst snd]. apply count_ge. }
  cbn [count_records]. destruct (N.ltb_spec (len l) 8) as [H8|H8]; [cbn [fst snd]; apply count_ge|]. cbv zeta.
  destruct (N.ltb_spec (len l) (8 + be16 (nthN l 4) (nthN l 5) + nthN l 6)) as [Hc|Hc]; [cbn [fst snd]; apply count_ge|].
  assert (Hl : len (l ++ x) = len l + len x) by apply len_app.
  destruct f2 as [|f2]; [unfold len in *; lia|]. cbn [count_records].
  destruct (N.ltb_spec (len (l ++ x)) 8) as [H8'|_]; [lia|]. cbv zeta.
  rewrite !nthN_app_lt by lia.
  destruct (N.ltb_spec (len (l ++ x)) (8 + be16 (nthN l 4) (nthN l 5) + nthN l 6)) as [Hc'|_]; [lia|].
  rewrite drop_app_le by lia. apply IH.
  - pose proof (len_drop (8 + be16 (nthN l 4) (nthN l 5) + nthN l 6) l). unfold len in *. lia.
  - pose proof (len_app (drop (8 + be16 (nthN l 4) (nthN l 5) + nthN l 6) l) x).
    pose proof (len_drop (8 + be16 (nthN l 4) (nthN l 5) + nthN l 6) l). unfold len in *. lia.
Qed.

Lemma counts_mono_any l x : fst (counts l) <= fst (counts (l ++ x)) /\ snd (counts l) <= snd (counts (l ++ x)).
Proof. unfold counts. apply count_mono; lia. Qed.

Lemma counts_nil : counts [] = (0, 0).
Proof. reflexivity. Qed.

Lemma counts_app_w a b : whole a -> whole b -> snd (counts (a ++ b)) = snd (counts a) + snd (counts b).
Proof. intros Ha Hb. rewrite (counts_app_proof a b Ha Hb). reflexivity. Qed.

(* the three kinds of reply, counted *)
Lemma unk_counts t id : t < 256 -> id < 65536 -> counts (unk_record t id) = (0, 1).
Proof.
  intros Ht Hid. change (unk_record t id) with (enc_rcds [mkRcd RT_Unknown id (unk_encode t) []] ++ []).
  rewrite app_nil_r, counts_enc; [reflexivity|]. constructor; [|constructor].
  unfold rcd_ok. cbn [rt rid rbody rpad].
  split; [unfold RT_Unknown; lia|]. split; [exact Hid|]. split; [vm_compute; reflexivity|]. split; [vm_compute; reflexivity|].
  split; [|constructor]. unfold unk_encode. constructor; [exact Ht|apply bytes_ok_zeros].
Qed.

Lemma end_counts ps id : ps < 256 -> id < 65536 -> snd (counts (end_record 0 ps id)) = 0.
Proof.
  intros Hps Hid. change (end_record 0 ps id) with (enc_rcds [mkRcd RT_EndRequest id (end_encode 0 ps) []] ++ []).
  rewrite app_nil_r, counts_enc; [reflexivity|]. constructor; [|constructor].
  unfold rcd_ok. cbn [rt rid rbody rpad].
  split; [unfold RT_EndRequest; lia|]. split; [exact Hid|]. split; [vm_compute; reflexivity|]. split; [vm_compute; reflexivity|].
  split; [|constructor]. unfold end_encode. apply bytes_ok_app. split; [apply to_be32_ok|].
  apply bytes_ok_app. split; [repeat constructor; exact Hps|apply bytes_ok_zeros].
Qed.

Lemma gv_counts vars maxc : counts (write_response vars maxc) = (0, 1).
Proof.
  pose proof (response_body_len vars maxc) as Hl. pose proof (response_body_ok vars maxc) as Hb.
  set (body := response_body vars maxc) in *.
  assert (Hm : len body mod 65536 = len body) by (apply N.mod_small; lia).
  destruct (pad_rule (len body)) as [P1 _].
  assert (E : write_response vars maxc = enc_rcds [mkRcd RT_GetValuesResult 0 body (zeros (auto_padding (len body)))]).
  { unfold write_response. fold body. rewrite Hm. unfold enc_rcds, enc_rcd, enc_rcd_rsv, hdr_encode. cbn [flat_map rt rid rbody rpad].
    rewrite len_zeros. rewrite app_nil_r, <- !app_assoc. reflexivity. }
  rewrite E, counts_enc; [reflexivity|]. constructor; [|constructor].
  unfold rcd_ok. cbn [rt rid rbody rpad]. rewrite len_zeros.
  split; [unfold RT_GetValuesResult; lia|]. split; [lia|]. split; [lia|]. split; [lia|]. split; [exact Hb|apply bytes_ok_zeros].
Qed.

(* ------------------------------------------------------------------------------------------ *)
(* Part B: the framing walk                                                                     *)
(* ------------------------------------------------------------------------------------------ *)

Definition padd (n : N) (r : N * bool) : N * bool := (n + fst r, snd r).

Lemma padd_0 r : padd 0 r = r.
Proof. destruct r as [a b]. unfold padd. cbn [fst snd]. f_equal. Qed.

Lemma padd_padd a b r : padd a (padd b r) = padd (a + b) r.
Proof. unfold padd. cbn [fst snd]. f_equal. lia. Qed.

Definition b2n (b : bool) : N := if b then 1 else 0.

(* is this the header of a GetValues management record? *)
Definition gvk (t rid : N) : bool := (t =? RT_GetValues) && hdr_is_management t rid.

Definition wk_body (rec : bool -> N -> N -> bytes -> N * bool) (k : bool) (prem pad : N) (w : bytes) : N * bool :=
  if 0 <? prem then
    if len w <? prem then (0, false) else padd (b2n k) (rec false 0 pad (drop prem w))
  else if 0 <? pad then
    if len w <? pad then (0, false) else rec false 0 0 (drop pad w)
  else if len w =? 0 then (0, true)
  else if len w <? HEADER_LEN then (0, false)
  else
    let head := take HEADER_LEN w in
    let rest := drop HEADER_LEN w in
    match hdr_decode head with
    | HBadVersion _ => (0, false)
    | HBadType _ => padd 1 (rec false (be16 (nthN head 4) (nthN head 5)) (nthN head 6) rest)
    | HOk t rid cl pl => rec (gvk t rid) cl pl rest
    end.

Fixpoint wk_from (fuel : nat) (k : bool) (prem pad : N) (w : bytes) : N * bool :=
  match fuel with
  | O => (0, false)
  | S f => wk_body (wk_from f) k prem pad w
  end.

Lemma wk_body_ext (r1 r2 : bool -> N -> N -> bytes -> N * bool) k prem pad w :
  (forall k' prem' pad' w', (length w' < length w)%nat -> r1 k' prem' pad' w' = r2 k' prem' pad' w') ->
  wk_body r1 k prem pad w = wk_body r2 k prem pad w.
Proof.
  intros H. unfold wk_body.
  destruct (N.ltb_spec 0 prem) as [Hp|Hp].
  - destruct (N.ltb_spec (len w) prem) as [Hl|Hl]; [reflexivity|]. f_equal. apply H. apply drop_shorter; lia.
  - destruct (N.ltb_spec 0 pad) as [Hq|Hq].
    + destruct (N.ltb_spec (len w) pad) as [Hl|Hl]; [reflexivity|]. apply H. apply drop_shorter; lia.
    + destruct (len w =? 0); [reflexivity|].
      destruct (N.ltb_spec (len w) HEADER_LEN) as [Hl|Hl]; [reflexivity|].
      assert (Hs : (length (drop HEADER_LEN w) < length w)%nat) by (apply drop_shorter; unfold HEADER_LEN in *; lia).
      cbv zeta. destruct (hdr_decode (take HEADER_LEN w)) as [t rid cl pl|v|t]; [apply H; exact Hs|reflexivity|].
      f_equal. apply H; exact Hs.
Qed.

Lemma wk_from_fuel f1 : forall f2 k prem pad w, (length w < f1)%nat -> (length w < f2)%nat ->
  wk_from f1 k prem pad w = wk_from f2 k prem pad w.
Proof.
  induction f1 as [|f1 IH]; intros f2 k prem pad w H1 H2; [lia|]. destruct f2 as [|f2]; [lia|].
  cbn [wk_from]. apply wk_body_ext. intros k' prem' pad' w' Hw. apply IH; lia.
Qed.

Definition WK (k : bool) (prem pad : N) (w : bytes) : N * bool := wk_from (length w + 2) k prem pad w.

Lemma WK_eq k prem pad w : WK k prem pad w = wk_body WK k prem pad w.
Proof.
  unfold WK at 1. replace (length w + 2)%nat with (S (length w + 1)) by lia. cbn [wk_from].
  apply wk_body_ext. intros k' prem' pad' w' Hw. unfold WK. apply wk_from_fuel; lia.
Qed.

Lemma WK_prem k prem pad w : 0 < prem ->
  WK k prem pad w = if len w <? prem then (0, false) else padd (b2n k) (WK false 0 pad (drop prem w)).
Proof. intros H. rewrite WK_eq at 1. unfold wk_body. rewrite (ltb_0_pos _ H). reflexivity. Qed.

Lemma WK_pad k pad w : 0 < pad ->
  WK k 0 pad w = if len w <? pad then (0, false) else WK false 0 0 (drop pad w).
Proof. intros H. rewrite WK_eq at 1. unfold wk_body. rewrite ltb_0_0, (ltb_0_pos _ H). reflexivity. Qed.

Definition wk_hd (head rest : bytes) : N * bool :=
  match hdr_decode head with
  | HBadVersion _ => (0, false)
  | HBadType _ => padd 1 (WK false (be16 (nthN head 4) (nthN head 5)) (nthN head 6) rest)
  | HOk t rid cl pl => WK (gvk t rid) cl pl rest
  end.

Lemma WK_head k w : HEADER_LEN <= len w -> WK k 0 0 w = wk_hd (take HEADER_LEN w) (drop HEADER_LEN w).
Proof.
  intros H. rewrite WK_eq at 1. unfold wk_body. rewrite !ltb_0_0.
  destruct (N.eqb_spec (len w) 0) as [Hz|_]; [unfold HEADER_LEN in H; lia|].
  destruct (N.ltb_spec (len w) HEADER_LEN) as [Hl|_]; [lia|]. reflexivity.
Qed.

Lemma WK_short k w : 0 < len w -> len w < HEADER_LEN -> WK k 0 0 w = (0, false).
Proof.
  intros H0 H. rewrite WK_eq. unfold wk_body. rewrite !ltb_0_0.
  destruct (N.eqb_spec (len w) 0) as [Hz|_]; [lia|].
  destruct (N.ltb_spec (len w) HEADER_LEN) as [_|Hl]; [reflexivity|lia].
Qed.

Lemma WK_nil0 k : WK k 0 0 [] = (0, true).
Proof. reflexivity. Qed.

Lemma WK_k0 k k' pad w : WK k 0 pad w = WK k' 0 pad w.
Proof. rewrite (WK_eq k), (WK_eq k'). unfold wk_body. rewrite !ltb_0_0. reflexivity. Qed.

Lemma WK_nil k prem pad : WK k prem pad [] = (0, (prem =? 0) && (pad =? 0)).
Proof.
  rewrite WK_eq. unfold wk_body. change (len (@nil N)) with 0.
  destruct (N.ltb_spec 0 prem) as [Hp|Hp].
  - destruct (N.ltb_spec 0 prem) as [_|Hl]; [|lia]. destruct (N.eqb_spec prem 0); [lia|reflexivity].
  - assert (prem = 0) by lia. subst prem. destruct (N.ltb_spec 0 pad) as [Hq|Hq].
    + destruct (N.eqb_spec pad 0); [lia|reflexivity].
    + assert (pad = 0) by lia. subst pad. reflexivity.
Qed.

(* fewer than a header's worth of bytes at a boundary: nothing is owed *)
Lemma WK_lt8 k w : len w < HEADER_LEN -> fst (WK k 0 0 w) = 0.
Proof.
  intros H. destruct (N.eq_dec (len w) 0) as [Hz|Hz].
  - rewrite (len_zero_nil w Hz). reflexivity.
  - rewrite WK_short by lia. reflexivity.
Qed.

(* consuming n bytes of a payload (not the last byte of a GetValues body) *)
Lemma WK_adv k prem pad w n : n <= prem -> n <= len w -> (k = false \/ n < prem) ->
  WK k prem pad w = WK k (prem - n) pad (drop n w).
Proof.
  intros Hn Hw Hk.
  destruct (N.eq_dec n 0) as [->|Hn0].
  { rewrite drop_0, N.sub_0_r. reflexivity. }
  rewrite (WK_prem k prem) by lia.
  destruct (N.eq_dec n prem) as [->|Hne].
  - destruct Hk as [->|Hk]; [|lia]. rewrite N.sub_diag.
    destruct (N.ltb_spec (len w) prem) as [Hl|Hl]; [lia|]. cbn [b2n]. apply padd_0.
  - rewrite (WK_prem k (prem - n)) by lia. rewrite len_drop, drop_drop.
    replace (n + (prem - n)) with prem by lia.
    destruct (N.ltb_spec (len w - n) (prem - n)); destruct (N.ltb_spec (len w) prem); try reflexivity; lia.
Qed.

Lemma WK_pad_adv k pad w n : n <= pad -> n <= len w -> WK k 0 pad w = WK k 0 (pad - n) (drop n w).
Proof.
  intros Hn Hw.
  destruct (N.eq_dec n 0) as [->|Hn0].
  { rewrite drop_0, N.sub_0_r. reflexivity. }
  rewrite (WK_pad k pad) by lia.
  destruct (N.eq_dec n pad) as [->|Hne].
  - rewrite N.sub_diag. destruct (N.ltb_spec (len w) pad) as [Hl|Hl]; [lia|]. apply WK_k0.
  - rewrite (WK_pad k (pad - n)) by lia. rewrite len_drop, drop_drop.
    replace (n + (pad - n)) with pad by lia.
    destruct (N.ltb_spec (len w - n) (pad - n)); destruct (N.ltb_spec (len w) pad); try reflexivity; lia.
Qed.

Lemma WK_head_app k raw u : HEADER_LEN <= len raw ->
  WK k 0 0 (raw ++ u) = wk_hd (take HEADER_LEN raw) (drop HEADER_LEN raw ++ u).
Proof.
  intros H. rewrite WK_head by (rewrite len_app; lia).
  rewrite (take_app_le HEADER_LEN raw u H), (drop_app_le HEADER_LEN raw u H). reflexivity.
Qed.

(* a whole body + padding lying in front *)
Lemma WK_body k b q w : WK k (len b) (len q) (b ++ q ++ w) = padd (if len b =? 0 then 0 else b2n k) (WK false 0 0 w).
Proof.
  destruct (N.eqb_spec (len b) 0) as [Hz|Hz].
  - rewrite Hz, (len_zero_nil b Hz). cbn [app].
    rewrite (WK_pad_adv k (len q) (q ++ w) (len q)) by (rewrite ?len_app; lia).
    rewrite drop_len_app, N.sub_diag, padd_0. apply WK_k0.
  - rewrite WK_prem by lia. rewrite len_app.
    destruct (N.ltb_spec (len b + len (q ++ w)) (len b)) as [Hl|_]; [lia|].
    rewrite drop_len_app. f_equal.
    rewrite (WK_pad_adv false (len q) (q ++ w) (len q)) by (rewrite ?len_app; lia).
    rewrite drop_len_app, N.sub_diag. reflexivity.
Qed.

Lemma WK_record k r w : rcd_ok r ->
  WK k 0 0 (enc_rcd r ++ w) = padd (b2n (owes_mgmt r)) (WK false 0 0 w).
Proof.
  intros Hr. rewrite enc_rcd_app.
  rewrite WK_head by apply len_hdr8_app. rewrite take8_hdr8, drop8_hdr8.
  unfold wk_hd. rewrite (hdr_decode_hdr8 r Hr). unfold owes_mgmt.
  destruct (known_type (rt r)) eqn:Hk; cbn [negb orb].
  - rewrite WK_body. unfold gvk. rewrite gv_cond.
    destruct ((rt r =? RT_GetValues) && (rid r =? 0)); cbn [andb b2n]; destruct (len (rbody r) =? 0); reflexivity.
  - destruct (hdr8_fields r Hr) as (_ & -> & ->). rewrite WK_body. cbn [b2n].
    destruct (len (rbody r) =? 0); rewrite padd_0; reflexivity.
Qed.

Theorem WK_rcds rs w : Forall rcd_ok rs ->
  WK false 0 0 (enc_rcds rs ++ w) = padd (owed_count rs) (WK false 0 0 w).
Proof.
  intros Hrs. induction Hrs as [|r rs Hr Hrs IH].
  - cbn [enc_rcds flat_map app]. unfold owed_count. cbn [filter]. change (len (@nil rcd)) with 0. rewrite padd_0. reflexivity.
  - rewrite enc_rcds_cons, <- app_assoc, (WK_record false r _ Hr), IH, padd_padd. f_equal.
    unfold owed_count. cbn [filter]. destruct (owes_mgmt r); cbn [b2n]; [rewrite len_cons; lia|lia].
Qed.

(* the walk only grows along further bytes: what is owed for a prefix is owed for the whole *)
Lemma WK_mono : forall n k prem pad w x, (length w <= n)%nat -> fst (WK k prem pad w) <= fst (WK k prem pad (w ++ x)).
Proof.
  induction n as [|n IH]; intros k prem pad w x Hn.
  { assert (w = []) by (destruct w; [reflexivity|cbn [length] in Hn; lia]). subst w. rewrite WK_nil. cbn [fst]. lia. }
  destruct (N.ltb_spec 0 prem) as [Hp|Hp].
  - rewrite (WK_prem k prem pad w Hp), (WK_prem k prem pad (w ++ x) Hp), len_app.
    destruct (N.ltb_spec (len w) prem) as [Hl|Hl]; [cbn [fst]; lia|].
    destruct (N.ltb_spec (len w + len x) prem) as [Hl'|_]; [lia|].
    rewrite drop_app_le by lia. unfold padd. cbn [fst].
    pose proof (IH false 0 pad (drop prem w) x ltac:(pose proof (drop_shorter prem w Hp Hl); lia)). lia.
  - assert (prem = 0) by lia. subst prem. destruct (N.ltb_spec 0 pad) as [Hq|Hq].
    + rewrite (WK_pad k pad w Hq), (WK_pad k pad (w ++ x) Hq), len_app.
      destruct (N.ltb_spec (len w) pad) as [Hl|Hl]; [cbn [fst]; lia|].
      destruct (N.ltb_spec (len w + len x) pad) as [Hl'|_]; [lia|].
      rewrite drop_app_le by lia.
      apply (IH false 0 0 (drop pad w) x). pose proof (drop_shorter pad w Hq Hl). lia.
    + assert (pad = 0) by lia. subst pad.
      destruct (N.ltb_spec (len w) HEADER_LEN) as [Hl|Hl]; [rewrite (WK_lt8 k w Hl); lia|].
      rewrite (WK_head_app k w x Hl), (WK_head k w Hl). unfold wk_hd.
      assert (Hs : (length (drop HEADER_LEN w) <= n)%nat).
      { pose proof (drop_shorter HEADER_LEN w ltac:(unfold HEADER_LEN; lia) Hl). lia. }
      destruct (hdr_decode (take HEADER_LEN w)) as [t rid cl pl|v|t]; [apply IH; exact Hs|cbn [fst]; lia|].
      unfold padd. cbn [fst]. pose proof (IH false (be16 (nthN (take HEADER_LEN w) 4) (nthN (take HEADER_LEN w) 5))
        (nthN (take HEADER_LEN w) 6) (drop HEADER_LEN w) x Hs). lia.
Qed.
