(* Async/PeerProofs.v — proofs of the statements of Async/PeerTargets.v (the "Hence" part of C08):
   Part 0: counting complete records the way the gated client does is additive; every reply a parser emits is a
           complete record.
   Part 1: Request::poll_input / poll_fn(poll_input).await once more, with the conservation law for EVERY
           continuation of the client's bytes and a forward invariant for a peer whose gates ask only for replies owed.
   Part 2: the theorems. *)
From Coq Require Import ZArith.
From FV Require Import Base.Bytes Base.BytesLemmas Gen.Generated Codec.Varint Codec.VarintProofs Codec.NV Codec.NVProofs
  Codec.Header Codec.Bodies Codec.Vars Codec.ProtoProofs
  Parser.ReqModel Parser.ReqParamsSpec Parser.ReqWire Parser.ReqTargets Parser.ReqParams Parser.ReqDrive Parser.ReqFinal
  Parser.StreamModel Parser.AbsStream Parser.StreamRefine Parser.StreamSpec Parser.StreamInv Parser.EnvCanon
  Async.ConnWrites Async.ConnTotal Async.Conn Async.ConnReads Async.PeerTargets.
From Coq Require Import ZifyBool ZifyNat ZifyN.
Ltac Zify.zify_post_hook ::= Z.div_mod_to_equations.

(* ------------------------------------------------------------------------------------------ *)
(* Part 0a: counting                                                                            *)
(* ------------------------------------------------------------------------------------------ *)

Definition tally1 (r : rcd) : N * N :=
  (if rt r =? RT_EndRequest then 1 else 0, if (rt r =? RT_GetValuesResult) || (rt r =? RT_Unknown) then 1 else 0).
Fixpoint tally (rs : list rcd) : N * N :=
  match rs with [] => (0, 0) | r :: t => cadd (tally1 r) (tally t) end.

Lemma enc_rcd_shape r rest :
  enc_rcd r ++ rest =
  1 :: rt r :: (rid r / 256 mod 256) :: (rid r mod 256) :: (len (rbody r) / 256 mod 256) :: (len (rbody r) mod 256)
    :: len (rpad r) :: 0 :: rbody r ++ rpad r ++ rest.
Proof. unfold enc_rcd, enc_rcd_rsv, to_be16. cbn [app]. rewrite <- app_assoc. reflexivity. Qed.

Lemma enc_rcd_len r : len (enc_rcd r) = 8 + len (rbody r) + len (rpad r).
Proof.
  rewrite <- (app_nil_r (enc_rcd r)), enc_rcd_shape. rewrite !len_cons, !len_app, len_nil. lia.
Qed.

Lemma count_step f r rest e m : rcd_ok r ->
  count_records (S f) (enc_rcd r ++ rest) e m =
  count_records f rest (e + fst (tally1 r)) (m + snd (tally1 r)).
Proof.
  intros (Ht & Hid & Hb & Hp & _ & _).
  assert (Hdrop : drop (8 + len (rbody r) + len (rpad r)) (enc_rcd r ++ rest) = rest).
  { rewrite <- enc_rcd_len. apply drop_len_app. }
  assert (Hlen : len (enc_rcd r ++ rest) = 8 + len (rbody r) + len (rpad r) + len rest).
  { rewrite len_app, enc_rcd_len. reflexivity. }
  cbn [count_records]. rewrite Hlen.
  destruct (N.ltb_spec (8 + len (rbody r) + len (rpad r) + len rest) 8) as [H|_]; [lia|].
  assert (E4 : nthN (enc_rcd r ++ rest) 4 = len (rbody r) / 256 mod 256) by (rewrite enc_rcd_shape; reflexivity).
  assert (E5 : nthN (enc_rcd r ++ rest) 5 = len (rbody r) mod 256) by (rewrite enc_rcd_shape; reflexivity).
  assert (E6 : nthN (enc_rcd r ++ rest) 6 = len (rpad r)) by (rewrite enc_rcd_shape; reflexivity).
  assert (E1 : nthN (enc_rcd r ++ rest) 1 = rt r) by (rewrite enc_rcd_shape; reflexivity).
  rewrite E4, E5, E6, E1, (be16_to_be16 _ Hb).
  destruct (N.ltb_spec (8 + len (rbody r) + len (rpad r) + len rest) (8 + len (rbody r) + len (rpad r))) as [H|_]; [lia|].
  rewrite Hdrop. unfold tally1. cbn [fst snd].
  f_equal.
  - destruct (rt r =? RT_EndRequest); [reflexivity|apply eq_sym, N.add_0_r].
  - destruct ((rt r =? RT_GetValuesResult) || (rt r =? RT_Unknown)); [reflexivity|apply eq_sym, N.add_0_r].
Qed.

Lemma count_enc : forall rs fuel e m, Forall rcd_ok rs -> (length rs <= fuel)%nat ->
  count_records fuel (enc_rcds rs) e m = (e + fst (tally rs), m + snd (tally rs)).
Proof.
  induction rs as [|r t IH]; intros fuel e m Hok Hf.
  - cbn [enc_rcds flat_map tally fst snd]. rewrite !N.add_0_r. destruct fuel; reflexivity.
  - inversion Hok as [|? ? Hr Ht]; subst. destruct fuel as [|f]; [cbn [length] in Hf; lia|].
    cbn [enc_rcds flat_map]. change (flat_map enc_rcd t) with (enc_rcds t).
    rewrite (count_step f r (enc_rcds t) e m Hr). rewrite IH; [|exact Ht|cbn [length] in Hf; lia].
    cbn [tally]. unfold cadd. cbn [fst snd]. f_equal; lia.
Qed.

Lemma enc_rcds_length rs : (length rs <= length (enc_rcds rs))%nat.
Proof.
  induction rs as [|r t IH]; [cbn [enc_rcds flat_map length]; lia|]. cbn [enc_rcds flat_map length]. rewrite app_length.
  change (flat_map enc_rcd t) with (enc_rcds t). unfold enc_rcd, enc_rcd_rsv. cbn [app length]. lia.
Qed.

Lemma counts_enc rs : Forall rcd_ok rs -> counts (enc_rcds rs) = tally rs.
Proof.
  intros H. unfold counts. rewrite (count_enc rs _ 0 0 H (enc_rcds_length rs)).
  destruct (tally rs) as [a b]. cbn [fst snd]. f_equal; lia.
Qed.

Lemma tally_app a b : tally (a ++ b) = cadd (tally a) (tally b).
Proof.
  induction a as [|r t IH]; cbn [app tally].
  - destruct (tally b) as [x y]. unfold cadd. cbn [fst snd]. f_equal; lia.
  - rewrite IH. unfold cadd. cbn [fst snd]. f_equal; lia.
Qed.

Lemma enc_rcds_app a b : enc_rcds (a ++ b) = enc_rcds a ++ enc_rcds b.
Proof. unfold enc_rcds. apply flat_map_app. Qed.

Lemma counts_app_proof : counts_app_stmt.
Proof.
  intros a b (ra & Ha & ->) (rb & Hb & ->).
  rewrite <- enc_rcds_app, !counts_enc; [apply tally_app|exact Hb|exact Ha|].
  apply Forall_app. split; assumption.
Qed.

Lemma whole_nil : whole [].
Proof. exists []. split; [constructor|reflexivity]. Qed.

Lemma whole_app a b : whole a -> whole b -> whole (a ++ b).
Proof.
  intros (ra & Ha & ->) (rb & Hb & ->). exists (ra ++ rb). split; [apply Forall_app; split; assumption|].
  symmetry. apply enc_rcds_app.
Qed.

Lemma whole_one r : rcd_ok r -> whole (enc_rcd r).
Proof. intros H. exists [r]. split; [constructor; [exact H|constructor]|]. cbn [enc_rcds flat_map]. symmetry. apply app_nil_r. Qed.

Lemma enc_rcd_ok r : rcd_ok r -> bytes_ok (enc_rcd r).
Proof.
  intros (Ht & Hid & Hb & Hp & Hbo & Hpo). unfold enc_rcd, enc_rcd_rsv.
  apply bytes_ok_app. split; [repeat constructor; unfold byte_ok; lia|].
  apply bytes_ok_app. split; [apply to_be16_ok|]. apply bytes_ok_app. split; [apply to_be16_ok|].
  apply bytes_ok_app. split; [repeat constructor; unfold byte_ok; lia|]. apply bytes_ok_app. split; assumption.
Qed.

(* a sequence of complete records consists of bytes *)
Lemma whole_bytes_ok l : whole l -> bytes_ok l.
Proof.
  intros (rs & H & ->). induction H as [|r t Hr Ht IH]; [constructor|].
  cbn [enc_rcds flat_map]. apply bytes_ok_app. split; [apply enc_rcd_ok; exact Hr|exact IH].
Qed.

(* counting only grows along complete records *)
Lemma counts_mono a b : whole a -> whole b -> fst (counts a) <= fst (counts (a ++ b)) /\ snd (counts a) <= snd (counts (a ++ b)).
Proof. intros Ha Hb. rewrite (counts_app_proof a b Ha Hb). unfold cadd. cbn [fst snd]. lia. Qed.

(* ------------------------------------------------------------------------------------------ *)
(* Part 0b: the three kinds of reply are complete records                                        *)
(* ------------------------------------------------------------------------------------------ *)

Lemma unk_whole t id : t < 256 -> id < 65536 -> whole (unk_record t id).
Proof.
  intros Ht Hid. change (unk_record t id) with (enc_rcd (mkRcd RT_Unknown id (unk_encode t) [])).
  apply whole_one. unfold rcd_ok. cbn [rt rid rbody rpad].
  split; [unfold RT_Unknown; lia|]. split; [exact Hid|]. split; [vm_compute; reflexivity|]. split; [vm_compute; reflexivity|].
  split; [|constructor]. unfold unk_encode. constructor; [exact Ht|apply bytes_ok_zeros].
Qed.

Lemma end_whole ps id : ps < 256 -> id < 65536 -> whole (end_record 0 ps id).
Proof.
  intros Hps Hid. change (end_record 0 ps id) with (enc_rcd (mkRcd RT_EndRequest id (end_encode 0 ps) [])).
  apply whole_one. unfold rcd_ok. cbn [rt rid rbody rpad].
  split; [unfold RT_EndRequest; lia|]. split; [exact Hid|]. split; [vm_compute; reflexivity|]. split; [vm_compute; reflexivity|].
  split; [|constructor]. unfold end_encode. apply bytes_ok_app. split; [apply to_be32_ok|].
  apply bytes_ok_app. split; [repeat constructor; exact Hps|apply bytes_ok_zeros].
Qed.

Lemma dec_digits_len fuel : forall n acc, len (dec_digits fuel n acc) <= N.of_nat fuel + len acc.
Proof.
  induction fuel as [|f IH]; intros n acc; cbn [dec_digits]; [lia|].
  destruct (n / 10 =? 0).
  - rewrite len_cons. lia.
  - pose proof (IH (n / 10) ((48 + n mod 10) :: acc)) as H. rewrite len_cons in H. lia.
Qed.

(* for EVERY max_conns: the decimal rendering is cut at 20 digits *)
Lemma var_value_len_any maxc bit : len (var_value maxc bit) <= 20.
Proof.
  unfold var_value. destruct (memN bit PV_MAXCONNS_VALUED).
  - unfold decimal. pose proof (dec_digits_len 20 maxc []) as H. rewrite len_nil in H. lia.
  - unfold PV_CONST_VALUED. cbn [find fst snd]. destruct (4 =? bit); cbn [snd]; unfold len; cbn [length]; lia.
Qed.

Lemma response_body_len vars maxc : len (response_body vars maxc) <= 111.
Proof.
  unfold response_body.
  assert (G : forall tbl, forallb (fun e : bytes * N => len (fst e) <=? 15) tbl = true ->
     len (flat_map (fun e : bytes * N => if N.land vars (snd e) =? snd e
                      then match nv_write (fst e) (var_value maxc (snd e)) with Some b => b | None => [] end
                      else []) tbl) <= 37 * len tbl).
  { induction tbl as [|[nm bit] t IHt]; intros Ht.
    - cbn [flat_map]. rewrite len_nil. lia.
    - cbn [forallb fst] in Ht. apply andb_true_iff in Ht as [Hn Ht]. specialize (IHt Ht).
      cbn [flat_map fst snd]. rewrite len_app, len_cons. pose proof (var_value_len_any maxc bit) as Hv.
      destruct (N.land vars bit =? bit).
      + rewrite nv_write_some by (unfold VARINT_MAX; lia). rewrite !len_app, !vi_write_short by lia.
        rewrite !len_cons, len_nil. lia.
      + rewrite len_nil. lia. }
  pose proof (G PROTOCOL_VARIABLES names_short) as H. change (len PROTOCOL_VARIABLES) with 3 in H. lia.
Qed.

Lemma gv_whole vars maxc : whole (write_response vars maxc).
Proof.
  pose proof (response_body_len vars maxc) as Hl. pose proof (response_body_ok vars maxc) as Hb.
  set (body := response_body vars maxc) in *.
  assert (Hm : len body mod 65536 = len body) by (apply N.mod_small; lia).
  destruct (pad_rule (len body)) as [P1 _].
  assert (E : write_response vars maxc = enc_rcd (mkRcd RT_GetValuesResult 0 body (zeros (auto_padding (len body))))).
  { unfold write_response. fold body. rewrite Hm. unfold enc_rcd, enc_rcd_rsv, hdr_encode. cbn [rt rid rbody rpad].
    rewrite len_zeros. rewrite <- !app_assoc. reflexivity. }
  rewrite E. apply whole_one. unfold rcd_ok. cbn [rt rid rbody rpad]. rewrite len_zeros.
  split; [unfold RT_GetValuesResult; lia|]. split; [lia|]. split; [lia|]. split; [lia|]. split; [exact Hb|apply bytes_ok_zeros].
Qed.

(* ------------------------------------------------------------------------------------------ *)
(* Part 0c: the reply specification produces complete records                                    *)
(* ------------------------------------------------------------------------------------------ *)

Lemma replies_all_whole maxc id : forall fuel st prem pad w, bytes_ok w ->
  whole (replies_all maxc id fuel st prem pad w).
Proof.
  induction fuel as [|f IH]; intros st prem pad w Hw; [apply whole_nil|].
  cbn [replies_all]. destruct (0 <? prem).
  { destruct (len w <? prem); [apply whole_nil|]. apply whole_app; [|apply IH, bytes_ok_drop, Hw].
    destruct st; try apply whole_nil. apply gv_whole. }
  destruct (0 <? pad).
  { destruct (len w <=? pad); [apply whole_nil|]. apply IH, bytes_ok_drop, Hw. }
  destruct (len w <? HEADER_LEN); [apply whole_nil|]. cbv zeta.
  pose proof (bytes_ok_take HEADER_LEN w Hw) as Hh.
  pose proof (bytes_ok_drop HEADER_LEN w Hw) as Hr.
  destruct (hdr_decode (take HEADER_LEN w)) as [t rid cl pl|v|t] eqn:E.
  - apply hdr_decode_ok_inv in E. destruct E as (_ & Eid & _ & _).
    destruct ((t =? RT_AbortRequest) && (rid =? id)); [apply whole_nil|].
    destruct ((t =? RT_BeginRequest) && negb (rid =? id)).
    { apply whole_app; [|apply IH, Hr]. apply end_whole; [unfold PS_CantMpxConn; lia|].
      subst rid. apply be16_lt; apply nthN_lt; exact Hh. }
    destruct ((t =? RT_GetValues) && hdr_is_management t rid); apply IH, Hr.
  - apply whole_nil.
  - apply hdr_decode_badtype_inv in E. subst t. apply whole_app; [|apply IH, Hr].
    apply unk_whole; [apply nthN_lt; exact Hh|apply be16_lt; apply nthN_lt; exact Hh].
Qed.

(* [replies_whole_stmt] as written quantifies over ALL continuations u; it needs the continuation to consist of
   bytes: an unknown record type 300 in the continuation is answered by an UnknownType record with the body byte 300 *)
Definition replies_whole_full : Prop := replies_whole_stmt.
Definition replies_whole_partial_stmt : Prop :=
  forall maxc a u, a_inv a -> bytes_ok u -> whole (a_out a) -> whole (R maxc a u).

Lemma replies_whole_partial_proof : replies_whole_partial_stmt.
Proof.
  intros maxc a u Hinv Hu Ho. unfold R. apply whole_app; [exact Ho|]. apply replies_all_whole.
  apply bytes_ok_app. split; [apply Hinv|exact Hu].
Qed.

(* the counterexample to the statement as written *)
Lemma replies_whole_full_false : ~ replies_whole_full.
Proof.
  intros H. specialize (H 10 (abs ex_resp) [1; 300; 0; 0; 0; 0; 0; 0] (proj2 (new_sparser_pinv _ _))).
  replace (a_out (abs ex_resp)) with (@nil N) in H by (vm_compute; reflexivity).
  specialize (H whole_nil). apply whole_bytes_ok, bytes_okb_ok in H. vm_compute in H. discriminate H.
Qed.

(* ------------------------------------------------------------------------------------------ *)
(* Part 0d: the request parser's output consists of complete records                             *)
(* ------------------------------------------------------------------------------------------ *)

Lemma try_head_whole st sk d : bytes_ok d ->
  match try_head st sk d with
  | HeadOk t id cl pl => id < 65536
  | HeadRet f o => whole o
  end.
Proof.
  intros Hok. destruct (N.ltb_spec (len d) 8) as [Hl|Hl].
  - rewrite try_head_short by exact Hl. apply whole_nil.
  - rewrite try_head_long by exact Hl. pose proof (bytes_ok_take 8 d Hok) as Hh.
    destruct (hdr_decode (take 8 d)) as [t id cl pl|v|t] eqn:E.
    + apply hdr_decode_ok_inv in E. destruct E as (_ & -> & _). apply be16_lt; apply nthN_lt; exact Hh.
    + apply whole_nil.
    + apply hdr_decode_badtype_inv in E. subst t.
      apply unk_whole; [apply nthN_lt; exact Hh|apply be16_lt; apply nthN_lt; exact Hh].
Qed.

Lemma header_drive_whole d : bytes_ok d -> whole (snd (header_drive d)).
Proof.
  intros Hok. rewrite header_drive_eq. pose proof (try_head_whole Header header_skip_to d Hok) as H.
  destruct (try_head Header header_skip_to d) as [t id cl pl|f o]; [|exact H].
  unfold header_body. destruct (t =? RT_BeginRequest).
  - destruct (negb (BeginRequest_LEN =? cl)); [cbn [snd]; apply whole_nil|].
    destruct (len d <? 16); [cbn [snd]; apply whole_nil|].
    destruct (begin_decode (slice 8 16 d)) as [role [[role' flags]|]].
    + destruct (id =? 0); cbn [snd]; apply whole_nil.
    + cbn [snd]. apply end_whole; [unfold PS_UnknownRole; lia|exact H].
  - destruct ((t =? RT_GetValues) && hdr_is_management t id); cbn [snd]; apply whole_nil.
Qed.

Lemma values_finish_whole wrap nxt q vars d o : whole o -> whole (snd (values_finish wrap nxt q vars d o)).
Proof. intros H. unfold values_finish. destruct (len d <? q); exact H. Qed.

Lemma values_drive_whole maxc wrap nxt vars p q d : whole (snd (values_drive maxc wrap nxt vars p q d)).
Proof.
  rewrite values_drive_eq. destruct (0 <? p).
  - destruct (nv_run (take (N.min (len d) p) d)) as [ps rest].
    destruct (len d <? p); [cbn [snd]; apply whole_nil|]. apply values_finish_whole, gv_whole.
  - apply values_finish_whole, whole_nil.
Qed.

Lemma stage_head_whole i d : bytes_ok d -> whole (snd (stage_head i d)).
Proof.
  intros Hok. unfold stage_head. pose proof (try_head_whole (Params i 0 0) (params_skip_to i) d Hok) as H.
  destruct (try_head (Params i 0 0) (params_skip_to i) d) as [t id cl pl|f o]; [|exact H].
  cbn [snd]. unfold sh_out. cbv zeta.
  destruct ((t =? RT_Params) && (id =? r_id (ireq i))); [apply whole_nil|].
  destruct ((t =? RT_AbortRequest) && (id =? r_id (ireq i))) eqn:EA.
  { apply andb_true_iff in EA as [_ EA]. apply N.eqb_eq in EA. rewrite <- EA.
    apply end_whole; [unfold PS_RequestComplete; lia|exact H]. }
  destruct ((t =? RT_BeginRequest) && negb (id =? r_id (ireq i))); [|apply whole_nil].
  apply end_whole; [unfold PS_CantMpxConn; lia|exact H].
Qed.

Lemma stage_pad_whole i q d : bytes_ok d -> whole (snd (stage_pad i q d)).
Proof.
  intros Hok. unfold stage_pad. destruct (0 <? q); [|apply stage_head_whole, Hok].
  destruct (len d <=? q); [cbn [snd]; apply whole_nil|apply stage_head_whole, bytes_ok_drop, Hok].
Qed.

Lemma params_drive_whole norm i p q d : bytes_ok d -> whole (snd (params_drive norm i p q d)).
Proof.
  intros Hok. rewrite params_drive_eq. destruct (0 <? p); [|apply stage_pad_whole, Hok].
  destruct (len d <? p).
  - destruct (parse_stream norm i d false) as [[i' c]|]; [|cbn [snd]; apply whole_nil].
    destruct (p <? c); [cbn [snd]; apply whole_nil|]. destruct (len d <? c); cbn [snd]; apply whole_nil.
  - destruct (parse_stream norm i (take p d) true) as [[i' c]|]; [|cbn [snd]; apply whole_nil].
    destruct (negb (c =? p)); [cbn [snd]; apply whole_nil|apply stage_pad_whole, bytes_ok_drop, Hok].
Qed.

Lemma drive1_whole norm maxc s d : bytes_ok d -> whole (snd (drive1 norm maxc s d)).
Proof.
  intros Hok. destruct s as [|p q|vars p q|i p q|i p q|i vars p q|r p q|r|e]; cbn [drive1 snd];
    try apply whole_nil.
  - apply header_drive_whole, Hok.
  - apply values_drive_whole.
  - apply params_drive_whole, Hok.
  - apply values_drive_whole.
Qed.

Lemma drive_whole norm maxc : forall f s d out r s' o, state_ok s -> bytes_ok d -> len d < SIZE_LIMIT -> whole out ->
  drive norm maxc f s d out = DOk r s' o -> whole o.
Proof.
  induction f as [|f IH]; intros s d out r s' o Hs Hok Hsz Ho E; [discriminate E|].
  rewrite drive_S in E. pose proof (drive1_post norm maxc (F_S1 norm) s d Hs Hok Hsz) as P.
  pose proof (drive1_whole norm maxc s d Hok) as Hw.
  destruct (drive1 norm maxc s d) as [[r0 s0|r0 s0|n] o0]; cbn [step_post snd] in P, Hw.
  - injection E as <- <- <-. apply whole_app; assumption.
  - destruct P as (P1 & P2 & P3 & P4). destruct r0 as [|b r0'].
    + injection E as <- <- <-. apply whole_app; assumption.
    + apply (IH s0 (b :: r0') (out ++ o0) r s' o); [apply P1|eapply suffix_ok; eassumption| |apply whole_app; assumption|exact E].
      pose proof (suffix_len _ _ P3). lia.
  - contradiction.
Qed.

Lemma parse_out_whole_proof : parse_out_whole_stmt.
Proof.
  intros norm maxc p new p' d out (Hs & _ & Hh & Hl & Hc) Hn Hf E.
  unfold parse in E. unfold input_space in Hf.
  destruct (cap p - len (held p) <? len new); [discriminate E|].
  destruct (drive_all norm maxc (st p) (held p ++ new)) as [rest s' o|n|] eqn:ED; try discriminate E.
  assert (Ho : whole o).
  { unfold drive_all in ED. apply (drive_whole norm maxc _ _ _ [] _ _ _ Hs) in ED; [exact ED| | |apply whole_nil].
    - apply bytes_ok_app; split; assumption.
    - rewrite len_app. lia. }
  destruct (len (held p ++ new) <? len rest); [discriminate E|].
  destruct (negb (is_final s') && (len rest =? cap p)); injection E as <- <- <-; exact Ho.
Qed.

(* ------------------------------------------------------------------------------------------ *)
(* Part 1a: the transport's poll_read, by segment                                               *)
(* ------------------------------------------------------------------------------------------ *)

Notation flat := (flat_map (fun s : N * N * bytes => snd s)).

Definition gate_met (c : N * N) (ge gm : N) : Prop := ge <= fst c /\ gm <= snd c.

Lemma skip_split s : exists E, s = E ++ skip_empty_segs s /\ flat E = [].
Proof.
  induction s as [|[[ge gm] b] t IH]; [exists []; split; reflexivity|].
  destruct b as [|x b]; [|exists []; split; reflexivity].
  destruct IH as (E & H1 & H2). exists ((ge, gm, []) :: E). cbn [skip_empty_segs]. split.
  - cbn [app]. f_equal. exact H1.
  - cbn [flat_map snd app]. exact H2.
Qed.

Lemma skip_app_empty E s : flat E = [] -> skip_empty_segs (E ++ s) = skip_empty_segs s.
Proof.
  induction E as [|[[ge gm] b] t IH]; intros H; [reflexivity|].
  cbn [flat_map snd] in H. apply app_eq_nil in H. destruct H as [-> H]. cbn [app skip_empty_segs]. apply IH, H.
Qed.

(* what one poll_read does to the segment list; a delivery or a block names the segment and its gate *)
Lemma t_poll_read_segs L w p w' : t_poll_read L w = (p, w') ->
  match p with
  | PReady (inl b) =>
      (b = [] /\ exists E, flat E = [] /\ segs w = E ++ segs w') \/
      (exists E ge gm bb rest n, flat E = [] /\ segs w = E ++ (ge, gm, bb) :: rest /\ bb <> [] /\ b = take n bb /\
          segs w' = (ge, gm, drop n bb) :: rest /\ gate_met (counts (wlog w)) ge gm)
  | PBlock => exists E ge gm bb rest, flat E = [] /\ segs w = E ++ (ge, gm, bb) :: rest /\ bb <> [] /\
                ~ gate_met (counts (wlog w)) ge gm
  | _ => exists E, flat E = [] /\ segs w = E ++ segs w'
  end.
Proof.
  unfold t_poll_read. destruct (L =? 0).
  { intros E. injection E as <- <-. left. split; [reflexivity|]. exists []. split; reflexivity. }
  destruct (skip_split (segs w)) as (E0 & HE & HF).
  destruct (skip_empty_segs (segs w)) as [|[[ge gm] b] rest] eqn:Es.
  { intros E. injection E as <- <-. left. split; [reflexivity|]. exists E0. split; [exact HF|exact HE]. }
  pose proof (skip_head_nonempty _ _ _ _ _ Es) as Hb.
  destruct (count_records (length (wlog w)) (wlog w) 0 0) as [e m] eqn:Ec.
  assert (Hc : counts (wlog w) = (e, m)) by exact Ec.
  destruct ((e <? ge) || (m <? gm)) eqn:Eg.
  { intros E. injection E as <- <-. exists E0, ge, gm, b, rest. split; [exact HF|]. split; [exact HE|]. split; [exact Hb|].
    rewrite Hc. unfold gate_met. cbn [fst snd]. lia. }
  assert (Hmet : gate_met (counts (wlog w)) ge gm) by (rewrite Hc; unfold gate_met; cbn [fst snd]; lia).
  assert (WAKE : forall rs', exists E, flat E = [] /\ segs w = E ++ segs (w_set_r w rs' ((ge, gm, b) :: rest) (consumed w))).
  { intros rs'. exists E0. split; [exact HF|exact HE]. }
  assert (READ : forall rs' n,
     (take n b = [] /\ exists E, flat E = [] /\ segs w = E ++ segs (w_set_r w rs' ((ge, gm, drop n b) :: rest) (consumed w + n))) \/
     (exists E ge0 gm0 bb rest0 n0, flat E = [] /\ segs w = E ++ (ge0, gm0, bb) :: rest0 /\ bb <> [] /\ take n b = take n0 bb /\
          segs (w_set_r w rs' ((ge, gm, drop n b) :: rest) (consumed w + n)) = (ge0, gm0, drop n0 bb) :: rest0 /\
          gate_met (counts (wlog w)) ge0 gm0)).
  { intros rs' n. right. exists E0, ge, gm, b, rest, n. split; [exact HF|]. split; [exact HE|]. split; [exact Hb|].
    split; [reflexivity|]. split; [reflexivity|exact Hmet]. }
  destruct (rscript w) as [|r t]; cbv beta iota zeta.
  - destruct (L =? 0); [intros E; injection E as <- <-; apply WAKE|].
    destruct (L =? R_ERR); intros E; injection E as <- <-; [apply WAKE|apply READ].
  - destruct (r =? 0); [intros E; injection E as <- <-; apply WAKE|].
    destruct (r =? R_ERR); intros E; injection E as <- <-; [apply WAKE|apply READ].
Qed.

Lemma gated_next w : gated w ->
  exists ge gm, next_gate w = Some (ge, gm) /\ (fst (counts (wlog w)) < ge \/ snd (counts (wlog w)) < gm).
Proof.
  intros G. specialize (G 1 ltac:(lia)). apply t_poll_read_segs in G.
  destruct G as (E & ge & gm & bb & rest & HF & HS & Hbb & Hn). exists ge, gm. split.
  - unfold next_gate. rewrite HS, (skip_app_empty _ _ HF). destruct bb as [|x bb]; [contradiction|reflexivity].
  - unfold gate_met in Hn. lia.
Qed.

(* ------------------------------------------------------------------------------------------ *)
(* Part 1b: the invariant of a peer whose gates ask only for replies owed                        *)
(* ------------------------------------------------------------------------------------------ *)
Section Peer.
Variable maxc : N.

(* [new]: bytes read but not yet fed to the parser.  Every gate of a segment still to come is met by the log
   completed by the replies owed for the bytes before that segment; the log so completed is a sequence of records *)
Definition G (a : ast) (log new : bytes) (sg : list (N * N * bytes)) : Prop :=
  forall pre ge gm b post, sg = pre ++ (ge, gm, b) :: post -> b <> [] ->
    gate_met (counts (log ++ R maxc a (new ++ flat pre))) ge gm.
Definition W (a : ast) (log new : bytes) : Prop := forall x, bytes_ok x -> whole (log ++ R maxc a (new ++ x)).
Definition GW (a : ast) (log new : bytes) (sg : list (N * N * bytes)) : Prop := G a log new sg /\ W a log new.

Lemma GW_step a a' log fl new sg : (forall u, R maxc a (new ++ u) = fl ++ R maxc a' u) ->
  GW a log new sg -> GW a' (log ++ fl) [] sg.
Proof.
  intros H [HG HW]. split.
  - intros pre ge gm b post E Hb. cbn [app]. rewrite <- app_assoc, <- H. apply (HG pre ge gm b post E Hb).
  - intros x Hx. cbn [app]. rewrite <- app_assoc, <- H. apply HW, Hx.
Qed.

Lemma GW_step0 a a' log new sg : (forall u, R maxc a (new ++ u) = R maxc a' u) -> GW a log new sg -> GW a' log [] sg.
Proof. intros H HI. rewrite <- (app_nil_r log). apply (GW_step a a' log [] new sg); [exact H|exact HI]. Qed.

Lemma GW_skip a log new E s : flat E = [] -> GW a log new (E ++ s) -> GW a log new s.
Proof.
  intros HF [HG HW]. split; [|exact HW]. intros pre ge gm b post Es Hb.
  specialize (HG (E ++ pre) ge gm b post). rewrite flat_map_app, HF in HG. cbn [app] in HG. apply HG; [|exact Hb].
  rewrite Es, app_assoc. reflexivity.
Qed.

Lemma GW_whole_log a log sg : R maxc a [] = [] -> GW a log [] sg -> whole log.
Proof.
  intros Hq [_ HW]. specialize (HW [] ltac:(constructor)). cbn [app] in HW. rewrite Hq, app_nil_r in HW. exact HW.
Qed.

(* a delivery: the gate of the segment read from was met when it was read, and counting only grows *)
Lemma GW_read a log E ge gm bb rest n : a_inv a -> a_out a = [] -> R maxc a [] = [] -> bytes_ok (take n bb) ->
  flat E = [] -> GW a log [] (E ++ (ge, gm, bb) :: rest) -> gate_met (counts log) ge gm ->
  GW a log (take n bb) ((ge, gm, drop n bb) :: rest).
Proof.
  intros Ha Ho Hq Hb HF HI Hm. pose proof (GW_whole_log _ _ _ Hq HI) as Hlog. destruct HI as [HG HW]. split.
  - intros pre ge' gm' b' post Es Hb'. destruct pre as [|s0 pre2].
    + cbn [app] in Es. injection Es as <- <- _ _. cbn [flat_map]. rewrite app_nil_r.
      assert (Hw : whole (R maxc a (take n bb))).
      { apply replies_whole_partial_proof; [exact Ha|exact Hb|rewrite Ho; apply whole_nil]. }
      pose proof (counts_mono log _ Hlog Hw) as Hmo. unfold gate_met in *. lia.
    + cbn [app] in Es. injection Es as <- Erest.
      specialize (HG (E ++ (ge, gm, bb) :: pre2) ge' gm' b' post).
      rewrite flat_map_app, HF in HG. cbn [app flat_map snd] in HG.
      cbn [flat_map snd]. rewrite app_assoc, take_drop. apply HG; [|exact Hb'].
      rewrite Erest, <- app_assoc. reflexivity.
  - intros x Hx. apply (HW (take n bb ++ x)). apply bytes_ok_app. split; assumption.
Qed.

(* a block is impossible *)
Lemma GW_block a log E ge gm bb rest : R maxc a [] = [] -> flat E = [] -> bb <> [] ->
  GW a log [] (E ++ (ge, gm, bb) :: rest) -> gate_met (counts log) ge gm.
Proof.
  intros Hq HF Hbb [HG _]. specialize (HG E ge gm bb rest eq_refl Hbb). rewrite HF in HG. cbn [app] in HG.
  rewrite Hq, app_nil_r in HG. exact HG.
Qed.

Lemma GW_init a log sg : a_inv a -> whole log -> whole (a_out a) -> bytes_ok (flat sg) ->
  gates_owed_only maxc a (counts log) sg -> GW a log [] sg.
Proof.
  intros Ha Hl Ho Hb Hg. split.
  - intros pre ge gm b post Es Hbb. cbn [app].
    assert (Hp : bytes_ok (flat pre)).
    { rewrite Es, flat_map_app in Hb. apply bytes_ok_app in Hb. apply Hb. }
    rewrite (counts_app_proof log _ Hl (replies_whole_partial_proof maxc a _ Ha Hp Ho)).
    exact (Hg pre ge gm b post Es Hbb).
  - intros x Hx. cbn [app]. apply whole_app; [exact Hl|apply replies_whole_partial_proof; assumption].
Qed.

(* ------------------------------------------------------------------------------------------ *)
(* Part 1c: poll_input once more: the conservation law for every continuation, and the invariant *)
(* ------------------------------------------------------------------------------------------ *)

(* [rd]: the bytes taken from the client, [fl]: the bytes appended to the log; for EVERY continuation u *)
Definition law (new : bytes) (r : rstate) (w : world) (r' : rstate) (w' : world) : Prop :=
  exists rd fl, remaining w = rd ++ remaining w' /\ wlog w' = wlog w ++ fl /\
    forall u, R maxc (abs (rsp r)) (new ++ rd ++ u) = fl ++ R maxc (abs (rsp r')) u.

Definition inv (r : rstate) (w : world) (new : bytes) : Prop := GW (abs (rsp r)) (wlog w) new (segs w).

Lemma law_refl r w : law [] r w r w.
Proof. exists [], []. split; [reflexivity|]. split; [symmetry; apply app_nil_r|]. intros u. reflexivity. Qed.

Lemma law_trans new r w r1 w1 b w1' r2 w2 :
  law new r w r1 w1 -> remaining w1 = b ++ remaining w1' -> wlog w1' = wlog w1 -> law b r1 w1' r2 w2 ->
  law new r w r2 w2.
Proof.
  intros (rd1 & fl1 & A1 & A2 & A3) Hb Hl (rd2 & fl2 & B1 & B2 & B3).
  exists (rd1 ++ b ++ rd2), (fl1 ++ fl2). split; [rewrite A1, Hb, B1, <- !app_assoc; reflexivity|].
  split; [rewrite B2, Hl, A2, app_assoc; reflexivity|].
  intros u. rewrite <- !app_assoc. rewrite A3, B3, app_assoc. reflexivity.
Qed.

Lemma inv_world r w w' new : wlog w' = wlog w -> segs w' = segs w -> inv r w new -> inv r w' new.
Proof. intros H1 H2 H. unfold inv. rewrite H1, H2. exact H. Qed.

Lemma input_loop_peer : forall fuel dest new r w p r' w',
  pinv (rsp r) -> bytes_ok (remaining w) -> bytes_ok new -> len new <= sinput_space (rsp r) ->
  (dest <> None -> stream_buffer (rsp r) = []) -> dest <> Some 0 ->
  (length (wscript w) + length (remaining w) + 2 <= fuel)%nat ->
  input_loop maxc fuel dest new r w = (p, r', w') ->
  law new r w r' w' /\ (inv r w new -> p <> PBlock /\ inv r' w' []).
Proof.
  induction fuel as [|f IH]; intros dest new r w p r' w' Hinv Hrem Hnew Hfit Hd Hd0 Hf E; [lia|].
  cbn [input_loop] in E.
  pose proof (sparse_step maxc (rsp r) new dest Hinv Hnew Hfit Hd) as SS.
  destruct (sparse maxc (rsp r) new dest) as [p1 s|p1 e s|n] eqn:ESP; [| |contradiction].
  2:{ injection E as <- <- <-. destruct SS as (SO & _). split.
      - exists [], []. split; [reflexivity|]. split; [symmetry; apply app_nil_r|]. intros u. cbn [app rsp].
        apply (so_R _ _ _ _ _ _ SO).
      - intros HI. split; [discriminate|]. unfold inv. cbn [rsp wlog segs].
        apply (GW_step0 _ _ _ _ _ (so_R _ _ _ _ _ _ SO) HI). }
  destruct SS as (SO & Hend).
  destruct (s_end s || (0 <? s_stream s)) eqn:Edone.
  { assert (DONE : forall r2, rsp r2 = p1 -> law new r w r2 w /\ (inv r w new -> inv r2 w [])).
    { intros r2 H2. split.
      - exists [], []. split; [reflexivity|]. split; [symmetry; apply app_nil_r|]. intros u. cbn [app]. rewrite H2.
        apply (so_R _ _ _ _ _ _ SO).
      - intros HI. unfold inv. rewrite H2. apply (GW_step0 _ _ _ _ _ (so_R _ _ _ _ _ _ SO) HI). }
    match type of E with (_, (if ?c then _ else _), _) = _ => destruct c end; injection E as <- <- <-;
      (match goal with |- law _ _ _ ?rr _ /\ _ => destruct (DONE rr eq_refl) as [D1 D2] end; split; [exact D1|]; intros HI; split; [discriminate|apply D2, HI]). }
  apply orb_false_iff in Edone. destruct Edone as [Eend Estr].
  assert (Hz : s_stream s = 0) by (destruct (N.ltb_spec 0 (s_stream s)); [discriminate|lia]).
  assert (Hsb1 : stream_buffer p1 = stream_buffer (rsp r)).
  { destruct dest as [c|].
    - destruct (so_some _ _ _ _ _ _ SO c eq_refl) as (A & _). rewrite A. symmetry. apply Hd. discriminate.
    - destruct (so_none _ _ _ _ _ _ SO eq_refl) as (_ & d & B & C). rewrite B.
      assert (d = []) by (apply len_zero_nil; lia). subst d. apply app_nil_r. }
  pose proof (so_inv _ _ _ _ _ _ SO) as [RI1 I1].
  destruct (compress_views p1 RI1) as (V1 & V2 & V3 & V4 & V5 & V6).
  pose proof (compress_abs p1 RI1) as CA.
  set (r2 := mkR (compress p1) (rwriteable r) (rlock r) (raborted r)) in E.
  assert (Hinv2 : pinv (rsp r2)).
  { split; [exact V1|]. cbn [r2 rsp]. rewrite CA. apply compress_inv. exact I1. }
  destruct (poll_output (S f) r2 w) as [[po r3] w0] eqn:EPO.
  destruct (poll_output_abs _ _ _ _ _ _ EPO Hinv2 ltac:(lia))
    as (fl & P1 & P2 & P3 & P4 & P5 & P6 & P7 & P8 & P9 & P10 & P11 & P12).
  cbn [r2 rsp rwriteable] in P4, P5, P6, P7, P8, P9, P11.
  pose proof (same_but_io_remaining _ _ P2) as Prem.
  assert (Psegs : segs w0 = segs w) by apply P2.
  assert (PR : forall u, R maxc (abs (rsp r)) (new ++ u) = fl ++ R maxc (abs (rsp r3)) u).
  { intros u. rewrite (so_R _ _ _ _ _ _ SO u), P5.
    rewrite <- (R_split maxc (abs (compress p1)) fl (output_buffer (rsp r3)) u) by exact P4.
    rewrite CA. reflexivity. }
  assert (HQ : output_buffer (rsp r3) = [] -> R maxc (abs (rsp r3)) [] = []).
  { intros Ho. rewrite P5, Ho, CA, R_set_out_compress.
    apply (sparse_quiet maxc (rsp r) new dest p1 s Hinv Hnew Hfit Hd Hd0 ESP Eend Hz). }
  assert (LAW0 : forall w1, remaining w1 = remaining w0 -> wlog w1 = wlog w0 -> law new r w r3 w1).
  { intros w1 Q1 Q2. exists [], fl. split; [rewrite Q1, Prem; reflexivity|]. split; [rewrite Q2; exact P1|].
    intros u. cbn [app]. apply PR. }
  assert (INV0 : inv r w new -> GW (abs (rsp r3)) (wlog w0) [] (segs w0)).
  { intros HI. rewrite P1, Psegs. apply (GW_step _ _ _ _ _ _ PR HI). }
  assert (Hsb3 : stream_buffer (rsp r3) = stream_buffer (rsp r)) by (rewrite P6, V2; exact Hsb1).
  destruct po as [[u|k]| |].
  - destruct (t_poll_read (sinput_space (rsp r3)) w0) as [pr w1] eqn:ER.
    destruct (t_poll_read_rem _ _ _ _ ER) as (T1 & T2 & T3 & T4).
    pose proof (t_poll_read_segs _ _ _ _ ER) as S2.
    destruct pr as [[b|k]| |]; cbv beta iota in S2.
    + destruct T4 as (Tr & Tl & Tnil). destruct b as [|x b'].
      * injection E as <- <- <-. split; [apply LAW0; [rewrite Tr; reflexivity|exact T1]|].
        intros HI. split; [discriminate|]. unfold inv. rewrite T1.
        destruct S2 as [(_ & E0 & HF & HS)|(E0 & ge & gm & bb & rest & n & HF & HS & Hbb & Hb & HS' & Hm)].
        -- apply (GW_skip _ _ _ E0 _ HF). pose proof (INV0 HI) as H0; rewrite HS in H0; exact H0.
        -- rewrite HS', Hb. apply (GW_read _ _ E0); [apply P10|exact P12|apply HQ, P12|rewrite <- Hb; constructor|exact HF| |exact Hm].
           pose proof (INV0 HI) as H0; rewrite HS in H0; exact H0.
      * assert (Hb : bytes_ok (x :: b' ++ remaining w1)) by (rewrite <- Prem, Tr in Hrem; exact Hrem).
        change (x :: b' ++ remaining w1) with ((x :: b') ++ remaining w1) in Hb. apply bytes_ok_app in Hb.
        assert (Hf' : (length (wscript w1) + length (remaining w1) + 2 <= f)%nat).
        { rewrite T2. pose proof (suffix_length _ _ P3). rewrite <- Prem, Tr in Hf.
          cbn [app length] in Hf. rewrite app_length in Hf. lia. }
        assert (Hd3 : dest <> None -> stream_buffer (rsp r3) = []) by (intros Hx; rewrite Hsb3; apply Hd; exact Hx).
        destruct (IH dest (x :: b') r3 w1 p r' w' P10 (proj2 Hb) (proj1 Hb) Tl Hd3 Hd0 Hf' E) as (LAW2 & INV2).
        split; [apply (law_trans new r w r3 w0 (x :: b') w1 r' w' (LAW0 w0 eq_refl eq_refl) Tr T1 LAW2)|].
        intros HI. apply INV2. unfold inv. rewrite T1.
        destruct S2 as [(Hbe & _)|(E0 & ge & gm & bb & rest & n & HF & HS & Hbb & Hbt & HS' & Hm)]; [discriminate Hbe|].
        rewrite HS', Hbt. apply (GW_read _ _ E0); [apply P10|exact P12|apply HQ, P12|rewrite <- Hbt; exact (proj1 Hb)|exact HF| |exact Hm].
        pose proof (INV0 HI) as H0; rewrite HS in H0; exact H0.
    + destruct T4 as [Tr Tk]. injection E as <- <- <-. split; [apply LAW0; assumption|].
      intros HI. split; [discriminate|]. unfold inv. rewrite T1. destruct S2 as (E0 & HF & HS).
      apply (GW_skip _ _ _ E0 _ HF). pose proof (INV0 HI) as H0; rewrite HS in H0; exact H0.
    + injection E as <- <- <-. split; [apply LAW0; assumption|].
      intros HI. split; [discriminate|]. unfold inv. rewrite T1. destruct S2 as (E0 & HF & HS).
      apply (GW_skip _ _ _ E0 _ HF). pose proof (INV0 HI) as H0; rewrite HS in H0; exact H0.
    + destruct T4 as [-> Tg]. injection E as <- <- <-. split; [apply LAW0; reflexivity|].
      intros HI. exfalso. destruct S2 as (E0 & ge & gm & bb & rest & HF & HS & Hbb & Hn). apply Hn.
      apply (GW_block (abs (rsp r3)) _ E0 ge gm bb rest (HQ P12) HF Hbb). pose proof (INV0 HI) as H0; rewrite HS in H0; exact H0.
  - injection E as <- <- <-. split; [apply LAW0; reflexivity|]. intros HI. split; [discriminate|apply INV0, HI].
  - injection E as <- <- <-. split; [apply LAW0; reflexivity|]. intros HI. split; [discriminate|apply INV0, HI].
  - contradiction.
Qed.
Lemma poll_input_peer fuel dest r w p r' w' :
  pinv (rsp r) -> bytes_ok (remaining w) -> (length (wscript w) + length (remaining w) + 2 <= fuel)%nat ->
  poll_input maxc fuel dest r w = (p, r', w') ->
  law [] r w r' w' /\ (inv r w [] -> p <> PBlock /\ inv r' w' []).
Proof.
  intros Hinv Hrem Hf E.
  assert (SAME : law [] r w r w /\ (inv r w [] -> PReady (inl (0, @nil N)) <> @PBlock (N * bytes + N) /\ inv r w [])).
  { split; [apply law_refl|]. intros HI. split; [discriminate|exact HI]. }
  assert (EMPTY : stream_buffer (rsp r) = [] -> dest <> Some 0 ->
    (match poll_output fuel r w with
     | (PReady (inl _), r1, w1) => input_loop maxc fuel dest [] r1 w1
     | (PReady (inr k), r1, w1) => (PReady (inr k), r1, w1)
     | (PWake, r1, w1) => (PWake, r1, w1)
     | (PBlock, r1, w1) => (PBlock, r1, w1)
     end) = (p, r', w') ->
    law [] r w r' w' /\ (inv r w [] -> p <> PBlock /\ inv r' w' [])).
  { intros Esb Hd0 E1.
    destruct (poll_output fuel r w) as [[po r1] w1] eqn:EPO.
    destruct (poll_output_abs _ _ _ _ _ _ EPO Hinv ltac:(lia))
      as (fl & P1 & P2 & P3 & P4 & P5 & P6 & P7 & P8 & P9 & P10 & P11 & P12).
    pose proof (same_but_io_remaining _ _ P2) as Prem.
    assert (Psegs : segs w1 = segs w) by apply P2.
    assert (PR : forall u, R maxc (abs (rsp r)) ([] ++ u) = fl ++ R maxc (abs (rsp r1)) u).
    { intros u. cbn [app]. rewrite P5. apply R_split. exact P4. }
    assert (LAW0 : law [] r w r1 w1).
    { exists [], fl. split; [rewrite Prem; reflexivity|]. split; [exact P1|]. intros u. apply PR. }
    assert (INV0 : inv r w [] -> inv r1 w1 []).
    { intros HI. unfold inv. rewrite P1, Psegs. apply (GW_step _ _ _ _ _ _ PR HI). }
    destruct po as [[u|k]| |].
    - pose proof (suffix_length _ _ P3) as Hsl.
      destruct (input_loop_peer fuel dest [] r1 w1 p r' w' P10 ltac:(rewrite Prem; exact Hrem) ltac:(constructor)
                  ltac:(rewrite len_nil; lia) ltac:(intros _; rewrite P6; exact Esb) Hd0 ltac:(rewrite Prem; lia) E1) as (LAW2 & INV2).
      split; [apply (law_trans [] r w r1 w1 [] w1 r' w' LAW0 eq_refl eq_refl LAW2)|].
      intros HI. apply INV2, INV0, HI.
    - injection E1 as <- <- <-. split; [exact LAW0|]. intros HI. split; [discriminate|apply INV0, HI].
    - injection E1 as <- <- <-. split; [exact LAW0|]. intros HI. split; [discriminate|apply INV0, HI].
    - contradiction. }
  destruct dest as [[|pc]|].
  - rewrite poll_input_zero in E. injection E as <- <- <-. exact SAME.
  - unfold poll_input in E. cbv zeta in E. destruct (stream_buffer (rsp r)) as [|x sb] eqn:Esb.
    + apply EMPTY; [reflexivity|discriminate|exact E].
    + cbv beta iota in E. injection E as <- <- <-.
      set (n := N.min (N.pos pc) (len (x :: sb))).
      destruct Hinv as [HRI HI0].
      pose proof (consume_stream_abs (rsp r) n HRI) as CA.
      assert (CR : forall u, R maxc (abs (rsp r)) ([] ++ u) = R maxc (abs (consume_stream (rsp r) n)) u).
      { intros u. rewrite CA. symmetry. apply (consume_stream_law maxc (abs (rsp r)) n u). }
      split.
      * exists [], []. split; [reflexivity|]. split; [symmetry; apply app_nil_r|]. intros u. cbn [rsp]. apply CR.
      * intros HI. split; [discriminate|]. unfold inv. cbn [rsp]. apply (GW_step0 _ _ _ _ _ CR HI).
  - unfold poll_input in E. cbv zeta in E. destruct (stream_buffer (rsp r)) as [|x sb] eqn:Esb.
    + apply EMPTY; [reflexivity|discriminate|exact E].
    + cbv beta iota in E. injection E as <- <- <-. exact SAME.
Qed.

(* poll_fn(|cx| poll_input(cx, dest)).await *)
Definition ai_peer (r : rstate) (w : world) (x : res ((N * bytes + N) * rstate)) : Prop :=
  match x with
  | Ok (_, r') w' => law [] r w r' w' /\ (inv r w [] -> inv r' w' [])
  | Halt o w' => exists r', law [] r w r' w' /\
                   (o = ODeadlock -> gated w' /\ R maxc (abs (rsp r')) [] = []) /\
                   (inv r w [] -> o <> ODeadlock)
  end.

Theorem await_input_peer : forall fuel dest r w, pinv (rsp r) -> bytes_ok (remaining w) ->
  ai_peer r w (await_input maxc fuel dest r w).
Proof.
  induction fuel as [|f IH]; intros dest r w Hinv Hrem.
  { cbn [await_input ai_peer]. exists r. split; [apply law_refl|]. split; discriminate. }
  cbn [await_input].
  destruct (poll_input maxc (io_fuel w (len (buffer (rsp r)))) dest r w) as [[p r1] w1] eqn:EP.
  assert (Hfu : (length (wscript w) + length (remaining w) + 2 <= io_fuel w (len (buffer (rsp r))))%nat)
    by (rewrite io_fuel_remaining; lia).
  destruct (poll_input_reads maxc _ dest r w p r1 w1 Hinv Hrem Hfu EP) as (dl & A & C & _).
  destruct (poll_input_peer _ dest r w p r1 w1 Hinv Hrem Hfu EP) as (LAW & INV).
  assert (RETRY : forall w1', remaining w1' = remaining w1 -> wlog w1' = wlog w1 -> segs w1' = segs w1 ->
            ai_peer r w (await_input maxc f dest r1 w1')).
  { intros w1' Q1 Q2 Q3.
    specialize (IH dest r1 w1' (ac_inv _ _ _ _ _ _ _ A) ltac:(rewrite Q1; apply (acct_bytes_ok _ _ _ _ _ _ _ A Hrem))).
    assert (INV1 : inv r w [] -> inv r1 w1' []).
    { intros HI. apply (inv_world r1 w1 w1' [] Q2 Q3). apply (INV HI). }
    destruct (await_input maxc f dest r1 w1') as [[res r2] w2|o w2]; cbn [ai_peer] in *.
    - destruct IH as (L2 & I2). split; [|intros HI; apply I2, INV1, HI].
      apply (law_trans [] r w r1 w1 [] w1' r2 w2 LAW); [rewrite Q1; reflexivity|exact Q2|exact L2].
    - destruct IH as (r2 & L2 & D2 & I2). exists r2. split; [|split; [exact D2|intros HI; apply I2, INV1, HI]].
      apply (law_trans [] r w r1 w1 [] w1' r2 w2 LAW); [rewrite Q1; reflexivity|exact Q2|exact L2]. }
  destruct p as [x| |].
  - cbn [ai_peer]. split; [exact LAW|]. intros HI. apply (INV HI).
  - unfold on_wake. cbn [andb]. apply RETRY; reflexivity.
  - unfold on_block. destruct (negb (stop_at w1 =? 0) && negb (stopped w1)).
    + apply RETRY; reflexivity.
    + cbn [ai_peer]. exists r1. split; [exact LAW|]. split.
      * intros _. cbn [pi_case] in C. destruct C as (_ & _ & _ & _ & C5 & C6). split; assumption.
      * intros HI. exfalso. apply (proj1 (INV HI)). reflexivity.
Qed.
End Peer.

(* ------------------------------------------------------------------------------------------ *)
(* Part 2: the theorems                                                                         *)
(* ------------------------------------------------------------------------------------------ *)

Theorem counts_app : counts_app_stmt.
Proof. exact counts_app_proof. Qed.
Print Assumptions counts_app.

Theorem replies_whole_partial : replies_whole_partial_stmt.
Proof. exact replies_whole_partial_proof. Qed.
Print Assumptions replies_whole_partial.

Theorem parse_out_whole : parse_out_whole_stmt.
Proof. exact parse_out_whole_proof. Qed.
Print Assumptions parse_out_whole.

Theorem read_block_counts : read_block_counts_stmt.
Proof.
  intros maxc fuel dest r w w' Hinv Hrem _ Hwl Hwo E.
  pose proof (await_input_peer maxc fuel dest r w Hinv Hrem) as H. rewrite E in H. cbn [ai_peer] in H.
  destruct H as (r' & (rd & fl & L1 & L2 & L3) & D & _). destruct (D eq_refl) as (Hg & HR0).
  specialize (L3 []). cbn [app] in L3. rewrite app_nil_r, HR0, app_nil_r in L3. subst fl.
  assert (Hrd : bytes_ok rd) by (rewrite L1 in Hrem; apply bytes_ok_app in Hrem; apply Hrem).
  assert (Hw : whole (R maxc (abs (rsp r)) rd)) by (apply replies_whole_partial_proof; [apply Hinv|exact Hrd|exact Hwo]).
  exists rd. split; [exact L1|]. split; [exact L2|]. split; [exact Hw|].
  split; [rewrite L2; apply counts_app_proof; assumption|]. apply gated_next, Hg.
Qed.
Print Assumptions read_block_counts.

Theorem peer_read_no_deadlock : peer_read_no_deadlock_stmt.
Proof.
  intros maxc fuel dest r w w' Hinv Hrem _ Hwl Hwo Hg E.
  pose proof (await_input_peer maxc fuel dest r w Hinv Hrem) as H. rewrite E in H. cbn [ai_peer] in H.
  destruct H as (r' & _ & _ & HN). apply HN; [|reflexivity].
  apply GW_init; [apply Hinv|exact Hwl|exact Hwo|exact Hrem|exact Hg].
Qed.
Print Assumptions peer_read_no_deadlock.

(* Token::parse_request once more, carrying the parser invariant so that every output is known to be records *)
Lemma parse_request_whole norm maxc : forall fuel p new w w',
  parser_ok p -> bytes_ok new -> len new <= input_space p -> bytes_ok (remaining w) ->
  parse_request norm maxc fuel p new w = Halt ODeadlock w' ->
  gated w' /\ exists outs, pr_chain norm maxc p new outs /\ wlog w' = wlog w ++ concat outs /\ whole (concat outs).
Proof.
  induction fuel as [|f IH]; intros p new w w' Hp Hn Hl Hrem E; [discriminate E|].
  rewrite parse_request_iter in E.
  destruct (F_parse_total norm maxc p new Hp Hn Hl) as (p1 & d1 & o1 & EP1 & Hp1 & _).
  destruct (parse norm maxc p new) as [p' done out|n] eqn:EP; [|discriminate E]. injection EP1 as <- <- <-.
  pose proof (parse_out_whole_proof norm maxc p new p' done out Hp Hn Hl EP) as Hout.
  pose proof (await_write_all_spec (io_fuel w (len out)) true out w) as H.
  destruct (await_write_all (io_fuel w (len out)) true out w) as [[k|] w1|o w1]; [discriminate E| |].
  2:{ injection E as -> ->. contradiction. }
  pose proof (io_rel_wlog _ _ _ H) as L1.
  assert (Hrem1 : bytes_ok (remaining w1)) by (rewrite (same_but_io_remaining w w1); [exact Hrem|apply H]).
  destruct done; [destruct (into_stream_parser p'); discriminate E|].
  pose proof (await_read_rem (io_fuel w1 0) true (input_space p') w1) as AR.
  destruct (await_read (io_fuel w1 0) true (input_space p') w1) as [[b|k] w2|o w2]; [|discriminate E|].
  - destruct b as [|x b]; [discriminate E|]. destruct AR as (A1 & _ & A3 & A4 & _).
    rewrite A3 in Hrem1. change ((x :: b) ++ remaining w2) with ((x :: b) ++ remaining w2) in Hrem1.
    apply bytes_ok_app in Hrem1.
    destruct (IH p' (x :: b) w2 w' Hp1 (proj1 Hrem1) A4 (proj2 Hrem1) E) as (G0 & outs & C & L & Wo).
    split; [exact G0|]. exists (out :: outs). split; [eapply PC_step; [exact EP| |exact C]; discriminate|].
    cbn [concat]. split; [rewrite L, A1, L1, app_assoc; reflexivity|apply whole_app; assumption].
  - injection E as -> ->. destruct AR as (A1 & _ & _ & A4). split; [apply A4; reflexivity|].
    exists [out]. split; [eapply PC_last; exact EP|]. cbn [concat]. rewrite app_nil_r.
    split; [rewrite A1; exact L1|exact Hout].
Qed.

Theorem parse_request_block_counts : parse_request_block_counts_stmt.
Proof.
  intros norm maxc fuel p new w w' Hp Hn Hl Hw _ Hwl E.
  destruct (parse_request_whole norm maxc fuel p new w w' Hp Hn Hl (world_ok_remaining w Hw) E) as (G0 & outs & C & L & Wo).
  exists outs. split; [exact C|]. split; [exact L|]. split; [exact Wo|].
  split; [rewrite L; apply counts_app_proof; assumption|apply gated_next, G0].
Qed.
Print Assumptions parse_request_block_counts.

(* ------------------------------------------------------------------------------------------ *)
(* Part 3: an instance                                                                           *)
(* ------------------------------------------------------------------------------------------ *)

(* the client sends a GetValues query (FCGI_MAX_CONNS) at once and keeps the request's Stdin back until it has seen
   one management reply: the second segment is gated on gm = 1 *)
Definition ex_query : bytes := [1;9;0;0;0;16;0;0; 14;0; 70;67;71;73;95;77;65;88;95;67;79;78;78;83].
Definition ex_stdin : bytes := [1;5;0;1;0;3;5;0; 97;98;99; 0;0;0;0;0] ++ [1;5;0;1;0;0;0;0].
Definition ex_peer_w : world := mkW [] [] [(0, 0, ex_query); (0, 1, ex_stdin)] [] 0 1 0 false false [].
Definition ex_peer_r : rstate := mkR ex_resp true false false.

(* the handler's read is answered (with "abc"), the reply to the query is in the log, and the gate was met by it *)
Example ex_peer_runs :
  match await_input 10 (io_fuel ex_peer_w 0) (Some 10) ex_peer_r ex_peer_w with
  | Ok (inl (n, b), _) w' => n = 3 /\ b = [97; 98; 99] /\ counts (wlog w') = (0, 1) /\ len (wlog w') = 32
  | _ => False
  end.
Proof. vm_compute. repeat split; reflexivity. Qed.

(* the hypotheses of [peer_read_no_deadlock] hold for it *)
Example ex_peer_hyps :
  pinv (rsp ex_peer_r) /\ bytes_ok (remaining ex_peer_w) /\ no_fault (wscript ex_peer_w) /\ whole (wlog ex_peer_w) /\
  whole (output_buffer (rsp ex_peer_r)) /\
  gates_owed_only 10 (abs (rsp ex_peer_r)) (counts (wlog ex_peer_w)) (segs ex_peer_w).
Proof.
  split; [apply new_sparser_pinv|]. split; [apply bytes_okb_ok; vm_compute; reflexivity|].
  split; [constructor|]. split; [apply whole_nil|]. split; [apply whole_nil|].
  intros pre ge gm b post E Hb. cbv zeta.
  destruct pre as [|s1 [|s2 [|s3 pre]]]; cbn [app segs ex_peer_w] in E.
  - injection E as <- <- _ _. vm_compute. split; discriminate.
  - injection E as <- <- <- _ _. vm_compute. split; discriminate.
  - injection E as _ _ E. discriminate E.
  - injection E as _ _ E. discriminate E.
Qed.

(* ... and the second gate really depends on the reply: before the read the log does not meet it *)
Example ex_peer_gate_closed_before : counts (wlog ex_peer_w) = (0, 0) /\ next_gate ex_peer_w = Some (0, 0) /\
  counts (R 10 (abs (rsp ex_peer_r)) ex_query) = (0, 1).
Proof. vm_compute. repeat split; reflexivity. Qed.

Theorem replies_whole_full_is_false : ~ replies_whole_stmt.
Proof. exact replies_whole_full_false. Qed.
Print Assumptions replies_whole_full_is_false.

(* the theorem applied to the instance: for every fuel, every kind of read and every final world *)
Example ex_peer_no_deadlock fuel dest w' : await_input 10 fuel dest ex_peer_r ex_peer_w <> Halt ODeadlock w'.
Proof.
  destruct ex_peer_hyps as (H1 & H2 & H3 & H4 & H5 & H6).
  exact (peer_read_no_deadlock 10 fuel dest ex_peer_r ex_peer_w w' H1 H2 H3 H4 H5 H6).
Qed.

(* a peer that asks for MORE than it is owed (two management replies for one query) is waited for in vain;
   [read_block_counts] describes the log at that point: exactly the one reply owed, the gate (0, 2) not met *)
Definition ex_greedy_w : world := mkW [] [] [(0, 0, ex_query); (0, 2, ex_stdin)] [] 0 1 0 false false [].
Example ex_greedy_deadlocks :
  match await_input 10 (io_fuel ex_greedy_w 0) (Some 10) ex_peer_r ex_greedy_w with
  | Halt ODeadlock w' => remaining w' = ex_stdin /\ wlog w' = R 10 (abs (rsp ex_peer_r)) ex_query /\
                         counts (wlog w') = (0, 1) /\ next_gate w' = Some (0, 2)
  | _ => False
  end.
Proof. vm_compute. repeat split; reflexivity. Qed.

Print Assumptions ex_peer_runs.
Print Assumptions ex_peer_hyps.
Print Assumptions ex_peer_no_deadlock.
Print Assumptions ex_greedy_deadlocks.
