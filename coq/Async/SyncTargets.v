(* Async/SyncTargets.v — statements (as Props) about the token and wait-group models (C13, C14). *)
From FV Require Import Base.Bytes Async.Tokens Async.WaitGroup.

(* ---- tokens ---- *)
Definition trun (maxc : N) (ops : list top) : tsys * N := fold_left tstep ops (init maxc, 0).

(* at every instant: live tokens + free permits = limit, hence live <= limit *)
Definition C13_bound_stmt : Prop := forall maxc ops,
  let s := fst (trun maxc ops) in
  permits s + len (live s) = maxc /\ len (live s) <= maxc /\ NoDup (live s).

(* a request polled while a slot is free completes immediately *)
Definition C13_immediate_stmt : Prop := forall maxc ops i,
  let s := fst (trun maxc ops) in
  0 < permits s -> fut_listener i (futs s) <> None -> fst (poll_fut i s) = true.

(* a free slot is never stranded: whenever a permit is free while some request is queued on the
   event, some queued listener has been notified (its request was woken, or will find the
   notification at its next poll) *)
Definition C13_not_stranded_stmt : Prop := forall maxc ops,
  let s := fst (trun maxc ops) in
  0 < permits s -> lst s <> [] -> exists id, In (id, LNotified) (lst s).

(* the wake counters only grow *)
Definition C13_wakes_monotone_stmt : Prop := forall maxc ops o i c,
  let st := trun maxc ops in
  In (i, c) (wakes (fst st)) -> exists c', In (i, c') (wakes (fst (tstep st o))) /\ c <= c'.

(* queued listeners belong to pending requests *)
Definition C13_listeners_owned_stmt : Prop := forall maxc ops id st,
  let s := fst (trun maxc ops) in
  In (id, st) (lst s) -> exists i, In (i, Some id) (futs s).

(* ---- wait group ---- *)
Definition wg_inv (s : wg) (t : N) : Prop :=
  strong s = t /\ dropped s = (t =? 0) /\ (registered s = true -> 0 < t).

Definition wrun (n : N) (ops : list wop) : wg * N :=
  fold_left (fun st o => fst (wstep st o)) ops (wg_init n, n).

(* the invariant holds after every history, for every number of tokens and every placement of
   drops into the windows of poll *)
Definition C14_wg_inv_stmt : Prop := forall n ops, wg_inv (fst (wrun n ops)) (snd (wrun n ops)).

Definition alive_at_check (w t : N) : N := if (w =? 1) && (0 <? t) then t - 1 else t.

(* the shutdown future completes only after the last token has been dropped, and does complete then *)
Definition C14_ready_iff_done_stmt : Prop := forall n ops w,
  let st := wrun n ops in
  fst (fst (wg_poll w (snd st) (fst st))) = (alive_at_check w (snd st) =? 0).

(* no lost wake-up: if a poll returned Pending, then as soon as no token is alive any more the waker
   it registered has been invoked — under every interleaving of the final drop with that poll
   (before the upgrade it would have returned Ready; between upgrade and registration, between
   registration and the drop of the temporary reference, or after the poll: woken) *)
Definition C14_no_lost_wakeup_stmt : Prop := forall n ops w more,
  let st := wrun n ops in
  fst (fst (wg_poll w (snd st) (fst st))) = false ->
  (forall o, In o more -> o = WDrop) ->            (* only drops follow: no further poll re-registers *)
  let st' := fold_left (fun st o => fst (wstep st o)) more (snd (fst (wg_poll w (snd st) (fst st))), snd (wg_poll w (snd st) (fst st))) in
  snd st' = 0 ->
  registered (fst st') = false /\ wake_count (fst st) < wake_count (fst st').
