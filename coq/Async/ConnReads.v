(* Async/ConnReads.v — read-path facts of the connection model (Async/Conn.v):
   t_poll_read / await_read (what leaves the client), Request::poll_input and its parsing loop,
   poll_fn(poll_input).await, Request::writeable, the handler read operations, the block points of
   Token::parse_request and Request::record_boundary.  Feeds C08 (no wait while owing a reply),
   C09 (reads deliver exactly the active stream; output gated on the final stream), C11 (abort).
   Everything holds for EVERY read script, write script and gating, and for every max_conns. *)
From Coq Require Import ZArith.
From FV Require Import Base.Bytes Base.BytesLemmas Gen.Generated Codec.Varint Codec.NV Codec.Header Codec.Bodies Codec.Vars
  Codec.ProtoProofs Parser.ReqModel Parser.ReqWire Parser.ReqRecords Parser.StreamModel Parser.AbsStream Parser.ReqDrive Parser.StreamRefine
  Parser.StreamSpec Parser.StreamInv Parser.EnvCanon Async.ConnWrites Async.ConnTotal Async.Conn.
From Coq Require Import ZifyBool ZifyNat ZifyN.
Ltac Zify.zify_post_hook ::= Z.div_mod_to_equations.

(* ------------------------------------------------------------------------------------------ *)
(* Part 0: what is still with the client                                                        *)
(* ------------------------------------------------------------------------------------------ *)

(* all client bytes not yet delivered to the server, in order *)
Definition remaining (w : world) : bytes := flat_map (fun s : N * N * bytes => snd s) (segs w).

Lemma nb_remaining w : nb w = length (remaining w).
Proof. reflexivity. Qed.

Lemma io_fuel_remaining w x :
  io_fuel w x = (length (rscript w) + length (wscript w) + length (remaining w) + N.to_nat x + 16)%nat.
Proof. reflexivity. Qed.

Lemma world_ok_remaining w : world_ok w -> bytes_ok (remaining w).
Proof.
  unfold world_ok, remaining. induction (segs w) as [|s t IH]; intros H; [constructor|].
  inversion H as [|? ? H1 H2]; subst. cbn [flat_map]. apply bytes_ok_app. split; [exact H1|apply IH; exact H2].
Qed.

Lemma remaining_world_ok w : bytes_ok (remaining w) -> world_ok w.
Proof.
  unfold world_ok, remaining. induction (segs w) as [|s t IH]; intros H; [constructor|].
  cbn [flat_map] in H. apply bytes_ok_app in H. constructor; [apply H|apply IH; apply H].
Qed.

(* the transport answers Pending without a wake-up for every non-empty buffer: the next client bytes
   are gated on replies that are not in the write log *)
Definition gated (w : world) : Prop := forall L, L <> 0 -> t_poll_read L w = (PBlock, w).

Lemma skip_head_nonempty s ge gm b rest : skip_empty_segs s = (ge, gm, b) :: rest -> b <> [].
Proof.
  induction s as [|[[ge' gm'] b'] t IH]; [discriminate|]. destruct b' as [|x b'].
  - cbn [skip_empty_segs]. exact IH.
  - cbn [skip_empty_segs]. intros E. injection E as _ _ <- _. discriminate.
Qed.

Lemma remaining_set_r w rs sg c : remaining (w_set_r w rs sg c) = flat_map (fun s : N * N * bytes => snd s) sg.
Proof. reflexivity. Qed.

(* item 0: a successful read removes exactly the returned bytes from the front of [remaining];
   nothing else moves it; the write side is never touched *)
Lemma t_poll_read_rem L w p w' : t_poll_read L w = (p, w') ->
  wlog w' = wlog w /\ wscript w' = wscript w /\ (length (rscript w') <= length (rscript w))%nat /\
  match p with
  | PReady (inl b) => remaining w = b ++ remaining w' /\ len b <= L /\ (b = [] -> L = 0 \/ remaining w = [])
  | PReady (inr k) => remaining w' = remaining w /\ k = EK_Transport
  | PWake => remaining w' = remaining w
  | PBlock => w' = w /\ gated w
  end.
Proof.
  unfold t_poll_read. destruct (N.eqb_spec L 0) as [EL|EL].
  { intros E. injection E as <- <-. repeat split; try reflexivity; try lia. rewrite len_nil. lia. }
  pose proof (skip_flat (segs w)) as SF. fold (remaining w) in SF.
  destruct (skip_empty_segs (segs w)) as [|[[ge gm] b] rest] eqn:Es.
  { intros E. injection E as <- <-. cbn [flat_map] in SF.
    repeat split; try reflexivity; try lia.
    - rewrite remaining_set_r. cbn [flat_map app]. symmetry. exact SF.
    - rewrite len_nil. lia.
    - intros _. right. symmetry. exact SF. }
  pose proof (skip_head_nonempty _ _ _ _ _ Es) as Hb.
  cbn [flat_map snd] in SF.
  destruct (count_records (length (wlog w)) (wlog w) 0 0) as [e m] eqn:Ec.
  destruct ((e <? ge) || (m <? gm)) eqn:Eg.
  { intros E. injection E as <- <-. repeat split; try reflexivity; try lia.
    intros L' HL'. unfold t_poll_read. destruct (N.eqb_spec L' 0) as [|_]; [contradiction|].
    rewrite Es, Ec, Eg. reflexivity. }
  assert (KEEP : forall rs', remaining (w_set_r w rs' ((ge, gm, b) :: rest) (consumed w)) = remaining w).
  { intros rs'. rewrite remaining_set_r. cbn [flat_map snd]. exact SF. }
  assert (READ : forall r rs', r <> 0 -> (length rs' <= length (rscript w))%nat ->
            let n := N.min r (N.min L (len b)) in
            let w1 := w_set_r w rs' ((ge, gm, drop n b) :: rest) (consumed w + n) in
            wlog w1 = wlog w /\ wscript w1 = wscript w /\ (length (rscript w1) <= length (rscript w))%nat /\
            remaining w = take n b ++ remaining w1 /\ len (take n b) <= L /\
            (take n b = [] -> L = 0 \/ remaining w = [])).
  { intros r rs' Hr Hrs n w1. split; [reflexivity|]. split; [reflexivity|]. split; [exact Hrs|].
    split; [|split].
    - unfold w1. rewrite remaining_set_r. cbn [flat_map snd]. rewrite app_assoc, take_drop. symmetry. exact SF.
    - rewrite len_take. lia.
    - intros Hn. exfalso. apply (f_equal len) in Hn. rewrite len_take, len_nil in Hn.
      pose proof (len_pos_nonnil b Hb). lia. }
  destruct (rscript w) as [|r t] eqn:Er; cbv beta iota zeta.
  - destruct (N.eqb_spec L 0) as [|_]; [contradiction|].
    destruct (N.eqb_spec L R_ERR) as [_|_].
    + intros E. injection E as <- <-. split; [reflexivity|]. split; [reflexivity|].
      split; [cbn [w_set_r rscript length]; lia|]. split; [apply KEEP|reflexivity].
    + intros E. injection E as <- <-. apply (READ L []); [exact EL|cbn [length]; lia].
  - destruct (N.eqb_spec r 0) as [E0|E0].
    + intros E. injection E as <- <-. split; [reflexivity|]. split; [reflexivity|].
      split; [cbn [w_set_r rscript length]; lia|]. apply KEEP.
    + destruct (N.eqb_spec r R_ERR) as [_|_].
      * intros E. injection E as <- <-. split; [reflexivity|]. split; [reflexivity|].
        split; [cbn [w_set_r rscript length]; lia|]. split; [apply KEEP|reflexivity].
      * intros E. injection E as <- <-. apply (READ r t); [exact E0|cbn [length]; lia].
Qed.

(* the handler-side event log is not touched by the transport *)
Lemma t_poll_read_events L w p w' : t_poll_read L w = (p, w') -> events w' = events w.
Proof.
  unfold t_poll_read. intros E.
  repeat match type of E with
  | (if ?c then _ else _) = _ => destruct c
  | (match ?x with _ => _ end) = _ => destruct x
  end; injection E as <- <-; reflexivity.
Qed.

Lemma gated_stop w : gated w -> gated (w_stop w).
Proof.
  intros G L HL. specialize (G L HL). unfold t_poll_read in *. destruct (L =? 0); [discriminate G|].
  change (segs (w_stop w)) with (segs w). change (wlog (w_stop w)) with (wlog w).
  change (rscript (w_stop w)) with (rscript w).
  destruct (skip_empty_segs (segs w)) as [|[[ge gm] b] rest]; [discriminate G|].
  destruct (count_records (length (wlog w)) (wlog w) 0 0) as [e m].
  destruct ((e <? ge) || (m <? gm)); [reflexivity|].
  exfalso. destruct (rscript w) as [|r t]; cbv beta iota zeta in G.
  - destruct (L =? 0); [discriminate G|]. destruct (L =? R_ERR); discriminate G.
  - destruct (r =? 0); [discriminate G|]. destruct (r =? R_ERR); discriminate G.
Qed.

(* input.read(buf).await: the same accounting across Pending/wake cycles; a deadlock (Pending without a
   wake-up, nobody left to stop the task) leaves the client's bytes and the log untouched *)
Lemma await_read_rem fuel : forall sel L w,
  match await_read fuel sel L w with
  | Ok (inl b) w' => wlog w' = wlog w /\ wscript w' = wscript w /\
                     remaining w = b ++ remaining w' /\ len b <= L /\ (b = [] -> L = 0 \/ remaining w = [])
  | Ok (inr k) w' => wlog w' = wlog w /\ wscript w' = wscript w /\ remaining w' = remaining w /\ k = EK_Transport
  | Halt o w' => wlog w' = wlog w /\ wscript w' = wscript w /\ remaining w' = remaining w /\
                 (o = ODeadlock -> gated w')
  end.
Proof.
  induction fuel as [|f IH]; intros sel L w.
  { cbn [await_read]. repeat split. discriminate. }
  cbn [await_read]. destruct (t_poll_read L w) as [p w1] eqn:ET.
  destruct (t_poll_read_rem _ _ _ _ ET) as (T1 & T2 & _ & T4).
  destruct p as [[b|k]| |].
  - destruct T4 as (A & B & C). repeat split; assumption.
  - destruct T4 as (A & B). repeat split; assumption.
  - unfold on_wake. destruct (sel && stopped (w_bump w1)).
    + repeat split; try assumption. discriminate.
    + specialize (IH sel L (w_bump w1)).
      change (wlog (w_bump w1)) with (wlog w1) in IH. change (wscript (w_bump w1)) with (wscript w1) in IH.
      change (remaining (w_bump w1)) with (remaining w1) in IH. rewrite T1, T2, T4 in IH. exact IH.
  - destruct T4 as [-> G]. unfold on_block. destruct (negb (stop_at w =? 0) && negb (stopped w)).
    + destruct sel.
      * repeat split. discriminate.
      * specialize (IH false L (w_stop w)).
        change (wlog (w_stop w)) with (wlog w) in IH. change (wscript (w_stop w)) with (wscript w) in IH.
        change (remaining (w_stop w)) with (remaining w) in IH. exact IH.
    + repeat split. intros _. exact G.
Qed.

(* ------------------------------------------------------------------------------------------ *)
(* Part 1: the steps of poll_input on the abstract parser state                                *)
(* ------------------------------------------------------------------------------------------ *)

(* the part of the Request invariant the read path needs: the representation invariant of the index-level
   parser and the invariant of its abstraction (Parser/StreamSpec.v) *)
Definition pinv (p : sp) : Prop := RI p /\ a_inv (abs p).

(* the connection invariant of Async/ConnTotal.v extended by a_inv *)
Definition rinv (r : rstate) : Prop := rgood r /\ a_inv (abs (rsp r)).

Lemma rinv_pinv r : rinv r -> pinv (rsp r).
Proof. intros [[[G _] _] A]. split; assumption. Qed.

(* ... which contains what the lock discipline of Async/ConnTotal.v (await_input_lock) needs *)
Lemma pinv_lgood p : pinv p -> lgood p.
Proof. intros [HRI (_ & _ & _ & Hb & _ & Hs)]. split; [exact HRI|]. split; [exact Hs|exact Hb]. Qed.

(* end of the active stream: no stream is selected, or the parser stands in front of the header that
   terminates the active stream *)
Definition eos (a : ast) : Prop := a_stream a = None \/ at_term a = true.

(* the abstract state with another pending output *)
Definition set_out (a : ast) (o : bytes) : ast :=
  mkA (a_B a) (a_space a) (a_parsed a) (a_raw a) o (a_req a) (a_stream a) (a_prem a) (a_pad a) (a_st a).

Lemma K_set_out a o u : K (set_out a o) u = K a u.
Proof. reflexivity. Qed.

Lemma a_inv_set_out a o : a_inv a -> a_inv (set_out a o).
Proof. intros H. exact H. Qed.

Lemma eos_set_out a o : eos (set_out a o) <-> eos a.
Proof. split; intros H; exact H. Qed.

Lemma err_at_set_out a o e : err_at (set_out a o) e <-> err_at a e.
Proof. split; intros H; exact H. Qed.

(* ------------------------------------------------------------------------------------------ *)
(* Part 1b: where Parser::parse stops (for C08): with nothing more to do on the bytes it has    *)
(* ------------------------------------------------------------------------------------------ *)
Section Quiet.
Variable maxc : N.

(* the unparsed bytes allow no further step: none left, a payload (or GetValues pair) still incomplete,
   or an incomplete header *)
Definition stuck (a : ast) : Prop :=
  a_raw a = [] \/ (0 < a_prem a /\ len (a_raw a) < a_prem a) \/
  (a_prem a = 0 /\ a_pad a = 0 /\ len (a_raw a) < HEADER_LEN).

(* why the loop of Parser::parse ended: stuck, end of stream reported, or the caller's buffer is full *)
Definition brk (l : alstate) : Prop := stuck (al l) \/ s_end (ares l) = true \/ acap l = Some 0.
Definition brk_flow (fl : aflow) : Prop := match fl with ABreak l => brk l | _ => True end.

Lemma pfin_brk a parsed' out' st' res cap' consumed : 0 < a_prem a ->
  (consumed = N.min (a_prem a) (len (a_raw a)) \/ cap' = Some 0 \/
   (len (a_raw a) < a_prem a /\ exists k, k <= len (a_raw a) /\ consumed = len (a_raw a) - k)) ->
  brk_flow (pfin' a parsed' out' st' res cap' consumed).
Proof.
  intros Hp Hc. unfold pfin'. cbv zeta.
  destruct (N.min (a_prem a) (len (a_raw a)) <? consumed); [exact I|].
  cbn [a_prem].
  destruct ((a_prem a - consumed =? 0) && (consumed <? len (a_raw a))) eqn:Eb; [exact I|].
  cbn [brk_flow]. unfold brk, stuck. cbn [al ares acap a_raw a_prem a_pad].
  destruct Hc as [Hc|[Hc|(Hl & k & Hk & Hc)]].
  - left. destruct (N.le_gt_cases (a_prem a) (len (a_raw a))) as [Hle|Hgt].
    + rewrite N.min_l in Hc by exact Hle. subst consumed. rewrite N.sub_diag in Eb.
      change (0 =? 0) with true in Eb. cbn [andb] in Eb.
      destruct (N.ltb_spec (a_prem a) (len (a_raw a))) as [|Hge]; [discriminate Eb|].
      left. apply drop_all. lia.
    + rewrite N.min_r in Hc by lia. subst consumed. left. apply drop_all. lia.
  - right. right. exact Hc.
  - left. right. left. subst consumed. rewrite len_drop. lia.
Qed.

Lemma payload_brk l : 0 < a_prem (al l) -> brk_flow (aparse_payload maxc l).
Proof.
  intros Hp. rewrite aparse_payload_eq. cbv zeta.
  destruct (a_st (al l)) as [| |vars].
  - destruct (acap l) as [c|].
    + apply pfin_brk; [exact Hp|].
      destruct (N.le_gt_cases (N.min (a_prem (al l)) (len (a_raw (al l)))) c) as [Hle|Hgt].
      * left. lia.
      * right. left. f_equal. lia.
    + apply pfin_brk; [exact Hp|left; reflexivity].
  - apply pfin_brk; [exact Hp|left; reflexivity].
  - destruct (nv_run (take (N.min (a_prem (al l)) (len (a_raw (al l)))) (a_raw (al l)))) as [ps rest] eqn:En.
    pose proof (nv_run_rest_len (take (N.min (a_prem (al l)) (len (a_raw (al l)))) (a_raw (al l)))) as Hr.
    rewrite En in Hr. cbn [snd] in Hr. rewrite len_take in Hr.
    destruct (N.ltb_spec (len (a_raw (al l))) (a_prem (al l))) as [Hlt|Hge].
    + apply pfin_brk; [exact Hp|]. right. right. split; [exact Hlt|]. exists (len rest). split; [lia|].
      rewrite N.min_r by lia. reflexivity.
    + apply pfin_brk; [exact Hp|left; reflexivity].
Qed.

Lemma head_brk l : brk_flow (aparse_head l).
Proof.
  rewrite aparse_head_eq. cbv zeta. unfold a_boundary.
  destruct (N.eqb_spec (a_prem (al l)) 0) as [H1|H1]; cbn [andb negb]; [|exact I].
  destruct (N.eqb_spec (a_pad (al l)) 0) as [H2|H2]; cbn [negb]; [|exact I].
  destruct (N.ltb_spec (len (a_raw (al l))) HEADER_LEN) as [Hl|Hl].
  { cbn [brk_flow]. left. right. right. repeat split; assumption. }
  assert (SE : brk (mkAL (al l) (set_end (ares l)) (acap l))) by (right; left; reflexivity).
  destruct (hdr_decode (take HEADER_LEN (a_raw (al l)))) as [t id cl pl|v|t]; try exact I.
  destruct (is_input_stream t && (id =? r_id (a_req (al l)))).
  - destruct (cmp_input_streams (r_role (a_req (al l))) t (a_stream (al l))) as [[| |]|]; try exact I; try exact SE.
    destruct (negb (cl =? 0)); [exact I|exact SE].
  - destruct ((t =? RT_AbortRequest) && (id =? r_id (a_req (al l)))); [exact I|].
    destruct ((t =? RT_BeginRequest) && negb (id =? r_id (a_req (al l)))); [exact I|].
    destruct ((t =? RT_GetValues) && hdr_is_management t id); exact I.
Qed.

Lemma after_payload_brk l : brk_flow (after_payload l).
Proof.
  unfold after_payload. cbv zeta. destruct (0 <? a_pad (al l)); [|apply head_brk].
  destruct (negb (a_prem (al l) =? 0)); [exact I|].
  destruct (len (a_raw (al l)) <=? a_pad (al l)); [|apply head_brk].
  cbn [brk_flow]. left. left. reflexivity.
Qed.

Lemma iter_brk l : brk_flow (aparse_iter maxc l).
Proof.
  rewrite aparse_iter_eq. destruct (N.ltb_spec 0 (a_prem (al l))) as [Hp|Hp]; [|apply after_payload_brk].
  pose proof (payload_brk l Hp) as H. destruct (aparse_payload maxc l) as [l'|l'|l' e|n]; try exact H; try exact I.
  apply after_payload_brk.
Qed.

Lemma loop_brk fuel : forall l, brk_flow (aparse_loop maxc fuel l).
Proof.
  induction fuel as [|f IH]; intros l; [exact I|]. cbn [aparse_loop].
  destruct (a_raw (al l)) as [|x t] eqn:Er; [cbn [brk_flow]; left; left; exact Er|].
  pose proof (iter_brk l) as H. destruct (aparse_iter maxc l) as [l'|l'|l' e|n]; try exact H; try exact I.
  apply IH.
Qed.

Lemma stuck_quiet a : stuck a -> RA maxc (ri a) (a_st a) (a_prem a) (a_pad a) (a_raw a) = [].
Proof.
  intros [H|[[H1 H2]|(H1 & H2 & H3)]].
  - rewrite H. apply RA_nil.
  - rewrite RA_prem by exact H1. destruct (N.ltb_spec (len (a_raw a)) (a_prem a)); [reflexivity|lia].
  - rewrite H1, H2. apply RA_short. exact H3.
Qed.

(* a call that reports neither stream data nor the end of the stream has done everything that can be done with the
   bytes received so far: beyond its pending output, no reply is owed until the client sends more *)
Theorem aparse_quiet a new dest a' s : a_inv a -> legal a new dest -> dest <> Some 0 ->
  aparse maxc a new dest = AOk a' s -> s_end s = false -> s_stream s = 0 ->
  forall o, R maxc (set_out a' o) [] = o.
Proof.
  intros Hinv Hleg Hd E Hend Hstr o. rewrite (aparse_eq maxc a new dest Hleg) in E.
  pose proof (loop_ok maxc _ _ (linv_l0 a new dest Hinv Hleg) (fuel_l0 a new dest Hinv Hleg)) as LO.
  pose proof (loop_brk (2 * N.to_nat (a_B a) + 8) (l0 a new dest)) as LB.
  destruct (aparse_loop maxc (2 * N.to_nat (a_B a) + 8) (l0 a new dest)) as [l'|l'|l' e|n];
    cbn [loop_post brk_flow] in LO, LB; try contradiction; try discriminate E.
  assert (Ea : al l' = a') by congruence. assert (Es : ares l' = s) by congruence. subst a' s.
  rewrite R_eq, app_nil_r. cbn [set_out a_out a_st a_prem a_pad a_raw]. unfold ri. cbn [set_out a_req].
  destruct LB as [St|[Se|Sc]].
  - change (r_id (a_req (al l'))) with (ri (al l')). rewrite (stuck_quiet _ St). apply app_nil_r.
  - rewrite Se in Hend. discriminate Hend.
  - exfalso. destruct LO as (P & _). pose proof (p_cap _ _ _ P) as Hc. unfold cap_rel in Hc.
    cbn [l0 acap ares res0 s_stream] in Hc. destruct dest as [c|].
    + destruct Hc as (d & c' & C1 & _ & _ & C4 & C5). rewrite Sc in C1. injection C1 as <-.
      apply Hd. f_equal. lia.
    + destruct Hc as (C1 & _). rewrite Sc in C1. discriminate C1.
Qed.
End Quiet.

Section Reads.
Variable maxc : N.

Lemma R_split a fl o u : a_out a = fl ++ o -> R maxc a u = fl ++ R maxc (set_out a o) u.
Proof. intros E. rewrite !R_eq. cbn [set_out a_out]. rewrite E, <- app_assoc. reflexivity. Qed.

Lemma is_final_stream_eq r r' : sreq (rsp r') = sreq (rsp r) -> stream (rsp r') = stream (rsp r) ->
  is_final_stream r' = is_final_stream r.
Proof. intros E1 E2. unfold is_final_stream. rewrite E1, E2. reflexivity. Qed.

(* ---- Parser::parse as seen from the connection ---- *)
Record sparse_ok (p : sp) (new : bytes) (dest : option N) (p' : sp) (s : status) : Prop := mkSO {
  so_inv : pinv p';
  so_stream : stream p' = stream p;
  so_req : sreq p' = sreq p;
  so_K : forall u, K (abs p) (new ++ u) = s_dest s ++ K (abs p') u;
  so_R : forall u, R maxc (abs p) (new ++ u) = R maxc (abs p') u;
  so_F : forall sg u, later_stream (abs p) sg -> F (Some sg) (abs p) (new ++ u) = F (Some sg) (abs p') u;
  so_out : exists o, output_buffer p' = output_buffer p ++ o /\ s_output s = len o;
  so_none : dest = None -> s_dest s = [] /\ exists d, stream_buffer p' = stream_buffer p ++ d /\ s_stream s = len d;
  so_some : forall c, dest = Some c -> stream_buffer p' = [] /\ s_stream s = len (s_dest s) /\ len (s_dest s) <= c
}.

Lemma sparse_step p new dest : pinv p -> bytes_ok new -> len new <= sinput_space p ->
  (dest <> None -> stream_buffer p = []) ->
  match sparse maxc p new dest with
  | StOk p' s => sparse_ok p new dest p' s /\ (s_end s = true <-> eos (abs p'))
  | StErr p' e s => sparse_ok p new dest p' s /\ err_at (abs p') e /\
                    (e = EAbortRequest \/ exists v, e = EUnknownVersion v)
  | StPanic _ => False
  end.
Proof.
  intros [HRI Hinv] Hb Hl Hd.
  assert (Hleg : legal (abs p) new dest) by (split; [exact Hb|split; [exact Hl|exact Hd]]).
  destruct (sparse_refines maxc p new dest HRI) as [Ga Gb].
  pose proof (aparse_spec maxc (abs p) new dest Hinv Hleg) as SP.
  assert (OK : forall p' s, RI p' -> stream p' = stream p -> a_inv (abs p') ->
            (aparse maxc (abs p) new dest = AOk (abs p') s \/ exists e, aparse maxc (abs p) new dest = AFail (abs p') e s) ->
            sparse_ok p new dest p' s).
  { intros p' s R' S' I' Hres.
    pose proof (fun u => content_law maxc (abs p) new dest u (abs p') s Hinv Hleg Hres) as CL.
    pose proof (fun u => replies_law maxc (abs p) new dest u (abs p') s Hinv Hleg Hres) as RL.
    destruct (CL []) as (_ & C2 & C3 & C4 & C5). destruct (RL []) as (_ & R2).
    constructor.
    - split; assumption.
    - exact S'.
    - exact C3.
    - intros u. apply (CL u).
    - intros u. apply (RL u).
    - intros sg u Hls. apply (later_law maxc (abs p) new dest u (abs p') s sg Hinv Hleg Hls Hres).
    - exact R2.
    - exact C4.
    - exact C5. }
  destruct (sparse maxc p new dest) as [p' s|p' e s|n]; cbn [absres sparse_post] in Ga, Gb.
  - destruct Gb as [R' S'].
    destruct SP as [(l' & E & P & I & He)|(l' & e & E & _)]; rewrite Ga in E; [|discriminate E].
    injection E as Ea Es.
    assert (I' : a_inv (abs p')) by (rewrite Ea; apply I).
    split; [apply OK; try assumption; left; exact Ga|].
    pose proof (T_end maxc (abs p) new dest (abs p') s Hinv Hleg Ga) as TE.
    unfold eos, at_term, rl, ri. cbn [abs a_stream a_req a_prem a_pad a_raw] in *.
    assert (Hq : sreq p' = sreq p).
    { pose proof (p_req _ _ _ P) as Q. rewrite <- Ea in Q. exact Q. }
    rewrite S', Hq. rewrite TE. destruct (stream p) as [x|].
    + split; [intros H; right; exact H|intros [H|H]; [discriminate H|exact H]].
    + split; [intros _; left; reflexivity|reflexivity].
  - destruct Gb as [R' S'].
    destruct SP as [(l' & E & _)|(l' & e' & E & (P & I & _) & He)]; rewrite Ga in E; [discriminate E|].
    injection E as Ea Ee Es. subst e'.
    assert (I' : a_inv (abs p')) by (rewrite Ea; apply I).
    split; [apply OK; try assumption; right; exists e; exact Ga|].
    split; [rewrite Ea; exact He|]. destruct He as (_ & _ & _ & He). apply (head_err_kind _ _ _ He).
  - destruct SP as [(l' & E & _)|(l' & e' & E & _)]; rewrite Ga in E; discriminate E.
Qed.

(* a parse call that reports neither stream data nor the end of the stream leaves nothing owed beyond its pending
   output, as long as the client sends nothing more *)
Lemma sparse_quiet p new dest p' s : pinv p -> bytes_ok new -> len new <= sinput_space p ->
  (dest <> None -> stream_buffer p = []) -> dest <> Some 0 ->
  sparse maxc p new dest = StOk p' s -> s_end s = false -> s_stream s = 0 ->
  forall o, R maxc (set_out (abs p') o) [] = o.
Proof.
  intros [HRI Hinv] Hb Hl Hd Hd0 E Hend Hstr.
  assert (Hleg : legal (abs p) new dest) by (split; [exact Hb|split; [exact Hl|exact Hd]]).
  destruct (sparse_refines maxc p new dest HRI) as [Ga _]. rewrite E in Ga. cbn [absres] in Ga.
  apply (aparse_quiet maxc (abs p) new dest (abs p') s Hinv Hleg Hd0 Ga Hend Hstr).
Qed.

Lemma R_set_out_compress a o u : R maxc (set_out (acompress a) o) u = R maxc (set_out a o) u.
Proof. reflexivity. Qed.

(* ---- Request::poll_output on the abstract state: only the pending output moves ---- *)
Lemma poll_output_abs fuel r w p r' w' : poll_output fuel r w = (p, r', w') -> pinv (rsp r) ->
  (length (wscript w) + 1 < fuel)%nat ->
  exists fl,
    wlog w' = wlog w ++ fl /\ same_but_io w w' /\ suffix (wscript w') (wscript w) /\
    output_buffer (rsp r) = fl ++ output_buffer (rsp r') /\
    abs (rsp r') = set_out (abs (rsp r)) (output_buffer (rsp r')) /\
    stream_buffer (rsp r') = stream_buffer (rsp r) /\ sinput_space (rsp r') = sinput_space (rsp r) /\
    stream (rsp r') = stream (rsp r) /\ sreq (rsp r') = sreq (rsp r) /\
    pinv (rsp r') /\ rwriteable r' = rwriteable r /\
    match p with
    | PReady (inl _) => output_buffer (rsp r') = []
    | PReady (inr k) => fault_of k (wscript w)
    | PWake => True
    | PBlock => False
    end.
Proof.
  intros E [HRI Hinv] Hf.
  destruct (poll_output_spec fuel r w p r' w' E) as (n & Hn & Hlog & Hsame & Hsuf & Hout & Hsp & Hsb & _ & Hwr & Hri & Hp).
  pose proof (poll_output_post fuel r w) as PP. rewrite E in PP. unfold po_post in PP. cbv zeta in PP.
  destruct PP as (n' & _ & _ & _ & _ & _ & PP).
  cbv zeta in *. exists (take n (output_buffer (rsp r))).
  pose proof (sp_same_abs _ _ _ Hsp Hout) as HA.
  destruct (sp_same_views _ _ Hsp) as (_ & _ & V3 & _ & V5 & V6).
  split; [exact Hlog|]. split; [exact Hsame|]. split; [exact Hsuf|].
  split; [rewrite Hout; symmetry; apply take_drop|].
  split; [rewrite HA, Hout; reflexivity|]. split; [exact Hsb|]. split; [exact V3|]. split; [exact V5|]. split; [exact V6|].
  split; [split; [apply Hri; exact HRI|rewrite HA; exact Hinv]|]. split; [exact Hwr|].
  destruct p as [[u|k]| |].
  - apply Hp.
  - destruct PP as [->|(_ & _ & PP)]; [|exact PP]. exfalso.
    destruct Hp as [[_ Hp]|(_ & _ & [Hp|[Hp|Hp]] & _)]; [lia|vm_compute in Hp; discriminate Hp..].
  - exact I.
  - exact Hp.
Qed.

Lemma poll_output_ab fuel r w p r' w' : poll_output fuel r w = (p, r', w') -> raborted r' = raborted r.
Proof. intros E. pose proof (poll_output_raborted fuel r w) as H. rewrite E in H. exact H. Qed.

Lemma same_but_io_remaining w w' : same_but_io w w' -> remaining w' = remaining w.
Proof. intros (_ & H & _). unfold remaining. rewrite H. reflexivity. Qed.

(* ------------------------------------------------------------------------------------------ *)
(* Part 2: conservation through Request::poll_input                                            *)
(* ------------------------------------------------------------------------------------------ *)

Definition is_inl {A B} (p : Conn.pres (A + B)) : bool := match p with PReady (inl _) => true | _ => false end.

(* the account of an operation on a Request: [new] are bytes already read but not yet fed to the parser,
   [dl] the stream bytes handed out (or dropped) by the operation.
   K: what the handler has still to receive of the active stream; R: the replies still owed to the client *)
Record acct (new : bytes) (r : rstate) (w : world) (dl : bytes) (r' : rstate) (w' : world) : Prop := mkAcct {
  ac_inv : pinv (rsp r');
  ac_stream : stream (rsp r') = stream (rsp r);
  ac_req : sreq (rsp r') = sreq (rsp r);
  ac_rd : exists rd, remaining w = rd ++ remaining w';
  ac_ws : suffix (wscript w') (wscript w);
  ac_ev : events w' = events w;
  ac_K : K (abs (rsp r)) (new ++ remaining w) = dl ++ K (abs (rsp r')) (remaining w');
  ac_R : exists fl, wlog w' = wlog w ++ fl /\
                    R maxc (abs (rsp r)) (new ++ remaining w) = fl ++ R maxc (abs (rsp r')) (remaining w');
  (* streams later in the role's order than the active one are not touched *)
  ac_F : forall sg, later_stream (abs (rsp r)) sg ->
           F (Some sg) (abs (rsp r)) (new ++ remaining w) = F (Some sg) (abs (rsp r')) (remaining w');
  (* Request.aborted, once set, stays set *)
  ac_ab : raborted r = true -> raborted r' = true
}.

Lemma acct_refl r w : pinv (rsp r) -> acct [] r w [] r w.
Proof.
  intros H. constructor; try reflexivity; try exact H.
  - exists []. reflexivity.
  - apply suffix_refl.
  - exists []. rewrite app_nil_r. split; reflexivity.
  - exact (fun x => x).
Qed.

Lemma acct_bytes_ok new r w dl r' w' : acct new r w dl r' w' -> bytes_ok (remaining w) -> bytes_ok (remaining w').
Proof. intros A H. destruct (ac_rd _ _ _ _ _ _ A) as [rd E]. rewrite E in H. apply bytes_ok_app in H. apply H. Qed.

Lemma acct_len new r w dl r' w' : acct new r w dl r' w' ->
  (length (wscript w') <= length (wscript w))%nat /\ (length (remaining w') <= length (remaining w))%nat.
Proof.
  intros A. split; [apply suffix_length; apply (ac_ws _ _ _ _ _ _ A)|].
  destruct (ac_rd _ _ _ _ _ _ A) as [rd E]. rewrite E, app_length. lia.
Qed.

(* composition: the first operation left [b] read-but-unparsed (b = [] between handler operations) *)
Lemma acct_trans new r w d1 r1 w1 b w1' d2 r2 w2 :
  acct new r w d1 r1 w1 -> remaining w1 = b ++ remaining w1' -> wlog w1' = wlog w1 -> wscript w1' = wscript w1 ->
  events w1' = events w1 ->
  acct b r1 w1' d2 r2 w2 -> acct new r w (d1 ++ d2) r2 w2.
Proof.
  intros A Hb Hl Hs He B. constructor.
  - apply (ac_inv _ _ _ _ _ _ B).
  - rewrite (ac_stream _ _ _ _ _ _ B). apply (ac_stream _ _ _ _ _ _ A).
  - rewrite (ac_req _ _ _ _ _ _ B). apply (ac_req _ _ _ _ _ _ A).
  - destruct (ac_rd _ _ _ _ _ _ A) as [rd1 E1]. destruct (ac_rd _ _ _ _ _ _ B) as [rd2 E2].
    exists (rd1 ++ b ++ rd2). rewrite E1, Hb, E2, <- !app_assoc. reflexivity.
  - eapply suffix_trans; [apply (ac_ws _ _ _ _ _ _ B)|]. rewrite Hs. apply (ac_ws _ _ _ _ _ _ A).
  - rewrite (ac_ev _ _ _ _ _ _ B), He. apply (ac_ev _ _ _ _ _ _ A).
  - rewrite (ac_K _ _ _ _ _ _ A), Hb, (ac_K _ _ _ _ _ _ B), app_assoc. reflexivity.
  - destruct (ac_R _ _ _ _ _ _ A) as (f1 & L1 & R1). destruct (ac_R _ _ _ _ _ _ B) as (f2 & L2 & R2).
    exists (f1 ++ f2). split; [rewrite L2, Hl, L1, app_assoc; reflexivity|].
    rewrite R1, Hb, R2, app_assoc. reflexivity.
  - intros sg Hls. rewrite (ac_F _ _ _ _ _ _ A sg Hls), Hb. apply (ac_F _ _ _ _ _ _ B sg).
    unfold later_stream in *. cbn [abs a_stream a_req] in *.
    rewrite (ac_stream _ _ _ _ _ _ A), (ac_req _ _ _ _ _ _ A). exact Hls.
  - intros H. apply (ac_ab _ _ _ _ _ _ B). apply (ac_ab _ _ _ _ _ _ A). exact H.
Qed.

Lemma acct_trans0 r w d1 r1 w1 d2 r2 w2 :
  acct [] r w d1 r1 w1 -> acct [] r1 w1 d2 r2 w2 -> acct [] r w (d1 ++ d2) r2 w2.
Proof. intros A B. apply (acct_trans [] r w d1 r1 w1 [] w1 d2 r2 w2 A); try reflexivity. exact B. Qed.

(* the world may change in ways that do not concern the transport (events, poll counter, shutdown flag) *)
Lemma acct_world new r w dl r' w' w'' : acct new r w dl r' w' ->
  remaining w'' = remaining w' -> wlog w'' = wlog w' -> wscript w'' = wscript w' -> events w'' = events w' ->
  acct new r w dl r' w''.
Proof.
  intros A H1 H2 H3 H4. constructor; try apply A.
  - rewrite H1. apply (ac_rd _ _ _ _ _ _ A).
  - rewrite H3. apply (ac_ws _ _ _ _ _ _ A).
  - rewrite H4. apply (ac_ev _ _ _ _ _ _ A).
  - rewrite H1. apply (ac_K _ _ _ _ _ _ A).
  - rewrite H1, H2. apply (ac_R _ _ _ _ _ _ A).
  - intros sg Hls. rewrite H1. apply (ac_F _ _ _ _ _ _ A sg Hls).
Qed.

(* the outcome of the parsing loop of poll_input *)
Definition il_case (dest : option N) (dl : bytes) (r : rstate) (w : world) (p : Conn.pres (N * bytes + N)) (r' : rstate) (w' : world) : Prop :=
  match p with
  | PReady (inl (n, b)) =>
      dl = b /\ (n = 0 -> eos (abs (rsp r'))) /\
      match dest with
      | Some c => len b = n /\ n <= c /\ stream_buffer (rsp r') = []
      | None => b = [] /\ exists d, stream_buffer (rsp r') = stream_buffer (rsp r) ++ d /\ n = len d
      end
  | PReady (inr k) =>
      (* a parser error: the bytes already copied into the caller's buffer by this call are dropped *)
      (exists e, k = perr_kind e /\ err_at (abs (rsp r')) e /\ (e = EAbortRequest \/ exists v, e = EUnknownVersion v) /\
                 (dest = None -> dl = []) /\ (forall c, dest = Some c -> len dl <= c) /\
                 (* Request.aborted records that the parser reported AbortRequest *)
                 raborted r' = raborted r || is_abort e) \/
      (* the transport reported end of file (or the parser buffer is full) *)
      (dl = [] /\ k = EK_UnexpectedEof /\ output_buffer (rsp r') = [] /\
         (remaining w' = [] \/ sinput_space (rsp r') = 0) /\ raborted r' = raborted r) \/
      (* an I/O error: a failed read is of kind Transport; every other kind is a failed write of the flush, and
         the write script says which *)
      (dl = [] /\ (k = EK_WriteZero \/ k = EK_Transport \/ k = EK_Aborted) /\ raborted r' = raborted r /\
         (k <> EK_Transport -> fault_of k (wscript w)))
  | PWake => dl = [] /\ stream_buffer (rsp r') = stream_buffer (rsp r)
  | PBlock => dl = [] /\ output_buffer (rsp r') = [] /\ stream_buffer (rsp r') = stream_buffer (rsp r) /\ gated w' /\
              (* nothing is owed for the bytes received so far *)
              (dest <> Some 0 -> R maxc (abs (rsp r')) [] = [])
  end.

(* Request.aborted along poll_input: it changes only when the parser reports AbortRequest (then it is set and the
   call returns the error kind Aborted); everything else preserves it *)
Lemma input_loop_raborted : forall fuel dest new r w p r' w',
  input_loop maxc fuel dest new r w = (p, r', w') ->
  raborted r' = raborted r \/ (raborted r' = true /\ p = PReady (inr EK_Aborted)).
Proof.
  induction fuel as [|f IH]; intros dest new r w p r' w' E.
  { cbn [input_loop] in E. injection E as <- <- <-. left. reflexivity. }
  cbn [input_loop] in E.
  destruct (sparse maxc (rsp r) new dest) as [p1 s|p1 e s|n].
  - destruct (s_end s || (0 <? s_stream s)).
    { injection E as <- <- <-. left. destruct (_ && _); reflexivity. }
    destruct (poll_output (S f) (mkR (compress p1) (rwriteable r) (rlock r) (raborted r)) w) as [[po r3] w0] eqn:EPO.
    pose proof (poll_output_ab _ _ _ _ _ _ EPO) as Pab. cbn [raborted] in Pab.
    destruct po as [[u|k]| |]; try (injection E as <- <- <-; left; exact Pab).
    destruct (t_poll_read (sinput_space (rsp r3)) w0) as [[[b|k]| |] w1]; try (injection E as <- <- <-; left; exact Pab).
    destruct b as [|x b']; [injection E as <- <- <-; left; exact Pab|].
    apply IH in E. rewrite Pab in E. exact E.
  - injection E as <- <- <-. cbn [raborted]. destruct e; cbn [is_abort perr_kind]; try (left; apply orb_false_r).
    right. split; [apply orb_true_r|reflexivity].
  - injection E as <- <- <-. left. reflexivity.
Qed.

Lemma poll_input_raborted fuel dest r w p r' w' : poll_input maxc fuel dest r w = (p, r', w') ->
  raborted r' = raborted r \/ (raborted r' = true /\ p = PReady (inr EK_Aborted)).
Proof.
  unfold poll_input. cbv zeta. intros E.
  assert (EMPTY : (match poll_output fuel r w with
     | (PReady (inl _), r1, w1) => input_loop maxc fuel dest [] r1 w1
     | (PReady (inr k), r1, w1) => (PReady (inr k), r1, w1)
     | (PWake, r1, w1) => (PWake, r1, w1)
     | (PBlock, r1, w1) => (PBlock, r1, w1)
     end) = (p, r', w') -> raborted r' = raborted r \/ (raborted r' = true /\ p = PReady (inr EK_Aborted))).
  { intros E1. destruct (poll_output fuel r w) as [[po r1] w1] eqn:EPO.
    pose proof (poll_output_ab _ _ _ _ _ _ EPO) as Pab.
    destruct po as [[u|k]| |]; try (injection E1 as <- <- <-; left; exact Pab).
    apply input_loop_raborted in E1. rewrite Pab in E1. exact E1. }
  destruct dest as [[|pc]|]; destruct (stream_buffer (rsp r)) as [|x sb];
    try (apply EMPTY; exact E); injection E as <- <- <-; left; reflexivity.
Qed.

Corollary poll_input_raborted_mono fuel dest r w p r' w' : poll_input maxc fuel dest r w = (p, r', w') ->
  raborted r = true -> raborted r' = true.
Proof. intros E H. destruct (poll_input_raborted _ _ _ _ _ _ _ E) as [H1|[H1 _]]; [rewrite H1; exact H|exact H1]. Qed.

Theorem input_loop_reads : forall fuel dest new r w p r' w',
  pinv (rsp r) -> bytes_ok (remaining w) -> bytes_ok new -> len new <= sinput_space (rsp r) ->
  (dest <> None -> stream_buffer (rsp r) = []) ->
  (length (wscript w) + length (remaining w) + 2 <= fuel)%nat ->
  input_loop maxc fuel dest new r w = (p, r', w') ->
  exists dl, acct new r w dl r' w' /\ il_case dest dl r w p r' w' /\
             rwriteable r' = rwriteable r || (is_inl p && is_final_stream r).
Proof.
  induction fuel as [|f IH]; intros dest new r w p r' w' Hinv Hrem Hnew Hfit Hd Hf E; [lia|].
  cbn [input_loop] in E.
  pose proof (sparse_step (rsp r) new dest Hinv Hnew Hfit Hd) as SS.
  destruct (sparse maxc (rsp r) new dest) as [p1 s|p1 e s|n] eqn:ESP; [| |contradiction].
  2:{ (* Err(e)? *)
      injection E as <- <- <-. destruct SS as (SO & He & Hk). exists (s_dest s). split; [|split].
      - constructor; cbn [rsp].
        + apply SO.
        + apply SO.
        + apply SO.
        + exists []. reflexivity.
        + apply suffix_refl.
        + reflexivity.
        + apply (so_K _ _ _ _ _ SO).
        + exists []. rewrite app_nil_r. split; [reflexivity|apply (so_R _ _ _ _ _ SO)].
        + intros sg Hls. apply (so_F _ _ _ _ _ SO sg _ Hls).
        + cbn [raborted]. intros ->. reflexivity.
      - cbn [il_case rsp raborted]. left. exists e. split; [reflexivity|]. split; [exact He|]. split; [exact Hk|].
        split; [intros Hn; apply (so_none _ _ _ _ _ SO Hn)|split; [intros c Hc; apply (so_some _ _ _ _ _ SO c Hc)|reflexivity]].
      - cbn [rwriteable is_inl andb]. rewrite orb_false_r. reflexivity. }
  destruct SS as (SO & Hend).
  assert (Hfin : forall wr lk ab, is_final_stream (mkR p1 wr lk ab) = is_final_stream r).
  { intros wr lk ab. apply is_final_stream_eq; cbn [rsp]; apply SO. }
  destruct (s_end s || (0 <? s_stream s)) eqn:Edone.
  { (* the parse reported stream data or the end of the stream *)
    remember (if negb (rwriteable (mkR p1 (rwriteable r) (rlock r) (raborted r))) && is_final_stream (mkR p1 (rwriteable r) (rlock r) (raborted r))
               then mkR p1 true (rlock r) (raborted r) else mkR p1 (rwriteable r) (rlock r) (raborted r)) as r2 eqn:Er2.
    assert (H2 : rsp r2 = p1 /\ rwriteable r2 = rwriteable r || is_final_stream r /\ raborted r2 = raborted r).
    { subst r2. cbn [rwriteable]. rewrite Hfin. destruct (rwriteable r), (is_final_stream r); cbn [negb andb orb rsp rwriteable raborted]; repeat split; reflexivity. }
    destruct H2 as (H2 & H3 & H4). injection E as <- <- <-. exists (s_dest s). split; [|split].
    - constructor; rewrite ?H2.
      + apply SO.
      + apply SO.
      + apply SO.
      + exists []. reflexivity.
      + apply suffix_refl.
      + reflexivity.
      + apply (so_K _ _ _ _ _ SO).
      + exists []. rewrite app_nil_r. split; [reflexivity|apply (so_R _ _ _ _ _ SO)].
      + intros sg Hls. apply (so_F _ _ _ _ _ SO sg _ Hls).
      + rewrite H4. exact (fun x => x).
    - cbn [il_case]. rewrite H2. split; [reflexivity|]. split.
      + intros H0. apply Hend. rewrite H0 in Edone. change (0 <? 0) with false in Edone. rewrite orb_false_r in Edone. exact Edone.
      + destruct dest as [c|].
        * destruct (so_some _ _ _ _ _ SO c eq_refl) as (A & B & C). split; [symmetry; exact B|]. split; [lia|exact A].
        * destruct (so_none _ _ _ _ _ SO eq_refl) as (A & d & B & C). split; [exact A|]. exists d. split; [exact B|exact C].
    - cbn [is_inl andb]. exact H3. }
  (* neither: the status is empty, the parse call delivered nothing *)
  apply orb_false_iff in Edone. destruct Edone as [Eend Estr].
  assert (Hz : s_stream s = 0) by (destruct (N.ltb_spec 0 (s_stream s)); [discriminate|lia]).
  assert (Hdest : s_dest s = []).
  { destruct dest as [c|].
    - destruct (so_some _ _ _ _ _ SO c eq_refl) as (_ & B & _). apply len_zero_nil. lia.
    - apply (so_none _ _ _ _ _ SO eq_refl). }
  assert (Hsb1 : stream_buffer p1 = stream_buffer (rsp r)).
  { destruct dest as [c|].
    - destruct (so_some _ _ _ _ _ SO c eq_refl) as (A & _). rewrite A. symmetry. apply Hd. discriminate.
    - destruct (so_none _ _ _ _ _ SO eq_refl) as (_ & d & B & C). rewrite B.
      assert (d = []) by (apply len_zero_nil; lia). subst d. apply app_nil_r. }
  pose proof (so_inv _ _ _ _ _ SO) as [RI1 I1].
  destruct (compress_views p1 RI1) as (V1 & V2 & V3 & V4 & V5 & V6).
  pose proof (compress_abs p1 RI1) as CA.
  set (r2 := mkR (compress p1) (rwriteable r) (rlock r) (raborted r)) in E.
  assert (Hinv2 : pinv (rsp r2)).
  { split; [exact V1|]. cbn [r2 rsp]. rewrite CA. apply compress_inv. exact I1. }
  destruct (poll_output (S f) r2 w) as [[po r3] w0] eqn:EPO.
  destruct (poll_output_abs _ _ _ _ _ _ EPO Hinv2 ltac:(lia))
    as (fl & P1 & P2 & P3 & P4 & P5 & P6 & P7 & P8 & P9 & P10 & P11 & P12).
  cbn [r2 rsp rwriteable] in P4, P5, P6, P7, P8, P9, P11.
  pose proof (poll_output_ab _ _ _ _ _ _ EPO) as Pab. cbn [r2 raborted] in Pab.
  pose proof (same_but_io_remaining _ _ P2) as Prem.
  (* the account of the prefix: parse, compress, flush *)
  assert (PK : forall u, K (abs (rsp r)) (new ++ u) = K (abs (rsp r3)) u).
  { intros u. rewrite (so_K _ _ _ _ _ SO u), Hdest, P5, K_set_out, CA. reflexivity. }
  assert (PR : forall u, R maxc (abs (rsp r)) (new ++ u) = fl ++ R maxc (abs (rsp r3)) u).
  { intros u. rewrite (so_R _ _ _ _ _ SO u), P5.
    rewrite <- (R_split (abs (compress p1)) fl (output_buffer (rsp r3)) u) by exact P4.
    rewrite CA. reflexivity. }
  assert (PF : forall sg u, later_stream (abs (rsp r)) sg ->
            F (Some sg) (abs (rsp r)) (new ++ u) = F (Some sg) (abs (rsp r3)) u).
  { intros sg u Hls. rewrite (so_F _ _ _ _ _ SO sg u Hls), P5.
    change (F (Some sg) (set_out (abs (compress p1)) (output_buffer (rsp r3))) u) with (F (Some sg) (abs (compress p1)) u).
    rewrite CA. reflexivity. }
  assert (Pev : events w0 = events w) by apply P2.
  assert (PRE : forall w1, remaining w1 = remaining w0 -> wlog w1 = wlog w0 -> wscript w1 = wscript w0 ->
            events w1 = events w0 -> acct new r w [] r3 w1).
  { intros w1 Q1 Q2 Q3 Q4. constructor.
    - exact P10.
    - rewrite P8. apply SO.
    - rewrite P9. apply SO.
    - exists []. rewrite Q1, Prem. reflexivity.
    - rewrite Q3. exact P3.
    - rewrite Q4. exact Pev.
    - rewrite Q1, Prem. apply PK.
    - exists fl. split; [rewrite Q2; exact P1|]. rewrite Q1, Prem. apply PR.
    - intros sg Hls. rewrite Q1, Prem. apply PF. exact Hls.
    - rewrite Pab. exact (fun x => x). }
  assert (Hsb3 : stream_buffer (rsp r3) = stream_buffer (rsp r)) by (rewrite P6, V2; exact Hsb1).
  assert (Hwr3 : forall q, rwriteable r3 = rwriteable r || (false && q)) by (intros q; rewrite orb_false_r; exact P11).
  destruct po as [[u|k]| |].
  - (* output flushed: read from the transport *)
    destruct (t_poll_read (sinput_space (rsp r3)) w0) as [pr w1] eqn:ER.
    destruct (t_poll_read_rem _ _ _ _ ER) as (T1 & T2 & T3 & T4).
    pose proof (t_poll_read_events _ _ _ _ ER) as Tev.
    destruct pr as [[b|k]| |].
    + destruct T4 as (Tr & Tl & Tnil). destruct b as [|x b'].
      * injection E as <- <- <-. exists []. split; [|split; [|apply Hwr3]].
        -- apply PRE; [|exact T1|exact T2|exact Tev]. rewrite Tr. reflexivity.
        -- cbn [il_case]. right. left. split; [reflexivity|]. split; [reflexivity|]. split; [exact P12|]. split; [|exact Pab].
           destruct (Tnil eq_refl) as [H0|H0]; [right; exact H0|left].
           rewrite Tr in H0. exact H0.
      * assert (Hb : bytes_ok (x :: b' ++ remaining w1)) by (rewrite <- Prem, Tr in Hrem; exact Hrem).
        change (x :: b' ++ remaining w1) with ((x :: b') ++ remaining w1) in Hb. apply bytes_ok_app in Hb.
        assert (Hf' : (length (wscript w1) + length (remaining w1) + 2 <= f)%nat).
        { rewrite T2. pose proof (suffix_length _ _ P3). rewrite <- Prem, Tr in Hf.
          cbn [app length] in Hf. rewrite app_length in Hf. lia. }
        assert (Hd3 : dest <> None -> stream_buffer (rsp r3) = []) by (intros Hx; rewrite Hsb3; apply Hd; exact Hx).
        destruct (IH dest (x :: b') r3 w1 p r' w' P10 (proj2 Hb) (proj1 Hb) Tl Hd3 Hf' E) as (dl & A & C & W).
        exists dl. split; [|split].
        -- change dl with ([] ++ dl). eapply acct_trans; [apply (PRE w0); reflexivity|exact Tr|exact T1|exact T2|exact Tev|exact A].
        -- unfold il_case in *. destruct p as [[[n b]|k]| |]; try (rewrite Hsb3 in C; exact C).
           rewrite Pab in C. destruct C as [C|[C|(C1 & C2 & C3 & C4)]]; [left; exact C|right; left; exact C|right; right].
           split; [exact C1|]. split; [exact C2|]. split; [exact C3|]. intros Hk'.
           eapply fault_of_suffix; [|apply C4; exact Hk']. rewrite T2. exact P3.
        -- rewrite W, P11. f_equal. f_equal. apply is_final_stream_eq; [rewrite P9; apply SO|rewrite P8; apply SO].
    + destruct T4 as [Tr Tk]. injection E as <- <- <-. exists []. split; [|split; [|apply Hwr3]].
      * apply PRE; assumption.
      * cbn [il_case]. right. right. split; [reflexivity|]. split; [right; left; exact Tk|]. split; [exact Pab|].
        intros Hne. contradiction.
    + injection E as <- <- <-. exists []. split; [|split; [|apply Hwr3]].
      * apply PRE; assumption.
      * cbn [il_case]. split; [reflexivity|exact Hsb3].
    + destruct T4 as [-> Tg]. injection E as <- <- <-. exists []. split; [|split; [|apply Hwr3]].
      * apply PRE; reflexivity.
      * cbn [il_case]. split; [reflexivity|]. split; [exact P12|]. split; [exact Hsb3|]. split; [exact Tg|].
        intros Hd0. rewrite P5, P12, CA, R_set_out_compress.
        apply (sparse_quiet (rsp r) new dest p1 s Hinv Hnew Hfit Hd Hd0 ESP Eend Hz).
  - injection E as <- <- <-. exists []. split; [|split; [|apply Hwr3]].
    + apply PRE; reflexivity.
    + cbn [il_case]. right. right. split; [reflexivity|]. split; [eapply fault_of_kind; exact P12|]. split; [exact Pab|].
      intros _. exact P12.
  - injection E as <- <- <-. exists []. split; [|split; [|apply Hwr3]].
    + apply PRE; reflexivity.
    + cbn [il_case]. split; [reflexivity|exact Hsb3].
  - contradiction.
Qed.

(* ---- Request::poll_output as an operation on the Request ---- *)
Lemma poll_output_acct fuel r w p r1 w1 : poll_output fuel r w = (p, r1, w1) -> pinv (rsp r) ->
  (length (wscript w) + 1 < fuel)%nat ->
  acct [] r w [] r1 w1 /\ remaining w1 = remaining w /\
  stream_buffer (rsp r1) = stream_buffer (rsp r) /\ sinput_space (rsp r1) = sinput_space (rsp r) /\
  rwriteable r1 = rwriteable r /\
  (forall e, err_at (abs (rsp r)) e -> err_at (abs (rsp r1)) e) /\ (eos (abs (rsp r)) -> eos (abs (rsp r1))) /\
  (output_buffer (rsp r) = [] -> p = PReady (inl tt) /\ w1 = w /\ rsp r1 = rsp r) /\
  match p with
  | PReady (inl _) => output_buffer (rsp r1) = []
  | PReady (inr k) => fault_of k (wscript w)
  | PWake => True
  | PBlock => False
  end.
Proof.
  intros E Hinv Hf.
  destruct (poll_output_abs _ _ _ _ _ _ E Hinv Hf) as (fl & P1 & P2 & P3 & P4 & P5 & P6 & P7 & P8 & P9 & P10 & P11 & P12).
  pose proof (same_but_io_remaining _ _ P2) as Prem.
  split; [|split; [exact Prem|split; [exact P6|split; [exact P7|split; [exact P11|split; [|split; [|split; [|exact P12]]]]]]]].
  - constructor.
    + exact P10.
    + exact P8.
    + exact P9.
    + exists []. rewrite Prem. reflexivity.
    + exact P3.
    + apply P2.
    + rewrite Prem, P5, K_set_out. reflexivity.
    + exists fl. split; [exact P1|]. rewrite Prem, P5. apply R_split. exact P4.
    + intros sg _. rewrite Prem, P5. reflexivity.
    + rewrite (poll_output_ab _ _ _ _ _ _ E). exact (fun x => x).
  - intros e He. rewrite P5. exact He.
  - intros He. rewrite P5. exact He.
  - intros Ho. destruct fuel as [|f]; [lia|]. cbn [poll_output] in E. rewrite Ho in E.
    injection E as <- <- <-. cbn [rsp]. repeat split.
Qed.

(* does poll_input reach the parser, or is it answered from the stream buffer / trivially? *)
Definition poll_parses (dest : option N) (r : rstate) : bool :=
  match dest, stream_buffer (rsp r) with
  | Some 0, _ => false
  | _, [] => true
  | _, _ :: _ => false
  end.

Definition pi_case (dest : option N) (dl : bytes) (r : rstate) (w : world) (p : Conn.pres (N * bytes + N)) (r' : rstate) (w' : world) : Prop :=
  match p with
  | PReady (inl (n, b)) =>
      dl = b /\
      match dest with
      | Some c => len b = n /\ n <= c /\ (0 < c -> n = 0 -> eos (abs (rsp r')) /\ stream_buffer (rsp r') = [])
      | None => b = [] /\ exists d, stream_buffer (rsp r') = stream_buffer (rsp r) ++ d /\ n = len d
      end
  | PReady (inr k) =>
      (exists e, k = perr_kind e /\ err_at (abs (rsp r')) e /\ (e = EAbortRequest \/ exists v, e = EUnknownVersion v) /\
                 (dest = None -> dl = []) /\ (forall c, dest = Some c -> len dl <= c) /\
                 raborted r' = raborted r || is_abort e) \/
      (dl = [] /\ k = EK_UnexpectedEof /\ output_buffer (rsp r') = [] /\
         (remaining w' = [] \/ sinput_space (rsp r') = 0) /\ raborted r' = raborted r) \/
      (dl = [] /\ (k = EK_WriteZero \/ k = EK_Transport \/ k = EK_Aborted) /\ raborted r' = raborted r /\
         (k <> EK_Transport -> fault_of k (wscript w)))
  | PWake => dl = [] /\ stream_buffer (rsp r) = [] /\ stream_buffer (rsp r') = []
  | PBlock => dl = [] /\ output_buffer (rsp r') = [] /\ stream_buffer (rsp r) = [] /\ stream_buffer (rsp r') = [] /\ gated w' /\
              R maxc (abs (rsp r')) [] = []
  end.

Lemma pi_case_transfer dest dl r1 w1 r w p r' w' : stream_buffer (rsp r1) = stream_buffer (rsp r) ->
  raborted r1 = raborted r -> suffix (wscript w1) (wscript w) ->
  pi_case dest dl r1 w1 p r' w' -> pi_case dest dl r w p r' w'.
Proof.
  intros E Eab Hs. unfold pi_case. rewrite E, Eab. destruct p as [[[n b]|k]| |]; try exact (fun H => H).
  intros [C|[C|(C1 & C2 & C3 & C4)]]; [left; exact C|right; left; exact C|right; right].
  split; [exact C1|]. split; [exact C2|]. split; [exact C3|]. intros Hk. eapply fault_of_suffix; [exact Hs|apply C4; exact Hk].
Qed.

(* a zero-length read changes nothing at all *)
Lemma poll_input_zero fuel r w : poll_input maxc fuel (Some 0) r w = (PReady (inl (0, [])), r, w).
Proof. unfold poll_input. destruct (stream_buffer (rsp r)); reflexivity. Qed.

(* items 1, 2a, 3, 4 for one call of poll_input *)
Theorem poll_input_reads fuel dest r w p r' w' :
  pinv (rsp r) -> bytes_ok (remaining w) -> (length (wscript w) + length (remaining w) + 2 <= fuel)%nat ->
  poll_input maxc fuel dest r w = (p, r', w') ->
  exists dl, acct [] r w dl r' w' /\ pi_case dest dl r w p r' w' /\
             rwriteable r' = rwriteable r || (poll_parses dest r && is_inl p && is_final_stream r).
Proof.
  intros Hinv Hrem Hf E.
  assert (EMPTY : stream_buffer (rsp r) = [] -> poll_parses dest r = true ->
    (match poll_output fuel r w with
     | (PReady (inl _), r1, w1) => input_loop maxc fuel dest [] r1 w1
     | (PReady (inr k), r1, w1) => (PReady (inr k), r1, w1)
     | (PWake, r1, w1) => (PWake, r1, w1)
     | (PBlock, r1, w1) => (PBlock, r1, w1)
     end) = (p, r', w') ->
    exists dl, acct [] r w dl r' w' /\ pi_case dest dl r w p r' w' /\
               rwriteable r' = rwriteable r || (poll_parses dest r && is_inl p && is_final_stream r)).
  { intros Esb Hpp E1. rewrite Hpp. cbn [andb].
    destruct (poll_output fuel r w) as [[po r1] w1] eqn:EPO.
    destruct (poll_output_acct _ _ _ _ _ _ EPO Hinv ltac:(lia)) as (A1 & Q1 & Q2 & Q3 & Q4 & _ & _ & _ & Q5).
    assert (NOINL : forall q, rwriteable r1 = rwriteable r || (false && q)) by (intros q; rewrite orb_false_r; exact Q4).
    pose proof (poll_output_ab _ _ _ _ _ _ EPO) as Pab1.
    rewrite Esb in Q2.
    destruct po as [[u|k]| |].
    - destruct (acct_len _ _ _ _ _ _ A1) as [L1 L2].
      destruct (input_loop_reads fuel dest [] r1 w1 p r' w' (ac_inv _ _ _ _ _ _ A1) (acct_bytes_ok _ _ _ _ _ _ A1 Hrem)
                  ltac:(constructor) ltac:(rewrite len_nil; lia) ltac:(intros _; exact Q2) ltac:(lia) E1) as (dl & A2 & C & W).
      exists dl. split; [change dl with ([] ++ dl); eapply acct_trans0; eassumption|]. split.
      + unfold il_case in C. unfold pi_case. rewrite Esb. rewrite Q2 in C.
        destruct p as [[[n b]|k]| |].
        * destruct C as (C1 & C2 & C3). split; [exact C1|]. destruct dest as [c|].
          -- destruct C3 as (C3 & C4 & C5). split; [exact C3|]. split; [exact C4|]. intros _ Hn. split; [apply C2; exact Hn|exact C5].
          -- exact C3.
        * rewrite Pab1 in C. destruct C as [C|[C|(C1 & C2 & C3 & C4)]]; [left; exact C|right; left; exact C|right; right].
          split; [exact C1|]. split; [exact C2|]. split; [exact C3|]. intros Hk'.
          eapply fault_of_suffix; [apply (ac_ws _ _ _ _ _ _ A1)|apply C4; exact Hk'].
        * destruct C as (C1 & C2). split; [exact C1|]. split; [reflexivity|exact C2].
        * destruct C as (C1 & C2 & C3 & C4 & C5). split; [exact C1|]. split; [exact C2|]. split; [reflexivity|]. split; [exact C3|].
          split; [exact C4|]. apply C5. intros ->. unfold poll_parses in Hpp. discriminate Hpp.
      + rewrite W, Q4. f_equal. f_equal. apply is_final_stream_eq; [apply (ac_req _ _ _ _ _ _ A1)|apply (ac_stream _ _ _ _ _ _ A1)].
    - injection E1 as <- <- <-. exists []. split; [exact A1|]. split; [|apply NOINL].
      cbn [pi_case]. right. right. split; [reflexivity|]. split; [eapply fault_of_kind; exact Q5|]. split; [exact Pab1|].
      intros _. exact Q5.
    - injection E1 as <- <- <-. exists []. split; [exact A1|]. split; [|apply NOINL].
      cbn [pi_case]. split; [reflexivity|]. split; [exact Esb|exact Q2].
    - contradiction. }
  destruct dest as [[|pc]|].
  - rewrite poll_input_zero in E. injection E as <- <- <-. exists []. split; [apply acct_refl; exact Hinv|]. split.
    + cbn [pi_case]. rewrite len_nil. split; [reflexivity|]. split; [reflexivity|]. split; [lia|]. intros H; lia.
    + unfold poll_parses. cbn [andb]. rewrite orb_false_r. reflexivity.
  - unfold poll_input in E. cbv zeta in E. destruct (stream_buffer (rsp r)) as [|x sb] eqn:Esb.
    + apply EMPTY; [reflexivity|unfold poll_parses; rewrite Esb; reflexivity|exact E].
    + cbv beta iota in E. injection E as <- <- <-.
      set (c := N.pos pc). set (n := N.min c (len (x :: sb))).
      assert (Hn : 0 < n /\ n <= c /\ n <= len (x :: sb)) by (subst n c; rewrite len_cons; lia).
      destruct Hinv as [HRI HI].
      pose proof (consume_stream_abs (rsp r) n HRI) as CA.
      destruct (consume_stream_law maxc (abs (rsp r)) n (remaining w)) as (CK & CR & CF).
      change (a_parsed (abs (rsp r))) with (stream_buffer (rsp r)) in CK. rewrite Esb in CK.
      replace (N.min n (len (x :: sb))) with n in CK by lia.
      exists (take n (x :: sb)). split; [|split].
      * constructor; cbn [rsp app raborted]; [| | | | | | | | |exact (fun x => x)].
        -- split; [apply consume_stream_RI; exact HRI|rewrite CA; apply consume_stream_inv; exact HI].
        -- reflexivity.
        -- reflexivity.
        -- exists []. reflexivity.
        -- apply suffix_refl.
        -- reflexivity.
        -- rewrite CA. exact CK.
        -- exists []. rewrite app_nil_r. split; [reflexivity|]. rewrite CA, CR. reflexivity.
        -- intros sg _. rewrite CA, CF. reflexivity.
      * cbn [pi_case]. split; [reflexivity|]. rewrite len_take. split; [lia|]. split; [lia|]. intros _ H0. lia.
      * unfold poll_parses. rewrite Esb. cbn [rwriteable andb]. rewrite orb_false_r. reflexivity.
  - unfold poll_input in E. cbv zeta in E. destruct (stream_buffer (rsp r)) as [|x sb] eqn:Esb.
    + apply EMPTY; [reflexivity|unfold poll_parses; rewrite Esb; reflexivity|exact E].
    + cbv beta iota in E. injection E as <- <- <-. exists []. split; [apply acct_refl; exact Hinv|]. split.
      * cbn [pi_case]. split; [reflexivity|]. split; [reflexivity|]. exists []. split; [symmetry; apply app_nil_r|reflexivity].
      * unfold poll_parses. rewrite Esb. cbn [andb]. rewrite orb_false_r. reflexivity.
Qed.

Lemma poll_parses_eq dest r1 r : stream_buffer (rsp r1) = stream_buffer (rsp r) -> poll_parses dest r1 = poll_parses dest r.
Proof. intros E. unfold poll_parses. rewrite E. reflexivity. Qed.

(* ---- poll_fn(|cx| poll_input(cx, dest)).await ---- *)
Definition ai_post (dest : option N) (r : rstate) (w : world) (x : res ((N * bytes + N) * rstate)) : Prop :=
  match x with
  | Ok (res, r') w' =>
      exists dl, acct [] r w dl r' w' /\ pi_case dest dl r w (PReady res) r' w' /\
                 rwriteable r' = rwriteable r || (poll_parses dest r && is_inl (PReady res) && is_final_stream r)
  | Halt o w' =>
      (* the state of the Request at the moment the task stopped *)
      exists r', acct [] r w [] r' w' /\ rwriteable r' = rwriteable r /\
                 stream_buffer (rsp r') = stream_buffer (rsp r) /\ (o = ODeadlock \/ o = OFuel) /\
                 (o = ODeadlock -> output_buffer (rsp r') = [] /\ stream_buffer (rsp r') = [] /\ gated w' /\
                                   R maxc (abs (rsp r')) [] = [])
  end.

Theorem await_input_reads : forall fuel dest r w, pinv (rsp r) -> bytes_ok (remaining w) ->
  ai_post dest r w (await_input maxc fuel dest r w).
Proof.
  induction fuel as [|f IH]; intros dest r w Hinv Hrem.
  { cbn [await_input ai_post]. exists r. split; [apply acct_refl; exact Hinv|]. split; [reflexivity|]. split; [reflexivity|].
    split; [right; reflexivity|discriminate]. }
  cbn [await_input].
  destruct (poll_input maxc (io_fuel w (len (buffer (rsp r)))) dest r w) as [[p r1] w1] eqn:EP.
  destruct (poll_input_reads (io_fuel w (len (buffer (rsp r)))) dest r w p r1 w1 Hinv Hrem
              ltac:(rewrite io_fuel_remaining; lia) EP) as (dl & A & C & W).
  assert (RETRY : forall w1', remaining w1' = remaining w1 -> wlog w1' = wlog w1 -> wscript w1' = wscript w1 ->
            events w1' = events w1 -> dl = [] -> stream_buffer (rsp r) = [] -> stream_buffer (rsp r1) = [] -> is_inl p = false ->
            raborted r1 = raborted r ->
            ai_post dest r w (await_input maxc f dest r1 w1')).
  { intros w1' Q1 Q2 Q3 Q4 -> S0 S1 Hp Eab.
    assert (Esb : stream_buffer (rsp r1) = stream_buffer (rsp r)) by (rewrite S0, S1; reflexivity).
    assert (Ewr : rwriteable r1 = rwriteable r) by (rewrite W, Hp, andb_false_r, orb_false_r; reflexivity).
    pose proof (acct_world _ _ _ _ _ _ w1' A Q1 Q2 Q3 Q4) as A'.
    specialize (IH dest r1 w1' (ac_inv _ _ _ _ _ _ A) ltac:(rewrite Q1; apply (acct_bytes_ok _ _ _ _ _ _ A Hrem))).
    destruct (await_input maxc f dest r1 w1') as [[res r2] w2|o w2]; cbn [ai_post] in *.
    - destruct IH as (dl2 & A2 & C2 & W2). exists dl2.
      split; [change dl2 with ([] ++ dl2); eapply acct_trans0; eassumption|].
      split; [apply (pi_case_transfer dest dl2 r1 w1' r w _ _ _ Esb Eab ltac:(rewrite Q3; apply (ac_ws _ _ _ _ _ _ A)) C2)|].
      rewrite W2, Ewr, (poll_parses_eq dest r1 r Esb). f_equal. f_equal.
      apply is_final_stream_eq; [apply (ac_req _ _ _ _ _ _ A)|apply (ac_stream _ _ _ _ _ _ A)].
    - destruct IH as (r2 & A2 & W2 & S2 & O2 & D2). exists r2.
      split; [change (@nil N) with (@nil N ++ []); eapply acct_trans0; eassumption|].
      split; [congruence|]. split; [congruence|]. split; assumption. }
  destruct p as [x| |].
  - cbn [ai_post]. exists dl. split; [exact A|]. split; [exact C|exact W].
  - unfold on_wake. cbn [andb]. destruct C as (C1 & C2 & C3).
    destruct (poll_input_raborted _ _ _ _ _ _ _ EP) as [Hab|[_ Hab]]; [|discriminate Hab].
    apply RETRY; try reflexivity; assumption.
  - destruct C as (C1 & C2 & C3 & C4 & C5 & C6). unfold on_block.
    destruct (poll_input_raborted _ _ _ _ _ _ _ EP) as [Hab|[_ Hab]]; [|discriminate Hab].
    destruct (negb (stop_at w1 =? 0) && negb (stopped w1)).
    + apply RETRY; try reflexivity; assumption.
    + cbn [ai_post]. exists r1. subst dl. split; [exact A|].
      split; [rewrite W; cbn [is_inl]; rewrite andb_false_r, orb_false_r; reflexivity|].
      split; [rewrite C3, C4; reflexivity|]. split; [left; reflexivity|]. intros _. split; [exact C2|]. split; [exact C4|]. split; assumption.
Qed.

(* with the fuel the model supplies the loop bound is not reached *)
Lemma await_input_no_fuel dest r w w' : rgood r -> world_ok w -> await_input maxc (io_fuel w 0) dest r w <> Halt OFuel w'.
Proof.
  intros G Wok E. pose proof (await_input_io (fun b => b) maxc dest r w G Wok) as H. rewrite E in H.
  destruct H as [_ [H|[H _]]]; discriminate H.
Qed.

(* ------------------------------------------------------------------------------------------ *)
(* Part 3: states in which the parser does not move: an error header, the end of the stream     *)
(* ------------------------------------------------------------------------------------------ *)

Lemma optN_eqb_eq a b : optN_eqb a b = true -> a = b.
Proof. destruct a, b; cbn [optN_eqb]; intros H; try discriminate H; [apply N.eqb_eq in H; congruence|reflexivity]. Qed.

Lemma feed_nil a : feed a [] = a.
Proof.
  unfold feed. rewrite app_nil_r. change (len (@nil N)) with 0. rewrite N.sub_0_r. destruct a; reflexivity.
Qed.

Lemma err_at_feed a new e : err_at a e -> err_at (feed a new) e.
Proof.
  intros (Hp & Hq & H8 & Hh). unfold err_at, ri in *. cbn [feed a_prem a_pad a_raw a_req].
  rewrite len_app. rewrite (take_app_le HEADER_LEN _ new H8). repeat split; try assumption. lia.
Qed.

(* a call made while the parser stands at an error header reports the same error and moves nothing *)
Lemma aparse_err a new dest e : legal a new dest -> err_at a e ->
  aparse maxc a new dest = AFail (feed a new) e (res0 a).
Proof.
  intros Hleg He. rewrite (aparse_eq maxc a new dest Hleg).
  replace (2 * N.to_nat (a_B a) + 8)%nat with (S (2 * N.to_nat (a_B a) + 7)) by lia.
  rewrite (aparse_loop_err maxc _ (l0 a new dest) e); [reflexivity|]. cbn [l0 al]. apply err_at_feed. exact He.
Qed.

Lemma at_term_inv a : at_term a = true -> a_prem a = 0 /\ a_pad a = 0 /\ HEADER_LEN <= len (a_raw a).
Proof.
  unfold at_term, at_terminator. intros H.
  apply andb_prop in H. destruct H as [H _]. apply andb_prop in H. destruct H as [H H3].
  apply andb_prop in H. destruct H as [H1 H2]. apply N.eqb_eq in H1, H2. apply N.leb_le in H3. tauto.
Qed.

Lemma aparse_head_term l : at_term (al l) = true ->
  aparse_head l = ABreak (mkAL (al l) (set_end (ares l)) (acap l)).
Proof.
  intros H. destruct (at_term_inv _ H) as (H1 & H2 & H3).
  unfold at_term, at_terminator, rl, ri in H. apply andb_prop in H. destruct H as [_ H4].
  rewrite aparse_head_eq. cbv zeta. unfold a_boundary. rewrite H1, H2. change (negb ((0 =? 0) && (0 =? 0))) with false. cbv iota.
  destruct (N.ltb_spec (len (a_raw (al l))) HEADER_LEN) as [Hl|_]; [lia|].
  destruct (hdr_decode (take HEADER_LEN (a_raw (al l)))) as [t hid cl pl|v|t]; try discriminate H4.
  apply andb_prop in H4. destruct H4 as [H4 H5]. rewrite H4.
  destruct (cmp_input_streams (r_role (a_req (al l))) t (a_stream (al l))) as [[| |]|]; try discriminate H5.
  - rewrite H5. reflexivity.
  - reflexivity.
Qed.

Lemma aparse_loop_term f l : at_term (al l) = true ->
  aparse_loop maxc (S f) l = ABreak (mkAL (al l) (set_end (ares l)) (acap l)).
Proof.
  intros H. destruct (at_term_inv _ H) as (H1 & H2 & H3). cbn [aparse_loop].
  destruct (a_raw (al l)) as [|b r] eqn:Eraw.
  { change (len (@nil N)) with 0 in H3. unfold HEADER_LEN in H3. lia. }
  rewrite aparse_iter_eq. rewrite H1, ltb_0_0.
  unfold after_payload. cbv zeta. rewrite H2, ltb_0_0.
  rewrite (aparse_head_term l H). reflexivity.
Qed.

(* a call made while the parser stands at the end of the active stream reports the end again, delivers
   nothing, produces no output and moves nothing *)
Lemma aparse_term a dest : legal a [] dest -> at_term a = true ->
  aparse maxc a [] dest = AOk a (set_end (res0 a)).
Proof.
  intros Hleg Ht. rewrite (aparse_eq maxc a [] dest Hleg).
  replace (2 * N.to_nat (a_B a) + 8)%nat with (S (2 * N.to_nat (a_B a) + 7)) by lia.
  rewrite (aparse_loop_term _ (l0 a [] dest)); cbn [l0 al ares]; rewrite feed_nil; [reflexivity|exact Ht].
Qed.

(* the same for the index-level parser *)
Lemma sparse_at_err p dest e : pinv p -> (dest <> None -> stream_buffer p = []) -> err_at (abs p) e ->
  exists p' s, sparse maxc p [] dest = StErr p' e s /\ pinv p' /\ abs p' = abs p /\ stream p' = stream p.
Proof.
  intros [HRI Hinv] Hd He.
  assert (Hleg : legal (abs p) [] dest).
  { split; [constructor|]. split; [rewrite len_nil; apply N.le_0_l|exact Hd]. }
  destruct (sparse_refines maxc p [] dest HRI) as [Ga Gb].
  rewrite (aparse_err _ _ _ _ Hleg He), feed_nil in Ga.
  destruct (sparse maxc p [] dest) as [p' s|p' e' s|n]; cbn [absres sparse_post] in Ga, Gb; try discriminate Ga.
  assert (Ea : abs p' = abs p) by congruence. assert (Ee : e' = e) by congruence. subst e'. destruct Gb as [R' S'].
  exists p', s. split; [reflexivity|]. split; [split; [exact R'|rewrite Ea; exact Hinv]|]. split; [exact Ea|exact S'].
Qed.

Lemma sparse_at_term p dest : pinv p -> (dest <> None -> stream_buffer p = []) -> at_term (abs p) = true ->
  exists p' s, sparse maxc p [] dest = StOk p' s /\ pinv p' /\ abs p' = abs p /\ stream p' = stream p /\
               s_end s = true /\ s_stream s = 0 /\ s_dest s = [] /\ s_output s = 0.
Proof.
  intros [HRI Hinv] Hd Ht.
  assert (Hleg : legal (abs p) [] dest).
  { split; [constructor|]. split; [rewrite len_nil; apply N.le_0_l|exact Hd]. }
  destruct (sparse_refines maxc p [] dest HRI) as [Ga Gb].
  rewrite (aparse_term _ _ Hleg Ht) in Ga.
  destruct (sparse maxc p [] dest) as [p' s|p' e' s|n]; cbn [absres sparse_post] in Ga, Gb; try discriminate Ga.
  assert (Ea : abs p' = abs p) by congruence. assert (Es : s = set_end (res0 (abs p))) by congruence. destruct Gb as [R' S'].
  exists p', s. split; [reflexivity|]. split; [split; [exact R'|rewrite Ea; exact Hinv]|]. split; [exact Ea|].
  split; [exact S'|]. rewrite Es. repeat split.
Qed.

(* item 4 (C11): an error of the parser is reported again by every later poll_input, without reading from the
   transport; the only other outcomes are those of flushing the pending output first, and a read that is
   answered from the stream buffer *)
Theorem poll_input_sticky fuel dest r w p r' w' e :
  pinv (rsp r) -> err_at (abs (rsp r)) e -> (length (wscript w) + 1 < fuel)%nat ->
  poll_input maxc fuel dest r w = (p, r', w') ->
  remaining w' = remaining w /\ rscript w' = rscript w /\ pinv (rsp r') /\ err_at (abs (rsp r')) e /\
  (poll_parses dest r = true ->
     match p with
     | PReady (inr k) => k = perr_kind e \/ (fault_of k (wscript w) /\ output_buffer (rsp r) <> [])
     | PWake => output_buffer (rsp r) <> []
     | _ => False
     end) /\
  (poll_parses dest r = true -> output_buffer (rsp r) = [] -> p = PReady (inr (perr_kind e)) /\ w' = w) /\
  (poll_parses dest r = false -> is_inl p = true /\ w' = w).
Proof.
  intros Hinv He Hf E.
  assert (EMPTY : stream_buffer (rsp r) = [] ->
    (match poll_output fuel r w with
     | (PReady (inl _), r1, w1) => input_loop maxc fuel dest [] r1 w1
     | (PReady (inr k), r1, w1) => (PReady (inr k), r1, w1)
     | (PWake, r1, w1) => (PWake, r1, w1)
     | (PBlock, r1, w1) => (PBlock, r1, w1)
     end) = (p, r', w') ->
    remaining w' = remaining w /\ rscript w' = rscript w /\ pinv (rsp r') /\ err_at (abs (rsp r')) e /\
    match p with
    | PReady (inr k) => k = perr_kind e \/ (fault_of k (wscript w) /\ output_buffer (rsp r) <> [])
    | PWake => output_buffer (rsp r) <> []
    | _ => False
    end /\
    (output_buffer (rsp r) = [] -> p = PReady (inr (perr_kind e)) /\ w' = w)).
  { intros Esb E1.
    destruct (poll_output fuel r w) as [[po r1] w1] eqn:EPO.
    destruct (poll_output_acct _ _ _ _ _ _ EPO Hinv Hf) as (A1 & Q1 & Q2 & Q3 & Q4 & Q5 & _ & Q6 & Q7).
    destruct (poll_output_abs _ _ _ _ _ _ EPO Hinv Hf) as (_ & _ & (_ & _ & _ & _ & _ & _) & _).
    assert (Hrs : rscript w1 = rscript w).
    { destruct (poll_output_abs _ _ _ _ _ _ EPO Hinv Hf) as (fl & _ & (S1 & _) & _). exact S1. }
    assert (NE : po <> PReady (inl tt) -> output_buffer (rsp r) <> []).
    { intros Hpo Ho. apply Hpo. apply (Q6 Ho). }
    destruct po as [[u|k]| |].
    - destruct fuel as [|f]; [lia|]. cbn [input_loop] in E1.
      destruct (sparse_at_err (rsp r1) dest e (ac_inv _ _ _ _ _ _ A1) ltac:(intros _; rewrite Q2; exact Esb) (Q5 e He))
        as (p2 & s & ES & I2 & A2 & S2).
      rewrite ES in E1. injection E1 as <- <- <-. cbn [rsp].
      split; [exact Q1|]. split; [exact Hrs|]. split; [exact I2|]. split; [rewrite A2; apply Q5; exact He|].
      split; [left; reflexivity|]. intros Ho. destruct (Q6 Ho) as (_ & -> & _). split; reflexivity.
    - injection E1 as <- <- <-.
      split; [exact Q1|]. split; [exact Hrs|]. split; [apply A1|]. split; [apply Q5; exact He|].
      split; [right; split; [exact Q7|apply NE; discriminate]|].
      intros Ho. destruct (Q6 Ho) as (Hx & _). discriminate Hx.
    - injection E1 as <- <- <-.
      split; [exact Q1|]. split; [exact Hrs|]. split; [apply A1|]. split; [apply Q5; exact He|].
      split; [apply NE; discriminate|]. intros Ho. destruct (Q6 Ho) as (Hx & _). discriminate Hx.
    - contradiction. }
  destruct dest as [[|pc]|].
  - rewrite poll_input_zero in E. injection E as <- <- <-.
    split; [reflexivity|]. split; [reflexivity|]. split; [exact Hinv|]. split; [exact He|].
    unfold poll_parses. split; [discriminate|]. split; [discriminate|]. intros _. split; reflexivity.
  - unfold poll_input in E. cbv zeta in E. destruct (stream_buffer (rsp r)) as [|x sb] eqn:Esb.
    + destruct (EMPTY eq_refl E) as (B1 & B2 & B3 & B4 & B5 & B6).
      split; [exact B1|]. split; [exact B2|]. split; [exact B3|]. split; [exact B4|].
      split; [intros _; exact B5|]. split; [intros _; exact B6|]. unfold poll_parses. rewrite Esb. discriminate.
    + cbv beta iota in E. injection E as <- <- <-. cbn [rsp].
      destruct Hinv as [HRI HI].
      pose proof (consume_stream_abs (rsp r) (N.min (N.pos pc) (len (x :: sb))) HRI) as CA.
      split; [reflexivity|]. split; [reflexivity|].
      split; [split; [apply consume_stream_RI; exact HRI|rewrite CA; apply consume_stream_inv; exact HI]|].
      split; [rewrite CA; exact He|]. unfold poll_parses. rewrite Esb.
      split; [discriminate|]. split; [discriminate|]. intros _. split; reflexivity.
  - unfold poll_input in E. cbv zeta in E. destruct (stream_buffer (rsp r)) as [|x sb] eqn:Esb.
    + destruct (EMPTY eq_refl E) as (B1 & B2 & B3 & B4 & B5 & B6).
      split; [exact B1|]. split; [exact B2|]. split; [exact B3|]. split; [exact B4|].
      split; [intros _; exact B5|]. split; [intros _; exact B6|]. unfold poll_parses. rewrite Esb. discriminate.
    + cbv beta iota in E. injection E as <- <- <-.
      split; [reflexivity|]. split; [reflexivity|]. split; [exact Hinv|]. split; [exact He|].
      unfold poll_parses. rewrite Esb. split; [discriminate|]. split; [discriminate|]. intros _. split; reflexivity.
Qed.

(* item 1, end of file persists: once the parser stands at the header that ends the active stream, every
   read into a non-empty buffer returns Ok(0) again without touching the transport (the only other
   outcomes are those of flushing pending output first), until set_stream selects another stream *)
Theorem poll_input_eof fuel c r w p r' w' :
  pinv (rsp r) -> at_term (abs (rsp r)) = true -> stream_buffer (rsp r) = [] -> 0 < c ->
  (length (wscript w) + 1 < fuel)%nat ->
  poll_input maxc fuel (Some c) r w = (p, r', w') ->
  remaining w' = remaining w /\ rscript w' = rscript w /\ pinv (rsp r') /\
  at_term (abs (rsp r')) = true /\ stream_buffer (rsp r') = [] /\
  match p with
  | PReady (inl (n, b)) => n = 0 /\ b = []
  | PReady (inr k) => fault_of k (wscript w) /\ output_buffer (rsp r) <> []
  | PWake => output_buffer (rsp r) <> []
  | PBlock => False
  end /\
  (output_buffer (rsp r) = [] -> p = PReady (inl (0, [])) /\ w' = w).
Proof.
  intros Hinv Ht Esb Hc Hf E.
  unfold poll_input in E. cbv zeta in E. rewrite Esb in E. destruct c as [|pc]; [lia|]. cbv beta iota in E.
  destruct (poll_output fuel r w) as [[po r1] w1] eqn:EPO.
  destruct (poll_output_acct _ _ _ _ _ _ EPO Hinv Hf) as (A1 & Q1 & Q2 & Q3 & Q4 & Q5 & _ & Q6 & Q7).
  destruct (poll_output_abs _ _ _ _ _ _ EPO Hinv Hf) as (fl & _ & (Hrs & _) & _ & _ & HA & _).
  assert (Ht1 : at_term (abs (rsp r1)) = true) by (rewrite HA; exact Ht).
  rewrite Esb in Q2.
  assert (NE : po <> PReady (inl tt) -> output_buffer (rsp r) <> []).
  { intros Hpo Ho. apply Hpo. apply (Q6 Ho). }
  destruct po as [[u|k]| |].
  - destruct fuel as [|f]; [lia|]. cbn [input_loop] in E.
    destruct (sparse_at_term (rsp r1) (Some (N.pos pc)) (ac_inv _ _ _ _ _ _ A1) ltac:(intros _; exact Q2) Ht1)
      as (p2 & s & ES & I2 & A2 & S2 & E1 & E2 & E3 & E4).
    rewrite ES, E1 in E. cbn [orb] in E.
    remember (if negb (rwriteable (mkR p2 (rwriteable r1) (rlock r1) (raborted r1))) && is_final_stream (mkR p2 (rwriteable r1) (rlock r1) (raborted r1))
              then mkR p2 true (rlock r1) (raborted r1) else mkR p2 (rwriteable r1) (rlock r1) (raborted r1)) as r2 eqn:Er2.
    assert (H2 : rsp r2 = p2) by (subst r2; destruct (_ && _); reflexivity).
    injection E as <- <- <-. rewrite H2, E2, E3.
    split; [exact Q1|]. split; [exact Hrs|]. split; [exact I2|]. split; [rewrite A2; exact Ht1|].
    split; [change (stream_buffer p2) with (a_parsed (abs p2)); rewrite A2; exact Q2|].
    split; [split; reflexivity|]. intros Ho. destruct (Q6 Ho) as (_ & -> & _). split; reflexivity.
  - injection E as <- <- <-.
    split; [exact Q1|]. split; [exact Hrs|]. split; [apply A1|]. split; [exact Ht1|]. split; [exact Q2|].
    split; [split; [exact Q7|apply NE; discriminate]|]. intros Ho. destruct (Q6 Ho) as (Hx & _). discriminate Hx.
  - injection E as <- <- <-.
    split; [exact Q1|]. split; [exact Hrs|]. split; [apply A1|]. split; [exact Ht1|]. split; [exact Q2|].
    split; [apply NE; discriminate|]. intros Ho. destruct (Q6 Ho) as (Hx & _). discriminate Hx.
  - contradiction.
Qed.

(* when does a read return Ok(0)?  only at the end of the stream (no stream selected, or the parser in front
   of the terminating header), with nothing buffered *)
Corollary poll_input_zero_is_eof fuel c r w b r' w' :
  pinv (rsp r) -> bytes_ok (remaining w) -> (length (wscript w) + length (remaining w) + 2 <= fuel)%nat -> 0 < c ->
  poll_input maxc fuel (Some c) r w = (PReady (inl (0, b)), r', w') ->
  b = [] /\ eos (abs (rsp r')) /\ stream_buffer (rsp r') = [] /\ K (abs (rsp r)) (remaining w) = K (abs (rsp r')) (remaining w').
Proof.
  intros Hinv Hrem Hf Hc E. destruct (poll_input_reads _ _ _ _ _ _ _ Hinv Hrem Hf E) as (dl & A & C & _).
  cbn [pi_case] in C. destruct C as (-> & C1 & _ & C3). destruct (C3 Hc eq_refl) as [C4 C5].
  assert (b = []) by (apply len_zero_nil; exact C1). subst b.
  split; [reflexivity|]. split; [exact C4|]. split; [exact C5|]. apply (ac_K _ _ _ _ _ _ A).
Qed.

(* item 4 (C11): the error kind Aborted is reported exactly for the parser error AbortRequest, i.e. when the
   parser stands at an AbortRequest header of this request *)
Lemma perr_kind_aborted e : perr_kind e = EK_Aborted <-> e = EAbortRequest.
Proof. split; [destruct e; cbn [perr_kind]; intros H; try discriminate H; reflexivity|intros ->; reflexivity]. Qed.

(* (before the transport could fail with the kind ConnectionAborted this read
     poll_input ... = (PReady (inr EK_Aborted), r', w') -> err_at (abs (rsp r')) EAbortRequest;
   that is false now: a failing flush whose transport error has the kind ConnectionAborted gives the same result.
   The two sources are told apart by Request.aborted: the parser error sets it, the flush error leaves it alone) *)
Corollary poll_input_aborted fuel dest r w r' w' :
  pinv (rsp r) -> bytes_ok (remaining w) -> (length (wscript w) + length (remaining w) + 2 <= fuel)%nat ->
  poll_input maxc fuel dest r w = (PReady (inr EK_Aborted), r', w') ->
  (err_at (abs (rsp r')) EAbortRequest /\ raborted r' = true) \/
  (fault_of EK_Aborted (wscript w) /\ raborted r' = raborted r).
Proof.
  intros Hinv Hrem Hf E. destruct (poll_input_reads _ _ _ _ _ _ _ Hinv Hrem Hf E) as (dl & A & C & _).
  cbn [pi_case] in C. destruct C as [(e & C1 & C2 & _ & _ & _ & C6)|[(_ & C1 & _)|(_ & _ & C3 & C4)]]; try discriminate C1.
  - symmetry in C1. apply perr_kind_aborted in C1. subst e. left. split; [exact C2|]. rewrite C6. apply orb_true_r.
  - right. split; [apply C4; discriminate|exact C3].
Qed.

(* on a transport whose writes do not fail the old statement holds: Aborted is reported exactly for the parser error
   AbortRequest, and the request is marked aborted *)
Corollary poll_input_aborted_no_fault fuel dest r w r' w' :
  pinv (rsp r) -> bytes_ok (remaining w) -> (length (wscript w) + length (remaining w) + 2 <= fuel)%nat ->
  no_fault (wscript w) ->
  poll_input maxc fuel dest r w = (PReady (inr EK_Aborted), r', w') ->
  err_at (abs (rsp r')) EAbortRequest /\ raborted r' = true.
Proof.
  intros Hinv Hrem Hf Hnf E. destruct (poll_input_aborted _ _ _ _ _ _ Hinv Hrem Hf E) as [H|[H _]]; [exact H|].
  exfalso. eapply no_fault_not_fault; eassumption.
Qed.

(* the converse direction for the flag: a poll that changes Request.aborted returned the parser's AbortRequest *)
Corollary poll_input_sets_aborted fuel dest r w p r' w' :
  pinv (rsp r) -> bytes_ok (remaining w) -> (length (wscript w) + length (remaining w) + 2 <= fuel)%nat ->
  poll_input maxc fuel dest r w = (p, r', w') -> raborted r = false -> raborted r' = true ->
  p = PReady (inr EK_Aborted) /\ err_at (abs (rsp r')) EAbortRequest.
Proof.
  intros Hinv Hrem Hf E H0 H1. destruct (poll_input_raborted _ _ _ _ _ _ _ E) as [H|[_ H]]; [congruence|].
  split; [exact H|]. subst p. destruct (poll_input_aborted _ _ _ _ _ _ Hinv Hrem Hf E) as [[H _]|[_ H]]; [exact H|congruence].
Qed.

Lemma input_loop_err f dest new r w p' e s : sparse maxc (rsp r) new dest = StErr p' e s ->
  input_loop maxc (S f) dest new r w = (PReady (inr (perr_kind e)), mkR p' (rwriteable r) (rlock r) (raborted r || is_abort e), w).
Proof. intros E. cbn [input_loop]. rewrite E. reflexivity. Qed.

(* record_boundary treats AbortRequest as "a record boundary was reached, go on": the parser stands at the
   AbortRequest header, which is a boundary *)
Lemma err_at_boundary p e : err_at (abs p) e -> is_record_boundary p = true.
Proof. intros (H1 & H2 & _). cbn [abs a_prem a_pad] in H1, H2. unfold is_record_boundary. rewrite H1, H2. reflexivity. Qed.

Theorem boundary_loop_abort f new r w p' s :
  pinv (rsp r) -> bytes_ok new -> len new <= sinput_space (rsp r) ->
  sparse maxc (rsp r) new None = StErr p' EAbortRequest s ->
  boundary_loop maxc (S f) new r w = Ok (None, mkR p' (rwriteable r) (rlock r) (raborted r)) w /\ err_at (abs p') EAbortRequest.
Proof.
  intros Hinv Hnew Hfit E.
  pose proof (sparse_step (rsp r) new None Hinv Hnew Hfit ltac:(intros H; contradiction)) as SS. rewrite E in SS.
  destruct SS as (_ & He & _). split; [|exact He].
  cbn [boundary_loop]. rewrite E. rewrite (err_at_boundary p' _ He). reflexivity.
Qed.

Lemma record_boundary_at_err r w e : err_at (abs (rsp r)) e -> record_boundary maxc r w = Ok (None, r) w.
Proof. intros He. unfold record_boundary. rewrite (err_at_boundary _ _ He). reflexivity. Qed.

(* item 2a (C08): poll_input suspends without a wake-up only with nothing owed: every reply produced so far is in
   the transport's log, the stream buffer is empty, and the client's next bytes are gated *)
Corollary poll_input_block fuel dest r w r' w' :
  pinv (rsp r) -> bytes_ok (remaining w) -> (length (wscript w) + length (remaining w) + 2 <= fuel)%nat ->
  poll_input maxc fuel dest r w = (PBlock, r', w') ->
  output_buffer (rsp r') = [] /\ stream_buffer (rsp r') = [] /\ gated w' /\
  R maxc (abs (rsp r')) [] = [] /\
  K (abs (rsp r)) (remaining w) = K (abs (rsp r')) (remaining w') /\
  exists flushed, wlog w' = wlog w ++ flushed /\ a_out (abs (rsp r')) = [] /\
                  R maxc (abs (rsp r)) (remaining w) = flushed ++ R maxc (abs (rsp r')) (remaining w').
Proof.
  intros Hinv Hrem Hf E. destruct (poll_input_reads _ _ _ _ _ _ _ Hinv Hrem Hf E) as (dl & A & C & _).
  cbn [pi_case] in C. destruct C as (-> & C1 & C2 & C3 & C4 & C5).
  split; [exact C1|]. split; [exact C3|]. split; [exact C4|]. split; [exact C5|]. split; [apply (ac_K _ _ _ _ _ _ A)|].
  destruct (ac_R _ _ _ _ _ _ A) as (fl & L & RR). exists fl. split; [exact L|]. split; [exact C1|exact RR].
Qed.

(* the same for the awaited form: the task deadlocks inside poll_fn(poll_input) only with nothing owed *)
Corollary await_input_deadlock fuel dest r w w' :
  pinv (rsp r) -> bytes_ok (remaining w) -> await_input maxc fuel dest r w = Halt ODeadlock w' ->
  gated w' /\
  exists r' flushed, output_buffer (rsp r') = [] /\ stream_buffer (rsp r') = [] /\
     R maxc (abs (rsp r')) [] = [] /\
     wlog w' = wlog w ++ flushed /\
     R maxc (abs (rsp r)) (remaining w) = flushed ++ R maxc (abs (rsp r')) (remaining w') /\
     K (abs (rsp r)) (remaining w) = K (abs (rsp r')) (remaining w').
Proof.
  intros Hinv Hrem E. pose proof (await_input_reads fuel dest r w Hinv Hrem) as H. rewrite E in H.
  cbn [ai_post] in H. destruct H as (r' & A & _ & _ & _ & D). destruct (D eq_refl) as (D1 & D2 & D3 & D4).
  split; [exact D3|]. destruct (ac_R _ _ _ _ _ _ A) as (fl & L & RR). exists r', fl.
  split; [exact D1|]. split; [exact D2|]. split; [exact D4|]. split; [exact L|]. split; [exact RR|apply (ac_K _ _ _ _ _ _ A)].
Qed.

(* ------------------------------------------------------------------------------------------ *)
(* Part 4: set_stream and Request::writeable (C09, the output gate)                             *)
(* ------------------------------------------------------------------------------------------ *)

(* the last stream of a role has no successor: it is the role's final stream *)
Lemma last_is_final role : next_input_stream role (last_opt role) = None.
Proof.
  destruct (role_cases role) as [->|[->|[->|[E Hn]]]]; try (vm_compute; reflexivity). apply Hn.
Qed.

Lemma pinv_stream_ok p : pinv p -> stream_ok p.
Proof. intros [_ (_ & _ & _ & _ & _ & H)]. exact H. Qed.

(* Parser::set_stream, when accepted: a new epoch.  What the handler will receive from now on is the not yet
   consumed content of the selected stream; replies and all other streams are untouched *)
Lemma set_stream_step p s p1 : pinv p -> set_stream p s = SetOk p1 ->
  pinv p1 /\ sreq p1 = sreq p /\ stream p1 = s /\ output_buffer p1 = output_buffer p /\
  is_record_boundary p1 = is_record_boundary p /\
  (forall u, R maxc (abs p1) u = R maxc (abs p) u) /\
  (forall sg u, F sg (abs p1) u = F sg (abs p) u) /\
  (forall e, err_at (abs p) e -> err_at (abs p1) e) /\
  (optN_eqb s (stream p) = true -> p1 = p) /\
  (optN_eqb s (stream p) = false -> stream_buffer p1 = [] /\ forall u, K (abs p1) u = F s (abs p) u).
Proof.
  intros [HRI Hinv] E. pose proof (set_stream_refines p s HRI) as SR. rewrite E in SR.
  destruct (aset_stream (abs p) s) as [a1| |] eqn:EA; try contradiction. destruct SR as [R1 A1]. subst a1.
  assert (SAME : optN_eqb s (stream p) = true -> p1 = p).
  { intros Heq. unfold set_stream in E.
    destruct (match s with
              | Some x => match cmp_input_streams (r_role (sreq p)) x (stream p) with
                          | None => None | Some Lt => Some false | Some _ => Some true end
              | None => Some true end) as [[|]|]; try discriminate E.
    rewrite Heq in E. injection E as <-. reflexivity. }
  pose proof (fun u => set_stream_law maxc (abs p) s (abs p1) u Hinv EA) as SL.
  destruct (SL []) as (_ & _ & _ & _ & I1).
  destruct (optN_eqb s (stream p)) eqn:Heq.
  - specialize (SAME eq_refl). subst p1. apply optN_eqb_eq in Heq.
    split; [split; assumption|]. split; [reflexivity|]. split; [symmetry; exact Heq|]. split; [reflexivity|].
    split; [reflexivity|]. split; [reflexivity|]. split; [reflexivity|]. split; [intros e H; exact H|].
    split; [reflexivity|discriminate].
  - destruct (SL []) as (_ & S2 & _). destruct (S2 Heq) as (T1 & T2 & T3 & T4 & T5 & _).
    assert (Hpp : a_prem (abs p1) = a_prem (abs p) /\ a_pad (abs p1) = a_pad (abs p)).
    { unfold aset_stream in EA. destruct (accepts (r_role (a_req (abs p))) (a_stream (abs p)) s) as [[|]|]; try discriminate EA.
      change (a_stream (abs p)) with (stream p) in EA. rewrite Heq in EA.
      apply (f_equal (fun x => match x with ASetOk a => (a_prem a, a_pad a) | _ => (0, 0) end)) in EA.
      cbv beta iota in EA. cbn [a_prem a_pad] in EA. injection EA as H1 H2. split; symmetry; assumption. }
    split; [split; assumption|]. split; [exact T3|]. split; [exact T1|]. split; [exact T4|].
    split; [unfold is_record_boundary; destruct Hpp as [H1 H2]; cbn [abs a_prem a_pad] in H1, H2; rewrite H1, H2; reflexivity|].
    split; [intros u; apply (SL u)|]. split; [intros sg u; apply (SL u)|].
    split.
    { intros e (H1 & H2 & H3 & H4). destruct Hpp as [P1 P2]. unfold err_at, ri. rewrite P1, P2, T5, T3. repeat split; assumption. }
    split; [discriminate|]. intros _. split; [exact T2|]. intros u. destruct (SL u) as (_ & S3 & _). apply (S3 Heq).
Qed.

Lemma set_stream_same p : stream_ok p -> set_stream p (stream p) = SetOk p.
Proof.
  unfold stream_ok, set_stream. destruct (stream p) as [x|] eqn:Es.
  - intros Hx. unfold cmp_input_streams. rewrite Hx. cbn [negb orb]. rewrite N.eqb_refl.
    cbn [optN_eqb]. rewrite N.eqb_refl. reflexivity.
  - intros _. reflexivity.
Qed.

Lemma poll_input_none_buffered fuel r w : stream_buffer (rsp r) <> [] ->
  poll_input maxc fuel None r w = (PReady (inl (0, [])), r, w).
Proof. intros H. unfold poll_input. destruct (stream_buffer (rsp r)); [contradiction|reflexivity]. Qed.

Lemma await_input_none_buffered fuel r w : (0 < fuel)%nat -> stream_buffer (rsp r) <> [] ->
  await_input maxc fuel None r w = Ok (inl (0, []), r) w.
Proof. intros Hf H. destruct fuel as [|f]; [lia|]. cbn [await_input]. rewrite (poll_input_none_buffered _ r w H). reflexivity. Qed.

(* item 3 (C09): Request::writeable.  It returns Ok with the output gate open (writeable = true, the active
   stream = the role's final stream) -- except in one situation: the gate is closed, the final stream is already
   active and its stream buffer is non-empty; then writeable() returns Ok at once WITHOUT opening the gate
   (poll_input(None) answers Ok(0) from the non-empty buffer before reaching set_writeable) *)
Theorem do_writeable_gate r w e r' w' :
  pinv (rsp r) -> bytes_ok (remaining w) -> do_writeable maxc r w = Ok (e, r') w' ->
  (rwriteable r = true -> e = None /\ r' = r /\ w' = w) /\
  (rwriteable r = false ->
     let last := last_opt (r_role (sreq (rsp r))) in
     exists p1, set_stream (rsp r) last = SetOk p1 /\
       stream (rsp r') = last /\ sreq (rsp r') = sreq (rsp r) /\ is_final_stream r' = true /\
       acct [] (mkR p1 false (rlock r) (raborted r)) w [] r' w' /\
       match e with
       | None => rwriteable r' = true \/
                 (rwriteable r' = false /\ stream (rsp r) = last /\ stream_buffer (rsp r) <> [] /\ r' = r /\ w' = w)
       | Some k => rwriteable r' = false
       end).
Proof.
  intros Hinv Hrem E. unfold do_writeable in E. destruct (rwriteable r) eqn:Ewr.
  { injection E as <- <- <-. split; [intros _; repeat split|discriminate]. }
  split; [discriminate|]. intros _. cbv zeta.
  change (match rev (role_input_streams (r_role (sreq (rsp r)))) with x :: _ => Some x | [] => None end)
    with (last_opt (r_role (sreq (rsp r)))) in E.
  set (last := last_opt (r_role (sreq (rsp r)))) in *.
  destruct (set_stream (rsp r) last) as [p1| |] eqn:ES; try discriminate E.
  exists p1. split; [reflexivity|].
  destruct (set_stream_step _ _ _ Hinv ES) as (I1 & Q1 & S1 & _ & _ & _ & _ & _ & SAME & DIFF).
  set (r1 := mkR p1 false (rlock r) (raborted r)) in *.
  assert (Hfin1 : is_final_stream r1 = true).
  { unfold is_final_stream. cbn [r1 rsp]. rewrite Q1, S1. unfold last. rewrite last_is_final. reflexivity. }
  pose proof (await_input_reads (io_fuel w 0) None r1 w I1 Hrem) as AI.
  destruct (await_input maxc (io_fuel w 0) None r1 w) as [[[[n b]|k] r2] w2|o w2] eqn:EA; [| |discriminate E].
  - injection E as <- <- <-. cbn [ai_post] in AI. destruct AI as (dl & A & C & W).
    cbn [pi_case] in C. destruct C as (-> & -> & d & C1 & C2).
    split; [rewrite (ac_stream _ _ _ _ _ _ A); exact S1|]. split; [rewrite (ac_req _ _ _ _ _ _ A); exact Q1|].
    split; [rewrite <- Hfin1; apply is_final_stream_eq; [apply (ac_req _ _ _ _ _ _ A)|apply (ac_stream _ _ _ _ _ _ A)]|].
    split; [exact A|].
    destruct (stream_buffer p1) as [|x sb] eqn:Esb.
    + left. rewrite W. unfold poll_parses. cbn [r1 rsp rwriteable is_inl]. rewrite Esb, Hfin1. reflexivity.
    + right. destruct (optN_eqb last (stream (rsp r))) eqn:Heq.
      * specialize (SAME eq_refl). subst p1.
        assert (Er : r1 = r) by (subst r1; destruct r as [p0 wr lk ab]; cbn [rsp rwriteable rlock raborted] in *; subst wr; reflexivity).
        rewrite Er in EA. rewrite await_input_none_buffered in EA; [|rewrite io_fuel_remaining; lia|rewrite Esb; discriminate].
        injection EA as _ <- <-. split; [exact Ewr|]. split; [symmetry; apply optN_eqb_eq; exact Heq|].
        split; [rewrite Esb; discriminate|]. split; reflexivity.
      * destruct (DIFF eq_refl) as [H _]. first [discriminate H | congruence].
  - injection E as <- <- <-. cbn [ai_post] in AI. destruct AI as (dl & A & C & W).
    split; [rewrite (ac_stream _ _ _ _ _ _ A); exact S1|]. split; [rewrite (ac_req _ _ _ _ _ _ A); exact Q1|].
    split; [rewrite <- Hfin1; apply is_final_stream_eq; [apply (ac_req _ _ _ _ _ _ A)|apply (ac_stream _ _ _ _ _ _ A)]|].
    assert (dl = []).
    { cbn [pi_case] in C. destruct C as [(e0 & _ & _ & _ & C4 & _)|[(C1 & _)|(C1 & _)]]; [apply C4; reflexivity|exact C1|exact C1]. }
    subst dl. split; [exact A|]. rewrite W. cbn [is_inl r1 rwriteable]. rewrite andb_false_r. reflexivity.
Qed.

(* the exception really occurs: in that state writeable() answers Ok and the gate stays closed *)
Lemma do_writeable_stale r w : pinv (rsp r) -> rwriteable r = false ->
  stream (rsp r) = last_opt (r_role (sreq (rsp r))) -> stream_buffer (rsp r) <> [] ->
  do_writeable maxc r w = Ok (None, r) w.
Proof.
  intros Hinv Ewr Hs Hsb. unfold do_writeable. rewrite Ewr.
  change (match rev (role_input_streams (r_role (sreq (rsp r)))) with x :: _ => Some x | [] => None end)
    with (last_opt (r_role (sreq (rsp r)))).
  rewrite <- Hs. rewrite (set_stream_same _ (pinv_stream_ok _ Hinv)).
  assert (Er : mkR (rsp r) false (rlock r) (raborted r) = r) by (destruct r as [p0 wr lk ab]; cbn [rsp rwriteable rlock raborted] in *; subst wr; reflexivity).
  rewrite Er. rewrite await_input_none_buffered; [reflexivity|rewrite io_fuel_remaining; lia|exact Hsb].
Qed.

(* ------------------------------------------------------------------------------------------ *)
(* Part 5: the handler's read operations                                                        *)
(* ------------------------------------------------------------------------------------------ *)

(* at the end of the stream with an empty stream buffer nothing is still to come *)
Lemma K_eos a u : a_inv a -> eos a -> a_parsed a = [] -> K a u = [].
Proof.
  intros (_ & _ & _ & _ & Hst & _) [Hn|Ht] Hp.
  - unfold K. rewrite Hp, Hn. cbn [app].
    assert (Hc : cur_of a = false).
    { unfold cur_of. destruct (a_st a) eqn:Es; try reflexivity. exfalso. apply (Hst eq_refl). exact Hn. }
    rewrite Hc. apply content_from_none.
  - rewrite K_eq, Hp. cbn [app]. destruct (at_term_inv _ Ht) as (H1 & H2 & H3). rewrite H1, H2.
    rewrite CF_head by (rewrite len_app; lia). rewrite (take_app_le HEADER_LEN _ u H3).
    unfold at_term, at_terminator in Ht. apply andb_prop in Ht. destruct Ht as [_ H4].
    unfold cf_hd. destruct (hdr_decode (take HEADER_LEN (a_raw a))) as [t hid cl pl|v|t]; try discriminate H4.
    apply andb_prop in H4. destruct H4 as [H4 H5]. unfold rl, ri in *. rewrite H4.
    destruct (cmp_input_streams (r_role (a_req a)) t (a_stream a)) as [[| |]|]; try discriminate H5; try reflexivity.
    rewrite H5. reflexivity.
Qed.

(* Parser::consume_stream as an operation of the handler (after fill_buf) *)
Lemma consume_acct r w c wr lk : pinv (rsp r) ->
  acct [] r w (take (N.min c (len (stream_buffer (rsp r)))) (stream_buffer (rsp r))) (mkR (consume_stream (rsp r) c) wr lk (raborted r)) w.
Proof.
  intros [HRI HI]. pose proof (consume_stream_abs (rsp r) c HRI) as CA.
  destruct (consume_stream_law maxc (abs (rsp r)) c (remaining w)) as (CK & CR & CF).
  constructor; cbn [rsp app raborted]; [| | | | | | | | |exact (fun x => x)].
  - split; [apply consume_stream_RI; exact HRI|rewrite CA; apply consume_stream_inv; exact HI].
  - reflexivity.
  - reflexivity.
  - exists []. reflexivity.
  - apply suffix_refl.
  - reflexivity.
  - rewrite CA. exact CK.
  - exists []. rewrite app_nil_r. split; [reflexivity|]. rewrite CA, CR. reflexivity.
  - intros sg _. rewrite CA, CF. reflexivity.
Qed.

(* read_to_end with a 64-byte buffer *)
Theorem read_all_reads : forall fuel acc r w, pinv (rsp r) -> bytes_ok (remaining w) ->
  match read_all maxc fuel acc r w with
  | Ok (k, acc', r') w' =>
      exists bs lost, acc' = acc ++ bs /\ acct [] r w (bs ++ lost) r' w' /\
        (k = 0 -> lost = [] /\ eos (abs (rsp r')) /\ stream_buffer (rsp r') = []) /\
        (k = EK_Aborted -> (err_at (abs (rsp r')) EAbortRequest /\ raborted r' = true) \/ fault_of EK_Aborted (wscript w)) /\
        (rwriteable r = true -> rwriteable r' = true) /\
        (rwriteable r' = true -> rwriteable r = true \/ is_final_stream r = true)
  | Halt o w' => exists bs r', acct [] r w bs r' w'
  end.
Proof.
  induction fuel as [|f IH]; intros acc r w Hinv Hrem.
  { cbn [read_all]. exists [], r. apply acct_refl. exact Hinv. }
  cbn [read_all]. pose proof (await_input_reads (io_fuel w 0) (Some 64) r w Hinv Hrem) as AI.
  destruct (await_input maxc (io_fuel w 0) (Some 64) r w) as [[[[n b]|k] r1] w1|o w1]; cbn [ai_post] in AI.
  - destruct AI as (dl & A & C & W). cbn [pi_case] in C. destruct C as (-> & C1 & C2 & C3).
    assert (WR : (rwriteable r = true -> rwriteable r1 = true) /\
                 (rwriteable r1 = true -> rwriteable r = true \/ is_final_stream r = true)).
    { rewrite W. split; [intros ->; reflexivity|]. destruct (rwriteable r); [left; reflexivity|]. cbn [orb].
      intros H. right. apply andb_prop in H. apply H. }
    destruct (N.eqb_spec n 0) as [E0|E0].
    + assert (b = []) by (apply len_zero_nil; rewrite C1; exact E0). subst b. exists [], [].
      split; [rewrite app_nil_r; reflexivity|]. split; [exact A|]. split; [|split; [|exact WR]].
      * intros _. split; [reflexivity|]. apply C3; [lia|exact E0].
      * intros H; discriminate H.
    + specialize (IH (acc ++ b) r1 w1 (ac_inv _ _ _ _ _ _ A) (acct_bytes_ok _ _ _ _ _ _ A Hrem)).
      destruct (read_all maxc f (acc ++ b) r1 w1) as [[[k acc'] r2] w2|o w2].
      * destruct IH as (bs & lost & I1 & I2 & I3 & I4 & I5 & I6). exists (b ++ bs), lost.
        split; [rewrite I1, app_assoc; reflexivity|]. split; [rewrite <- app_assoc; eapply acct_trans0; eassumption|].
        split; [exact I3|]. split; [intros Hk; destruct (I4 Hk) as [I4'|I4']; [left; exact I4'|right];
                                      eapply fault_of_suffix; [apply (ac_ws _ _ _ _ _ _ A)|exact I4']|].
        split; [intros H; apply I5; apply WR; exact H|].
        intros H. destruct (I6 H) as [H1|H1]; [apply WR; exact H1|right].
        rewrite <- H1. symmetry. apply is_final_stream_eq; [apply (ac_req _ _ _ _ _ _ A)|apply (ac_stream _ _ _ _ _ _ A)].
      * destruct IH as (bs & r2 & I2). exists (b ++ bs), r2. eapply acct_trans0; eassumption.
  - destruct AI as (dl & A & C & W). exists [], dl. split; [rewrite app_nil_r; reflexivity|]. split; [exact A|].
    assert (Hk : k <> 0).
    { cbn [pi_case] in C. destruct C as [(e & C1 & _ & [->|[v ->]] & _)|[(_ & C1 & _)|(_ & [C1|[C1|C1]] & _)]]; subst k; discriminate. }
    split; [intros H; contradiction|]. split.
    + intros ->. cbn [pi_case] in C. destruct C as [(e & C1 & C2 & _ & _ & _ & C6)|[(_ & C1 & _)|(_ & _ & _ & C4)]]; try discriminate C1.
      * symmetry in C1. apply perr_kind_aborted in C1. subst e. left. split; [exact C2|]. rewrite C6. apply orb_true_r.
      * right. apply C4. discriminate.
    + rewrite W. cbn [is_inl]. rewrite andb_false_r, orb_false_r. split; [intros H; exact H|intros H; left; exact H].
  - destruct AI as (r1' & A & _). exists [], r1'. exact A.
Qed.

(* item 1 (C09): a successful read_to_end returns exactly the not yet consumed content of the active stream *)
Corollary read_all_complete fuel acc r w acc' r' w' :
  pinv (rsp r) -> bytes_ok (remaining w) -> read_all maxc fuel acc r w = Ok (0, acc', r') w' ->
  acc' = acc ++ K (abs (rsp r)) (remaining w).
Proof.
  intros Hinv Hrem E. pose proof (read_all_reads fuel acc r w Hinv Hrem) as H. rewrite E in H.
  destruct H as (bs & lost & H1 & A & H3 & _). destruct (H3 eq_refl) as (-> & H4 & H5).
  pose proof (ac_K _ _ _ _ _ _ A) as HK. cbn [app] in HK. rewrite HK, app_nil_r.
  rewrite (K_eos _ _ (proj2 (ac_inv _ _ _ _ _ _ A)) H4 H5), app_nil_r. exact H1.
Qed.

(* ------------------------------------------------------------------------------------------ *)
(* Part 6: along a handler (C09): what the handler observes is the stream                       *)
(* ------------------------------------------------------------------------------------------ *)

(* one handler operation as logged in [events] (what the correspondence check compares with the crate);
   [lost] = stream bytes copied into the caller's buffer by a call that then failed (not observable) *)
Inductive obs :=
| ORead (c : N) (b : bytes)            (* 1 n: read(buf) = Ok(c), the bytes *)
| OReadErr (k : N) (lost : bytes)      (* 1 n: read(buf) = Err(kind) *)
| OAll (k : N) (acc lost : bytes)      (* 2: read_to_end: 0 or the error kind, the bytes collected *)
| OFill (c : N) (seen : bytes)         (* 3 k: fill_buf() = Ok(seen), consume(c) *)
| OFillErr (e : N)                     (* 3 k: fill_buf() = Err(kind) *)
| OSet (code : N)                      (* 4 s: set_stream(Some s) accepted, the active stream afterwards *)
| OWr (e wr code : N)                  (* 5: writeable(): result, is_writeable(), the active stream afterwards *)
| OPoll (c wr : N) (b : bytes)         (* 11 n: one poll of read(buf) = Ready(Ok(c)), is_writeable(), the bytes *)
| OPollErr (k wr : N) (lost : bytes)   (* 11 n: one poll of read(buf) = Ready(Err(kind)), is_writeable() *)
| OPollPending (wr : N).               (* 11 n: one poll of read(buf) = Pending (the future is dropped), is_writeable() *)

(* newest first, as in [events] *)
Definition obs_events (o : obs) : list (list N) :=
  match o with
  | ORead c b => [b; [1; 1; c]]
  | OReadErr k _ => [[]; [1; 0; k]]
  | OAll k acc _ => [acc; [2; k]]
  | OFill c seen => [seen; [3; 1; c]]
  | OFillErr e => [[]; [3; 0; e]]
  | OSet code => [[4; code]]
  | OWr e wr code => [[5; e; wr; code]]
  | OPoll c wr b => [b; [11; 1; c; wr]]
  | OPollErr k wr _ => [[]; [11; 0; k; wr]]
  | OPollPending wr => [[]; [11; 2; 0; wr]]
  end.

(* the stream bytes the operation took out of K: delivered to the handler, or dropped by a failing call *)
Definition obs_bytes (o : obs) : bytes :=
  match o with
  | ORead _ b => b
  | OReadErr _ lost => lost
  | OAll _ acc lost => acc ++ lost
  | OFill c seen => take c seen
  | OPoll _ _ b => b
  | OPollErr _ _ lost => lost
  | _ => []
  end.

Definition code_stream (c : N) : option N := if c =? 0 then None else Some c.

Definition obs_switch (o : obs) : option (option N) :=
  match o with OSet c => Some (code_stream c) | OWr _ _ c => Some (code_stream c) | _ => None end.

(* the law of a trace of observations, from the state (a0, u0) in which the handler started:
   within an epoch every operation takes its bytes from the front of what is still to come of the active stream;
   selecting another stream s starts an epoch whose content is F s a0 u0 -- the content of s as seen from the
   very beginning: nothing of a later stream is consumed or lost while an earlier one is active *)
Fixpoint tlaw (a0 : ast) (u0 : bytes) (cur : option N) (T : bytes) (os : list obs) (T' : bytes) : Prop :=
  match os with
  | [] => T' = T
  | o :: t =>
    match obs_switch o with
    | Some s => if optN_eqb s cur then tlaw a0 u0 cur T t T' else tlaw a0 u0 s (F s a0 u0) t T'
    | None => exists T1, T = obs_bytes o ++ T1 /\ tlaw a0 u0 cur T1 t T'
    end
  end.

(* scripts made of the read operations (awaited, or polled once and dropped), set_stream, writeable, and the two
   ways to return *)
Inductive rd_script : list N -> Prop :=
| RS_nil : rd_script []
| RS_read n rest : rd_script rest -> rd_script (1 :: n :: rest)
| RS_all rest : rd_script rest -> rd_script (2 :: rest)
| RS_fill k rest : rd_script rest -> rd_script (3 :: k :: rest)
| RS_set s rest : rd_script rest -> rd_script (4 :: s :: rest)
| RS_wr rest : rd_script rest -> rd_script (5 :: rest)
| RS_exit d c rest : rd_script (8 :: d :: c :: rest)
| RS_fail k rest : rd_script (9 :: k :: rest)
| RS_readq n rest : rd_script rest -> rd_script (10 :: n :: rest)
| RS_poll n rest : rd_script rest -> rd_script (11 :: n :: rest).

(* the observations are those of the script's operations, in order (a prefix, if the task stops early) *)
Inductive obs_of : list N -> list obs -> Prop :=
| OO_nil script : obs_of script []
| OO_read n rest c b t : obs_of rest t -> obs_of (1 :: n :: rest) (ORead c b :: t)
| OO_read_err n rest k l t : obs_of rest t -> obs_of (1 :: n :: rest) (OReadErr k l :: t)
| OO_all rest k acc l t : obs_of rest t -> obs_of (2 :: rest) (OAll k acc l :: t)
| OO_fill k rest c seen t : obs_of rest t -> obs_of (3 :: k :: rest) (OFill c seen :: t)
| OO_fill_err k rest e t : obs_of rest t -> obs_of (3 :: k :: rest) (OFillErr e :: t)
| OO_set s rest code t : obs_of rest t -> obs_of (4 :: s :: rest) (OSet code :: t)
| OO_wr rest e wr code t : obs_of rest t -> obs_of (5 :: rest) (OWr e wr code :: t)
(* 10 n: read(buf)?  -- observed like 1 n; a read error ends the run *)
| OO_readq n rest c b t : obs_of rest t -> obs_of (10 :: n :: rest) (ORead c b :: t)
| OO_readq_err n rest k l : obs_of (10 :: n :: rest) [OReadErr k l]
(* 11 n: read(buf) polled once, not awaited; the run goes on whatever the result *)
| OO_poll n rest c wr b t : obs_of rest t -> obs_of (11 :: n :: rest) (OPoll c wr b :: t)
| OO_poll_err n rest k wr l t : obs_of rest t -> obs_of (11 :: n :: rest) (OPollErr k wr l :: t)
| OO_poll_pending n rest wr t : obs_of rest t -> obs_of (11 :: n :: rest) (OPollPending wr :: t).

(* how the event log of a returning handler ends: the event of the return operation (8 / 9 / end of the script), or
   nothing more when the error of a `read(buf)?` (10 n) was propagated: then that error is the result *)
Definition fin_ok (fin : list (list N)) (os : list obs) (st : N * N + N) : Prop :=
  (exists e, fin = [e]) \/ (fin = [] /\ exists k lost os', os = os' ++ [OReadErr k lost] /\ st = inr k).

Lemma fin_ok_cons fin o os st : fin_ok fin os st -> fin_ok fin (o :: os) st.
Proof.
  intros [H|(H & k & lost & os' & E & Hst)]; [left; exact H|right]. split; [exact H|].
  exists k, lost, (o :: os'). split; [rewrite E; reflexivity|exact Hst].
Qed.

Definition hr_post (script : list N) (a0 : ast) (u0 : bytes) (r : rstate) (w : world) (x : res ((N * N + N) * rstate)) : Prop :=
  exists os, obs_of script os /\
  match x with
  | Ok (st, r') w' =>
      (exists fin, events w' = fin ++ flat_map obs_events (rev os) ++ events w /\ fin_ok fin os st) /\ pinv (rsp r') /\
      sreq (rsp r') = sreq (rsp r) /\
      tlaw a0 u0 (stream (rsp r)) (K (abs (rsp r)) (remaining w)) os (K (abs (rsp r')) (remaining w'))
  | Halt o w' =>
      events w' = flat_map obs_events (rev os) ++ events w /\
      exists T', tlaw a0 u0 (stream (rsp r)) (K (abs (rsp r)) (remaining w)) os T'
  end.

(* streams later than the active one still have the content they had at the start *)
Definition later_kept (a0 : ast) (u0 : bytes) (r : rstate) (w : world) : Prop :=
  forall sg, later_stream (abs (rsp r)) sg -> F (Some sg) (abs (rsp r)) (remaining w) = F (Some sg) a0 u0.

Lemma later_kept_acct a0 u0 r w dl r' w' : acct [] r w dl r' w' -> later_kept a0 u0 r w -> later_kept a0 u0 r' w'.
Proof.
  intros A J sg Hl.
  assert (Hl0 : later_stream (abs (rsp r)) sg).
  { unfold later_stream in *. cbn [abs a_stream a_req] in *.
    rewrite <- (ac_stream _ _ _ _ _ _ A), <- (ac_req _ _ _ _ _ _ A). exact Hl. }
  rewrite <- (J sg Hl0). symmetry. apply (ac_F _ _ _ _ _ _ A sg Hl0).
Qed.

Lemma code_stream_code p : stream_ok p -> code_stream (stream_code (stream p)) = stream p.
Proof.
  unfold stream_ok, code_stream, stream_code. destruct (stream p) as [x|]; [|reflexivity].
  intros H. apply is_input_cases in H. destruct H as [-> | ->]; reflexivity.
Qed.

(* an accepted selection of another stream moves forward in the role's order *)
Lemma switch_later p s p1 : set_stream p s = SetOk p1 -> optN_eqb s (stream p) = false ->
  s = None \/ exists sg, s = Some sg /\ later_stream (abs p) sg.
Proof.
  intros E Hne. pose proof (set_stream_ok_accepted _ _ _ E) as A. destruct s as [x|]; [right|left; reflexivity].
  exists x. split; [reflexivity|]. unfold later_stream. cbn [abs a_stream a_req].
  unfold accepts in A. destruct (stream p) as [c|] eqn:Es.
  - destruct (cmp_input_streams (r_role (sreq p)) x (Some c)) as [[| |]|] eqn:Ec; try discriminate A; [|reflexivity].
    exfalso. unfold cmp_input_streams in Ec.
    destruct (negb (is_input_stream x) || negb (is_input_stream c)); [discriminate Ec|].
    cbn [optN_eqb] in Hne. rewrite Hne in Ec.
    revert Ec. generalize (role_input_streams (r_role (sreq p))). intros l.
    assert (G : forall l pos, pos <> Eq ->
              (fix go (l : list N) (pos : ord) {struct l} : ord :=
                 match l with
                 | [] => Lt
                 | s :: t => if s =? x then pos else if s =? c then go t Gt else go t pos
                 end) l pos <> Eq).
    { clear. induction l as [|y t IH]; intros pos Hp; [discriminate|].
      destruct (y =? x); [exact Hp|]. destruct (y =? c); [apply IH; discriminate|apply IH; exact Hp]. }
    intros Ec. injection Ec as Ec. apply (G l Lt ltac:(discriminate) Ec).
  - cbn [cmp_input_streams] in A. discriminate A.
Qed.

(* there are only two input stream types: after one step forward nothing is later *)
Lemma later_chain_absurd role cur s sg :
  cmp_input_streams role s (Some cur) = Some Gt -> cmp_input_streams role sg (Some s) = Some Gt -> False.
Proof.
  intros H1 H2. destruct (cmp_gt_input _ _ _ H1) as [Hs Hc]. destruct (cmp_gt_input _ _ _ H2) as [Hg _].
  apply is_input_cases in Hs. apply is_input_cases in Hc. apply is_input_cases in Hg.
  unfold cmp_input_streams in *.
  destruct (role_streams_cases role) as [Hr|[Hr|Hr]]; rewrite Hr in *;
  destruct Hs as [-> | ->]; destruct Hc as [-> | ->]; destruct Hg as [-> | ->];
  vm_compute in H1; try discriminate H1; vm_compute in H2; discriminate H2.
Qed.

Lemma hr_post_cons script rest a0 u0 r w o r1 w1 x :
  (forall t, obs_of rest t -> obs_of script (o :: t)) ->
  events w1 = obs_events o ++ events w -> sreq (rsp r1) = sreq (rsp r) ->
  (forall t T', tlaw a0 u0 (stream (rsp r1)) (K (abs (rsp r1)) (remaining w1)) t T' ->
                tlaw a0 u0 (stream (rsp r)) (K (abs (rsp r)) (remaining w)) (o :: t) T') ->
  hr_post rest a0 u0 r1 w1 x -> hr_post script a0 u0 r w x.
Proof.
  intros Hoo Hev Hq HT [os [Ho H]]. exists (o :: os). split; [apply Hoo; exact Ho|].
  assert (Hfm : flat_map obs_events (rev (o :: os)) ++ events w = flat_map obs_events (rev os) ++ events w1).
  { cbn [rev]. rewrite flat_map_app. cbn [flat_map]. rewrite app_nil_r, <- app_assoc, Hev. reflexivity. }
  destruct x as [[st r'] w'|ox w'].
  - destruct H as ((fin & H1 & Hfin) & H2 & H3 & H4). split; [exists fin; rewrite Hfm; split; [exact H1|apply fin_ok_cons; exact Hfin]|]. split; [exact H2|].
    split; [rewrite H3; exact Hq|]. apply HT. exact H4.
  - destruct H as (H1 & T' & H2). split; [rewrite Hfm; exact H1|]. exists T'. apply HT. exact H2.
Qed.

Lemma remaining_ev w e : remaining (w_ev w e) = remaining w.
Proof. reflexivity. Qed.

(* an operation that stays in the epoch *)
Lemma tlaw_bytes a0 u0 cur T o T1 t T' : obs_switch o = None -> T = obs_bytes o ++ T1 ->
  tlaw a0 u0 cur T1 t T' -> tlaw a0 u0 cur T (o :: t) T'.
Proof. intros Hs HT H. cbn [tlaw]. rewrite Hs. exists T1. split; assumption. Qed.

Lemma optN_eqb_refl a : optN_eqb a a = true.
Proof. destruct a; cbn [optN_eqb]; [apply N.eqb_refl|reflexivity]. Qed.

(* set_stream in the trace law *)
Lemma switch_law a0 u0 r w s p1 : pinv (rsp r) -> later_kept a0 u0 r w -> set_stream (rsp r) s = SetOk p1 ->
  (forall wr lk ab, later_kept a0 u0 (mkR p1 wr lk ab) w) /\
  (forall t T', tlaw a0 u0 s (K (abs p1) (remaining w)) t T' ->
      if optN_eqb s (stream (rsp r)) then tlaw a0 u0 (stream (rsp r)) (K (abs (rsp r)) (remaining w)) t T'
      else tlaw a0 u0 s (F s a0 u0) t T').
Proof.
  intros Hinv J ES.
  destruct (set_stream_step _ _ _ Hinv ES) as (I1 & Q1 & S1 & _ & _ & _ & _ & _ & SAME & DIFF).
  destruct (optN_eqb s (stream (rsp r))) eqn:Heq.
  - specialize (SAME eq_refl). subst p1. apply optN_eqb_eq in Heq. subst s.
    split; [intros wr lk ab; exact J|intros t T' H; exact H].
  - destruct (DIFF eq_refl) as [_ HK].
    destruct (switch_later _ _ _ ES Heq) as [->|(sg & -> & Hl)].
    + split.
      * intros wr lk ab sg Hl. unfold later_stream in Hl. cbn [abs a_stream rsp] in Hl. rewrite S1 in Hl. contradiction.
      * intros t T' H. rewrite HK in H. rewrite !F_none in *. exact H.
    + split.
      * intros wr lk ab sg2 Hl2. exfalso. unfold later_stream in Hl, Hl2. cbn [abs a_stream a_req rsp] in Hl, Hl2.
        rewrite S1, Q1 in Hl2. destruct (stream (rsp r)) as [c|]; [|contradiction].
        apply (later_chain_absurd _ _ _ _ Hl Hl2).
      * intros t T' H. rewrite HK, (J sg Hl) in H. exact H.
Qed.

Lemma do_writeable_halt_events r w o w' : pinv (rsp r) -> bytes_ok (remaining w) ->
  do_writeable maxc r w = Halt o w' -> events w' = events w.
Proof.
  intros Hinv Hrem E. unfold do_writeable in E. destruct (rwriteable r); [discriminate E|].
  destruct (set_stream (rsp r) _) as [p1| |] eqn:ES; try (injection E as _ <-; reflexivity).
  destruct (set_stream_step _ _ _ Hinv ES) as (I1 & _).
  pose proof (await_input_reads (io_fuel w 0) None (mkR p1 false (rlock r) (raborted r)) w I1 Hrem) as AI.
  destruct (await_input maxc (io_fuel w 0) None (mkR p1 false (rlock r) (raborted r)) w) as [[[x|k] r2] w2|o2 w2]; try discriminate E.
  injection E as _ <-. cbn [ai_post] in AI. destruct AI as (r2 & A & _). apply (ac_ev _ _ _ _ _ _ A).
Qed.

(* items 1 and 3 along a handler: every read operation delivers the front of what is still to come of the active
   stream (K); a stream selected later delivers its content as of the start of the handler (F) *)
Theorem run_handler_reads a0 u0 script : rd_script script ->
  forall f r w, pinv (rsp r) -> bytes_ok (remaining w) -> later_kept a0 u0 r w ->
  hr_post script a0 u0 r w (run_handler maxc f script r w).
Proof.
  induction 1 as [|n rest H IH|rest H IH|k rest H IH|s rest H IH|rest H IH|d c rest|k rest|n rest H IH|n rest H IH];
    intros f r w Hinv Hrem J;
    (destruct f as [|f]; [exists []; split; [constructor|]; cbn [run_handler rev flat_map app tlaw]; split; [reflexivity|eexists; reflexivity]|]);
    cbn [run_handler].
  - exists []. split; [constructor|]. split; [exists [[8]]; split; [reflexivity|left; eexists; reflexivity]|]. split; [exact Hinv|]. split; reflexivity.
  - (* 1 n *)
    pose proof (await_input_reads (io_fuel w 0) (Some n) r w Hinv Hrem) as AI.
    destruct (await_input maxc (io_fuel w 0) (Some n) r w) as [[[[c b]|k] r1] w1|o w1]; cbn [ai_post] in AI.
    + destruct AI as (dl & A & C & _). cbn [pi_case] in C. destruct C as (-> & _).
      apply (hr_post_cons _ rest a0 u0 r w (ORead c b) r1 (w_ev (w_ev w1 [1; 1; c]) b)); [intros t Ht; constructor; exact Ht| | | |].
      * cbn [obs_events w_ev events app]. rewrite (ac_ev _ _ _ _ _ _ A). reflexivity.
      * apply (ac_req _ _ _ _ _ _ A).
      * intros t T' HT. rewrite (ac_stream _ _ _ _ _ _ A) in HT.
        apply (tlaw_bytes a0 u0 _ _ _ (K (abs (rsp r1)) (remaining w1))); [reflexivity|exact (ac_K _ _ _ _ _ _ A)|exact HT].
      * apply IH; [apply (ac_inv _ _ _ _ _ _ A)|exact (acct_bytes_ok _ _ _ _ _ _ A Hrem)|exact (later_kept_acct _ _ _ _ _ _ _ A J)].
    + destruct AI as (dl & A & C & _).
      apply (hr_post_cons _ rest a0 u0 r w (OReadErr k dl) r1 (w_ev (w_ev w1 [1; 0; k]) [])); [intros t Ht; constructor; exact Ht| | | |].
      * cbn [obs_events w_ev events app]. rewrite (ac_ev _ _ _ _ _ _ A). reflexivity.
      * apply (ac_req _ _ _ _ _ _ A).
      * intros t T' HT. rewrite (ac_stream _ _ _ _ _ _ A) in HT.
        apply (tlaw_bytes a0 u0 _ _ _ (K (abs (rsp r1)) (remaining w1))); [reflexivity|exact (ac_K _ _ _ _ _ _ A)|exact HT].
      * apply IH; [apply (ac_inv _ _ _ _ _ _ A)|exact (acct_bytes_ok _ _ _ _ _ _ A Hrem)|exact (later_kept_acct _ _ _ _ _ _ _ A J)].
    + destruct AI as (r1 & A & _). exists []. split; [constructor|]. cbn [rev flat_map app tlaw].
      split; [apply (ac_ev _ _ _ _ _ _ A)|eexists; reflexivity].
  - (* 2 *)
    match goal with |- context [read_all maxc ?fu [] r w] =>
      pose proof (read_all_reads fu [] r w Hinv Hrem) as RA; destruct (read_all maxc fu [] r w) as [[[k acc] r1] w1|o w1] end.
    + destruct RA as (bs & lost & H1 & A & _). cbn [app] in H1. subst acc.
      apply (hr_post_cons _ rest a0 u0 r w (OAll k bs lost) r1 (w_ev (w_ev w1 [2; k]) bs)); [intros t Ht; constructor; exact Ht| | | |].
      * cbn [obs_events w_ev events app]. rewrite (ac_ev _ _ _ _ _ _ A). reflexivity.
      * apply (ac_req _ _ _ _ _ _ A).
      * intros t T' HT. rewrite (ac_stream _ _ _ _ _ _ A) in HT.
        apply (tlaw_bytes a0 u0 _ _ _ (K (abs (rsp r1)) (remaining w1))); [reflexivity|exact (ac_K _ _ _ _ _ _ A)|exact HT].
      * apply IH; [apply (ac_inv _ _ _ _ _ _ A)|exact (acct_bytes_ok _ _ _ _ _ _ A Hrem)|exact (later_kept_acct _ _ _ _ _ _ _ A J)].
    + destruct RA as (bs & r1 & A). exists []. split; [constructor|]. cbn [rev flat_map app tlaw].
      split; [apply (ac_ev _ _ _ _ _ _ A)|eexists; reflexivity].
  - (* 3 k *)
    pose proof (await_input_reads (io_fuel w 0) None r w Hinv Hrem) as AI.
    destruct (await_input maxc (io_fuel w 0) None r w) as [[[[c b]|e] r1] w1|o w1]; cbn [ai_post] in AI.
    + destruct AI as (dl & A & C & _). cbn [pi_case] in C. destruct C as (-> & -> & _).
      set (seen := stream_buffer (rsp r1)). set (cc := N.min k (len seen)).
      pose proof (consume_acct r1 w1 cc (rwriteable r1) (rlock r1) (ac_inv _ _ _ _ _ _ A)) as A2. fold seen in A2.
      replace (N.min cc (len seen)) with cc in A2 by (subst cc; lia).
      pose proof (acct_trans0 _ _ _ _ _ _ _ _ A A2) as A3. cbn [app] in A3.
      apply (hr_post_cons _ rest a0 u0 r w (OFill cc seen) (mkR (consume_stream (rsp r1) cc) (rwriteable r1) (rlock r1) (raborted r1))
               (w_ev (w_ev w1 [3; 1; cc]) seen)); [intros t Ht; constructor; exact Ht| | | |].
      * cbn [obs_events w_ev events app]. rewrite (ac_ev _ _ _ _ _ _ A). reflexivity.
      * apply (ac_req _ _ _ _ _ _ A3).
      * intros t T' HT. rewrite (ac_stream _ _ _ _ _ _ A3) in HT.
        apply (tlaw_bytes a0 u0 _ _ _ (K (abs (consume_stream (rsp r1) cc)) (remaining w1))); [reflexivity|exact (ac_K _ _ _ _ _ _ A3)|exact HT].
      * apply IH; [apply (ac_inv _ _ _ _ _ _ A3)|exact (acct_bytes_ok _ _ _ _ _ _ A3 Hrem)|exact (later_kept_acct _ _ _ _ _ _ _ A3 J)].
    + destruct AI as (dl & A & C & _).
      assert (dl = []).
      { cbn [pi_case] in C. destruct C as [(e0 & _ & _ & _ & C4 & _)|[(C1 & _)|(C1 & _)]]; [apply C4; reflexivity|exact C1|exact C1]. }
      subst dl.
      apply (hr_post_cons _ rest a0 u0 r w (OFillErr e) r1 (w_ev (w_ev w1 [3; 0; e]) [])); [intros t Ht; constructor; exact Ht| | | |].
      * cbn [obs_events w_ev events app]. rewrite (ac_ev _ _ _ _ _ _ A). reflexivity.
      * apply (ac_req _ _ _ _ _ _ A).
      * intros t T' HT. rewrite (ac_stream _ _ _ _ _ _ A) in HT.
        apply (tlaw_bytes a0 u0 _ _ _ (K (abs (rsp r1)) (remaining w1))); [reflexivity|exact (ac_K _ _ _ _ _ _ A)|exact HT].
      * apply IH; [apply (ac_inv _ _ _ _ _ _ A)|exact (acct_bytes_ok _ _ _ _ _ _ A Hrem)|exact (later_kept_acct _ _ _ _ _ _ _ A J)].
    + destruct AI as (r1 & A & _). exists []. split; [constructor|]. cbn [rev flat_map app tlaw].
      split; [apply (ac_ev _ _ _ _ _ _ A)|eexists; reflexivity].
  - (* 4 s *)
    destruct (set_stream (rsp r) (Some s)) as [p1| |] eqn:ES;
      try (exists []; split; [constructor|]; cbn [rev flat_map app tlaw]; split; [reflexivity|eexists; reflexivity]).
    destruct (set_stream_step _ _ _ Hinv ES) as (I1 & Q1 & S1 & _).
    destruct (switch_law a0 u0 r w (Some s) p1 Hinv J ES) as [J1 SW].
    apply (hr_post_cons _ rest a0 u0 r w (OSet (stream_code (stream p1))) (mkR p1 (rwriteable r) (rlock r) (raborted r))
             (w_ev w [4; stream_code (stream p1)])); [intros t Ht; constructor; exact Ht| | | |].
    + reflexivity.
    + exact Q1.
    + intros t T' HT. cbn [tlaw obs_switch]. rewrite (code_stream_code p1 (pinv_stream_ok _ I1)), S1.
      apply SW. cbn [rsp] in HT. rewrite S1 in HT. exact HT.
    + apply IH; [exact I1|exact Hrem|apply J1].
  - (* 5 *)
    destruct (do_writeable maxc r w) as [[e r1] w1|o w1] eqn:ED.
    2:{ exists []. split; [constructor|]. cbn [rev flat_map app tlaw]. split; [apply (do_writeable_halt_events _ _ _ _ Hinv Hrem ED)|eexists; reflexivity]. }
    destruct (do_writeable_gate r w e r1 w1 Hinv Hrem ED) as [G1 G2].
    set (o := OWr (match e with None => 0 | Some k => k end) (if rwriteable r1 then 1 else 0) (stream_code (stream (rsp r1)))).
    destruct (rwriteable r) eqn:Ewr.
    + destruct (G1 eq_refl) as (-> & -> & ->).
      apply (hr_post_cons _ rest a0 u0 r w o r (w_ev w [5; 0; if rwriteable r then 1 else 0; stream_code (stream (rsp r))]));
        [intros t Ht; constructor; exact Ht| | | |].
      * reflexivity.
      * reflexivity.
      * intros t T' HT. subst o. cbn [tlaw obs_switch]. rewrite (code_stream_code _ (pinv_stream_ok _ Hinv)), optN_eqb_refl. exact HT.
      * apply IH; [exact Hinv|exact Hrem|exact J].
    + destruct (G2 eq_refl) as (p1 & ES & S & Q & _ & A & _). cbv zeta in *.
      destruct (switch_law a0 u0 r w _ p1 Hinv J ES) as [J1 SW].
      pose proof (ac_K _ _ _ _ _ _ A) as HK. cbn [app rsp] in HK.
      apply (hr_post_cons _ rest a0 u0 r w o r1 (w_ev w1 [5; match e with None => 0 | Some k => k end; if rwriteable r1 then 1 else 0;
                                                     stream_code (stream (rsp r1))])); [intros t Ht; constructor; exact Ht| | | |].
      * cbn [obs_events w_ev events app o]. rewrite (ac_ev _ _ _ _ _ _ A). reflexivity.
      * exact Q.
      * intros t T' HT. subst o. cbn [tlaw obs_switch].
        rewrite (code_stream_code _ (pinv_stream_ok _ (ac_inv _ _ _ _ _ _ A))), S.
        apply SW. rewrite S in HT. rewrite HK. exact HT.
      * apply IH; [apply (ac_inv _ _ _ _ _ _ A)|exact (acct_bytes_ok _ _ _ _ _ _ A Hrem)|].
        exact (later_kept_acct _ _ _ _ _ _ _ A (J1 false (rlock r) (raborted r))).
  - exists []. split; [constructor|]. split; [exists [[8]]; split; [reflexivity|left; eexists; reflexivity]|]. split; [exact Hinv|]. split; reflexivity.
  - exists []. split; [constructor|]. split; [exists [[9]]; split; [reflexivity|left; eexists; reflexivity]|]. split; [exact Hinv|]. split; reflexivity.
  - (* 10 n *)
    pose proof (await_input_reads (io_fuel w 0) (Some n) r w Hinv Hrem) as AI.
    destruct (await_input maxc (io_fuel w 0) (Some n) r w) as [[[[c b]|k] r1] w1|o w1]; cbn [ai_post] in AI.
    + destruct AI as (dl & A & C & _). cbn [pi_case] in C. destruct C as (-> & _).
      apply (hr_post_cons _ rest a0 u0 r w (ORead c b) r1 (w_ev (w_ev w1 [1; 1; c]) b)); [intros t Ht; constructor; exact Ht| | | |].
      * cbn [obs_events w_ev events app]. rewrite (ac_ev _ _ _ _ _ _ A). reflexivity.
      * apply (ac_req _ _ _ _ _ _ A).
      * intros t T' HT. rewrite (ac_stream _ _ _ _ _ _ A) in HT.
        apply (tlaw_bytes a0 u0 _ _ _ (K (abs (rsp r1)) (remaining w1))); [reflexivity|exact (ac_K _ _ _ _ _ _ A)|exact HT].
      * apply IH; [apply (ac_inv _ _ _ _ _ _ A)|exact (acct_bytes_ok _ _ _ _ _ _ A Hrem)|exact (later_kept_acct _ _ _ _ _ _ _ A J)].
    + (* the read error is the handler's result *)
      destruct AI as (dl & A & C & _). exists [OReadErr k dl]. split; [apply OO_readq_err|].
      split; [exists []; split; [cbn [rev flat_map obs_events w_ev events app]; rewrite (ac_ev _ _ _ _ _ _ A); reflexivity|]|].
      { right. split; [reflexivity|]. exists k, dl, []. split; reflexivity. }
      split; [apply (ac_inv _ _ _ _ _ _ A)|]. split; [apply (ac_req _ _ _ _ _ _ A)|].
      apply (tlaw_bytes a0 u0 _ _ _ (K (abs (rsp r1)) (remaining w1))); [reflexivity|exact (ac_K _ _ _ _ _ _ A)|reflexivity].
    + destruct AI as (r1 & A & _). exists []. split; [constructor|]. cbn [rev flat_map app tlaw].
      split; [apply (ac_ev _ _ _ _ _ _ A)|eexists; reflexivity].
  - (* 11 n: one poll; Ready or Pending, the bytes taken from K are accounted for and the script goes on *)
    destruct (poll_input maxc (io_fuel w (len (buffer (rsp r)))) (Some n) r w) as [[p r1] w1] eqn:EP.
    destruct (poll_input_reads (io_fuel w (len (buffer (rsp r)))) (Some n) r w p r1 w1 Hinv Hrem
                ltac:(rewrite io_fuel_remaining; lia) EP) as (dl & A & C & _).
    assert (STEP : forall o e b, obs_switch o = None -> obs_events o = [b; e] -> obs_bytes o = dl ->
              (forall t, obs_of rest t -> obs_of (11 :: n :: rest) (o :: t)) ->
              hr_post (11 :: n :: rest) a0 u0 r w (run_handler maxc f rest r1 (w_ev (w_ev w1 e) b))).
    { intros o e b Hsw Hev Hby Hoo.
      apply (hr_post_cons _ rest a0 u0 r w o r1 (w_ev (w_ev w1 e) b)); [exact Hoo| | | |].
      * rewrite Hev. cbn [w_ev events app]. rewrite (ac_ev _ _ _ _ _ _ A). reflexivity.
      * apply (ac_req _ _ _ _ _ _ A).
      * intros t T' HT. rewrite (ac_stream _ _ _ _ _ _ A) in HT.
        apply (tlaw_bytes a0 u0 _ _ _ (K (abs (rsp r1)) (remaining w1))); [exact Hsw|rewrite Hby; exact (ac_K _ _ _ _ _ _ A)|exact HT].
      * apply IH; [apply (ac_inv _ _ _ _ _ _ A)|exact (acct_bytes_ok _ _ _ _ _ _ A Hrem)|exact (later_kept_acct _ _ _ _ _ _ _ A J)]. }
    destruct p as [[[c b]|k]| |]; cbn [pi_case] in C.
    + destruct C as (<- & _).
      apply (STEP (OPoll c (if rwriteable r1 then 1 else 0) dl)); try reflexivity. intros t Ht; constructor; exact Ht.
    + apply (STEP (OPollErr k (if rwriteable r1 then 1 else 0) dl)); try reflexivity. intros t Ht; constructor; exact Ht.
    + destruct C as (Hdl & _).
      apply (STEP (OPollPending (if rwriteable r1 then 1 else 0))); try reflexivity; [symmetry; exact Hdl|]. intros t Ht; constructor; exact Ht.
    + destruct C as (Hdl & _).
      apply (STEP (OPollPending (if rwriteable r1 then 1 else 0))); try reflexivity; [symmetry; exact Hdl|]. intros t Ht; constructor; exact Ht.
Qed.

(* ---- Request.aborted along the awaited read and along a whole handler: it is set only by a read that returns the
   parser's AbortRequest, and once set it stays set (for every script, writes included) ---- *)
Lemma await_input_raborted : forall fuel dest r w res r' w', await_input maxc fuel dest r w = Ok (res, r') w' ->
  raborted r' = raborted r \/ (raborted r' = true /\ res = inr EK_Aborted).
Proof.
  induction fuel as [|f IH]; intros dest r w res r' w' E; [discriminate E|].
  cbn [await_input] in E.
  destruct (poll_input maxc (io_fuel w (len (buffer (rsp r)))) dest r w) as [[p r1] w1] eqn:EP.
  pose proof (poll_input_raborted _ _ _ _ _ _ _ EP) as H.
  destruct p as [x| |].
  - injection E as <- <- <-. destruct H as [H|[H1 H2]]; [left; exact H|right]. split; [exact H1|]. injection H2 as ->. reflexivity.
  - destruct H as [H|[_ H]]; [|discriminate H]. unfold on_wake in E. cbn [andb] in E. apply IH in E. rewrite H in E. exact E.
  - destruct H as [H|[_ H]]; [|discriminate H]. unfold on_block in E.
    destruct (negb (stop_at w1 =? 0) && negb (stopped w1)); [|discriminate E]. apply IH in E. rewrite H in E. exact E.
Qed.

Corollary await_input_raborted_mono fuel dest r w res r' w' : await_input maxc fuel dest r w = Ok (res, r') w' ->
  raborted r = true -> raborted r' = true.
Proof. intros E H. destruct (await_input_raborted _ _ _ _ _ _ _ E) as [H1|[H1 _]]; [rewrite H1; exact H|exact H1]. Qed.

Lemma read_all_raborted_mono : forall fuel acc r w k acc' r' w', read_all maxc fuel acc r w = Ok (k, acc', r') w' ->
  raborted r = true -> raborted r' = true.
Proof.
  induction fuel as [|f IH]; intros acc r w k acc' r' w' E H; [discriminate E|].
  cbn [read_all] in E. destruct (await_input maxc (io_fuel w 0) (Some 64) r w) as [[[[n b]|e] r1] w1|o w1] eqn:EA; [| |discriminate E].
  - pose proof (await_input_raborted_mono _ _ _ _ _ _ _ EA H) as H1.
    destruct (n =? 0); [injection E as _ _ <- _; exact H1|]. apply (IH _ _ _ _ _ _ _ E H1).
  - injection E as _ _ <- _. apply (await_input_raborted_mono _ _ _ _ _ _ _ EA H).
Qed.

Lemma do_writeable_raborted_mono r w e r' w' : do_writeable maxc r w = Ok (e, r') w' -> raborted r = true -> raborted r' = true.
Proof.
  unfold do_writeable. intros E H. destruct (rwriteable r); [injection E as _ <- _; exact H|].
  destruct (set_stream (rsp r) _) as [p1| |]; try discriminate E.
  destruct (await_input maxc (io_fuel w 0) None (mkR p1 false (rlock r) (raborted r)) w) as [[[x|k] r2] w2|o2 w2] eqn:EA;
    try discriminate E; injection E as _ <- _; apply (await_input_raborted_mono _ _ _ _ _ _ _ EA H).
Qed.

Ltac ab_leaf H :=
  cbn [raborted];
  first [ exact H
        | eapply await_input_raborted_mono; [eassumption|exact H]
        | eapply poll_input_raborted_mono; [eassumption|exact H]
        | eapply read_all_raborted_mono; [eassumption|exact H]
        | eapply do_writeable_raborted_mono; [eassumption|exact H] ].

Theorem run_handler_raborted_mono : forall f script r w st r' w', run_handler maxc f script r w = Ok (st, r') w' ->
  raborted r = true -> raborted r' = true.
Proof.
  induction f as [|f IH]; intros script r w st r' w' E H; [discriminate E|].
  cbn [run_handler] in E. cbv zeta in E.
  repeat match type of E with
         | context [match ?x with _ => _ end] => destruct x eqn:?
         end;
    try discriminate E;
    first [ injection E as _ <- _; ab_leaf H | apply IH in E; [exact E|ab_leaf H] ].
Qed.

(* ---- the trace law spelled out ---- *)
Lemma tlaw_reads a0 u0 cur T os T' : Forall (fun o => obs_switch o = None) os -> tlaw a0 u0 cur T os T' ->
  T = flat_map obs_bytes os ++ T'.
Proof.
  intros Hf. revert T. induction Hf as [|o t Ho Ht IH]; intros T H; cbn [tlaw flat_map app] in *.
  - symmetry. exact H.
  - rewrite Ho in H. destruct H as (T1 & E1 & H1). rewrite E1, (IH T1 H1), app_assoc. reflexivity.
Qed.

(* one selection of another stream between two runs of read operations *)
Lemma tlaw_two_epochs a0 u0 cur T os1 o os2 T' s :
  Forall (fun o => obs_switch o = None) os1 -> Forall (fun o => obs_switch o = None) os2 ->
  obs_switch o = Some s -> optN_eqb s cur = false ->
  tlaw a0 u0 cur T (os1 ++ o :: os2) T' ->
  (exists T1, T = flat_map obs_bytes os1 ++ T1) /\ F s a0 u0 = flat_map obs_bytes os2 ++ T'.
Proof.
  intros H1 H2 Ho Hne. revert T. induction H1 as [|o1 t Ho1 Ht IH]; intros T H; cbn [app tlaw flat_map] in *.
  - rewrite Ho, Hne in H. split; [exists T; reflexivity|]. apply (tlaw_reads _ _ _ _ _ _ H2 H).
  - rewrite Ho1 in H. destruct H as (T1 & E1 & H). destruct (IH T1 H) as [(T2 & E2) E3].
    split; [|exact E3]. exists T2. rewrite E1, E2, app_assoc. reflexivity.
Qed.

(* scripts that only read (no set_stream, no writeable) *)
Inductive rd_only : list N -> Prop :=
| RO_nil : rd_only []
| RO_read n rest : rd_only rest -> rd_only (1 :: n :: rest)
| RO_all rest : rd_only rest -> rd_only (2 :: rest)
| RO_fill k rest : rd_only rest -> rd_only (3 :: k :: rest)
| RO_exit d c rest : rd_only (8 :: d :: c :: rest)
| RO_fail k rest : rd_only (9 :: k :: rest)
| RO_readq n rest : rd_only rest -> rd_only (10 :: n :: rest)
| RO_poll n rest : rd_only rest -> rd_only (11 :: n :: rest).

Lemma rd_only_rd_script script : rd_only script -> rd_script script.
Proof. induction 1; constructor; assumption. Qed.

Lemma rd_only_obs script os : rd_only script -> obs_of script os -> Forall (fun o => obs_switch o = None) os.
Proof.
  intros H. revert os. induction H as [|n rest H IH|rest H IH|k rest H IH|d c rest|k rest|n rest H IH|n rest H IH]; intros os Ho;
    inversion Ho; subst; try constructor; try reflexivity; try (apply IH; assumption); try constructor.
Qed.

(* item 1 (C09) along a handler that only reads: the bytes observed, in order, followed by what is still to come,
   are what was to come at the start: nothing lost, duplicated, reordered or taken from another stream *)
Theorem run_handler_read_only script f r w : rd_only script -> pinv (rsp r) -> bytes_ok (remaining w) ->
  match run_handler maxc f script r w with
  | Ok (st, r') w' =>
      exists os fin, obs_of script os /\ events w' = fin ++ flat_map obs_events (rev os) ++ events w /\ fin_ok fin os st /\
        K (abs (rsp r)) (remaining w) = flat_map obs_bytes os ++ K (abs (rsp r')) (remaining w')
  | Halt o w' =>
      exists os rest, obs_of script os /\ events w' = flat_map obs_events (rev os) ++ events w /\
        K (abs (rsp r)) (remaining w) = flat_map obs_bytes os ++ rest
  end.
Proof.
  intros Hs Hinv Hrem.
  pose proof (run_handler_reads (abs (rsp r)) (remaining w) script (rd_only_rd_script _ Hs) f r w Hinv Hrem
                ltac:(intros sg _; reflexivity)) as H.
  destruct (run_handler maxc f script r w) as [[st r'] w'|o w']; destruct H as (os & Ho & H).
  - destruct H as ((fin & H1 & Hfin) & _ & _ & H4). exists os, fin. split; [exact Ho|]. split; [exact H1|]. split; [exact Hfin|].
    apply (tlaw_reads _ _ _ _ _ _ (rd_only_obs _ _ Hs Ho) H4).
  - destruct H as (H1 & T' & H2). exists os, T'. split; [exact Ho|]. split; [exact H1|].
    apply (tlaw_reads _ _ _ _ _ _ (rd_only_obs _ _ Hs Ho) H2).
Qed.

(* the general form, started from the handler's own initial state *)
Corollary run_handler_reads_top script f r w : rd_script script -> pinv (rsp r) -> bytes_ok (remaining w) ->
  hr_post script (abs (rsp r)) (remaining w) r w (run_handler maxc f script r w).
Proof. intros Hs Hinv Hrem. apply run_handler_reads; try assumption. intros sg _. reflexivity. Qed.

(* ---- the invariant rinv is kept (with Async/ConnTotal.v) ---- *)
Lemma poll_input_rinv fuel dest r w p r' w' : rinv r -> world_ok w -> (length (wscript w) + nb w + 2 <= fuel)%nat ->
  poll_input maxc fuel dest r w = (p, r', w') -> rinv r' /\ world_ok w'.
Proof.
  intros [G A] Wok Hf E.
  destruct (poll_input_reads fuel dest r w p r' w' (rinv_pinv r (conj G A)) (world_ok_remaining w Wok) Hf E) as (dl & AC & _).
  pose proof (poll_input_ok (fun b => b) maxc fuel dest r w G Wok Hf) as H. rewrite E in H.
  assert (X : rgood r' /\ wstep w w').
  { destruct p as [[[n b]|k]| |]; [|destruct H as [H _]|destruct H as [H _]|destruct H as [H _]];
      destruct H as (H1 & H2 & _); split; assumption. }
  destruct X as [G' S]. split; [split; [exact G'|apply (ac_inv _ _ _ _ _ _ AC)]|apply (ws_ok _ _ S Wok)].
Qed.

Lemma await_input_rinv fuel dest r w x r' w' : rinv r -> world_ok w ->
  (length (rscript w) + length (wscript w) + sm w + 1 <= fuel)%nat ->
  await_input maxc fuel dest r w = Ok (x, r') w' -> rinv r' /\ world_ok w'.
Proof.
  intros [G A] Wok Hf E.
  pose proof (await_input_reads fuel dest r w (rinv_pinv r (conj G A)) (world_ok_remaining w Wok)) as H1. rewrite E in H1.
  cbn [ai_post] in H1. destruct H1 as (dl & AC & _).
  pose proof (await_input_ok (fun b => b) maxc fuel dest r w G Wok Hf) as H. rewrite E in H.
  assert (X : rgood r' /\ wstep w w').
  { destruct x as [[n b]|k]; [|destruct H as [H _]]; destruct H as (H1 & H2 & _); split; assumption. }
  destruct X as [G' S]. split; [split; [exact G'|apply (ac_inv _ _ _ _ _ _ AC)]|apply (ws_ok _ _ S Wok)].
Qed.

(* ---- the awaited forms of the persistence theorems, and the gate in one line ---- *)
Lemma await_input_zero f r w : await_input maxc (S f) (Some 0) r w = Ok (inl (0, []), r) w.
Proof. cbn [await_input]. rewrite poll_input_zero. reflexivity. Qed.

(* item 3: poll_input opens the gate only when it went to the parser, returned Ok, and the active stream is the
   role's final stream; nothing ever closes it *)
Corollary poll_input_gate fuel dest r w p r' w' :
  pinv (rsp r) -> bytes_ok (remaining w) -> (length (wscript w) + length (remaining w) + 2 <= fuel)%nat ->
  poll_input maxc fuel dest r w = (p, r', w') ->
  (rwriteable r = true -> rwriteable r' = true) /\
  (rwriteable r' = true -> rwriteable r = true \/
     (poll_parses dest r = true /\ is_inl p = true /\ is_final_stream r = true)) /\
  (poll_parses dest r = true -> is_inl p = true -> is_final_stream r = true -> rwriteable r' = true).
Proof.
  intros Hinv Hrem Hf E. destruct (poll_input_reads _ _ _ _ _ _ _ Hinv Hrem Hf E) as (dl & _ & _ & W). rewrite W.
  split; [intros ->; reflexivity|]. split.
  - destruct (rwriteable r); [left; reflexivity|]. cbn [orb]. intros H. right.
    apply andb_prop in H. destruct H as [H H3]. apply andb_prop in H. destruct H as [H1 H2]. repeat split; assumption.
  - intros -> -> ->. apply orb_true_r.
Qed.

(* item 4 (C11), awaited: at an error header the awaited read never suspends for good and never touches the
   transport's read side; when it goes to the parser it returns the error again (or the error of a failing flush) *)
Theorem await_input_sticky e : forall fuel dest r w, pinv (rsp r) -> bytes_ok (remaining w) -> err_at (abs (rsp r)) e ->
  match await_input maxc fuel dest r w with
  | Ok (res, r') w' =>
      remaining w' = remaining w /\ rscript w' = rscript w /\ pinv (rsp r') /\ err_at (abs (rsp r')) e /\
      (poll_parses dest r = true ->
         exists k, res = inr k /\ (k = perr_kind e \/ fault_of k (wscript w))) /\
      (poll_parses dest r = false -> w' = w /\ exists x, res = inl x)
  | Halt o w' => o = OFuel
  end.
Proof.
  induction fuel as [|f IH]; intros dest r w Hinv Hrem He; [reflexivity|]. cbn [await_input].
  destruct (poll_input maxc (io_fuel w (len (buffer (rsp r)))) dest r w) as [[p r1] w1] eqn:EP.
  destruct (poll_input_sticky (io_fuel w (len (buffer (rsp r)))) dest r w p r1 w1 e Hinv He ltac:(rewrite io_fuel_remaining; lia) EP)
    as (S1 & S2 & S3 & S4 & S5 & _ & S7).
  destruct (poll_input_reads (io_fuel w (len (buffer (rsp r)))) dest r w p r1 w1 Hinv Hrem ltac:(rewrite io_fuel_remaining; lia) EP) as (dl & A & C & _).
  destruct (poll_parses dest r) eqn:Epp.
  - specialize (S5 eq_refl). destruct p as [[x|k]| |]; try contradiction.
    + split; [exact S1|]. split; [exact S2|]. split; [exact S3|]. split; [exact S4|]. split; [|discriminate].
      intros _. exists k. split; [reflexivity|]. destruct S5 as [S5|[S5 _]]; [left; exact S5|right; exact S5].
    + unfold on_wake. cbn [andb]. cbn [pi_case] in C. destruct C as (_ & C2 & C3).
      assert (Esb : stream_buffer (rsp r1) = stream_buffer (rsp r)) by (rewrite C2, C3; reflexivity).
      specialize (IH dest r1 (w_bump w1) S3 ltac:(exact (acct_bytes_ok _ _ _ _ _ _ A Hrem)) S4).
      destruct (await_input maxc f dest r1 (w_bump w1)) as [[res r2] w2|o w2]; [|exact IH].
      destruct IH as (I1 & I2 & I3 & I4 & I5 & I6).
      split; [rewrite I1; exact S1|]. split; [rewrite I2; exact S2|]. split; [exact I3|]. split; [exact I4|].
      rewrite (poll_parses_eq dest r1 r Esb), Epp in I5. split; [|discriminate].
      intros Ht. destruct (I5 Ht) as (k & Hk1 & Hk2). exists k. split; [exact Hk1|].
      destruct Hk2 as [Hk2|Hk2]; [left; exact Hk2|right]. eapply fault_of_suffix; [apply (ac_ws _ _ _ _ _ _ A)|exact Hk2].
  - destruct (S7 eq_refl) as [S8 ->]. destruct p as [[x|k]| |]; try discriminate S8.
    split; [reflexivity|]. split; [reflexivity|]. split; [exact S3|]. split; [exact S4|]. split; [discriminate|].
    intros _. split; [reflexivity|]. exists x. reflexivity.
Qed.

(* item 1, awaited: at the end of the stream every read into a non-empty buffer returns Ok(0) (or the error of a
   failing flush) without touching the transport's read side *)
Theorem await_input_eof c : 0 < c -> forall fuel r w, pinv (rsp r) -> at_term (abs (rsp r)) = true ->
  stream_buffer (rsp r) = [] ->
  match await_input maxc fuel (Some c) r w with
  | Ok (res, r') w' =>
      remaining w' = remaining w /\ rscript w' = rscript w /\ pinv (rsp r') /\
      at_term (abs (rsp r')) = true /\ stream_buffer (rsp r') = [] /\
      (res = inl (0, []) \/ exists k, res = inr k /\ (k = EK_WriteZero \/ k = EK_Transport \/ k = EK_Aborted))
  | Halt o w' => o = OFuel
  end.
Proof.
  intros Hc. induction fuel as [|f IH]; intros r w Hinv Ht Esb; [reflexivity|]. cbn [await_input].
  destruct (poll_input maxc (io_fuel w (len (buffer (rsp r)))) (Some c) r w) as [[p r1] w1] eqn:EP.
  destruct (poll_input_eof (io_fuel w (len (buffer (rsp r)))) c r w p r1 w1 Hinv Ht Esb Hc ltac:(rewrite io_fuel_remaining; lia) EP)
    as (S1 & S2 & S3 & S4 & S5 & S6 & _).
  destruct p as [[[n b]|k]| |]; try contradiction.
  - destruct S6 as [-> ->]. split; [exact S1|]. split; [exact S2|]. split; [exact S3|]. split; [exact S4|].
    split; [exact S5|left; reflexivity].
  - split; [exact S1|]. split; [exact S2|]. split; [exact S3|]. split; [exact S4|]. split; [exact S5|].
    right. exists k. split; [reflexivity|eapply fault_of_kind; apply S6].
  - unfold on_wake. cbn [andb]. specialize (IH r1 (w_bump w1) S3 S4 S5).
    destruct (await_input maxc f (Some c) r1 (w_bump w1)) as [[res r2] w2|o w2]; [|exact IH].
    destruct IH as (I1 & I2 & I3 & I4 & I5 & I6).
    split; [rewrite I1; exact S1|]. split; [rewrite I2; exact S2|]. split; [exact I3|]. split; [exact I4|]. split; assumption.
Qed.

(* ------------------------------------------------------------------------------------------ *)
(* Part 7: the block points outside poll_input (C08, item 2b)                                   *)
(* ------------------------------------------------------------------------------------------ *)

(* Request::record_boundary: a deadlock inside its loop happens only strictly inside a record (the client has
   started a record and not finished it); nothing was written, the replies produced so far are still pending in
   the parser (the flush is deferred to close), and all replies are still accounted for *)
Theorem boundary_loop_deadlock : forall fuel new r w w',
  pinv (rsp r) -> bytes_ok new -> len new <= sinput_space (rsp r) -> bytes_ok (remaining w) ->
  boundary_loop maxc fuel new r w = Halt ODeadlock w' ->
  gated w' /\ wlog w' = wlog w /\
  exists p', pinv p' /\ is_record_boundary p' = false /\ sreq p' = sreq (rsp r) /\
             R maxc (abs (rsp r)) (new ++ remaining w) = R maxc (abs p') (remaining w').
Proof.
  induction fuel as [|f IH]; intros new r w w' Hinv Hnew Hfit Hrem E; [discriminate E|].
  rewrite ConnWrites.boundary_loop_S in E.
  pose proof (sparse_step (rsp r) new None Hinv Hnew Hfit ltac:(intros H; contradiction)) as SS.
  assert (AFTER : forall p1 s, sparse_ok (rsp r) new None p1 s ->
            ConnWrites.bl_after maxc f r w p1 = Halt ODeadlock w' ->
            gated w' /\ wlog w' = wlog w /\
            exists p', pinv p' /\ is_record_boundary p' = false /\ sreq p' = sreq (rsp r) /\
                       R maxc (abs (rsp r)) (new ++ remaining w) = R maxc (abs p') (remaining w')).
  { intros p1 s SO E1. unfold ConnWrites.bl_after in E1. cbv zeta in E1.
    destruct (is_record_boundary p1) eqn:Eb; [discriminate E1|].
    pose proof (so_inv _ _ _ _ _ SO) as [RI1 I1].
    pose proof (compress_abs p1 RI1) as CA.
    assert (I2 : pinv (compress p1)) by (split; [apply compress_RI; exact RI1|rewrite CA; apply compress_inv; exact I1]).
    assert (Eb2 : is_record_boundary (compress p1) = false) by exact Eb.
    assert (HR : forall u, R maxc (abs (rsp r)) (new ++ u) = R maxc (abs (compress p1)) u).
    { intros u. rewrite (so_R _ _ _ _ _ SO u), CA. reflexivity. }
    pose proof (await_read_rem (io_fuel w 0) false (sinput_space (compress p1)) w) as AR.
    destruct (await_read (io_fuel w 0) false (sinput_space (compress p1)) w) as [[b|k] w1|o w1]; [| discriminate E1|].
    - destruct AR as (A1 & A2 & A3 & A4 & _). destruct b as [|x b]; [discriminate E1|].
      rewrite A3 in Hrem. apply bytes_ok_app in Hrem.
      destruct (IH (x :: b) (mkR (compress p1) (rwriteable r) (rlock r) (raborted r)) w1 w' I2 (proj1 Hrem) A4 (proj2 Hrem) E1)
        as (G & L & p' & P1 & P2 & P3 & P4).
      split; [exact G|]. split; [rewrite L; exact A1|]. exists p'. split; [exact P1|]. split; [exact P2|].
      cbn [rsp] in P3, P4. split; [rewrite P3; apply SO|]. rewrite A3, HR. exact P4.
    - injection E1 as -> ->. destruct AR as (A1 & A2 & A3 & A4).
      split; [apply A4; reflexivity|]. split; [exact A1|]. exists (compress p1). split; [exact I2|]. split; [exact Eb2|].
      split; [apply SO|]. rewrite A3. apply HR. }
  destruct (sparse maxc (rsp r) new None) as [p1 s|p1 e s|n]; [apply (AFTER p1 s); [apply SS|exact E]| |discriminate E].
  destruct SS as (SO & He & _). destruct e; try discriminate E.
  unfold ConnWrites.bl_after in E. cbv zeta in E. rewrite (err_at_boundary _ _ He) in E. discriminate E.
Qed.

End Reads.

Section ParseRequest.
Variable norm : bytes -> bytes.
Variable maxc : N.

(* Token::parse_request, one iteration: the transport is read only after the whole output of the parse call
   just made has been accepted by the transport *)
Theorem parse_request_iter f p new w :
  parse_request norm maxc (S f) p new w =
  match parse norm maxc p new with
  | PPanic n => Halt (OPanic n) w
  | POk p' done out =>
    match await_write_all (io_fuel w (len out)) true out w with
    | Halt o w' => Halt o w'
    | Ok (Some k) w' => Ok (inr k) w'
    | Ok None w' =>
      if done then match into_stream_parser p' with inl s => Ok (inl s) w' | inr e => Ok (inr (perr_kind e)) w' end
      else match await_read (io_fuel w' 0) true (input_space p') w' with
           | Halt o w'' => Halt o w''
           | Ok (inr k) w'' => Ok (inr k) w''
           | Ok (inl []) w'' => Ok (inr EK_Reset) w''
           | Ok (inl b) w'' => parse_request norm maxc f p' b w''
           end
    end
  end.
Proof. reflexivity. Qed.

Corollary parse_request_read_after_flush f p new w p' out :
  parse norm maxc p new = POk p' false out ->
  match await_write_all (io_fuel w (len out)) true out w with
  | Ok None w1 => wlog w1 = wlog w ++ out /\ remaining w1 = remaining w /\
      parse_request norm maxc (S f) p new w =
        match await_read (io_fuel w1 0) true (input_space p') w1 with
        | Halt o w'' => Halt o w''
        | Ok (inr k) w'' => Ok (inr k) w''
        | Ok (inl []) w'' => Ok (inr EK_Reset) w''
        | Ok (inl b) w'' => parse_request norm maxc f p' b w''
        end
  | Ok (Some k) w1 => parse_request norm maxc (S f) p new w = Ok (inr k) w1      (* no read *)
  | Halt o w1 => parse_request norm maxc (S f) p new w = Halt o w1 /\ o <> ODeadlock   (* no read *)
  end.
Proof.
  intros E. rewrite parse_request_iter, E.
  pose proof (await_write_all_spec (io_fuel w (len out)) true out w) as H.
  destruct (await_write_all (io_fuel w (len out)) true out w) as [[k|] w1|o w1].
  - reflexivity.
  - split; [apply (io_rel_wlog _ _ _ H)|]. split; [apply same_but_io_remaining; apply H|reflexivity].
  - split; [reflexivity|]. intros ->. exact H.
Qed.

(* the parse calls made by parse_request and their outputs *)
Inductive pr_chain : parser -> bytes -> list bytes -> Prop :=
| PC_last p new p' out : parse norm maxc p new = POk p' false out -> pr_chain p new [out]
| PC_step p new p' out b outs : parse norm maxc p new = POk p' false out -> b <> [] -> pr_chain p' b outs ->
    pr_chain p new (out :: outs).

(* item 2b (C08): if the task deadlocks in parse_request, it does so in the read, with every reply produced by
   every parse call made so far completely in the transport's log, and nothing else in it *)
Theorem parse_request_deadlock : forall fuel p new w w',
  parse_request norm maxc fuel p new w = Halt ODeadlock w' ->
  gated w' /\ exists outs, pr_chain p new outs /\ wlog w' = wlog w ++ concat outs.
Proof.
  induction fuel as [|f IH]; intros p new w w' E; [discriminate E|].
  rewrite parse_request_iter in E.
  destruct (parse norm maxc p new) as [p' done out|n] eqn:EP; [|discriminate E].
  pose proof (await_write_all_spec (io_fuel w (len out)) true out w) as H.
  destruct (await_write_all (io_fuel w (len out)) true out w) as [[k|] w1|o w1]; [discriminate E| |].
  2:{ injection E as -> ->. contradiction. }
  pose proof (io_rel_wlog _ _ _ H) as L1.
  destruct done; [destruct (into_stream_parser p'); discriminate E|].
  pose proof (await_read_rem (io_fuel w1 0) true (input_space p') w1) as AR.
  destruct (await_read (io_fuel w1 0) true (input_space p') w1) as [[b|k] w2|o w2]; [|discriminate E|].
  - destruct b as [|x b]; [discriminate E|]. destruct AR as (A1 & _).
    destruct (IH p' (x :: b) w2 w' E) as (G & outs & C & L).
    split; [exact G|]. exists (out :: outs). split; [eapply PC_step; [exact EP| |exact C]; discriminate|].
    cbn [concat]. rewrite L, A1, L1, app_assoc. reflexivity.
  - injection E as -> ->. destruct AR as (A1 & _ & _ & A4). split; [apply A4; reflexivity|].
    exists [out]. split; [eapply PC_last; exact EP|]. cbn [concat]. rewrite app_nil_r, A1. exact L1.
Qed.
End ParseRequest.

(* ------------------------------------------------------------------------------------------ *)
(* Part 8: initial states, examples, counterexamples                                            *)
(* ------------------------------------------------------------------------------------------ *)

(* the states in which a Request starts satisfy the invariant *)
Lemma new_sparser_pinv bs r : pinv (new_sparser bs r).
Proof.
  destruct (new_sparser_init bs r) as [HRI HA]. split; [exact HRI|]. rewrite HA.
  unfold a_inv, a_ok. cbn [a_B a_space a_parsed a_raw a_prem a_pad a_st a_stream]. change (len (@nil N)) with 0.
  split; [lia|]. split; [lia|]. split; [lia|]. split; [constructor|]. split; [discriminate|].
  destruct (next_input_stream (r_role r) None) as [e|] eqn:E; [apply (next_is_input _ _ _ E)|exact I].
Qed.

Lemma into_stream_parser_pinv rp r0 p0 : st rp = Done r0 -> len (held rp) <= cap rp -> bytes_ok (held rp) ->
  into_stream_parser rp = inl p0 -> pinv p0.
Proof.
  intros Hst Hl Hb E. destruct (into_stream_parser_init rp r0 Hst Hl) as (p1 & E1 & HRI & HA).
  rewrite E in E1. injection E1 as <-. split; [exact HRI|]. rewrite HA.
  unfold a_inv, a_ok. cbn [a_B a_space a_parsed a_raw a_prem a_pad a_st a_stream]. change (len (@nil N)) with 0.
  split; [lia|]. split; [lia|]. split; [lia|]. split; [exact Hb|]. split; [discriminate|].
  destruct (next_input_stream (r_role r0) None) as [e|] eqn:En; [apply (next_is_input _ _ _ En)|exact I].
Qed.

(* item 3: Request::new opens the gate exactly for roles with at most one input stream, and then the stream the
   request starts on is the role's final stream *)
Lemma request_new_gate role : (len (role_input_streams role) <=? 1) = true ->
  next_input_stream role (next_input_stream role None) = None.
Proof.
  destruct (role_cases role) as [->|[->|[->|[E Hn]]]]; try (vm_compute; intros H; first [reflexivity|discriminate H]).
  intros _. apply Hn.
Qed.

Definition ex_w (b : bytes) : world := mkW [] [] [(0, 0, b)] [] 0 1 0 false false [].
Definition ex_resp : sp := new_sparser 64 (mkReq 1 ROLE_Responder 0 []).
Definition ex_filt : sp := new_sparser 64 (mkReq 1 ROLE_Filter 0 []).
(* Stdin "abc" (5 bytes padding), then AbortRequest, in one segment *)
Definition ex_stdin_abort : bytes := [1;5;0;1;0;3;5;0; 97;98;99; 0;0;0;0;0] ++ [1;2;0;1;0;0;0;0].
(* Data "xy" (6 bytes padding), then AbortRequest *)
Definition ex_data_abort : bytes := [1;8;0;1;0;2;6;0; 120;121; 0;0;0;0;0;0] ++ [1;2;0;1;0;0;0;0].
(* Stdin "abcde", GetValues FCGI_MAX_CONNS, Stdin end, Data "xy", Data end *)
Definition ex_two_streams : bytes :=
  [1;5;0;1;0;5;3;0; 97;98;99;100;101; 0;0;0] ++
  [1;9;0;0;0;16;0;0; 14;0; 70;67;71;73;95;77;65;88;95;67;79;78;78;83] ++
  [1;5;0;1;0;0;0;0] ++ [1;8;0;1;0;2;6;0; 120;121; 0;0;0;0;0;0] ++ [1;8;0;1;0;0;0;0].

Example ex_hyps : pinv ex_resp /\ pinv ex_filt /\ bytes_ok (remaining (ex_w ex_two_streams)) /\
  rd_only [1; 2; 1; 2; 3; 1; 2] /\ rd_script [1; 2; 2; 4; 8; 5; 2].
Proof.
  split; [apply new_sparser_pinv|]. split; [apply new_sparser_pinv|].
  split; [apply bytes_okb_ok; vm_compute; reflexivity|]. split; repeat constructor.
Qed.

(* COUNTEREXAMPLE to "K a (remaining w) = K a' (remaining w') for errors": a read into a 10-byte buffer meets
   Stdin "abc" and an AbortRequest in the same parse call: the call fails with Aborted after the three bytes were
   copied into the caller's buffer; they are gone (K drops from "abc" to nothing, nothing was delivered).
   [poll_input_reads] accounts for them as [dl] with len dl <= c. *)
Example ex_lost_bytes :
  let r := mkR ex_resp true false false in let w := ex_w ex_stdin_abort in
  match poll_input 10 50 (Some 10) r w with
  | (PReady (inr k), r', w') => k = EK_Aborted /\ K (abs (rsp r)) (remaining w) = [97; 98; 99] /\
                                K (abs (rsp r')) (remaining w') = [] /\ remaining w' = [] /\ raborted r' = true
  | _ => False
  end.
Proof. vm_compute. repeat split; reflexivity. Qed.

(* the second disjunct of the UnexpectedEof case is needed: a GetValues record whose name-value pair (92 bytes) does
   not fit into the 64-byte parser buffer fills the buffer with unparsed bytes; the next read is made into an empty
   buffer, answers Ok(0), and is taken for end of file although 28 client bytes are still to come *)
Definition ex_big_pair : bytes := [1;9;0;0;0;92;0;0] ++ [90;0] ++ repeatN 65 90.
Example ex_full_buffer_eof :
  match poll_input 10 200 (Some 10) (mkR ex_resp true false false) (ex_w ex_big_pair) with
  | (PReady (inr k), r', w') => k = EK_UnexpectedEof /\ sinput_space (rsp r') = 0 /\ len (remaining w') = 28 /\
                                payload_rem (rsp r') = 92
  | _ => False
  end.
Proof. vm_compute. repeat split; reflexivity. Qed.

(* COUNTEREXAMPLE to "do_writeable = Ok(None) implies writeable": a Filter handler selects Data (the final
   stream), fill_buf() meets Data "xy" and an AbortRequest in one parse call and fails with Aborted, leaving "xy"
   in the stream buffer and the gate closed; then writeable() returns Ok(()) and is_writeable() is still false
   (in the crate: a following output_stream() panics on its assertion).  See [do_writeable_gate], [do_writeable_stale]. *)
Example ex_writeable_stale :
  match run_handler 10 10 [4; 8; 3; 0] (mkR ex_filt false false false) (ex_w ex_data_abort) with
  | Ok (_, r1) w1 =>
      rwriteable r1 = false /\ stream (rsp r1) = last_opt ROLE_Filter /\ stream_buffer (rsp r1) = [120; 121] /\
      events w1 = [[8]; []; [3; 0; EK_Aborted]; [4; 8]] /\
      match do_writeable 10 r1 w1 with
      | Ok (None, r2) _ => rwriteable r2 = false
      | _ => False
      end
  | _ => False
  end.
Proof. vm_compute. repeat split; reflexivity. Qed.

(* a run in which the statements are about something: two reads of 2 bytes, the rest by read_to_end (the reply to
   GetValues is written on the way), then Data selected and read: each epoch delivers exactly its stream *)
Example ex_epochs :
  match run_handler 10 20 [1; 2; 1; 2; 2; 4; 8; 5; 2] (mkR ex_filt false false false) (ex_w ex_two_streams) with
  | Ok (_, r') w' =>
      rev (events w') = [[1; 1; 2]; [97; 98]; [1; 1; 2]; [99; 100]; [2; 0]; [101]; [4; 8]; [5; 0; 1; 8]; [2; 0]; [120; 121]; [8]] /\
      rwriteable r' = true /\ len (wlog w') = 32 /\
      K (abs ex_filt) ex_two_streams = [97; 98; 99; 100; 101] /\ F (Some RT_Data) (abs ex_filt) ex_two_streams = [120; 121]
  | _ => False
  end.
Proof. vm_compute. repeat split; reflexivity. Qed.

(* end of file persists, and a zero-length read says nothing *)
Example ex_eof :
  match run_handler 10 20 [2; 1; 4; 1; 0; 1; 7] (mkR ex_resp true false false) (ex_w ex_two_streams) with
  | Ok (_, r') w' =>
      rev (events w') = [[2; 0]; [97; 98; 99; 100; 101]; [1; 1; 0]; []; [1; 1; 0]; []; [1; 1; 0]; []; [8]] /\
      at_term (abs (rsp r')) = true
  | _ => False
  end.
Proof. vm_compute. repeat split; reflexivity. Qed.

(* the two sources of the kind Aborted, seen by a handler that propagates read errors (10 n = read(buf)?):
   the client's AbortRequest sets Request.aborted ... *)
Example ex_abort_by_client :
  match run_handler 10 20 [10; 2; 10; 9; 10; 2; 8; 0; 0] (mkR ex_resp true false false) (ex_w ex_stdin_abort) with
  | Ok (st, r') w' => st = inr EK_Aborted /\ raborted r' = true /\ rev (events w') = [[1; 1; 2]; [97; 98]; [1; 0; EK_Aborted]; []]
  | _ => False
  end.
Proof. vm_compute. repeat split; reflexivity. Qed.

(* ... a transport write error of kind ConnectionAborted during the flush of the GetValues reply does not *)
Example ex_abort_by_transport :
  match run_handler 10 20 [10; 2; 10; 2; 10; 2; 10; 2; 8; 0; 0] (mkR ex_resp true false false)
          (mkW [] [W_ERR_AB] [(0, 0, ex_two_streams)] [] 0 1 0 false false []) with
  | Ok (st, r') w' => st = inr EK_Aborted /\ raborted r' = false /\ wlog w' = [] /\
      rev (events w') = [[1; 1; 2]; [97; 98]; [1; 1; 2]; [99; 100]; [1; 1; 1]; [101]; [1; 0; EK_Aborted]; []]
  | _ => False
  end.
Proof. vm_compute. repeat split; reflexivity. Qed.

Print Assumptions t_poll_read_rem.
Print Assumptions await_read_rem.
Print Assumptions sparse_step.
Print Assumptions aparse_quiet.
Print Assumptions sparse_quiet.
Print Assumptions input_loop_reads.
Print Assumptions poll_input_reads.
Print Assumptions poll_input_zero.
Print Assumptions await_input_reads.
Print Assumptions poll_input_block.
Print Assumptions await_input_deadlock.
Print Assumptions poll_input_sticky.
Print Assumptions poll_input_eof.
Print Assumptions poll_input_zero_is_eof.
Print Assumptions poll_input_aborted.
Print Assumptions poll_input_aborted_no_fault.
Print Assumptions poll_input_sets_aborted.
Print Assumptions poll_input_raborted.
Print Assumptions await_input_raborted.
Print Assumptions run_handler_raborted_mono.
Print Assumptions boundary_loop_abort.
Print Assumptions poll_input_gate.
Print Assumptions await_input_sticky.
Print Assumptions await_input_eof.
Print Assumptions record_boundary_at_err.
Print Assumptions set_stream_step.
Print Assumptions do_writeable_gate.
Print Assumptions do_writeable_stale.
Print Assumptions read_all_reads.
Print Assumptions read_all_complete.
Print Assumptions run_handler_reads.
Print Assumptions run_handler_read_only.
Print Assumptions run_handler_reads_top.
Print Assumptions tlaw_two_epochs.
Print Assumptions poll_input_rinv.
Print Assumptions await_input_rinv.
Print Assumptions boundary_loop_deadlock.
Print Assumptions parse_request_iter.
Print Assumptions parse_request_read_after_flush.
Print Assumptions parse_request_deadlock.
Print Assumptions new_sparser_pinv.
Print Assumptions into_stream_parser_pinv.
Print Assumptions request_new_gate.
