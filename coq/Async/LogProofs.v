(* Async/LogProofs.v — proofs of Async/LogTargets.v: the transport log of a whole connection, request by request.
   The facts used are structural: the model touches [wlog] only through t_poll_write (the log only grows), no operation of
   the stream parser changes [sreq], and Request::close's tail is accounted for by ConnWrites.close_tail_log_shape.  None of
   them needs the parser invariants, so the hypotheses of connection_log_stmt (parser_ok, st = Header, world_ok) are not used. *)
From Coq Require Import ZArith.
From FV Require Import Base.Bytes Base.BytesLemmas Gen.Generated Codec.Varint Codec.NV Codec.Header Codec.Bodies Codec.Vars
  Codec.ProtoProofs Parser.ReqModel Parser.ReqTargets Parser.ReqRecords Parser.StreamModel Parser.StreamRefine Parser.EnvCanon
  Async.Conn Async.ConnWrites Async.ConnTotal Async.ConnReads Async.PeerProofs2 Async.LogTargets.
From Coq Require Import ZifyBool ZifyNat ZifyN.
Ltac Zify.zify_post_hook ::= Z.div_mod_to_equations.

(* ------------------------------------------------------------------------------------------ *)
(* Part 0: the ghost log erases                                                                 *)
(* ------------------------------------------------------------------------------------------ *)
Theorem run_loop_log_erase_proof : run_loop_log_erase_stmt.
Proof.
  intros norm maxc fuel. induction fuel as [|f IH]; intros p scripts served w acc; [reflexivity|].
  cbn [run_loop_log run_loop]. destruct (stopped w); [reflexivity|].
  destruct (parse_request norm maxc (io_fuel w 0) p [] w) as [[s0|k] w1|o w1]; [|reflexivity|reflexivity].
  cbv zeta.
  match goal with |- context [run_handler maxc ?fu ?sc ?r0 ?w2] => destruct (run_handler maxc fu sc r0 w2) as [[st r1] w3|o w3] end;
    [|reflexivity].
  match goal with |- fst (match ?s with Some _ => _ | None => _ end) = _ => destruct s as [[d c]|] end; [|reflexivity].
  destruct (do_close maxc r1 d c w3) as [[rp|k] w4|o w4]; [apply IH|reflexivity|reflexivity].
Qed.

(* ------------------------------------------------------------------------------------------ *)
(* Part 1: no operation of the stream parser changes the request it belongs to                  *)
(* ------------------------------------------------------------------------------------------ *)
Definition cf_sreq (q : req) (c : cflow) : Prop :=
  match c with CContinue l | CBreak l | CErr l _ => sreq (lp l) = q | CPanic _ => True end.

Ltac split_goal_matches :=
  repeat match goal with
         | |- context [if ?c then _ else _] => destruct c
         | |- context [match ?x with _ => _ end] => destruct x
         end.

Lemma parse_payload_sreq maxc l : cf_sreq (sreq (lp l)) (parse_payload maxc l).
Proof.
  unfold parse_payload. cbv beta zeta. split_goal_matches; first [exact I|exact eq_refl].
Qed.

Lemma parse_head_sreq l : cf_sreq (sreq (lp l)) (parse_head l).
Proof.
  unfold parse_head. cbv beta zeta. split_goal_matches; first [exact I|exact eq_refl].
Qed.

Lemma cf_sreq_eq q q' c : q = q' -> cf_sreq q c -> cf_sreq q' c.
Proof. intros ->. exact (fun H => H). Qed.

Lemma after_pl_sreq l : cf_sreq (sreq (lp l)) (after_pl l).
Proof.
  unfold after_pl. cbv zeta. destruct (0 <? padding_rem (lp l)); [|apply parse_head_sreq].
  destruct (negb (payload_rem (lp l) =? 0)); [exact I|].
  destruct (free_start (lp l) - raw_start (lp l) <=? padding_rem (lp l)); [exact eq_refl|].
  eapply cf_sreq_eq; [|apply parse_head_sreq]. reflexivity.
Qed.

Lemma parse_iter_sreq maxc l : cf_sreq (sreq (lp l)) (parse_iter maxc l).
Proof.
  rewrite parse_iter_unfold. destruct (0 <? payload_rem (lp l)); [|apply after_pl_sreq].
  pose proof (parse_payload_sreq maxc l) as H. destruct (parse_payload maxc l) as [l'|l'|l' e|n]; try exact H.
  cbn [cf_sreq] in H. eapply cf_sreq_eq; [exact H|apply after_pl_sreq].
Qed.

Lemma parse_loop_sreq maxc fuel : forall l, cf_sreq (sreq (lp l)) (parse_loop maxc fuel l).
Proof.
  induction fuel as [|f IH]; intros l; [exact I|]. cbn [parse_loop].
  destruct (raw_start (lp l) <? free_start (lp l)); [|exact eq_refl].
  pose proof (parse_iter_sreq maxc l) as H. destruct (parse_iter maxc l) as [l'|l'|l' e|n]; try exact H.
  cbn [cf_sreq] in H. eapply cf_sreq_eq; [exact H|apply IH].
Qed.

Lemma sparse_sreq maxc p new dest :
  match sparse maxc p new dest with StOk p' _ | StErr p' _ _ => sreq p' = sreq p | StPanic _ => True end.
Proof.
  unfold sparse. destruct (match dest with Some _ => negb (parsed_start p =? gap_start p) | None => false end); [exact I|].
  destruct (len (buffer p) - free_start p <? len new); [exact I|]. cbv zeta.
  match goal with |- context [parse_loop maxc ?f ?l] => pose proof (parse_loop_sreq maxc f l) as H; destruct (parse_loop maxc f l) as [l'|l'|l' e|n] end;
    cbn [cf_sreq lp] in H; try exact I; try exact H; destruct (invars_ok (lp l')); first [exact H|exact I].
Qed.

Lemma set_stream_sreq p s p' : set_stream p s = SetOk p' -> sreq p' = sreq p.
Proof.
  unfold set_stream. intros E.
  repeat match type of E with
         | context [if ?c then _ else _] => destruct c
         | context [match ?x with _ => _ end] => destruct x
         end; try discriminate E; injection E as <-; reflexivity.
Qed.

(* ------------------------------------------------------------------------------------------ *)
(* Part 2: the transport log only grows, the request of a Request never changes                 *)
(* ------------------------------------------------------------------------------------------ *)
Definition lg (w w' : world) : Prop := is_prefix (wlog w) (wlog w').

Lemma is_prefix_refl a : is_prefix a a.
Proof. exists []. symmetry. apply app_nil_r. Qed.

Lemma is_prefix_trans a b c : is_prefix a b -> is_prefix b c -> is_prefix a c.
Proof. intros [x ->] [y ->]. exists (x ++ y). symmetry. apply app_assoc. Qed.

Lemma lg_refl w : lg w w.
Proof. apply is_prefix_refl. Qed.

Lemma lg_trans a b c : lg a b -> lg b c -> lg a c.
Proof. apply is_prefix_trans. Qed.

Lemma lg_eq w w' w'' : wlog w'' = wlog w' -> lg w w' -> lg w w''.
Proof. unfold lg. intros ->. exact (fun H => H). Qed.

Lemma lg_eq_l w w' w'' : wlog w' = wlog w -> lg w' w'' -> lg w w''.
Proof. unfold lg. intros ->. exact (fun H => H). Qed.

Lemma io_rel_lg w w' b : io_rel w w' b -> lg w w'.
Proof. intros H. exists b. apply io_rel_wlog. exact H. Qed.

Definition res_w {A} (x : res A) : world := match x with Ok _ w | Halt _ w => w end.

(* same request, longer log *)
Definition pk (r : rstate) (w : world) (r' : rstate) (w' : world) : Prop := sreq (rsp r') = sreq (rsp r) /\ lg w w'.

Lemma pk_refl r w : pk r w r w.
Proof. split; [reflexivity|apply lg_refl]. Qed.

Lemma pk_trans r w r1 w1 r2 w2 : pk r w r1 w1 -> pk r1 w1 r2 w2 -> pk r w r2 w2.
Proof. intros [A1 A2] [B1 B2]. split; [congruence|eapply lg_trans; eassumption]. Qed.

Lemma pk_world r w r1 w1 w2 : pk r w r1 w1 -> lg w1 w2 -> pk r w r1 w2.
Proof. intros [A1 A2] B. split; [exact A1|eapply lg_trans; eassumption]. Qed.

Ltac nres := let X := fresh in intros X; vm_compute in X; discriminate X.

Lemma perr_kind_nres e : perr_kind e <> EK_Reset.
Proof. destruct e; nres. Qed.

Lemma await_read_wlog fuel : forall sel L w, wlog (res_w (await_read fuel sel L w)) = wlog w.
Proof.
  induction fuel as [|f IH]; intros sel L w; [reflexivity|]. cbn [await_read].
  destruct (t_poll_read L w) as [p w1] eqn:ET. apply ConnWrites.t_poll_read_spec in ET. destruct ET as (T1 & _).
  destruct p as [a| |].
  - exact T1.
  - unfold on_wake. destruct (sel && stopped (w_bump w1)); [exact T1|]. rewrite IH. exact T1.
  - unfold on_block. destruct (negb (stop_at w1 =? 0) && negb (stopped w1)); [|exact T1].
    destruct sel; [exact T1|]. rewrite IH. exact T1.
Qed.

Lemma poll_output_pk fuel r w p r' w' : poll_output fuel r w = (p, r', w') ->
  pk r w r' w' /\ rwriteable r' = rwriteable r /\ (forall k, p = PReady (inr k) -> k <> EK_Reset).
Proof.
  intros E. pose proof (poll_output_post fuel r w) as H. rewrite E in H. unfold po_post in H. cbv zeta in H.
  destruct H as (n & _ & Hio & _ & Hsame & Hwr & Hp). destruct Hsame as (_ & _ & _ & _ & _ & A6 & _).
  split; [split; [exact A6|eapply io_rel_lg; exact Hio]|]. split; [exact Hwr|].
  intros k ->. destruct Hp as [->|(_ & _ & Hf)]; [nres|].
  apply fault_of_kind in Hf. destruct Hf as [->|[->| ->]]; nres.
Qed.

Section LogConn.
Variable maxc : N.

Lemma input_loop_pk : forall fuel dest new r w p r' w', input_loop maxc fuel dest new r w = (p, r', w') ->
  pk r w r' w' /\ (forall k, p = PReady (inr k) -> k <> EK_Reset).
Proof.
  induction fuel as [|f IH]; intros dest new r w p r' w' E.
  { cbn [input_loop] in E. injection E as <- <- <-. split; [apply pk_refl|]. intros k X. injection X as <-. nres. }
  cbn [input_loop] in E. pose proof (sparse_sreq maxc (rsp r) new dest) as HS.
  destruct (sparse maxc (rsp r) new dest) as [p1 s|p1 e s|n].
  - destruct (s_end s || (0 <? s_stream s)).
    + injection E as <- <- <-. split; [|intros k X; discriminate X]. split; [|apply lg_refl].
      match goal with |- context [if ?c then _ else _] => destruct c end; exact HS.
    + destruct (poll_output (S f) (mkR (compress p1) (rwriteable r) (rlock r) (raborted r)) w) as [[po r3] w0] eqn:EP.
      apply poll_output_pk in EP. destruct EP as ([Q1 L1] & _ & N1). cbn [rsp] in Q1.
      assert (B0 : pk r w r3 w0) by (split; [rewrite Q1; exact HS|exact L1]).
      destruct po as [[u|k]| |].
      * destruct (t_poll_read (sinput_space (rsp r3)) w0) as [pr w1] eqn:ET.
        apply ConnWrites.t_poll_read_spec in ET. destruct ET as (T1 & _ & _ & T4).
        assert (B1 : pk r w r3 w1) by (apply (pk_world _ _ _ w0); [exact B0|apply (lg_eq _ w0); [exact T1|apply lg_refl]]).
        destruct pr as [[b|k]| |].
        -- destruct b as [|x b'].
           ++ injection E as <- <- <-. split; [exact B1|]. intros k X. injection X as <-. nres.
           ++ apply IH in E. destruct E as [E1 E2]. split; [eapply pk_trans; eassumption|exact E2].
        -- injection E as <- <- <-. split; [exact B1|]. intros k' X. injection X as <-. rewrite (T4 k eq_refl). nres.
        -- injection E as <- <- <-. split; [exact B1|]. intros k' X. discriminate X.
        -- injection E as <- <- <-. split; [exact B1|]. intros k' X. discriminate X.
      * injection E as <- <- <-. split; [exact B0|]. intros k' X. injection X as <-. apply (N1 k eq_refl).
      * injection E as <- <- <-. split; [exact B0|]. intros k' X. discriminate X.
      * injection E as <- <- <-. split; [exact B0|]. intros k' X. discriminate X.
  - injection E as <- <- <-. split; [split; [exact HS|apply lg_refl]|]. intros k X. injection X as <-. apply perr_kind_nres.
  - injection E as <- <- <-. split; [apply pk_refl|]. intros k X. injection X as <-. unfold EK_Reset. lia.
Qed.

Lemma poll_input_pk fuel dest r w p r' w' : poll_input maxc fuel dest r w = (p, r', w') ->
  pk r w r' w' /\ (forall k, p = PReady (inr k) -> k <> EK_Reset).
Proof.
  unfold poll_input. intros E.
  assert (POLL : match poll_output fuel r w with
                 | (PReady (inl _), r1, w1) => input_loop maxc fuel dest [] r1 w1
                 | (PReady (inr k), r1, w1) => (PReady (inr k), r1, w1)
                 | (PWake, r1, w1) => (PWake, r1, w1)
                 | (PBlock, r1, w1) => (PBlock, r1, w1)
                 end = (p, r', w') ->
          pk r w r' w' /\ (forall k, p = PReady (inr k) -> k <> EK_Reset)).
  { clear E. intros E. destruct (poll_output fuel r w) as [[po r1] w1] eqn:EP.
    apply poll_output_pk in EP. destruct EP as (B0 & _ & N1).
    destruct po as [[u|k]| |].
    - apply input_loop_pk in E. destruct E as [E1 E2]. split; [eapply pk_trans; eassumption|exact E2].
    - injection E as <- <- <-. split; [exact B0|]. intros k' X. injection X as <-. apply (N1 k eq_refl).
    - injection E as <- <- <-. split; [exact B0|]. intros k' X. discriminate X.
    - injection E as <- <- <-. split; [exact B0|]. intros k' X. discriminate X. }
  assert (TRIV : (PReady (inl (0, [])) : pres (N * bytes + N), r, w) = (p, r', w') ->
          pk r w r' w' /\ (forall k, p = PReady (inr k) -> k <> EK_Reset)).
  { intros X. injection X as <- <- <-. split; [apply pk_refl|]. intros k X. discriminate X. }
  destruct dest as [c|].
  - destruct c as [|c'].
    + apply TRIV. destruct (stream_buffer (rsp r)); exact E.
    + destruct (stream_buffer (rsp r)) as [|x sb'] eqn:Esb; [apply POLL; exact E|].
      injection E as <- <- <-. split; [split; [reflexivity|apply lg_refl]|]. intros k X. discriminate X.
  - destruct (stream_buffer (rsp r)) as [|x sb']; [apply POLL; exact E|apply TRIV; exact E].
Qed.

(* the awaited read *)
Definition aik (r : rstate) (w : world) (x : res ((N * bytes + N) * rstate)) : Prop :=
  match x with
  | Ok (v, r') w' => pk r w r' w' /\ (forall k, v = inr k -> k <> EK_Reset)
  | Halt _ w' => lg w w'
  end.

Lemma aik_pre r w r1 w1 x : pk r w r1 w1 -> aik r1 w1 x -> aik r w x.
Proof.
  intros B. destruct x as [[v r'] w'|o w']; cbn [aik].
  - intros [A1 A2]. split; [eapply pk_trans; eassumption|exact A2].
  - intros A. eapply lg_trans; [apply B|exact A].
Qed.

Lemma await_input_k : forall fuel dest r w, aik r w (await_input maxc fuel dest r w).
Proof.
  induction fuel as [|f IH]; intros dest r w; [apply lg_refl|]. cbn [await_input].
  destruct (poll_input maxc (io_fuel w (len (buffer (rsp r)))) dest r w) as [[p r1] w1] eqn:EP.
  apply poll_input_pk in EP. destruct EP as [B N1]. destruct p as [x| |].
  - cbn [aik]. split; [exact B|]. intros k ->. apply (N1 k eq_refl).
  - unfold on_wake. cbn [andb]. apply (aik_pre _ _ r1 (w_bump w1)); [exact B|apply IH].
  - unfold on_block. destruct (negb (stop_at w1 =? 0) && negb (stopped w1)); [|apply B].
    cbn [andb]. apply (aik_pre _ _ r1 (w_stop w1)); [exact B|apply IH].
Qed.

Lemma wpost_lg sel b w x : wpost sel b w x -> lg w (res_w x).
Proof.
  destruct x as [[k|] w'|o w']; cbn [wpost res_w].
  - intros (b1 & b2 & _ & _ & Hio & _). eapply io_rel_lg. exact Hio.
  - apply io_rel_lg.
  - destruct o; try contradiction.
    + intros (_ & _ & b1 & b2 & _ & _ & Hio). eapply io_rel_lg. exact Hio.
    + intros (b1 & b2 & _ & Hio). eapply io_rel_lg. exact Hio.
Qed.

(* operations on a Request returning it: same request, longer log, whatever the outcome *)
Definition kpost {X} (r : rstate) (w : world) (x : res (X * rstate)) : Prop :=
  match x with Ok (_, r') w' => pk r w r' w' | Halt _ w' => lg w w' end.

Lemma kpost_pre {X} r w r1 w1 (x : res (X * rstate)) : pk r w r1 w1 -> kpost r1 w1 x -> kpost r w x.
Proof.
  intros B. destruct x as [[v r'] w'|o w']; cbn [kpost].
  - intros A. eapply pk_trans; eassumption.
  - intros A. eapply lg_trans; [apply B|exact A].
Qed.

Definition dwk (r : rstate) (w : world) (x : res (option N * rstate)) : Prop :=
  match x with Ok (e, r') w' => pk r w r' w' /\ e <> Some EK_Reset | Halt _ w' => lg w w' end.

Lemma do_writeable_k r w : dwk r w (do_writeable maxc r w).
Proof.
  unfold do_writeable. destruct (rwriteable r); [split; [apply pk_refl|discriminate]|].
  match goal with |- context [set_stream ?p ?s] => destruct (set_stream p s) as [p'| |] eqn:ES end; [|apply lg_refl|apply lg_refl].
  apply set_stream_sreq in ES.
  match goal with |- context [await_input maxc ?fu ?d ?r0 w] => pose proof (await_input_k fu d r0 w) as H; destruct (await_input maxc fu d r0 w) as [[[v|k] r'] w'|o w'] end;
    cbn [aik] in H; cbn [dwk].
  - destruct H as [[Q L] _]. cbn [rsp] in Q. split; [split; [congruence|exact L]|discriminate].
  - destruct H as [[Q L] Nk]. cbn [rsp] in Q. split; [split; [congruence|exact L]|]. intros X. injection X as ->. exact (Nk _ eq_refl eq_refl).
  - exact H.
Qed.

Lemma boundary_loop_k : forall fuel new r w, kpost r w (boundary_loop maxc fuel new r w).
Proof.
  induction fuel as [|f IH]; intros new r w; [apply lg_refl|]. rewrite ConnTotal.boundary_loop_S.
  assert (AFTER : forall p', sreq p' = sreq (rsp r) -> kpost r w (ConnTotal.bl_after maxc f r w p')).
  { intros p' Hq. unfold ConnTotal.bl_after. cbv zeta. destruct (is_record_boundary p').
    { split; [exact Hq|apply lg_refl]. }
    pose proof (await_read_wlog (io_fuel w 0) false (sinput_space (compress p')) w) as AR.
    assert (Hq' : sreq (compress p') = sreq (rsp r)) by exact Hq.
    destruct (await_read (io_fuel w 0) false (sinput_space (compress p')) w) as [[b|k] w1|o w1]; cbn [res_w] in AR.
    - assert (B : pk r w (mkR (compress p') (rwriteable r) (rlock r) (raborted r)) w1).
      { split; [exact Hq'|]. apply (lg_eq _ w); [exact AR|apply lg_refl]. }
      destruct b as [|x b']; [exact B|]. eapply kpost_pre; [exact B|apply IH].
    - split; [exact Hq'|]. apply (lg_eq _ w); [exact AR|apply lg_refl].
    - apply (lg_eq _ w); [exact AR|apply lg_refl]. }
  pose proof (sparse_sreq maxc (rsp r) new None) as HS.
  destruct (sparse maxc (rsp r) new None) as [p' s|p' e s|n]; [apply AFTER; exact HS| |apply lg_refl].
  destruct e; try (apply AFTER; exact HS); (split; [exact HS|apply lg_refl]).
Qed.

Lemma record_boundary_k r w : kpost r w (record_boundary maxc r w).
Proof.
  unfold record_boundary. destruct (is_record_boundary (rsp r)); [apply pk_refl|apply boundary_loop_k].
Qed.

Lemma close_finish_lg r3 d c w2 : lg w2 (res_w (close_finish r3 d c w2)).
Proof.
  pose proof (close_finish_spec r3 d c w2) as CF.
  destruct (epilogue (r_id (sreq (rsp r3))) d c (if rwriteable r3 then ROLE_OUTPUT_STREAMS else [])) as [ep|];
    [|rewrite CF; apply lg_refl].
  destruct (close_finish r3 d c w2) as [[rp|k] w'|o w']; unfold cf_post in CF; cbv zeta in CF; cbn [res_w].
  - destruct CF as [Hio _]. eapply io_rel_lg. exact Hio.
  - destruct CF as [[Hio _]|(_ & _ & b1 & b2 & _ & _ & Hio)]; eapply io_rel_lg; exact Hio.
  - destruct o; try contradiction.
    repeat match type of CF with match ?x with _ => _ end => destruct x end; try contradiction.
    destruct CF as [Hio _]. eapply io_rel_lg. exact Hio.
Qed.

Lemma close_tail_lg r1 d c w1 : lg w1 (res_w (close_tail maxc r1 d c w1)).
Proof.
  rewrite close_tail_unfold. destruct (set_stream (rsp r1) None) as [p2| |]; [|apply lg_refl|apply lg_refl].
  pose proof (record_boundary_k (mkR p2 (rwriteable r1) (rlock r1) (raborted r1)) w1) as RB.
  destruct (record_boundary maxc (mkR p2 (rwriteable r1) (rlock r1) (raborted r1)) w1) as [[[k2|] r3] w2|o w2]; cbn [kpost] in RB.
  - apply RB.
  - eapply lg_trans; [apply RB|apply close_finish_lg].
  - exact RB.
Qed.

Lemma do_close_lg r d c w : lg w (res_w (do_close maxc r d c w)).
Proof.
  unfold do_close. pose proof (do_writeable_k r w) as DW.
  destruct (do_writeable maxc r w) as [[[k|] r1] w1|o w1]; cbn [dwk] in DW; [| |exact DW].
  - destruct ((k =? EK_Aborted) && raborted r1); [|apply DW]. eapply lg_trans; [apply DW|apply close_tail_lg].
  - eapply lg_trans; [apply DW|apply close_tail_lg].
Qed.

Lemma read_all_k : forall fuel acc r w, kpost r w (read_all maxc fuel acc r w).
Proof.
  induction fuel as [|f IH]; intros acc r w; [apply lg_refl|]. cbn [read_all].
  pose proof (await_input_k (io_fuel w 0) (Some 64) r w) as H.
  destruct (await_input maxc (io_fuel w 0) (Some 64) r w) as [[[[n b]|k] r'] w'|o w']; cbn [aik] in H.
  - destruct (n =? 0); [apply H|]. eapply kpost_pre; [apply H|apply IH].
  - apply H.
  - exact H.
Qed.

Lemma writer_write_all_lg fuel stype id data w : lg w (res_w (writer_write_all fuel stype id data w)).
Proof. eapply wpost_lg. apply writer_write_all_post. Qed.

Lemma run_handler_k : forall f script r w, kpost r w (run_handler maxc f script r w).
Proof.
  induction f as [|f IH]; intros script r w; [apply lg_refl|].
  remember (run_handler maxc (S f) script r w) as x eqn:E. symmetry in E.
  cbn [run_handler] in E. cbv zeta in E.
  repeat match type of E with
         | context [match ?y with _ => _ end] => destruct y eqn:?
         end; subst x;
  repeat match goal with
         | H : await_input maxc ?fu ?d r w = _ |- _ =>
           let K := fresh "K" in pose proof (await_input_k fu d r w) as K; rewrite H in K; clear H; cbn [aik] in K
         | H : read_all maxc ?fu ?a r w = _ |- _ =>
           let K := fresh "K" in pose proof (read_all_k fu a r w) as K; rewrite H in K; clear H; cbn [kpost] in K
         | H : do_writeable maxc r w = _ |- _ =>
           let K := fresh "K" in pose proof (do_writeable_k r w) as K; rewrite H in K; clear H; cbn [dwk] in K
         | H : writer_write_all ?fu ?s ?i ?d w = _ |- _ =>
           let K := fresh "K" in pose proof (writer_write_all_lg fu s i d w) as K; rewrite H in K; clear H; cbn [res_w] in K
         | H : poll_input maxc ?fu ?d r w = _ |- _ => apply poll_input_pk in H
         end;
  cbn [kpost];
  first [ exact (pk_refl r w)
        | exact (lg_refl w)
        | match goal with K : pk r w _ _ |- _ => exact K end
        | match goal with K : pk r w _ _ /\ _ |- _ => exact (proj1 K) end
        | match goal with K : lg w _ |- _ => exact K end
        | match goal with K : lg w _ |- _ => exact (conj eq_refl K) end
        | eapply kpost_pre; [|apply IH];
          first [ exact (pk_refl r w)
                | match goal with K : pk r w _ _ |- _ => exact K end
                | match goal with K : pk r w _ _ /\ _ |- _ => exact (proj1 K) end
                | match goal with K : lg w _ |- _ => exact (conj eq_refl K) end
                | match goal with H : set_stream _ _ = SetOk _ |- _ => exact (conj (set_stream_sreq _ _ _ H) (lg_refl w)) end ] ].
Qed.

End LogConn.

Lemma parse_request_lg norm maxc : forall fuel p new w, lg w (res_w (parse_request norm maxc fuel p new w)).
Proof.
  induction fuel as [|f IH]; intros p new w; [apply lg_refl|]. cbn [parse_request].
  destruct (parse norm maxc p new) as [p' done out|n]; [|apply lg_refl].
  pose proof (wpost_lg _ _ _ _ (await_write_all_post (io_fuel w (len out)) true out w)) as W1.
  destruct (await_write_all (io_fuel w (len out)) true out w) as [[k|] w1|o w1]; cbn [res_w] in W1; [exact W1| |exact W1].
  destruct done.
  - destruct (into_stream_parser p'); exact W1.
  - pose proof (await_read_wlog (io_fuel w1 0) true (input_space p') w1) as AR.
    destruct (await_read (io_fuel w1 0) true (input_space p') w1) as [[b|k] w2|o w2]; cbn [res_w] in AR.
    + assert (L2 : lg w w2) by (apply (lg_eq _ w1); [exact AR|exact W1]).
      destruct b as [|x b']; [exact L2|]. eapply lg_trans; [exact L2|apply IH].
    + apply (lg_eq _ w1); [exact AR|exact W1].
    + apply (lg_eq _ w1); [exact AR|exact W1].
Qed.

(* ------------------------------------------------------------------------------------------ *)
(* Part 3: what a completed Request::close appended                                             *)
(* ------------------------------------------------------------------------------------------ *)
Lemma close_entry maxc r1 d c w2 x w3 :
  do_close maxc r1 d c w2 = Ok x w3 -> (x = inr EK_Reset \/ exists rp, x = inl rp) ->
  exists replies app ps, exit_to_end d c = Some (app, ps) /\
    wlog w3 = wlog w2 ++ replies ++
      (if (match do_writeable maxc r1 w2 with Ok (_, r2) _ => rwriteable r2 | Halt _ _ => false end)
       then hdr_encode RT_Stdout (r_id (sreq (rsp r1))) 0 0 ++ hdr_encode RT_Stderr (r_id (sreq (rsp r1))) 0 0 else []) ++
      end_record app ps (r_id (sreq (rsp r1))).
Proof.
  intros E Hx. destruct (do_close_cases maxc r1 d c w2 x w3 E) as (e & r1' & w1' & EW & [[He ECT]|(k & He & Hk & Hxk & Hw)]).
  - rewrite EW. pose proof (do_writeable_k maxc r1 w2) as DW. rewrite EW in DW. destruct DW as [[Q [fl L]] _].
    destruct (close_tail_log_shape maxc r1' d c w1' x w3 ECT Hx) as (p2 & r3 & w2' & ast & ps & S1 & S2 & S3 & S4 & S5).
    cbv zeta in S5.
    pose proof (record_boundary_k maxc (mkR p2 (rwriteable r1') (rlock r1') (raborted r1')) w1') as RB. rewrite S2 in RB.
    destruct RB as [Q3 _]. cbn [rsp] in Q3. apply set_stream_sreq in S1.
    assert (Hid : sreq (rsp r3) = sreq (rsp r1)) by congruence.
    exists (fl ++ output_buffer (rsp r3)), ast, ps. split; [exact S4|].
    rewrite S5, S3, L, Hid. destruct (rwriteable r1'); rewrite <- !app_assoc; reflexivity.
  - exfalso. pose proof (do_writeable_k maxc r1 w2) as DW. rewrite EW in DW. destruct DW as [_ Nk].
    destruct Hx as [Hx|[rp Hx]]; [|congruence]. apply Nk. congruence.
Qed.

(* ------------------------------------------------------------------------------------------ *)
(* Part 4: the whole connection                                                                 *)
(* ------------------------------------------------------------------------------------------ *)
Definition all_closed (l : list served) : Prop := Forall (fun s => sv_closed s <> None) l.

Lemma last_nonempty {A} (l : list A) d d' : l <> [] -> last l d = last l d'.
Proof.
  induction l as [|a t IH]; intros H; [contradiction|]. destruct t as [|b t']; [reflexivity|].
  change (last (b :: t') d = last (b :: t') d'). apply IH. discriminate.
Qed.

Lemma last_cons {A} (a : A) l d : last (a :: l) d = last l a.
Proof.
  destruct l as [|b t]; [reflexivity|]. change (last (b :: t) d = last (b :: t) a). apply last_nonempty. discriminate.
Qed.

Definition entry_end (s : served) : bytes := match sv_closed s with Some L2 => L2 | None => sv_ret s end.

Lemma last_log_snoc start l e : last_log start (l ++ [e]) = entry_end e.
Proof. unfold last_log. rewrite map_app. cbn [map]. apply last_last. Qed.

Lemma last_log_cons_closed start s t L2 : sv_closed s = Some L2 -> last_log start (s :: t) = last_log L2 t.
Proof. intros H. unfold last_log. cbn [map]. rewrite H. apply last_cons. Qed.

Lemma chained_snoc : forall l start e, chained start l -> all_closed l -> is_prefix (last_log start l) (sv_start e) ->
  chained start (l ++ [e]).
Proof.
  induction l as [|s t IH]; intros start e C A P.
  - cbn [app chained]. split; [exact P|]. destruct (sv_closed e); [exact I|reflexivity].
  - cbn [app chained] in *. destruct C as [C1 C2]. split; [exact C1|]. inversion A as [|? ? A1 A2]; subst.
    destruct (sv_closed s) as [L2|] eqn:Ec; [|contradiction].
    apply IH; [exact C2|exact A2|]. rewrite (last_log_cons_closed start s t L2 Ec) in P. exact P.
Qed.

Lemma all_closed_snoc l e : all_closed l -> sv_closed e <> None -> all_closed (l ++ [e]).
Proof. intros A H. apply Forall_app. split; [exact A|]. constructor; [exact H|constructor]. Qed.

Lemma Forall_snoc {A} (P : A -> Prop) l e : Forall P l -> P e -> Forall P (l ++ [e]).
Proof. intros A0 H. apply Forall_app. split; [exact A0|]. constructor; [exact H|constructor]. Qed.

Lemma wlog_fold_ev (env : list (bytes * bytes)) : forall w,
  wlog (fold_left (fun w p => w_ev (w_ev w (fst p)) (snd p)) env w) = wlog w.
Proof. induction env as [|e t IH]; intros w; [reflexivity|]. cbn [fold_left]. rewrite IH. reflexivity. Qed.

Lemma abort_status_map app ps : exit_to_end EXIT_Complete EXIT_ABORT_CODE = Some (app, ps) ->
  app = EXIT_ABORT_CODE /\ ps = PS_RequestComplete.
Proof. intros H. vm_compute in H. injection H as <- <-. split; reflexivity. Qed.

Lemma run_loop_log_inv norm maxc : forall fuel p scripts n w acc start,
  Forall entry_ok acc -> chained start acc -> all_closed acc -> is_prefix (last_log start acc) (wlog w) ->
  let '(o, w', l) := run_loop_log norm maxc fuel p scripts n w acc in
  Forall entry_ok l /\ chained start l /\ is_prefix (last_log start l) (wlog w').
Proof.
  induction fuel as [|f IH]; intros p scripts n w acc start HF HC HA HP.
  { cbn [run_loop_log]. split; [exact HF|split; [exact HC|exact HP]]. }
  cbn [run_loop_log]. destruct (stopped w); [split; [exact HF|split; [exact HC|exact HP]]|].
  assert (SAME : forall w', lg w w' -> Forall entry_ok acc /\ chained start acc /\ is_prefix (last_log start acc) (wlog w')).
  { intros w' L. split; [exact HF|split; [exact HC|]]. eapply is_prefix_trans; [exact HP|exact L]. }
  pose proof (parse_request_lg norm maxc (io_fuel w 0) p [] w) as PR.
  destruct (parse_request norm maxc (io_fuel w 0) p [] w) as [[s0|k] w1|o w1]; cbn [res_w] in PR;
    [|apply SAME; exact PR|apply SAME; exact PR].
  cbv zeta.
  set (rq := sreq s0).
  set (r0 := mkR s0 (len (role_input_streams (r_role rq)) <=? 1) false false).
  match goal with |- context [run_handler maxc ?fu ?sc r0 ?ww] => set (w2 := ww); set (script := sc) end.
  assert (E2 : wlog w2 = wlog w1) by (subst w2; rewrite wlog_fold_ev; reflexivity).
  assert (L2 : lg w w2) by (apply (lg_eq _ w1); [exact E2|exact PR]).
  pose proof (run_handler_k maxc (length script + 2) script r0 w2) as RH.
  destruct (run_handler maxc (length script + 2) script r0 w2) as [[st r1] w3|o w3]; cbn [kpost] in RH.
  2:{ apply SAME. eapply lg_trans; eassumption. }
  destruct RH as [Q1 L3]. cbn [rsp] in Q1. fold rq in Q1.
  assert (HPs : is_prefix (last_log start acc) (wlog w2)) by (eapply is_prefix_trans; [exact HP|exact L2]).
  (* whatever is recorded for this invocation, it extends the chain *)
  assert (SNOC : forall gate closed,
            entry_ok (mkServed rq st gate (wlog w2) (wlog w3) closed) ->
            Forall entry_ok (acc ++ [mkServed rq st gate (wlog w2) (wlog w3) closed]) /\
            chained start (acc ++ [mkServed rq st gate (wlog w2) (wlog w3) closed])).
  { intros gate closed He. split; [apply Forall_snoc; assumption|]. apply chained_snoc; [exact HC|exact HA|exact HPs]. }
  assert (OPEN : forall gate w', lg w3 w' ->
            Forall entry_ok (acc ++ [mkServed rq st gate (wlog w2) (wlog w3) None]) /\
            chained start (acc ++ [mkServed rq st gate (wlog w2) (wlog w3) None]) /\
            is_prefix (last_log start (acc ++ [mkServed rq st gate (wlog w2) (wlog w3) None])) (wlog w')).
  { intros gate w' L. destruct (SNOC gate None) as [S1 S2]; [split; [exact L3|exact I]|].
    split; [exact S1|split; [exact S2|]]. rewrite last_log_snoc. exact L. }
  (* the close step, for the status the loop computed *)
  assert (CLOSE : forall d c, (forall app ps, exit_to_end d c = Some (app, ps) ->
                                answered_with (mkServed rq st false [] [] None) app ps) ->
    let '(o, w', l) :=
      match do_close maxc r1 d c w3 with
      | Halt o w4 => (o, w4, acc ++ [mkServed rq st (match do_writeable maxc r1 w3 with Ok (_, r2) _ => rwriteable r2 | Halt _ _ => false end)
                                       (wlog w2) (wlog w3) None])
      | Ok (inl rp) w4 => run_loop_log norm maxc f rp scripts (S n) w4
                            (acc ++ [mkServed rq st (match do_writeable maxc r1 w3 with Ok (_, r2) _ => rwriteable r2 | Halt _ _ => false end)
                                       (wlog w2) (wlog w3) (Some (wlog w4))])
      | Ok (inr k) w4 => (ORet, w4, acc ++ [mkServed rq st (match do_writeable maxc r1 w3 with Ok (_, r2) _ => rwriteable r2 | Halt _ _ => false end)
                                       (wlog w2) (wlog w3) (if k =? EK_Reset then Some (wlog w4) else None)])
      end in
    Forall entry_ok l /\ chained start l /\ is_prefix (last_log start l) (wlog w')).
  { intros d c Hans.
    set (gate := match do_writeable maxc r1 w3 with Ok (_, r2) _ => rwriteable r2 | Halt _ _ => false end).
    pose proof (do_close_lg maxc r1 d c w3) as DL.
    assert (DONE : forall x w4, do_close maxc r1 d c w3 = Ok x w4 -> (x = inr EK_Reset \/ exists rp, x = inl rp) ->
              entry_ok (mkServed rq st gate (wlog w2) (wlog w3) (Some (wlog w4)))).
    { intros x w4 E Hx. destruct (close_entry maxc r1 d c w3 x w4 E Hx) as (replies & app & ps & X1 & X2).
      split; [exact L3|]. cbn [sv_closed sv_ret sv_gate sv_req]. exists replies, app, ps. split.
      - exact (Hans app ps X1).
      - fold gate in X2. rewrite Q1 in X2. exact X2. }
    destruct (do_close maxc r1 d c w3) as [[rp|k] w4|o w4] eqn:EC; cbn [res_w] in DL.
    - pose proof (DONE _ _ eq_refl (or_intror (ex_intro _ rp eq_refl))) as He.
      destruct (SNOC gate (Some (wlog w4)) He) as [S1 S2].
      apply IH; [exact S1|exact S2|apply all_closed_snoc; [exact HA|discriminate]|].
      rewrite last_log_snoc. apply is_prefix_refl.
    - destruct (N.eqb_spec k EK_Reset) as [Hk|Hk].
      + subst k. pose proof (DONE _ _ eq_refl (or_introl eq_refl)) as He.
        destruct (SNOC gate (Some (wlog w4)) He) as [S1 S2]. split; [exact S1|split; [exact S2|]].
        rewrite last_log_snoc. apply is_prefix_refl.
      + apply OPEN. exact DL.
    - apply OPEN. exact DL. }
  destruct st as [[d c]|k].
  - apply CLOSE. intros app ps H. exact H.
  - destruct ((k =? EK_Aborted) && raborted r1).
    + apply CLOSE. intros app ps H. cbn [answered_with sv_result]. apply abort_status_map. exact H.
    + apply OPEN. apply lg_refl.
Qed.

Theorem connection_log_proof : connection_log_stmt.
Proof.
  intros norm maxc fuel p scripts w _ _ _.
  apply (run_loop_log_inv norm maxc fuel p scripts 0%nat w [] (wlog w)); [constructor|exact I|constructor|apply is_prefix_refl].
Qed.

Theorem run_loop_log_erase : run_loop_log_erase_stmt.
Proof. exact run_loop_log_erase_proof. Qed.
Print Assumptions run_loop_log_erase.

Theorem connection_log : connection_log_stmt.
Proof. exact connection_log_proof. Qed.
Print Assumptions connection_log.

(* ------------------------------------------------------------------------------------------ *)
(* Part 5: an instance (the client and handler of PeerProofs2.ex2): one Responder request (id 1, no KeepConn) with a
   GetValues query in front of the end of its Stdin; the handler reads Stdin to the end (the reply to the query is flushed
   by that read) and writes "hi" to Stdout.  The ghost log has ONE entry, closed (ConnectionReset: no KeepConn): it starts
   with the empty log, the handler added the GetValuesResult record and the Stdout record, and close appended - no further
   reply being pending - the empty Stdout and Stderr records and one EndRequest (0, RequestComplete) for id 1: the bytes
   entry_ok says, and the final log is exactly that. *)
(* ------------------------------------------------------------------------------------------ *)
Definition exl_run : outcome * world * list served :=
  run_loop_log (fun b => b) 10 (nb (ex2_w 1) + 4) (new_parser 64) ex2_scripts 0 (ex2_w 1) [].

Definition exl_reply : bytes :=
  [1; 10; 0; 0; 0; 18; 6; 0; 14; 2; 70; 67; 71; 73; 95; 77; 65; 88; 95; 67; 79; 78; 78; 83; 49; 48; 0; 0; 0; 0; 0; 0].

Example connection_log_ex_hyps : parser_ok (new_parser 64) /\ st (new_parser 64) = Header /\ world_ok (ex2_w 1).
Proof.
  split; [apply new_parser_ok; vm_compute; reflexivity|]. split; [reflexivity|].
  apply remaining_world_ok. apply bytes_okb_ok. vm_compute. reflexivity.
Qed.

Example connection_log_ex :
  let '(o, w', l) := exl_run in
  o = ORet /\
  match l with
  | [s] =>
    sv_req s = mkReq 1 ROLE_Responder 0 [] /\ sv_result s = inl (EXIT_Complete, EXIT_SUCCESS_CODE) /\ sv_gate s = true /\
    sv_start s = [] /\
    sv_ret s = exl_reply ++ stream_records RT_Stdout 1 [104; 105] /\
    sv_closed s = Some (sv_ret s ++ [] ++ (hdr_encode RT_Stdout 1 0 0 ++ hdr_encode RT_Stderr 1 0 0) ++
                        end_record EXIT_SUCCESS_CODE PS_RequestComplete 1) /\
    sv_closed s = Some (wlog w')
  | _ => False
  end.
Proof. vm_compute. repeat split. Qed.

(* ... and the theorem applied to it *)
Example connection_log_ex_thm :
  let '(o, w', l) := exl_run in Forall entry_ok l /\ chained [] l /\ is_prefix (last_log [] l) (wlog w').
Proof.
  destruct connection_log_ex_hyps as (H1 & H2 & H3).
  exact (connection_log (fun b => b) 10 (nb (ex2_w 1) + 4)%nat (new_parser 64) ex2_scripts (ex2_w 1) H1 H2 H3).
Qed.

Print Assumptions connection_log.
