(* Async/BodyReadsProofs.v — proof of Async/BodyReadsTargets.v: C09 end to end over a whole connection of the one-outstanding
   client.
   Part 0: the ghost trace erases.
   Part 1: Token::run with the trace of handler starts (the induction of PeerProofs4.run_loop_tr_prefix / BodyProofs.
           run_loop_body_prefix once more): the script is the one of the position, the invariant KS of a request in progress
           contains what the trace law of Async/ReadsWProofs.v needs (pinv, bytes_ok), and the contents are those of
           BodyProofs.to_come_start.
   Part 2: connection reuse is invisible: bodies_in_order for the connection at index i and for the fresh connection
           carrying only that request.
   Part 3: the instance of PeerProofs4. *)
From Coq Require Import ZArith.
From FV Require Import Base.Bytes Base.BytesLemmas Gen.Generated Codec.Varint Codec.VarintProofs Codec.NV Codec.NVProofs
  Codec.Header Codec.Bodies Codec.Vars Codec.ProtoProofs
  Parser.ReqModel Parser.ReqParamsSpec Parser.ReqWire Parser.ReqTargets Parser.ReqParams Parser.ReqDrive Parser.ReqRecords Parser.ReqFinal
  Parser.StreamModel Parser.AbsStream Parser.StreamRefine Parser.StreamSpec Parser.StreamInv Parser.StreamSeqProofs Parser.StreamFinal Parser.EnvCanon
  Async.ConnWrites Async.ConnTotal Async.Conn Async.ConnReads Async.PeerTargets Async.PeerProofs Async.PeerTargets2 Async.PeerProofs2
  Async.PeerTargets3 Async.PeerProofs3 Async.LoopTargets Async.LoopProofs Async.PeerTargets4 Async.PeerProofs4 Async.BodyTargets
  Async.BodyProofs Async.ReadsWTargets Async.ReadsWProofs Async.BodyReadsTargets.
From Coq Require Import ZifyBool ZifyNat ZifyN.
Ltac Zify.zify_post_hook ::= Z.div_mod_to_equations.

Notation flat := (flat_map (fun s : N * N * bytes => snd s)).

(* ------------------------------------------------------------------------------------------ *)
(* Part 0: the ghost trace erases                                                               *)
(* ------------------------------------------------------------------------------------------ *)
Theorem run_loop_inv_erase_proof : run_loop_inv_erase_stmt.
Proof.
  intros norm maxc fuel. induction fuel as [|f IH]; intros p scripts served w acc; [reflexivity|].
  cbn [run_loop_inv run_loop]. destruct (stopped w); [reflexivity|].
  destruct (parse_request norm maxc (io_fuel w 0) p [] w) as [[s0|k] w1|o w1]; [|reflexivity|reflexivity].
  cbv zeta.
  match goal with |- context [run_handler maxc ?fu ?sc ?r0 ?w2] => destruct (run_handler maxc fu sc r0 w2) as [[st r1] w3|o w3] end;
    [|reflexivity].
  match goal with |- fst (match ?s with Some _ => _ | None => _ end) = _ => destruct s as [[d c]|] end; [|reflexivity].
  destruct (do_close maxc r1 d c w3) as [[rp|k] w4|o w4]; [apply IH|reflexivity|reflexivity].
Qed.

(* ------------------------------------------------------------------------------------------ *)
(* Part 1: Token::run with the trace of handler starts                                          *)
(* ------------------------------------------------------------------------------------------ *)
Section LoopR.
Variable norm : bytes -> bytes.
Variable maxc : N.
Variable B : N.
Hypothesis HB : B < SIZE_LIMIT - 8.
Variable scripts : list (list N).
Hypothesis Hscripts : scripts_ok true scripts.
Hypothesis Hany : Forall any_script scripts.
Notation CAP := (aligned_bufsize B).

(* entry i of the trace, for request c with pairs ps *)
Definition inv_entry (i : nat) (c : creq) (ps : list (bytes * bytes)) (e : list N * rstate * world) : Prop :=
  fst (fst e) = nth i scripts (last scripts []) /\
  sreq (rsp (snd (fst e))) = sent_request norm c ps /\
  hw_post (fst (fst e)) (abs (rsp (snd (fst e)))) (remaining (snd e)) (snd (fst e)) (snd e)
          (run_handler maxc (length (fst (fst e)) + 2) (fst (fst e)) (snd (fst e)) (snd e)) /\
  stream (rsp (snd (fst e))) = next_input_stream (w_role (c_pre c)) None /\
  forall sg, In sg (role_input_streams (w_role (c_pre c))) ->
    (if optN_eqb (Some sg) (stream (rsp (snd (fst e)))) then K (abs (rsp (snd (fst e)))) (remaining (snd e))
     else F (Some sg) (abs (rsp (snd (fst e)))) (remaining (snd e)))
    = content_rcds (w_role (c_pre c)) (w_id (c_pre c)) (Some sg) (c_srs c).

Fixpoint trI_ok (i : nat) (l : list (list N * rstate * world)) (cs : list (N * N * creq)) (pairss : list (list (bytes * bytes)))
  : Prop :=
  match l with
  | [] => True
  | e :: l' =>
    match cs, pairss with
    | s :: cs', ps :: pairss' => inv_entry i (snd s) ps e /\ trI_ok (S i) l' cs' pairss'
    | _, _ => False
    end
  end.

Lemma run_loop_inv_prefix : forall fuel cs pairss p served w acc,
  Forall (fun s : N * N * creq => creq_ok (snd s)) cs ->
  Forall2 (fun (s : N * N * creq) ps => creq_fits B (snd s) ps) cs pairss ->
  between B cs p w ->
  exists l, snd (run_loop_inv norm maxc fuel p scripts served w acc) = acc ++ l /\ trI_ok served l cs pairss.
Proof.
  induction fuel as [|f IH]; intros cs pairss p served w acc Hcs Hfit Hbt.
  { exists []. cbn [run_loop_inv snd trI_ok]. rewrite app_nil_r. split; [reflexivity|exact I]. }
  assert (NOW : forall (o : outcome) (w' : world), exists l, snd (o, w', acc) = acc ++ l /\ trI_ok served l cs pairss).
  { intros o w'. exists []. cbn [snd trI_ok]. rewrite app_nil_r. split; [reflexivity|exact I]. }
  cbn [run_loop_inv]. destruct (stopped w); [apply NOW|].
  destruct (parse_request norm maxc (io_fuel w 0) p [] w) as [[s0|k] w1|o w1] eqn:EPR; [|apply NOW|apply NOW].
  destruct cs as [|[[ge gm] c] cs'].
  { exfalso. apply (no_request_left norm maxc B HB p w _ s0 w1 Hbt EPR). }
  inversion Hcs as [|? ? Hc Hcs']; subst. inversion Hfit as [|? ps ? pairss' Hf Hfit']; subst. cbn [snd] in Hc, Hf.
  destruct (handover norm maxc B HB ge gm c cs' ps p w _ s0 w1 Hc Hcs' Hf Hbt EPR) as (Hreq & HKS).
  destruct (handover_body norm maxc B HB ge gm c cs' ps p w _ s0 w1 Hc Hcs' Hf Hbt EPR) as (A1 & A2 & A3 & A4 & A5 & A6 & A7).
  cbv zeta.
  set (role := r_role (sreq s0)) in *.
  set (r0 := mkR s0 (len (role_input_streams role) <=? 1) false false).
  match goal with |- context [run_handler maxc _ _ r0 ?ww] => set (w2 := ww) end.
  pose proof Hc as (_ & _ & _ & _ & C5 & _ & C7).
  assert (Hrole : role = w_role (c_pre c)) by (unfold role; rewrite Hreq; reflexivity).
  assert (Hid : r_id (sreq s0) = w_id (c_pre c)) by (rewrite Hreq; reflexivity).
  assert (Hrem2 : remaining w2 = remaining w1) by (unfold w2; rewrite remaining_fold; reflexivity).
  pose proof (enc_client_ne cs' Hcs') as HLS.
  assert (HS2 : KS CAP (c_srs c) (enc_client cs') r0 w2) by (apply KS_fold; apply HKS).
  set (script := nth served scripts (last scripts [])).
  assert (Hscript : script_ok true role (next_input_stream role None) script).
  { subst script. apply (Forall_nth_default (fun s => forall role, script_ok true role (next_input_stream role None) s));
      [exact Hscripts|]. apply Forall_last; [exact Hscripts|]. intros role'. constructor. }
  assert (Hascript : any_script script).
  { subst script. apply Forall_nth_default; [exact Hany|]. apply Forall_last; [exact Hany|]. apply AS_nil. }
  set (e0 := (script, r0, w2)).
  assert (ENTRY : inv_entry served c ps e0).
  { unfold inv_entry, e0. cbn [fst snd]. split; [reflexivity|].
    change (rsp r0) with s0. split; [exact Hreq|].
    split.
    { destruct HS2 as (Hpinv & Hbok & _).
      exact (run_handler_reads_w_top maxc script (length script + 2)%nat r0 w2 Hascript Hpinv Hbok). }
    change (stream s0) with (a_stream (abs s0)).
    split; [rewrite A3; fold role; rewrite Hrole; reflexivity|].
    intros sg Hin. rewrite Forall_forall in C7.
    apply (to_come_start (w_role (c_pre c)) (w_id (c_pre c)) (abs s0) (remaining w2) (c_srs c) (flat (enc_client cs')) sg).
    - rewrite A1. fold role. exact Hrole.
    - rewrite A1. exact Hid.
    - exact A2.
    - exact A4.
    - exact A5.
    - exact A6.
    - rewrite Hrem2. exact A7.
    - exact C5.
    - exact Hin.
    - apply (C7 sg Hin). }
  assert (ONE : forall (o : outcome) (w' : world),
            exists l, snd (o, w', acc ++ [e0]) = acc ++ l /\ trI_ok served l ((ge, gm, c) :: cs') (ps :: pairss')).
  { intros o w'. exists [e0]. cbn [snd trI_ok]. split; [reflexivity|]. split; [exact ENTRY|exact I]. }
  fold e0.
  destruct (run_handler maxc (length script + 2) script r0 w2) as [[st r1] w3|o w3] eqn:ERH; [|apply ONE].
  pose proof (run_handler_KS maxc CAP (c_srs c) (enc_client cs') C5 HLS true role _ script Hscript _ r0 w2 st r1 w3 HS2 ERH) as HS3'.
  assert (CLOSE : forall d cc, exists l,
    snd (match do_close maxc r1 d cc w3 with
         | Halt o w4 => (o, w4, acc ++ [e0])
         | Ok (inl rp) w4 => run_loop_inv norm maxc f rp scripts (S served) w4 (acc ++ [e0])
         | Ok (inr _) w4 => (ORet, w4, acc ++ [e0])
         end) = acc ++ l /\ trI_ok served l ((ge, gm, c) :: cs') (ps :: pairss')).
  { intros d cc. destruct (do_close maxc r1 d cc w3) as [[rp|k] w4|o w4] eqn:EDC; [|apply ONE|apply ONE].
    pose proof (do_close_K maxc CAP (c_srs c) (enc_client cs') C5 HLS r1 d cc w3 rp w4 HS3' EDC) as HCL.
    destruct Hbt as (junk & cur & _ & _ & _ & _ & _ & _ & Hsz & _).
    pose proof (closed_between B HB ge gm c cs' ps junk rp w4 Hc Hf Hsz HCL) as Hbt'.
    destruct (IH cs' pairss' rp (S served) w4 (acc ++ [e0]) Hcs' Hfit' Hbt') as (l & El & Hl).
    exists (e0 :: l). rewrite El, <- app_assoc. split; [reflexivity|]. cbn [trI_ok snd]. split; [exact ENTRY|exact Hl]. }
  destruct st as [[d cc]|k].
  - apply CLOSE.
  - destruct ((k =? EK_Aborted) && raborted r1); [apply CLOSE|apply ONE].
Qed.

Lemma trI_ok_nth : forall l j cs pairss, trI_ok j l cs pairss ->
  (length l <= length cs)%nat /\
  forall i e c ps, nth_error l i = Some e -> nth_error (map snd cs) i = Some c -> nth_error pairss i = Some ps ->
    inv_entry (j + i) c ps e.
Proof.
  clear HB Hscripts Hany.
  induction l as [|e0 l IH]; intros j cs pairss H.
  { split; [cbn [length]; lia|]. intros [|i] e c ps H1; discriminate H1. }
  cbn [trI_ok] in H. destruct cs as [|s cs']; [contradiction|]. destruct pairss as [|ps0 pairss']; [contradiction|].
  destruct H as [He Hl]. destruct (IH (S j) cs' pairss' Hl) as [L1 L2].
  split; [cbn [length]; lia|].
  intros [|i] e c ps H1 H2 H3; cbn [nth_error map] in H1, H2, H3.
  - injection H1 as <-. injection H2 as <-. injection H3 as <-. rewrite Nat.add_0_r. exact He.
  - replace (j + S i)%nat with (S j + i)%nat by lia. apply (L2 i e c ps H1 H2 H3).
Qed.
End LoopR.

Lemma between_start B cs w0 : B < SIZE_LIMIT - 8 ->
  segs w0 = enc_client cs -> client_segs 0 0 cs -> len (flat (segs w0)) < SIZE_LIMIT -> between B cs (new_parser B) w0.
Proof.
  intros HB Hsegs Hcl Hsz.
  exists [], []. split; [split; [constructor|split; constructor]|]. split; [exact Hsegs|]. split; [reflexivity|].
  split; [reflexivity|]. cbn [new_parser held]. split; [rewrite len_nil; lia|].
  split; [apply world_ok_remaining; unfold world_ok; rewrite Hsegs; apply (client_world cs 0 0 Hcl)|].
  rewrite <- Hsegs. cbn [enc_rcds flat_map]. rewrite len_nil. split; [lia|]. unfold SIZE_LIMIT. lia.
Qed.

Theorem connection_reads_proof : connection_reads_stmt.
Proof.
  intros norm maxc scripts B cs pairss w0 HB Hs Hany Hsegs Hcl Hlog Hnf Hlen Hfits Hsz tr.
  pose proof (client_creq_ok cs 0 0 Hcl) as Hcs.
  pose proof (fits_Forall2 B cs pairss Hlen Hfits) as Hfit.
  pose proof (between_start B cs w0 HB Hsegs Hcl Hsz) as Hbt.
  destruct (run_loop_inv_prefix norm maxc B HB scripts Hs Hany (nb w0 + 4) cs pairss (new_parser B) 0%nat w0 [] Hcs Hfit Hbt)
    as (l & El & Hl).
  cbn [app] in El. subst tr. rewrite El.
  destruct (trI_ok_nth norm maxc scripts l 0%nat cs pairss Hl) as [L1 L2].
  split; [exact L1|].
  intros i script r0 w1 c ps H1 H2 H3. exact (L2 i (script, r0, w1) c ps H1 H2 H3).
Qed.

(* ------------------------------------------------------------------------------------------ *)
(* Part 2: connection reuse is invisible                                                        *)
(* ------------------------------------------------------------------------------------------ *)
Lemma nth_creq_ok (cs : list (N * N * creq)) i c :
  Forall (fun s : N * N * creq => creq_ok (snd s)) cs -> nth_error (map snd cs) i = Some c -> creq_ok c.
Proof.
  intros H E. apply nth_error_In in E. apply in_map_iff in E. destruct E as (s & <- & Hin).
  rewrite Forall_forall in H. apply (H s Hin).
Qed.

Lemma alone_le : forall (cs : list (N * N * creq)) i c, nth_error (map snd cs) i = Some c ->
  len (flat (enc_client (alone c))) <= len (flat (enc_client cs)).
Proof.
  induction cs as [|[[ge gm] c0] t IH]; intros [|i] c E; cbn [map nth_error snd] in E; try discriminate E.
  - injection E as ->. unfold alone. cbn [enc_client map flat_map fst snd]. rewrite app_nil_r, len_app. lia.
  - specialize (IH i c E). cbn [enc_client map flat_map fst snd]. fold (enc_client t). rewrite len_app. lia.
Qed.

Theorem reuse_is_invisible_proof : reuse_is_invisible_stmt.
Proof.
  intros norm maxc scripts scripts1 B cs pairss w0 w1 HB Hs Hs1 Hsegs Hcl Hlog Hnf Hlen Hfits Hsz i c ps Hc Hps
         Hsegs1 Hlog1 Hnf1 tr tr1 rq a u rq1 a1 u1 E E1.
  pose proof (nth_creq_ok cs i c (client_creq_ok cs 0 0 Hcl) Hc) as Hcok.
  pose proof (Hfits i c ps Hc Hps) as Hfit.
  assert (Hcl1 : client_segs 0 0 (alone c)).
  { unfold alone. cbn [client_segs]. split; [reflexivity|]. split; [lia|]. split; [exact Hcok|exact I]. }
  assert (Hfits1 : forall j c' ps', nth_error (map snd (alone c)) j = Some c' -> nth_error [ps] j = Some ps' -> creq_fits B c' ps').
  { intros [|j] c' ps' H1 H2; cbn [alone map snd nth_error] in H1, H2.
    - injection H1 as <-. injection H2 as <-. exact Hfit.
    - destruct j; discriminate H1. }
  assert (Hsz1 : len (flat (segs w1)) < SIZE_LIMIT).
  { rewrite Hsegs1. pose proof (alone_le cs i c Hc) as H. rewrite Hsegs in Hsz. lia. }
  destruct (bodies_in_order norm maxc scripts B cs pairss w0 HB Hs Hsegs Hcl Hlog Hnf Hlen Hfits Hsz) as [_ L].
  destruct (bodies_in_order norm maxc scripts1 B (alone c) [ps] w1 HB Hs1 Hsegs1 Hcl1 Hlog1 Hnf1 eq_refl Hfits1 Hsz1) as [_ L1].
  destruct (L i rq a u c ps E Hc Hps) as (P1 & _ & P3 & P4 & P5).
  destruct (L1 0%nat rq1 a1 u1 c ps E1 eq_refl eq_refl) as (Q1 & _ & Q3 & Q4 & Q5).
  split; [rewrite P1, Q1; reflexivity|]. split; [rewrite P4, Q4; reflexivity|]. split; [rewrite P3, Q3; reflexivity|].
  intros sg Hin. rewrite P1 in Hin. cbn [sent_request r_role] in Hin.
  rewrite (P5 sg Hin), (Q5 sg Hin). reflexivity.
Qed.

(* ------------------------------------------------------------------------------------------ *)
Theorem run_loop_inv_erase : run_loop_inv_erase_stmt.
Proof. exact run_loop_inv_erase_proof. Qed.

Theorem connection_reads : connection_reads_stmt.
Proof. exact connection_reads_proof. Qed.

Theorem reuse_is_invisible : reuse_is_invisible_stmt.
Proof. exact reuse_is_invisible_proof. Qed.

Print Assumptions run_loop_inv_erase.
Print Assumptions connection_reads.
Print Assumptions reuse_is_invisible.

(* ------------------------------------------------------------------------------------------ *)
(* Part 3: the instance of PeerProofs4 / BodyProofs (two KeepConn requests in two segments; the first handler returns
   WITHOUT reading its Stdin, the second reads its Stdin to the end): the run has two handler invocations, running
   scripts [] and [2], each started with its own request; what the selected Stdin owes is "abc" for the first and "de"
   for the second. *)
(* ------------------------------------------------------------------------------------------ *)
Example ex4_any_scripts : Forall any_script ex4_scripts.
Proof. constructor; [apply AS_nil|]. constructor; [apply AS_all, AS_nil|constructor]. Qed.

Example ex4_inv_trace :
  let tr := snd (run_loop_inv (fun b => b) 10 (nb ex4_w + 4) (new_parser 64) ex4_scripts 0 ex4_w []) in
  length tr = 2%nat /\
  map (fun e : list N * rstate * world => fst (fst e)) tr = [ []; [2] ] /\
  map (fun e : list N * rstate * world => sreq (rsp (snd (fst e)))) tr =
    [ mkReq 1 ROLE_Responder FLAG_KeepConn ex4_ps1; mkReq 2 ROLE_Responder FLAG_KeepConn ex4_ps2 ] /\
  map (fun e : list N * rstate * world => stream (rsp (snd (fst e)))) tr = [ Some RT_Stdin; Some RT_Stdin ] /\
  map (fun e : list N * rstate * world => K (abs (rsp (snd (fst e)))) (remaining (snd e))) tr = [ [97; 98; 99]; [100; 101] ].
Proof. vm_compute. repeat split; reflexivity. Qed.

(* ... and by the theorem, for every normalisation function and every max_conns: at both invocations the trace law holds
   and speaks about the body of the invocation's own request *)
Example ex4_connection_reads norm maxc :
  let tr := snd (run_loop_inv norm maxc (nb ex4_w + 4) (new_parser 64) ex4_scripts 0 ex4_w []) in
  (length tr <= 2)%nat /\
  (forall script r0 w1, nth_error tr 0 = Some (script, r0, w1) ->
     script = [] /\ sreq (rsp r0) = sent_request norm ex4_c1 ex4_ps1 /\
     hw_post script (abs (rsp r0)) (remaining w1) r0 w1 (run_handler maxc (length script + 2) script r0 w1) /\
     stream (rsp r0) = Some RT_Stdin /\ K (abs (rsp r0)) (remaining w1) = [97; 98; 99]) /\
  (forall script r0 w1, nth_error tr 1 = Some (script, r0, w1) ->
     script = [2] /\ sreq (rsp r0) = sent_request norm ex4_c2 ex4_ps2 /\
     hw_post script (abs (rsp r0)) (remaining w1) r0 w1 (run_handler maxc (length script + 2) script r0 w1) /\
     stream (rsp r0) = Some RT_Stdin /\ K (abs (rsp r0)) (remaining w1) = [100; 101]).
Proof.
  destruct ex4_hyps as (H1 & H2 & H3 & H4 & H5 & H6 & H7 & H8 & H9).
  destruct (connection_reads norm maxc ex4_scripts 64 ex4_cs ex4_pairss ex4_w H1 H2 ex4_any_scripts H3 H4 H5 H6 H7 H8 H9) as [L1 L2].
  split; [exact L1|]. split.
  - intros script r0 w1 E. destruct (L2 0%nat script r0 w1 ex4_c1 ex4_ps1 E eq_refl eq_refl) as (A1 & A2 & A3 & A4 & A5).
    split; [exact A1|]. split; [exact A2|]. split; [exact A3|]. split; [exact A4|].
    pose proof (A5 RT_Stdin ltac:(vm_compute; left; reflexivity)) as A6. rewrite A4 in A6.
    change (optN_eqb (Some RT_Stdin) (next_input_stream (w_role (c_pre ex4_c1)) None)) with true in A6. cbv iota in A6.
    rewrite A6. vm_compute. reflexivity.
  - intros script r0 w1 E. destruct (L2 1%nat script r0 w1 ex4_c2 ex4_ps2 E eq_refl eq_refl) as (A1 & A2 & A3 & A4 & A5).
    split; [exact A1|]. split; [exact A2|]. split; [exact A3|]. split; [exact A4|].
    pose proof (A5 RT_Stdin ltac:(vm_compute; left; reflexivity)) as A6. rewrite A4 in A6.
    change (optN_eqb (Some RT_Stdin) (next_input_stream (w_role (c_pre ex4_c2)) None)) with true in A6. cbv iota in A6.
    rewrite A6. vm_compute. reflexivity.
Qed.

(* reuse: invocation 1 (the SECOND request, behind the unread Stdin of the first) of the two-request connection is started
   with, and can read, what the only invocation of a fresh connection carrying just that request is started with and can read *)
Definition ex4_w_alone : world := mkW [] [] (enc_client (alone ex4_c2)) [] 0 1 0 false false [].

Example ex4_alone_trace :
  length (snd (run_loop_body (fun b => b) 10 (nb ex4_w_alone + 4) (new_parser 64) ex4_scripts 0 ex4_w_alone [])) = 1%nat.
Proof. vm_compute. reflexivity. Qed.

Example ex4_reuse_is_invisible norm maxc :
  let tr := snd (run_loop_body norm maxc (nb ex4_w + 4) (new_parser 64) ex4_scripts 0 ex4_w []) in
  let tr1 := snd (run_loop_body norm maxc (nb ex4_w_alone + 4) (new_parser 64) ex4_scripts 0 ex4_w_alone []) in
  forall rq a u rq1 a1 u1, nth_error tr 1 = Some (rq, a, u) -> nth_error tr1 0 = Some (rq1, a1, u1) ->
    rq = rq1 /\ a_stream a = a_stream a1 /\ a_parsed a = a_parsed a1 /\
    forall sg, In sg (role_input_streams (r_role rq)) -> to_come sg a u = to_come sg a1 u1.
Proof.
  destruct ex4_hyps as (H1 & H2 & H3 & H4 & H5 & H6 & H7 & H8 & H9).
  exact (reuse_is_invisible norm maxc ex4_scripts ex4_scripts 64 ex4_cs ex4_pairss ex4_w ex4_w_alone H1 H2 H2 H3 H4 H5 H6 H7 H8 H9
           1%nat ex4_c2 ex4_ps2 eq_refl eq_refl eq_refl eq_refl ltac:(constructor)).
Qed.

Print Assumptions ex4_inv_trace.
Print Assumptions ex4_connection_reads.
Print Assumptions ex4_reuse_is_invisible.
