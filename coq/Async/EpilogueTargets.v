(* Async/EpilogueTargets.v — statement: C07's central clause read off the DECODED transport log ("every handler invocation is
   answered - after all handler output and all pending management replies - by empty Stdout and Stderr records followed by exactly
   one EndRequest carrying the handler's exit status and the request's id"): on a transport without write faults, for every client,
   buffer size, fuel and handler scripts that await their reads and write to Stdout / Stderr, every handler invocation whose
   Request::close completed owns a stretch of the log that decodes completely into records, in which EXACTLY ONE record is an
   EndRequest with the request's id: the last one, carrying the invocation's status, directly preceded (when the request had become
   writeable) by the empty Stdout and Stderr records of that id.  Statement only; proof in Async/EpilogueProofs.v. *)
From FV Require Import Base.Bytes Gen.Generated Codec.Header Codec.Bodies Parser.ReqModel Parser.ReqWire Parser.ReqTargets Parser.StreamModel
  Async.Conn Async.ConnWrites Async.ConnTotal Async.ConnReads Async.ReadsWTargets Async.LogTargets Async.FrameTargets.

(* the records a byte string decodes into: (type, id, body) *)
Definition decode (L : bytes) : list (N * N * bytes) := fst (parse_records (length L) L).

(* the handler writes through StreamWriters of the two stream types the API offers *)
Definition std_stream (s : N) : Prop := s = RT_Stdout \/ s = RT_Stderr.
Inductive writes_std : list N -> Prop :=
| WS_nil : writes_std []
| WS_read n rest : writes_std rest -> writes_std (1 :: n :: rest)
| WS_all rest : writes_std rest -> writes_std (2 :: rest)
| WS_fill k rest : writes_std rest -> writes_std (3 :: k :: rest)
| WS_set s rest : writes_std rest -> writes_std (4 :: s :: rest)
| WS_wr rest : writes_std rest -> writes_std (5 :: rest)
| WS_write s n rest : std_stream s -> writes_std (drop n rest) -> writes_std (6 :: s :: n :: rest)
| WS_flush s rest : std_stream s -> writes_std rest -> writes_std (7 :: s :: rest)
| WS_exit d c rest : writes_std (8 :: d :: c :: rest)
| WS_fail k rest : writes_std (9 :: k :: rest)
| WS_readq n rest : writes_std rest -> writes_std (10 :: n :: rest)
| WS_poll n rest : writes_std rest -> writes_std (11 :: n :: rest).

Definition is_end_of (id : N) (r : N * N * bytes) : Prop := fst (fst r) = RT_EndRequest /\ snd (fst r) = id.

(* what one closed invocation owns in the log *)
Definition answered_once (s : served) (L2 : bytes) : Prop :=
  let id := r_id (sv_req s) in
  exists H C app ps,
    sv_ret s = sv_start s ++ H /\ L2 = sv_ret s ++ C /\
    whole (sv_start s) /\ whole H /\ whole C /\
    (* while the handler ran: its own Stdout / Stderr records and management replies - no EndRequest of this request *)
    Forall (fun r => ~ is_end_of id r) (decode H) /\
    (* close: pending replies, the empty stream records, THE EndRequest *)
    answered_with s app ps /\
    exists replies,
      Forall (fun r => ~ is_end_of id r) replies /\
      decode C = replies ++ (if sv_gate s then [(RT_Stdout, id, []); (RT_Stderr, id, [])] else []) ++ [(RT_EndRequest, id, end_encode app ps)].

Definition epilogue_records_stmt : Prop :=
  forall (norm : bytes -> bytes) (maxc : N) fuel B scripts w0,
  B < SIZE_LIMIT - 8 -> world_ok w0 -> wlog w0 = [] -> no_fault (wscript w0) ->
  stop_at w0 = 0 -> stopped w0 = false ->
  scripts_ok false scripts -> Forall writes_std scripts -> Forall no_abandoned_read scripts ->
  let '(o, w', l) := run_loop_log norm maxc fuel (new_parser B) scripts 0 w0 [] in
  Forall (fun s => match sv_closed s with Some L2 => answered_once s L2 | None => True end) l.
