(* Async/ConnLoop.v — whole-close and loop-level consequences of ConnWrites/ConnTotal (C07 reuse clause). *)
From Coq Require Import ZArith ZifyBool ZifyNat ZifyN Lia List.
From FV Require Import Base.Bytes Base.BytesLemmas Gen.Generated Codec.Header Codec.Bodies
  Parser.ReqModel Parser.StreamModel Parser.AbsStream Parser.StreamRefine Async.ConnTotal Async.ConnReads Async.Conn Async.ConnWrites.
Import ListNotations.
Open Scope N_scope.

(* Request::close from the point where writeable() has been settled: every way it can end. *)
Definition close_tail_post (maxc : N) (r1 : rstate) (disc code : N) (w1 : world) (x : res (parser + N)) : Prop :=
  exists p2, set_stream (rsp r1) None = SetOk p2 /\
  match record_boundary maxc (mkR p2 (rwriteable r1) (rlock r1) (raborted r1)) w1 with
  | Halt o w2 => x = Halt o w2
  | Ok (Some k, _) w2 => x = Ok (inr k) w2 /\ wlog w2 = wlog w1 /\ In k rb_kinds
  | Ok (None, r3) w2 =>
      wlog w2 = wlog w1 /\ rwriteable r3 = rwriteable r1 /\ is_record_boundary (rsp r3) = true /\
      match epilogue (r_id (sreq (rsp r3))) disc code (if rwriteable r1 then ROLE_OUTPUT_STREAMS else []) with
      | None => x = Halt (OPanic 61) w2
      | Some ep => cf_post r3 w2 ep x
      end
  end.

Theorem close_tail_cases maxc r1 disc code w1 :
  (exists p2, set_stream (rsp r1) None = SetOk p2) ->
  close_tail_post maxc r1 disc code w1 (close_tail maxc r1 disc code w1).
Proof.
  intros [p2 Hs]. unfold close_tail_post. exists p2. split; [exact Hs|].
  rewrite close_tail_unfold, Hs.
  destruct (record_boundary maxc (mkR p2 (rwriteable r1) (rlock r1) (raborted r1)) w1) as [[[k2|] r3] w2|o w2] eqn:ERB.
  - pose proof (record_boundary_spec _ _ _ _ _ _ ERB) as (B1 & _ & _ & _ & B5). tauto.
  - pose proof (record_boundary_spec _ _ _ _ _ _ ERB) as (B1 & B2 & B3 & B4 & B5).
    cbn [rwriteable rlock] in B3, B4. split; [exact B1|]. split; [exact B3|]. split; [exact B5|].
    pose proof (close_finish_spec r3 disc code w2) as H. rewrite B3 in H.
    destruct (epilogue (r_id (sreq (rsp r3))) disc code (if rwriteable r1 then ROLE_OUTPUT_STREAMS else [])); exact H.
  - reflexivity.
Qed.

Lemma set_stream_none_ok p : exists p2, set_stream p None = SetOk p2.
Proof. unfold set_stream. destruct (optN_eqb None (stream p)); eexists; reflexivity. Qed.

Theorem close_tail_always maxc r1 disc code w1 :
  close_tail_post maxc r1 disc code w1 (close_tail maxc r1 disc code w1).
Proof. apply close_tail_cases. apply set_stream_none_ok. Qed.

(* the reuse decision, spelled out: after the record boundary was reached without a read error, close
   hands back a request parser IF AND ONLY IF the request carried KeepConn and every write succeeded;
   without KeepConn the connection ends with ConnectionReset after a complete epilogue; a failed write
   leaves a proper prefix of replies ++ epilogue and ends the connection with that error *)
Theorem close_reuse_iff maxc r1 disc code w1 x w' p2 r3 w2 ep :
  close_tail maxc r1 disc code w1 = Ok x w' ->
  set_stream (rsp r1) None = SetOk p2 ->
  record_boundary maxc (mkR p2 (rwriteable r1) (rlock r1) (raborted r1)) w1 = Ok (None, r3) w2 ->
  epilogue (r_id (sreq (rsp r3))) disc code (if rwriteable r1 then ROLE_OUTPUT_STREAMS else []) = Some ep ->
  let total := output_buffer (rsp r3) ++ ep in
  let keep := N.land (r_flags (sreq (rsp r3))) FLAG_KeepConn = FLAG_KeepConn in
  match x with
  | inl rp => wlog w' = wlog w1 ++ total /\ keep /\ into_request_parser (close_p4 r3) = ConvOk rp
  | inr k =>
      (wlog w' = wlog w1 ++ total /\ k = EK_Reset /\ ~ keep) \/
      ((k = EK_WriteZero \/ k = EK_Transport \/ k = EK_Aborted) /\ ~ no_fault (wscript w2) /\
       exists b1 b2, total = b1 ++ b2 /\ b2 <> [] /\ wlog w' = wlog w1 ++ b1)
  end.
Proof.
  intros E Hs ERB Eep. cbv zeta.
  destruct (close_tail_always maxc r1 disc code w1) as (p2' & Hs' & H).
  rewrite Hs in Hs'. injection Hs' as <-. rewrite ERB in H.
  destruct H as (B1 & B3 & B5 & H). rewrite Eep, E in H. unfold cf_post in H. cbv zeta in H.
  destruct x as [rp|k].
  - destruct H as (Hio & Hc & Hk). split; [|tauto]. rewrite <- B1. apply io_rel_wlog. exact Hio.
  - destruct H as [[Hio [[-> Hk]|[_ Hb]]]|(Hk & Hnf & b1 & b2 & Hb & Hne & Hio)].
    + left. split; [|tauto]. rewrite <- B1. apply io_rel_wlog. exact Hio.
    + rewrite B5 in Hb. discriminate Hb.
    + right. split; [exact Hk|]. split; [exact Hnf|]. exists b1, b2. split; [exact Hb|]. split; [exact Hne|].
      rewrite <- B1. apply io_rel_wlog. exact Hio.
Qed.
Print Assumptions close_tail_always.
Print Assumptions close_reuse_iff.

(* ---------------------------------------------------------------------------------------------- *)
(* One iteration of Token::run, spelled out: while no shutdown was requested, the loop parses ONE request,
   runs the handler ONCE on it (the script is chosen by the number of requests served so far), and closes
   it ONCE when the handler returned a status (an Err of the handler ends the connection without close,
   unless it is the client's abort: kind ConnectionAborted with the request's aborted flag set); only a
   close that hands back a parser continues the loop, with exactly that parser. *)
Theorem run_loop_iteration (norm : bytes -> bytes) (maxc : N) fuel p scripts served w :
  stopped w = false ->
  run_loop norm maxc (S fuel) p scripts served w =
  match parse_request norm maxc (io_fuel w 0) p [] w with
  | Halt o w' => (o, w')
  | Ok (inr _) w' => (ORet, w')
  | Ok (inl s0) w' =>
    let rq := sreq s0 in
    let r0 := mkR s0 (len (role_input_streams (r_role rq)) <=? 1) false false in
    let env := EnvCanon.canon_env (r_env rq) in
    let w1 := fold_left (fun w p => w_ev (w_ev w (fst p)) (snd p)) env
                (w_ev (w_ev w' [100; epoch w']) [r_role rq; r_flags rq; len env; stream_code (stream s0);
                                        if rwriteable r0 then 1 else 0]) in
    let script := nth served scripts (last scripts []) in
    match run_handler maxc (length script + 2) script r0 w1 with
    | Halt o w2 => (o, w2)
    | Ok (inl (d, c), r1) w2 =>
        match do_close maxc r1 d c w2 with
        | Halt o w3 => (o, w3)
        | Ok (inl rp) w3 => run_loop norm maxc fuel rp scripts (S served) w3
        | Ok (inr _) w3 => (ORet, w3)
        end
    | Ok (inr k, r1) w2 =>
        if (k =? EK_Aborted) && raborted r1 then
          match do_close maxc r1 EXIT_Complete EXIT_ABORT_CODE w2 with
          | Halt o w3 => (o, w3)
          | Ok (inl rp) w3 => run_loop norm maxc fuel rp scripts (S served) w3
          | Ok (inr _) w3 => (ORet, w3)
          end
        else (ORet, w2)
    end
  end.
Proof.
  intros Hs. cbn [run_loop]. rewrite Hs.
  destruct (parse_request norm maxc (io_fuel w 0) p [] w) as [[s0|k] w'|o w']; try reflexivity.
  cbv zeta.
  destruct (run_handler maxc _ _ _ _) as [[[[d c]|k] r1] w2|o w2]; try reflexivity.
  destruct ((k =? EK_Aborted) && raborted r1); reflexivity.
Qed.

(* ... and once shutdown was requested nothing new is parsed *)
Theorem run_loop_stopped (norm : bytes -> bytes) (maxc : N) fuel p scripts served w :
  stopped w = true -> run_loop norm maxc (S fuel) p scripts served w = (ORet, w).
Proof. intros Hs. cbn [run_loop]. rewrite Hs. reflexivity. Qed.
Print Assumptions run_loop_iteration.

(* ---------------------------------------------------------------------------------------------- *)
(* C14, idle connections: the read between requests (inside the select with the stop listener) is given up as soon as
   a shutdown is requested while the client keeps silent: the task returns, nothing is read, nothing is written. *)
Theorem idle_read_is_interrupted f L w :
  L <> 0 -> ConnReads.gated w -> stop_at w <> 0 -> stopped w = false ->
  await_read (S f) true L w = Halt ORet (w_stop w).
Proof.
  intros HL G Hs Hn. cbn [await_read]. rewrite (G L HL). unfold on_block.
  destruct (N.eqb_spec (stop_at w) 0) as [E|_]; [contradiction|]. rewrite Hn. reflexivity.
Qed.

(* ... and a shutdown that was requested earlier is noticed at the next wake-up of that read *)
Theorem idle_read_sees_stop f L w w1 :
  t_poll_read L w = (PWake, w1) -> stopped (w_bump w1) = true ->
  await_read (S f) true L w = Halt ORet (w_bump w1).
Proof. intros E Hs. cbn [await_read]. rewrite E. unfold on_wake. rewrite Hs. reflexivity. Qed.
Print Assumptions idle_read_is_interrupted.
