(* Async/ConnLoop.v — whole-close and loop-level consequences of ConnWrites/ConnTotal (C07 reuse clause). *)
From Coq Require Import ZArith ZifyBool ZifyNat ZifyN Lia List.
From FV Require Import Base.Bytes Base.BytesLemmas Gen.Generated Codec.Header Codec.Bodies
  Parser.ReqModel Parser.StreamModel Parser.AbsStream Parser.StreamRefine Async.Conn Async.ConnWrites.
Import ListNotations.
Open Scope N_scope.

(* Request::close from the point where writeable() has been settled: every way it can end. *)
Definition close_tail_post (maxc : N) (r1 : rstate) (disc code : N) (w1 : world) (x : res (parser + N)) : Prop :=
  exists p2, set_stream (rsp r1) None = SetOk p2 /\
  match record_boundary maxc (mkR p2 (rwriteable r1) (rlock r1) (raborted r1)) w1 with
  | Halt o w2 => x = Halt o w2
  | Ok (Some k, _) w2 => x = Ok (inr k) w2 /\ wlog w2 = wlog w1 /\ In k rb_kinds
  | Ok (None, r3) w2 =>
      wlog w2 = wlog w1 /\ rwriteable r3 = rwriteable r1 /\ is_record_boundary (rsp r3) = true /\
      match epilogue (r_id (sreq (rsp r3))) disc code (if rwriteable r1 then ROLE_OUTPUT_STREAMS else []) with
      | None => x = Halt (OPanic 61) w2
      | Some ep => cf_post r3 w2 ep x
      end
  end.

Theorem close_tail_cases maxc r1 disc code w1 :
  (exists p2, set_stream (rsp r1) None = SetOk p2) ->
  close_tail_post maxc r1 disc code w1 (close_tail maxc r1 disc code w1).
Proof.
  intros [p2 Hs]. unfold close_tail_post. exists p2. split; [exact Hs|].
  rewrite close_tail_unfold, Hs.
  destruct (record_boundary maxc (mkR p2 (rwriteable r1) (rlock r1) (raborted r1)) w1) as [[[k2|] r3] w2|o w2] eqn:ERB.
  - pose proof (record_boundary_spec _ _ _ _ _ _ ERB) as (B1 & _ & _ & _ & B5). tauto.
  - pose proof (record_boundary_spec _ _ _ _ _ _ ERB) as (B1 & B2 & B3 & B4 & B5).
    cbn [rwriteable rlock] in B3, B4. split; [exact B1|]. split; [exact B3|]. split; [exact B5|].
    pose proof (close_finish_spec r3 disc code w2) as H. rewrite B3 in H.
    destruct (epilogue (r_id (sreq (rsp r3))) disc code (if rwriteable r1 then ROLE_OUTPUT_STREAMS else [])); exact H.
  - reflexivity.
Qed.

Lemma set_stream_none_ok p : exists p2, set_stream p None = SetOk p2.
Proof. unfold set_stream. destruct (optN_eqb None (stream p)); eexists; reflexivity. Qed.

Theorem close_tail_always maxc r1 disc code w1 :
  close_tail_post maxc r1 disc code w1 (close_tail maxc r1 disc code w1).
Proof. apply close_tail_cases. apply set_stream_none_ok. Qed.

(* the reuse decision, spelled out: after the record boundary was reached without a read error, close
   hands back a request parser IF AND ONLY IF the request carried KeepConn and every write succeeded;
   without KeepConn the connection ends with ConnectionReset after a complete epilogue; a failed write
   leaves a proper prefix of replies ++ epilogue and ends the connection with that error *)
Theorem close_reuse_iff maxc r1 disc code w1 x w' p2 r3 w2 ep :
  close_tail maxc r1 disc code w1 = Ok x w' ->
  set_stream (rsp r1) None = SetOk p2 ->
  record_boundary maxc (mkR p2 (rwriteable r1) (rlock r1) (raborted r1)) w1 = Ok (None, r3) w2 ->
  epilogue (r_id (sreq (rsp r3))) disc code (if rwriteable r1 then ROLE_OUTPUT_STREAMS else []) = Some ep ->
  let total := output_buffer (rsp r3) ++ ep in
  let keep := N.land (r_flags (sreq (rsp r3))) FLAG_KeepConn = FLAG_KeepConn in
  match x with
  | inl rp => wlog w' = wlog w1 ++ total /\ keep /\ into_request_parser (close_p4 r3) = ConvOk rp
  | inr k =>
      (wlog w' = wlog w1 ++ total /\ k = EK_Reset /\ ~ keep) \/
      ((k = EK_WriteZero \/ k = EK_Transport \/ k = EK_Aborted) /\ ~ no_fault (wscript w2) /\
       exists b1 b2, total = b1 ++ b2 /\ b2 <> [] /\ wlog w' = wlog w1 ++ b1)
  end.
Proof.
  intros E Hs ERB Eep. cbv zeta.
  destruct (close_tail_always maxc r1 disc code w1) as (p2' & Hs' & H).
  rewrite Hs in Hs'. injection Hs' as <-. rewrite ERB in H.
  destruct H as (B1 & B3 & B5 & H). rewrite Eep, E in H. unfold cf_post in H. cbv zeta in H.
  destruct x as [rp|k].
  - destruct H as (Hio & Hc & Hk). split; [|tauto]. rewrite <- B1. apply io_rel_wlog. exact Hio.
  - destruct H as [[Hio [[-> Hk]|[_ Hb]]]|(Hk & Hnf & b1 & b2 & Hb & Hne & Hio)].
    + left. split; [|tauto]. rewrite <- B1. apply io_rel_wlog. exact Hio.
    + rewrite B5 in Hb. discriminate Hb.
    + right. split; [exact Hk|]. split; [exact Hnf|]. exists b1, b2. split; [exact Hb|]. split; [exact Hne|].
      rewrite <- B1. apply io_rel_wlog. exact Hio.
Qed.
Print Assumptions close_tail_always.
Print Assumptions close_reuse_iff.
