(* Async/Conn.v — executable model of the connection task: Token::run, Token::parse_request,
   Request::{poll_input, poll_output, writeable, record_boundary, close}, StreamWriter::poll_write
   (src/async_io/mod.rs), on top of the parser models, in a scripted world (transport answers,
   gated client, handler scripts).  Single task; hand-written poll functions restart from the top
   after Pending, awaits inside async fns resume at the await.  No proofs here. *)
From FV Require Import Base.Bytes Gen.Generated Codec.Varint Codec.NV Codec.Header Codec.Bodies Codec.Vars
  Parser.ReqModel Parser.StreamModel Parser.EnvCanon.

Definition R_ERR : N := 4000000001.
Definition W_ZERO : N := 4000000001.
Definition W_ERR : N := 4000000002.
Definition W_ERR_AB : N := 4000000003.   (* a transport write error whose io::ErrorKind is ConnectionAborted (ECONNABORTED) *)

(* io::ErrorKind as observed by handlers *)
Definition EK_Other : N := 1.
Definition EK_Aborted : N := 2.
Definition EK_UnexpectedEof : N := 3.
Definition EK_Reset : N := 4.
Definition EK_InvalidData : N := 5.
Definition EK_WriteZero : N := 6.
Definition EK_Transport : N := 7.

(* impl From<parser::Error> for io::Error, parser/mod.rs:77-89 *)
Definition perr_kind (e : perr) : N :=
  match e with
  | EAbortRequest => EK_Aborted
  | EUnknownVersion _ | EInvalidRequestLen _ | ENullRequest | EProtocol => EK_InvalidData
  | _ => EK_Other
  end.

Record world := mkW {
  rscript : list N; wscript : list N;
  segs : list (N * N * bytes);        (* (gate_end, gate_mgmt, bytes still to deliver) *)
  wlog : bytes;                       (* everything the transport accepted *)
  consumed : N;                       (* bytes taken from the client *)
  epoch : N;                          (* index of the current poll of the task (1-based) *)
  stop_at : N; stopped : bool;        (* shutdown requested before poll number stop_at (0 = never) *)
  vectored : bool;
  events : list (list N)              (* handler-side observations, newest first *)
}.

Definition w_set_r (w : world) rs sg c := mkW rs (wscript w) sg (wlog w) c (epoch w) (stop_at w) (stopped w) (vectored w) (events w).
Definition w_set_w (w : world) ws lg := mkW (rscript w) ws (segs w) lg (consumed w) (epoch w) (stop_at w) (stopped w) (vectored w) (events w).
Definition w_ev (w : world) (e : list N) := mkW (rscript w) (wscript w) (segs w) (wlog w) (consumed w) (epoch w) (stop_at w) (stopped w) (vectored w) (e :: events w).
Definition w_bump (w : world) : world :=
  let e := epoch w + 1 in
  mkW (rscript w) (wscript w) (segs w) (wlog w) (consumed w) e (stop_at w) (stopped w || (e =? stop_at w)) (vectored w) (events w).
Definition w_stop (w : world) : world :=
  mkW (rscript w) (wscript w) (segs w) (wlog w) (consumed w) (epoch w + 1) (stop_at w) true (vectored w) (events w).

(* complete records in the write log: (#EndRequest, #GetValuesResult + #Unknown) *)
Fixpoint count_records (fuel : nat) (log : bytes) (e m : N) : N * N :=
  match fuel with
  | O => (e, m)
  | S f =>
    if len log <? 8 then (e, m) else
    let cl := be16 (nthN log 4) (nthN log 5) in
    let pl := nthN log 6 in
    if len log <? 8 + cl + pl then (e, m) else
    let t := nthN log 1 in
    count_records f (drop (8 + cl + pl) log)
      (if t =? RT_EndRequest then e + 1 else e)
      (if (t =? RT_GetValuesResult) || (t =? RT_Unknown) then m + 1 else m)
  end.

Inductive pres (A : Type) :=
| PReady (a : A)
| PWake          (* Pending, the waker was invoked: the executor polls again *)
| PBlock.        (* Pending without wake: the client waits for the server *)
Arguments PReady {A} a. Arguments PWake {A}. Arguments PBlock {A}.

(* transport poll_read with a buffer of L bytes: Ok bytes / Err kind *)
Fixpoint skip_empty_segs (s : list (N * N * bytes)) : list (N * N * bytes) :=
  match s with
  | (_, _, []) :: t => skip_empty_segs t
  | _ => s
  end.

Definition t_poll_read (L : N) (w : world) : pres (bytes + N) * world :=
  if L =? 0 then (PReady (inl []), w) else
  match skip_empty_segs (segs w) with
  | [] => (PReady (inl []), w_set_r w (rscript w) [] (consumed w))
  | (ge, gm, b) :: rest =>
    let '(e, m) := count_records (length (wlog w)) (wlog w) 0 0 in
    if (e <? ge) || (m <? gm) then (PBlock, w)
    else
      let '(r, rs') := match rscript w with r :: t => (r, t) | [] => (L, []) end in
      if r =? 0 then (PWake, w_set_r w rs' ((ge, gm, b) :: rest) (consumed w))
      else if r =? R_ERR then (PReady (inr EK_Transport), w_set_r w rs' ((ge, gm, b) :: rest) (consumed w))
      else
        let n := N.min r (N.min L (len b)) in
        (PReady (inl (take n b)), w_set_r w rs' ((ge, gm, drop n b) :: rest) (consumed w + n))
  end.

(* transport poll_write offering `offer` bytes: Ok n / Err kind *)
Definition t_poll_write (offer : bytes) (w : world) : pres (N + N) * world :=
  match wscript w with
  | [] => (PReady (inl (len offer)), w_set_w w [] (wlog w ++ offer))
  | k :: ws' =>
    if k =? 0 then (PWake, w_set_w w ws' (wlog w))
    else if k =? W_ZERO then (PReady (inl 0), w_set_w w ws' (wlog w))
    else if k =? W_ERR then (PReady (inr EK_Transport), w_set_w w ws' (wlog w))
    else if k =? W_ERR_AB then (PReady (inr EK_Aborted), w_set_w w ws' (wlog w))
    else let n := N.min k (len offer) in (PReady (inl n), w_set_w w ws' (wlog w ++ take n offer))
  end.

(* result of an awaited computation *)
Inductive outcome := ORet | ODeadlock | OPanic (site : N) | OFuel.
Inductive res (A : Type) :=
| Ok (a : A) (w : world)
| Halt (o : outcome) (w : world).
Arguments Ok {A} a w. Arguments Halt {A} o w.

(* what the executor does with a Pending *)
Definition on_wake {A} (in_select : bool) (w : world) (retry : world -> res A) : res A :=
  let w' := w_bump w in
  if in_select && stopped w' then Halt ORet w' else retry w'.
Definition on_block {A} (in_select : bool) (w : world) (retry : world -> res A) : res A :=
  if negb (stop_at w =? 0) && negb (stopped w) then
    let w' := w_stop w in
    if in_select then Halt ORet w' else retry w'
  else Halt ODeadlock w.

(* input.read(buf).await *)
Fixpoint await_read (fuel : nat) (in_select : bool) (L : N) (w : world) : res (bytes + N) :=
  match fuel with
  | O => Halt OFuel w
  | S f =>
    match t_poll_read L w with
    | (PReady r, w') => Ok r w'
    | (PWake, w') => on_wake in_select w' (await_read f in_select L)
    | (PBlock, w') => on_block in_select w' (await_read f in_select L)
    end
  end.

(* output.write_all(bytes).await : None = ok, Some kind = error *)
Fixpoint await_write_all (fuel : nat) (in_select : bool) (b : bytes) (w : world) : res (option N) :=
  match fuel with
  | O => Halt OFuel w
  | S f =>
    match b with
    | [] => Ok None w
    | _ =>
      match t_poll_write b w with
      | (PReady (inl n), w') => if n =? 0 then Ok (Some EK_WriteZero) w' else await_write_all f in_select (drop n b) w'
      | (PReady (inr k), w') => Ok (Some k) w'
      | (PWake, w') => on_wake in_select w' (await_write_all f in_select b)
      | (PBlock, w') => Halt (OPanic 50) w'
      end
    end
  end.

Definition io_fuel (w : world) (extra : N) : nat :=
  (length (rscript w) + length (wscript w) + length (flat_map (fun s => snd s) (segs w)) + N.to_nat extra + 16)%nat.

(* ---- Request ---- *)
(* raborted: Request.aborted — the parser reported this request's AbortRequest to poll_input (mod.rs) *)
Record rstate := mkR { rsp : sp; rwriteable : bool; rlock : bool; raborted : bool }.

Definition is_abort (e : perr) : bool := match e with EAbortRequest => true | _ => false end.

Definition is_final_stream (r : rstate) : bool :=
  match next_input_stream (r_role (sreq (rsp r))) (stream (rsp r)) with None => true | Some _ => false end.

Section Conn.
Variable norm : bytes -> bytes.
Variable maxc : N.

(* Request::poll_output, mod.rs:472-494.  inl tt = Ok, inr kind = Err *)
Fixpoint poll_output (fuel : nat) (r : rstate) (w : world) : pres (unit + N) * rstate * world :=
  match fuel with
  | O => (PReady (inr 99), r, w)
  | S f =>
    match output_buffer (rsp r) with
    | [] => (PReady (inl tt), mkR (rsp r) (rwriteable r) false (raborted r), w)
    | out =>
      match t_poll_write out w with
      | (PReady (inl n), w') =>
        if n =? 0 then (PReady (inr EK_WriteZero), mkR (rsp r) (rwriteable r) true (raborted r), w')
        else poll_output f (mkR (consume_output (rsp r) n) (rwriteable r) true (raborted r)) w'
      | (PReady (inr k), w') => (PReady (inr k), mkR (rsp r) (rwriteable r) true (raborted r), w')
      | (PWake, w') => (PWake, mkR (rsp r) (rwriteable r) true (raborted r), w')
      | (PBlock, w') => (PBlock, r, w')
      end
    end
  end.

(* Request::poll_input, mod.rs:497-541.  Result: Ok (count, bytes written to dest) / Err kind *)
Fixpoint input_loop (fuel : nat) (dest : option N) (new : bytes) (r : rstate) (w : world)
  : pres (N * bytes + N) * rstate * world :=
  match fuel with
  | O => (PReady (inr 99), r, w)
  | S f =>
    match sparse maxc (rsp r) new dest with
    | StPanic n => (PReady (inr (1000 + n)), r, w)
    | StErr p' e _ => (PReady (inr (perr_kind e)), mkR p' (rwriteable r) (rlock r) (raborted r || is_abort e), w)
    | StOk p' s =>
      let r1 := mkR p' (rwriteable r) (rlock r) (raborted r) in
      if s_end s || (0 <? s_stream s) then
        let r2 := if negb (rwriteable r1) && is_final_stream r1 then mkR p' true (rlock r) (raborted r) else r1 in
        (PReady (inl (s_stream s, s_dest s)), r2, w)
      else
        let p2 := compress p' in
        let r2 := mkR p2 (rwriteable r) (rlock r) (raborted r) in
        match poll_output fuel r2 w with
        | (PReady (inl _), r3, w0) =>
          match t_poll_read (sinput_space (rsp r3)) w0 with
          | (PReady (inl b), w') =>
            match b with
            | [] => (PReady (inr EK_UnexpectedEof), r3, w')
            | _ => input_loop f dest b r3 w'
            end
          | (PReady (inr k), w') => (PReady (inr k), r3, w')
          | (PWake, w') => (PWake, r3, w')
          | (PBlock, w') => (PBlock, r3, w')
          end
        | (PReady (inr k), r3, w0) => (PReady (inr k), r3, w0)
        | (PWake, r3, w0) => (PWake, r3, w0)
        | (PBlock, r3, w0) => (PBlock, r3, w0)
        end
    end
  end.

Definition poll_input (fuel : nat) (dest : option N) (r : rstate) (w : world)
  : pres (N * bytes + N) * rstate * world :=
  let sb := stream_buffer (rsp r) in
  match dest, sb with
  | Some 0, _ => (PReady (inl (0, [])), r, w)
  | None, _ :: _ => (PReady (inl (0, [])), r, w)
  | Some c, _ :: _ =>
    let n := N.min c (len sb) in
    (PReady (inl (n, take n sb)), mkR (consume_stream (rsp r) n) (rwriteable r) (rlock r) (raborted r), w)
  | _, [] =>
    match poll_output fuel r w with
    | (PReady (inl _), r', w') => input_loop fuel dest [] r' w'
    | (PReady (inr k), r', w') => (PReady (inr k), r', w')
    | (PWake, r', w') => (PWake, r', w')
    | (PBlock, r', w') => (PBlock, r', w')
    end
  end.

(* poll_fn(|cx| poll_input(cx, dest)).await — restart from the top after Pending *)
Fixpoint await_input (fuel : nat) (dest : option N) (r : rstate) (w : world) : res ((N * bytes + N) * rstate) :=
  match fuel with
  | O => Halt OFuel w
  | S f =>
    match poll_input (io_fuel w (len (buffer (rsp r)))) dest r w with
    | (PReady x, r', w') => Ok (x, r') w'
    | (PWake, r', w') => on_wake false w' (await_input f dest r')
    | (PBlock, r', w') => on_block false w' (await_input f dest r')
    end
  end.

(* Request::writeable, mod.rs:371-386: None = Ok, Some kind = Err *)
Definition do_writeable (r : rstate) (w : world) : res (option N * rstate) :=
  if rwriteable r then Ok (None, r) w
  else
    let last := match rev (role_input_streams (r_role (sreq (rsp r)))) with x :: _ => Some x | [] => None end in
    match set_stream (rsp r) last with
    | SetOk p' =>
      match await_input (io_fuel w 0) None (mkR p' (rwriteable r) (rlock r) (raborted r)) w with
      | Ok (inl _, r') w' => Ok (None, r') w'
      | Ok (inr k, r') w' => Ok (Some k, r') w'
      | Halt o w' => Halt o w'
      end
    | _ => Halt (OPanic 60) w
    end.

(* Request::record_boundary, mod.rs:392-420 *)
Fixpoint boundary_loop (fuel : nat) (new : bytes) (r : rstate) (w : world) : res (option N * rstate) :=
  match fuel with
  | O => Halt OFuel w
  | S f =>
    let after (p' : sp) : res (option N * rstate) :=
      let r1 := mkR p' (rwriteable r) (rlock r) (raborted r) in
      if is_record_boundary p' then Ok (None, r1) w
      else
        let p2 := compress p' in
        let r2 := mkR p2 (rwriteable r) (rlock r) (raborted r) in
        match await_read (io_fuel w 0) false (sinput_space p2) w with
        | Ok (inl []) w' => Ok (Some EK_UnexpectedEof, r2) w'
        | Ok (inl b) w' => boundary_loop f b r2 w'
        | Ok (inr k) w' => Ok (Some k, r2) w'
        | Halt o w' => Halt o w'
        end in
    match sparse maxc (rsp r) new None with
    | StPanic n => Halt (OPanic (1000 + n)) w
    | StOk p' _ => after p'
    | StErr p' EAbortRequest _ => after p'
    | StErr p' e _ => Ok (Some (perr_kind e), mkR p' (rwriteable r) (rlock r) (raborted r)) w
    end
  end.

Definition record_boundary (r : rstate) (w : world) : res (option N * rstate) :=
  if is_record_boundary (rsp r) then Ok (None, r) w
  else boundary_loop (length (flat_map (fun s => snd s) (segs w)) + 4) [] r w.

(* Request::close, mod.rs:437-470: inl parser = reuse, inr kind = Err *)
Definition close_tail (r1 : rstate) (disc code : N) (w1 : world) : res (parser + N) :=
  match set_stream (rsp r1) None with
  | SetOk p2 =>
    match record_boundary (mkR p2 (rwriteable r1) (rlock r1) (raborted r1)) w1 with
    | Halt o w' => Halt o w'
    | Ok (Some k2, _) w2 => Ok (inr k2) w2
    | Ok (None, r3) w2 =>
      match epilogue (r_id (sreq (rsp r3))) disc code (if rwriteable r3 then ROLE_OUTPUT_STREAMS else []) with
      | None => Halt (OPanic 61) w2
      | Some ep =>
        let out := output_buffer (rsp r3) in
        match await_write_all (io_fuel w2 (len out)) false out w2 with
        | Halt o w' => Halt o w'
        | Ok (Some k3) w3 => Ok (inr k3) w3
        | Ok None w3 =>
          let p4 := match out with [] => rsp r3 | _ => consume_output (rsp r3) (len out) end in
          match await_write_all (io_fuel w3 (len ep)) false ep w3 with
          | Halt o w' => Halt o w'
          | Ok (Some k4) w4 => Ok (inr k4) w4
          | Ok None w4 =>
            if N.land (r_flags (sreq p4)) FLAG_KeepConn =? FLAG_KeepConn then
              match into_request_parser p4 with
              | ConvOk rp => Ok (inl rp) w4
              | ConvInterrupted => Ok (inr EK_Other) w4
              | ConvPanic => Halt (OPanic 62) w4
              end
            else Ok (inr EK_Reset) w4
          end
        end
      end
    end
  | _ => Halt (OPanic 63) w1
  end.

Definition do_close (r : rstate) (disc code : N) (w : world) : res (parser + N) :=
  match do_writeable r w with
  | Halt o w' => Halt o w'
  | Ok (None, r1) w1 => close_tail r1 disc code w1
  | Ok (Some k, r1) w1 => if (k =? EK_Aborted) && raborted r1 then close_tail r1 disc code w1 else Ok (inr k) w1
  end.

(* StreamWriter::poll_write driven by write_all (mod.rs:63-116): one record per <= 65535 bytes;
   the three iov slices are offered together (vectored transport) or one at a time *)
Fixpoint write_slices (fuel : nat) (slices : list bytes) (w : world) : res (option N) :=
  match fuel with
  | O => Halt OFuel w
  | S f =>
    match filter (fun s => negb (len s =? 0)) slices with
    | [] => Ok None w
    | s1 :: more =>
      let offer := if vectored w then s1 ++ concat more else s1 in
      match t_poll_write offer w with
      | (PReady (inl n), w') =>
        if n =? 0 then Ok (Some EK_WriteZero) w'
        else
          (* remove n bytes from the front of the slice list *)
          let fix cut (n : N) (l : list bytes) : list bytes :=
            match l with
            | [] => []
            | s :: t => if len s <=? n then cut (n - len s) t else drop n s :: t
            end in
          write_slices f (cut n (s1 :: more)) w'
      | (PReady (inr k), w') => Ok (Some k) w'
      | (PWake, w') => on_wake false w' (write_slices f (s1 :: more))
      | (PBlock, w') => Halt (OPanic 51) w'
      end
    end
  end.

Fixpoint writer_write_all (fuel : nat) (stype id : N) (data : bytes) (w : world) : res (option N) :=
  match fuel with
  | O => Halt OFuel w
  | S f =>
    match data with
    | [] => Ok None w
    | _ =>
      let n := N.min (len data) 65535 in
      let pad := auto_padding n in
      match write_slices (io_fuel w (n + 300)) [hdr_encode stype id n pad; take n data; zeros pad] w with
      | Ok None w' => writer_write_all f stype id (drop n data) w'
      | x => x
      end
    end
  end.

(* ---- handler scripts ---- *)
Definition stream_code (s : option N) : N := match s with None => 0 | Some x => x end.

(* result of a handler: inl (disc, code) = Ok(status), inr kind = Err *)
Fixpoint read_all (fuel : nat) (acc : bytes) (r : rstate) (w : world) : res (N * bytes * rstate) :=
  match fuel with
  | O => Halt OFuel w
  | S f =>
    match await_input (io_fuel w 0) (Some 64) r w with
    | Halt o w' => Halt o w'
    | Ok (inl (n, b), r') w' => if n =? 0 then Ok (0, acc, r') w' else read_all f (acc ++ b) r' w'
    | Ok (inr k, r') w' => Ok (k, acc, r') w'
    end
  end.

Fixpoint run_handler (fuel : nat) (script : list N) (r : rstate) (w : world) : res ((N * N + N) * rstate) :=
  match fuel with
  | O => Halt OFuel w
  | S f =>
    match script with
    | [] => Ok (inl (EXIT_Complete, EXIT_SUCCESS_CODE), r) (w_ev w [8])
    | 1 :: n :: rest =>
      match await_input (io_fuel w 0) (Some n) r w with
      | Halt o w' => Halt o w'
      | Ok (inl (c, b), r') w' => run_handler f rest r' (w_ev (w_ev w' [1; 1; c]) b)
      | Ok (inr k, r') w' => run_handler f rest r' (w_ev (w_ev w' [1; 0; k]) [])
      end
    | 2 :: rest =>
      match read_all (length (flat_map (fun s => snd s) (segs w)) + length (buffer (rsp r)) + 4) [] r w with
      | Halt o w' => Halt o w'
      | Ok (k, acc, r') w' => run_handler f rest r' (w_ev (w_ev w' [2; k]) acc)
      end
    | 3 :: k :: rest =>
      match await_input (io_fuel w 0) None r w with
      | Halt o w' => Halt o w'
      | Ok (inl _, r') w' =>
        let seen := stream_buffer (rsp r') in
        let c := N.min k (len seen) in
        run_handler f rest (mkR (consume_stream (rsp r') c) (rwriteable r') (rlock r') (raborted r')) (w_ev (w_ev w' [3; 1; c]) seen)
      | Ok (inr e, r') w' => run_handler f rest r' (w_ev (w_ev w' [3; 0; e]) [])
      end
    | 4 :: s :: rest =>
      match set_stream (rsp r) (Some s) with
      | SetOk p' => run_handler f rest (mkR p' (rwriteable r) (rlock r) (raborted r)) (w_ev w [4; stream_code (stream p')])
      | _ => Halt (OPanic 70) w
      end
    | 5 :: rest =>
      match do_writeable r w with
      | Halt o w' => Halt o w'
      | Ok (e, r') w' =>
        run_handler f rest r' (w_ev w' [5; match e with None => 0 | Some k => k end; if rwriteable r' then 1 else 0;
                                        stream_code (stream (rsp r'))])
      end
    | 6 :: s :: n :: rest =>
      let data := take n rest in
      let rest' := drop n rest in
      if negb (rwriteable r) then run_handler f rest' r (w_ev w [6; 99])
      else if rlock r && negb (len data =? 0) then
        (* (an empty write returns at once without touching the lock.)  StreamWriter::poll_write first takes the output mutex; Request.lock still holds it (a reply flush that was left
           unfinished: Pending and abandoned, or failed — "keep lock even in the Err case"): the writer waits for ever *)
        Halt ODeadlock w
      else
        match writer_write_all (N.to_nat (n / 65535) + 2) s (r_id (sreq (rsp r))) data w with
        | Halt o w' => Halt o w'
        | Ok None w' => run_handler f rest' r (w_ev w' [6; 0])
        | Ok (Some k) w' => Ok (inr k, r) (w_ev w' [6; k])
        end
    | 7 :: s :: rest =>
      if rwriteable r then (if rlock r then Halt ODeadlock w       (* poll_flush takes the same mutex *)
                            else run_handler f rest r (w_ev w [7; 0]))
      else run_handler f rest r (w_ev w [7; 99])
    | 8 :: d :: c :: _ => Ok (inl (d, c), r) (w_ev w [8])
    | 9 :: k :: _ => Ok (inr (if (2 <=? k) && (k <=? 7) then k else EK_Other), r) (w_ev w [9])
    | 10 :: n :: rest =>                                   (* req.read(&mut buf[..n]).await?  — propagates the error *)
      match await_input (io_fuel w 0) (Some n) r w with
      | Halt o w' => Halt o w'
      | Ok (inl (c, b), r') w' => run_handler f rest r' (w_ev (w_ev w' [1; 1; c]) b)
      | Ok (inr k, r') w' => Ok (inr k, r') (w_ev (w_ev w' [1; 0; k]) [])
      end
    | 11 :: n :: rest =>
      (* poll a read of n bytes ONCE (not awaited): a Pending future is abandoned; then the handler looks at is_writeable().
         event [11; 1 = Ok / 0 = Err / 2 = Pending; count or kind; writeable] followed by the bytes read *)
      match poll_input (io_fuel w (len (buffer (rsp r)))) (Some n) r w with
      | (PReady (inl (c, b)), r', w') => run_handler f rest r' (w_ev (w_ev w' [11; 1; c; if rwriteable r' then 1 else 0]) b)
      | (PReady (inr k), r', w') => run_handler f rest r' (w_ev (w_ev w' [11; 0; k; if rwriteable r' then 1 else 0]) [])
      | (_, r', w') => run_handler f rest r' (w_ev (w_ev w' [11; 2; 0; if rwriteable r' then 1 else 0]) [])
      end
    | _ => Halt (OPanic 71) w
    end
  end.

(* Token::parse_request (inside select with the stop listener): parse what is buffered first
   (initially with no new input: the leftover of the previous request), then read *)
Fixpoint parse_request (fuel : nat) (p : parser) (new : bytes) (w : world) : res (sp + N) :=
  match fuel with
  | O => Halt OFuel w
  | S f =>
    match parse norm maxc p new with
    | PPanic n => Halt (OPanic n) w
    | POk p' done out =>
      match await_write_all (io_fuel w (len out)) true out w with
      | Halt o w' => Halt o w'
      | Ok (Some k) w' => Ok (inr k) w'
      | Ok None w' =>
        if done then
          match into_stream_parser p' with
          | inl s => Ok (inl s) w'
          | inr e => Ok (inr (perr_kind e)) w'
          end
        else
          match await_read (io_fuel w' 0) true (input_space p') w' with
          | Halt o w'' => Halt o w''
          | Ok (inr k) w'' => Ok (inr k) w''
          | Ok (inl []) w'' => Ok (inr EK_Reset) w''
          | Ok (inl b) w'' => parse_request f p' b w''
          end
      end
    end
  end.

(* Token::run, mod.rs:625-690 *)
Fixpoint run_loop (fuel : nat) (p : parser) (scripts : list (list N)) (served : nat) (w : world) : outcome * world :=
  match fuel with
  | O => (OFuel, w)
  | S f =>
    if stopped w then (ORet, w)                      (* select polls the stop listener first *)
    else
      match parse_request (io_fuel w 0) p [] w with
      | Halt o w' => (o, w')
      | Ok (inr _) w' => (ORet, w')
      | Ok (inl s0) w' =>
        let rq := sreq s0 in
        let r0 := mkR s0 (len (role_input_streams (r_role rq)) <=? 1) false false in
        let env := canon_env (r_env rq) in
        let w1 := fold_left (fun w p => w_ev (w_ev w (fst p)) (snd p)) env
                    (w_ev (w_ev w' [100; epoch w']) [r_role rq; r_flags rq; len env; stream_code (stream s0);
                                            if rwriteable r0 then 1 else 0]) in
        let script := nth served scripts (last scripts []) in
        match run_handler (length script + 2) script r0 w1 with
        | Halt o w2 => (o, w2)
        | Ok (st, r1) w2 =>
          let status := match st with
                        | inl dc => Some dc
                        | inr k => if (k =? EK_Aborted) && raborted r1 then Some (EXIT_Complete, EXIT_ABORT_CODE) else None
                        end in
          match status with
          | None => (ORet, w2)
          | Some (d, c) =>
            match do_close r1 d c w2 with
            | Halt o w3 => (o, w3)
            | Ok (inl rp) w3 => run_loop f rp scripts (S served) w3
            | Ok (inr _) w3 => (ORet, w3)
            end
          end
        end
      end
  end.
End Conn.
