(* Async/FrameProofs.v — proof of Async/FrameTargets.v: the transport log of a whole connection is framed (a prefix of a
   sequence of complete records) at every end of the run, and whole when the connection task returns.
   Part A: complete records ([recs], the fuel-free reading of [whole]) and the records the model writes.
   Part B: both parsers append only complete records to their output.
   Part C: the invariant threaded through every function of Async/Conn.v.
   Part D: the theorem and two runs. *)
From Coq Require Import ZArith.
From FV Require Import Base.Bytes Base.BytesLemmas Gen.Generated Codec.Varint Codec.NV Codec.Header Codec.Bodies Codec.Vars
  Codec.ProtoProofs Parser.ReqModel Parser.ReqWire Parser.ReqTargets Parser.ReqDrive Parser.ReqRecords
  Parser.StreamModel Parser.AbsStream Parser.StreamRefine Parser.StreamInv Parser.EnvCanon
  Async.Conn Async.ConnWrites Async.ConnTotal Async.ConnReads Async.PeerProofs Async.LogProofs Async.ReadsWTargets
  Async.FrameTargets.
From Coq Require Import ZifyBool ZifyNat ZifyN.
Ltac Zify.zify_post_hook ::= Z.div_mod_to_equations.

(* ------------------------------------------------------------------------------------------ *)
(* Part A: complete records                                                                     *)
(* ------------------------------------------------------------------------------------------ *)

(* one complete record: a decodable header and exactly the announced content and padding *)
Definition one_rec (r : bytes) : Prop :=
  exists t id cl pl, 8 <= len r /\ hdr_decode (take 8 r) = HOk t id cl pl /\ len r = 8 + cl + pl.

Inductive recs : bytes -> Prop :=
| recs_nil : recs []
| recs_cons r L : one_rec r -> recs L -> recs (r ++ L).

Lemma recs_one r : one_rec r -> recs r.
Proof. intros H. rewrite <- (app_nil_r r). apply recs_cons; [exact H|apply recs_nil]. Qed.

Lemma recs_app a b : recs a -> recs b -> recs (a ++ b).
Proof.
  intros Ha Hb. induction Ha as [|r L Hr HL IH]; [exact Hb|]. rewrite <- app_assoc. apply recs_cons; assumption.
Qed.

Lemma one_rec_head r L r' L' : one_rec r -> one_rec r' -> r ++ L = r' ++ L' -> r = r' /\ L = L'.
Proof.
  intros (t & id & cl & pl & H8 & Hd & Hl) (t' & id' & cl' & pl' & H8' & Hd' & Hl') E.
  assert (T : take 8 r = take 8 r').
  { rewrite <- (take_app_le 8 r L) by lia. rewrite <- (take_app_le 8 r' L') by lia. rewrite E. reflexivity. }
  rewrite T, Hd' in Hd. injection Hd as <- <- <- <-.
  assert (Hlen : len r = len r') by lia.
  assert (R : r = r').
  { rewrite <- (take_len_app r L), <- (take_len_app r' L'), E, Hlen. reflexivity. }
  split; [exact R|]. subst r'. apply app_inv_head in E. exact E.
Qed.

Lemma one_rec_nonnil r : one_rec r -> r <> [].
Proof. intros (t & id & cl & pl & H8 & _) ->. rewrite len_nil in H8. lia. Qed.

Lemma recs_cancel a : recs a -> forall b, recs (a ++ b) -> recs b.
Proof.
  induction 1 as [|r L Hr HL IH]; intros b Hab; [exact Hab|].
  rewrite <- app_assoc in Hab. inversion Hab as [E|r' L' Hr' HL' E].
  - exfalso. symmetry in E. apply app_eq_nil in E. destruct E as [E _]. exact (one_rec_nonnil r Hr E).
  - destruct (one_rec_head r' L' r (L ++ b) Hr' Hr E) as [_ ->]. apply IH. exact HL'.
Qed.

Lemma parse_records_recs : forall f L, snd (parse_records f L) = [] -> recs L.
Proof.
  induction f as [|f IH]; intros L H.
  - cbn [parse_records snd] in H. subst L. apply recs_nil.
  - cbn [parse_records] in H. destruct (N.ltb_spec (len L) 8) as [H8|H8].
    { cbn [snd] in H. subst L. apply recs_nil. }
    destruct (hdr_decode (take 8 L)) as [t id cl pl|v|t] eqn:Ed; [|cbn [snd] in H; subst L; apply recs_nil..].
    destruct (N.ltb_spec (len L) (8 + cl + pl)) as [Hn|Hn].
    { cbn [snd] in H. subst L. apply recs_nil. }
    destruct (parse_records f (drop (8 + cl + pl) L)) as [rs rest] eqn:Ep. cbn [snd] in H. subst rest.
    rewrite <- (take_drop (8 + cl + pl) L). apply recs_cons.
    + exists t, id, cl, pl. rewrite len_take. split; [lia|]. split; [|lia].
      rewrite take_take. replace (N.min 8 (8 + cl + pl)) with 8 by lia. exact Ed.
    + apply IH. rewrite Ep. reflexivity.
Qed.

Lemma recs_parse_records L : recs L -> forall f, (length L <= f)%nat -> snd (parse_records f L) = [].
Proof.
  induction 1 as [|r L Hr HL IH]; intros f Hf.
  - destruct f; reflexivity.
  - destruct Hr as (t & id & cl & pl & H8 & Hd & Hl).
    assert (Hlr : (8 <= length r)%nat) by (unfold len in H8; lia).
    rewrite app_length in Hf. destruct f as [|f]; [lia|].
    cbn [parse_records]. rewrite len_app.
    destruct (N.ltb_spec (len r + len L) 8) as [H|_]; [lia|].
    rewrite take_app_le by lia. rewrite Hd.
    destruct (N.ltb_spec (len r + len L) (8 + cl + pl)) as [H|_]; [lia|].
    rewrite <- Hl, drop_len_app.
    specialize (IH f ltac:(lia)). destruct (parse_records f L) as [rs rest]. cbn [snd] in *. exact IH.
Qed.

Lemma whole_recs L : whole L <-> recs L.
Proof.
  unfold whole. split; [apply parse_records_recs|]. intros H. apply recs_parse_records; [exact H|lia].
Qed.

Lemma framed_recs L M : recs (L ++ M) -> framed L.
Proof. intros H. exists M. apply whole_recs. exact H. Qed.

Lemma framed_of_recs L : recs L -> framed L.
Proof. intros H. apply (framed_recs L []). rewrite app_nil_r. exact H. Qed.

(* -- the records of the model -- *)
Lemma take_app_exact {A} (a b : list A) n : n = len a -> take n (a ++ b) = a.
Proof. intros ->. apply take_len_app. Qed.

Lemma hdr_decode_8 a1 a2 a3 a4 a5 a6 a7 : known_type a1 = true ->
  hdr_decode [VERSION_V1; a1; a2; a3; a4; a5; a6; a7] = HOk a1 (be16 a2 a3) (be16 a4 a5) a6.
Proof.
  intros H. unfold hdr_decode. cbv zeta. set (h := [VERSION_V1; a1; a2; a3; a4; a5; a6; a7]).
  change (nthN h 0) with VERSION_V1. change (nthN h 1) with a1. change (nthN h 2) with a2. change (nthN h 3) with a3.
  change (nthN h 4) with a4. change (nthN h 5) with a5. change (nthN h 6) with a6.
  change (known_version VERSION_V1) with true. rewrite H. reflexivity.
Qed.

Lemma one_rec_enc t id cl pl body : known_type t = true -> cl < 65536 -> len body = cl + pl ->
  one_rec (hdr_encode t id cl pl ++ body).
Proof.
  intros Ht Hcl Hb. exists t, (be16 (id / 256 mod 256) (id mod 256)), cl, pl.
  assert (Hh : len (hdr_encode t id cl pl) = 8) by apply hdr_encode_len.
  rewrite len_app, Hh. split; [lia|]. split; [|lia].
  rewrite take_app_exact by (symmetry; exact Hh).
  unfold hdr_encode, to_be16. cbn [app]. rewrite (hdr_decode_8 _ _ _ _ _ _ _ Ht).
  rewrite (be16_to_be16 cl Hcl). reflexivity.
Qed.

Lemma unk_recs t id : recs (unk_record t id).
Proof.
  apply recs_one. unfold unk_record. apply one_rec_enc; [reflexivity|vm_compute; reflexivity|].
  unfold unk_encode. rewrite len_cons, len_zeros. reflexivity.
Qed.

Lemma end_recs app ps id : recs (end_record app ps id).
Proof.
  apply recs_one. unfold end_record. apply one_rec_enc; [reflexivity|vm_compute; reflexivity|].
  unfold end_encode, to_be32. rewrite !len_app, len_zeros. reflexivity.
Qed.

Lemma gv_recs vars maxc : recs (write_response vars maxc).
Proof.
  pose proof (response_body_len vars maxc) as Hl. apply recs_one. unfold write_response. cbv zeta.
  set (body := response_body vars maxc) in *.
  assert (Hm : len body mod 65536 = len body) by (apply N.mod_small; lia). rewrite Hm.
  apply one_rec_enc; [reflexivity|lia|]. rewrite len_app, len_zeros. reflexivity.
Qed.

Lemma hdr0_recs s id : known_type s = true -> recs (hdr_encode s id 0 0).
Proof.
  intros Hs. apply recs_one. rewrite <- (app_nil_r (hdr_encode s id 0 0)).
  apply one_rec_enc; [exact Hs|lia|reflexivity].
Qed.

Lemma rec_of_one stype id c : known_type stype = true -> len c <= 65535 -> one_rec (rec_of stype id c).
Proof.
  intros Ht Hc. unfold rec_of. apply one_rec_enc; [exact Ht|lia|]. rewrite len_app, len_zeros. reflexivity.
Qed.

Lemma stream_records_recs stype id data : known_type stype = true -> recs (stream_records stype id data).
Proof.
  intros Ht. unfold stream_records. pose proof (chunks_sizes data) as Hs.
  induction (chunks data) as [|c t IH]; [apply recs_nil|].
  apply Forall_cons_iff in Hs. destruct Hs as [Hc Hs]. cbn [map concat].
  apply recs_cons; [apply rec_of_one; [exact Ht|lia]|apply IH; exact Hs].
Qed.

Lemma epilogue_recs id disc code wr ep :
  epilogue id disc code (if wr : bool then ROLE_OUTPUT_STREAMS else []) = Some ep -> recs ep.
Proof.
  unfold epilogue. destruct (exit_to_end disc code) as [[app ps]|]; [|discriminate]. intros E. injection E as <-.
  apply recs_app; [|apply end_recs]. destruct wr; [|apply recs_nil].
  unfold ROLE_OUTPUT_STREAMS. cbn [flat_map]. rewrite app_nil_r.
  apply recs_app; apply hdr0_recs; reflexivity.
Qed.

(* ------------------------------------------------------------------------------------------ *)
(* Part B1: the request parser's output consists of complete records (no hypothesis)            *)
(* ------------------------------------------------------------------------------------------ *)

Lemma try_head_recs st sk d :
  match try_head st sk d with HeadOk _ _ _ _ => True | HeadRet _ o => recs o end.
Proof.
  destruct (N.ltb_spec (len d) 8) as [Hl|Hl].
  - rewrite try_head_short by exact Hl. apply recs_nil.
  - rewrite try_head_long by exact Hl.
    destruct (hdr_decode (take 8 d)) as [t id cl pl|v|t]; [exact I|apply recs_nil|apply unk_recs].
Qed.

Lemma header_drive_recs d : recs (snd (header_drive d)).
Proof.
  rewrite header_drive_eq. pose proof (try_head_recs Header header_skip_to d) as H.
  destruct (try_head Header header_skip_to d) as [t id cl pl|f o]; [|exact H].
  unfold header_body. destruct (t =? RT_BeginRequest).
  - destruct (negb (BeginRequest_LEN =? cl)); [cbn [snd]; apply recs_nil|].
    destruct (len d <? 16); [cbn [snd]; apply recs_nil|].
    destruct (begin_decode (slice 8 16 d)) as [role [[role' flags]|]].
    + destruct (id =? 0); cbn [snd]; apply recs_nil.
    + cbn [snd]. apply end_recs.
  - destruct ((t =? RT_GetValues) && hdr_is_management t id); cbn [snd]; apply recs_nil.
Qed.

Lemma values_finish_recs wrap nxt q vars d o : recs o -> recs (snd (values_finish wrap nxt q vars d o)).
Proof. intros H. unfold values_finish. destruct (len d <? q); exact H. Qed.

Lemma values_drive_recs maxc wrap nxt vars p q d : recs (snd (values_drive maxc wrap nxt vars p q d)).
Proof.
  rewrite values_drive_eq. destruct (0 <? p).
  - destruct (nv_run (take (N.min (len d) p) d)) as [ps rest].
    destruct (len d <? p); [cbn [snd]; apply recs_nil|]. apply values_finish_recs, gv_recs.
  - apply values_finish_recs, recs_nil.
Qed.

Lemma stage_head_recs i d : recs (snd (stage_head i d)).
Proof.
  unfold stage_head. pose proof (try_head_recs (Params i 0 0) (params_skip_to i) d) as H.
  destruct (try_head (Params i 0 0) (params_skip_to i) d) as [t id cl pl|f o]; [|exact H].
  cbn [snd]. unfold sh_out. cbv zeta.
  destruct ((t =? RT_Params) && (id =? r_id (ireq i))); [apply recs_nil|].
  destruct ((t =? RT_AbortRequest) && (id =? r_id (ireq i))); [apply end_recs|].
  destruct ((t =? RT_BeginRequest) && negb (id =? r_id (ireq i))); [apply end_recs|apply recs_nil].
Qed.

Lemma stage_pad_recs i q d : recs (snd (stage_pad i q d)).
Proof.
  unfold stage_pad. destruct (0 <? q); [|apply stage_head_recs].
  destruct (len d <=? q); [cbn [snd]; apply recs_nil|apply stage_head_recs].
Qed.

Lemma params_drive_recs norm i p q d : recs (snd (params_drive norm i p q d)).
Proof.
  rewrite ReqDrive.params_drive_eq. destruct (0 <? p); [|apply stage_pad_recs].
  destruct (len d <? p).
  - destruct (parse_stream norm i d false) as [[i' c]|]; [|cbn [snd]; apply recs_nil].
    destruct (p <? c); [cbn [snd]; apply recs_nil|]. destruct (len d <? c); cbn [snd]; apply recs_nil.
  - destruct (parse_stream norm i (take p d) true) as [[i' c]|]; [|cbn [snd]; apply recs_nil].
    destruct (negb (c =? p)); [cbn [snd]; apply recs_nil|apply stage_pad_recs].
Qed.

Lemma drive1_recs norm maxc s d : recs (snd (drive1 norm maxc s d)).
Proof.
  destruct s as [|p q|vars p q|i p q|i p q|i vars p q|r p q|r|e]; cbn [drive1 snd]; try apply recs_nil.
  - apply header_drive_recs.
  - apply values_drive_recs.
  - apply params_drive_recs.
  - apply values_drive_recs.
Qed.

Lemma drive_recs norm maxc : forall f s d out r s' o, recs out -> drive norm maxc f s d out = DOk r s' o -> recs o.
Proof.
  induction f as [|f IH]; intros s d out r s' o Ho E; [discriminate E|].
  rewrite drive_S in E. pose proof (drive1_recs norm maxc s d) as Hw.
  destruct (drive1 norm maxc s d) as [[r0 s0|r0 s0|n] o0]; cbn [snd] in Hw.
  - injection E as <- <- <-. apply recs_app; assumption.
  - destruct r0 as [|b r0'].
    + injection E as <- <- <-. apply recs_app; assumption.
    + apply (IH s0 (b :: r0') (out ++ o0) r s' o); [apply recs_app; assumption|exact E].
  - discriminate E.
Qed.

Lemma parse_out_recs norm maxc p new p' d out : parse norm maxc p new = POk p' d out -> recs out.
Proof.
  unfold parse. intros E. destruct (cap p - len (held p) <? len new); [discriminate E|].
  destruct (drive_all norm maxc (st p) (held p ++ new)) as [rest s' o|n|] eqn:ED; try discriminate E.
  assert (Ho : recs o) by (unfold drive_all in ED; apply (drive_recs norm maxc _ _ _ [] _ _ _ recs_nil ED)).
  destruct (len (held p ++ new) <? len rest); [discriminate E|].
  destruct (negb (is_final s') && (len rest =? cap p)); injection E as <- <- <-; exact Ho.
Qed.

(* ------------------------------------------------------------------------------------------ *)
(* Part B2: the stream parser appends only complete records to its output queue (no hypothesis) *)
(* ------------------------------------------------------------------------------------------ *)

Definition pext (p p' : sp) : Prop :=
  output_start p' = output_start p /\ exists o, output p' = output p ++ o /\ recs o.

Lemma pext_refl p : pext p p.
Proof. split; [reflexivity|]. exists []. split; [symmetry; apply app_nil_r|apply recs_nil]. Qed.

Lemma pext_trans a b c : pext a b -> pext b c -> pext a c.
Proof.
  intros (A1 & o1 & A2 & A3) (B1 & o2 & B2 & B3). split; [congruence|].
  exists (o1 ++ o2). split; [rewrite B2, A2, app_assoc; reflexivity|apply recs_app; assumption].
Qed.

Lemma pext_same p p' : output_start p' = output_start p -> output p' = output p -> pext p p'.
Proof. intros H1 H2. split; [exact H1|]. exists []. split; [rewrite H2; symmetry; apply app_nil_r|apply recs_nil]. Qed.

Lemma pext_add p p' o : output_start p' = output_start p -> output p' = output p ++ o -> recs o -> pext p p'.
Proof. intros H1 H2 H3. split; [exact H1|]. exists o. split; assumption. Qed.

Definition cf_ext (p : sp) (c : cflow) : Prop :=
  match c with CContinue l | CBreak l | CErr l _ => pext p (lp l) | CPanic _ => True end.

Lemma cf_ext_pre p p1 c : pext p p1 -> cf_ext p1 c -> cf_ext p c.
Proof. intros H. destruct c as [l|l|l e|n]; cbn [cf_ext]; try (apply pext_trans; exact H). exact (fun x => x). Qed.

Ltac pext_solve :=
  first [ exact I
        | apply pext_refl
        | apply pext_same; reflexivity
        | eapply pext_add; [reflexivity|reflexivity|first [apply gv_recs|apply unk_recs|apply end_recs]] ].

Lemma parse_payload_ext maxc l : cf_ext (lp l) (parse_payload maxc l).
Proof.
  unfold parse_payload. cbv beta zeta. split_goal_matches; cbn [cf_ext lp]; pext_solve.
Qed.

Lemma parse_head_ext l : cf_ext (lp l) (parse_head l).
Proof.
  unfold parse_head. cbv beta zeta. split_goal_matches; cbn [cf_ext lp]; pext_solve.
Qed.

Lemma after_pl_ext l : cf_ext (lp l) (after_pl l).
Proof.
  unfold after_pl. cbv zeta. destruct (0 <? padding_rem (lp l)); [|apply parse_head_ext].
  destruct (negb (payload_rem (lp l) =? 0)); [exact I|].
  destruct (free_start (lp l) - raw_start (lp l) <=? padding_rem (lp l)); [cbn [cf_ext lp]; pext_solve|].
  eapply cf_ext_pre; [|apply parse_head_ext]. cbn [lp]. pext_solve.
Qed.

Lemma parse_iter_ext maxc l : cf_ext (lp l) (parse_iter maxc l).
Proof.
  rewrite parse_iter_unfold. destruct (0 <? payload_rem (lp l)); [|apply after_pl_ext].
  pose proof (parse_payload_ext maxc l) as H. destruct (parse_payload maxc l) as [l'|l'|l' e|n]; try exact H.
  cbn [cf_ext] in H. eapply cf_ext_pre; [exact H|apply after_pl_ext].
Qed.

Lemma parse_loop_ext maxc fuel : forall l, cf_ext (lp l) (parse_loop maxc fuel l).
Proof.
  induction fuel as [|f IH]; intros l; [exact I|]. cbn [parse_loop].
  destruct (raw_start (lp l) <? free_start (lp l)); [|cbn [cf_ext]; apply pext_refl].
  pose proof (parse_iter_ext maxc l) as H. destruct (parse_iter maxc l) as [l'|l'|l' e|n]; try exact H.
  cbn [cf_ext] in H. eapply cf_ext_pre; [exact H|apply IH].
Qed.

Lemma sparse_ext maxc p new dest :
  match sparse maxc p new dest with StOk p' _ | StErr p' _ _ => pext p p' | StPanic _ => True end.
Proof.
  unfold sparse. destruct (match dest with Some _ => negb (parsed_start p =? gap_start p) | None => false end); [exact I|].
  destruct (len (buffer p) - free_start p <? len new); [exact I|]. cbv zeta.
  match goal with |- context [parse_loop maxc ?f ?l] => pose proof (parse_loop_ext maxc f l) as H; destruct (parse_loop maxc f l) as [l'|l'|l' e|n] end;
    cbn [cf_ext lp] in H; try exact I;
    try (destruct (invars_ok (lp l')); [|exact I]);
    (eapply pext_trans; [|exact H]); apply pext_same; reflexivity.
Qed.

Lemma set_stream_ext p s p' : set_stream p s = SetOk p' -> pext p p'.
Proof.
  unfold set_stream. intros E.
  repeat match type of E with
         | context [if ?c then _ else _] => destruct c
         | context [match ?x with _ => _ end] => destruct x
         end; try discriminate E; injection E as <-; apply pext_same; reflexivity.
Qed.

(* ------------------------------------------------------------------------------------------ *)
(* Part C1: the invariants                                                                      *)
(* ------------------------------------------------------------------------------------------ *)

(* the output cursor of the stream parser is inside its queue *)
Definition oinv (p : sp) : Prop := output_start p <= len (output p).

(* the transport: no write fault left; in mode [g = true] moreover no shutdown is ever requested *)
Definition WI (g : bool) (w : world) : Prop :=
  no_fault (wscript w) /\ (g = true -> stop_at w = 0 /\ stopped w = false).

(* the request: the unsent parser output completes the log to whole records; with the output lock free the log is whole *)
Definition FI (r : rstate) (w : world) : Prop :=
  oinv (rsp r) /\ recs (wlog w ++ output_buffer (rsp r)) /\ (rlock r = false -> recs (wlog w)).

(* wherever the task stops: the log is framed; in mode [g = true] it does not stop by returning *)
Definition HP (g : bool) (o : outcome) (w : world) : Prop := framed (wlog w) /\ (g = true -> o <> ORet).

Definition rpost {X} (g : bool) (x : res (X * rstate)) : Prop :=
  match x with Ok (_, r') w' => WI g w' /\ FI r' w' | Halt o w' => HP g o w' end.

Lemma pext_out p p' : oinv p -> pext p p' -> oinv p' /\ exists o, output_buffer p' = output_buffer p ++ o /\ recs o.
Proof.
  unfold oinv, output_buffer. intros H (E1 & o & E2 & Ho). rewrite E1, E2. split; [rewrite len_app; lia|].
  exists o. split; [apply drop_app_le; exact H|exact Ho].
Qed.

Lemma FI_pext r w p' wr ab : FI r w -> pext (rsp r) p' -> FI (mkR p' wr (rlock r) ab) w.
Proof.
  intros (O & A & B) X. destruct (pext_out _ _ O X) as (O' & o & E & Ho). unfold FI. cbn [rsp rlock].
  split; [exact O'|]. split; [rewrite E, app_assoc; apply recs_app; assumption|exact B].
Qed.

Lemma FI_framed r w : FI r w -> framed (wlog w).
Proof. intros (_ & A & _). eapply framed_recs. exact A. Qed.

Lemma FI_wlog r w w' : FI r w -> wlog w' = wlog w -> FI r w'.
Proof. intros (O & A & B) E. unfold FI. rewrite E. split; [exact O|]. split; [exact A|exact B]. Qed.

Lemma FI_HP g r w o : FI r w -> o <> ORet -> HP g o w.
Proof. intros F H. split; [eapply FI_framed; exact F|intros _; exact H]. Qed.

Lemma consume_output_oinv p n : oinv p -> oinv (consume_output p n).
Proof.
  unfold oinv, consume_output. intros H.
  destruct (N.leb_spec (len (output p) - output_start p) n) as [L|L]; cbn [output output_start]; [|lia].
  change (len (@nil N)) with 0. lia.
Qed.

Lemma no_fault_hd ws k : no_fault ws -> hd_error ws = Some k -> k <> W_ZERO /\ k <> W_ERR /\ k <> W_ERR_AB.
Proof.
  intros H E. destruct ws as [|x t]; [discriminate E|]. cbn [hd_error] in E. injection E as ->.
  unfold no_fault in H. apply Forall_cons_iff in H. exact (proj1 H).
Qed.

Lemma WI_bump g w : WI g w -> WI g (w_bump w).
Proof.
  intros [A B]. split; [exact A|]. intros Hg. destruct (B Hg) as [S1 S2]. split; [exact S1|].
  change (stopped (w_bump w)) with (stopped w || (epoch w + 1 =? stop_at w)). rewrite S1, S2. cbn [orb].
  apply N.eqb_neq. lia.
Qed.

Lemma WI_stop w : WI false w -> WI false (w_stop w).
Proof. intros [A _]. split; [exact A|discriminate]. Qed.

Lemma WI_weaken g w : WI g w -> WI false w.
Proof. intros [A _]. split; [exact A|discriminate]. Qed.

Lemma on_wake_fr {A} g sel w (retry : world -> res A) (Q : res A -> Prop) :
  WI g w -> (WI g (w_bump w) -> Q (retry (w_bump w))) -> (g = false -> Q (Halt ORet (w_bump w))) -> Q (on_wake sel w retry).
Proof.
  intros W H1 H2. unfold on_wake. pose proof (WI_bump g w W) as Wb.
  destruct (sel && stopped (w_bump w)) eqn:E; [|apply H1; exact Wb].
  destruct g; [|apply H2; reflexivity]. destruct Wb as [_ B]. destruct (B eq_refl) as [_ S].
  rewrite S, andb_false_r in E. discriminate E.
Qed.

Lemma on_block_fr {A} g sel w (retry : world -> res A) (Q : res A -> Prop) :
  WI g w -> (g = false -> WI false (w_stop w) -> Q (retry (w_stop w))) -> (g = false -> Q (Halt ORet (w_stop w))) ->
  Q (Halt ODeadlock w) -> Q (on_block sel w retry).
Proof.
  intros W H1 H2 H3. unfold on_block. destruct (negb (stop_at w =? 0) && negb (stopped w)) eqn:E; [|exact H3].
  destruct g.
  - destruct W as [_ B]. destruct (B eq_refl) as [S1 S2]. rewrite S1 in E. discriminate E.
  - destruct sel; [apply H2; reflexivity|apply H1; [reflexivity|apply WI_stop; exact W]].
Qed.

(* -- the transport -- *)
Lemma tpw_fr g offer w p w' : t_poll_write offer w = (p, w') -> WI g w ->
  WI g w' /\
  match p with
  | PReady (inl n) => wlog w' = wlog w ++ take n offer /\ n <= len offer /\ (n = 0 -> offer = [])
  | PReady (inr _) => False
  | PWake => wlog w' = wlog w
  | PBlock => False
  end.
Proof.
  intros E [Hnf Hs]. destruct (t_poll_write_cases offer w p w' E) as (Hio & _ & _ & Hst & Hnf' & Hp).
  split.
  { split; [apply Hnf'; exact Hnf|]. intros Hg. destruct (Hs Hg) as [S1 S2].
    destruct (io_rel_same _ _ _ Hio) as (_ & _ & _ & Hsa & _). split; [rewrite Hsa; exact S1|rewrite Hst; exact S2]. }
  pose proof (io_rel_wlog _ _ _ Hio) as Hl.
  destruct p as [[n|k]| |].
  - destruct Hp as [Hn Hn0]. split; [exact Hl|]. split; [exact Hn|]. intros Hz. destruct (Hn0 Hz) as [H|H]; [exact H|].
    exfalso. destruct (no_fault_hd _ _ Hnf H) as (X & _). apply X. reflexivity.
  - destruct Hp as [[_ H]|[_ H]]; destruct (no_fault_hd _ _ Hnf H) as (_ & X & Y); [apply X|apply Y]; reflexivity.
  - rewrite app_nil_r in Hl. exact Hl.
  - exact Hp.
Qed.

Lemma tpr_fr g L w p w' : t_poll_read L w = (p, w') -> WI g w -> WI g w' /\ wlog w' = wlog w.
Proof.
  unfold t_poll_read. intros E W.
  repeat match type of E with
  | (if ?c then _ else _) = _ => destruct c
  | (match ?x with _ => _ end) = _ => destruct x
  end; injection E as <- <-; (split; [exact W|reflexivity]).
Qed.

Lemma await_read_fr g : forall fuel sel L w, WI g w ->
  match await_read fuel sel L w with
  | Ok _ w' => WI g w' /\ wlog w' = wlog w
  | Halt o w' => wlog w' = wlog w /\ (g = true -> o <> ORet)
  end.
Proof.
  induction fuel as [|f IH]; intros sel L w W; [split; [reflexivity|discriminate]|].
  cbn [await_read]. destruct (t_poll_read L w) as [p w1] eqn:ET. destruct (tpr_fr g L w p w1 ET W) as [W1 L1].
  set (Q := fun x : res (bytes + N) =>
              match x with Ok _ w' => WI g w' /\ wlog w' = wlog w | Halt o w' => wlog w' = wlog w /\ (g = true -> o <> ORet) end).
  assert (RETRY : forall w2, WI g w2 -> wlog w2 = wlog w1 -> Q (await_read f sel L w2)).
  { intros w2 W2 L2. specialize (IH sel L w2 W2). unfold Q. rewrite <- L1, <- L2.
    destruct (await_read f sel L w2); exact IH. }
  destruct p as [a| |].
  - split; assumption.
  - apply (on_wake_fr g sel w1 _ Q W1).
    + intros Wb. apply RETRY; [exact Wb|reflexivity].
    + intros ->. split; [exact L1|discriminate].
  - apply (on_block_fr g sel w1 _ Q W1).
    + intros -> Ws. apply RETRY; [exact Ws|reflexivity].
    + intros ->. split; [exact L1|discriminate].
    + split; [exact L1|discriminate].
Qed.

(* -- write loops: the invariant of the world -- *)
Lemma awa_WI g : forall fuel sel b w, WI g w -> WI g (res_w (await_write_all fuel sel b w)).
Proof.
  induction fuel as [|f IH]; intros sel b w W; [exact W|]. cbn [await_write_all].
  destruct b as [|x b']; [exact W|].
  destruct (t_poll_write (x :: b') w) as [p w1] eqn:ET. destruct (tpw_fr g _ w p w1 ET W) as [W1 C].
  destruct p as [[n|k]| |]; try contradiction.
  - destruct (n =? 0); [exact W1|apply IH; exact W1].
  - apply (on_wake_fr g sel w1 _ (fun x => WI g (res_w x)) W1).
    + intros Wb. apply IH. exact Wb.
    + intros _. apply WI_bump. exact W1.
Qed.

Lemma write_slices_WI g : forall fuel slices w, WI g w -> WI g (res_w (write_slices fuel slices w)).
Proof.
  induction fuel as [|f IH]; intros slices w W; [exact W|]. rewrite ConnWrites.write_slices_S.
  destruct (filter nonempty slices) as [|s1 more]; [exact W|].
  match goal with |- context [t_poll_write ?o w] => destruct (t_poll_write o w) as [p w1] eqn:ET; destruct (tpw_fr g o w p w1 ET W) as [W1 C] end.
  destruct p as [[n|k]| |]; try contradiction.
  - destruct (n =? 0); [exact W1|apply IH; exact W1].
  - apply (on_wake_fr g false w1 _ (fun x => WI g (res_w x)) W1).
    + intros Wb. apply IH. exact Wb.
    + intros _. apply WI_bump. exact W1.
Qed.

Lemma writer_write_all_WI g stype id : forall fuel data w, WI g w -> WI g (res_w (writer_write_all fuel stype id data w)).
Proof.
  induction fuel as [|f IH]; intros data w W; [exact W|]. rewrite writer_write_all_S.
  destruct data as [|x d]; [exact W|]. cbv zeta.
  match goal with |- context [write_slices ?fu ?sl w] =>
    pose proof (write_slices_WI g fu sl w W) as H; destruct (write_slices fu sl w) as [[k|] w1|o w1] end;
    cbn [res_w] in H |- *; [exact H|apply IH; exact H|exact H].
Qed.

(* what a "write all of b" loop leaves behind on a fault-free transport *)
Definition wfr (g : bool) (b : bytes) (w : world) (x : res (option N)) : Prop :=
  match x with
  | Ok None w' => WI g w' /\ wlog w' = wlog w ++ b
  | Ok (Some _) _ => False
  | Halt o w' => HP g o w'
  end.

Lemma wpost_fr g sel b w x : wpost sel b w x -> WI g w -> WI g (res_w x) -> recs (wlog w ++ b) -> wfr g b w x.
Proof.
  destruct x as [[k|] w'|o w']; cbn [wpost res_w wfr].
  - intros H W _ _. exact (wpost_no_fault sel b w k w' (proj1 W) H).
  - intros Hio _ W' _. split; [exact W'|apply io_rel_wlog; exact Hio].
  - destruct o; try contradiction.
    + intros (_ & Hst & b1 & b2 & Hb & _ & Hio) _ W' R. split.
      * rewrite (io_rel_wlog _ _ _ Hio). apply (framed_recs _ b2). rewrite <- app_assoc, <- Hb. exact R.
      * intros ->. destruct W' as [_ B]. destruct (B eq_refl) as [_ S]. congruence.
    + intros (b1 & b2 & Hb & Hio) _ _ R. split; [|discriminate].
      rewrite (io_rel_wlog _ _ _ Hio). apply (framed_recs _ b2). rewrite <- app_assoc, <- Hb. exact R.
Qed.

Lemma awa_fr g fuel sel b w : WI g w -> recs (wlog w ++ b) -> wfr g b w (await_write_all fuel sel b w).
Proof.
  intros W R. apply (wpost_fr g sel); [apply await_write_all_post|exact W|apply awa_WI; exact W|exact R].
Qed.

Lemma wwa_fr g fuel stype id data w : WI g w -> recs (wlog w) -> known_type stype = true ->
  wfr g (stream_records stype id data) w (writer_write_all fuel stype id data w).
Proof.
  intros W R Ht. apply (wpost_fr g false); [apply writer_write_all_post|exact W|apply writer_write_all_WI; exact W|].
  apply recs_app; [exact R|apply stream_records_recs; exact Ht].
Qed.
